import MidnightZK.Proofs.C02.Combination
import MidnightZK.Proofs.C02.MultisetPoly
import MidnightZK.Proofs.C02.PermSound
import MidnightZK.Proofs.C02.LookupSound
import MidnightZK.Proofs.C02.IdsCover
import MidnightZK.Model.C01.Arguments
/-!
# C02 — from the verifier-side rules read on every row to the row-level meaning

`Model/C01/Arguments.lean` reads the identities of `permutation.rs: expressions`,
`lookup.rs: Evaluated::expressions` and `trash.rs: Evaluated::expressions` on one row of the
domain (`permExpressionsRow`, `lookupExpressionsRow`, `trashExpressionRow`, vectors as `List F`).
This file instantiates the abstract soundness lemmas of `PermSound.lean`, `LookupSound.lean`,
`MultisetPoly.lean` and `Combination.lean` (stated over functions `ℕ → F`) with that List-based
row model and assembles the per-argument soundness statements.
-/
namespace MidnightZK.C02
open Finset MidnightZK.C01.Args Polynomial
variable {F : Type} [Field F]

/-! ## lookup argument: rows ⇒ rules -/


theorem lookup_rows_imply_rules (n bf : ℕ) (hn : 0 < n) (β γ : F) (A S A' S' z : List F)
    (h : ∀ i < n, ∀ x ∈ lookupExpressionsRow n bf β γ A S A' S' z i, x = 0) :
    LookupPermutedRules (n - (bf + 1)) (fun i => A'.getD i 0) (fun i => S'.getD i 0) ∧
    LookupProductRules (n - (bf + 1)) (fun i => z.getD i 0) (fun i => A.getD i 0) (fun i => S.getD i 0)
      (fun i => A'.getD i 0) (fun i => S'.getD i 0) β γ := by
  have hu : n - (bf + 1) < n := by omega
  have H : ∀ i < n, _ := fun i hi => by
    have := h i hi
    simp only [lookupExpressionsRow, List.mem_cons, List.not_mem_nil, or_false, forall_eq_or_imp,
      forall_eq] at this
    exact this
  refine ⟨⟨?_, ?_⟩, ⟨?_, ?_, ?_⟩⟩
  · have := (H 0 hn).2.2.2.1
    simpa [sub_eq_zero] using this
  · intro i h1 hiu
    have hi : i < n := by omega
    have := (H i hi).2.2.2.2
    have e1 : (i + (n - 1)) % n = i - 1 := by
      have : i + (n - 1) = (i - 1) + n := by omega
      rw [this, Nat.add_mod_right, Nat.mod_eq_of_lt (by omega)]
    have e2 : ¬ i = n - (bf + 1) := by omega
    have e3 : ¬ n - (bf + 1) < i := by omega
    simpa [e1, e2, e3] using this
  · have := (H 0 hn).1
    simp at this
    exact (sub_eq_zero.mp this).symm
  · have := (H _ hu).2.1
    simp at this
    have h2 : (z.getD (n - (bf + 1)) 0) ^ 2 - z.getD (n - (bf + 1)) 0 = 0 := by rw [sq]; exact this
    exact sub_eq_zero.mp h2
  · intro i hiu
    have hi : i < n := by omega
    have := (H i hi).2.2.1
    have e1 : (i + 1) % n = i + 1 := Nat.mod_eq_of_lt (by omega)
    have e2 : ¬ i = n - (bf + 1) := by omega
    have e3 : ¬ n - (bf + 1) < i := by omega
    simp [e1, e2, e3] at this
    exact sub_eq_zero.mp this

/-! ## permutation argument: rows ⇒ rules -/


/-- value of running product `s` on row `i` -/
def zOf (zs : List (List F)) (s i : ℕ) : F := (zs.getD s []).getD i 0
def vOf (cols : List (List F × List F)) (c i : ℕ) : F := (cols.getD c ([], [])).1.getD i 0
def sigmaOf (cols : List (List F × List F)) (c i : ℕ) : F := (cols.getD c ([], [])).2.getD i 0
def idlOf (δ ω : F) (c i : ℕ) : F := δ ^ c * ω ^ i

theorem powN_eq_pow (x : F) (k : ℕ) : powN x k = x ^ k := by
  induction k with
  | zero => simp [powN]
  | succ k ih => rw [powN, ih, pow_succ]

theorem foldl_mul_prod {α : Type} (g : α → F) (d : α) (l : List α) (a : F) :
    l.foldl (fun acc c => acc * g c) a = a * ∏ j ∈ range l.length, g (l.getD j d) := by
  induction l generalizing a with
  | nil => simp
  | cons x t ih =>
    rw [List.foldl_cons, ih, List.length_cons, prod_range_succ']
    simp only [List.getD_cons_succ, List.getD_cons_zero]
    ring

theorem foldl_delta_prod {α : Type} (g : α → F) (γ δ : F) (d : α) (l : List α) (a dl : F) :
    l.foldl (fun (st : F × F) c => (st.1 * (g c + st.2 + γ), st.2 * δ)) (a, dl) =
      (a * ∏ j ∈ range l.length, (g (l.getD j d) + dl * δ ^ j + γ), dl * δ ^ l.length) := by
  induction l generalizing a dl with
  | nil => simp
  | cons x t ih =>
    rw [List.foldl_cons, ih, List.length_cons, prod_range_succ']
    simp only [List.getD_cons_succ, List.getD_cons_zero, pow_zero, mul_one, pow_succ]
    ext
    · simp only
      have : ∀ j, dl * δ * δ ^ j = dl * (δ ^ j * δ) := fun j => by ring
      simp only [this]
      ring
    · simp only; ring

theorem args_chunks_eq {α : Type} (m fuel : ℕ) (l : List α) :
    MidnightZK.C01.Args.chunks m fuel l = Ids.chunksFuel m fuel l := by
  induction fuel generalizing l with
  | zero => rfl
  | succ k ih => simp only [MidnightZK.C01.Args.chunks, Ids.chunksFuel, ih]

theorem chunksFuel_getD {α : Type} (m : ℕ) (hm : 0 < m) (fuel : ℕ) (l : List α) (h : l.length ≤ fuel) (s : ℕ) :
    (Ids.chunksFuel m fuel l).getD s [] = (l.drop (s * m)).take m := by
  induction fuel generalizing l s with
  | zero =>
    have : l = [] := List.eq_nil_of_length_eq_zero (Nat.le_zero.mp h)
    subst this; simp [Ids.chunksFuel]
  | succ k ih =>
    unfold Ids.chunksFuel
    by_cases hl : l.isEmpty
    · have : l = [] := List.isEmpty_iff.mp hl
      subst this; simp
    · simp only [hl, Bool.false_eq_true, ↓reduceIte]
      cases s with
      | zero => simp
      | succ s =>
        rw [List.getD_cons_succ, ih (l.drop m) (by rw [List.length_drop]; cases l with | nil => simp at hl | cons _ _ => simp at h ⊢; omega)]
        rw [List.drop_drop]
        congr 2
        ring

theorem getD_eq_getElem' {α : Type} (l : List α) (d : α) (i : ℕ) (h : i < l.length) : l.getD i d = l[i] := by
  simp [List.getD, h]

theorem perm_rows_imply_rules (L n bf : ℕ) (hL : 0 < L) (hn : 0 < n) (β γ δ ω : F)
    (cols : List (List F × List F)) (zs : List (List F)) (hm : 0 < cols.length)
    (hS : zs.length = numSets cols.length L)
    (h : ∀ i < n, ∀ x ∈ permExpressionsRow L n bf β γ δ ω cols zs i, x = 0) :
    PermRowRules cols.length L zs.length (n - (bf + 1)) (zOf zs) (vOf cols) (idlOf δ ω)
      (sigmaOf cols) β γ := by
  have hSpos : 0 < zs.length := by rw [hS]; exact numSets_pos _ _ hm hL
  have hu : n - (bf + 1) < n := by omega
  have H : ∀ i < n, _ := fun i hi => by
    have := h i hi
    simp only [permExpressionsRow, List.mem_append, or_imp, forall_and] at this
    exact this
  refine ⟨?_, ?_, ?_, ?_⟩
  · -- first
    have h0 := (H 0 hn).1.1.1
    have hh : zs.head? = some (zs.getD 0 []) := by
      rw [List.head?_eq_getElem?, getD_eq_getElem' _ _ _ hSpos]; simp [hSpos]
    rw [hh] at h0
    simp only [Option.map_some, Option.toList_some, List.mem_singleton, forall_eq, ↓reduceIte,
      one_mul] at h0
    exact (sub_eq_zero.mp h0).symm
  · -- last
    have h0 := (H _ hu).1.1.2
    have hh : zs.getLast? = some (zs.getD (zs.length - 1) []) := by
      rw [List.getLast?_eq_getElem?, getD_eq_getElem' _ _ _ (by omega)]; simp [hSpos]
    rw [hh] at h0
    simp only [Option.map_some, Option.toList_some, List.mem_singleton, forall_eq, ↓reduceIte,
      mul_one] at h0
    unfold zOf
    rw [sq]
    exact sub_eq_zero.mp h0
  · -- chain
    intro s hs1 hsS
    have h0 := (H 0 hn).1.2
    have hmem : ((zs.drop 1).zip zs)[s - 1]? = some (zs.getD s [], zs.getD (s - 1) []) := by
      rw [getD_eq_getElem' _ _ _ hsS, getD_eq_getElem' _ _ _ (by omega)]
      rw [List.getElem?_zip_eq_some]
      constructor
      · rw [List.getElem?_drop]
        have : 1 + (s - 1) = s := by omega
        rw [this]; simp [hsS]
      · simp [show s - 1 < zs.length by omega]
    have := h0 _ (List.mem_map.mpr ⟨_, List.mem_of_getElem? hmem, rfl⟩)
    simp only [↓reduceIte, mul_one, Nat.zero_add, Nat.mod_eq_of_lt hu] at this
    exact sub_eq_zero.mp this
  · -- product rule
    intro s hsS i hiu
    have hi : i < n := by omega
    have h0 := (H i hi).2
    have hclen : (chunks L cols.length cols).length = zs.length := by
      rw [args_chunks_eq, Ids.chunksFuel_length L hL _ _ (Nat.le_refl _), hS]; rfl
    have hmem : ((zs.zip (chunks L cols.length cols)).zipIdx)[s]? =
        some ((zs.getD s [], (cols.drop (s * L)).take L), s) := by
      rw [List.getElem?_zipIdx]
      have hz : (zs.zip (chunks L cols.length cols))[s]? = some (zs.getD s [], (cols.drop (s * L)).take L) := by
        rw [List.getElem?_zip_eq_some]
        constructor
        · rw [getD_eq_getElem' _ _ _ hsS]; simp [hsS]
        · rw [← chunksFuel_getD L hL cols.length cols (Nat.le_refl _) s, ← args_chunks_eq,
            getD_eq_getElem' _ _ _ (by omega)]
          simp [hclen, hsS]
      rw [hz]; simp
    have hx := h0 _ (List.mem_map.mpr ⟨_, List.mem_of_getElem? hmem, rfl⟩)
    have e1 : (i + 1) % n = i + 1 := Nat.mod_eq_of_lt (by omega)
    have e2 : ¬ i = n - (bf + 1) := by omega
    have e3 : ¬ n - (bf + 1) < i := by omega
    simp only [e1, e2, e3, ↓reduceIte, add_zero, sub_zero, mul_one] at hx
    have hx := sub_eq_zero.mp hx
    -- the chunk on row i
    set ch := (cols.drop (s * L)).take L with hch
    set f : List F × List F → F × F := fun c => (c.1.getD i 0, c.2.getD i 0) with hf
    have hlen : (ch.map f).length = min ((s + 1) * L) cols.length - s * L := by
      rw [List.length_map, hch, List.length_take, List.length_drop]
      have : (s + 1) * L = s * L + L := by ring
      omega
    have hget : ∀ j, j < (ch.map f).length → (ch.map f).getD j (f ([], [])) = (vOf cols (s * L + j) i, sigmaOf cols (s * L + j) i) := by
      intro j hj
      have hjc : j < ch.length := by simpa using hj
      rw [getD_eq_getElem' _ _ _ hj, List.getElem_map, ← getD_eq_getElem' ch ([], []) j hjc]
      have hjL : j < L := by
        rw [List.length_map, hch, List.length_take] at hj; omega
      have : ch.getD j ([], []) = cols.getD (s * L + j) ([], []) := by
        rw [hch]
        simp only [List.getD_eq_getElem?_getD, List.getElem?_take, hjL, ↓reduceIte, List.getElem?_drop]
      rw [this]
      rfl
    unfold permLeftRight at hx
    simp only at hx
    rw [foldl_mul_prod (fun c : F × F => c.1 + β * c.2 + γ) (f ([], [])),
      foldl_delta_prod (fun c : F × F => c.1) γ δ (f ([], []))] at hx
    simp only at hx
    unfold chunkCols zOf
    rw [prod_Ico_eq_prod_range, prod_Ico_eq_prod_range, ← hlen]
    have hP1 : ∏ j ∈ range (ch.map f).length,
        (((ch.map f).getD j (f ([], []))).1 + β * ((ch.map f).getD j (f ([], []))).2 + γ) =
        ∏ j ∈ range (ch.map f).length, (vOf cols (s * L + j) i + β * sigmaOf cols (s * L + j) i + γ) :=
      prod_congr rfl (fun j hj => by rw [hget j (mem_range.mp hj)])
    have hP2 : ∏ j ∈ range (ch.map f).length,
        (((ch.map f).getD j (f ([], []))).1 + β * powN ω i * powN δ (s * L) * δ ^ j + γ) =
        ∏ j ∈ range (ch.map f).length, (vOf cols (s * L + j) i + β * powN ω i * powN δ (s * L) * δ ^ j + γ) :=
      prod_congr rfl (fun j hj => by rw [hget j (mem_range.mp hj)])
    rw [hP1, hP2] at hx
    rw [hx]
    congr 1
    apply prod_congr rfl
    intro j _
    simp only [idlOf, powN_eq_pow]
    ring

/-! ## assembled statements -/

theorem prod_range_range_eq_prod_fin (m u : ℕ) (g : ℕ → ℕ → F) :
    ∏ c ∈ range m, ∏ i ∈ range u, g c i = ∏ k : Fin m × Fin u, g k.1 k.2 := by
  rw [Fintype.prod_prod_type, Finset.prod_range]
  apply Finset.prod_congr rfl
  intro c _
  rw [Finset.prod_range]

/-- Permutation argument, one good `β`: the set of `γ` that can be fooled has at most `2·m·u`
elements. -/
theorem perm_argument_sound_good_beta (L n bf : ℕ) (hL : 0 < L) (hn : 0 < n) (δ ω : F)
    (cols : List (List F × List F)) (hm : 0 < cols.length)
    (π : Equiv.Perm (Fin cols.length × Fin (n - (bf + 1))))
    (hid : Function.Injective fun k : Fin cols.length × Fin (n - (bf + 1)) => idlOf δ ω k.1 k.2)
    (hσ : ∀ k : Fin cols.length × Fin (n - (bf + 1)), sigmaOf cols k.1 k.2 = idlOf δ ω (π k).1 (π k).2)
    (β : F)
    (hβ : GoodBeta (permPairs (fun k : Fin cols.length × Fin (n - (bf + 1)) => vOf cols k.1 k.2)
      (fun k => idlOf δ ω k.1 k.2) (fun k => sigmaOf cols k.1 k.2)) β)
    (Γ : Finset F) (hΓ : 2 * (cols.length * (n - (bf + 1))) < Γ.card)
    (hrows : ∀ γ ∈ Γ, ∃ zs : List (List F), zs.length = numSets cols.length L ∧
      ∀ i < n, ∀ x ∈ permExpressionsRow L n bf β γ δ ω cols zs i, x = 0) :
    ∀ k : Fin cols.length × Fin (n - (bf + 1)), vOf cols (π k).1 (π k).2 = vOf cols k.1 k.2 := by
  classical
  let vK : Fin cols.length × Fin (n - (bf + 1)) → F := fun k => vOf cols k.1 k.2
  let iK : Fin cols.length × Fin (n - (bf + 1)) → F := fun k => idlOf δ ω k.1 k.2
  let sK : Fin cols.length × Fin (n - (bf + 1)) → F := fun k => sigmaOf cols k.1 k.2
  let a : Fin cols.length × Fin (n - (bf + 1)) → F := fun k => vK k + β * sK k
  let b : Fin cols.length × Fin (n - (bf + 1)) → F := fun k => vK k + β * iK k
  have key : ∀ γ ∈ Γ, (∏ k, (γ + b k) = 0) ∨ (∏ k, (γ + a k) = ∏ k, (γ + b k)) := by
    intro γ hγ
    obtain ⟨zs, hS, hz⟩ := hrows γ hγ
    have rules := perm_rows_imply_rules L n bf hL hn β γ δ ω cols zs hm hS hz
    rw [hS] at rules
    obtain ⟨heq, h01⟩ := perm_rules_imply_product_eq' cols.length L (n - (bf + 1)) hm hL _ _ _ _ β γ rules
    rw [prod_range_range_eq_prod_fin, prod_range_range_eq_prod_fin] at heq
    have ea : ∏ k : Fin cols.length × Fin (n - (bf + 1)), (vOf cols k.1 k.2 + β * sigmaOf cols k.1 k.2 + γ) = ∏ k, (γ + a k) :=
      Finset.prod_congr rfl fun k _ => by simp only [a, vK, sK]; ring
    have eb : ∏ k : Fin cols.length × Fin (n - (bf + 1)), (vOf cols k.1 k.2 + β * idlOf δ ω k.1 k.2 + γ) = ∏ k, (γ + b k) :=
      Finset.prod_congr rfl fun k _ => by simp only [b, vK, iK]; ring
    rw [ea, eb] at heq
    rcases h01 with h0 | h1
    · left; rw [← heq, h0, zero_mul]
    · right; rw [← heq, h1, one_mul]
  set Γ0 := Γ.filter fun γ => ∏ k, (γ + b k) = 0 with hΓ0
  set Γ1 := Γ.filter fun γ => ¬ ∏ k, (γ + b k) = 0 with hΓ1
  have hc0 : Γ0.card ≤ cols.length * (n - (bf + 1)) := by
    have := zero_final_product_few_gamma b Γ0 (fun γ hγ => (mem_filter.mp hγ).2)
    simpa [Fintype.card_prod] using this
  have hsum : Γ0.card + Γ1.card = Γ.card := Finset.card_filter_add_card_filter_not _
  have hc1 : Fintype.card (Fin cols.length × Fin (n - (bf + 1))) < Γ1.card := by
    simp only [Fintype.card_prod, Fintype.card_fin]; omega
  have hms := prod_eq_many_gamma_imp_multiset_eq a b Γ1 hc1 (fun γ hγ =>
    (key γ (mem_filter.mp hγ).1).resolve_left (mem_filter.mp hγ).2)
  exact perm_multiset_eq_imp_copy vK iK sK π β hid hσ hβ hms


/-- Permutation argument, counting form. -/
theorem perm_argument_sound_count (L n bf : ℕ) (hL : 0 < L) (hn : 0 < n) (δ ω : F)
    (cols : List (List F × List F)) (hm : 0 < cols.length)
    (π : Equiv.Perm (Fin cols.length × Fin (n - (bf + 1))))
    (hid : Function.Injective fun k : Fin cols.length × Fin (n - (bf + 1)) => idlOf δ ω k.1 k.2)
    (hσ : ∀ k : Fin cols.length × Fin (n - (bf + 1)), sigmaOf cols k.1 k.2 = idlOf δ ω (π k).1 (π k).2) :
    ∃ Bad : Finset F, Bad.card ≤ (2 * (cols.length * (n - (bf + 1)))) ^ 2 ∧
      ∀ β, β ∉ Bad → ∀ Γ : Finset F, 2 * (cols.length * (n - (bf + 1))) < Γ.card →
        (∀ γ ∈ Γ, ∃ zs : List (List F), zs.length = numSets cols.length L ∧
          ∀ i < n, ∀ x ∈ permExpressionsRow L n bf β γ δ ω cols zs i, x = 0) →
        ∀ k : Fin cols.length × Fin (n - (bf + 1)), vOf cols (π k).1 (π k).2 = vOf cols k.1 k.2 := by
  classical
  obtain ⟨Bad, hcard, hBad⟩ := bad_beta_card_le
    (permPairs (fun k : Fin cols.length × Fin (n - (bf + 1)) => vOf cols k.1 k.2)
      (fun k => idlOf δ ω k.1 k.2) (fun k => sigmaOf cols k.1 k.2))
  refine ⟨Bad, ?_, fun β hβ Γ hΓ hrows =>
    perm_argument_sound_good_beta L n bf hL hn δ ω cols hm π hid hσ β (hBad β hβ) Γ hΓ hrows⟩
  have h2 := permPairs_card_le (fun k : Fin cols.length × Fin (n - (bf + 1)) => vOf cols k.1 k.2)
    (fun k => idlOf δ ω k.1 k.2) (fun k => sigmaOf cols k.1 k.2)
  simp only [Fintype.card_prod, Fintype.card_fin] at h2
  exact le_trans hcard (Nat.pow_le_pow_left h2 2)

/-- The challenges `β` with `∏_{i<u} (a i + β) = 0` are at most `u`. -/
theorem card_filter_prod_zero_le (u : ℕ) (a : ℕ → F) (B : Finset F) [DecidablePred fun β => ∏ i ∈ range u, (a i + β) = 0] :
    (B.filter fun β => ∏ i ∈ range u, (a i + β) = 0).card ≤ u := by
  have := zero_prod_few_challenges_multiset ((range u).val.map a)
    (B.filter fun β => ∏ i ∈ range u, (a i + β) = 0) (by
      intro β hβ
      rw [Multiset.map_map]
      have := (mem_filter.mp hβ).2
      simpa [Finset.prod, Function.comp_def, add_comm] using this)
  simpa using this

/-- Lookup argument on compressed values, no side condition on the final product. -/
theorem lookup_argument_sound_rows (n bf : ℕ) (hn : 0 < n) (A S A' S' : List F) (B Γ : Finset F)
    (hB : 2 * (n - (bf + 1)) < B.card) (hΓ : 2 * (n - (bf + 1)) < Γ.card)
    (hrows : ∀ β ∈ B, ∀ γ ∈ Γ, ∃ z : List F,
      ∀ i < n, ∀ x ∈ lookupExpressionsRow n bf β γ A S A' S' z i, x = 0) :
    ∀ i < n - (bf + 1), ∃ j < n - (bf + 1), A.getD i 0 = S.getD j 0 := by
  classical
  set u := n - (bf + 1) with hu
  let a : ℕ → F := fun i => A.getD i 0
  let s : ℕ → F := fun i => S.getD i 0
  set B1 := B.filter fun β => ¬ ∏ i ∈ range u, (a i + β) = 0 with hB1
  set Γ1 := Γ.filter fun γ => ¬ ∏ i ∈ range u, (s i + γ) = 0 with hΓ1
  have hcB : u < B1.card := by
    have h1 := card_filter_prod_zero_le u a B
    have h2 : (B.filter fun β => ∏ i ∈ range u, (a i + β) = 0).card + B1.card = B.card :=
      Finset.card_filter_add_card_filter_not (s := B) (fun β => ∏ i ∈ range u, (a i + β) = 0)
    omega
  have hcΓ : u < Γ1.card := by
    have h1 := card_filter_prod_zero_le u s Γ
    have h2 : (Γ.filter fun γ => ∏ i ∈ range u, (s i + γ) = 0).card + Γ1.card = Γ.card :=
      Finset.card_filter_add_card_filter_not (s := Γ) (fun γ => ∏ i ∈ range u, (s i + γ) = 0)
    omega
  have hperm : LookupPermutedRules u (fun i => A'.getD i 0) (fun i => S'.getD i 0) := by
    have hBne : B.Nonempty := Finset.card_pos.mp (by omega)
    have hΓne : Γ.Nonempty := Finset.card_pos.mp (by omega)
    obtain ⟨β, hβ⟩ := hBne
    obtain ⟨γ, hγ⟩ := hΓne
    obtain ⟨z, hz⟩ := hrows β hβ γ hγ
    exact (lookup_rows_imply_rules n bf hn β γ A S A' S' z hz).1
  apply lookup_argument_sound_compressed u a s _ _ B1 Γ1 hcB hcΓ hperm
  intro β hβ γ hγ
  obtain ⟨z, hz⟩ := hrows β (mem_filter.mp hβ).1 γ (mem_filter.mp hγ).1
  have hrules := (lookup_rows_imply_rules n bf hn β γ A S A' S' z hz).2
  refine ⟨fun i => z.getD i 0, hrules, ?_⟩
  intro hz0
  have hz0' : z.getD u 0 = 0 := hz0
  obtain ⟨heq, _⟩ := lookup_product_rules_imply_prod_eq u _ _ _ _ _ β γ hrules
  simp only [hz0', zero_mul, prod_mul_distrib] at heq
  rcases mul_eq_zero.mp heq.symm with h | h
  · exact (mem_filter.mp hβ).2 h
  · exact (mem_filter.mp hγ).2 h

/-- `compress` on row `i` is the Horner fold of the tuple of expression values on that row. -/
theorem compressRow_eq_foldY (θ : F) (exprs : List (List F)) (i : ℕ) :
    compressRow θ exprs i = foldY (exprs.map fun e => e.getD i 0) θ := by
  unfold compressRow foldY
  rw [List.foldl_map]

/-- Trash argument. -/
theorem trash_argument_sound_rows (exprs : List (List F)) (q : List F) (i : ℕ) (hq : q.getD i 0 = 1)
    (Θ : Finset F) (hΘ : exprs.length ≤ Θ.card)
    (h : ∀ c ∈ Θ, ∃ trash : List F, trashExpressionRow c q exprs trash i = 0) :
    ∀ e ∈ exprs, e.getD i 0 = 0 := by
  have hall := y_combination_sound_aux (exprs.map fun e => e.getD i 0) Θ (by simpa using hΘ) (by
    intro c hc
    obtain ⟨trash, ht⟩ := h c hc
    unfold trashExpressionRow at ht
    rw [hq, sub_self, zero_mul, sub_zero, compressRow_eq_foldY] at ht
    exact ht)
  intro e he
  exact hall _ (List.mem_map.mpr ⟨e, he, rfl⟩)

/-! ## θ-compression of lookup tuples; evaluation at `x`; the verifier's single equation -/

/-- The θ-compressed column of a list of expression value vectors. -/
def compressCol (θ : F) (exprs : List (List F)) (n : ℕ) : List F := (List.range n).map (compressRow θ exprs)

theorem compressCol_getD (θ : F) (exprs : List (List F)) (n i : ℕ) (hi : i < n) :
    (compressCol θ exprs n).getD i 0 = foldY (exprs.map fun e => e.getD i 0) θ := by
  unfold compressCol
  rw [getD_eq_getElem' _ _ _ (by simpa using hi), List.getElem_map, List.getElem_range, compressRow_eq_foldY]

theorem lookup_argument_sound_tuples_aux (n bf : ℕ) (hn : 0 < n) (inp tab : List (List F))
    (hlen : inp.length = tab.length) (i₀ : ℕ) (hi₀ : i₀ < n - (bf + 1))
    (hnot : ∀ j < n - (bf + 1), (inp.map fun e => e.getD i₀ 0) ≠ tab.map fun e => e.getD j 0)
    (Θ : Finset F)
    (h : ∀ θ ∈ Θ, ∃ (A' S' : List F) (B Γ : Finset F), 2 * (n - (bf + 1)) < B.card ∧
      2 * (n - (bf + 1)) < Γ.card ∧ ∀ β ∈ B, ∀ γ ∈ Γ, ∃ z : List F, ∀ i < n,
        ∀ x ∈ lookupExpressionsRow n bf β γ (compressCol θ inp n) (compressCol θ tab n) A' S' z i, x = 0) :
    Θ.card ≤ (n - (bf + 1)) * (inp.length - 1) := by
  apply theta_membership_few (n - (bf + 1)) inp.length (inp.map fun e => e.getD i₀ 0)
    (fun j => tab.map fun e => e.getD j 0) (by simp) (fun j _ => by simp [hlen]) hnot Θ
  intro θ hθ
  obtain ⟨A', S', B, Γ, hB, hΓ, hrows⟩ := h θ hθ
  obtain ⟨j, hj, hEq⟩ := lookup_argument_sound_rows n bf hn _ _ A' S' B Γ hB hΓ hrows i₀ hi₀
  refine ⟨j, hj, ?_⟩
  rw [compressCol_getD _ _ _ _ (by omega), compressCol_getD _ _ _ _ (by omega)] at hEq
  exact hEq

/-! ## x-evaluation -/

theorem x_evaluation_sound_aux (p : F[X]) (d : ℕ) (hd : p.natDegree ≤ d) (Xs : Finset F) (hX : d < Xs.card)
    (h : ∀ x ∈ Xs, p.eval x = 0) : p = 0 :=
  eq_zero_of_natDegree_lt_card_of_eval_eq_zero' p Xs h (lt_of_le_of_lt hd hX)

/-- `Σ y^k · id_k(X)` in the verifier's Horner order, as a polynomial in `X`. -/
noncomputable def combinedPoly (ids : List F[X]) (y : F) : F[X] := ids.foldl (fun acc p => acc * C y + p) 0

theorem eval_combinedPoly (ids : List F[X]) (y w : F) :
    (combinedPoly ids y).eval w = foldY (ids.map fun p => p.eval w) y := by
  unfold combinedPoly foldY
  rw [List.foldl_map]
  have : ∀ (acc : F[X]) (a : F), acc.eval w = a →
      (ids.foldl (fun acc p => acc * C y + p) acc).eval w = ids.foldl (fun h p => h * y + p.eval w) a := by
    induction ids with
    | nil => intro acc a h; simpa using h
    | cons p t ih =>
      intro acc a h
      simp only [List.foldl_cons]
      apply ih
      simp [h]
  exact this 0 0 (by simp)

theorem verifier_equation_sound_aux (ids : List F[X]) (n d : ℕ) (Y : Finset F) (hY : ids.length ≤ Y.card)
    (hq : ∀ y ∈ Y, ∃ (h : F[X]) (Xs : Finset F),
      (combinedPoly ids y - h * (X ^ n - 1)).natDegree ≤ d ∧ d < Xs.card ∧
      ∀ x ∈ Xs, (combinedPoly ids y).eval x = h.eval x * (x ^ n - 1)) :
    ∀ w : F, w ^ n = 1 → ∀ p ∈ ids, p.eval w = 0 := by
  intro w hw
  have hall := y_combination_sound_aux (ids.map fun p => p.eval w) Y (by simpa using hY) (by
    intro y hy
    obtain ⟨h, Xs, hd, hX, hx⟩ := hq y hy
    have hz := x_evaluation_sound_aux _ d hd Xs hX (fun x hx' => by
      rw [eval_sub, eval_mul, hx x hx']; simp)
    have hc : combinedPoly ids y = h * (X ^ n - 1) := sub_eq_zero.mp hz
    rw [← eval_combinedPoly, hc]
    simp [hw])
  intro p hp
  exact hall _ (List.mem_map.mpr ⟨p, hp, rfl⟩)

end MidnightZK.C02
