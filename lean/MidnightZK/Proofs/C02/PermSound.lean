import Mathlib.Algebra.BigOperators.Intervals
import Mathlib.Algebra.Field.Basic
import Mathlib.Data.Fintype.BigOperators
import Mathlib.Data.Finset.Prod
import Mathlib.Data.Rat.Defs
import Mathlib.Tactic.Ring
import Mathlib.Tactic.LinearCombination
import Mathlib.Tactic.FieldSimp
import Mathlib.Tactic.FinCases
import Mathlib.Tactic.NormNum
import Mathlib.Data.Fin.VecNotation
/-!
# C02 — algebraic soundness core of the permutation argument (row level)

Mirrors `proofs/src/plonk/permutation.rs: fn expressions` (the verifier's four rule families)
and `proofs/src/plonk/permutation/prover.rs: Argument::commit` (how the columns are chunked into
sets and how the running products are chained). Polynomials are replaced by their value vectors
on the domain; `l_0`, `l_last`, `l_blind` by the row indicators "row 0", "row `u`", "rows `> u`"
with `u = n − (blinding_factors + 1)`.

Indexing: columns of the permutation argument are `0 … m−1` (position in `p.columns`), rows are
natural numbers (only rows `0 … u` are ever touched, and `u < n`, so no wrap-around occurs),
`z s i` is the value of the running product of set `s` on row `i`.
-/
namespace MidnightZK.C02
open Finset

variable {F : Type} [Field F]

/-! ## Chunking of the columns into sets — `p.columns.chunks(chunk_len)` -/

/-- The (positions of the) columns of set `s` when `m` columns are cut, in order, into chunks of
`L = chunk_len = cs_degree − 2` columns: `p.columns.chunks(chunk_len)` in `fn expressions`,
`self.columns.chunks(chunk_len)` in `Argument::commit`. The last chunk may be shorter. -/
def chunkCols (m L s : ℕ) : Finset ℕ := Ico (s * L) (min ((s + 1) * L) m)

/-- Number of chunks of `slice.chunks(L)` on a slice of length `m`: `⌈m / L⌉`. -/
def numSets (m L : ℕ) : ℕ := (m + L - 1) / L

theorem numSets_covers (m L : ℕ) (hL : 0 < L) : m ≤ numSets m L * L := by
  unfold numSets
  have h1 := Nat.div_add_mod (m + L - 1) L
  have h2 := Nat.mod_lt (m + L - 1) hL
  have h3 : L * ((m + L - 1) / L) = (m + L - 1) / L * L := Nat.mul_comm _ _
  omega

theorem numSets_pos (m L : ℕ) (hm : 0 < m) (hL : 0 < L) : 0 < numSets m L := by
  unfold numSets
  apply Nat.div_pos <;> omega

/-- The chunks of the first `k` sets are exactly the columns `< min (k·L) m`, each once. -/
theorem prod_chunkCols (m L : ℕ) (f : ℕ → F) (k : ℕ) :
    ∏ s ∈ range k, ∏ c ∈ chunkCols m L s, f c = ∏ c ∈ range (min (k * L) m), f c := by
  induction k with
  | zero => simp
  | succ k ih =>
    rw [prod_range_succ, ih]
    unfold chunkCols
    have hle : min (k * L) m ≤ min ((k + 1) * L) m := by
      apply min_le_min_right
      exact Nat.mul_le_mul_right L (Nat.le_succ k)
    rw [← prod_range_mul_prod_Ico f hle]
    congr 1
    by_cases hk : k * L ≤ m
    · rw [min_eq_left hk]
    · have hk' : m < k * L := Nat.lt_of_not_le hk
      have h1 : min ((k + 1) * L) m ≤ k * L := le_trans (min_le_right _ _) hk'.le
      have h2 : min ((k + 1) * L) m ≤ min (k * L) m := by
        rw [min_eq_right hk'.le]; exact min_le_right _ _
      rw [Ico_eq_empty_of_le h1, Ico_eq_empty_of_le h2]

/-- All columns are covered once when there are enough sets. -/
theorem prod_chunkCols_all (m L S : ℕ) (hcover : m ≤ S * L) (f : ℕ → F) :
    ∏ s ∈ range S, ∏ c ∈ chunkCols m L s, f c = ∏ c ∈ range m, f c := by
  rw [prod_chunkCols, min_eq_right hcover]

/-- Sanity check of the chunking against concrete slices: 7 columns, `chunk_len = 3` give the
sets `{0,1,2}, {3,4,5}, {6}`. -/
example : numSets 7 3 = 3 ∧ chunkCols 7 3 0 = {0, 1, 2} ∧ chunkCols 7 3 1 = {3, 4, 5} ∧
    chunkCols 7 3 2 = {6} := by decide

/-! ## Telescoping -/

/-- One running product: if `z (i+1) · l i = z i · r i` on the rows `i < u`, then
`z u · ∏_{i<u} l i = z 0 · ∏_{i<u} r i`. -/
theorem telescope_prod (z l r : ℕ → F) (u : ℕ) (h : ∀ i < u, z (i + 1) * l i = z i * r i) :
    z u * ∏ i ∈ range u, l i = z 0 * ∏ i ∈ range u, r i := by
  induction u with
  | zero => simp
  | succ k ih =>
    have ih' := ih fun i hi => h i (Nat.lt_succ_of_lt hi)
    have hk := h k (Nat.lt_succ_self k)
    rw [prod_range_succ, prod_range_succ]
    linear_combination (∏ i ∈ range k, l i) * hk + r k * ih'

/-- Chaining the sets: the first set starts at `1`, every other set starts where the previous
one ended. -/
theorem chain_sets (S : ℕ) (z0 zu Lp Rp : ℕ → F) (h0 : z0 0 = 1)
    (hc : ∀ s, s + 1 < S → z0 (s + 1) = zu s) (ht : ∀ s < S, zu s * Lp s = z0 s * Rp s) :
    ∀ k, k < S → zu k * ∏ s ∈ range (k + 1), Lp s = ∏ s ∈ range (k + 1), Rp s := by
  intro k
  induction k with
  | zero =>
    intro hk
    have := ht 0 hk
    rw [h0] at this
    simp only [zero_add, range_one, prod_singleton]
    linear_combination this
  | succ k ih =>
    intro hk
    have ih' := ih (Nat.lt_of_succ_lt hk)
    have h1 := ht (k + 1) hk
    rw [hc k hk] at h1
    rw [prod_range_succ _ (k + 1), prod_range_succ _ (k + 1)]
    linear_combination (∏ s ∈ range (k + 1), Lp s) * h1 + Rp (k + 1) * ih'

/-! ## A1 — the four rule families imply the grand-product equality -/

/-- The row-level content of the identities emitted by `permutation.rs: fn expressions`, for
`m` columns cut into `S` sets of `L = chunk_len` columns, last usable row index
`u = n − (blinding_factors + 1)`, running products `z s i`, cell values `v c i`, identity labels
`idl c i` (`δ^c · ω^i` in the code, `current_delta`), permutation labels `σ c i`
(`common.permutation_evals`), challenges `β γ`. -/
structure PermRowRules (m L S u : ℕ) (z : ℕ → ℕ → F) (v idl σ : ℕ → ℕ → F) (β γ : F) : Prop where
  /-- `l_0(X) * (1 - z_0(X)) = 0` — first set only. -/
  first : z 0 0 = 1
  /-- `l_last(X) * (z_l(X)^2 - z_l(X)) = 0` — last set only. -/
  last : z (S - 1) u ^ 2 = z (S - 1) u
  /-- `l_0(X) * (z_i(X) - z_{i-1}(ω^(last) X)) = 0` — every set but the first. -/
  chain : ∀ s, 1 ≤ s → s < S → z s 0 = z (s - 1) u
  /-- `(1 - (l_last(X) + l_blind(X))) * (z_i(ωX) ∏ (p(X) + β s_i(X) + γ) - z_i(X) ∏ (p(X) + δ^i β X + γ)) = 0`
  — every set, on the active rows `i < u`; the products range over the columns of the set. -/
  prod : ∀ s < S, ∀ i < u,
    z s (i + 1) * ∏ c ∈ chunkCols m L s, (v c i + β * σ c i + γ) =
      z s i * ∏ c ∈ chunkCols m L s, (v c i + β * idl c i + γ)

/-- **A1 — telescoping of the permutation rules.** Mirrors `permutation.rs: fn expressions`
(chunking as `p.columns.chunks(chunk_len)`): for any field, any number of columns `m`, any chunk
length `L`, any number of sets `S ≥ 1` covering the columns (`m ≤ S·L`; the code has
`S = ⌈m/L⌉`, see `perm_rules_imply_product_eq'`), any `u`: if the four rule families hold on
every row, then

`z_last(u) · ∏_{c<m, i<u} (v c i + β·σ c i + γ) = ∏_{c<m, i<u} (v c i + β·id c i + γ)`

and `z_last(u) ∈ {0, 1}`. -/
theorem perm_rules_imply_product_eq (m L S u : ℕ) (hS : 0 < S) (hcover : m ≤ S * L)
    (z : ℕ → ℕ → F) (v idl σ : ℕ → ℕ → F) (β γ : F)
    (h : PermRowRules m L S u z v idl σ β γ) :
    z (S - 1) u * ∏ c ∈ range m, ∏ i ∈ range u, (v c i + β * σ c i + γ) =
        ∏ c ∈ range m, ∏ i ∈ range u, (v c i + β * idl c i + γ) ∧
      (z (S - 1) u = 0 ∨ z (S - 1) u = 1) := by
  constructor
  · -- per set: telescoping over the rows
    have hset : ∀ s < S,
        z s u * ∏ i ∈ range u, ∏ c ∈ chunkCols m L s, (v c i + β * σ c i + γ) =
          z s 0 * ∏ i ∈ range u, ∏ c ∈ chunkCols m L s, (v c i + β * idl c i + γ) :=
      fun s hs => telescope_prod (z s) _ _ u (h.prod s hs)
    -- over the sets: chaining
    have hchain := chain_sets S (fun s => z s 0) (fun s => z s u)
      (fun s => ∏ i ∈ range u, ∏ c ∈ chunkCols m L s, (v c i + β * σ c i + γ))
      (fun s => ∏ i ∈ range u, ∏ c ∈ chunkCols m L s, (v c i + β * idl c i + γ))
      h.first (fun s hs => h.chain (s + 1) (Nat.le_add_left 1 s) hs) hset (S - 1)
      (Nat.sub_lt hS Nat.one_pos)
    have hS1 : S - 1 + 1 = S := Nat.sub_add_cancel hS
    rw [hS1] at hchain
    -- reorganise the products: sets × rows × chunk  →  columns × rows
    have reorg : ∀ g : ℕ → ℕ → F,
        ∏ s ∈ range S, ∏ i ∈ range u, ∏ c ∈ chunkCols m L s, g c i =
          ∏ c ∈ range m, ∏ i ∈ range u, g c i := by
      intro g
      rw [prod_comm]
      rw [prod_comm (s := range m)]
      apply prod_congr rfl
      intro i _
      exact prod_chunkCols_all m L S hcover fun c => g c i
    rw [reorg fun c i => v c i + β * σ c i + γ, reorg fun c i => v c i + β * idl c i + γ] at hchain
    exact hchain
  · have := h.last
    have h2 : z (S - 1) u * (z (S - 1) u - 1) = 0 := by linear_combination this
    rcases mul_eq_zero.mp h2 with h0 | h1
    · exact Or.inl h0
    · exact Or.inr (by linear_combination h1)

/-- A1 with the number of sets the code uses: `S = ⌈m / chunk_len⌉ = numSets m L`
(`m ≥ 1` columns, `chunk_len ≥ 1` as asserted by `assert!(pk.vk.cs_degree >= 3)`). -/
theorem perm_rules_imply_product_eq' (m L u : ℕ) (hm : 0 < m) (hL : 0 < L)
    (z : ℕ → ℕ → F) (v idl σ : ℕ → ℕ → F) (β γ : F)
    (h : PermRowRules m L (numSets m L) u z v idl σ β γ) :
    z (numSets m L - 1) u * ∏ c ∈ range m, ∏ i ∈ range u, (v c i + β * σ c i + γ) =
        ∏ c ∈ range m, ∏ i ∈ range u, (v c i + β * idl c i + γ) ∧
      (z (numSets m L - 1) u = 0 ∨ z (numSets m L - 1) u = 1) :=
  perm_rules_imply_product_eq m L (numSets m L) u (numSets_pos m L hm hL) (numSets_covers m L hL)
    z v idl σ β γ h

/-- Non-vacuity of `perm_rules_imply_product_eq`: over `ℚ`, 3 columns, `chunk_len = 2` (two sets:
columns `{0,1}` and `{2}`), `u = 2`, all cells equal to `0`, `σ` = identity labels `= c + 3·i`,
`β = 1`, `γ = 1`: the constant running products `z = 1` satisfy the four rule families (and the
hypothesis is not trivially true: it constrains `z`). -/
example : PermRowRules (F := ℚ) 3 2 2 2 (fun _ _ => 1) (fun _ _ => 0)
    (fun c i => c + 3 * i) (fun c i => c + 3 * i) 1 1 := by
  refine ⟨rfl, by norm_num, fun _ _ _ => rfl, fun _ _ _ _ => rfl⟩

/-- Non-vacuity, with an actual swap: 1 column, 1 set, `u = 2`, cells `(5, 5)`, labels `1, 2`,
`σ` swaps the two rows; `β = 1`, `γ = 0`; `z = (1, 6/7, 1)`. -/
example : PermRowRules (F := ℚ) 1 1 1 2
    (fun _ i => if i = 1 then 6 / 7 else 1) (fun _ _ => 5)
    (fun _ i => if i = 0 then 1 else 2) (fun _ i => if i = 0 then 2 else 1) 1 0 := by
  refine ⟨by norm_num, by norm_num, fun s h1 h2 => by omega, fun s hs i hi => ?_⟩
  have hs0 : s = 0 := by omega
  subst hs0
  have : i = 0 ∨ i = 1 := by omega
  rcases this with rfl | rfl <;> norm_num [chunkCols]

/-! ## A3 — from multiset equality to the copy constraints -/

/-- `β` is *good* for a finite set `P` of (value, label) pairs when `(v, l) ↦ v + β·l` is
injective on `P` (no accidental collision between different pairs). -/
def GoodBeta (P : Finset (F × F)) (β : F) : Prop :=
  Set.InjOn (fun p : F × F => p.1 + β * p.2) (P : Set (F × F))

/-- Every bad `β` is the quotient `(q.1 − p.1)/(p.2 − q.2)` of two pairs of `P`. -/
theorem bad_beta_mem [DecidableEq F] (P : Finset (F × F)) (β : F) (hbad : ¬ GoodBeta P β) :
    β ∈ (P ×ˢ P).image fun pq : (F × F) × (F × F) => (pq.2.1 - pq.1.1) / (pq.1.2 - pq.2.2) := by
  unfold GoodBeta Set.InjOn at hbad
  push Not at hbad
  obtain ⟨p, hp, q, hq, heq, hne⟩ := hbad
  have hl : p.2 - q.2 ≠ 0 := by
    intro hl
    have hl' : p.2 = q.2 := sub_eq_zero.mp hl
    have hv : p.1 = q.1 := by rw [hl'] at heq; exact add_right_cancel heq
    exact hne (Prod.ext hv hl')
  refine mem_image.mpr ⟨(p, q), mem_product.mpr ⟨hp, hq⟩, ?_⟩
  simp only
  rw [div_eq_iff hl]
  linear_combination -heq

/-- **Companion of A3 — all but at most `N²` values of `β` are good**, `N = #P` the number of
(value, label) pairs involved. -/
theorem bad_beta_card_le [DecidableEq F] (P : Finset (F × F)) :
    ∃ Bad : Finset F, Bad.card ≤ P.card ^ 2 ∧ ∀ β, β ∉ Bad → GoodBeta P β := by
  refine ⟨(P ×ˢ P).image fun pq : (F × F) × (F × F) => (pq.2.1 - pq.1.1) / (pq.1.2 - pq.2.2),
    ?_, fun β hβ => ?_⟩
  · calc _ ≤ (P ×ˢ P).card := card_image_le
      _ = P.card ^ 2 := by rw [card_product, sq]
  · by_contra hbad
    exact hβ (bad_beta_mem P β hbad)

/-- The set of bad `β` is finite. -/
theorem bad_beta_finite (P : Finset (F × F)) : {β : F | ¬ GoodBeta P β}.Finite := by
  classical
  obtain ⟨Bad, _, hBad⟩ := bad_beta_card_le P
  apply Set.Finite.subset Bad.finite_toSet
  intro β hβ
  by_contra hnot
  exact hβ (hBad β hnot)

/-- In every challenge set with more than `N²` elements there is a good `β`. -/
theorem injective_beta_exists (P : Finset (F × F)) (B : Finset F) (hB : P.card ^ 2 < B.card) :
    ∃ β ∈ B, GoodBeta P β := by
  classical
  obtain ⟨Bad, hcard, hBad⟩ := bad_beta_card_le P
  obtain ⟨β, hβB, hβ⟩ := exists_mem_notMem_of_card_lt_card (lt_of_le_of_lt hcard hB)
  exact ⟨β, hβB, hBad β hβ⟩

/-- Non-vacuity of `GoodBeta`: for the pairs `(1,2)` and `(3,1)` over `ℚ`, `β = 0` is good
and `β = 2` is bad (`1 + 2·2 = 3 + 2·1`). -/
example : GoodBeta (F := ℚ) {(1, 2), (3, 1)} 0 ∧ ¬ GoodBeta (F := ℚ) {(1, 2), (3, 1)} 2 := by
  constructor
  · intro p hp q hq h
    simp only [coe_insert, coe_singleton, Set.mem_insert_iff, Set.mem_singleton_iff] at hp hq
    rcases hp with rfl | rfl <;> rcases hq with rfl | rfl <;>
      first | rfl | (exfalso; norm_num at h)
  · intro h
    have := @h (1, 2) (by simp) (3, 1) (by simp) (by norm_num)
    norm_num at this

/-- The (value, label) pairs occurring in the two grand products of the permutation argument. -/
noncomputable def permPairs {κ : Type} [Fintype κ] (v idl σ : κ → F) : Finset (F × F) := by
  classical
  exact (univ.image fun k => (v k, σ k)) ∪ (univ.image fun k => (v k, idl k))

omit [Field F] in
theorem permPairs_card_le {κ : Type} [Fintype κ] (v idl σ : κ → F) :
    (permPairs v idl σ).card ≤ 2 * Fintype.card κ := by
  classical
  unfold permPairs
  calc _ ≤ (univ.image fun k => (v k, σ k)).card + (univ.image fun k => (v k, idl k)).card :=
        card_union_le _ _
    _ ≤ Fintype.card κ + Fintype.card κ := Nat.add_le_add card_image_le card_image_le
    _ = 2 * Fintype.card κ := by ring

/-- **A3 — multiset equality gives the copy constraints.** `κ` is the set of usable cells
(`(c, i)` with `i < u`), `v` the cell values, `idl` the identity labels (`δ^c·ω^i`, injective on
cells), `σ = idl ∘ π` the labels stored in the permutation columns
(`permutation/keygen.rs: Assembly::build_pk/build_vk`) for a permutation `π` of the cells. If `β`
is good for the pairs involved and the multisets `{v k + β·σ k}` and `{v k + β·idl k}` are equal,
then `v (π k) = v k` for every cell: every copy constraint encoded by `π` holds. -/
theorem perm_multiset_eq_imp_copy {κ : Type} [Fintype κ] (v idl σ : κ → F) (π : Equiv.Perm κ)
    (β : F) (hid : Function.Injective idl) (hσ : ∀ k, σ k = idl (π k))
    (hβ : GoodBeta (permPairs v idl σ) β)
    (hms : (univ.val.map fun k => v k + β * σ k : Multiset F) =
      univ.val.map fun k => v k + β * idl k) :
    ∀ k, v (π k) = v k := by
  classical
  intro k
  have hmem : v k + β * σ k ∈ (univ.val.map fun k => v k + β * idl k : Multiset F) := by
    rw [← hms]
    exact Multiset.mem_map_of_mem _ (mem_univ_val k)
  obtain ⟨k', _, hk'⟩ := Multiset.mem_map.mp hmem
  have h1 : (v k', idl k') ∈ (permPairs v idl σ : Set (F × F)) := by
    simp only [permPairs, coe_union, coe_image, coe_univ, Set.image_univ, Set.mem_union,
      Set.mem_range]
    exact Or.inr ⟨k', rfl⟩
  have h2 : (v k, σ k) ∈ (permPairs v idl σ : Set (F × F)) := by
    simp only [permPairs, coe_union, coe_image, coe_univ, Set.image_univ, Set.mem_union,
      Set.mem_range]
    exact Or.inl ⟨k, rfl⟩
  have := hβ h1 h2 hk'
  have hv : v k' = v k := congrArg Prod.fst this
  have hl : idl k' = σ k := congrArg Prod.snd this
  rw [hσ k] at hl
  have : k' = π k := hid hl
  rw [← this, hv]

/-- Non-vacuity of `perm_multiset_eq_imp_copy`: two cells with equal values `5, 5`, labels
`1, 2`, `π` the swap, `β = 1` (the pairs are `(5,1)` and `(5,2)`; `β = 1` separates them). -/
example : ∃ (v idl σ : Fin 2 → ℚ) (π : Equiv.Perm (Fin 2)) (β : ℚ), π ≠ Equiv.refl _ ∧
    Function.Injective idl ∧ (∀ k, σ k = idl (π k)) ∧ GoodBeta (permPairs v idl σ) β ∧
    (univ.val.map fun k => v k + β * σ k : Multiset ℚ) = univ.val.map fun k => v k + β * idl k := by
  refine ⟨fun _ => 5, ![1, 2], ![2, 1], Equiv.swap 0 1, 1, by decide, ?_, ?_, ?_, ?_⟩
  · intro a b h
    fin_cases a <;> fin_cases b <;> simp_all
  · intro k
    fin_cases k <;> simp
  · intro p hp q hq h
    simp only [one_mul] at h
    have hp1 : p.1 = 5 := by
      simp only [permPairs, coe_union, coe_image, coe_univ, Set.image_univ, Set.mem_union,
        Set.mem_range] at hp
      rcases hp with ⟨_, rfl⟩ | ⟨_, rfl⟩ <;> rfl
    have hq1 : q.1 = 5 := by
      simp only [permPairs, coe_union, coe_image, coe_univ, Set.image_univ, Set.mem_union,
        Set.mem_range] at hq
      rcases hq with ⟨_, rfl⟩ | ⟨_, rfl⟩ <;> rfl
    have h2 : p.2 = q.2 := by
      have : p.1 + p.2 = q.1 + q.2 := by simpa using h
      rw [hp1, hq1] at this
      exact add_left_cancel this
    exact Prod.ext (hp1.trans hq1.symm) h2
  · rw [Fin.univ_val_map, Fin.univ_val_map]
    simp only [List.ofFn_succ, List.ofFn_zero]
    norm_num
    exact List.Perm.swap _ _ _

end MidnightZK.C02

#print axioms MidnightZK.C02.perm_rules_imply_product_eq
#print axioms MidnightZK.C02.perm_rules_imply_product_eq'
#print axioms MidnightZK.C02.bad_beta_card_le
#print axioms MidnightZK.C02.bad_beta_finite
#print axioms MidnightZK.C02.injective_beta_exists
#print axioms MidnightZK.C02.perm_multiset_eq_imp_copy
