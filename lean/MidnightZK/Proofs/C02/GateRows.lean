import MidnightZK.Model.C02.Identities
/-!
# C02 — a gate identity read on a row is the gate polynomial evaluated on that row

`Model/C02/Identities.lean: evalQ` evaluates a gate polynomial from the evaluation vectors
(`fixed_evals[query.index]` …); `Model/C02/RowSat.lean: Expr.eval` evaluates it on a row of the
assignment table (what `MockProver` does). When the evaluation vectors are the values of the
queried cells on row `i` (a polynomial in Lagrange form evaluated at `ω^i` is its `i`-th value,
at `ω^r·ω^i` its `(i+r) mod n`-th value), the two coincide. Core Lean only.
-/
namespace MidnightZK.C02.Ids
open MidnightZK MidnightZK.C02

def realOf : Val → Nat
  | .real x => x
  | .poison => 0

/-- The evaluation vectors of row `i`: for every query `(column, rotation)` the value of the cell
`(column, (i + rotation) mod n)`. -/
def rowEnv (cs : VCS) (t : Table) (i : Nat) : Env :=
  { p := t.p, cs := cs,
    fixed := cs.fixedQueries.map fun q => realOf (cell t.fixed t.n q.1 i q.2),
    advice := cs.adviceQueries.map fun q => realOf (cell t.advice t.n q.1 i q.2),
    inst := cs.instanceQueries.map fun q => realOf (cell t.inst t.n q.1 i q.2),
    user := t.challenges }

/-- Every leaf of the expression is a registered query (as `ConstraintSystem::query_*` ensures)
and the queried cell holds a field element (not the `MockProver`'s poison marker). -/
def LeavesOK (cs : VCS) (t : Table) (i : Nat) : Expr → Prop
  | .const _ => True
  | .challenge _ => True
  | .fixed c r => (c, r) ∈ cs.fixedQueries ∧ ∃ x, cell t.fixed t.n c i r = .real x
  | .advice c r => (c, r) ∈ cs.adviceQueries ∧ ∃ x, cell t.advice t.n c i r = .real x
  | .inst c r => (c, r) ∈ cs.instanceQueries ∧ ∃ x, cell t.inst t.n c i r = .real x
  | .neg a => LeavesOK cs t i a
  | .sum a b => LeavesOK cs t i a ∧ LeavesOK cs t i b
  | .prod a b => LeavesOK cs t i a ∧ LeavesOK cs t i b
  | .scaled a _ => LeavesOK cs t i a

/-- `evals[query_index(column, rotation)]` is the value attached to that query. -/
theorem getD_map_queryIndex (qs : List (Nat × Int)) (f : Nat × Int → Nat) (c : Nat) (r : Int)
    (h : (c, r) ∈ qs) : (qs.map f).getD (queryIndex qs c r) 0 = f (c, r) := by
  unfold queryIndex
  have hex : ∃ q ∈ qs, (q.1 == c && q.2 == r) = true := ⟨(c, r), h, by simp⟩
  have hlt : qs.findIdx (fun q => q.1 == c && q.2 == r) < qs.length := List.findIdx_lt_length_of_exists hex
  have hp := List.findIdx_getElem (p := fun q => q.1 == c && q.2 == r) (xs := qs) (w := hlt)
  simp only [Bool.and_eq_true, beq_iff_eq] at hp
  have he : qs[qs.findIdx (fun q => q.1 == c && q.2 == r)] = (c, r) := Prod.ext hp.1 hp.2
  simp [List.getD, hlt, he]

/-- On a row whose queried cells are field elements, the table evaluation of an expression is
the evaluation from the row's evaluation vectors. -/
theorem eval_eq_evalQ (cs : VCS) (t : Table) (i : Nat) (g : Expr) (h : LeavesOK cs t i g) :
    g.eval t i = .real (evalQ (rowEnv cs t i) g) := by
  induction g with
  | const c => rfl
  | challenge k => rfl
  | fixed c r =>
    obtain ⟨hm, x, hx⟩ := h
    simp only [Expr.eval, evalQ, rowEnv]
    rw [getD_map_queryIndex _ _ c r hm, hx]; rfl
  | advice c r =>
    obtain ⟨hm, x, hx⟩ := h
    simp only [Expr.eval, evalQ, rowEnv]
    rw [getD_map_queryIndex _ _ c r hm, hx]; rfl
  | inst c r =>
    obtain ⟨hm, x, hx⟩ := h
    simp only [Expr.eval, evalQ, rowEnv]
    rw [getD_map_queryIndex _ _ c r hm, hx]; rfl
  | neg a ih => simp only [Expr.eval, evalQ, ih h]; rfl
  | sum a b iha ihb => simp only [Expr.eval, evalQ, iha h.1, ihb h.2]; rfl
  | prod a b iha ihb => simp only [Expr.eval, evalQ, iha h.1, ihb h.2]; rfl
  | scaled a c ih => simp only [Expr.eval, evalQ, ih h]; rfl

theorem isZero_real (x : Nat) : isZero (.real x) = true ↔ x = 0 := by
  simp [isZero]

/-- The values of the gate identities are the evaluations of the gate polynomials, gate after
gate, polynomial after polynomial. -/
theorem gateIds_values_aux (e : Env) (gs : List (List Expr)) (k : Nat) :
    ((gs.zipIdx k).flatMap fun (g, gi) => g.zipIdx.map fun (poly, j) => (IdClass.gate gi j, evalQ e poly)).map Prod.snd
      = gs.flatten.map (evalQ e) := by
  induction gs generalizing k with
  | nil => simp
  | cons g t ih =>
    simp only [List.zipIdx_cons, List.flatMap_cons, List.map_append, List.flatten_cons]
    rw [ih (k + 1)]
    congr 1
    clear ih
    generalize 0 = s
    induction g generalizing s with
    | nil => simp
    | cons a t ih => simp [List.zipIdx_cons, ih (s + 1)]

theorem gateIds_values (e : Env) : (gateIds e).map Prod.snd = e.cs.gates.flatten.map (evalQ e) :=
  gateIds_values_aux e e.cs.gates 0

end MidnightZK.C02.Ids
