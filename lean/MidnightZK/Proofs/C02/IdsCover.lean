import Mathlib.Data.List.Nodup
import Mathlib.Data.List.Range
import MidnightZK.Model.C02.Identities
import MidnightZK.Model.C02.Label
/-!
# C02 — the class tags of the verifier's identity list (`Model/C02/Identities.lean: proofIds`)

For every constraint-system shape the tags are: every polynomial of every gate, `permFirst`,
`permLast`, `permChain s` (`1 ≤ s < sets`), `permProduct s` (`s < sets`), the five rules of every
lookup, one rule per trash argument — in the order of `plonk/mod.rs: evaluate_identities`, each
exactly once.
-/
namespace MidnightZK.C02.Ids
open MidnightZK MidnightZK.C02

/-- What the class list depends on: polynomials per gate, number of permutation columns,
`cs.degree()`, numbers of lookups and trash arguments. -/
structure ShapeC where
  gatePolys : List Nat
  permCols : Nat
  degree : Nat
  lookups : Nat
  trash : Nat
deriving Repr, DecidableEq

def shapeOf (cs : VCS) : ShapeC :=
  { gatePolys := cs.gates.map List.length, permCols := cs.permCols.length, degree := cs.degree,
    lookups := cs.lookups.length, trash := cs.trash.length }

/-- `⌈permCols / (degree − 2)⌉` = `p.columns.chunks(cs_degree - 2).count()`. -/
def ShapeC.sets (sh : ShapeC) : Nat := (sh.permCols + (sh.degree - 2) - 1) / (sh.degree - 2)

def gateClasses (k : Nat) (polys : List Nat) : List IdClass :=
  (polys.zipIdx k).flatMap fun ng => (List.range ng.1).map (IdClass.gate ng.2)

def lookupClasses (l : Nat) : List IdClass :=
  [.lookup l 1, .lookup l 2, .lookup l 3, .lookup l 4, .lookup l 5]

/-- The specification of the identity list of one proof. -/
def expectedClasses (sh : ShapeC) : List IdClass :=
  gateClasses 0 sh.gatePolys ++
  ((if sh.sets = 0 then [] else [IdClass.permFirst, IdClass.permLast]) ++
    (List.range (sh.sets - 1)).map (fun i => IdClass.permChain (i + 1)) ++
    (List.range sh.sets).map IdClass.permProduct) ++
  (List.range sh.lookups).flatMap lookupClasses ++
  (List.range sh.trash).map IdClass.trash

/-- What the reading code of the verifier guarantees about the evaluations it hands to
`evaluate_identities` (see `labelled_evals_shaped`): one `Evaluated` per column set / lookup /
trash argument, one σ evaluation per permutation column. -/
structure Shaped (cs : VCS) (com : CommonEvals) (ev : ProofEvals) : Prop where
  sets : ev.permSets.length = (shapeOf cs).sets
  common : com.permCommon.length = cs.permCols.length
  lookups : ev.lookups.length = cs.lookups.length
  trash : ev.trash.length = cs.trash.length

/-! ## list bookkeeping -/

theorem map_fst_zipIdx_map {α β : Type} (tag : Nat → IdClass) (v : α → Nat → β) (l : List α) (k : Nat) :
    ((l.zipIdx k).map fun p => (tag p.2, v p.1 p.2)).map Prod.fst = (List.range' k l.length).map tag := by
  induction l generalizing k with
  | nil => simp
  | cons a t ih =>
    simp only [List.zipIdx_cons, List.map_cons, List.length_cons, List.range'_succ]
    rw [ih (k + 1)]

theorem map_fst_zipIdx_map0 {α β : Type} (tag : Nat → IdClass) (v : α → Nat → β) (l : List α) :
    (l.zipIdx.map fun p => (tag p.2, v p.1 p.2)).map Prod.fst = (List.range l.length).map tag := by
  rw [map_fst_zipIdx_map, List.range_eq_range']

theorem gateIds_classes_aux (e : Env) (gs : List (List Expr)) (k : Nat) :
    ((gs.zipIdx k).flatMap fun (g, gi) => g.zipIdx.map fun (poly, j) => (IdClass.gate gi j, evalQ e poly)).map Prod.fst
      = gateClasses k (gs.map List.length) := by
  induction gs generalizing k with
  | nil => simp [gateClasses]
  | cons g t ih =>
    simp only [List.zipIdx_cons, List.flatMap_cons, List.map_append, List.map_cons, gateClasses]
    rw [ih (k + 1)]
    congr 1
    exact map_fst_zipIdx_map0 (IdClass.gate k) (fun poly _ => evalQ e poly) g

theorem gateIds_classes (e : Env) : (gateIds e).map Prod.fst = gateClasses 0 (e.cs.gates.map List.length) :=
  gateIds_classes_aux e e.cs.gates 0

/-- `slice.chunks(m).count() = ⌈len / m⌉`. -/
theorem chunksFuel_length {α : Type} (m : Nat) (hm : 0 < m) (fuel : Nat) (l : List α) (h : l.length ≤ fuel) :
    (chunksFuel m fuel l).length = (l.length + m - 1) / m := by
  induction fuel generalizing l with
  | zero =>
    have : l = [] := List.eq_nil_of_length_eq_zero (Nat.le_zero.mp h)
    subst this
    simp only [chunksFuel, List.length_nil, Nat.zero_add]
    exact (Nat.div_eq_of_lt (by omega)).symm
  | succ n ih =>
    unfold chunksFuel
    by_cases hl : l.isEmpty
    · have : l = [] := List.isEmpty_iff.mp hl
      subst this
      simp only [List.isEmpty_nil, ↓reduceIte, List.length_nil, Nat.zero_add]
      exact (Nat.div_eq_of_lt (by omega)).symm
    · simp only [hl, Bool.false_eq_true, ↓reduceIte, List.length_cons]
      have hpos : 0 < l.length := by
        cases l with
        | nil => simp at hl
        | cons _ _ => simp
      rw [ih (l.drop m) (by rw [List.length_drop]; omega), List.length_drop]
      have e1 : l.length + m - 1 = (l.length - 1) + m := by omega
      rw [e1, Nat.add_div_right _ hm]
      congr 1
      by_cases hge : m ≤ l.length
      · congr 1; omega
      · have h0 : l.length - m = 0 := by omega
        rw [h0, Nat.zero_add, Nat.div_eq_of_lt (by omega), Nat.div_eq_of_lt (by omega)]

theorem chunks_length {α : Type} (m : Nat) (hm : 0 < m) (l : List α) :
    (chunks m l).length = (l.length + m - 1) / m :=
  chunksFuel_length m hm l.length l (Nat.le_refl _)

theorem head?_classes {α : Type} (c : IdClass) (v : α → Nat) (l : List α) :
    ((l.head?.map fun s => (c, v s)).toList).map Prod.fst = if l.length = 0 then [] else [c] := by
  cases l <;> simp

theorem getLast?_classes {α : Type} (c : IdClass) (v : α → Nat) (l : List α) :
    ((l.getLast?.map fun s => (c, v s)).toList).map Prod.fst = if l.length = 0 then [] else [c] := by
  cases l with
  | nil => simp
  | cons a t => simp [List.getLast?_cons]

theorem permIds_classes (f : Fld) (e : Env) (permCommon : List Nat) (sets : List PermSet) (L : Lagrange)
    (ch : Challenges) (hdeg : 3 ≤ e.cs.degree)
    (hsets : sets.length = (e.cs.permCols.length + (e.cs.degree - 2) - 1) / (e.cs.degree - 2))
    (hcom : permCommon.length = e.cs.permCols.length) :
    (permIds f e permCommon sets L ch).map Prod.fst =
      (if sets.length = 0 then [] else [IdClass.permFirst, IdClass.permLast]) ++
        (List.range (sets.length - 1)).map (fun i => IdClass.permChain (i + 1)) ++
        (List.range sets.length).map IdClass.permProduct := by
  have hm : 0 < e.cs.degree - 2 := by omega
  unfold permIds
  simp only [List.map_append]
  rw [head?_classes, getLast?_classes]
  rw [map_fst_zipIdx_map0 (fun i => IdClass.permChain (i + 1))
    (fun (sp : PermSet × PermSet) _ => fmul e.p (fsub e.p sp.1.eval (sp.2.last.getD 0)) L.l0)]
  rw [map_fst_zipIdx_map0 IdClass.permProduct
    (fun (scp : (PermSet × List (ColKind × Nat)) × List Nat) ci =>
      fmul e.p (fsub e.p (permLeft e ch.beta ch.gamma scp.1.1.next scp.1.2 scp.2)
        (permRight f e ch.beta ch.gamma ch.x ci (e.cs.degree - 2) scp.1.1.eval scp.1.2))
        (fsub e.p 1 (fadd e.p L.lLast L.lBlind)))]
  simp only [List.length_zip, List.length_drop, chunks_length _ hm, hcom, ← hsets, Nat.min_self]
  have h1 : min (sets.length - 1) sets.length = sets.length - 1 := by omega
  rw [h1]
  by_cases h0 : sets.length = 0 <;> simp [h0]

theorem lookupIds_classes_aux (e : Env) (L : Lagrange) (ch : Challenges)
    (l : List (LookupEvals × (List Expr × List Expr))) (k : Nat) :
    ((l.zipIdx k).flatMap fun (ea, li) => lookupIdsOne e L ch li ea.1 ea.2).map Prod.fst =
      (List.range' k l.length).flatMap lookupClasses := by
  induction l generalizing k with
  | nil => simp
  | cons a t ih =>
    simp only [List.zipIdx_cons, List.flatMap_cons, List.map_append, List.length_cons, List.range'_succ]
    rw [ih (k + 1)]
    rfl

theorem lookupIds_classes (e : Env) (L : Lagrange) (ch : Challenges) (evs : List LookupEvals)
    (h : evs.length = e.cs.lookups.length) :
    (lookupIds e L ch evs).map Prod.fst = (List.range e.cs.lookups.length).flatMap lookupClasses := by
  unfold lookupIds
  rw [lookupIds_classes_aux, List.length_zip, h, Nat.min_self, List.range_eq_range']

theorem trashIds_classes (e : Env) (ch : Challenges) (evs : List Nat) (h : evs.length = e.cs.trash.length) :
    (trashIds e ch evs).map Prod.fst = (List.range e.cs.trash.length).map IdClass.trash := by
  unfold trashIds
  rw [map_fst_zipIdx_map0 IdClass.trash (fun (ea : Nat × (Expr × List Expr)) _ => trashIdOne e ch ea.1 ea.2),
    List.length_zip, h, Nat.min_self]

/-- The class tags of the identity list of one proof are exactly the expected ones, in order. -/
theorem proofIds_classes (f : Fld) (cs : VCS) (com : CommonEvals) (L : Lagrange) (ch : Challenges)
    (ev : ProofEvals) (hdeg : 3 ≤ cs.degree) (hs : Shaped cs com ev) :
    (proofIds f cs com L ch ev).map Prod.fst = expectedClasses (shapeOf cs) := by
  unfold proofIds expectedClasses
  simp only [List.map_append]
  rw [gateIds_classes, permIds_classes _ _ _ _ _ _ hdeg hs.sets hs.common,
    lookupIds_classes _ _ _ _ hs.lookups, trashIds_classes _ _ _ hs.trash]
  simp only [shapeOf, hs.sets, List.append_assoc]
  rfl

/-! ## each class exactly once -/

theorem mem_gateClasses {k : Nat} {polys : List Nat} {c : IdClass} (h : c ∈ gateClasses k polys) :
    ∃ g j, c = .gate g j ∧ k ≤ g := by
  induction polys generalizing k with
  | nil => simp [gateClasses] at h
  | cons n t ih =>
    simp only [gateClasses, List.zipIdx_cons, List.flatMap_cons, List.mem_append, List.mem_map,
      List.mem_range] at h
    rcases h with ⟨j, _, rfl⟩ | h
    · exact ⟨k, j, rfl, Nat.le_refl _⟩
    · obtain ⟨g, j, hc, hk⟩ := ih (k := k + 1) h
      exact ⟨g, j, hc, by omega⟩

theorem gateClasses_nodup (k : Nat) (polys : List Nat) : (gateClasses k polys).Nodup := by
  induction polys generalizing k with
  | nil => simp [gateClasses]
  | cons n t ih =>
    have hcons : gateClasses k (n :: t) = (List.range n).map (IdClass.gate k) ++ gateClasses (k + 1) t := by
      simp [gateClasses, List.zipIdx_cons]
    rw [hcons, List.nodup_append]
    refine ⟨(List.nodup_range).map (fun a b h => by injection h), ih (k + 1), ?_⟩
    intro a ha b hb hab
    obtain ⟨j, _, rfl⟩ := List.mem_map.mp ha
    obtain ⟨g, j', hc, hk⟩ := mem_gateClasses hb
    rw [hc] at hab
    injection hab with h1 _
    omega

theorem lookupClasses_flat_nodup (n : Nat) : ((List.range n).flatMap lookupClasses).Nodup := by
  induction n with
  | zero => simp
  | succ n ih =>
    rw [List.range_succ, List.flatMap_append, List.nodup_append]
    refine ⟨ih, by simp [lookupClasses], ?_⟩
    intro a ha b hb hab
    simp only [List.mem_flatMap, List.mem_range] at ha
    obtain ⟨l, hl, hal⟩ := ha
    simp only [List.flatMap_cons, List.flatMap_nil, List.append_nil, lookupClasses, List.mem_cons,
      List.not_mem_nil, or_false] at hb hal
    subst hab
    rcases hal with rfl | rfl | rfl | rfl | rfl <;> rcases hb with h | h | h | h | h <;>
      (injection h with h1 _; omega)

/-- No class occurs twice in the specification. -/
theorem expectedClasses_nodup (sh : ShapeC) : (expectedClasses sh).Nodup := by
  unfold expectedClasses
  have hperm : ((if sh.sets = 0 then [] else [IdClass.permFirst, IdClass.permLast]) ++
      (List.range (sh.sets - 1)).map (fun i => IdClass.permChain (i + 1)) ++
      (List.range sh.sets).map IdClass.permProduct).Nodup := by
    rw [List.nodup_append, List.nodup_append]
    refine ⟨⟨by split <;> simp, (List.nodup_range).map (fun a b h => by injection h with h; omega), ?_⟩,
      (List.nodup_range).map (fun a b h => by injection h), ?_⟩
    · intro a ha b hb hab
      obtain ⟨i, _, rfl⟩ := List.mem_map.mp hb
      split at ha <;> simp at ha
      rcases ha with rfl | rfl <;> cases hab
    · intro a ha b hb hab
      obtain ⟨i, _, rfl⟩ := List.mem_map.mp hb
      rcases List.mem_append.mp ha with ha | ha
      · split at ha <;> simp at ha
        rcases ha with rfl | rfl <;> cases hab
      · obtain ⟨j, _, rfl⟩ := List.mem_map.mp ha
        cases hab
  rw [List.nodup_append, List.nodup_append, List.nodup_append]
  refine ⟨⟨⟨gateClasses_nodup 0 _, hperm, ?_⟩, lookupClasses_flat_nodup _, ?_⟩,
    (List.nodup_range).map (fun a b h => by injection h), ?_⟩
  · intro a ha b hb hab
    obtain ⟨g, j, rfl, _⟩ := mem_gateClasses ha
    rcases List.mem_append.mp hb with hb | hb
    · rcases List.mem_append.mp hb with hb | hb
      · split at hb <;> simp at hb
        rcases hb with rfl | rfl <;> cases hab
      · obtain ⟨i, _, rfl⟩ := List.mem_map.mp hb; cases hab
    · obtain ⟨i, _, rfl⟩ := List.mem_map.mp hb; cases hab
  · intro a ha b hb hab
    simp only [List.mem_flatMap, lookupClasses, List.mem_cons, List.not_mem_nil, or_false] at hb
    obtain ⟨l, _, hb⟩ := hb
    have hbl : ∃ r, b = .lookup l r := by
      rcases hb with rfl | rfl | rfl | rfl | rfl <;> exact ⟨_, rfl⟩
    obtain ⟨r, rfl⟩ := hbl
    rcases List.mem_append.mp ha with ha | ha
    · obtain ⟨g, j, rfl, _⟩ := mem_gateClasses ha; cases hab
    · rcases List.mem_append.mp ha with ha | ha
      · rcases List.mem_append.mp ha with ha | ha
        · split at ha <;> simp at ha
          rcases ha with rfl | rfl <;> cases hab
        · obtain ⟨i, _, rfl⟩ := List.mem_map.mp ha; cases hab
      · obtain ⟨i, _, rfl⟩ := List.mem_map.mp ha; cases hab
  · intro a ha b hb hab
    obtain ⟨t, _, rfl⟩ := List.mem_map.mp hb
    rcases List.mem_append.mp ha with ha | ha
    · rcases List.mem_append.mp ha with ha | ha
      · obtain ⟨g, j, rfl, _⟩ := mem_gateClasses ha; cases hab
      · rcases List.mem_append.mp ha with ha | ha
        · rcases List.mem_append.mp ha with ha | ha
          · split at ha <;> simp at ha
            rcases ha with rfl | rfl <;> cases hab
          · obtain ⟨i, _, rfl⟩ := List.mem_map.mp ha; cases hab
        · obtain ⟨i, _, rfl⟩ := List.mem_map.mp ha; cases hab
    · simp only [List.mem_flatMap, lookupClasses, List.mem_cons, List.not_mem_nil, or_false] at ha
      obtain ⟨l, _, ha⟩ := ha
      rcases ha with rfl | rfl | rfl | rfl | rfl <;> cases hab

/-! ## the evaluations rebuilt from the labelled transcript are shaped -/

theorem labelled_evals_shaped_aux (f : Fld) (cs : VCS) (nCommitted : Nat) (get : MidnightZK.C01.Tag → Nat)
    (x xn maxLen : Nat) (plain : List (List Nat)) (pi : Nat) :
    Shaped cs (Label.commonEvalsOfTags cs get)
      (Label.proofEvalsOfTags f cs nCommitted get x xn maxLen plain pi) := by
  refine ⟨?_, ?_, ?_, ?_⟩ <;>
    simp [Label.proofEvalsOfTags, Label.commonEvalsOfTags, Label.numSets, MidnightZK.C01.numChunks,
      shapeOf, ShapeC.sets]

end MidnightZK.C02.Ids
