import Mathlib.Algebra.Polynomial.Roots
/-!
Random-linear-combination soundness of the verifier's identity folding
(`vanishing::verifier::PartiallyEvaluated::verify`: `expressions.fold(0, |h, v| h * y + v)`).
-/
namespace MidnightZK.C02
open Polynomial

variable {F : Type} [Field F]

/-- The verifier's fold of the identity values with the challenge `y`. -/
def foldY (vs : List F) (y : F) : F := vs.foldl (fun h v => h * y + v) 0

/-- The same fold, as a polynomial in `y`. -/
noncomputable def hornerPoly (vs : List F) : F[X] := vs.foldl (fun p v => p * X + C v) 0

theorem hornerPoly_append (vs : List F) (v : F) : hornerPoly (vs ++ [v]) = hornerPoly vs * X + C v := by
  simp [hornerPoly, List.foldl_append]

theorem foldY_append (vs : List F) (v y : F) : foldY (vs ++ [v]) y = foldY vs y * y + v := by
  simp [foldY, List.foldl_append]

theorem eval_hornerPoly (vs : List F) (y : F) : (hornerPoly vs).eval y = foldY vs y := by
  induction vs using List.reverseRecOn with
  | nil => simp [hornerPoly, foldY]
  | append_singleton l v ih => rw [hornerPoly_append, foldY_append]; simp [ih]

theorem natDegree_hornerPoly_lt (vs : List F) (h : vs ≠ []) : (hornerPoly vs).natDegree < vs.length := by
  induction vs using List.reverseRecOn with
  | nil => exact absurd rfl h
  | append_singleton l v ih =>
    rw [hornerPoly_append, List.length_append, List.length_singleton]
    by_cases hl : l = []
    · subst hl; simp [hornerPoly]
    · have := ih hl
      calc (hornerPoly l * X + C v).natDegree
          ≤ max (hornerPoly l * X).natDegree (C v).natDegree := natDegree_add_le _ _
        _ ≤ max ((hornerPoly l).natDegree + 1) 0 := by
            apply max_le_max
            · exact le_trans natDegree_mul_le (Nat.add_le_add_left natDegree_X_le _)
            · simp
        _ < l.length + 1 := by simp; omega

theorem hornerPoly_eq_zero (vs : List F) (h : hornerPoly vs = 0) : ∀ v ∈ vs, v = 0 := by
  induction vs using List.reverseRecOn with
  | nil => simp
  | append_singleton l v ih =>
    rw [hornerPoly_append] at h
    have hv : v = 0 := by
      have := congrArg (fun p => p.coeff 0) h
      simpa using this
    subst hv
    have hl : hornerPoly l = 0 := by
      simp only [map_zero, add_zero] at h
      exact (mul_eq_zero.mp h).resolve_right X_ne_zero
    intro w hw
    simp only [List.mem_append, List.mem_singleton] at hw
    rcases hw with hw | hw
    · exact ih hl w hw
    · exact hw

/-- If the fold vanishes for at least as many distinct challenges `y` as there are identity
values, every identity value is zero. Equivalently: a list with a non-zero identity value
survives for at most `length − 1` values of `y`. -/
theorem y_combination_sound_aux (vs : List F) (ys : Finset F) (hcard : vs.length ≤ ys.card)
    (hzero : ∀ y ∈ ys, foldY vs y = 0) : ∀ v ∈ vs, v = 0 := by
  by_cases hne : vs = []
  · subst hne; simp
  · apply hornerPoly_eq_zero
    apply eq_zero_of_natDegree_lt_card_of_eval_eq_zero' (hornerPoly vs) ys
    · intro y hy; rw [eval_hornerPoly]; exact hzero y hy
    · exact lt_of_lt_of_le (natDegree_hornerPoly_lt vs hne) hcard

end MidnightZK.C02
