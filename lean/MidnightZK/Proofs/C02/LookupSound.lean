import MidnightZK.Proofs.C02.Combination
import MidnightZK.Proofs.C02.MultisetPoly
import MidnightZK.Proofs.C02.PermSound
/-!
# C02 — algebraic soundness core of the lookup argument (halo2 permuted-columns version)

Mirrors `proofs/src/plonk/lookup.rs: Evaluated::expressions` (the five identities of one lookup)
and `proofs/src/plonk/lookup/prover.rs: Argument::commit_permuted / Permuted::commit_product`.
Row level: `A i`, `S i` are the θ-compressed input / table expressions on row `i`, `A' i`, `S' i`
the permuted columns, `z i` the running product, `u = n − (blinding_factors + 1)`.
-/
namespace MidnightZK.C02
open Finset

variable {F : Type} [Field F]

/-! ## B1 — the permuted input column only contains table values -/

/-- The two identities on the permuted columns:
`l_0(X) * (a'(X) - s'(X)) = 0` and
`(1 - (l_last(X) + l_blind(X))) * (a′(X) − s′(X))⋅(a′(X) − a′(ω^{-1} X)) = 0`
(the latter is used on the active rows `1 ≤ i < u`; on row `0` the former is stronger). -/
structure LookupPermutedRules (u : ℕ) (A' S' : ℕ → F) : Prop where
  /-- `l_0(X) * (a'(X) - s'(X)) = 0` -/
  first : A' 0 = S' 0
  /-- `(1 - (l_last + l_blind)) * (a′(X) − s′(X))⋅(a′(X) − a′(ω^{-1} X)) = 0` on rows `1 ≤ i < u`. -/
  row : ∀ i, 1 ≤ i → i < u → (A' i - S' i) * (A' i - A' (i - 1)) = 0

/-- **B1 — every permuted input value is a permuted table value** (at the same or an earlier
row). Mirrors the 4th and 5th identity of `lookup.rs: Evaluated::expressions`. -/
theorem lookup_rows_imply_subset_le (u : ℕ) (A' S' : ℕ → F) (h : LookupPermutedRules u A' S') :
    ∀ i < u, ∃ j ≤ i, A' i = S' j := by
  intro i
  induction i with
  | zero => intro _; exact ⟨0, le_refl 0, h.first⟩
  | succ k ih =>
    intro hk
    rcases mul_eq_zero.mp (h.row (k + 1) (Nat.le_add_left 1 k) hk) with h1 | h2
    · exact ⟨k + 1, le_refl _, sub_eq_zero.mp h1⟩
    · obtain ⟨j, hj, hAj⟩ := ih (Nat.lt_of_succ_lt hk)
      have : A' (k + 1) = A' k := by simpa using sub_eq_zero.mp h2
      exact ⟨j, Nat.le_succ_of_le hj, this.trans hAj⟩

/-- **B1** in the form "`A' i ∈ {S' j | j < u}`". -/
theorem lookup_rows_imply_subset (u : ℕ) (A' S' : ℕ → F) (h : LookupPermutedRules u A' S') :
    ∀ i < u, ∃ j < u, A' i = S' j := by
  intro i hi
  obtain ⟨j, hj, hA⟩ := lookup_rows_imply_subset_le u A' S' h i hi
  exact ⟨j, lt_of_le_of_lt hj hi, hA⟩

/-- Non-vacuity of `lookup_rows_imply_subset`: over `ZMod`-free `ℚ`, `u = 4`,
`A' = (1,1,3,3)`, `S' = (1,2,3,4)` satisfy the two identities. -/
example : LookupPermutedRules (F := ℚ) 4
    (fun i => if i < 2 then 1 else 3) (fun i => (i : ℚ) + 1) := by
  refine ⟨by norm_num, fun i h1 h4 => ?_⟩
  have : i = 1 ∨ i = 2 ∨ i = 3 := by omega
  rcases this with rfl | rfl | rfl <;> norm_num

/-! ## B2 — the product rules imply the grand-product equality -/

/-- The three identities on the running product:
`l_0(X) * (1 - z(X)) = 0`, `l_last(X) * (z(X)^2 - z(X)) = 0` and
`(1 - (l_last + l_blind)) * (z(ωX) (a'(X) + β) (s'(X) + γ) - z(X) (a(X) + β) (s(X) + γ)) = 0`
with `a`, `s` the θ-compressed input and table expressions. -/
structure LookupProductRules (u : ℕ) (z : ℕ → F) (A S A' S' : ℕ → F) (β γ : F) : Prop where
  /-- `l_0(X) * (1 - z(X)) = 0` -/
  first : z 0 = 1
  /-- `l_last(X) * (z(X)^2 - z(X)) = 0` -/
  last : z u ^ 2 = z u
  /-- `left = product_next_eval * (permuted_input_eval + beta) * (permuted_table_eval + gamma)`,
  `right = product_eval * (compress(input) + beta) * (compress(table) + gamma)` on active rows. -/
  prod : ∀ i < u, z (i + 1) * (A' i + β) * (S' i + γ) = z i * (A i + β) * (S i + γ)

/-- **B2 — telescoping of the lookup product rules.** Mirrors identities 1–3 of
`lookup.rs: Evaluated::expressions` (and the `debug_assertions` block of
`Permuted::commit_product`). -/
theorem lookup_product_rules_imply_prod_eq (u : ℕ) (z : ℕ → F) (A S A' S' : ℕ → F) (β γ : F)
    (h : LookupProductRules u z A S A' S' β γ) :
    z u * ∏ i ∈ range u, ((A' i + β) * (S' i + γ)) = ∏ i ∈ range u, ((A i + β) * (S i + γ)) ∧
      (z u = 0 ∨ z u = 1) := by
  constructor
  · have := telescope_prod z (fun i => (A' i + β) * (S' i + γ)) (fun i => (A i + β) * (S i + γ)) u
      (fun i hi => by linear_combination h.prod i hi)
    rw [h.first, one_mul] at this
    exact this
  · have h2 : z u * (z u - 1) = 0 := by linear_combination h.last
    rcases mul_eq_zero.mp h2 with h0 | h1
    · exact Or.inl h0
    · exact Or.inr (by linear_combination h1)

/-- Non-vacuity of `lookup_product_rules_imply_prod_eq`: `u = 2`, `A = (3,1)`, `S = (1,3)`,
`A' = S' = (1,3)`, `β = γ = 0`, `z = (1, 3, 1)`. -/
example : LookupProductRules (F := ℚ) 2 (fun i => if i = 1 then 3 else 1)
    (fun i => if i = 0 then 3 else 1) (fun i => if i = 0 then 1 else 3)
    (fun i => if i = 0 then 1 else 3) (fun i => if i = 0 then 1 else 3) 0 0 := by
  refine ⟨by norm_num, by norm_num, fun i hi => ?_⟩
  have : i = 0 ∨ i = 1 := by omega
  rcases this with rfl | rfl <;> norm_num

/-! ## B3 — from the product equality for many challenges to multiset equalities -/

/-- One half of B3 (the roles of the two columns are symmetric): if
`∏ (P' i + x)(Q' i + y) = ∏ (P i + x)(Q i + y)` on a grid `X × Y` with `#X > u`, `#Y > u`,
then `{P' i} = {P i}` as multisets. -/
theorem grid_prod_eq_imp_left_multiset_eq (u : ℕ) (P Q P' Q' : ℕ → F) (X Y : Finset F)
    (hX : u < X.card) (hY : u < Y.card)
    (h : ∀ x ∈ X, ∀ y ∈ Y,
      ∏ i ∈ range u, ((P' i + x) * (Q' i + y)) = ∏ i ∈ range u, ((P i + x) * (Q i + y))) :
    ((range u).val.map P' : Multiset F) = (range u).val.map P := by
  -- a `y₀` where the `Q`-side factor does not vanish
  have hy : ∃ y₀ ∈ Y, ∏ i ∈ range u, (Q i + y₀) ≠ 0 := by
    by_contra hno
    push Not at hno
    have := zero_prod_few_challenges_multiset ((range u).val.map Q) Y (by
      intro y hy
      rw [Multiset.map_map]
      have := hno y hy
      simpa [Finset.prod, Function.comp_def, add_comm] using this)
    simp only [Multiset.card_map, card_val, card_range] at this
    omega
  obtain ⟨y₀, hy₀, hc⟩ := hy
  have key := scaled_prod_eq_many_imp_multiset_eq ((range u).val.map P') ((range u).val.map P)
    (∏ i ∈ range u, (Q' i + y₀)) (∏ i ∈ range u, (Q i + y₀)) X
    (by simpa using hX) (by simpa using hX) (by simp) hc (by
      intro x hx
      have := h x hx y₀ hy₀
      rw [prod_mul_distrib, prod_mul_distrib] at this
      rw [Multiset.map_map, Multiset.map_map]
      have e1 : (Multiset.map ((fun a => x + a) ∘ P') (range u).val).prod =
          ∏ i ∈ range u, (P' i + x) := by
        simp [Finset.prod, Function.comp_def, add_comm]
      have e2 : (Multiset.map ((fun a => x + a) ∘ P) (range u).val).prod =
          ∏ i ∈ range u, (P i + x) := by
        simp [Finset.prod, Function.comp_def, add_comm]
      rw [e1, e2]
      linear_combination this)
  exact key.2

/-- **B3 — the permuted columns are permutations of the compressed columns.** If the
grand-product equality of B2 (with final value `1`) holds on a grid `B × Γ` of challenges with
`#B > u` and `#Γ > u`, then `{A' i | i < u} = {A i | i < u}` and `{S' i | i < u} = {S i | i < u}`
as multisets. -/
theorem lookup_prod_eq_many_imp_multiset_eq (u : ℕ) (A S A' S' : ℕ → F) (B Γ : Finset F)
    (hB : u < B.card) (hΓ : u < Γ.card)
    (h : ∀ β ∈ B, ∀ γ ∈ Γ,
      ∏ i ∈ range u, ((A' i + β) * (S' i + γ)) = ∏ i ∈ range u, ((A i + β) * (S i + γ))) :
    ((range u).val.map A' : Multiset F) = (range u).val.map A ∧
      ((range u).val.map S' : Multiset F) = (range u).val.map S := by
  refine ⟨grid_prod_eq_imp_left_multiset_eq u A S A' S' B Γ hB hΓ h,
    grid_prod_eq_imp_left_multiset_eq u S A S' A' Γ B hΓ hB ?_⟩
  intro γ hγ β hβ
  have := h β hβ γ hγ
  simpa only [mul_comm] using this

/-- **Lookup argument, row level, compressed values.** Mirrors the five identities of
`lookup.rs: Evaluated::expressions`. `A' S'` (committed before `β, γ` are drawn) satisfy the two
permuted-column rules, and for every challenge pair of a grid `B × Γ` with `#B > u`, `#Γ > u`
there is a running product `z` satisfying the three product rules whose last value `z u` is not
`0`. Then every compressed input value on a usable row is a compressed table value of a usable
row: `∀ i < u, ∃ j < u, A i = S j`. -/
theorem lookup_argument_sound_compressed (u : ℕ) (A S A' S' : ℕ → F) (B Γ : Finset F)
    (hB : u < B.card) (hΓ : u < Γ.card) (hperm : LookupPermutedRules u A' S')
    (hprod : ∀ β ∈ B, ∀ γ ∈ Γ, ∃ z : ℕ → F, LookupProductRules u z A S A' S' β γ ∧ z u ≠ 0) :
    ∀ i < u, ∃ j < u, A i = S j := by
  have hgrid : ∀ β ∈ B, ∀ γ ∈ Γ,
      ∏ i ∈ range u, ((A' i + β) * (S' i + γ)) = ∏ i ∈ range u, ((A i + β) * (S i + γ)) := by
    intro β hβ γ hγ
    obtain ⟨z, hz, hne⟩ := hprod β hβ γ hγ
    obtain ⟨heq, h01⟩ := lookup_product_rules_imply_prod_eq u z A S A' S' β γ hz
    have h1 : z u = 1 := h01.resolve_left hne
    rw [h1, one_mul] at heq
    exact heq
  obtain ⟨hA, hS⟩ := lookup_prod_eq_many_imp_multiset_eq u A S A' S' B Γ hB hΓ hgrid
  intro i hi
  -- `A i` occurs in `A'`
  have h1 : A i ∈ ((range u).val.map A' : Multiset F) := by
    rw [hA]; exact Multiset.mem_map_of_mem _ (mem_range.mpr hi)
  obtain ⟨k, hk, hAk⟩ := Multiset.mem_map.mp h1
  -- `A' k` occurs in `S'`
  obtain ⟨j', hj', hS'⟩ := lookup_rows_imply_subset u A' S' hperm k (mem_range.mp hk)
  -- `S' j'` occurs in `S`
  have h2 : S' j' ∈ ((range u).val.map S : Multiset F) := by
    rw [← hS]; exact Multiset.mem_map_of_mem _ (mem_range.mpr hj')
  obtain ⟨j, hj, hSj⟩ := Multiset.mem_map.mp h2
  exact ⟨j, mem_range.mp hj, by rw [← hAk, hS', ← hSj]⟩

/-! ## θ-compression of tuples -/

theorem foldl_horner_sub (y : F) (l₁ l₂ : List F) (hlen : l₁.length = l₂.length) (a₁ a₂ : F) :
    (List.zipWith (· - ·) l₁ l₂).foldl (fun h v => h * y + v) (a₁ - a₂) =
      l₁.foldl (fun h v => h * y + v) a₁ - l₂.foldl (fun h v => h * y + v) a₂ := by
  induction l₁ generalizing l₂ a₁ a₂ with
  | nil =>
    cases l₂ with
    | nil => simp
    | cons _ _ => simp at hlen
  | cons x xs ih =>
    cases l₂ with
    | nil => simp at hlen
    | cons w ws =>
      simp only [List.zipWith_cons_cons, List.foldl_cons]
      have := ih ws (by simpa using hlen) (a₁ * y + x) (a₂ * y + w)
      rw [← this]
      congr 1
      ring

theorem foldY_sub (y : F) (l₁ l₂ : List F) (hlen : l₁.length = l₂.length) :
    foldY (List.zipWith (· - ·) l₁ l₂) y = foldY l₁ y - foldY l₂ y := by
  unfold foldY
  have := foldl_horner_sub y l₁ l₂ hlen 0 0
  rwa [sub_zero] at this

theorem eq_of_zipWith_sub_zero (l₁ l₂ : List F) (hlen : l₁.length = l₂.length)
    (h : ∀ d ∈ List.zipWith (· - ·) l₁ l₂, d = 0) : l₁ = l₂ := by
  induction l₁ generalizing l₂ with
  | nil =>
    cases l₂ with
    | nil => rfl
    | cons _ _ => simp at hlen
  | cons x xs ih =>
    cases l₂ with
    | nil => simp at hlen
    | cons w ws =>
      simp only [List.zipWith_cons_cons, List.mem_cons, forall_eq_or_imp] at h
      rw [sub_eq_zero.mp h.1, ih ws (by simpa using hlen) h.2]

/-- **θ-compression is injective for all but `length − 1` values of `θ`.** Mirrors
`compress_expressions` of `lookup.rs: Evaluated::expressions` and of
`lookup/prover.rs: Argument::commit_permuted` (`fold(0, |acc, eval| acc * θ + eval)`; `foldY` is
that fold): two different tuples of the same length have equal compressions for at most
`length − 1` values of `θ`. -/
theorem theta_compress_injective_generic (t₁ t₂ : List F) (hlen : t₁.length = t₂.length)
    (hne : t₁ ≠ t₂) (Θ : Finset F) (h : ∀ θ ∈ Θ, foldY t₁ θ = foldY t₂ θ) :
    Θ.card ≤ t₁.length - 1 := by
  by_contra hgt
  have hcard : (List.zipWith (· - ·) t₁ t₂).length ≤ Θ.card := by
    simp only [List.length_zipWith, ← hlen, min_self]
    omega
  apply hne
  apply eq_of_zipWith_sub_zero t₁ t₂ hlen
  apply y_combination_sound_aux _ Θ hcard
  intro θ hθ
  rw [foldY_sub θ t₁ t₂ hlen, h θ hθ, sub_self]

/-- Non-vacuity (and tightness) of `theta_compress_injective_generic`: over `ℚ` the tuples
`(1, 2)` and `(2, 1)` collide exactly for `θ = 1` — one value, `length − 1 = 1`. -/
example : ([1, 2] : List ℚ) ≠ [2, 1] ∧ foldY ([1, 2] : List ℚ) 1 = foldY [2, 1] 1 := by
  constructor
  · decide
  · norm_num [foldY]

/-- **A row whose input tuple is not in the table survives compression for few `θ`.** If the
input tuple `t` differs from every table tuple `T j` (`j < u`, all of length `ℓ`), then the
challenges `θ` for which the compressed input equals some compressed table row number at most
`u · (ℓ − 1)`. -/
theorem theta_membership_few (u ℓ : ℕ) (t : List F) (T : ℕ → List F) (ht : t.length = ℓ)
    (hT : ∀ j < u, (T j).length = ℓ) (hnot : ∀ j < u, t ≠ T j) (Θ : Finset F)
    (h : ∀ θ ∈ Θ, ∃ j < u, foldY t θ = foldY (T j) θ) : Θ.card ≤ u * (ℓ - 1) := by
  classical
  have hsub : Θ ⊆ (range u).biUnion fun j => Θ.filter fun θ => foldY t θ = foldY (T j) θ := by
    intro θ hθ
    obtain ⟨j, hj, hjθ⟩ := h θ hθ
    exact mem_biUnion.mpr ⟨j, mem_range.mpr hj, mem_filter.mpr ⟨hθ, hjθ⟩⟩
  calc Θ.card ≤ _ := card_le_card hsub
    _ ≤ ∑ j ∈ range u, (Θ.filter fun θ => foldY t θ = foldY (T j) θ).card := card_biUnion_le
    _ ≤ ∑ _j ∈ range u, (ℓ - 1) := by
        apply sum_le_sum
        intro j hj
        have hj' := mem_range.mp hj
        have := theta_compress_injective_generic t (T j) (by rw [ht, hT j hj']) (hnot j hj')
          (Θ.filter fun θ => foldY t θ = foldY (T j) θ) (fun θ hθ => (mem_filter.mp hθ).2)
        rwa [ht] at this
    _ = u * (ℓ - 1) := by simp

end MidnightZK.C02

#print axioms MidnightZK.C02.lookup_rows_imply_subset
#print axioms MidnightZK.C02.lookup_product_rules_imply_prod_eq
#print axioms MidnightZK.C02.lookup_prod_eq_many_imp_multiset_eq
#print axioms MidnightZK.C02.lookup_argument_sound_compressed
#print axioms MidnightZK.C02.theta_compress_injective_generic
#print axioms MidnightZK.C02.theta_membership_few
