import MidnightZK.Proofs.C01.Bridge
import MidnightZK.Proofs.C02.Bridge
/-!
# C02 — from identity POLYNOMIALS on the domain to the row rules

The row-level soundness theorems (`perm_argument_sound`, `lookup_argument_sound`, …) speak about
`permExpressionsRow` / `lookupExpressionsRow` / `trashExpressionRow` with `l_0`, `l_last`,
`l_blind` read as row indicators. Here the indicator reading is *proved*: the identity
polynomials are built from the column polynomials (`C01.Asm.colPoly`, degree `< n`, Lagrange form
of the committed vectors), their rotations (`rotPoly`) and the Lagrange-basis polynomials
`indPoly` (`l_0 = [i = 0]`, `l_last = [i = u]`, `l_blind = [u < i]` on the nodes,
`C01.Asm.indPoly_node`); evaluated at the node `ω^i` they ARE the row expressions. Hence an
identity polynomial vanishes on the whole domain iff the row rule holds on every row. The value
off the domain of these same basis polynomials is what the verifier computes through
`l_i_range` (`C01.Asm.lEvals_spec`; `cast_lagrange` below for the natural-number model).
-/
namespace MidnightZK.C02.Dom
open Polynomial Finset MidnightZK.C01.Dom MidnightZK.C01.Asm MidnightZK.C01.Args MidnightZK.C02.Ids

/-! ### ring homomorphisms commute with the generic permutation rule list -/

section Hom
variable {A B : Type} [CommRing A] [CommRing B] (φ : A →+* B)

theorem foldl_left_hom (β γ : A) (l : List (A × A)) (a : A) :
    φ (l.foldl (fun left cp => left * (cp.1 + β * cp.2 + γ)) a) =
      (l.map (Prod.map φ φ)).foldl (fun left cp => left * (cp.1 + φ β * cp.2 + φ γ)) (φ a) := by
  induction l generalizing a with
  | nil => rfl
  | cons x t ih => simp only [List.foldl_cons, List.map_cons, ih, map_mul, map_add, Prod.map]

theorem foldl_right_hom (γ δ : A) (l : List A) (st : A × A) :
    Prod.map φ φ (l.foldl (fun (st : A × A) c => (st.1 * (c + st.2 + γ), st.2 * δ)) st) =
      (l.map φ).foldl (fun (st : B × B) c => (st.1 * (c + st.2 + φ γ), st.2 * φ δ)) (Prod.map φ φ st) := by
  induction l generalizing st with
  | nil => rfl
  | cons x t ih =>
    simp only [List.foldl_cons, List.map_cons]
    rw [ih]
    simp only [Prod.map, map_mul, map_add]

/-- A ring homomorphism maps the generic permutation rule list to the rule list of the images. -/
theorem map_permGeneric (L : ℕ) (l0 lLast lBlind β γ δ x : A) (T : List (A × A)) (Tl V P : List A) :
    (permGeneric L l0 lLast lBlind β γ δ x T Tl V P).map φ =
      permGeneric L (φ l0) (φ lLast) (φ lBlind) (φ β) (φ γ) (φ δ) (φ x) (T.map (Prod.map φ φ))
        (Tl.map φ) (V.map φ) (P.map φ) := by
  unfold permGeneric
  simp only [List.map_append]
  congr 1
  · congr 1
    · congr 1
      · cases T with
        | nil => rfl
        | cons t ts => simp
      · rw [List.getLast?_map]
        cases T.getLast? with
        | none => rfl
        | some t => simp
    · rw [← List.map_drop, List.zip_map, List.map_map, List.map_map]
      apply List.map_congr_left
      intro pq _
      simp [Prod.map]
  · rw [chunks_map, chunks_map]
    rw [List.zip_map, List.zip_map, List.zipIdx_map, List.map_map, List.map_map]
    apply List.map_congr_left
    rintro ⟨⟨⟨t, vv⟩, pp⟩, ci⟩ _
    simp only [Function.comp_def, Prod.map, id, map_mul, map_sub, map_add, map_one]
    rw [foldl_left_hom φ β γ (vv.zip pp) t.2, List.zip_map]
    have hr := foldl_right_hom φ γ δ vv (t.1, (β * x) * δ ^ (ci * L))
    have hr1 := congrArg Prod.fst hr
    simp only [Prod.map, map_mul, map_pow] at hr1
    rw [hr1]

end Hom

variable {F : Type} [Field F] {n : ℕ} {ω : F}

/-! ### rows a rotation refers to -/

theorem rowOf_add_nat (n i k : ℕ) : rowOf n ((i : ℤ) + (k : ℤ)) = (i + k) % n := by
  unfold rowOf
  rw [show ((i : ℤ) + (k : ℤ)) = ((i + k : ℕ) : ℤ) by push_cast; ring, ← Int.natCast_mod, Int.toNat_natCast]

/-- The rotation `Rotation(-(blinding_factors + 1))` (`last_rotation` of `permutation.rs`) refers to
the row `(i + u) mod n`, `u = n − (blinding_factors + 1)`. -/
theorem rowOf_last (n i bf : ℕ) (hbf : bf + 1 ≤ n) :
    rowOf n ((i : ℤ) + (-((bf + 1 : ℕ) : ℤ))) = (i + (n - (bf + 1))) % n := by
  unfold rowOf
  have : ((i : ℤ) + (-((bf + 1 : ℕ) : ℤ))) % (n : ℤ) = ((i + (n - (bf + 1)) : ℕ) : ℤ) % (n : ℤ) := by
    rw [show ((i + (n - (bf + 1)) : ℕ) : ℤ) = (i : ℤ) + (-((bf + 1 : ℕ) : ℤ)) + 1 * (n : ℤ) by
      push_cast [Nat.cast_sub hbf]; ring, Int.add_mul_emod_self_right]
  rw [this, ← Int.natCast_mod, Int.toNat_natCast]

/-! ### permutation identities as polynomials -/

/-- The permutation identity polynomials of `permutation.rs: expressions`, built from the
Lagrange-form vectors: `cols` = per permutation column (values, σ labels), `zs` = the running
products, one per column set; `l_0`, `l_last`, `l_blind` the Lagrange-basis polynomials of the
rows `0`, `u`, `> u`; `z(ωX)` and `z(ω^{-(bf+1)}X)` the rotated product polynomials; the
identity labels are `δ^c · X`. -/
noncomputable def permIdPolys (ω : F) (L n bf : ℕ) (β γ δ : F) (cols : List (List F × List F))
    (zs : List (List F)) : List F[X] :=
  permGeneric L (indPoly ω n (fun i => i = 0)) (indPoly ω n (fun i => i = n - (bf + 1)))
    (indPoly ω n (fun i => n - (bf + 1) < i)) (C β) (C γ) (C δ) X
    (zs.map fun z => (colPoly ω n z, rotPoly ω (colPoly ω n z) 1))
    (zs.dropLast.map fun z => rotPoly ω (colPoly ω n z) (-((bf + 1 : ℕ) : ℤ)))
    (cols.map fun c => colPoly ω n c.1) (cols.map fun c => colPoly ω n c.2)

/-- **Evaluated at the node `ω^i` the permutation identity polynomials are the row expressions.** -/
theorem permIdPolys_node (hω : IsPrimitiveRoot ω n) (L bf : ℕ) (hbf : bf + 1 ≤ n) (β γ δ : F)
    (cols : List (List F × List F)) (zs : List (List F)) (i : ℕ) (hi : i < n) :
    (permIdPolys ω L n bf β γ δ cols zs).map (eval (ω ^ i)) =
      permExpressionsRow L n bf β γ δ ω cols zs i := by
  have hn : 0 < n := by omega
  unfold permIdPolys
  have h := map_permGeneric (evalRingHom (ω ^ i)) L (indPoly ω n (fun i => i = 0))
    (indPoly ω n (fun i => i = n - (bf + 1))) (indPoly ω n (fun i => n - (bf + 1) < i)) (C β) (C γ) (C δ) X
    (zs.map fun z => (colPoly ω n z, rotPoly ω (colPoly ω n z) 1))
    (zs.dropLast.map fun z => rotPoly ω (colPoly ω n z) (-((bf + 1 : ℕ) : ℤ)))
    (cols.map fun c => colPoly ω n c.1) (cols.map fun c => colPoly ω n c.2)
  simp only [coe_evalRingHom] at h
  rw [h, permExpressionsRow_eq_generic]
  simp only [indPoly_node hω _ i hi, eval_C, eval_X, List.map_map, Function.comp_def, Prod.map,
    eval_colPoly hω _ i hi, eval_colPoly_rot hω hn, rowOf_next, rowOf_last n i bf hbf, powN_eq_pow']

/-- **Permutation class: the identity polynomials vanish on the whole domain iff the row rules hold
on every row.** -/
theorem perm_vanishes_iff_rows (hω : IsPrimitiveRoot ω n) (L bf : ℕ) (hbf : bf + 1 ≤ n) (β γ δ : F)
    (cols : List (List F × List F)) (zs : List (List F)) :
    (∀ p ∈ permIdPolys ω L n bf β γ δ cols zs, ∀ i, i < n → p.eval (ω ^ i) = 0) ↔
      ∀ i, i < n → ∀ x ∈ permExpressionsRow L n bf β γ δ ω cols zs i, x = 0 := by
  constructor
  · intro h i hi x hx
    rw [← permIdPolys_node hω L bf hbf β γ δ cols zs i hi] at hx
    obtain ⟨p, hp, rfl⟩ := List.mem_map.1 hx
    exact h p hp i hi
  · intro h p hp i hi
    apply h i hi
    rw [← permIdPolys_node hω L bf hbf β γ δ cols zs i hi]
    exact List.mem_map.2 ⟨p, hp, rfl⟩

/-- **Lookup class** (polynomials of `C01.Asm.lookupIdPolys`). -/
theorem lookup_vanishes_iff_rows (hω : IsPrimitiveRoot ω n) (hn : 0 < n) (bf : ℕ) (β γ : F)
    (A S A' S' z : List F) :
    (∀ p ∈ lookupIdPolys ω n bf β γ A S A' S' z, ∀ i, i < n → p.eval (ω ^ i) = 0) ↔
      ∀ i, i < n → ∀ x ∈ lookupExpressionsRow n bf β γ A S A' S' z i, x = 0 := by
  constructor
  · intro h i hi x hx
    rw [← lookupIdPolys_node hω hn bf β γ A S A' S' z i hi] at hx
    obtain ⟨p, hp, rfl⟩ := List.mem_map.1 hx
    exact h p hp i hi
  · intro h p hp i hi
    apply h i hi
    rw [← lookupIdPolys_node hω hn bf β γ A S A' S' z i hi]
    exact List.mem_map.2 ⟨p, hp, rfl⟩

/-- **Trash class** (polynomial `C01.Asm.trashIdPoly`). -/
theorem trash_vanishes_iff_rows (hω : IsPrimitiveRoot ω n) (c : F) (q : List F) (exprs : List (List F))
    (trash : List F) :
    (∀ i, i < n → (trashIdPoly ω n c q exprs trash).eval (ω ^ i) = 0) ↔
      ∀ i, i < n → trashExpressionRow c q exprs trash i = 0 := by
  constructor
  · intro h i hi; rw [← trashIdPoly_node hω c q exprs trash i hi]; exact h i hi
  · intro h i hi; rw [trashIdPoly_node hω c q exprs trash i hi]; exact h i hi

end MidnightZK.C02.Dom
