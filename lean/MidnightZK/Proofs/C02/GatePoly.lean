import Mathlib.Algebra.Field.ZMod
import MidnightZK.Proofs.C01.Bridge
import MidnightZK.Proofs.C02.Bridge
import MidnightZK.Proofs.C02.GateRows
/-!
# C02 — custom gates: the gate POLYNOMIAL on the domain ⇔ the gate on every row

`exprPoly` substitutes, in a gate expression, every column query by the rotated column polynomial
(`rotPoly (colPoly column) rotation`: the polynomial of degree `< n` interpolating the column's
values, evaluated at `ω^rot·X`) — the polynomial whose value at `x` `evaluate_identities` computes
from the evaluations. At the node `ω^i` it takes the value `evalQ` computes from the cells of row
`i` (`rowEnv`), i.e. (`eval_eq_evalQ`) the value `MockProver` computes on row `i`.
-/
namespace MidnightZK.C02.GatePoly
open Polynomial MidnightZK MidnightZK.C02 MidnightZK.C02.Ids MidnightZK.C01.Asm MidnightZK.C01.Dom

variable (t : Table) [hp : Fact t.p.Prime]

instance : NeZero t.p := ⟨hp.out.ne_zero⟩

/-- A column of the assignment table as a vector over `ZMod p`. -/
def castCol (col : List Val) : List (ZMod t.p) := col.map fun v => ((realOf v : ℕ) : ZMod t.p)

/-- The polynomial of a gate expression over the column polynomials. -/
noncomputable def exprPoly (ω : ZMod t.p) : Expr → (ZMod t.p)[X]
  | .const c => C ((c : ℕ) : ZMod t.p)
  | .fixed col rot => rotPoly ω (colPoly ω t.n (castCol t (t.fixed.getD col []))) rot
  | .advice col rot => rotPoly ω (colPoly ω t.n (castCol t (t.advice.getD col []))) rot
  | .inst col rot => rotPoly ω (colPoly ω t.n (castCol t (t.inst.getD col []))) rot
  | .challenge i => C ((t.challenges.getD i 0 : ℕ) : ZMod t.p)
  | .neg e => -exprPoly ω e
  | .sum a b => exprPoly ω a + exprPoly ω b
  | .prod a b => exprPoly ω a * exprPoly ω b
  | .scaled e c => exprPoly ω e * C ((c : ℕ) : ZMod t.p)

theorem castCol_getD (col : List Val) (j : ℕ) :
    (castCol t col).getD j 0 = ((realOf (col.getD j (.real 0)) : ℕ) : ZMod t.p) := by
  unfold castCol
  rw [List.getD_eq_getElem?_getD, List.getD_eq_getElem?_getD, List.getElem?_map]
  cases col[j]? <;> simp [realOf]

omit hp in
theorem rowOf_cell (n i : ℕ) (r : ℤ) :
    rowOf n ((i : ℤ) + r) = ((((i : ℤ) + (n : ℤ) + r) % (n : ℤ))).toNat := by
  unfold rowOf
  congr 1
  rw [show (i : ℤ) + (n : ℤ) + r = (i : ℤ) + r + 1 * (n : ℤ) by ring, Int.add_mul_emod_self_right]

/-- A rotated column polynomial at the node `ω^i` is the cell `util::load` reads on row `i`. -/
theorem eval_col_cell {ω : ZMod t.p} (hω : IsPrimitiveRoot ω t.n) (hn : 0 < t.n) (cols : List (List Val))
    (c : ℕ) (r : ℤ) (i : ℕ) :
    (rotPoly ω (colPoly ω t.n (castCol t (cols.getD c []))) r).eval (ω ^ i) =
      ((realOf (cell cols t.n c i r) : ℕ) : ZMod t.p) := by
  rw [eval_colPoly_rot hω hn, castCol_getD, rowOf_cell]
  simp only [cell]

/-- **At the node `ω^i` the gate polynomial takes the value the identity model computes from the
cells of row `i`.** -/
theorem exprPoly_node {ω : ZMod t.p} (hω : IsPrimitiveRoot ω t.n) (hn : 0 < t.n) (cs : VCS) (i : ℕ)
    (g : Expr) (h : LeavesOK cs t i g) :
    (exprPoly t ω g).eval (ω ^ i) = ((evalQ (rowEnv cs t i) g : ℕ) : ZMod t.p) := by
  induction g with
  | const c => simp [exprPoly, evalQ, rowEnv]
  | challenge k => simp [exprPoly, evalQ, rowEnv]
  | fixed c r =>
    simp only [exprPoly, evalQ, rowEnv]
    rw [getD_map_queryIndex _ _ c r h.1, eval_col_cell t hω hn]
  | advice c r =>
    simp only [exprPoly, evalQ, rowEnv]
    rw [getD_map_queryIndex _ _ c r h.1, eval_col_cell t hω hn]
  | inst c r =>
    simp only [exprPoly, evalQ, rowEnv]
    rw [getD_map_queryIndex _ _ c r h.1, eval_col_cell t hω hn]
  | neg a ih =>
    simp only [exprPoly, evalQ, eval_neg, ih h]
    exact (cast_fneg (p := t.p) _).symm
  | sum a b iha ihb =>
    simp only [exprPoly, evalQ, eval_add, iha h.1, ihb h.2]
    exact (cast_fadd (p := t.p) _ _).symm
  | prod a b iha ihb =>
    simp only [exprPoly, evalQ, eval_mul, iha h.1, ihb h.2]
    exact (cast_fmul (p := t.p) _ _).symm
  | scaled a c ih =>
    simp only [exprPoly, evalQ, eval_mul, eval_C, ih h]
    rw [show (rowEnv cs t i).p = t.p from rfl, cast_fmul, ZMod.natCast_mod]

/-- **Gate class: the gate polynomials vanish on the whole domain iff every gate holds on every
row** (in the sense of `RowSat.lean: Expr.eval`, what `MockProver` evaluates), for every constraint
system and every assignment table over a prime field whose queried cells hold field elements
(`LeavesOK`) and whose row values are canonical (`< p`: automatic for every compound expression,
whose value is a reduced sum / product / negation; for a bare column query it says the cell is
canonical, as every dumped table is). -/
theorem gate_vanishes_iff_rows {ω : ZMod t.p} (hω : IsPrimitiveRoot ω t.n) (hn : 0 < t.n) (cs : VCS)
    (h : ∀ g ∈ cs.gates.flatten, ∀ i < t.n, LeavesOK cs t i g)
    (hred : ∀ g ∈ cs.gates.flatten, ∀ i < t.n, evalQ (rowEnv cs t i) g < t.p) :
    (∀ g ∈ cs.gates.flatten, ∀ i < t.n, (exprPoly t ω g).eval (ω ^ i) = 0) ↔
      ∀ g ∈ cs.gates.flatten, ∀ i < t.n, isZero (g.eval t i) = true := by
  have key : ∀ g ∈ cs.gates.flatten, ∀ i < t.n,
      ((exprPoly t ω g).eval (ω ^ i) = 0 ↔ isZero (g.eval t i) = true) := by
    intro g hg i hi
    rw [exprPoly_node t hω hn cs i g (h g hg i hi), eval_eq_evalQ cs t i g (h g hg i hi), isZero_real,
      ZMod.natCast_eq_zero_iff]
    constructor
    · intro hd; exact Nat.eq_zero_of_dvd_of_lt hd (hred g hg i hi)
    · intro h0; rw [h0]; exact dvd_zero _
  exact ⟨fun hz g hg i hi => (key g hg i hi).1 (hz g hg i hi),
    fun hz g hg i hi => (key g hg i hi).2 (hz g hg i hi)⟩

end MidnightZK.C02.GatePoly
