import Mathlib.Data.ZMod.Basic
import Mathlib.Tactic.Ring
import MidnightZK.Model.C02.Identities
import MidnightZK.Model.C01.Arguments
import MidnightZK.Proofs.C02.RowLevel
/-!
# C02 — the identity model (naturals mod `p`) and the row model (any ring) compute the same rules

`Model/C02/Identities.lean` (tied to the verifier value by value on every run) works on canonical
representatives; `Model/C01/Arguments.lean` reads the same Rust functions on a row, over any
ring. Casting to `ZMod p`, the lookup and trash identity values of the former are the values of
`lookupExpressionsRow` / `trashExpressionRow` of the latter whenever the evaluations are the row
values (`l_0`, `l_last`, `l_blind` being the row indicators). This is what lets the row-level
soundness theorems speak about the identity list the verifier really folds.
-/
namespace MidnightZK.C02.Ids
open MidnightZK MidnightZK.C02 MidnightZK.C01.Args

variable {p : ℕ} [NeZero p]

omit [NeZero p] in
theorem cast_fadd (a b : ℕ) : ((fadd p a b : ℕ) : ZMod p) = (a : ZMod p) + b := by
  simp [fadd]

omit [NeZero p] in
theorem cast_fmul (a b : ℕ) : ((fmul p a b : ℕ) : ZMod p) = (a : ZMod p) * b := by
  simp [fmul]

theorem cast_fsub (a b : ℕ) : ((fsub p a b : ℕ) : ZMod p) = (a : ZMod p) - b := by
  have hp : 0 < p := Nat.pos_of_ne_zero (NeZero.ne p)
  have hle : b % p ≤ p := (Nat.mod_lt b hp).le
  simp only [fsub, ZMod.natCast_mod, Nat.cast_add, Nat.cast_sub hle, ZMod.natCast_self]
  ring

theorem cast_fneg (a : ℕ) : ((fneg p a : ℕ) : ZMod p) = -(a : ZMod p) := by
  have hp : 0 < p := Nat.pos_of_ne_zero (NeZero.ne p)
  have hle : a % p ≤ p := (Nat.mod_lt a hp).le
  simp only [fneg, ZMod.natCast_mod, Nat.cast_sub hle, ZMod.natCast_self]
  ring

/-- `compress` (Horner fold with the challenge) commutes with the cast. -/
theorem cast_compress (e : Env) (hp : e.p = p) (θ : ℕ) (es : List Expr) :
    ((compress e θ es : ℕ) : ZMod p) =
      es.foldl (fun acc ex => acc * (θ : ZMod p) + ((evalQ e ex : ℕ) : ZMod p)) 0 := by
  unfold compress
  subst hp
  have : ∀ (a : ℕ) (b : ZMod e.p), (a : ZMod e.p) = b →
      ((es.foldl (fun acc ex => fadd e.p (fmul e.p acc θ) (evalQ e ex)) a : ℕ) : ZMod e.p) =
        es.foldl (fun acc ex => acc * (θ : ZMod e.p) + ((evalQ e ex : ℕ) : ZMod e.p)) b := by
    induction es with
    | nil => intro a b h; simpa using h
    | cons x t ih =>
      intro a b h
      simp only [List.foldl_cons]
      apply ih
      rw [cast_fadd, cast_fmul, h]
  simpa using this 0 0 (by simp)

/-- The row indicators as naturals. -/
def rowLagrange (n bf i : ℕ) : Lagrange :=
  { l0 := if i = 0 then 1 else 0, lLast := if i = n - (bf + 1) then 1 else 0,
    lBlind := if n - (bf + 1) < i then 1 else 0 }

/-- **Lookup rules: identity model = row model.** If the evaluations handed to the identity
model are the row values — `product = z[i]`, `product_next = z[(i+1) mod n]`,
`permuted_input = A'[i]`, `permuted_input_inv = A'[(i−1) mod n]`, `permuted_table = S'[i]`, and
the compressed input / table expressions are `A[i]`, `S[i]` — and `l_0, l_last, l_blind` are the
row indicators, then the five values of `Ids.lookupIdsOne`, cast to `ZMod p`, are the five values
of `lookupExpressionsRow` (same rules, same order). -/
theorem lookupIds_eq_row (e : Env) (hp : e.p = p) (n bf i li : ℕ) (ch : Challenges) (ev : LookupEvals)
    (arg : List Expr × List Expr) (A S A' S' z : List (ZMod p))
    (hz : (ev.product : ZMod p) = z.getD i 0) (hzn : (ev.productNext : ZMod p) = z.getD ((i + 1) % n) 0)
    (ha' : (ev.permutedInput : ZMod p) = A'.getD i 0)
    (hai : (ev.permutedInputInv : ZMod p) = A'.getD ((i + (n - 1)) % n) 0)
    (hs' : (ev.permutedTable : ZMod p) = S'.getD i 0)
    (hA : ((compress e ch.theta arg.1 : ℕ) : ZMod p) = A.getD i 0)
    (hS : ((compress e ch.theta arg.2 : ℕ) : ZMod p) = S.getD i 0) :
    (lookupIdsOne e (rowLagrange n bf i) ch li ev arg).map (fun cv => ((cv.2 : ℕ) : ZMod p)) =
      lookupExpressionsRow n bf (ch.beta : ZMod p) (ch.gamma : ZMod p) A S A' S' z i := by
  subst hp
  simp only [lookupIdsOne, lookupExpressionsRow, rowLagrange, List.map_cons, List.map_nil,
    cast_fmul, cast_fsub, cast_fadd, hz, hzn, ha', hai, hs', hA, hS, Nat.cast_ite, Nat.cast_one,
    Nat.cast_zero]

/-- **Trash rule: identity model = row model.** -/
theorem trashId_eq_row (e : Env) (hp : e.p = p) (i : ℕ) (ch : Challenges) (trashEval : ℕ)
    (arg : Expr × List Expr) (q trash : List (ZMod p)) (exprs : List (List (ZMod p)))
    (hq : ((evalQ e arg.1 : ℕ) : ZMod p) = q.getD i 0) (ht : (trashEval : ZMod p) = trash.getD i 0)
    (hc : ((compress e ch.trash arg.2 : ℕ) : ZMod p) = compressRow (ch.trash : ZMod p) exprs i) :
    ((trashIdOne e ch trashEval arg : ℕ) : ZMod p) =
      trashExpressionRow (ch.trash : ZMod p) q exprs trash i := by
  subst hp
  simp only [trashIdOne, trashExpressionRow, cast_fsub, cast_fmul, hq, ht, hc, Nat.cast_one]

/-! ## permutation rules -/


/-- `slice.chunks` commutes with `map`. -/
theorem chunksFuel_map {α β : Type} (g : α → β) (m fuel : ℕ) (l : List α) :
    chunksFuel m fuel (l.map g) = (chunksFuel m fuel l).map (List.map g) := by
  induction fuel generalizing l with
  | zero => rfl
  | succ k ih =>
    unfold chunksFuel
    by_cases hl : l.isEmpty
    · have : l = [] := List.isEmpty_iff.mp hl
      subst this; simp
    · have hl' : (l.map g).isEmpty = false := by simpa using hl
      simp only [hl, hl', Bool.false_eq_true, ↓reduceIte, List.map_cons, ← List.map_take, ← List.map_drop, ih]

theorem chunks_map {α β : Type} (g : α → β) (m : ℕ) (l : List α) :
    chunks m (l.map g) = (chunks m l).map (List.map g) := by
  unfold chunks
  rw [List.length_map, chunksFuel_map]

/-- The four rule families of `permutation.rs: expressions` over abstract row data: `T` = per
set `(z(x), z(ωx))`, `Tl` = `z(ω^last x)` of every set but the last, `V` = column values,
`P` = σ values. -/
def permGeneric {F : Type} [CommRing F] (L : ℕ) (l0 lLast lBlind β γ δ x : F)
    (T : List (F × F)) (Tl : List F) (V P : List F) : List F :=
  (T.head?.map fun t => l0 * (1 - t.1)).toList ++
  (T.getLast?.map fun t => (t.1 * t.1 - t.1) * lLast).toList ++
  (((T.drop 1).zip Tl).map fun pq => (pq.1.1 - pq.2) * l0) ++
  (((T.zip (chunks L V)).zip (chunks L P)).zipIdx.map fun tvp =>
    ((tvp.1.1.2.zip tvp.1.2).foldl (fun left cp => left * (cp.1 + β * cp.2 + γ)) tvp.1.1.1.2 -
      (tvp.1.1.2.foldl (fun (st : F × F) c => (st.1 * (c + st.2 + γ), st.2 * δ))
        (tvp.1.1.1.1, (β * x) * δ ^ (tvp.2 * L))).1) * (1 - (lLast + lBlind)))

/-- `iter().skip(1).zip(iter())` only reaches all but the last element of the second iterator. -/
theorem zip_drop_one_dropLast {α : Type} (X : List α) : (X.drop 1).zip X = (X.drop 1).zip X.dropLast := by
  cases X with
  | nil => rfl
  | cons a t =>
    simp only [List.drop_succ_cons, List.drop_zero]
    induction t generalizing a with
    | nil => rfl
    | cons b u ih => simp only [List.dropLast_cons_cons, List.zip_cons_cons, ih b]


section RowSide
variable {F : Type} [CommRing F]

theorem powN_eq_pow' (x : F) (k : ℕ) : powN x k = x ^ k := by
  induction k with
  | zero => simp [powN]
  | succ k ih => rw [powN, ih, pow_succ]

theorem zip_zip_map_same {α β γ δ : Type} (f : β → γ) (g : β → δ) (A : List α) (C : List β) :
    (A.zip (C.map f)).zip (C.map g) = (A.zip C).map fun ac => ((ac.1, f ac.2), g ac.2) := by
  induction A generalizing C with
  | nil => simp
  | cons a t ih =>
    cases C with
    | nil => simp
    | cons c u => simp [ih]

/-- The row model is the generic rule list on the row data of `zs` and `cols`. -/
theorem permExpressionsRow_eq_generic (L n bf : ℕ) (β γ δ ω : F) (cols : List (List F × List F))
    (zs : List (List F)) (i : ℕ) :
    permExpressionsRow L n bf β γ δ ω cols zs i =
      permGeneric L (if i = 0 then 1 else 0) (if i = n - (bf + 1) then 1 else 0)
        (if n - (bf + 1) < i then 1 else 0) β γ δ (powN ω i)
        (zs.map fun z => (z.getD i 0, z.getD ((i + 1) % n) 0))
        (zs.dropLast.map fun z => z.getD ((i + (n - (bf + 1))) % n) 0)
        (cols.map fun c => c.1.getD i 0) (cols.map fun c => c.2.getD i 0) := by
  unfold permExpressionsRow permGeneric
  rw [zip_drop_one_dropLast]
  simp only [List.head?_map, List.getLast?_map, Option.map_map, Function.comp_def, ← List.map_drop,
    List.zip_map, List.map_map, Prod.map]
  congr 1
  rw [chunks_map, chunks_map, zip_zip_map_same, List.zipIdx_map, List.map_map]
  have hch : MidnightZK.C01.Args.chunks L cols.length cols = chunks L cols := by
    unfold chunks; exact MidnightZK.C02.args_chunks_eq L cols.length cols
  rw [hch, List.zip_map_left, List.zipIdx_map, List.map_map]
  apply List.map_congr_left
  rintro ⟨⟨z, chunk⟩, ci⟩ _
  simp only [Function.comp_def, Prod.map, permLeftRight, List.zip_map', List.foldl_map,
    powN_eq_pow', id]

end RowSide

section IdSide

omit [NeZero p] in
theorem foldl_cast {α : Type} (Fn : ℕ → α → ℕ) (G : ZMod p → α → ZMod p)
    (h : ∀ a x, ((Fn a x : ℕ) : ZMod p) = G (a : ZMod p) x) (l : List α) (a : ℕ) :
    ((l.foldl Fn a : ℕ) : ZMod p) = l.foldl G (a : ZMod p) := by
  induction l generalizing a with
  | nil => rfl
  | cons x t ih => simp only [List.foldl_cons]; rw [ih, h]

omit [NeZero p] in
theorem foldl_cast2 {α : Type} (Fn : ℕ × ℕ → α → ℕ × ℕ) (G : ZMod p × ZMod p → α → ZMod p × ZMod p)
    (h : ∀ st x, (((Fn st x).1 : ZMod p), ((Fn st x).2 : ZMod p)) = G ((st.1 : ZMod p), (st.2 : ZMod p)) x)
    (l : List α) (st : ℕ × ℕ) :
    ((((l.foldl Fn st).1 : ℕ) : ZMod p), (((l.foldl Fn st).2 : ℕ) : ZMod p)) =
      l.foldl G ((st.1 : ZMod p), (st.2 : ZMod p)) := by
  induction l generalizing st with
  | nil => rfl
  | cons x t ih => simp only [List.foldl_cons]; rw [ih, h]

theorem cast_powMod (b k : ℕ) : ((powMod b k p : ℕ) : ZMod p) = (b : ZMod p) ^ k := by
  rw [powMod_spec b k p (Nat.pos_of_ne_zero (NeZero.ne p)), ZMod.natCast_mod, Nat.cast_pow]

theorem cast_permLeft (e : Env) (hp : e.p = p) (β γ next : ℕ) (cols : List (ColKind × Nat))
    (pevals : List ℕ) :
    ((permLeft e β γ next cols pevals : ℕ) : ZMod p) =
      ((cols.map fun c => ((colEval e c : ℕ) : ZMod p)).zip (pevals.map fun v => ((v : ℕ) : ZMod p))).foldl
        (fun left cp => left * (cp.1 + (β : ZMod p) * cp.2 + (γ : ZMod p))) (next : ZMod p) := by
  subst hp
  unfold permLeft
  rw [List.zip_map, List.foldl_map]
  apply foldl_cast
  intro a x
  simp only [cast_fmul, cast_fadd, Prod.map]

theorem cast_permRight (f : Fld) (e : Env) (hp : e.p = p) (β γ x ci L cur : ℕ) (cols : List (ColKind × Nat)) :
    ((permRight f e β γ x ci L cur cols : ℕ) : ZMod p) =
      ((cols.map fun c => ((colEval e c : ℕ) : ZMod p)).foldl
        (fun (st : ZMod p × ZMod p) c => (st.1 * (c + st.2 + (γ : ZMod p)), st.2 * (f.delta : ZMod p)))
        ((cur : ZMod p), ((β : ZMod p) * (x : ZMod p)) * (f.delta : ZMod p) ^ (ci * L))).1 := by
  subst hp
  unfold permRight
  rw [List.foldl_map]
  have := foldl_cast2 (p := e.p)
    (fun (st : ℕ × ℕ) (c : ColKind × Nat) =>
      (fmul e.p st.1 (fadd e.p (fadd e.p (colEval e c) st.2) γ), fmul e.p st.2 (f.delta % e.p)))
    (fun (st : ZMod e.p × ZMod e.p) (c : ColKind × Nat) =>
      (st.1 * (((colEval e c : ℕ) : ZMod e.p) + st.2 + (γ : ZMod e.p)), st.2 * (f.delta : ZMod e.p)))
    (by intro st c; simp only [cast_fmul, cast_fadd, ZMod.natCast_mod])
    cols (cur, fmul e.p (fmul e.p β x) (powMod f.delta (ci * L) e.p))
  simp only [cast_fmul, cast_powMod] at this
  exact congrArg Prod.fst this

theorem zipIdx_map_forget {α β : Type} (tag : ℕ → IdClass) (v : α → ℕ) (g : ℕ → β) (l : List α) (k : ℕ) :
    ((l.zipIdx k).map fun ai => (tag ai.2, v ai.1)).map (fun cv => g cv.2) = l.map fun a => g (v a) := by
  induction l generalizing k with
  | nil => rfl
  | cons a t ih => simp only [List.zipIdx_cons, List.map_cons, ih]

/-- The identity model is the generic rule list on the casts of what the verifier read. -/
theorem permIds_eq_generic (f : Fld) (e : Env) (hp : e.p = p) (permCommon : List ℕ) (sets : List PermSet)
    (L : Lagrange) (ch : Challenges) :
    (permIds f e permCommon sets L ch).map (fun cv => ((cv.2 : ℕ) : ZMod p)) =
      permGeneric (e.cs.degree - 2) (L.l0 : ZMod p) (L.lLast : ZMod p) (L.lBlind : ZMod p)
        (ch.beta : ZMod p) (ch.gamma : ZMod p) (f.delta : ZMod p) (ch.x : ZMod p)
        (sets.map fun s => ((s.eval : ZMod p), (s.next : ZMod p)))
        (sets.dropLast.map fun s => ((s.last.getD 0 : ℕ) : ZMod p))
        (e.cs.permCols.map fun c => ((colEval e c : ℕ) : ZMod p))
        (permCommon.map fun v => ((v : ℕ) : ZMod p)) := by
  unfold permIds permGeneric
  simp only [List.map_append]
  congr 1
  · congr 1
    · congr 1
      · cases sets with
        | nil => rfl
        | cons s t => subst hp; simp [cast_fmul, cast_fsub]
      · rw [List.getLast?_map]
        cases sets.getLast? with
        | none => rfl
        | some s => subst hp; simp [cast_fmul, cast_fsub]
    · rw [zipIdx_map_forget (fun i => IdClass.permChain (i + 1))
        (fun (sp : PermSet × PermSet) => fmul e.p (fsub e.p sp.1.eval (sp.2.last.getD 0)) L.l0)
        (fun v => ((v : ℕ) : ZMod p))]
      rw [zip_drop_one_dropLast, ← List.map_drop, List.zip_map, List.map_map]
      apply List.map_congr_left
      intro sp _
      subst hp
      simp only [cast_fmul, cast_fsub, Function.comp_def, Prod.map]
  · rw [chunks_map, chunks_map, List.zip_map, List.zip_map, List.zipIdx_map, List.map_map, List.map_map]
    apply List.map_congr_left
    rintro ⟨⟨⟨s, cc⟩, pp⟩, ci⟩ _
    simp only [Function.comp_def, Prod.map, id]
    rw [← cast_permLeft e hp, ← cast_permRight f e hp]
    subst hp
    simp only [cast_fmul, cast_fsub, cast_fadd, Nat.cast_one]


/-- **Permutation rules: identity model = row model.** -/
theorem permIds_eq_row (f : Fld) (e : Env) (hp : e.p = p) (permCommon : List ℕ) (sets : List PermSet)
    (ch : Challenges) (n bf i : ℕ) (ω : ZMod p) (cols : List (List (ZMod p) × List (ZMod p)))
    (zs : List (List (ZMod p))) (hx : (ch.x : ZMod p) = powN ω i)
    (hsets : (sets.map fun s => ((s.eval : ZMod p), (s.next : ZMod p))) =
      zs.map fun z => (z.getD i 0, z.getD ((i + 1) % n) 0))
    (hlast : (sets.dropLast.map fun s => ((s.last.getD 0 : ℕ) : ZMod p)) =
      zs.dropLast.map fun z => z.getD ((i + (n - (bf + 1))) % n) 0)
    (hcols : (e.cs.permCols.map fun c => ((colEval e c : ℕ) : ZMod p)) = cols.map fun c => c.1.getD i 0)
    (hperm : (permCommon.map fun v => ((v : ℕ) : ZMod p)) = cols.map fun c => c.2.getD i 0) :
    (permIds f e permCommon sets (rowLagrange n bf i) ch).map (fun cv => ((cv.2 : ℕ) : ZMod p)) =
      permExpressionsRow (e.cs.degree - 2) n bf (ch.beta : ZMod p) (ch.gamma : ZMod p) (f.delta : ZMod p) ω
        cols zs i := by
  rw [permIds_eq_generic f e hp, permExpressionsRow_eq_generic, hsets, hlast, hcols, hperm, hx]
  simp only [rowLagrange, Nat.cast_ite, Nat.cast_one, Nat.cast_zero]

end IdSide
end MidnightZK.C02.Ids
