import Mathlib.GroupTheory.OrderOfElement
import Mathlib.RingTheory.RootsOfUnity.PrimitiveRoots
import Mathlib.Data.ZMod.Basic
import Mathlib.Data.List.Prime
import Mathlib.Tactic.Ring
import Mathlib.Tactic.NormNum.Prime
import MidnightZK.Model.C02.Fld
import MidnightZK.Proofs.C10.Prime
import MidnightZK.Proofs.C02.Bridge
/-!
# C02 — the permutation labels `δ^c · ω^i` are pairwise distinct (BLS12-381 scalar field)

The permutation argument labels cell `(column c, row i)` with `δ^c · ω^i` (`RowLevel.idlOf`).
Its soundness needs these labels to be pairwise distinct. Here this is derived from the orders
of `δ` and `ω` (general statement over any field), and the orders are established for the
constants the translator regenerates from `curves/src/bls12_381/fq.rs`:

* `DELTA` has order exactly `(r − 1) / 2^S` (the odd part of `r − 1`), and `DELTA = GENERATOR^(2^S)`;
* `ROOT_OF_UNITY` is a primitive `2^S`-th root of unity, and the `omega` that
  `EvaluationDomain::new` computes (`Ids.omegaOf`) is a primitive `2^k`-th root of unity for
  every `k ≤ S`.

Modular powers of 255-bit numbers are evaluated by the kernel through `powMod`.
-/
namespace MidnightZK.C02.Labels
open MidnightZK MidnightZK.C02

/-- **Labels are distinct (any field).** If `δ` has order `t`, `ω` is a primitive `n`-th root of
unity and `t`, `n` are coprime, then `(c, i) ↦ δ^c · ω^i` is injective on `c < t`, `i < n`. -/
theorem labels_injective_of_orders {F : Type} [Field F] (δ ω : F) (t n : ℕ)
    (hδ : orderOf δ = t) (hω : IsPrimitiveRoot ω n) (hcop : Nat.Coprime t n)
    {c c' i i' : ℕ} (hc : c < t) (hc' : c' < t) (hi : i < n) (hi' : i' < n)
    (h : δ ^ c * ω ^ i = δ ^ c' * ω ^ i') : c = c' ∧ i = i' := by
  have hδ0 : δ ≠ 0 := by
    intro h0
    have h1 : δ ^ t = 1 := hδ ▸ pow_orderOf_eq_one δ
    rw [h0, zero_pow (by omega)] at h1
    exact zero_ne_one h1
  have hωn : ∀ j : ℕ, ω ^ (j * n) = 1 := fun j => by
    rw [mul_comm, pow_mul, hω.pow_eq_one, one_pow]
  have key : ∀ {a b j j' : ℕ}, a ≤ b → b < t → δ ^ a * ω ^ j = δ ^ b * ω ^ j' → a = b := by
    intro a b j j' hab hb hh
    have h2 : (δ ^ a * ω ^ j) ^ n = (δ ^ b * ω ^ j') ^ n := by rw [hh]
    simp only [mul_pow, ← pow_mul] at h2
    rw [hωn, hωn, mul_one, mul_one] at h2
    have hb' : b * n = a * n + (b - a) * n := by
      rw [← Nat.add_mul]; congr 1; omega
    have h3 : δ ^ ((b - a) * n) = 1 := by
      rw [hb', pow_add] at h2
      have h4 : δ ^ (a * n) * 1 = δ ^ (a * n) * δ ^ ((b - a) * n) := by rw [mul_one]; exact h2
      exact (mul_left_cancel₀ (pow_ne_zero _ hδ0) h4).symm
    have hd := orderOf_dvd_of_pow_eq_one h3
    rw [hδ] at hd
    have hd' : t ∣ b - a := hcop.dvd_of_dvd_mul_right hd
    have := Nat.eq_zero_of_dvd_of_lt hd' (by omega)
    omega
  have hcc : c = c' := by
    rcases Nat.le_total c c' with hle | hle
    · exact key hle hc' h
    · exact (key hle hc h.symm).symm
  subst hcc
  exact ⟨rfl, hω.pow_inj hi hi' (mul_left_cancel₀ (pow_ne_zero _ hδ0) h)⟩

/-- The translator's `MODULUS` is the literal whose primality `C10.blsR_prime` certifies. -/
theorem modulus_eq_blsR : Consts.modulus = C10.blsR := rfl

/-- `Fq::MODULUS` is prime (Lucas certificate of `Proofs/C10/Prime.lean`). -/
instance modulus_prime : Fact (Nat.Prime Consts.modulus) := ⟨modulus_eq_blsR ▸ C10.blsR_prime⟩

/-- `0 < r`. -/
theorem modulus_pos : 0 < Consts.modulus := (Fact.out : Nat.Prime Consts.modulus).pos

/-- `1 < r`. -/
theorem one_lt_modulus : 1 < Consts.modulus := (Fact.out : Nat.Prime Consts.modulus).one_lt

/-- The odd part `t = (r − 1) / 2^S` of `r − 1` (`r = 2^S · t + 1`). -/
def oddPart : ℕ := (Consts.modulus - 1) / 2 ^ Consts.twoAdicity

/-- The prime factors of `oddPart`, with multiplicity. -/
def oddPartFactors : List ℕ :=
  [3, 11, 19, 10177, 125527, 859267, 906349, 906349, 2508409, 2529403, 52437899, 254760293,
    254760293]

/-- Factorisation of the odd part of `r − 1`. -/
theorem oddPart_factor : oddPart =
    [3, 11, 19, 10177, 125527, 859267, 906349, 906349, 2508409, 2529403, 52437899, 254760293,
      254760293].prod := by
  decide +kernel

/-- `r − 1 = 2^S · oddPart` exactly. -/
theorem two_pow_mul_oddPart : 2 ^ Consts.twoAdicity * oddPart = Consts.modulus - 1 := by
  decide +kernel

/-- `oddPart` is odd, i.e. `S` is the full two-adicity of `r − 1`. -/
theorem oddPart_odd : oddPart % 2 = 1 := by
  decide +kernel

/-- `0 < oddPart`. -/
theorem oddPart_pos : 0 < oddPart := by
  decide +kernel

/-- Every entry of the factor list is prime. -/
theorem oddPartFactors_prime : ∀ q ∈ oddPartFactors, Nat.Prime q := by
  intro q hq
  simp only [oddPartFactors, List.mem_cons, List.not_mem_nil, or_false] at hq
  rcases hq with h | h | h | h | h | h | h | h | h | h | h | h | h <;> subst h <;> norm_num

/-- A prime divisor of `oddPart` is one of the listed factors. -/
theorem mem_factors_of_prime_dvd {q : ℕ} (hq : q.Prime) (hd : q ∣ oddPart) : q ∈ oddPartFactors := by
  rw [oddPart_factor] at hd
  exact _root_.mem_list_primes_of_dvd_prod hq.prime
    (fun r hr => (oddPartFactors_prime r hr).prime) hd

/-- `DELTA^oddPart = 1`, and `DELTA^(oddPart / q) ≠ 1` for each prime factor `q` of `oddPart`
(evaluated by the kernel). -/
theorem delta_powers :
    powMod Consts.delta oddPart Consts.modulus = 1 ∧
    ∀ q ∈ oddPartFactors,
      powMod Consts.delta (oddPart / q) Consts.modulus ≠ 1 ∧
        powMod Consts.delta (oddPart / q) Consts.modulus < Consts.modulus := by
  decide +kernel

/-- **`DELTA` has order exactly `(r − 1) / 2^S`** in the scalar field. -/
theorem delta_orderOf : orderOf ((Consts.delta : ℕ) : ZMod Consts.modulus) = oddPart := by
  apply orderOf_eq_of_pow_and_pow_div_prime oddPart_pos
  · rw [C10.zmod_pow_eq _ _ _ modulus_pos, delta_powers.1, Nat.cast_one]
  · intro q hq hd
    obtain ⟨hne, hlt⟩ := delta_powers.2 q (mem_factors_of_prime_dvd hq hd)
    rw [C10.zmod_pow_eq _ _ _ modulus_pos]
    exact C10.zmod_ne_one _ _ hlt one_lt_modulus hne

/-- `DELTA = GENERATOR^(2^S)` (the comment of `fq.rs`), `GENERATOR = 7`. -/
theorem delta_is_generator_power :
    powMod Consts.generator (2 ^ Consts.twoAdicity) Consts.modulus = Consts.delta := by
  decide +kernel

/-- `squareN p t w` (square `t` times, as `EvaluationDomain::new` does) is `w^(2^t)`. -/
theorem squareN_cast {p : ℕ} [NeZero p] (t w : ℕ) :
    ((Ids.squareN p t w : ℕ) : ZMod p) = (w : ZMod p) ^ (2 ^ t) := by
  induction t generalizing w with
  | zero => simp [Ids.squareN]
  | succ t ih =>
    rw [Ids.squareN, ih, Ids.cast_fmul, ← pow_two, ← pow_mul, pow_succ']

/-- `ROOT_OF_UNITY^(2^(S−1)) = −1 ≠ 1` and `ROOT_OF_UNITY^(2^S) = 1` (evaluated by the kernel). -/
theorem root_powers :
    powMod Consts.rootOfUnity (2 ^ 31) Consts.modulus = Consts.modulus - 1 ∧
    powMod Consts.rootOfUnity (2 ^ 32) Consts.modulus = 1 := by
  decide +kernel

/-- **`ROOT_OF_UNITY` is a primitive `2^S`-th root of unity.** -/
theorem root_primitive :
    IsPrimitiveRoot ((Consts.rootOfUnity : ℕ) : ZMod Consts.modulus) (2 ^ Consts.twoAdicity) := by
  rw [IsPrimitiveRoot.iff_orderOf]
  show orderOf ((Consts.rootOfUnity : ℕ) : ZMod Consts.modulus) = 2 ^ (31 + 1)
  apply orderOf_eq_prime_pow
  · rw [C10.zmod_pow_eq _ _ _ modulus_pos, root_powers.1]
    exact C10.zmod_ne_one _ _ (by decide +kernel) one_lt_modulus (by decide +kernel)
  · rw [C10.zmod_pow_eq _ _ _ modulus_pos, root_powers.2, Nat.cast_one]

/-- The `omega` of `EvaluationDomain::new` is `ROOT_OF_UNITY^(2^(S−k))`. -/
theorem omegaOf_cast (k : ℕ) :
    ((Ids.omegaOf blsFld k : ℕ) : ZMod Consts.modulus) =
      ((Consts.rootOfUnity : ℕ) : ZMod Consts.modulus) ^ (2 ^ (Consts.twoAdicity - k)) := by
  show ((Ids.squareN Consts.modulus (Consts.twoAdicity - k)
    (Consts.rootOfUnity % Consts.modulus) : ℕ) : ZMod Consts.modulus) = _
  rw [squareN_cast, ZMod.natCast_mod]

/-- **The domain generator `omega` of a `2^k`-row domain is a primitive `2^k`-th root of unity**,
for every `k ≤ S`. -/
theorem omega_primitive (k : ℕ) (hk : k ≤ Consts.twoAdicity) :
    IsPrimitiveRoot (((Ids.omegaOf blsFld k : ℕ)) : ZMod Consts.modulus) (2 ^ k) := by
  rw [omegaOf_cast]
  refine IsPrimitiveRoot.pow (pow_pos (by norm_num) _) root_primitive ?_
  rw [← pow_add]
  congr 1
  omega

/-- `oddPart` is coprime to every power of two. -/
theorem oddPart_coprime_two_pow (k : ℕ) : Nat.Coprime oddPart (2 ^ k) := by
  apply Nat.Coprime.pow_right
  rw [Nat.coprime_two_right, Nat.odd_iff]
  exact oddPart_odd

/-- **Permutation labels are pairwise distinct in the BLS12-381 scalar field**: for a domain of
`2^k` rows (`k ≤ S`) and fewer than `(r−1)/2^S` columns, `δ^c · ω^i = δ^c' · ω^i'` forces
`(c, i) = (c', i')`, with `δ = Fq::DELTA` and `ω` the `omega` of `EvaluationDomain::new`. -/
theorem perm_labels_injective_bls (k : ℕ) (hk : k ≤ Consts.twoAdicity) {c c' i i' : ℕ}
    (hc : c < oddPart) (hc' : c' < oddPart) (hi : i < 2 ^ k) (hi' : i' < 2 ^ k)
    (h : ((Consts.delta : ℕ) : ZMod Consts.modulus) ^ c *
          ((Ids.omegaOf blsFld k : ℕ) : ZMod Consts.modulus) ^ i =
        ((Consts.delta : ℕ) : ZMod Consts.modulus) ^ c' *
          ((Ids.omegaOf blsFld k : ℕ) : ZMod Consts.modulus) ^ i') :
    c = c' ∧ i = i' :=
  labels_injective_of_orders _ _ oddPart (2 ^ k) delta_orderOf (omega_primitive k hk)
    (oddPart_coprime_two_pow k) hc hc' hi hi' h

end MidnightZK.C02.Labels
