import Mathlib.FieldTheory.Finite.Basic
import MidnightZK.Proofs.C01.Bridge
import MidnightZK.Proofs.C02.Bridge
/-!
# C02 — the Lagrange values and instance evaluations of the identity model are evaluations of
the basis / column polynomials

`Model/C02/Identities.lean` (`lIRange`, `lagrange`, `instanceEvals`: naturals mod `p`, validated
against the real verifier on every run) cast to `ZMod p` (`p` prime) is the field-generic model
`Model/C01/Vanishing.lean` (`Van.lIRange`, `Van.lEvals`, `Van.instanceEval`), for which
`Proofs/C01/Assembly.lean` proves: `l_0(x)`, `l_last(x)`, `l_blind(x)` are the values at `x` of the
Lagrange-basis polynomials `indPoly` of the rows `0`, `u`, `> u`, and the evaluation of a plain
instance column is the value at `ω^rot·x` of the column's interpolating polynomial `colPoly`.
-/
namespace MidnightZK.C02.Lag
open Polynomial Finset MidnightZK MidnightZK.C01.Dom MidnightZK.C01.Asm MidnightZK.C01.Args MidnightZK.C02.Ids
open MidnightZK.C01 (Van.lIRange Van.lEvals Van.instanceEval Van.rotateOmega Van.innerProduct Van.blindRots
  Van.instRots)

variable {p : ℕ} [hpF : Fact p.Prime]

instance : NeZero p := ⟨hpF.out.ne_zero⟩

/-- Fermat inversion `a^(p−2)` is the field inverse (`0 ↦ 0` needs `p > 2`). -/
theorem cast_invMod (hp2 : 2 < p) (a : ℕ) : ((invMod a p : ℕ) : ZMod p) = ((a : ZMod p))⁻¹ := by
  unfold invMod
  rw [cast_powMod]
  by_cases ha : (a : ZMod p) = 0
  · rw [ha, inv_zero, zero_pow (by omega)]
  · apply eq_inv_of_mul_eq_one_left
    rw [← pow_succ, show p - 2 + 1 = p - 1 by omega]
    exact ZMod.pow_card_sub_one_eq_one ha

/-- `omega` of the domain as an element of `ZMod p`. -/
def omegaZ (f : Fld) (k : ℕ) : ZMod f.p := ((omegaOf f k : ℕ) : ZMod f.p)

theorem intRange_eq_blindRots (bf : ℕ) : intRange (-((bf + 1 : ℕ) : ℤ)) (bf + 2) = Van.blindRots bf := by
  unfold intRange Van.blindRots
  apply List.map_congr_left
  intro j _
  push_cast; ring

section Cast
variable (f : Fld) [hf : Fact f.p.Prime] (hp2 : 2 < f.p) (k : ℕ)
include hp2

theorem cast_rotateOmega (v : ℕ) (r : ℤ) :
    ((rotateOmega f k v r : ℕ) : ZMod f.p) =
      Van.rotateOmega (omegaZ f k) (omegaZ f k)⁻¹ (v : ZMod f.p) r := by
  unfold rotateOmega Van.rotateOmega
  simp only []
  split
  · rw [cast_fmul, cast_powMod, powN_eq_pow']; rfl
  · rename_i h
    rw [cast_fmul, cast_powMod, powN_eq_pow', cast_invMod hp2]
    have : (-r).toNat = r.natAbs := by omega
    rw [this]; rfl

theorem cast_lIRange (x xn : ℕ) (rots : List ℤ) :
    (lIRange f k x xn rots).map (fun v => ((v : ℕ) : ZMod f.p)) =
      Van.lIRange (fun a => a⁻¹) (omegaZ f k) (omegaZ f k)⁻¹ (((2 ^ k : ℕ) : ZMod f.p))⁻¹
        (x : ZMod f.p) (xn : ZMod f.p) rots := by
  unfold lIRange Van.lIRange
  simp only [List.map_map]
  have hz : ∀ (l : List ℤ) (g : ℤ → ℕ), l.zip (l.map g) = l.map fun r => (r, g r) := by
    intro l g
    induction l with
    | nil => rfl
    | cons a t ih => simp only [List.map_cons, List.zip_cons_cons, ih]
  have hz' : ∀ (l : List ℤ) (g : ℤ → ZMod f.p), l.zip (l.map g) = l.map fun r => (r, g r) := by
    intro l g
    induction l with
    | nil => rfl
    | cons a t ih => simp only [List.map_cons, List.zip_cons_cons, ih]
  rw [hz, hz', List.map_map, List.map_map]
  apply List.map_congr_left
  intro r _
  simp only [Function.comp_def]
  rw [cast_rotateOmega f hp2, cast_fmul, cast_invMod hp2, cast_fsub, cast_rotateOmega f hp2, cast_fmul,
    cast_fsub, cast_invMod hp2, ZMod.natCast_mod]
  simp

omit hp2 in
theorem getD_map_cast (l : List ℕ) (i : ℕ) :
    ((l.map fun v => ((v : ℕ) : ZMod f.p)).getD i 0) = ((l.getD i 0 : ℕ) : ZMod f.p) := by
  rw [List.getD_eq_getElem?_getD, List.getD_eq_getElem?_getD, List.getElem?_map]
  cases l[i]? <;> simp

/-- **`evaluate_identities`: the natural-number model of `l_0`, `l_last`, `l_blind` is the field model.** -/
theorem cast_lagrange (cs : VCS) (x xn : ℕ) :
    let L := lagrange f cs x xn
    (((L.l0 : ℕ) : ZMod f.p), ((L.lLast : ℕ) : ZMod f.p), ((L.lBlind : ℕ) : ZMod f.p)) =
      Van.lEvals (fun a => a⁻¹) (omegaZ f cs.k) (omegaZ f cs.k)⁻¹ (((2 ^ cs.k : ℕ) : ZMod f.p))⁻¹
        (x : ZMod f.p) (xn : ZMod f.p) cs.blinding := by
  intro L
  unfold Van.lEvals
  simp only []
  rw [← intRange_eq_blindRots, ← cast_lIRange f hp2]
  refine Prod.ext ?_ (Prod.ext ?_ ?_)
  · simp only [getD_map_cast]; rfl
  · simp only [getD_map_cast]; rfl
  · simp only [← List.map_drop, ← List.map_take, List.foldl_map]
    show ((L.lBlind : ℕ) : ZMod f.p) = _
    have := foldl_cast (p := f.p) (fun acc e => fadd f.p acc e) (fun acc (e : ℕ) => acc + (e : ZMod f.p))
      (by intro a x; rw [cast_fadd])
      (((lIRange f cs.k x xn (intRange (-((cs.blinding + 1 : ℕ) : ℤ)) (cs.blinding + 2))).drop 1).take cs.blinding) 0
    rw [Nat.cast_zero] at this
    exact this

end Cast

/-! ### `l_0`, `l_last`, `l_blind` of the identity model = basis polynomials evaluated at `x` -/

section Spec
variable (f : Fld) [hf : Fact f.p.Prime] (hp2 : 2 < f.p)
include hp2

/-- **The Lagrange values of the identity model are the Lagrange-basis polynomials at `x`.** For a
prime modulus, `ω = omegaOf f k` a primitive `2^k`-th root of unity and `x` off the domain: the
naturals `l_0`, `l_last`, `l_blind` that `Ids.lagrange` computes (what `evaluate_identities` computes
through `l_i_range`) are the values at `x` of the polynomials of degree `< n` that are the row
indicators `[i = 0]`, `[i = u]`, `[u < i]` on the domain. -/
theorem lagrange_is_basis_eval (cs : VCS) (hω : IsPrimitiveRoot (omegaZ f cs.k) (2 ^ cs.k))
    (hbf : cs.blinding + 1 ≤ 2 ^ cs.k) (x : ℕ) (hx : (x : ZMod f.p) ^ (2 ^ cs.k) ≠ 1) :
    let L := lagrange f cs x (xnOf f.p cs.k x)
    ((L.l0 : ℕ) : ZMod f.p) = (indPoly (omegaZ f cs.k) (2 ^ cs.k) (fun i => i = 0)).eval (x : ZMod f.p) ∧
    ((L.lLast : ℕ) : ZMod f.p) =
      (indPoly (omegaZ f cs.k) (2 ^ cs.k) (fun i => i = 2 ^ cs.k - (cs.blinding + 1))).eval (x : ZMod f.p) ∧
    ((L.lBlind : ℕ) : ZMod f.p) =
      (indPoly (omegaZ f cs.k) (2 ^ cs.k) (fun i => 2 ^ cs.k - (cs.blinding + 1) < i)).eval (x : ZMod f.p) := by
  intro L
  have h := cast_lagrange f hp2 cs x (xnOf f.p cs.k x)
  simp only [] at h
  have hxn : ((xnOf f.p cs.k x : ℕ) : ZMod f.p) = (x : ZMod f.p) ^ (2 ^ cs.k) := by
    unfold xnOf; rw [cast_powMod]
  rw [hxn] at h
  have hs := lEvals_spec hω cs.blinding hbf hx
  rw [Nat.cast_pow, Nat.cast_ofNat] at h
  rw [show ((2 ^ cs.k : ℕ) : ZMod f.p) = (2 : ZMod f.p) ^ cs.k by push_cast; rfl] at hs
  rw [hs] at h
  exact ⟨congrArg Prod.fst h, congrArg (fun t => t.2.1) h, congrArg (fun t => t.2.2) h⟩

end Spec

/-! ### instance evaluations of plain columns = column polynomial at `ω^rot·x` -/

theorem minMaxRot_fold_spec (qs : List (ℕ × ℤ)) (mm0 : ℤ × ℤ) (h0 : mm0.1 ≤ mm0.2) :
    (qs.foldl (fun (mm : ℤ × ℤ) q =>
      if q.2 < mm.1 then (q.2, mm.2) else if q.2 > mm.2 then (mm.1, q.2) else mm) mm0).1 ≤ mm0.1 ∧
    mm0.2 ≤ (qs.foldl (fun (mm : ℤ × ℤ) q =>
      if q.2 < mm.1 then (q.2, mm.2) else if q.2 > mm.2 then (mm.1, q.2) else mm) mm0).2 ∧
    ∀ q ∈ qs, (qs.foldl (fun (mm : ℤ × ℤ) q =>
      if q.2 < mm.1 then (q.2, mm.2) else if q.2 > mm.2 then (mm.1, q.2) else mm) mm0).1 ≤ q.2 ∧
      q.2 ≤ (qs.foldl (fun (mm : ℤ × ℤ) q =>
      if q.2 < mm.1 then (q.2, mm.2) else if q.2 > mm.2 then (mm.1, q.2) else mm) mm0).2 := by
  induction qs generalizing mm0 with
  | nil => simp
  | cons a t ih =>
    simp only [List.foldl_cons, List.mem_cons, forall_eq_or_imp]
    have hm : (if a.2 < mm0.1 then (a.2, mm0.2) else if a.2 > mm0.2 then (mm0.1, a.2) else mm0).1 ≤
        (if a.2 < mm0.1 then (a.2, mm0.2) else if a.2 > mm0.2 then (mm0.1, a.2) else mm0).2 ∧ (if a.2 < mm0.1 then (a.2, mm0.2) else if a.2 > mm0.2 then (mm0.1, a.2) else mm0).1 ≤ mm0.1 ∧
        mm0.2 ≤ (if a.2 < mm0.1 then (a.2, mm0.2) else if a.2 > mm0.2 then (mm0.1, a.2) else mm0).2 ∧
        (if a.2 < mm0.1 then (a.2, mm0.2) else if a.2 > mm0.2 then (mm0.1, a.2) else mm0).1 ≤ a.2 ∧
        a.2 ≤ (if a.2 < mm0.1 then (a.2, mm0.2) else if a.2 > mm0.2 then (mm0.1, a.2) else mm0).2 := by
      split_ifs <;> (try simp only []) <;> omega
    generalize (if a.2 < mm0.1 then (a.2, mm0.2) else if a.2 > mm0.2 then (mm0.1, a.2) else mm0) = mm1 at hm ⊢
    obtain ⟨h1, h2, h3⟩ := ih mm1 hm.1
    exact ⟨by omega, by omega, ⟨by omega, by omega⟩, h3⟩

/-- The window `[min_rotation, max_rotation]` of `verify_algebraic_constraints` contains `0` and
every queried rotation. -/
theorem minMaxRot_spec (qs : List (ℕ × ℤ)) :
    (minMaxRot qs).1 ≤ 0 ∧ 0 ≤ (minMaxRot qs).2 ∧
      ∀ q ∈ qs, (minMaxRot qs).1 ≤ q.2 ∧ q.2 ≤ (minMaxRot qs).2 := by
  have := minMaxRot_fold_spec qs (0, 0) (le_refl _)
  exact ⟨this.1, this.2.1, this.2.2⟩

section Inst
variable (f : Fld) [hf : Fact f.p.Prime]

theorem cast_innerProduct_aux : ∀ (a b : List ℕ) (acc : ZMod f.p),
    ((a.map fun v => ((v : ℕ) : ZMod f.p)).zip (b.map fun v => ((v : ℕ) : ZMod f.p))).foldl
        (fun acc q => acc + q.1 * q.2) acc = acc + ((innerProduct f.p a b : ℕ) : ZMod f.p)
  | [], _, acc => by simp [innerProduct]
  | _ :: _, [], acc => by simp [innerProduct]
  | x :: as, y :: bs, acc => by
    simp only [List.map_cons, List.zip_cons_cons, List.foldl_cons, innerProduct]
    rw [cast_innerProduct_aux as bs, cast_fadd, cast_fmul]
    ring

theorem cast_innerProduct (a b : List ℕ) :
    ((innerProduct f.p a b : ℕ) : ZMod f.p) =
      Van.innerProduct (a.map fun v => ((v : ℕ) : ZMod f.p)) (b.map fun v => ((v : ℕ) : ZMod f.p)) := by
  unfold Van.innerProduct
  rw [cast_innerProduct_aux, zero_add]

theorem intRange_eq_instRots (M : ℤ) (hM : 0 ≤ M) (a maxLen : ℕ) :
    intRange (-M) (maxLen + a + M.toNat) = Van.instRots M.toNat a maxLen := by
  unfold intRange Van.instRots
  rw [show maxLen + a + M.toNat = M.toNat + maxLen + a by omega]
  apply List.map_congr_left
  intro j _
  rw [Int.toNat_of_nonneg hM]; ring

variable (hp2 : 2 < f.p)
include hp2

/-- One plain-column entry of `instance_evals`: natural-number model = field model. -/
theorem cast_instanceEval_plain (k x xn maxLen : ℕ) (mm : ℤ × ℤ) (hM : 0 ≤ mm.2) (inst : List ℕ) (rot : ℤ) :
    ((innerProduct f.p inst
        (((lIRange f k x xn (intRange (-mm.2) (maxLen + mm.1.natAbs + mm.2.toNat))).drop (mm.2 - rot).toNat).take
          inst.length) : ℕ) : ZMod f.p) =
      Van.instanceEval (fun a => a⁻¹) (omegaZ f k) (omegaZ f k)⁻¹ (((2 ^ k : ℕ) : ZMod f.p))⁻¹ (x : ZMod f.p)
        (xn : ZMod f.p) mm.2.toNat mm.1.natAbs maxLen (inst.map fun v => ((v : ℕ) : ZMod f.p)) rot := by
  unfold Van.instanceEval
  simp only []
  rw [cast_innerProduct, ← intRange_eq_instRots mm.2 hM, ← cast_lIRange f hp2, List.length_map,
    Int.toNat_of_nonneg hM, List.map_take, List.map_drop]

/-- **The instance evaluation the identity model computes for a plain instance column is the value
at `ω^rot·x` of the column's interpolating polynomial** (`colPoly`: the public inputs in Lagrange
form, zero beyond the column's length): the public input enters the identities only through this
evaluation, which the verifier computes itself from the values it was given. -/
theorem instance_eval_is_poly_eval (cs : VCS) (hω : IsPrimitiveRoot (omegaZ f cs.k) (2 ^ cs.k))
    (nCommitted x maxLen : ℕ) (plain : List (List ℕ)) (cev : ℕ → ℕ)
    (hx : (x : ZMod f.p) ^ (2 ^ cs.k) ≠ 1) (qi : ℕ) (hqi : qi < cs.instanceQueries.length)
    (hplain : nCommitted ≤ (cs.instanceQueries[qi]).1)
    (hlen : (plain.getD ((cs.instanceQueries[qi]).1 - nCommitted) []).length ≤ maxLen)
    (hln : (plain.getD ((cs.instanceQueries[qi]).1 - nCommitted) []).length ≤ 2 ^ cs.k) :
    (((instanceEvals f cs nCommitted x (xnOf f.p cs.k x) maxLen plain cev).getD qi 0 : ℕ) : ZMod f.p) =
      eval ((omegaZ f cs.k) ^ (cs.instanceQueries[qi]).2 * (x : ZMod f.p))
        (colPoly (omegaZ f cs.k) (2 ^ cs.k)
          ((plain.getD ((cs.instanceQueries[qi]).1 - nCommitted) []).map fun v => ((v : ℕ) : ZMod f.p))) := by
  have hmm := minMaxRot_spec cs.instanceQueries
  have hq := hmm.2.2 _ (List.getElem_mem hqi)
  unfold instanceEvals
  simp only []
  rw [List.getD_eq_getElem?_getD, List.getElem?_map, List.getElem?_zipIdx, List.getElem?_eq_getElem hqi]
  simp only [Option.map_some, Option.getD_some, Nat.zero_add]
  rw [if_neg (by omega)]
  rw [cast_instanceEval_plain f hp2 cs.k x _ maxLen _ hmm.2.1]
  have hxn : ((xnOf f.p cs.k x : ℕ) : ZMod f.p) = (x : ZMod f.p) ^ (2 ^ cs.k) := by
    unfold xnOf; rw [cast_powMod]
  rw [hxn]
  have hn : 0 < 2 ^ cs.k := Nat.pos_of_ne_zero (by positivity)
  have hs := instanceEval_spec hω hn hx (minMaxRot cs.instanceQueries).2.toNat
    (minMaxRot cs.instanceQueries).1.natAbs maxLen
    ((plain.getD ((cs.instanceQueries[qi]).1 - nCommitted) []).map fun v => ((v : ℕ) : ZMod f.p))
    (by rw [List.length_map]; exact hlen) (by rw [List.length_map]; exact hln)
    (cs.instanceQueries[qi]).2 (by have := hmm.1; omega) (by have := hmm.2.1; omega)
  rw [show ((2 ^ cs.k : ℕ) : ZMod f.p) = (2 : ZMod f.p) ^ cs.k by push_cast; rfl] at hs
  rw [Nat.cast_pow, Nat.cast_ofNat, hs]
  rfl

end Inst

end MidnightZK.C02.Lag
