import MidnightZK.Proofs.C02.GatePoly
import MidnightZK.Model.C02.CsParams
/-!
# C02 / C01 — the degree of a gate polynomial is bounded by `Expression::degree`
`natDegree (exprPoly g) ≤ exprDegree g · (n − 1)`: the syntactic degree `circuit.rs: Expression::degree`
computes (mirrored by `Ids.exprDegree`), in units of a column polynomial of degree `≤ n − 1`, bounds the
degree of the polynomial the prover's numerator contains for the gate.
-/
namespace MidnightZK.C02.GatePoly
open Polynomial MidnightZK MidnightZK.C02 MidnightZK.C02.Ids MidnightZK.C01.Asm MidnightZK.C01.Dom

variable (t : Table) [hp : Fact t.p.Prime]

theorem natDegree_rot_col_le {ω : ZMod t.p} (hω : IsPrimitiveRoot ω t.n) (hn : 0 < t.n) (vals : List (ZMod t.p))
    (r : ℤ) : (rotPoly ω (colPoly ω t.n vals) r).natDegree ≤ t.n - 1 := by
  have hcol : (colPoly ω t.n vals).natDegree ≤ t.n - 1 := by
    by_cases h0 : colPoly ω t.n vals = 0
    · rw [h0]; simp
    · have := degree_colPoly_lt hω vals
      rw [degree_eq_natDegree h0] at this
      have : (colPoly ω t.n vals).natDegree < t.n := by exact_mod_cast this
      omega
  unfold rotPoly
  refine le_trans natDegree_comp_le ?_
  have h1 : (C (ω ^ r) * X : (ZMod t.p)[X]).natDegree ≤ 1 := by
    refine le_trans natDegree_mul_le ?_
    simp
  calc (colPoly ω t.n vals).natDegree * (C (ω ^ r) * X : (ZMod t.p)[X]).natDegree
      ≤ (t.n - 1) * 1 := Nat.mul_le_mul hcol h1
    _ = t.n - 1 := Nat.mul_one _

/-- **The degree of a gate polynomial is at most `Expression::degree() · (n − 1)`.** -/
theorem natDegree_exprPoly_le {ω : ZMod t.p} (hω : IsPrimitiveRoot ω t.n) (hn : 0 < t.n) (g : Expr) :
    (exprPoly t ω g).natDegree ≤ exprDegree g * (t.n - 1) := by
  induction g with
  | const c => simp [exprPoly, exprDegree]
  | challenge k => simp [exprPoly, exprDegree]
  | fixed c r => simpa [exprPoly, exprDegree] using natDegree_rot_col_le t hω hn _ r
  | advice c r => simpa [exprPoly, exprDegree] using natDegree_rot_col_le t hω hn _ r
  | inst c r => simpa [exprPoly, exprDegree] using natDegree_rot_col_le t hω hn _ r
  | neg a ih => simpa [exprPoly, exprDegree] using ih
  | sum a b iha ihb =>
    simp only [exprPoly, exprDegree]
    refine le_trans (natDegree_add_le _ _) (max_le ?_ ?_)
    · exact le_trans iha (Nat.mul_le_mul_right _ (le_max_left _ _))
    · exact le_trans ihb (Nat.mul_le_mul_right _ (le_max_right _ _))
  | prod a b iha ihb =>
    simp only [exprPoly, exprDegree]
    refine le_trans natDegree_mul_le ?_
    rw [Nat.add_mul]
    exact Nat.add_le_add iha ihb
  | scaled a c ih =>
    simp only [exprPoly, exprDegree]
    refine le_trans natDegree_mul_le ?_
    simpa using ih

end MidnightZK.C02.GatePoly
