import Mathlib.Algebra.Polynomial.Roots
/-!
# C02 — from "grand products agree for many challenges" to "the multisets agree"

The permutation argument (`plonk/permutation.rs: fn expressions`) and the lookup argument
(`plonk/lookup.rs: Evaluated::expressions`) both end in an equality of two products of the form
`∏ (γ + aᵢ) = ∏ (γ + bᵢ)` for a verifier challenge `γ`. This file proves the polynomial-identity
step: both sides are monic polynomials of degree `#ι` in `γ`, so agreement at more than `#ι`
challenges forces equal root multisets.
-/
namespace MidnightZK.C02
open Polynomial

variable {F : Type} [Field F]

/-- `∏_{a ∈ A} (X + a)` as a polynomial in the challenge. -/
noncomputable def addPoly (A : Multiset F) : F[X] := (A.map fun a => X + C a).prod

theorem addPoly_eq_sub (A : Multiset F) :
    addPoly A = ((A.map fun a => -a).map fun a => X - C a).prod := by
  unfold addPoly
  rw [Multiset.map_map]
  congr 1
  apply Multiset.map_congr rfl
  intro a _
  simp

theorem eval_addPoly (A : Multiset F) (γ : F) :
    (addPoly A).eval γ = (A.map fun a => γ + a).prod := by
  unfold addPoly
  rw [eval_multiset_prod, Multiset.map_map]
  congr 1
  apply Multiset.map_congr rfl
  intro a _
  simp

theorem natDegree_addPoly (A : Multiset F) : (addPoly A).natDegree = Multiset.card A := by
  rw [addPoly_eq_sub, natDegree_multiset_prod_X_sub_C_eq_card, Multiset.card_map]

theorem monic_addPoly (A : Multiset F) : (addPoly A).Monic := by
  rw [addPoly_eq_sub]
  exact monic_multiset_prod_of_monic _ _ fun a _ => monic_X_sub_C a

theorem roots_addPoly (A : Multiset F) : (addPoly A).roots = A.map fun a => -a := by
  rw [addPoly_eq_sub, roots_multiset_prod_X_sub_C]

theorem addPoly_injective {A B : Multiset F} (h : addPoly A = addPoly B) : A = B := by
  have := congrArg Polynomial.roots h
  rw [roots_addPoly, roots_addPoly] at this
  exact Multiset.map_injective neg_injective this

/-- **Scaled version (used by the lookup argument, where the other challenge contributes a
constant factor).** If `c' · ∏_{a∈A'} (β + a) = c · ∏_{a∈A} (β + a)` for more than
`max #A' #A` distinct `β`, `#A' = #A` and `c ≠ 0`, then `c' = c` and `A' = A`. -/
theorem scaled_prod_eq_many_imp_multiset_eq (A' A : Multiset F) (c' c : F) (B : Finset F)
    (hcard' : Multiset.card A' < B.card) (hcard : Multiset.card A < B.card)
    (hlen : Multiset.card A' = Multiset.card A) (hc : c ≠ 0)
    (h : ∀ β ∈ B, c' * (A'.map fun a => β + a).prod = c * (A.map fun a => β + a).prod) :
    c' = c ∧ A' = A := by
  have hpoly : C c' * addPoly A' = C c * addPoly A := by
    apply eq_of_natDegree_lt_card_of_eval_eq' _ _ B
    · intro β hβ
      rw [eval_mul, eval_mul, eval_C, eval_C, eval_addPoly, eval_addPoly]
      exact h β hβ
    · apply max_lt
      · exact lt_of_le_of_lt (natDegree_C_mul_le _ _) (by rw [natDegree_addPoly]; exact hcard')
      · exact lt_of_le_of_lt (natDegree_C_mul_le _ _) (by rw [natDegree_addPoly]; exact hcard)
  have hcc : c' = c := by
    have := congrArg (fun p => p.coeff (Multiset.card A)) hpoly
    simp only [coeff_C_mul] at this
    have h1 : (addPoly A).coeff (Multiset.card A) = 1 := by
      have := monic_addPoly A
      rwa [Monic, leadingCoeff, natDegree_addPoly] at this
    have h2 : (addPoly A').coeff (Multiset.card A) = 1 := by
      have := monic_addPoly A'
      rwa [Monic, leadingCoeff, natDegree_addPoly, hlen] at this
    rwa [h1, h2, mul_one, mul_one] at this
  refine ⟨hcc, ?_⟩
  subst hcc
  have hC : (C c' : F[X]) ≠ 0 := by simpa using hc
  exact addPoly_injective (mul_left_cancel₀ hC hpoly)

/-- **Multiset form of the polynomial-identity step.** If
`∏_{a∈A} (γ + a) = ∏_{b∈B} (γ + b)` for more than `max #A #B` distinct `γ`, then `A = B`. -/
theorem multiset_eq_of_prod_add_eq_many (A B : Multiset F) (Γ : Finset F)
    (hA : Multiset.card A < Γ.card) (hB : Multiset.card B < Γ.card)
    (h : ∀ γ ∈ Γ, (A.map fun a => γ + a).prod = (B.map fun b => γ + b).prod) : A = B := by
  apply addPoly_injective
  apply eq_of_natDegree_lt_card_of_eval_eq' _ _ Γ
  · intro γ hγ
    rw [eval_addPoly, eval_addPoly]
    exact h γ hγ
  · rw [natDegree_addPoly, natDegree_addPoly]
    exact max_lt hA hB

/-- **A2 — from product equality for many `γ` to multiset equality.**
Mirrors the last step of the soundness argument for the grand product built by
`permutation/prover.rs: Argument::commit` (and, per column, by
`lookup/prover.rs: Permuted::commit_product`): for finite families `a b : ι → F`, if
`∏ᵢ (γ + a i) = ∏ᵢ (γ + b i)` for more than `#ι` distinct challenges `γ`, then the multisets
`{a i}` and `{b i}` are equal. -/
theorem prod_eq_many_gamma_imp_multiset_eq {ι : Type} [Fintype ι] (a b : ι → F) (Γ : Finset F)
    (hcard : Fintype.card ι < Γ.card)
    (h : ∀ γ ∈ Γ, ∏ i, (γ + a i) = ∏ i, (γ + b i)) :
    (Finset.univ.val.map a : Multiset F) = Finset.univ.val.map b := by
  apply multiset_eq_of_prod_add_eq_many _ _ Γ
  · simpa using hcard
  · simpa using hcard
  · intro γ hγ
    rw [Multiset.map_map, Multiset.map_map]
    exact h γ hγ

/-- Non-vacuity of `prod_eq_many_gamma_imp_multiset_eq`: over `ℚ`, the families `(1,2)` and
`(2,1)` on `Fin 2` have equal products for the three challenges `0, 1, 2`. -/
example : ∃ (a b : Fin 2 → ℚ) (Γ : Finset ℚ), Fintype.card (Fin 2) < Γ.card ∧
    (∀ γ ∈ Γ, ∏ i, (γ + a i) = ∏ i, (γ + b i)) ∧ a ≠ b := by
  refine ⟨![1, 2], ![2, 1], {0, 1, 2}, by decide, ?_, ?_⟩
  · intro γ _
    simp [Fin.prod_univ_two, mul_comm]
  · intro h
    have := congrFun h 0
    simp at this

/-- Multiset form of `zero_final_product_few_gamma`: the challenges `γ` with
`∏_{a∈M} (γ + a) = 0` are at most `#M`. -/
theorem zero_prod_few_challenges_multiset (M : Multiset F) (Γ : Finset F)
    (h : ∀ γ ∈ Γ, (M.map fun a => γ + a).prod = 0) : Γ.card ≤ Multiset.card M := by
  classical
  have hsub : Γ ⊆ (M.map fun a => -a).toFinset := by
    intro γ hγ
    obtain ⟨a, ha, hza⟩ := Multiset.mem_map.mp (Multiset.prod_eq_zero_iff.mp (h γ hγ))
    exact Multiset.mem_toFinset.mpr
      (Multiset.mem_map.mpr ⟨a, ha, (eq_neg_of_add_eq_zero_left hza).symm⟩)
  calc Γ.card ≤ (M.map fun a => -a).toFinset.card := Finset.card_le_card hsub
    _ ≤ Multiset.card (M.map fun a => -a) := Multiset.toFinset_card_le _
    _ = Multiset.card M := Multiset.card_map _ _

/-- **The final product value `0` helps the prover for few `γ` only.** If the last value of
the running product is `0` the rules of `permutation.rs: fn expressions` force
`∏ᵢ (γ + b i) = 0` (see `perm_rules_imply_product_eq`), i.e. `γ` is one of the at most `#ι`
values `−b i`. -/
theorem zero_final_product_few_gamma {ι : Type} [Fintype ι] (b : ι → F) (Γ : Finset F)
    (h : ∀ γ ∈ Γ, ∏ i, (γ + b i) = 0) : Γ.card ≤ Fintype.card ι := by
  classical
  have hsub : Γ ⊆ Finset.univ.image fun i => -b i := by
    intro γ hγ
    obtain ⟨i, _, hi⟩ := Finset.prod_eq_zero_iff.mp (h γ hγ)
    exact Finset.mem_image.mpr ⟨i, Finset.mem_univ _, (eq_neg_of_add_eq_zero_left hi).symm⟩
  calc Γ.card ≤ (Finset.univ.image fun i => -b i).card := Finset.card_le_card hsub
    _ ≤ Finset.univ.card := Finset.card_image_le
    _ = Fintype.card ι := Finset.card_univ

/-- Non-vacuity of `zero_final_product_few_gamma`: `γ = −1` and `γ = −2` kill `(γ+1)(γ+2)`. -/
example : ∃ (b : Fin 2 → ℚ) (Γ : Finset ℚ), Γ.card = 2 ∧ ∀ γ ∈ Γ, ∏ i, (γ + b i) = 0 := by
  refine ⟨![1, 2], {-1, -2}, by decide, ?_⟩
  intro γ hγ
  simp only [Finset.mem_insert, Finset.mem_singleton] at hγ
  rcases hγ with rfl | rfl <;> simp [Fin.prod_univ_two]

end MidnightZK.C02

#print axioms MidnightZK.C02.prod_eq_many_gamma_imp_multiset_eq
#print axioms MidnightZK.C02.scaled_prod_eq_many_imp_multiset_eq
#print axioms MidnightZK.C02.multiset_eq_of_prod_add_eq_many
#print axioms MidnightZK.C02.zero_final_product_few_gamma
#print axioms MidnightZK.C02.zero_prod_few_challenges_multiset
