import MidnightZK.Proofs.C01.Bridge
import MidnightZK.Proofs.C02.RowLevel
/-!
# C02 — public inputs: the instance polynomial the verifier evaluates pins every public-input row

The verifier computes the evaluation of a plain instance column itself (`compute_inner_product`
with `l_i_range`), i.e. the value at `ω^rot·x` of the column polynomial `colPoly` of the public
inputs IT was given (`Lag.instance_eval_is_poly_eval`, `C01.instance_eval_spec`). Two different
public-input vectors have different column polynomials of degree `< n`, so these values coincide
for fewer than `n` challenges `x`.
-/
namespace MidnightZK.C02.PI
open Polynomial Finset MidnightZK.C01.Dom MidnightZK.C01.Asm

variable {F : Type} [Field F] {n : ℕ} {ω : F}

/-- Column polynomials are equal iff the vectors agree on every row of the domain. -/
theorem colPoly_eq_iff (hω : IsPrimitiveRoot ω n) (a b : List F) :
    colPoly ω n a = colPoly ω n b ↔ ∀ i, i < n → a.getD i 0 = b.getD i 0 := by
  constructor
  · intro h i hi
    rw [← eval_colPoly hω a i hi, ← eval_colPoly hω b i hi, h]
  · intro h
    unfold colPoly
    apply Lagrange.interpolate_eq_of_values_eq_on
    intro i hi
    exact h i (mem_range.1 hi)

/-- **A different public input changes the instance evaluation for all but fewer than `n`
challenges.** `a`, `b` = two public-input columns differing on some row `i₀ < n`; `rot` = any
rotation at which the column is queried. Every set `Xs` of evaluation points at which the two
instance polynomials take the same value at `ω^rot·x` has fewer than `n` elements. -/
theorem instance_eval_differs (hω : IsPrimitiveRoot ω n) (hn : 0 < n) (a b : List F) (i₀ : ℕ) (hi₀ : i₀ < n)
    (hne : a.getD i₀ 0 ≠ b.getD i₀ 0) (rot : ℤ) (Xs : Finset F)
    (h : ∀ x ∈ Xs, eval (ω ^ rot * x) (colPoly ω n a) = eval (ω ^ rot * x) (colPoly ω n b)) :
    Xs.card < n := by
  classical
  by_contra hcard
  rw [not_lt] at hcard
  have hw : ω ^ rot ≠ 0 := zpow_ne_zero rot (omega_ne_zero hω hn)
  have hdeg : (colPoly ω n a - colPoly ω n b).natDegree ≤ n - 1 := by
    have hd : (colPoly ω n a - colPoly ω n b).degree < n :=
      lt_of_le_of_lt (degree_sub_le _ _) (max_lt (degree_colPoly_lt hω a) (degree_colPoly_lt hω b))
    by_cases h0 : colPoly ω n a - colPoly ω n b = 0
    · rw [h0]; simp
    · rw [degree_eq_natDegree h0] at hd
      have : (colPoly ω n a - colPoly ω n b).natDegree < n := by exact_mod_cast hd
      omega
  have hz := MidnightZK.C02.x_evaluation_sound_aux (colPoly ω n a - colPoly ω n b) (n - 1) hdeg
    (Xs.image fun x => ω ^ rot * x)
    (by rw [card_image_of_injective _ (mul_right_injective₀ hw)]; omega)
    (by
      intro y hy
      obtain ⟨x, hx, rfl⟩ := mem_image.1 hy
      rw [eval_sub, h x hx, sub_self])
  have := (colPoly_eq_iff hω a b).1 (sub_eq_zero.1 hz) i₀ hi₀
  exact hne this

end MidnightZK.C02.PI
