import MidnightZK.Model.C10.Tower
/-!
The extension-field formulas equal the products / inverses of the quotient rings, over every
commutative ring (core `grind`).
-/
namespace MidnightZK.C10
open Lean.Grind

variable {F : Type} [CommRing F]

theorem Quad.add_def (a b : Quad F) : a + b = ⟨a.c0 + b.c0, a.c1 + b.c1⟩ := rfl
theorem Quad.sub_def (a b : Quad F) : a - b = ⟨a.c0 - b.c0, a.c1 - b.c1⟩ := rfl
theorem Cubic.add_def (a b : Cubic F) : a + b = ⟨a.c0 + b.c0, a.c1 + b.c1, a.c2 + b.c2⟩ := rfl
theorem Cubic.sub_def (a b : Cubic F) : a - b = ⟨a.c0 - b.c0, a.c1 - b.c1, a.c2 - b.c2⟩ := rfl

theorem quadMul_eq (nr : F → F) (β : F) (hnr : ∀ x, nr x = β * x) (a b : Quad F) :
    quadMul nr a b = quadMulSpec β a b := by
  simp only [quadMul, quadMulSpec, hnr, Quad.mk.injEq]
  constructor <;> grind

theorem quadSquare_eq (nr : F → F) (β : F) (hnr : ∀ x, nr x = β * x) (a : Quad F) :
    quadSquare nr a = quadMulSpec β a a := by
  simp only [quadSquare, quadMulSpec, hnr, Quad.mk.injEq]
  constructor <;> grind

theorem fq2Square_eq (a : Quad F) : fq2Square a = quadMulSpec (-1 : F) a a := by
  simp only [fq2Square, quadMulSpec, Quad.mk.injEq]
  constructor <;> grind

theorem quadInv_eq (nr : F → F) (β : F) (hnr : ∀ x, nr x = β * x) (a : Quad F) (t : F)
    (ht : quadNorm nr a * t = 1) : quadMulSpec β a (quadInvWith t a) = ⟨1, 0⟩ := by
  simp only [quadNorm, hnr] at ht
  simp only [quadInvWith, quadMulSpec, Quad.mk.injEq]
  constructor <;> grind

theorem blsFp2MulNr_eq (a : Quad F) : blsFp2MulNr a = quadMulSpec (-1 : F) a ⟨1, 1⟩ := by
  simp only [blsFp2MulNr, quadMulSpec, Quad.mk.injEq]
  constructor <;> grind

theorem bnFq2MulNr_eq (a : Quad F) : bnFq2MulNr a = quadMulSpec (-1 : F) a ⟨9, 1⟩ := by
  simp only [bnFq2MulNr, quadMulSpec, Quad.mk.injEq, Quad.add_def]
  constructor <;> grind

theorem cubicMul_eq (nr : F → F) (ξ : F) (hnr : ∀ x, nr x = ξ * x) (a b : Cubic F) :
    cubicMul nr a b = cubicMulSpec ξ a b := by
  simp only [cubicMul, cubicMulSpec, hnr, Cubic.mk.injEq]
  refine ⟨?_, ?_, ?_⟩ <;> grind

theorem blsFp6Mul_eq (nr : F → F) (ξ : F) (hnr : ∀ x, nr x = ξ * x) (a b : Cubic F) :
    blsFp6Mul nr a b = cubicMulSpec ξ a b := by
  simp only [blsFp6Mul, cubicMulSpec, hnr, Cubic.mk.injEq]
  refine ⟨?_, ?_, ?_⟩ <;> grind

theorem cubicSquare_eq (nr : F → F) (ξ : F) (hnr : ∀ x, nr x = ξ * x) (a : Cubic F) :
    cubicSquare nr a = cubicMulSpec ξ a a ∧ blsFp6Square nr a = cubicMulSpec ξ a a := by
  simp only [cubicSquare, blsFp6Square, cubicMulSpec, hnr, Cubic.mk.injEq]
  refine ⟨⟨?_, ?_, ?_⟩, ⟨?_, ?_, ?_⟩⟩ <;> grind

theorem cubicInv_eq (nr : F → F) (ξ : F) (hnr : ∀ x, nr x = ξ * x) (a : Cubic F) (tinv : F)
    (ht : (cubicInvParts nr a).2 * tinv = 1) :
    cubicMulSpec ξ a (cubicInvWith nr tinv a) = ⟨1, 0, 0⟩ := by
  simp only [cubicInvParts, hnr] at ht
  simp only [cubicInvWith, cubicInvParts, cubicMulSpec, hnr, Cubic.mk.injEq]
  refine ⟨?_, ?_, ?_⟩ <;> grind

theorem blsFp6Inv_eq (nr : F → F) (ξ : F) (hnr : ∀ x, nr x = ξ * x) (a : Cubic F) (tinv : F)
    (ht : (blsFp6InvParts nr a).2 * tinv = 1) :
    cubicMulSpec ξ a ⟨tinv * (blsFp6InvParts nr a).1.c0, tinv * (blsFp6InvParts nr a).1.c1,
      tinv * (blsFp6InvParts nr a).1.c2⟩ = ⟨1, 0, 0⟩ := by
  simp only [blsFp6InvParts, hnr] at ht
  simp only [blsFp6InvParts, cubicMulSpec, hnr, Cubic.mk.injEq]
  refine ⟨?_, ?_, ?_⟩ <;> grind

theorem cubicMulNr_eq (nr : F → F) (ξ : F) (hnr : ∀ x, nr x = ξ * x) (a : Cubic F) :
    cubicMulNr nr a = cubicMulSpec ξ a ⟨0, 1, 0⟩ := by
  simp only [cubicMulNr, cubicMulSpec, hnr, Cubic.mk.injEq]
  refine ⟨?_, ?_, ?_⟩ <;> grind

theorem mulBy1_eq (nr : F → F) (ξ : F) (hnr : ∀ x, nr x = ξ * x) (a : Cubic F) (c1 : F) :
    mulBy1 nr a c1 = cubicMulSpec ξ a ⟨0, c1, 0⟩ := by
  simp only [mulBy1, cubicMulSpec, hnr, Cubic.mk.injEq]
  refine ⟨?_, ?_, ?_⟩ <;> grind

theorem mulBy01_eq (nr : F → F) (ξ : F) (hnr : ∀ x, nr x = ξ * x) (a : Cubic F) (c0 c1 : F) :
    mulBy01 nr a c0 c1 = cubicMulSpec ξ a ⟨c0, c1, 0⟩ := by
  simp only [mulBy01, cubicMulSpec, hnr, Cubic.mk.injEq]
  refine ⟨?_, ?_, ?_⟩ <;> grind

theorem mulBy014_eq (nr : F → F) (ξ : F) (hnr : ∀ x, nr x = ξ * x) (a : Quad (Cubic F)) (c0 c1 c4 : F) :
    mulBy014 nr a c0 c1 c4 =
      ⟨cubicMulSpec ξ a.c0 ⟨c0, c1, 0⟩ + cubicMulNr nr (cubicMulSpec ξ a.c1 ⟨0, c4, 0⟩),
       cubicMulSpec ξ a.c0 ⟨0, c4, 0⟩ + cubicMulSpec ξ a.c1 ⟨c0, c1, 0⟩⟩ := by
  simp only [mulBy014, mulBy01, mulBy1, cubicMulNr, cubicMulSpec, hnr, Quad.mk.injEq, Cubic.mk.injEq,
    Cubic.add_def, Cubic.sub_def]
  refine ⟨⟨?_, ?_, ?_⟩, ⟨?_, ?_, ?_⟩⟩ <;> grind

theorem mulBy034_eq (nr : F → F) (ξ : F) (hnr : ∀ x, nr x = ξ * x) (a : Quad (Cubic F)) (c0 c3 c4 : F) :
    mulBy034 nr a c0 c3 c4 =
      ⟨cubicMulSpec ξ a.c0 ⟨c0, 0, 0⟩ + cubicMulNr nr (cubicMulSpec ξ a.c1 ⟨c3, c4, 0⟩),
       cubicMulSpec ξ a.c0 ⟨c3, c4, 0⟩ + cubicMulSpec ξ a.c1 ⟨c0, 0, 0⟩⟩ := by
  simp only [mulBy034, mulBy01, cubicMulNr, cubicMulSpec, hnr, Quad.mk.injEq, Cubic.mk.injEq,
    Cubic.add_def, Cubic.sub_def]
  refine ⟨⟨?_, ?_, ?_⟩, ⟨?_, ?_, ?_⟩⟩ <;> grind

end MidnightZK.C10
