import MidnightZK.Model.C10.Limbs
/-!
Limb-level lemmas for C10 (core only). Every `adc`/`sbb`/`mac` call is replaced by a pair of fresh
variables constrained by one linear equation; the carry/borrow chains are then closed by `omega`.
-/
namespace MidnightZK.C10

theorem W_pos : 0 < W := by decide

theorem land_ones (x : Nat) (hx : x < W) : x &&& (W - 1) = x := by
  have : W - 1 = 2 ^ 64 - 1 := rfl
  rw [this, Nat.and_two_pow_sub_one_eq_mod]; exact Nat.mod_eq_of_lt hx

/-- `adc` as a pair with its defining equation. -/
theorem adc_pair (a b c : Nat) : ∃ lo hi, adc a b c = (lo, hi) ∧ lo + W * hi = a + b + c ∧ lo < W := by
  refine ⟨(a + b + c) % W, (a + b + c) / W, rfl, ?_, Nat.mod_lt _ W_pos⟩
  exact Nat.mod_add_div _ _

/-- `mac` as a pair with its defining equation. -/
theorem mac_pair (a b c d : Nat) :
    ∃ lo hi, mac a b c d = (lo, hi) ∧ lo + W * hi = a + b * c + d ∧ lo < W := by
  refine ⟨(a + b * c + d) % W, (a + b * c + d) / W, rfl, ?_, Nat.mod_lt _ W_pos⟩
  exact Nat.mod_add_div _ _

/-- The high word of `mac` on `u64` arguments is a `u64` (no u128 overflow). -/
theorem mac_pair_lt (a b c d : Nat) (ha : a < W) (hb : b < W) (hc : c < W) (hd : d < W) :
    ∃ lo hi, mac a b c d = (lo, hi) ∧ lo + W * hi = a + b * c + d ∧ lo < W ∧ hi < W := by
  obtain ⟨lo, hi, e, h, l⟩ := mac_pair a b c d
  refine ⟨lo, hi, e, h, l, ?_⟩
  have hbc : b * c ≤ (W - 1) * (W - 1) := Nat.mul_le_mul (by omega) (by omega)
  have hW : (W - 1) * (W - 1) = W * W - 2 * W + 1 := by decide +kernel
  have hWW : W * W = 340282366920938463463374607431768211456 := by decide +kernel
  have : W * hi < W * W := by simp only [W] at *; omega
  exact Nat.lt_of_mul_lt_mul_left this

/-- `sbb` with incoming borrow `bin·(2^64-1)`, as a pair. -/
theorem sbb_pair (a b borrow bin : Nat) (ha : a < W) (hb : b < W) (hbin : bin ≤ 1)
    (hbo : borrow = bin * (W - 1)) :
    ∃ d bo, sbb a b borrow = (d, bo * (W - 1)) ∧ bo ≤ 1 ∧ d + b + bin = a + W * bo ∧ d < W := by
  have : bin = 0 ∨ bin = 1 := by omega
  rcases this with h | h <;> subst h <;> subst hbo
  · by_cases hlt : a < b
    · refine ⟨a + W - b, 1, ?_, by omega, by omega, by omega⟩
      apply Prod.ext <;> simp only [sbb, W] at * <;> omega
    · refine ⟨a - b, 0, ?_, by omega, by omega, by omega⟩
      apply Prod.ext <;> simp only [sbb, W] at * <;> omega
  · by_cases hlt : a < b + 1
    · refine ⟨a + W - b - 1, 1, ?_, by omega, by omega, by omega⟩
      apply Prod.ext <;> simp only [sbb, W] at * <;> omega
    · refine ⟨a - b - 1, 0, ?_, by omega, by omega, by omega⟩
      apply Prod.ext <;> simp only [sbb, W] at * <;> omega

theorem W4_eq : W ^ 4 = 115792089237316195423570985008687907853269984665640564039457584007913129639936 := by
  decide +kernel

/-- `sub` / `sub_ref`: exact value of the limb subtraction with masked add-back, for arbitrary
`u64` limbs. -/
theorem subL_spec (m a b : L4) (hm : m.wf) (ha : a.wf) (hb : b.wf) :
    (subL m a b).wf ∧ (b.val ≤ a.val → (subL m a b).val = a.val - b.val) ∧
    (a.val < b.val → (subL m a b).val = (a.val + W ^ 4 - b.val + m.val) % W ^ 4) := by
  obtain ⟨a0, a1, a2, a3⟩ := a
  obtain ⟨b0, b1, b2, b3⟩ := b
  obtain ⟨m0, m1, m2, m3⟩ := m
  obtain ⟨ha0, ha1, ha2, ha3⟩ := ha
  obtain ⟨hb0, hb1, hb2, hb3⟩ := hb
  obtain ⟨hm0, hm1, hm2, hm3⟩ := hm
  simp only [subL, L4.wf, L4.val, W4_eq] at *
  obtain ⟨d0, o0, e0, ho0, h0, l0⟩ := sbb_pair a0 b0 0 0 ha0 hb0 (by omega) (by omega)
  simp only [e0]
  obtain ⟨d1, o1, e1, ho1, h1, l1⟩ := sbb_pair a1 b1 (o0 * (W - 1)) o0 ha1 hb1 ho0 rfl
  simp only [e1]
  obtain ⟨d2, o2, e2, ho2, h2, l2⟩ := sbb_pair a2 b2 (o1 * (W - 1)) o1 ha2 hb2 ho1 rfl
  simp only [e2]
  obtain ⟨d3, o3, e3, ho3, h3, l3⟩ := sbb_pair a3 b3 (o2 * (W - 1)) o2 ha3 hb3 ho2 rfl
  simp only [e3]
  have : o3 = 0 ∨ o3 = 1 := by omega
  rcases this with h | h <;> subst h
  · simp only [Nat.zero_mul, Nat.and_zero]
    obtain ⟨x0, c0, f0, g0, k0⟩ := adc_pair d0 0 0
    simp only [f0]
    obtain ⟨x1, c1, f1, g1, k1⟩ := adc_pair d1 0 c0
    simp only [f1]
    obtain ⟨x2, c2, f2, g2, k2⟩ := adc_pair d2 0 c1
    simp only [f2]
    obtain ⟨x3, c3, f3, g3, k3⟩ := adc_pair d3 0 c2
    simp only [f3]
    simp only [W] at *
    omega
  · simp only [Nat.one_mul, land_ones _ hm0, land_ones _ hm1, land_ones _ hm2, land_ones _ hm3]
    obtain ⟨x0, c0, f0, g0, k0⟩ := adc_pair d0 m0 0
    simp only [f0]
    obtain ⟨x1, c1, f1, g1, k1⟩ := adc_pair d1 m1 c0
    simp only [f1]
    obtain ⟨x2, c2, f2, g2, k2⟩ := adc_pair d2 m2 c1
    simp only [f2]
    obtain ⟨x3, c3, f3, g3, k3⟩ := adc_pair d3 m3 c2
    simp only [f3]
    simp only [W] at *
    omega

end MidnightZK.C10
