import MidnightZK.Model.C10.Limbs
/-!
Limb-level lemmas for C10 (core only): carry/borrow chains of `adc`/`sbb`/`mac` are discharged by
`omega` after the partial products have been generalised to atoms.
-/
namespace MidnightZK.C10

theorem W_eq : W = 18446744073709551616 := by decide

theorem land_zero' (x : Nat) : x &&& 0 = 0 := Nat.and_zero x

theorem land_ones (x : Nat) (hx : x < W) : x &&& (W - 1) = x := by
  have : W - 1 = 2 ^ 64 - 1 := rfl
  rw [this, Nat.and_two_pow_sub_one_eq_mod, Nat.mod_eq_of_lt hx]

/-- The borrow out of the four-limb subtraction chain. -/
def borrow4 (a b : L4) : Nat :=
  let (_, borrow) := sbb a.l0 b.l0 0
  let (_, borrow) := sbb a.l1 b.l1 borrow
  let (_, borrow) := sbb a.l2 b.l2 borrow
  let (_, borrow) := sbb a.l3 b.l3 borrow
  borrow

/-- The wrapped four-limb difference. -/
def sub4raw (a b : L4) : L4 :=
  let (d0, borrow) := sbb a.l0 b.l0 0
  let (d1, borrow) := sbb a.l1 b.l1 borrow
  let (d2, borrow) := sbb a.l2 b.l2 borrow
  let (d3, _) := sbb a.l3 b.l3 borrow
  ⟨d0, d1, d2, d3⟩

/-- Add `m` under a mask. -/
def addMasked (m d : L4) (mask : Nat) : L4 :=
  let (d0, carry) := adc d.l0 (m.l0 &&& mask) 0
  let (d1, carry) := adc d.l1 (m.l1 &&& mask) carry
  let (d2, carry) := adc d.l2 (m.l2 &&& mask) carry
  let (d3, _) := adc d.l3 (m.l3 &&& mask) carry
  ⟨d0, d1, d2, d3⟩

theorem subL_eq (m a b : L4) : subL m a b = addMasked m (sub4raw a b) (borrow4 a b) := rfl

theorem borrow4_spec (a b : L4) (ha : a.wf) (hb : b.wf) :
    borrow4 a b = if a.val < b.val then W - 1 else 0 := by
  obtain ⟨a0, a1, a2, a3⟩ := a
  obtain ⟨b0, b1, b2, b3⟩ := b
  simp only [L4.wf, L4.val, borrow4, sbb, W] at *
  split <;> omega

theorem sub4raw_spec (a b : L4) (ha : a.wf) (hb : b.wf) :
    (sub4raw a b).wf ∧ (sub4raw a b).val = (a.val + W ^ 4 - b.val) % W ^ 4 := by
  obtain ⟨a0, a1, a2, a3⟩ := a
  obtain ⟨b0, b1, b2, b3⟩ := b
  simp only [L4.wf, L4.val, sub4raw, sbb, W] at *
  omega

end MidnightZK.C10
