import MidnightZK.Model.C10.Limbs
/-!
Limb-level lemmas for C10 (core only). Every `adc`/`sbb`/`mac` call is replaced by a pair of fresh
variables constrained by one linear equation; the carry/borrow chains are then closed by `omega`.
-/
namespace MidnightZK.C10

theorem W_pos : 0 < W := by decide

theorem land_ones (x : Nat) (hx : x < W) : x &&& (W - 1) = x := by
  have : W - 1 = 2 ^ 64 - 1 := rfl
  rw [this, Nat.and_two_pow_sub_one_eq_mod]; exact Nat.mod_eq_of_lt hx

/-- `adc` as a pair with its defining equation. -/
theorem adc_pair (a b c : Nat) : ∃ lo hi, adc a b c = (lo, hi) ∧ lo + W * hi = a + b + c ∧ lo < W := by
  refine ⟨(a + b + c) % W, (a + b + c) / W, rfl, ?_, Nat.mod_lt _ W_pos⟩
  exact Nat.mod_add_div _ _

/-- `mac` as a pair with its defining equation. -/
theorem mac_pair (a b c d : Nat) :
    ∃ lo hi, mac a b c d = (lo, hi) ∧ lo + W * hi = a + b * c + d ∧ lo < W := by
  refine ⟨(a + b * c + d) % W, (a + b * c + d) / W, rfl, ?_, Nat.mod_lt _ W_pos⟩
  exact Nat.mod_add_div _ _

/-- The high word of `mac` on `u64` arguments is a `u64` (no u128 overflow). -/
theorem mac_pair_lt (a b c d : Nat) (ha : a < W) (hb : b < W) (hc : c < W) (hd : d < W) :
    ∃ lo hi, mac a b c d = (lo, hi) ∧ lo + W * hi = a + b * c + d ∧ lo < W ∧ hi < W := by
  obtain ⟨lo, hi, e, h, l⟩ := mac_pair a b c d
  refine ⟨lo, hi, e, h, l, ?_⟩
  have hbc : b * c ≤ (W - 1) * (W - 1) := Nat.mul_le_mul (by omega) (by omega)
  have hW : (W - 1) * (W - 1) = W * W - 2 * W + 1 := by decide +kernel
  have hWW : W * W = 340282366920938463463374607431768211456 := by decide +kernel
  have : W * hi < W * W := by simp only [W] at *; omega
  exact Nat.lt_of_mul_lt_mul_left this

/-- `sbb` with incoming borrow `bin·(2^64-1)`, as a pair. -/
theorem sbb_pair (a b borrow bin : Nat) (ha : a < W) (hb : b < W) (hbin : bin ≤ 1)
    (hbo : borrow = bin * (W - 1)) :
    ∃ d bo, sbb a b borrow = (d, bo * (W - 1)) ∧ bo ≤ 1 ∧ d + b + bin = a + W * bo ∧ d < W := by
  have : bin = 0 ∨ bin = 1 := by omega
  rcases this with h | h <;> subst h <;> subst hbo
  · by_cases hlt : a < b
    · refine ⟨a + W - b, 1, ?_, by omega, by omega, by omega⟩
      apply Prod.ext <;> simp only [sbb, W] at * <;> omega
    · refine ⟨a - b, 0, ?_, by omega, by omega, by omega⟩
      apply Prod.ext <;> simp only [sbb, W] at * <;> omega
  · by_cases hlt : a < b + 1
    · refine ⟨a + W - b - 1, 1, ?_, by omega, by omega, by omega⟩
      apply Prod.ext <;> simp only [sbb, W] at * <;> omega
    · refine ⟨a - b - 1, 0, ?_, by omega, by omega, by omega⟩
      apply Prod.ext <;> simp only [sbb, W] at * <;> omega

theorem W4_eq : W ^ 4 = 115792089237316195423570985008687907853269984665640564039457584007913129639936 := by
  decide +kernel

/-- `sub` / `sub_ref` (`jubjub/fr.rs`, `bls12_381/fq.rs`, `curve25519/fp.rs`): exact value of the
limb subtraction with masked add-back, for arbitrary `u64` limbs. -/
theorem subL_spec (m a b : L4) (hm : m.wf) (ha : a.wf) (hb : b.wf) :
    (subL m a b).wf ∧ (b.val ≤ a.val → (subL m a b).val = a.val - b.val) ∧
    (a.val < b.val → (subL m a b).val = (a.val + W ^ 4 - b.val + m.val) % W ^ 4) := by
  obtain ⟨a0, a1, a2, a3⟩ := a
  obtain ⟨b0, b1, b2, b3⟩ := b
  obtain ⟨m0, m1, m2, m3⟩ := m
  obtain ⟨ha0, ha1, ha2, ha3⟩ := ha
  obtain ⟨hb0, hb1, hb2, hb3⟩ := hb
  obtain ⟨hm0, hm1, hm2, hm3⟩ := hm
  simp only [subL, L4.wf, L4.val, W4_eq] at *
  obtain ⟨d0, o0, e0, ho0, h0, l0⟩ := sbb_pair a0 b0 0 0 ha0 hb0 (by omega) (by omega)
  simp only [e0]
  obtain ⟨d1, o1, e1, ho1, h1, l1⟩ := sbb_pair a1 b1 (o0 * (W - 1)) o0 ha1 hb1 ho0 rfl
  simp only [e1]
  obtain ⟨d2, o2, e2, ho2, h2, l2⟩ := sbb_pair a2 b2 (o1 * (W - 1)) o1 ha2 hb2 ho1 rfl
  simp only [e2]
  obtain ⟨d3, o3, e3, ho3, h3, l3⟩ := sbb_pair a3 b3 (o2 * (W - 1)) o2 ha3 hb3 ho2 rfl
  simp only [e3]
  have : o3 = 0 ∨ o3 = 1 := by omega
  rcases this with h | h <;> subst h
  · simp only [Nat.zero_mul, Nat.and_zero]
    obtain ⟨x0, c0, f0, g0, k0⟩ := adc_pair d0 0 0
    simp only [f0]
    obtain ⟨x1, c1, f1, g1, k1⟩ := adc_pair d1 0 c0
    simp only [f1]
    obtain ⟨x2, c2, f2, g2, k2⟩ := adc_pair d2 0 c1
    simp only [f2]
    obtain ⟨x3, c3, f3, g3, k3⟩ := adc_pair d3 0 c2
    simp only [f3]
    simp only [W] at *
    have hD : d0 + d1 * 2 ^ 64 + d2 * (2 ^ 64) ^ 2 + d3 * (2 ^ 64) ^ 3 + (b0 + b1 * 2 ^ 64 + b2 * (2 ^ 64) ^ 2 + b3 * (2 ^ 64) ^ 3) =
        a0 + a1 * 2 ^ 64 + a2 * (2 ^ 64) ^ 2 + a3 * (2 ^ 64) ^ 3 := by omega
    have hX : x0 + x1 * 2 ^ 64 + x2 * (2 ^ 64) ^ 2 + x3 * (2 ^ 64) ^ 3 =
        d0 + d1 * 2 ^ 64 + d2 * (2 ^ 64) ^ 2 + d3 * (2 ^ 64) ^ 3 := by omega
    refine ⟨⟨k0, k1, k2, k3⟩, fun hle => ?_, fun hlt => ?_⟩
    · omega
    · omega
  · simp only [Nat.one_mul, land_ones _ hm0, land_ones _ hm1, land_ones _ hm2, land_ones _ hm3]
    obtain ⟨x0, c0, f0, g0, k0⟩ := adc_pair d0 m0 0
    simp only [f0]
    obtain ⟨x1, c1, f1, g1, k1⟩ := adc_pair d1 m1 c0
    simp only [f1]
    obtain ⟨x2, c2, f2, g2, k2⟩ := adc_pair d2 m2 c1
    simp only [f2]
    obtain ⟨x3, c3, f3, g3, k3⟩ := adc_pair d3 m3 c2
    simp only [f3]
    simp only [W] at *
    have hD : d0 + d1 * 2 ^ 64 + d2 * (2 ^ 64) ^ 2 + d3 * (2 ^ 64) ^ 3 + (b0 + b1 * 2 ^ 64 + b2 * (2 ^ 64) ^ 2 + b3 * (2 ^ 64) ^ 3) =
        a0 + a1 * 2 ^ 64 + a2 * (2 ^ 64) ^ 2 + a3 * (2 ^ 64) ^ 3 +
          115792089237316195423570985008687907853269984665640564039457584007913129639936 := by omega
    have hX : x0 + x1 * 2 ^ 64 + x2 * (2 ^ 64) ^ 2 + x3 * (2 ^ 64) ^ 3 +
        115792089237316195423570985008687907853269984665640564039457584007913129639936 * c3 =
        d0 + d1 * 2 ^ 64 + d2 * (2 ^ 64) ^ 2 + d3 * (2 ^ 64) ^ 3 + (m0 + m1 * 2 ^ 64 + m2 * (2 ^ 64) ^ 2 + m3 * (2 ^ 64) ^ 3) := by omega
    have hXlt : x0 + x1 * 2 ^ 64 + x2 * (2 ^ 64) ^ 2 + x3 * (2 ^ 64) ^ 3 <
        115792089237316195423570985008687907853269984665640564039457584007913129639936 := by omega
    refine ⟨⟨k0, k1, k2, k3⟩, fun hle => ?_, fun hlt => ?_⟩
    · omega
    · generalize x0 + x1 * 2 ^ 64 + x2 * (2 ^ 64) ^ 2 + x3 * (2 ^ 64) ^ 3 = X at *
      generalize d0 + d1 * 2 ^ 64 + d2 * (2 ^ 64) ^ 2 + d3 * (2 ^ 64) ^ 3 = D at *
      generalize a0 + a1 * 2 ^ 64 + a2 * (2 ^ 64) ^ 2 + a3 * (2 ^ 64) ^ 3 = A at *
      generalize b0 + b1 * 2 ^ 64 + b2 * (2 ^ 64) ^ 2 + b3 * (2 ^ 64) ^ 3 = B at *
      generalize m0 + m1 * 2 ^ 64 + m2 * (2 ^ 64) ^ 2 + m3 * (2 ^ 64) ^ 3 = M at *
      clear h0 h1 h2 h3 g0 g1 g2 g3
      omega

/-- Four-limb addition chain dropping the last carry. -/
theorem addL_spec (m a b : L4) (hm : m.wf) (ha : a.wf) (hb : b.wf) :
    (addL m a b).wf ∧
    (m.val ≤ (a.val + b.val) % W ^ 4 → (addL m a b).val = (a.val + b.val) % W ^ 4 - m.val) ∧
    ((a.val + b.val) % W ^ 4 < m.val → (addL m a b).val = (a.val + b.val) % W ^ 4) := by
  obtain ⟨a0, a1, a2, a3⟩ := a
  obtain ⟨b0, b1, b2, b3⟩ := b
  simp only [addL]
  obtain ⟨x0, c0, f0, g0, k0⟩ := adc_pair a0 b0 0
  simp only [f0]
  obtain ⟨x1, c1, f1, g1, k1⟩ := adc_pair a1 b1 c0
  simp only [f1]
  obtain ⟨x2, c2, f2, g2, k2⟩ := adc_pair a2 b2 c1
  simp only [f2]
  obtain ⟨x3, c3, f3, g3, k3⟩ := adc_pair a3 b3 c2
  simp only [f3]
  obtain ⟨hw, h1, h2⟩ := subL_spec m ⟨x0, x1, x2, x3⟩ m hm ⟨k0, k1, k2, k3⟩ hm
  have hX : (⟨x0, x1, x2, x3⟩ : L4).val = ((⟨a0, a1, a2, a3⟩ : L4).val + (⟨b0, b1, b2, b3⟩ : L4).val) % W ^ 4 := by
    simp only [L4.val, W4_eq, W] at *
    omega
  have hXlt : (⟨x0, x1, x2, x3⟩ : L4).val < W ^ 4 := by
    simp only [L4.val, W4_eq, W] at *
    omega
  have hMlt : m.val < W ^ 4 := by
    obtain ⟨m0, m1, m2, m3⟩ := m
    obtain ⟨q0, q1, q2, q3⟩ := hm
    simp only [L4.val, W4_eq, W] at *
    omega
  rw [← hX]
  refine ⟨hw, h1, fun hlt => ?_⟩
  rw [h2 hlt]
  clear g0 g1 g2 g3 hX h1 h2
  generalize (⟨x0, x1, x2, x3⟩ : L4).val = X at *
  generalize m.val = M at *
  simp only [W4_eq] at *
  omega

/-- `neg`: `MODULUS - self`, masked to zero for zero. -/
theorem negL_spec (m a : L4) (hm : m.wf) (ha : a.wf) (hle : a.val ≤ m.val) :
    (negL m a).wf ∧ (a.val = 0 → (negL m a).val = 0) ∧ (a.val ≠ 0 → (negL m a).val = m.val - a.val) := by
  obtain ⟨a0, a1, a2, a3⟩ := a
  obtain ⟨m0, m1, m2, m3⟩ := m
  obtain ⟨ha0, ha1, ha2, ha3⟩ := ha
  obtain ⟨hm0, hm1, hm2, hm3⟩ := hm
  simp only [negL, L4.wf, L4.val] at *
  obtain ⟨d0, o0, e0, ho0, h0, l0⟩ := sbb_pair m0 a0 0 0 hm0 ha0 (by omega) (by omega)
  simp only [e0]
  obtain ⟨d1, o1, e1, ho1, h1, l1⟩ := sbb_pair m1 a1 (o0 * (W - 1)) o0 hm1 ha1 ho0 rfl
  simp only [e1]
  obtain ⟨d2, o2, e2, ho2, h2, l2⟩ := sbb_pair m2 a2 (o1 * (W - 1)) o1 hm2 ha2 ho1 rfl
  simp only [e2]
  obtain ⟨d3, o3, e3, ho3, h3, l3⟩ := sbb_pair m3 a3 (o2 * (W - 1)) o2 hm3 ha3 ho2 rfl
  simp only [e3]
  by_cases hz : (a0 ||| a1 ||| a2 ||| a3) = 0
  · have h4 : a0 = 0 ∧ a1 = 0 ∧ a2 = 0 ∧ a3 = 0 := by
      simp only [Nat.or_eq_zero_iff] at hz
      omega
    obtain ⟨rfl, rfl, rfl, rfl⟩ := h4
    simp [W]
  · have hnz : ¬ (a0 = 0 ∧ a1 = 0 ∧ a2 = 0 ∧ a3 = 0) := by
      intro ⟨h0, h1, h2, h3⟩
      subst h0 h1 h2 h3
      exact hz rfl
    simp only [hz, if_false, land_ones _ l0, land_ones _ l1, land_ones _ l2, land_ones _ l3]
    refine ⟨⟨l0, l1, l2, l3⟩, fun h => ?_, fun _ => ?_⟩
    · simp only [W] at *
      omega
    · simp only [W] at *
      omega

/-- The borrow of the trial subtraction is `1` exactly when the limbs are below the modulus
(`jubjub/fr.rs: fn from_bytes`, `curve25519/fp.rs: fn is_less_than_modulus`). -/
theorem ltModBorrow_spec (m a : L4) (hm : m.wf) (ha : a.wf) :
    (a.val < m.val → ltModBorrow m a = 1) ∧ (m.val ≤ a.val → ltModBorrow m a = 0) := by
  obtain ⟨a0, a1, a2, a3⟩ := a
  obtain ⟨m0, m1, m2, m3⟩ := m
  obtain ⟨ha0, ha1, ha2, ha3⟩ := ha
  obtain ⟨hm0, hm1, hm2, hm3⟩ := hm
  simp only [ltModBorrow, L4.wf, L4.val] at *
  obtain ⟨d0, o0, e0, ho0, h0, l0⟩ := sbb_pair a0 m0 0 0 ha0 hm0 (by omega) (by omega)
  simp only [e0]
  obtain ⟨d1, o1, e1, ho1, h1, l1⟩ := sbb_pair a1 m1 (o0 * (W - 1)) o0 ha1 hm1 ho0 rfl
  simp only [e1]
  obtain ⟨d2, o2, e2, ho2, h2, l2⟩ := sbb_pair a2 m2 (o1 * (W - 1)) o1 ha2 hm2 ho1 rfl
  simp only [e2]
  obtain ⟨d3, o3, e3, ho3, h3, l3⟩ := sbb_pair a3 m3 (o2 * (W - 1)) o2 ha3 hm3 ho2 rfl
  simp only [e3]
  have : o3 = 0 ∨ o3 = 1 := by omega
  rcases this with h | h <;> subst h
  · refine ⟨fun hlt => ?_, fun _ => by decide⟩
    simp only [W] at *
    omega
  · refine ⟨fun _ => by decide, fun hge => ?_⟩
    simp only [W] at *
    omega

end MidnightZK.C10
