import MidnightZK.Proofs.C10.Mont
import Mathlib.Data.Nat.ModEq
import Mathlib.Tactic.Ring
/-!
From limb identities to field statements: the limb functions compute in Montgomery form
(`x ↦ x·R mod M`, `R = 2^256`). Uses Mathlib's `Nat.ModEq` for cancelling `R`.
-/
namespace MidnightZK.C10

/-- Side conditions on a 4-limb Montgomery parameter set under which the Rust code is correct:
limbs are `u64`, `INV·m0 ≡ -1 (mod 2^64)`, `M < 2^255` (so that the carry dropped by
`add`/`montgomery_reduce` is zero), `M` odd and `> 1`. -/
structure MontOK (p : MontParams) : Prop where
  wf : p.m.wf
  inv : p.m.l0 * p.inv % W = W - 1
  small : 2 * p.m.val ≤ W ^ 4
  odd : Nat.gcd p.m.val (W ^ 4) = 1
  pos : 1 < p.m.val

/-- `R = 2^256`. -/
def RR : Nat := W ^ 4

theorem RR_def : RR = W ^ 4 := rfl

theorem mont_cancel {M x y : Nat} (hc : Nat.gcd M RR = 1) (hx : x < M) (hy : y < M)
    (h : x * RR % M = y * RR % M) : x = y := by
  have h1 : x * RR ≡ y * RR [MOD M] := h
  have h2 : x ≡ y [MOD M] := Nat.ModEq.cancel_right_of_coprime hc h1
  have h3 : x % M = y % M := h2
  rwa [Nat.mod_eq_of_lt hx, Nat.mod_eq_of_lt hy] at h3

/-- `a` is the Montgomery representative of `x`. -/
def IsMont (M : Nat) (a : L4) (x : Nat) : Prop := a.wf ∧ a.val = x * RR % M

theorem mul_mont (p : MontParams) (ok : MontOK p) (a b : L4) (x y : Nat)
    (ha : IsMont p.m.val a x) (hb : IsMont p.m.val b y) :
    IsMont p.m.val (mulL p a b) (x * y) := by
  obtain ⟨haw, hav⟩ := ha
  obtain ⟨hbw, hbv⟩ := hb
  have hMpos : 0 < p.m.val := by have := ok.pos; omega
  have hbM : b.val < p.m.val := by rw [hbv]; exact Nat.mod_lt _ hMpos
  have hT := mul_lt_of_right_lt a.val b.val p.m.val (L4.val_lt a haw) hbM
  obtain ⟨hw, hlt, hv⟩ := mulL_core p a b ok.wf haw hbw ok.inv ok.small hT
  refine ⟨hw, ?_⟩
  apply mont_cancel ok.odd hlt (Nat.mod_lt _ hMpos)
  show (mulL p a b).val * RR ≡ x * y * RR % p.m.val * RR [MOD p.m.val]
  have h1 : (mulL p a b).val * RR ≡ a.val * b.val [MOD p.m.val] := hv
  have h2 : a.val ≡ x * RR [MOD p.m.val] := by rw [hav]; exact Nat.mod_modEq _ _
  have h3 : b.val ≡ y * RR [MOD p.m.val] := by rw [hbv]; exact Nat.mod_modEq _ _
  have h4 : x * y * RR % p.m.val ≡ x * y * RR [MOD p.m.val] := Nat.mod_modEq _ _
  calc (mulL p a b).val * RR ≡ a.val * b.val [MOD p.m.val] := h1
    _ ≡ (x * RR) * (y * RR) [MOD p.m.val] := Nat.ModEq.mul h2 h3
    _ = (x * y * RR) * RR := by simp only [Nat.mul_assoc, Nat.mul_comm, Nat.mul_left_comm]
    _ ≡ x * y * RR % p.m.val * RR [MOD p.m.val] := (Nat.ModEq.mul_right _ h4).symm

/-- For canonical operands `add` is addition modulo `M`. -/
theorem addL_canonical (p : MontParams) (ok : MontOK p) (a b : L4) (haw : a.wf) (hbw : b.wf)
    (ha : a.val < p.m.val) (hb : b.val < p.m.val) :
    (addL p.m a b).wf ∧ (addL p.m a b).val = (a.val + b.val) % p.m.val := by
  obtain ⟨hw, h1, h2⟩ := addL_spec p.m a b ok.wf haw hbw
  have hs := ok.small
  have hsum : (a.val + b.val) % W ^ 4 = a.val + b.val := Nat.mod_eq_of_lt (by omega)
  rw [hsum] at h1 h2
  refine ⟨hw, ?_⟩
  rcases Nat.lt_or_ge (a.val + b.val) p.m.val with h | h
  · rw [h2 h, Nat.mod_eq_of_lt h]
  · rw [h1 h]
    have : a.val + b.val = (a.val + b.val - p.m.val) + p.m.val := by omega
    conv => rhs; rw [this, Nat.add_mod_right]
    exact (Nat.mod_eq_of_lt (by omega)).symm

/-- For canonical operands `sub` is subtraction modulo `M`. -/
theorem subL_canonical (p : MontParams) (ok : MontOK p) (a b : L4) (haw : a.wf) (hbw : b.wf)
    (ha : a.val < p.m.val) (hb : b.val < p.m.val) :
    (subL p.m a b).wf ∧ (subL p.m a b).val = (a.val + (p.m.val - b.val)) % p.m.val := by
  obtain ⟨hw, h1, h2⟩ := subL_spec p.m a b ok.wf haw hbw
  have hs := ok.small
  refine ⟨hw, ?_⟩
  rcases Nat.lt_or_ge a.val b.val with h | h
  · rw [h2 h]
    have e : a.val + W ^ 4 - b.val + p.m.val = (a.val + (p.m.val - b.val)) + W ^ 4 := by omega
    rw [e, Nat.add_mod_right, Nat.mod_eq_of_lt (by omega), Nat.mod_eq_of_lt (by omega)]
  · rw [h1 h]
    have : a.val + (p.m.val - b.val) = (a.val - b.val) + p.m.val := by omega
    rw [this, Nat.add_mod_right]
    exact (Nat.mod_eq_of_lt (by omega)).symm

/-- For canonical operands `neg` is negation modulo `M`. -/
theorem negL_canonical (p : MontParams) (ok : MontOK p) (a : L4) (haw : a.wf) (ha : a.val < p.m.val) :
    (negL p.m a).wf ∧ (negL p.m a).val = (p.m.val - a.val) % p.m.val := by
  obtain ⟨hw, h1, h2⟩ := negL_spec p.m a ok.wf haw (Nat.le_of_lt ha)
  refine ⟨hw, ?_⟩
  rcases Nat.eq_zero_or_pos a.val with h | h
  · rw [h1 h, h, Nat.sub_zero, Nat.mod_self]
  · rw [h2 (by omega)]
    exact (Nat.mod_eq_of_lt (by omega)).symm

theorem add_mont (p : MontParams) (ok : MontOK p) (a b : L4) (x y : Nat)
    (ha : IsMont p.m.val a x) (hb : IsMont p.m.val b y) : IsMont p.m.val (addL p.m a b) (x + y) := by
  obtain ⟨haw, hav⟩ := ha
  obtain ⟨hbw, hbv⟩ := hb
  have hMpos : 0 < p.m.val := by have := ok.pos; omega
  obtain ⟨hw, hv⟩ := addL_canonical p ok a b haw hbw (by rw [hav]; exact Nat.mod_lt _ hMpos)
    (by rw [hbv]; exact Nat.mod_lt _ hMpos)
  refine ⟨hw, ?_⟩
  rw [hv, hav, hbv, ← Nat.add_mod, ← Nat.add_mul]

/-- `neg` returns the canonical additive inverse of a canonical representative. -/
theorem neg_mont (p : MontParams) (ok : MontOK p) (a : L4) (x : Nat) (ha : IsMont p.m.val a x) :
    (negL p.m a).wf ∧ (negL p.m a).val < p.m.val ∧ ((negL p.m a).val + a.val) % p.m.val = 0 := by
  obtain ⟨haw, hav⟩ := ha
  have hMpos : 0 < p.m.val := by have := ok.pos; omega
  have hlt : a.val < p.m.val := by rw [hav]; exact Nat.mod_lt _ hMpos
  obtain ⟨hw, hv⟩ := negL_canonical p ok a haw hlt
  refine ⟨hw, ?_, ?_⟩
  · rw [hv]; exact Nat.mod_lt _ hMpos
  · rw [hv]
    rcases Nat.eq_zero_or_pos a.val with h | h
    · rw [h, Nat.sub_zero, Nat.mod_self, Nat.add_zero, Nat.zero_mod]
    · have e : (p.m.val - a.val) % p.m.val = p.m.val - a.val := Nat.mod_eq_of_lt (by omega)
      rw [e, Nat.sub_add_cancel (Nat.le_of_lt hlt), Nat.mod_self]

/-- `to_bytes`: from the Montgomery representative back to the canonical value. -/
theorem toCanon_mont (p : MontParams) (ok : MontOK p) (a : L4) (x : Nat) (ha : IsMont p.m.val a x) :
    (toCanonL p a).wf ∧ (toCanonL p a).val = x % p.m.val := by
  obtain ⟨haw, hav⟩ := ha
  have hMpos : 0 < p.m.val := by have := ok.pos; omega
  obtain ⟨hw, hlt, hv⟩ := toCanonL_core p a ok.wf haw ok.inv ok.small hMpos
  rw [← RR_def] at hv
  refine ⟨hw, ?_⟩
  apply mont_cancel ok.odd hlt (Nat.mod_lt _ hMpos)
  rw [hv, hav, Nat.mod_mod, Nat.mod_mul_mod]

/-- `from_raw` / the conversion in `from_bytes`: `val · R2` reduced is the Montgomery
representative of `val`, for every 256-bit `val` (also `≥ M`). -/
theorem fromRaw_mont (p : MontParams) (ok : MontOK p) (r2 a : L4) (haw : a.wf) (hr2w : r2.wf)
    (hr2 : r2.val = RR * RR % p.m.val) : IsMont p.m.val (mulL p a r2) a.val := by
  have hMpos : 0 < p.m.val := by have := ok.pos; omega
  have hbM : r2.val < p.m.val := by rw [hr2]; exact Nat.mod_lt _ hMpos
  have hT := mul_lt_of_right_lt a.val r2.val p.m.val (L4.val_lt a haw) hbM
  obtain ⟨hw, hlt, hv⟩ := mulL_core p a r2 ok.wf haw hr2w ok.inv ok.small hT
  rw [← RR_def] at hv
  refine ⟨hw, ?_⟩
  apply mont_cancel ok.odd hlt (Nat.mod_lt _ hMpos)
  rw [hv, hr2, Nat.mod_mul_mod, Nat.mul_mod_mod, Nat.mul_assoc]

/-- `from_u512` / `from_bytes_wide` / `from_uniform_bytes`: `d0·R2 + d1·R3` is the Montgomery
representative of the 512-bit integer `d0 + d1·2^256`. -/
theorem fromU512_mont (p : MontParams) (ok : MontOK p) (r2 r3 d0 d1 : L4) (h0 : d0.wf) (h1 : d1.wf)
    (hr2w : r2.wf) (hr3w : r3.wf) (hr2 : r2.val = RR * RR % p.m.val)
    (hr3 : r3.val = RR * RR * RR % p.m.val) :
    IsMont p.m.val (fromU512L p r2 r3 d0 d1) (d0.val + d1.val * RR) := by
  have hMpos : 0 < p.m.val := by have := ok.pos; omega
  have m0 := fromRaw_mont p ok r2 d0 h0 hr2w hr2
  have hbM : r3.val < p.m.val := by rw [hr3]; exact Nat.mod_lt _ hMpos
  have hT := mul_lt_of_right_lt d1.val r3.val p.m.val (L4.val_lt d1 h1) hbM
  obtain ⟨hw, hlt, hv⟩ := mulL_core p d1 r3 ok.wf h1 hr3w ok.inv ok.small hT
  rw [← RR_def] at hv
  have m1 : IsMont p.m.val (mulL p d1 r3) (d1.val * RR) := by
    refine ⟨hw, ?_⟩
    apply mont_cancel ok.odd hlt (Nat.mod_lt _ hMpos)
    rw [hv, hr3, Nat.mod_mul_mod, Nat.mul_mod_mod]
    have e : d1.val * (RR * RR * RR) = d1.val * RR * RR * RR := by simp only [Nat.mul_assoc]
    rw [e]
  exact add_mont p ok _ _ _ _ m0 m1

/-- `to_bytes ∘ from_bytes` is the identity on canonical values: the codec round-trips. -/
theorem canonical_roundtrip (p : MontParams) (ok : MontOK p) (r2 a : L4) (haw : a.wf) (hr2w : r2.wf)
    (hr2 : r2.val = RR * RR % p.m.val) (ha : a.val < p.m.val) :
    (toCanonL p (mulL p a r2)).val = a.val := by
  have h := (toCanon_mont p ok _ _ (fromRaw_mont p ok r2 a haw hr2w hr2)).2
  rw [h, Nat.mod_eq_of_lt ha]

end MidnightZK.C10
