import MidnightZK.Model.C10.BY
import Mathlib.Data.Int.GCD
import Mathlib.RingTheory.Coprime.Lemmas
import Mathlib.Tactic.Ring
import Mathlib.Tactic.LinearCombination
/-!
Bernstein–Yang inversion (`ff_ext/inverse.rs`): the matrix invariant of one batch of 62 division
steps (`jump`), the exactness of `fg`/`de`, the loop invariant `d·x ≡ f·A`, `e·x ≡ g·A (mod M)`
and the partial specification of `invert` — all at the value level of `Model/C10/BY.lean`.
-/
namespace MidnightZK.C10.BY

/-! ## Trailing zeros -/

theorem tzNat_dvd (fuel n : Nat) : 2 ^ tzNat fuel n ∣ n := by
  induction fuel generalizing n with
  | zero => simp [tzNat]
  | succ k ih =>
    unfold tzNat
    split
    · simp
    · rename_i h
      have h2 : n % 2 = 0 := by omega
      obtain ⟨q, hq⟩ := ih (n / 2)
      refine ⟨q, ?_⟩
      have : n = 2 * (n / 2) := by omega
      rw [Nat.add_comm, pow_succ]
      calc n = 2 * (n / 2) := this
        _ = 2 * (2 ^ tzNat k (n / 2) * q) := by rw [← hq]
        _ = 2 ^ tzNat k (n / 2) * 2 * q := by ring

theorem tzNat_le (fuel n : Nat) : tzNat fuel n ≤ fuel := by
  induction fuel generalizing n with
  | zero => simp [tzNat]
  | succ k ih =>
    unfold tzNat
    split
    · omega
    · have := ih (n / 2); omega

/-- `2^(trailing_zeros g)` divides `g` (an `i128`, or any integer). -/
theorem tz128_dvd (g : Int) : (2 : Int) ^ tz128 g ∣ g := by
  unfold tz128
  have hle := tzNat_le 128 (g % 2 ^ 128).toNat
  obtain ⟨q, hq⟩ := tzNat_dvd 128 (g % 2 ^ 128).toNat
  generalize tzNat 128 (g % 2 ^ 128).toNat = z at *
  have hpos : (0 : Int) ≤ g % 2 ^ 128 := Int.emod_nonneg _ (by positivity)
  have h1 : ((g % 2 ^ 128).toNat : Int) = g % 2 ^ 128 := Int.toNat_of_nonneg hpos
  have h2 : (2 : Int) ^ z ∣ g % 2 ^ 128 := by
    rw [← h1, hq]
    exact ⟨q, by push_cast; ring⟩
  have h3 : (2 : Int) ^ z ∣ 2 ^ 128 := pow_dvd_pow 2 hle
  have h4 : g = g % 2 ^ 128 + 2 ^ 128 * (g / 2 ^ 128) := (Int.emod_add_mul_ediv g (2 ^ 128)).symm
  rw [h4]
  exact Int.dvd_add h2 (Dvd.dvd.mul_right h3 _)

theorem wrapI64_sub (x : Int) : (2 : Int) ^ 64 ∣ wrapI64 x - x := by
  unfold wrapI64
  refine ⟨-((x + 2 ^ 63) / 2 ^ 64), ?_⟩
  have := Int.emod_add_mul_ediv (x + 2 ^ 63) (2 ^ 64)
  linear_combination this

/-! ## The matrix invariant of `jump` -/

/-- Invariant of the loop of `jump` with `steps` division steps left: the rows of `t` applied
to the initial `(f0, g0)` give `2^(62-steps)·f` and `2^(62-steps)·g` modulo `2^62`, and
`det t = 2^(62-steps)`. -/
def JInv (f0 g0 : Int) (steps : Nat) (f g : Int) (t : Mat) : Prop :=
  steps ≤ 62 ∧ (2 : Int) ^ 62 ∣ t.a * f0 + t.b * g0 - 2 ^ (62 - steps) * f ∧
  (2 : Int) ^ 62 ∣ t.c * f0 + t.d * g0 - 2 ^ (62 - steps) * g ∧
  t.a * t.d - t.b * t.c = 2 ^ (62 - steps)

theorem JInv_shift {f0 g0 : Int} {s : Nat} {f g : Int} {t : Mat} (inv : JInv f0 g0 s f g t) (z : Nat)
    (hz : z ≤ s) (hzd : (2 : Int) ^ z ∣ g) :
    JInv f0 g0 (s - z) f (g / 2 ^ z) ⟨t.a * 2 ^ z, t.b * 2 ^ z, t.c, t.d⟩ := by
  obtain ⟨hs, h0, h1, hd⟩ := inv
  obtain ⟨g1, hg1⟩ := hzd
  have hdiv : g / 2 ^ z = g1 := by
    rw [hg1]; exact Int.mul_ediv_cancel_left _ (pow_pos (by norm_num : (0 : Int) < 2) z).ne'
  rw [hdiv]
  have hexp : 62 - (s - z) = (62 - s) + z := by omega
  have hpw : (2 : Int) ^ (62 - (s - z)) = 2 ^ (62 - s) * 2 ^ z := by rw [hexp, pow_add]
  refine ⟨by omega, ?_, ?_, ?_⟩
  · obtain ⟨q, hq⟩ := h0
    exact ⟨q * 2 ^ z, by simp only; rw [hpw]; linear_combination (2 ^ z : Int) * hq⟩
  · obtain ⟨q, hq⟩ := h1
    exact ⟨q, by simp only; rw [hpw]; rw [hg1] at hq; linear_combination hq⟩
  · simp only; rw [hpw]; linear_combination (2 ^ z : Int) * hd

theorem JInv_swap {f0 g0 : Int} {s : Nat} {f g : Int} {t : Mat} (inv : JInv f0 g0 s f g t) :
    JInv f0 g0 s (wrapI64 g) (-f) ⟨t.c, t.d, -t.a, -t.b⟩ := by
  obtain ⟨hs, h0, h1, hd⟩ := inv
  refine ⟨hs, ?_, ?_, ?_⟩
  · obtain ⟨q, hq⟩ := h1
    obtain ⟨k, hk⟩ := wrapI64_sub g
    refine ⟨q - 2 ^ (62 - s) * 4 * k, ?_⟩
    simp only
    linear_combination hq - (2 : Int) ^ (62 - s) * hk
  · obtain ⟨q, hq⟩ := h0
    exact ⟨-q, by simp only; linear_combination -hq⟩
  · simp only; linear_combination hd

theorem JInv_wstep {f0 g0 : Int} {s : Nat} {f g : Int} {t : Mat} (inv : JInv f0 g0 s f g t) (w : Int) :
    JInv f0 g0 s f (g + w * f) ⟨t.a, t.b, t.a * w + t.c, t.b * w + t.d⟩ := by
  obtain ⟨hs, h0, h1, hd⟩ := inv
  refine ⟨hs, h0, ?_, ?_⟩
  · have e : (t.a * w + t.c) * f0 + (t.b * w + t.d) * g0 - 2 ^ (62 - s) * (g + w * f) =
        (t.c * f0 + t.d * g0 - 2 ^ (62 - s) * g) + w * (t.a * f0 + t.b * g0 - 2 ^ (62 - s) * f) := by ring
    simp only
    rw [e]
    exact Int.dvd_add h1 (Dvd.dvd.mul_left h0 w)
  · simp only; linear_combination hd

theorem JInv_done {f0 g0 f g : Int} {t : Mat} (inv : JInv f0 g0 0 f g t) :
    (2 : Int) ^ 62 ∣ t.a * f0 + t.b * g0 ∧ (2 : Int) ^ 62 ∣ t.c * f0 + t.d * g0 ∧
    t.a * t.d - t.b * t.c = 2 ^ 62 := by
  obtain ⟨_, h0, h1, hd⟩ := inv
  have e : (2 : Int) ^ (62 - 0) = 2 ^ 62 := by norm_num
  rw [e] at h0 h1 hd
  refine ⟨?_, ?_, hd⟩
  · obtain ⟨q, hq⟩ := h0
    exact ⟨q + f, by linear_combination hq⟩
  · obtain ⟨q, hq⟩ := h1
    exact ⟨q + g, by linear_combination hq⟩

theorem jumpLoop_inv (f0 g0 : Int) (fuel steps : Nat) (delta f g : Int) (t : Mat) (delta' : Int) (t' : Mat)
    (h : jumpLoop fuel steps delta f g t = some (delta', t')) (inv : JInv f0 g0 steps f g t) :
    (2 : Int) ^ 62 ∣ t'.a * f0 + t'.b * g0 ∧ (2 : Int) ^ 62 ∣ t'.c * f0 + t'.d * g0 ∧
    t'.a * t'.d - t'.b * t'.c = 2 ^ 62 := by
  induction fuel generalizing steps delta f g t with
  | zero => simp [jumpLoop] at h
  | succ k ih =>
    unfold jumpLoop at h
    simp only at h
    have hz : min steps (tz128 g) ≤ steps := Nat.min_le_left _ _
    have hzd : (2 : Int) ^ min steps (tz128 g) ∣ g :=
      dvd_trans (pow_dvd_pow 2 (Nat.min_le_right _ _)) (tz128_dvd g)
    have inv1 := JInv_shift inv _ hz hzd
    generalize min steps (tz128 g) = z at *
    generalize g / 2 ^ z = g1 at *
    generalize steps - z = s1 at *
    split at h
    · rename_i hs0
      subst hs0
      injection h with h
      injection h with _ ht
      subst ht
      exact JInv_done inv1
    · by_cases hsw : delta + (z : Int) > 0
      · simp only [hsw, decide_true, if_true] at h
        exact ih _ _ _ _ _ h (JInv_wstep (JInv_swap inv1) _)
      · simp only [hsw, decide_false] at h
        exact ih _ _ _ _ _ h (JInv_wstep inv1 _)

/-- THE MATRIX INVARIANT OF ONE BATCH (`inverse.rs: fn jump`): whatever the low chunks `f`, `g` and
`delta`, the matrix returned satisfies `t·(f, g)ᵀ ≡ 0 (mod 2^62)` row by row — so that the shifts
of `fg` are exact divisions — and `det t = 2^62`. -/
theorem jump_matrix (flo glo : Nat) (delta delta' : Int) (t : Mat)
    (h : jump flo glo delta = some (delta', t)) :
    (2 : Int) ^ 62 ∣ t.a * flo + t.b * glo ∧ (2 : Int) ^ 62 ∣ t.c * flo + t.d * glo ∧
    t.a * t.d - t.b * t.c = 2 ^ 62 := by
  refine jumpLoop_inv flo glo 200 62 delta flo glo ⟨1, 0, 0, 1⟩ delta' t h ⟨le_refl _, ?_, ?_, ?_⟩
  · exact ⟨0, by simp⟩
  · exact ⟨0, by simp⟩
  · simp

/-! ## `fg` and `de` -/

/-- The shifts of `fg` are exact divisions when the matrix annihilates `(f, g)` modulo `2^62`. -/
theorem fgV_exact (t : Mat) (f g : Int) (h0 : (2 : Int) ^ 62 ∣ t.a * f + t.b * g)
    (h1 : (2 : Int) ^ 62 ∣ t.c * f + t.d * g) :
    (fgV t f g).1 * 2 ^ 62 = t.a * f + t.b * g ∧ (fgV t f g).2 * 2 ^ 62 = t.c * f + t.d * g :=
  ⟨Int.ediv_mul_cancel h0, Int.ediv_mul_cancel h1⟩

/-- The multiple of the modulus added by `de` (computed from the low chunks, the sign bits and
`inverse = M⁻¹ mod 2^62`) makes the combination divisible by `2^62` — for every matrix. -/
theorem deFactor_dvd (m inverse ta tb md d e : Int) (hinv : (2 : Int) ^ 62 ∣ inverse * m - 1) :
    (2 : Int) ^ 62 ∣ ta * d + tb * e + deFactor inverse ta tb md (d % 2 ^ 62).toNat (e % 2 ^ 62).toNat * m := by
  unfold deFactor
  simp only
  have hd0 : (0 : Int) ≤ d % 2 ^ 62 := Int.emod_nonneg _ (by positivity)
  have he0 : (0 : Int) ≤ e % 2 ^ 62 := Int.emod_nonneg _ (by positivity)
  rw [Int.toNat_of_nonneg hd0, Int.toNat_of_nonneg he0]
  obtain ⟨k5, hk5⟩ := hinv
  have h1 := Int.emod_add_mul_ediv d (2 ^ 62)
  have h2 := Int.emod_add_mul_ediv e (2 ^ 62)
  generalize d % 2 ^ 62 = D at *
  generalize e % 2 ^ 62 = E at *
  have h3 := Int.emod_add_mul_ediv (ta * D + tb * E) (2 ^ 62)
  generalize (ta * D + tb * E) % 2 ^ 62 = C at *
  have h4 := Int.emod_add_mul_ediv (inverse * C + md) (2 ^ 62)
  generalize (inverse * C + md) % 2 ^ 62 = X at *
  refine ⟨-C * k5 + (ta * D + tb * E) / 2 ^ 62 + ta * (d / 2 ^ 62) + tb * (e / 2 ^ 62) +
    (inverse * C + md) / 2 ^ 62 * m, ?_⟩
  linear_combination (-ta) * h1 + (-tb) * h2 + (-1) * h3 + (-m) * h4 + (-C) * hk5

/-- `de` returns `(matrix·(d, e)ᵀ + (md, me)ᵀ·M) / 2^62` exactly. -/
theorem deV_exact (m inverse : Int) (hinv : (2 : Int) ^ 62 ∣ inverse * m - 1) (t : Mat) (d e : Int) :
    ∃ md me : Int, (deV m inverse t d e).1 * 2 ^ 62 = t.a * d + t.b * e + md * m ∧
      (deV m inverse t d e).2 * 2 ^ 62 = t.c * d + t.d * e + me * m := by
  unfold deV
  exact ⟨_, _, Int.ediv_mul_cancel (deFactor_dvd m inverse t.a t.b _ d e hinv),
    Int.ediv_mul_cancel (deFactor_dvd m inverse t.c t.d _ d e hinv)⟩

theorem coprime_two_pow (m : Int) (hodd : m % 2 = 1) (k : Nat) : Int.gcd m (2 ^ k) = 1 := by
  have h : IsCoprime m 2 :=
    ⟨1, -(m / 2), by have := Int.emod_add_mul_ediv m 2; linear_combination hodd - this⟩
  exact Int.isCoprime_iff_gcd_eq_one.mp (h.pow_right)

/-- THE LOOP INVARIANT IS PRESERVED BY ONE BATCH: if `d·x ≡ f·A` and `e·x ≡ g·A (mod M)`, `M` odd,
and the matrix annihilates `(f, g)` modulo `2^62`, then the same congruences hold for the outputs
of `fg` and `de` (the same matrix acts on `(f, g)` exactly and on `(d, e)` modulo `M`). -/
theorem batch_invariant (m inverse : Int) (hodd : m % 2 = 1) (hinv : (2 : Int) ^ 62 ∣ inverse * m - 1)
    (x A : Int) (t : Mat) (f g d e : Int)
    (h0 : (2 : Int) ^ 62 ∣ t.a * f + t.b * g) (h1 : (2 : Int) ^ 62 ∣ t.c * f + t.d * g)
    (hd : m ∣ d * x - f * A) (he : m ∣ e * x - g * A) :
    m ∣ (deV m inverse t d e).1 * x - (fgV t f g).1 * A ∧
    m ∣ (deV m inverse t d e).2 * x - (fgV t f g).2 * A := by
  obtain ⟨ef, eg⟩ := fgV_exact t f g h0 h1
  obtain ⟨md, me, ed, ee⟩ := deV_exact m inverse hinv t d e
  obtain ⟨qd, hqd⟩ := hd
  obtain ⟨qe, hqe⟩ := he
  have hc := coprime_two_pow m hodd 62
  constructor
  · apply Int.dvd_of_dvd_mul_right_of_gcd_one (b := 2 ^ 62) _ hc
    exact ⟨t.a * qd + t.b * qe + md * x, by linear_combination x * ed - A * ef + t.a * hqd + t.b * hqe⟩
  · apply Int.dvd_of_dvd_mul_right_of_gcd_one (b := 2 ^ 62) _ hc
    exact ⟨t.c * qd + t.d * qe + me * x, by linear_combination x * ee - A * eg + t.c * hqd + t.d * hqe⟩

theorem lift_low (ta tb f g : Int) (h : (2 : Int) ^ 62 ∣ ta * ((f % 2 ^ 62).toNat : Int) + tb * ((g % 2 ^ 62).toNat : Int)) :
    (2 : Int) ^ 62 ∣ ta * f + tb * g := by
  rw [Int.toNat_of_nonneg (Int.emod_nonneg _ (by positivity)),
    Int.toNat_of_nonneg (Int.emod_nonneg _ (by positivity))] at h
  obtain ⟨q, hq⟩ := h
  have h1 := Int.emod_add_mul_ediv f (2 ^ 62)
  have h2 := Int.emod_add_mul_ediv g (2 ^ 62)
  exact ⟨q + ta * (f / 2 ^ 62) + tb * (g / 2 ^ 62), by linear_combination hq - ta * h1 - tb * h2⟩

/-- The invariant along the whole main loop. -/
theorem invertVLoop_inv (m inverse : Int) (hodd : m % 2 = 1) (hinv : (2 : Int) ^ 62 ∣ inverse * m - 1)
    (x A : Int) (fuel : Nat) (delta f g d e : Int) (acc : List (Int × Mat × Int × Int × Int × Int))
    (f' d' : Int) (tr : List (Int × Mat × Int × Int × Int × Int))
    (h : invertVLoop m inverse fuel delta f g d e acc = some (f', d', tr))
    (hd : m ∣ d * x - f * A) (he : m ∣ e * x - g * A) : m ∣ d' * x - f' * A := by
  induction fuel generalizing delta f g d e acc with
  | zero => simp [invertVLoop] at h
  | succ k ih =>
    unfold invertVLoop at h
    split at h
    · injection h with h
      injection h with hf h
      injection h with hd' _
      subst hf hd'
      exact hd
    · cases hj : jump (f % 2 ^ 62).toNat (g % 2 ^ 62).toNat delta with
      | none => unfold batchV at h; rw [hj] at h; simp at h
      | some r =>
        obtain ⟨dl, t⟩ := r
        obtain ⟨j0, j1, _⟩ := jump_matrix _ _ _ _ _ hj
        have l0 := lift_low t.a t.b f g j0
        have l1 := lift_low t.c t.d f g j1
        obtain ⟨b0, b1⟩ := batch_invariant m inverse hodd hinv x A t f g d e l0 l1 hd he
        unfold batchV at h
        rw [hj] at h
        simp only at h
        exact ih _ _ _ _ _ _ h b0 b1

/-- `norm` returns a representative of `±value` modulo `M`. -/
theorem normV_mod (m v : Int) : m ∣ normV m v false - v ∧ m ∣ normV m v true + v := by
  unfold normV
  constructor
  · simp only [Bool.false_eq_true, if_false]
    split_ifs
    · exact ⟨2, by ring⟩
    · exact ⟨1, by ring⟩
    · exact ⟨0, by ring⟩
  · simp only [if_true]
    split_ifs
    · exact ⟨0, by ring⟩
    · exact ⟨-1, by ring⟩
    · exact ⟨1, by ring⟩
    · exact ⟨0, by ring⟩

/-- `norm` maps the interval `(-2M, M)` (the range `de` keeps `d` in) into `[0, M)`. -/
theorem normV_range (m v : Int) (neg : Bool) (hlo : -2 * m < v) (hhi : v < m) :
    0 ≤ normV m v neg ∧ normV m v neg < m := by
  unfold normV
  cases neg <;> simp only [Bool.false_eq_true, if_false, if_true] <;> split_ifs <;> constructor <;> omega

/-- PARTIAL SPECIFICATION OF `invert` (value level): whenever the main loop ends (within the fuel)
with `g = 0` and `f = ±1`, the value returned satisfies `result·x ≡ A (mod M)` — for every odd
modulus `M`, adjuster `A` and argument `x`. -/
theorem invertV_spec (m a x : Nat) (hodd : (m : Int) % 2 = 1)
    (hinv : (2 : Int) ^ 62 ∣ byInv (m % U64) * m - 1) (fuel : Nat) (r : Int)
    (tr : List (Int × Mat × Int × Int × Int × Int))
    (h : invertV m a x fuel = some (some r, tr)) : (m : Int) ∣ r * x - a := by
  unfold invertV at h
  split at h
  · simp at h
  · rename_i f d tr' hl
    have hinv0 : (m : Int) ∣ (0 : Int) * x - (m : Int) * a := ⟨-a, by ring⟩
    have hinv1 : (m : Int) ∣ (a : Int) * x - (x : Int) * a := ⟨0, by ring⟩
    obtain ⟨q, hq⟩ := invertVLoop_inv m _ hodd hinv x a fuel 1 m x 0 a [] f d tr' hl hinv0 hinv1
    split_ifs at h with hf
    · simp at h
    · injection h with h
      injection h with hr _
      injection hr with hr
      by_cases hm1 : f = -1
      · subst hm1
        simp only [decide_true] at hr
        obtain ⟨k, hk⟩ := (normV_mod m d).2
        rw [hr] at hk
        exact ⟨k * x - q, by linear_combination (x : Int) * hk - hq⟩
      · have h1 : f = 1 := by
          by_contra hne
          exact hf ⟨hne, hm1⟩
        subst h1
        simp only [hm1, decide_false] at hr
        obtain ⟨k, hk⟩ := (normV_mod m d).1
        rw [hr] at hk
        exact ⟨k * x + q, by linear_combination (x : Int) * hk + hq⟩

/-- If, in addition, the last `d` lies in `(-2M, M)` (the range documented for `de`), the result
is the canonical representative. -/
theorem invertV_range (m : Nat) (d : Int) (neg : Bool) (hlo : -2 * (m : Int) < d) (hhi : d < m) :
    0 ≤ normV m d neg ∧ normV m d neg < m := normV_range m d neg hlo hhi

end MidnightZK.C10.BY
