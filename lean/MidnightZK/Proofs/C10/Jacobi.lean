import MidnightZK.Model.C10.Jacobi
/-!
The sign bookkeeping of `ff_ext/jacobi.rs`: the sign of the running Jacobi symbol is bit 1 of
the accumulator `t`; each update `t ^= …` flips it exactly under the arithmetic condition of the
corresponding rule of the (modified) Jacobi symbol. Core only.
-/
namespace MidnightZK.C10.Jac

theorem tb1 (x : Nat) : x.testBit 1 = decide (x / 2 % 2 = 1) := by
  rw [Nat.testBit_eq_decide_div_mod_eq]

theorem tb2 (x : Nat) : x.testBit 2 = decide (x / 4 % 2 = 1) := by
  rw [Nat.testBit_eq_decide_div_mod_eq]

/-- Second supplement: bit 1 of `b ^ (b >> 1)` is set iff `b ≡ 3, 5 (mod 8)` (`b` odd), i.e. iff
`(2 / |b|) = -1` — the update `t ^= b ^ (b >> 1)` after one halving. -/
theorem sign_two (b : Nat) (hb : b % 2 = 1) :
    (twoWord b).testBit 1 = true ↔ (b % 8 = 3 ∨ b % 8 = 5) := by
  unfold twoWord
  rw [Nat.testBit_xor, Nat.testBit_shiftRight, tb1, show 1 + 1 = 2 from rfl, tb2]
  by_cases h1 : b / 2 % 2 = 1 <;> by_cases h2 : b / 4 % 2 = 1 <;> simp [h1, h2] <;> omega

/-- A batch of `z` halvings flips the sign iff `(2 / |b|) = -1` and `z` is odd — the update
`t ^= (b ^ (b >> 1)) & (z << 1)`. -/
theorem sign_batch (b z : Nat) :
    (twoWord b &&& (z * 2)).testBit 1 = ((twoWord b).testBit 1 && decide (z % 2 = 1)) := by
  rw [Nat.testBit_and, tb1 (z * 2)]
  congr 2
  have : z * 2 / 2 = z := by omega
  rw [this]

/-- Quadratic reciprocity: bit 1 of `a & b` is set iff `a ≡ b ≡ 3 (mod 4)` (both odd) — the
update `t ^= a & b` at a swap. -/
theorem sign_reciprocity (a b : Nat) (ha : a % 2 = 1) (hb : b % 2 = 1) :
    (a &&& b).testBit 1 = true ↔ (a % 4 = 3 ∧ b % 4 = 3) := by
  rw [Nat.testBit_and, tb1, tb1]
  by_cases h1 : a / 2 % 2 = 1 <;> by_cases h2 : b / 2 % 2 = 1 <;> simp [h1, h2] <;> omega

/-- First supplement: bit 1 of the low chunk of `d` is set iff `d ≡ 3 (mod 4)` (`d` odd), i.e.
iff `(-1 / d) = -1` — the update `t ^= d.0[0]` when `n` is negated. -/
theorem sign_neg (d : Nat) (hd : d % 2 = 1) : d.testBit 1 = true ↔ d % 4 = 3 := by
  rw [tb1]
  by_cases h1 : d / 2 % 2 = 1 <;> simp [h1] <;> omega

/-- The value read off the accumulator: `0` unless the last denominator is `1`, else `-1` iff
bit 1 of `t` is set. -/
theorem signOut_eq (d t : Nat) :
    signOut d t = if d = 1 then (if t.testBit 1 then -1 else 1) else 0 := by
  unfold signOut
  split
  · have h2 : t &&& 2 = t % 4 / 2 * 2 := by
      have e : t &&& 2 = 2 * (t / 2 % 2) := by
        have h1 : (t &&& 2) / 2 = t / 2 % 2 := by
          have := @Nat.and_div_two_pow t 2 1
          simpa using this
        have h0 : (t &&& 2) % 2 = 0 := by
          have := @Nat.and_mod_two_pow t 2 1
          simpa using this
        omega
      rw [e]; omega
    rw [h2, tb1]
    by_cases h : t / 2 % 2 = 1
    · have : t % 4 / 2 = 1 := by omega
      simp [h, this]
    · have : t % 4 / 2 = 0 := by omega
      simp [h, this]
  · rfl

end MidnightZK.C10.Jac
