import MidnightZK.Model.C10.Batch
/-!
Proofs about the batched entry points: folds = sums / products modulo `p` for all lists,
Montgomery's trick = element-wise inversion over any field, closed forms of repeated in-place
operations, and the magnitude discipline of the k256 wrapper. Core Lean only.
-/
namespace MidnightZK.C10

/-! ## Sum / Product -/

theorem sumFold_aux (p : Nat) (l : List Nat) (s : Nat) :
    l.foldl (fun acc a => addMod acc a p) s % p = (s + l.sum) % p := by
  induction l generalizing s with
  | nil => simp
  | cons a t ih =>
    simp only [List.foldl_cons, List.sum_cons]
    rw [ih]
    unfold addMod
    rw [Nat.mod_add_mod, Nat.add_assoc]

theorem foldl_addMod_lt (p : Nat) (hp : 0 < p) (l : List Nat) (s : Nat) (hs : s < p) :
    l.foldl (fun acc a => addMod acc a p) s < p := by
  induction l generalizing s with
  | nil => simpa
  | cons a t ih => exact ih _ (Nat.mod_lt _ hp)

theorem sumFold_eq (p : Nat) (hp : 0 < p) (l : List Nat) : sumFold p l = l.sum % p := by
  have h := sumFold_aux p l 0
  have hlt := foldl_addMod_lt p hp l 0 hp
  unfold sumFold
  rw [← Nat.mod_eq_of_lt hlt, h, Nat.zero_add]

/-- Product of a list of naturals. -/
def natProd : List Nat → Nat
  | [] => 1
  | a :: t => a * natProd t

theorem productFold_aux (p : Nat) (l : List Nat) (s : Nat) :
    l.foldl (fun acc a => mulMod acc a p) s % p = (s * natProd l) % p := by
  induction l generalizing s with
  | nil => simp [natProd]
  | cons a t ih =>
    simp only [List.foldl_cons, natProd]
    rw [ih]
    unfold mulMod
    rw [Nat.mod_mul_mod, Nat.mul_assoc]

theorem foldl_mulMod_lt (p : Nat) (hp : 0 < p) (l : List Nat) (s : Nat) (hs : s < p) :
    l.foldl (fun acc a => mulMod acc a p) s < p := by
  induction l generalizing s with
  | nil => simpa
  | cons a t ih => exact ih _ (Nat.mod_lt _ hp)

theorem productFold_eq (p : Nat) (hp : 0 < p) (l : List Nat) : productFold p l = natProd l % p := by
  have h := productFold_aux p l (1 % p)
  have hlt := foldl_mulMod_lt p hp l (1 % p) (Nat.mod_lt _ hp)
  unfold productFold
  rw [← Nat.mod_eq_of_lt hlt, h, Nat.mod_mul_mod, Nat.one_mul]

/-! ## Montgomery's trick over a field -/

section Field
variable {F : Type} [Lean.Grind.Field F]

/-- Running product that skips zeros (the forward loop). -/
def prodSkipZero (isZero : F → Bool) : F → List F → F
  | acc, [] => acc
  | acc, x :: t => prodSkipZero isZero (if isZero x then acc else acc * x) t

theorem field_mul_ne_zero {a b : F} (ha : a ≠ 0) (hb : b ≠ 0) : a * b ≠ 0 := by
  intro h
  have h1 : a * b * b⁻¹ = 0 := by rw [h]; grind
  have h2 : b * b⁻¹ = 1 := Lean.Grind.Field.mul_inv_cancel hb
  have h3 : a * b * b⁻¹ = a := by
    have : a * b * b⁻¹ = a * (b * b⁻¹) := by grind
    rw [this, h2]; grind
  exact ha (by rw [← h3, h1])

theorem field_trick_out {a x : F} (ha : a ≠ 0) (hx : x ≠ 0) : a * (a * x)⁻¹ = x⁻¹ := by
  have hax := field_mul_ne_zero ha hx
  have h1 : (a * x) * (a * x)⁻¹ = 1 := Lean.Grind.Field.mul_inv_cancel hax
  have h2 : x * x⁻¹ = 1 := Lean.Grind.Field.mul_inv_cancel hx
  generalize (a * x)⁻¹ = u at h1
  generalize x⁻¹ = v at h2
  have : a * u = (a * x * u) * v - a * u * (x * v) + a * u := by grind
  grind

theorem field_trick_back {a x : F} (ha : a ≠ 0) (hx : x ≠ 0) : (a * x)⁻¹ * x = a⁻¹ := by
  have hax := field_mul_ne_zero ha hx
  have h1 : (a * x) * (a * x)⁻¹ = 1 := Lean.Grind.Field.mul_inv_cancel hax
  have h2 : a * a⁻¹ = 1 := Lean.Grind.Field.mul_inv_cancel ha
  generalize (a * x)⁻¹ = u at h1
  generalize a⁻¹ = v at h2
  grind

theorem batchInvGen_field (isZero : F → Bool) (hz : ∀ x, isZero x = true ↔ x = 0) (l : List F)
    (acc : F) (hacc : acc ≠ 0) :
    batchInvGen (· * ·) (·⁻¹) isZero acc l =
      (l.map (fun x => if isZero x then x else x⁻¹), acc⁻¹, (prodSkipZero isZero acc l)⁻¹) := by
  induction l generalizing acc with
  | nil => simp [batchInvGen, prodSkipZero]
  | cons x t ih =>
    unfold batchInvGen
    cases hx : isZero x with
    | true =>
      have := ih acc hacc
      simp only [if_true, prodSkipZero, hx, List.map_cons]
      rw [this]
    | false =>
      have hx0 : x ≠ 0 := by
        intro h
        have := (hz x).2 h
        rw [hx] at this
        exact Bool.false_ne_true this
      have := ih (acc * x) (field_mul_ne_zero hacc hx0)
      simp only [Bool.false_eq_true, if_false, prodSkipZero, hx, List.map_cons]
      rw [this]
      simp only [field_trick_out hacc hx0, field_trick_back hacc hx0]

end Field

/-! ## Square root for `p ≡ 5 (mod 8)` (`curve25519/fp.rs: fn sqrt`) -/

section Sqrt
variable {R : Type} [Lean.Grind.CommRing R]

theorem sqrt58_algebra (a b : R) (hi : (2 * a * b * b) * (2 * a * b * b) = -1) :
    (a * b * (2 * a * b * b - 1)) * (a * b * (2 * a * b * b - 1)) = a := by
  generalize hI : 2 * a * b * b = i at hi
  have h1 : (a * b * (i - 1)) * (a * b * (i - 1)) = a * a * b * b * (i * i - 2 * i + 1) := by grind
  rw [h1, hi, ← hI]
  have h3 : a * a * b * b * (-1 - 2 * (2 * a * b * b) + 1) = -((2 * a * b * b) * (2 * a * b * b)) * a := by grind
  rw [h3, hI, hi]
  grind

end Sqrt

/-! ## Repeated in-place operations -/

/-- `n`-fold application, innermost first (`x ↦ f x` is done before the remaining `n` steps). -/
def iterN (f : Nat → Nat) : Nat → Nat → Nat
  | 0, x => x
  | n + 1, x => iterN f n (f x)

theorem runChain_single (p y : Nat) (c : Char) (f : Nat → Nat)
    (hstep : ∀ x, chainStep p y c x = some (f x)) (n k x : Nat) :
    runChainProg p y [c] n k x = some (iterN f n x) := by
  induction n generalizing k x with
  | zero => simp [runChainProg, iterN]
  | succ n ih =>
    have hk : k % [c].length = 0 := by simp [Nat.mod_one]
    unfold runChainProg
    rw [hk]
    simp only [List.getElem?_cons_zero, hstep]
    rw [ih, iterN]

theorem repeat_add_closed (p y : Nat) (n x : Nat) :
    iterN (fun x => addMod x y p) n x % p = (x + n * y) % p := by
  induction n generalizing x with
  | zero => simp [iterN]
  | succ n ih =>
    rw [iterN, ih]
    simp only [addMod]
    rw [Nat.mod_add_mod, Nat.succ_mul, Nat.add_assoc, Nat.add_comm y]

theorem repeat_mul_closed (p y : Nat) (n x : Nat) :
    iterN (fun x => mulMod x y p) n x % p = (x * y ^ n) % p := by
  induction n generalizing x with
  | zero => simp [iterN]
  | succ n ih =>
    rw [iterN, ih]
    simp only [mulMod]
    rw [Nat.mod_mul_mod, Nat.pow_succ, Nat.mul_assoc, Nat.mul_comm y]

theorem repeat_double_closed (p : Nat) (n x : Nat) :
    iterN (fun x => addMod x x p) n x % p = (x * 2 ^ n) % p := by
  induction n generalizing x with
  | zero => simp [iterN]
  | succ n ih =>
    rw [iterN, ih]
    simp only [addMod]
    rw [Nat.mod_mul_mod, Nat.pow_succ, ← Nat.two_mul, Nat.mul_comm 2 x, Nat.mul_assoc, Nat.mul_comm 2]

theorem repeat_square_closed (p : Nat) (n x : Nat) :
    iterN (fun x => mulMod x x p) n x % p = (x ^ 2 ^ n) % p := by
  induction n generalizing x with
  | zero => simp [iterN]
  | succ n ih =>
    rw [iterN, ih]
    simp only [mulMod]
    rw [← Nat.pow_mod, ← Nat.pow_two, ← Nat.pow_mul, Nat.pow_succ, Nat.mul_comm]

/-! ## Magnitude discipline of the k256 wrapper -/

theorem kFoldNormalising_ok (n : Nat) (acc : KMag) (h : acc.mag ≤ 1) :
    ∃ r, kFoldNormalising n acc = some r ∧ r.mag ≤ 1 := by
  induction n generalizing acc with
  | zero => exact ⟨acc, rfl, h⟩
  | succ n ih =>
    have hadd : acc.mag + 1 ≤ kMaxMagnitude := by unfold kMaxMagnitude; omega
    have : (KBody.normBin "+").run acc ⟨1, false⟩ = some ⟨1, true⟩ := by
      simp [KBody.run, kRunBin, KMag.add, hadd, KMag.normalize]
    unfold kFoldNormalising
    rw [this]
    exact ih ⟨1, true⟩ (Nat.le_refl 1)

theorem kFoldLazy_none_iff (n : Nat) (acc : KMag) (hacc : acc.mag ≤ kMaxMagnitude) :
    kFoldLazy n acc = none ↔ kMaxMagnitude < acc.mag + n := by
  induction n generalizing acc with
  | zero => simp [kFoldLazy]; omega
  | succ n ih =>
    unfold kFoldLazy KMag.add
    by_cases h : acc.mag + 1 ≤ kMaxMagnitude
    · simp only [h, if_true, Option.bind_some]
      rw [ih _ h]
      simp only
      omega
    · simp only [h, if_false, Option.bind_none, true_iff]
      omega

end MidnightZK.C10
