import MidnightZK.Model.C10.Limbs
/-!
The most-significant-first comparison scan of `is_valid` (core only).
-/
namespace MidnightZK.C10

/-- Value of a most-significant-first digit list in radix `B`. -/
def msfVal (B : Nat) : List Nat → Nat
  | [] => 0
  | x :: t => x * B ^ t.length + msfVal B t

theorem msfVal_lt (B : Nat) (l : List Nat) (h : ∀ x ∈ l, x < B) : msfVal B l < B ^ l.length := by
  induction l with
  | nil => simp [msfVal]
  | cons x t ih =>
    have hx : x < B := h x (by simp)
    have ht := ih (fun y hy => h y (by simp [hy]))
    simp only [msfVal, List.length_cons, Nat.pow_succ]
    have : x * B ^ t.length + B ^ t.length ≤ B ^ t.length * B := by
      have : (x + 1) * B ^ t.length ≤ B * B ^ t.length := Nat.mul_le_mul_right _ hx
      rw [Nat.add_mul, Nat.one_mul] at this
      rw [Nat.mul_comm (B ^ t.length) B]
      exact this
    omega

theorem isValidMsf_iff (B : Nat) (a m : List Nat) (hlen : a.length = m.length)
    (ha : ∀ x ∈ a, x < B) (hm : ∀ x ∈ m, x < B) :
    isValidMsf a m = true ↔ msfVal B a < msfVal B m := by
  induction a generalizing m with
  | nil =>
    cases m with
    | nil => simp [isValidMsf, msfVal]
    | cons y t => simp at hlen
  | cons x s ih =>
    cases m with
    | nil => simp at hlen
    | cons y t =>
      have hl : s.length = t.length := by simpa using hlen
      have hs := msfVal_lt B s (fun z hz => ha z (by simp [hz]))
      have ht := msfVal_lt B t (fun z hz => hm z (by simp [hz]))
      have ih' := ih t hl (fun z hz => ha z (by simp [hz])) (fun z hz => hm z (by simp [hz]))
      simp only [isValidMsf, msfVal]
      rw [hl] at hs ⊢
      by_cases hgt : x > y
      · simp only [hgt, if_true]
        have : (y + 1) * B ^ t.length ≤ x * B ^ t.length := Nat.mul_le_mul_right _ hgt
        rw [Nat.add_mul, Nat.one_mul] at this
        constructor
        · intro h; cases h
        · intro h; omega
      · simp only [hgt, if_false]
        by_cases hlt : x < y
        · simp only [hlt, if_true, true_iff]
          have : (x + 1) * B ^ t.length ≤ y * B ^ t.length := Nat.mul_le_mul_right _ hlt
          rw [Nat.add_mul, Nat.one_mul] at this
          omega
        · simp only [hlt, if_false]
          have : x = y := by omega
          subst this
          rw [ih']
          omega

end MidnightZK.C10
