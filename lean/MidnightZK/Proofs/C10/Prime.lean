import MidnightZK.Model.ModArith
import Mathlib.NumberTheory.LucasPrimality
import Mathlib.Tactic.NormNum.Prime
/-!
Lucas primality certificate for the BLS12-381 scalar modulus
`r = 0x73eda753299d7d483339d80809a1d80553bda402fffe5bfeffffffff00000001` with witness 7 and
`r - 1 = 2^32·3·11·19·10177·125527·859267·906349²·2508409·2529403·52437899·254760293²`.
Modular powers are evaluated by the kernel through `powMod`.
-/
namespace MidnightZK.C10

/-- The BLS12-381 scalar modulus as a literal. -/
def blsR : Nat := 0x73eda753299d7d483339d80809a1d80553bda402fffe5bfeffffffff00000001

theorem zmod_pow_eq (r b e : ℕ) (hr : 0 < r) : ((b : ZMod r)) ^ e = ((powMod b e r : ℕ) : ZMod r) := by
  rw [powMod_spec b e r hr, ZMod.natCast_mod, Nat.cast_pow]

theorem zmod_ne_one (r v : ℕ) (hv : v < r) (h1 : 1 < r) (hne : v ≠ 1) : ((v : ℕ) : ZMod r) ≠ 1 := by
  intro h
  have h2 : ((v : ℕ) : ZMod r) = ((1 : ℕ) : ZMod r) := by simpa using h
  rw [ZMod.natCast_eq_natCast_iff'] at h2
  rw [Nat.mod_eq_of_lt hv, Nat.mod_eq_of_lt h1] at h2
  exact hne h2

theorem blsR_factor : blsR - 1 =
    2 ^ 32 * 3 * 11 * 19 * 10177 * 125527 * 859267 * 906349 ^ 2 * 2508409 * 2529403 * 52437899 * 254760293 ^ 2 := by
  decide +kernel

/-- For each prime factor `q` of `r - 1`: `7^((r-1)/q) mod r ≠ 1`, and `7^(r-1) mod r = 1`. -/
theorem blsR_lucas_powers :
    powMod 7 (blsR - 1) blsR = 1 ∧
    ∀ q ∈ [2, 3, 11, 19, 10177, 125527, 859267, 906349, 2508409, 2529403, 52437899, 254760293],
      powMod 7 ((blsR - 1) / q) blsR ≠ 1 ∧ powMod 7 ((blsR - 1) / q) blsR < blsR := by
  decide +kernel

theorem blsR_prime : Nat.Prime blsR := by
  have hr : 0 < blsR := by decide +kernel
  have h1 : 1 < blsR := by decide +kernel
  apply lucas_primality blsR (7 : ZMod blsR)
  · have := zmod_pow_eq blsR 7 (blsR - 1) hr
    rw [blsR_lucas_powers.1] at this
    simpa using this
  · intro q hq hdvd
    have hmem : q ∈ [2, 3, 11, 19, 10177, 125527, 859267, 906349, 2508409, 2529403, 52437899, 254760293] := by
      rw [blsR_factor] at hdvd
      have p2 : Nat.Prime 2 := by norm_num
      have p3 : Nat.Prime 3 := by norm_num
      have p11 : Nat.Prime 11 := by norm_num
      have p19 : Nat.Prime 19 := by norm_num
      have p10177 : Nat.Prime 10177 := by norm_num
      have p125527 : Nat.Prime 125527 := by norm_num
      have p859267 : Nat.Prime 859267 := by norm_num
      have p906349 : Nat.Prime 906349 := by norm_num
      have p2508409 : Nat.Prime 2508409 := by norm_num
      have p2529403 : Nat.Prime 2529403 := by norm_num
      have p52437899 : Nat.Prime 52437899 := by norm_num
      have p254760293 : Nat.Prime 254760293 := by norm_num
      have eqOf : ∀ {p : ℕ}, Nat.Prime p → q ∣ p → q = p := fun hp h =>
        (Nat.prime_dvd_prime_iff_eq hq hp).mp h
      rcases (Nat.Prime.dvd_mul hq).mp hdvd with h | h
      · rcases (Nat.Prime.dvd_mul hq).mp h with h | h
        · rcases (Nat.Prime.dvd_mul hq).mp h with h | h
          · rcases (Nat.Prime.dvd_mul hq).mp h with h | h
            · rcases (Nat.Prime.dvd_mul hq).mp h with h | h
              · rcases (Nat.Prime.dvd_mul hq).mp h with h | h
                · rcases (Nat.Prime.dvd_mul hq).mp h with h | h
                  · rcases (Nat.Prime.dvd_mul hq).mp h with h | h
                    · rcases (Nat.Prime.dvd_mul hq).mp h with h | h
                      · rcases (Nat.Prime.dvd_mul hq).mp h with h | h
                        · rcases (Nat.Prime.dvd_mul hq).mp h with h | h
                          · have := eqOf p2 (hq.dvd_of_dvd_pow h); subst this; simp
                          · have := eqOf p3 h; subst this; simp
                        · have := eqOf p11 h; subst this; simp
                      · have := eqOf p19 h; subst this; simp
                    · have := eqOf p10177 h; subst this; simp
                  · have := eqOf p125527 h; subst this; simp
                · have := eqOf p859267 h; subst this; simp
              · have := eqOf p906349 (hq.dvd_of_dvd_pow h); subst this; simp
            · have := eqOf p2508409 h; subst this; simp
          · have := eqOf p2529403 h; subst this; simp
        · have := eqOf p52437899 h; subst this; simp
      · have := eqOf p254760293 (hq.dvd_of_dvd_pow h); subst this; simp
    obtain ⟨hne, hlt⟩ := blsR_lucas_powers.2 q hmem
    have e := zmod_pow_eq blsR 7 ((blsR - 1) / q) hr
    simp only [Nat.cast_ofNat] at e
    rw [e]
    exact zmod_ne_one blsR _ hlt h1 hne

end MidnightZK.C10
