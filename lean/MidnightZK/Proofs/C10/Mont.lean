import MidnightZK.Proofs.C10.Limbs
/-!
Montgomery reduction and multiplication at limb level (core only: carry chains by `omega`, the
polynomial identity in the radix by `grind` over `Int`).
-/
namespace MidnightZK.C10

/-- `INV` makes the low limb vanish: `r0 + (r0·INV mod 2^64)·m0 ≡ 0 (mod 2^64)`. -/
theorem wmul_inv (m0 inv r0 : Nat) (hinv : m0 * inv % W = W - 1) :
    (r0 + wmul r0 inv * m0) % W = 0 := by
  unfold wmul
  have h1 : (1 + m0 * inv) % W = 0 := by
    simp only [W] at *
    omega
  have e : (r0 + r0 * inv % W * m0) % W = (r0 * (1 + m0 * inv)) % W := by
    rw [Nat.add_mod, Nat.mul_mod (r0 * inv % W) m0, Nat.mod_mod, ← Nat.mul_mod, ← Nat.add_mod]
    congr 1
    rw [Nat.mul_add, Nat.mul_one, Nat.mul_assoc, Nat.mul_comm inv m0]
  rw [e, Nat.mul_mod, h1, Nat.mul_zero, Nat.zero_mod]

theorem wmul_lt (a b : Nat) : wmul a b < W := Nat.mod_lt _ W_pos

/-- One reduction round: the window value times `2^64` equals the previous window plus `k·M`. -/
theorem redStep_spec (p : MontParams) (r0 r1 r2 r3 r4 c2 : Nat) (hm : p.m.wf)
    (h0 : r0 < W) (h1 : r1 < W) (h2 : r2 < W) (h3 : r3 < W) (h4 : r4 < W) (hc2 : c2 ≤ 1)
    (hinv : p.m.l0 * p.inv % W = W - 1) :
    ∃ a1 a2 a3 a4 c, redStep p r0 r1 r2 r3 r4 c2 = (a1, a2, a3, a4, c) ∧
      a1 < W ∧ a2 < W ∧ a3 < W ∧ a4 < W ∧ c ≤ 1 ∧
      (a1 + a2 * W + a3 * W ^ 2 + a4 * W ^ 3 + c * W ^ 4) * W =
        r0 + r1 * W + r2 * W ^ 2 + r3 * W ^ 3 + (r4 + c2) * W ^ 4 + wmul r0 p.inv * p.m.val := by
  obtain ⟨⟨m0, m1, m2, m3⟩, inv⟩ := p
  obtain ⟨hm0, hm1, hm2, hm3⟩ := hm
  simp only [redStep, L4.val] at *
  have hk := wmul_inv m0 inv r0 hinv
  have hkl := wmul_lt r0 inv
  generalize wmul r0 inv = k at *
  obtain ⟨x0, y0, e0, g0, l0, u0⟩ := mac_pair_lt r0 k m0 0 h0 hkl hm0 W_pos
  simp only [e0]
  obtain ⟨x1, y1, e1, g1, l1, u1⟩ := mac_pair_lt r1 k m1 y0 h1 hkl hm1 u0
  simp only [e1]
  obtain ⟨x2, y2, e2, g2, l2, u2⟩ := mac_pair_lt r2 k m2 y1 h2 hkl hm2 u1
  simp only [e2]
  obtain ⟨x3, y3, e3, g3, l3, u3⟩ := mac_pair_lt r3 k m3 y2 h3 hkl hm3 u2
  simp only [e3]
  obtain ⟨x4, y4, e4, g4, l4⟩ := adc_pair r4 c2 y3
  simp only [e4]
  refine ⟨x1, x2, x3, x4, y4, rfl, l1, l2, l3, l4, ?_, ?_⟩
  · simp only [W] at *
    omega
  · have e : k * (m0 + m1 * W + m2 * W ^ 2 + m3 * W ^ 3) =
        k * m0 + k * m1 * W + k * m2 * W ^ 2 + k * m3 * W ^ 3 := by
      simp only [Nat.mul_add, Nat.mul_assoc]
    rw [e]
    simp only [W] at *
    omega

theorem W2_lit : W ^ 2 = 340282366920938463463374607431768211456 := by decide +kernel
theorem W3_lit : W ^ 3 = 6277101735386680763835789423207666416102355444464034512896 := by decide +kernel
theorem W5_lit : W ^ 5 = 2135987035920910082395021706169552114602704522356652769947041607822219725780640550022962086936576 := by decide +kernel
theorem W6_lit : W ^ 6 = 39402006196394479212279040100143613805079739270465446667948293404245721771497210611414266254884915640806627990306816 := by decide +kernel
theorem W7_lit : W ^ 7 = 726838724295606890549323807888004534353641360687318060281490199180639288113397923326191050713763565560762521606266177933534601628614656 := by decide +kernel
theorem W1_lit : W = 18446744073709551616 := by decide +kernel

/-- Chaining four reduction rounds: a polynomial identity in the radix. -/
theorem poly_int (W V4 U3 U2 U1 L r4 r5 r6 r7 P0 P1 P2 P3 : Int)
  (vd : V4 * W = U3 + r7 * W^4 + P3)
  (vc : U3 * W = U2 + r6 * W^4 + P2)
  (vb : U2 * W = U1 + r5 * W^4 + P1)
  (va : U1 * W = L + r4 * W^4 + P0) :
  V4 * W^4 = L + r4 * W^4 + r5 * W^5 + r6 * W^6 + r7 * W^7 + (P0 + P1 * W + P2 * W^2 + P3 * W^3) := by
  have e1 : V4 * W^4 = (V4 * W) * W^3 := by grind
  have e2 : (U3 + r7 * W^4 + P3) * W^3 = (U3 * W) * W^2 + r7 * W^7 + P3 * W^3 := by grind
  have e3 : (U2 + r6 * W^4 + P2) * W^2 = (U2 * W) * W + r6 * W^6 + P2 * W^2 := by grind
  rw [e1, vd, e2, vc, e3, vb]
  have e4 : (U1 + r5 * W ^ 4 + P1) * W = U1 * W + r5 * W^5 + P1 * W := by grind
  rw [e4, va]
  grind
theorem poly_nat (W V4 U3 U2 U1 L r4 r5 r6 r7 P0 P1 P2 P3 : Nat)
  (vd : V4 * W = U3 + r7 * W^4 + P3)
  (vc : U3 * W = U2 + r6 * W^4 + P2)
  (vb : U2 * W = U1 + r5 * W^4 + P1)
  (va : U1 * W = L + r4 * W^4 + P0) :
  V4 * W^4 = L + r4 * W^4 + r5 * W^5 + r6 * W^6 + r7 * W^7 + (P0 + P1 * W + P2 * W^2 + P3 * W^3) := by
  have := poly_int W V4 U3 U2 U1 L r4 r5 r6 r7 P0 P1 P2 P3 (by exact_mod_cast vd) (by exact_mod_cast vc) (by exact_mod_cast vb) (by exact_mod_cast va)
  exact_mod_cast this

/-- Value of eight limbs. -/
def val8 (r0 r1 r2 r3 r4 r5 r6 r7 : Nat) : Nat :=
  r0 + r1 * W + r2 * W ^ 2 + r3 * W ^ 3 + r4 * W ^ 4 + r5 * W ^ 5 + r6 * W ^ 6 + r7 * W ^ 7

/-- The four reduction rounds: `(r4 + r5·W + r6·W² + r7·W³ + carry2·W⁴)·2^256 = T + K·M` for some
`K < 2^256`. For every 512-bit input and every modulus with `INV·m0 ≡ -1 (mod 2^64)`. -/
theorem redRounds_spec (p : MontParams) (r0 r1 r2 r3 r4 r5 r6 r7 : Nat) (hm : p.m.wf)
    (h0 : r0 < W) (h1 : r1 < W) (h2 : r2 < W) (h3 : r3 < W) (h4 : r4 < W) (h5 : r5 < W)
    (h6 : r6 < W) (h7 : r7 < W) (hinv : p.m.l0 * p.inv % W = W - 1) :
    ∃ x4 x5 x6 x7 c K, redRounds p r0 r1 r2 r3 r4 r5 r6 r7 = (x4, x5, x6, x7, c) ∧
      x4 < W ∧ x5 < W ∧ x6 < W ∧ x7 < W ∧ c ≤ 1 ∧ K < W ^ 4 ∧
      (x4 + x5 * W + x6 * W ^ 2 + x7 * W ^ 3 + c * W ^ 4) * W ^ 4 =
        val8 r0 r1 r2 r3 r4 r5 r6 r7 + K * p.m.val := by
  simp only [redRounds, val8]
  obtain ⟨a1, a2, a3, a4, ca, ea, la1, la2, la3, la4, lca, va⟩ :=
    redStep_spec p r0 r1 r2 r3 r4 0 hm h0 h1 h2 h3 h4 (by omega) hinv
  simp only [ea]
  obtain ⟨b2, b3, b4, b5, cb, eb, lb2, lb3, lb4, lb5, lcb, vb⟩ :=
    redStep_spec p a1 a2 a3 a4 r5 ca hm la1 la2 la3 la4 h5 lca hinv
  simp only [eb]
  obtain ⟨c3, c4, c5, c6, cc, ec, lc3, lc4, lc5, lc6, lcc, vc⟩ :=
    redStep_spec p b2 b3 b4 b5 r6 cb hm lb2 lb3 lb4 lb5 h6 lcb hinv
  simp only [ec]
  obtain ⟨d4, d5, d6, d7, cd, ed, ld4, ld5, ld6, ld7, lcd, vd⟩ :=
    redStep_spec p c3 c4 c5 c6 r7 cc hm lc3 lc4 lc5 lc6 h7 lcc hinv
  simp only [ed]
  have hk0 := wmul_lt r0 p.inv
  have hk1 := wmul_lt a1 p.inv
  have hk2 := wmul_lt b2 p.inv
  have hk3 := wmul_lt c3 p.inv
  generalize wmul r0 p.inv = k0 at *
  generalize wmul a1 p.inv = k1 at *
  generalize wmul b2 p.inv = k2 at *
  generalize wmul c3 p.inv = k3 at *
  refine ⟨d4, d5, d6, d7, cd, k0 + k1 * W + k2 * W ^ 2 + k3 * W ^ 3, rfl, ld4, ld5, ld6, ld7, lcd, ?_, ?_⟩
  · simp only [W] at *
    omega
  · simp only [Nat.add_zero] at va
    have vb' : (b2 + b3 * W + b4 * W ^ 2 + b5 * W ^ 3 + cb * W ^ 4) * W =
        (a1 + a2 * W + a3 * W ^ 2 + a4 * W ^ 3 + ca * W ^ 4) + r5 * W ^ 4 + k1 * p.m.val := by
      rw [vb, Nat.add_mul]; omega
    have vc' : (c3 + c4 * W + c5 * W ^ 2 + c6 * W ^ 3 + cc * W ^ 4) * W =
        (b2 + b3 * W + b4 * W ^ 2 + b5 * W ^ 3 + cb * W ^ 4) + r6 * W ^ 4 + k2 * p.m.val := by
      rw [vc, Nat.add_mul]; omega
    have vd' : (d4 + d5 * W + d6 * W ^ 2 + d7 * W ^ 3 + cd * W ^ 4) * W =
        (c3 + c4 * W + c5 * W ^ 2 + c6 * W ^ 3 + cc * W ^ 4) + r7 * W ^ 4 + k3 * p.m.val := by
      rw [vd, Nat.add_mul]; omega
    have h := poly_nat W _ _ _ _ (r0 + r1 * W + r2 * W ^ 2 + r3 * W ^ 3) r4 r5 r6 r7 _ _ _ _ vd' vc' vb' va
    rw [h]
    have e : (k0 + k1 * W + k2 * W ^ 2 + k3 * W ^ 3) * p.m.val =
        k0 * p.m.val + k1 * p.m.val * W + k2 * p.m.val * W ^ 2 + k3 * p.m.val * W ^ 3 := by
      simp only [Nat.add_mul, Nat.mul_assoc, Nat.mul_comm, Nat.mul_left_comm]
    rw [e]

theorem carry_zero (X c M : Nat) (h : X + c * W ^ 4 < 2 * M) (hM : 2 * M ≤ W ^ 4) : c = 0 := by
  simp only [W4_eq] at *
  omega

/-- Final conditional subtraction of a Montgomery reduction, abstractly. -/
theorem mont_final (X c M T K res W4 : Nat) (hc : c = 0) (hv : (X + c * W4) * W4 = T + K * M)
    (hX : X + c * W4 < 2 * M)
    (hge : M ≤ X → res = X - M) (hlt : X < M → res = (X + W4 - M + M) % W4) (h2m : 2 * M ≤ W4) :
    res < M ∧ res * W4 % M = T % M := by
  subst hc
  simp only [Nat.zero_mul, Nat.add_zero] at hv hX
  rcases Nat.lt_or_ge X M with h | h
  · have e1 : X + W4 - M + M = X + W4 := Nat.sub_add_cancel (by omega)
    have e2 : (X + W4 - M + M) % W4 = X := by
      rw [e1, Nat.add_mod_right, Nat.mod_eq_of_lt (by omega)]
    rw [hlt h, e2]
    exact ⟨h, by rw [hv, Nat.add_mul_mod_self_right]⟩
  · rw [hge h]
    refine ⟨by omega, ?_⟩
    have e2 : (X - M) * W4 + M * W4 = T + K * M := by
      rw [← Nat.add_mul, Nat.sub_add_cancel h, hv]
    have e3 : ((X - M) * W4 + M * W4) % M = (X - M) * W4 % M := Nat.add_mul_mod_self_left _ _ _
    rw [← e3, e2, Nat.add_mul_mod_self_right]

/-- `montgomery_reduce` (`jubjub/fr.rs`, `bls12_381/fq.rs`): for a modulus `M < 2^255` with
`INV·m0 ≡ -1 (mod 2^64)` and every input `T < M·2^256`, the result is `< M` and is the unique
residue `x` with `x·2^256 ≡ T (mod M)`, i.e. `T·R⁻¹ mod M`. -/
theorem montReduce_core (p : MontParams) (r0 r1 r2 r3 r4 r5 r6 r7 : Nat) (hm : p.m.wf)
    (h0 : r0 < W) (h1 : r1 < W) (h2 : r2 < W) (h3 : r3 < W) (h4 : r4 < W) (h5 : r5 < W)
    (h6 : r6 < W) (h7 : r7 < W) (hinv : p.m.l0 * p.inv % W = W - 1)
    (h2m : 2 * p.m.val ≤ W ^ 4) (hT : val8 r0 r1 r2 r3 r4 r5 r6 r7 < p.m.val * W ^ 4) :
    (montReduce p r0 r1 r2 r3 r4 r5 r6 r7).wf ∧ (montReduce p r0 r1 r2 r3 r4 r5 r6 r7).val < p.m.val ∧
    (montReduce p r0 r1 r2 r3 r4 r5 r6 r7).val * W ^ 4 % p.m.val =
      val8 r0 r1 r2 r3 r4 r5 r6 r7 % p.m.val := by
  obtain ⟨x4, x5, x6, x7, c, K, e, l4, l5, l6, l7, lc, hK, hv⟩ :=
    redRounds_spec p r0 r1 r2 r3 r4 r5 r6 r7 hm h0 h1 h2 h3 h4 h5 h6 h7 hinv
  simp only [montReduce, e]
  generalize val8 r0 r1 r2 r3 r4 r5 r6 r7 = T at *
  have hMpos : 0 < p.m.val := by
    rcases Nat.eq_zero_or_pos p.m.val with h | h
    · rw [h, Nat.zero_mul] at hT; omega
    · exact h
  have hKM : K * p.m.val < p.m.val * W ^ 4 := by
    rw [Nat.mul_comm p.m.val]
    exact Nat.mul_lt_mul_of_pos_right hK hMpos
  have hX2 : (x4 + x5 * W + x6 * W ^ 2 + x7 * W ^ 3 + c * W ^ 4) * W ^ 4 < (2 * p.m.val) * W ^ 4 := by
    rw [hv, Nat.two_mul, Nat.add_mul]
    exact Nat.add_lt_add hT hKM
  have hX : x4 + x5 * W + x6 * W ^ 2 + x7 * W ^ 3 + c * W ^ 4 < 2 * p.m.val :=
    Nat.lt_of_mul_lt_mul_right hX2
  have hc : c = 0 := carry_zero _ c _ hX h2m
  obtain ⟨hw, hge, hlt⟩ := subL_spec p.m ⟨x4, x5, x6, x7⟩ p.m hm ⟨l4, l5, l6, l7⟩ hm
  exact ⟨hw, mont_final (x4 + x5 * W + x6 * W ^ 2 + x7 * W ^ 3) c _ _ _ _ _ hc hv hX hge hlt h2m⟩

theorem schoolbook_poly (a0 a1 a2 a3 b0 b1 b2 b3 W : Int) :
    (a0 + a1 * W + a2 * W ^ 2 + a3 * W ^ 3) * (b0 + b1 * W + b2 * W ^ 2 + b3 * W ^ 3) =
      a0 * b0 + (a0 * b1 + a1 * b0) * W + (a0 * b2 + a1 * b1 + a2 * b0) * W ^ 2 +
      (a0 * b3 + a1 * b2 + a2 * b1 + a3 * b0) * W ^ 3 + (a1 * b3 + a2 * b2 + a3 * b1) * W ^ 4 +
      (a2 * b3 + a3 * b2) * W ^ 5 + a3 * b3 * W ^ 6 := by
  grind

/-- The 4×4 schoolbook product: the eight limbs are `u64`s and denote `a·b` exactly. -/
theorem schoolbook_spec (a b : L4) (ha : a.wf) (hb : b.wf) :
    ∃ r0 r1 r2 r3 r4 r5 r6 r7, schoolbook a b = (r0, r1, r2, r3, r4, r5, r6, r7) ∧
      r0 < W ∧ r1 < W ∧ r2 < W ∧ r3 < W ∧ r4 < W ∧ r5 < W ∧ r6 < W ∧ r7 < W ∧
      val8 r0 r1 r2 r3 r4 r5 r6 r7 = a.val * b.val := by
  obtain ⟨a0, a1, a2, a3⟩ := a
  obtain ⟨b0, b1, b2, b3⟩ := b
  obtain ⟨ha0, ha1, ha2, ha3⟩ := ha
  obtain ⟨hb0, hb1, hb2, hb3⟩ := hb
  simp only [schoolbook, L4.val, val8] at *
  obtain ⟨p0, q0, e0, g0, lp0, lq0⟩ := mac_pair_lt 0 a0 b0 0 W_pos ha0 hb0 W_pos
  simp only [e0]
  obtain ⟨p1, q1, e1, g1, lp1, lq1⟩ := mac_pair_lt 0 a0 b1 q0 W_pos ha0 hb1 lq0
  simp only [e1]
  obtain ⟨p2, q2, e2, g2, lp2, lq2⟩ := mac_pair_lt 0 a0 b2 q1 W_pos ha0 hb2 lq1
  simp only [e2]
  obtain ⟨p3, p4, e3, g3, lp3, lp4⟩ := mac_pair_lt 0 a0 b3 q2 W_pos ha0 hb3 lq2
  simp only [e3]
  obtain ⟨s1, t0, e4, g4, ls1, lt0⟩ := mac_pair_lt p1 a1 b0 0 lp1 ha1 hb0 W_pos
  simp only [e4]
  obtain ⟨s2, t1, e5, g5, ls2, lt1⟩ := mac_pair_lt p2 a1 b1 t0 lp2 ha1 hb1 lt0
  simp only [e5]
  obtain ⟨s3, t2, e6, g6, ls3, lt2⟩ := mac_pair_lt p3 a1 b2 t1 lp3 ha1 hb2 lt1
  simp only [e6]
  obtain ⟨s4, s5, e7, g7, ls4, ls5⟩ := mac_pair_lt p4 a1 b3 t2 lp4 ha1 hb3 lt2
  simp only [e7]
  obtain ⟨u2, v0, e8, g8, lu2, lv0⟩ := mac_pair_lt s2 a2 b0 0 ls2 ha2 hb0 W_pos
  simp only [e8]
  obtain ⟨u3, v1, e9, g9, lu3, lv1⟩ := mac_pair_lt s3 a2 b1 v0 ls3 ha2 hb1 lv0
  simp only [e9]
  obtain ⟨u4, v2, e10, g10, lu4, lv2⟩ := mac_pair_lt s4 a2 b2 v1 ls4 ha2 hb2 lv1
  simp only [e10]
  obtain ⟨u5, u6, e11, g11, lu5, lu6⟩ := mac_pair_lt s5 a2 b3 v2 ls5 ha2 hb3 lv2
  simp only [e11]
  obtain ⟨w3, z0, e12, g12, lw3, lz0⟩ := mac_pair_lt u3 a3 b0 0 lu3 ha3 hb0 W_pos
  simp only [e12]
  obtain ⟨w4, z1, e13, g13, lw4, lz1⟩ := mac_pair_lt u4 a3 b1 z0 lu4 ha3 hb1 lz0
  simp only [e13]
  obtain ⟨w5, z2, e14, g14, lw5, lz2⟩ := mac_pair_lt u5 a3 b2 z1 lu5 ha3 hb2 lz1
  simp only [e14]
  obtain ⟨w6, w7, e15, g15, lw6, lw7⟩ := mac_pair_lt u6 a3 b3 z2 lu6 ha3 hb3 lz2
  simp only [e15]
  refine ⟨p0, s1, u2, w3, w4, w5, w6, w7, rfl, lp0, ls1, lu2, lw3, lw4, lw5, lw6, lw7, ?_⟩
  have e : (a0 + a1 * W + a2 * W ^ 2 + a3 * W ^ 3) * (b0 + b1 * W + b2 * W ^ 2 + b3 * W ^ 3) =
      a0 * b0 + (a0 * b1 + a1 * b0) * W + (a0 * b2 + a1 * b1 + a2 * b0) * W ^ 2 +
      (a0 * b3 + a1 * b2 + a2 * b1 + a3 * b0) * W ^ 3 + (a1 * b3 + a2 * b2 + a3 * b1) * W ^ 4 +
      (a2 * b3 + a3 * b2) * W ^ 5 + a3 * b3 * W ^ 6 := by
    have := schoolbook_poly (a0 : Int) a1 a2 a3 b0 b1 b2 b3 W
    exact_mod_cast this
  rw [e]
  simp only [W2_lit, W3_lit, W4_eq, W5_lit, W6_lit, W7_lit] at *
  simp only [W1_lit] at *
  omega

end MidnightZK.C10
