import MidnightZK.Proofs.C10.Limbs
import Mathlib.Tactic.LinearCombination
/-!
Montgomery reduction and multiplication at limb level (carry chains by `omega`; the polynomial
identities in the radix `W` by Mathlib's `linear_combination`).
-/
namespace MidnightZK.C10

/-- `INV` makes the low limb vanish: `r0 + (r0·INV mod 2^64)·m0 ≡ 0 (mod 2^64)`. -/
theorem wmul_inv (m0 inv r0 : Nat) (hinv : m0 * inv % W = W - 1) :
    (r0 + wmul r0 inv * m0) % W = 0 := by
  unfold wmul
  have h1 : (1 + m0 * inv) % W = 0 := by
    simp only [W] at *
    omega
  have e : (r0 + r0 * inv % W * m0) % W = (r0 * (1 + m0 * inv)) % W := by
    rw [Nat.add_mod, Nat.mul_mod (r0 * inv % W) m0, Nat.mod_mod, ← Nat.mul_mod, ← Nat.add_mod]
    congr 1
    rw [Nat.mul_add, Nat.mul_one, Nat.mul_assoc, Nat.mul_comm inv m0]
  rw [e, Nat.mul_mod, h1, Nat.mul_zero, Nat.zero_mod]

theorem wmul_lt (a b : Nat) : wmul a b < W := Nat.mod_lt _ W_pos

/-- One reduction round: the window value times `2^64` equals the previous window plus `k·M`. -/
theorem redStep_spec (p : MontParams) (r0 r1 r2 r3 r4 c2 : Nat) (hm : p.m.wf)
    (h0 : r0 < W) (h1 : r1 < W) (h2 : r2 < W) (h3 : r3 < W) (h4 : r4 < W) (hc2 : c2 ≤ 1)
    (hinv : p.m.l0 * p.inv % W = W - 1) :
    ∃ a1 a2 a3 a4 c, redStep p r0 r1 r2 r3 r4 c2 = (a1, a2, a3, a4, c) ∧
      a1 < W ∧ a2 < W ∧ a3 < W ∧ a4 < W ∧ c ≤ 1 ∧
      (a1 + a2 * W + a3 * W ^ 2 + a4 * W ^ 3 + c * W ^ 4) * W =
        r0 + r1 * W + r2 * W ^ 2 + r3 * W ^ 3 + (r4 + c2) * W ^ 4 + wmul r0 p.inv * p.m.val := by
  obtain ⟨⟨m0, m1, m2, m3⟩, inv⟩ := p
  obtain ⟨hm0, hm1, hm2, hm3⟩ := hm
  simp only [redStep, L4.val] at *
  have hk := wmul_inv m0 inv r0 hinv
  have hkl := wmul_lt r0 inv
  generalize wmul r0 inv = k at *
  obtain ⟨x0, y0, e0, g0, l0, u0⟩ := mac_pair_lt r0 k m0 0 h0 hkl hm0 W_pos
  simp only [e0]
  obtain ⟨x1, y1, e1, g1, l1, u1⟩ := mac_pair_lt r1 k m1 y0 h1 hkl hm1 u0
  simp only [e1]
  obtain ⟨x2, y2, e2, g2, l2, u2⟩ := mac_pair_lt r2 k m2 y1 h2 hkl hm2 u1
  simp only [e2]
  obtain ⟨x3, y3, e3, g3, l3, u3⟩ := mac_pair_lt r3 k m3 y2 h3 hkl hm3 u2
  simp only [e3]
  obtain ⟨x4, y4, e4, g4, l4⟩ := adc_pair r4 c2 y3
  simp only [e4]
  refine ⟨x1, x2, x3, x4, y4, rfl, l1, l2, l3, l4, ?_, ?_⟩
  · simp only [W] at *
    omega
  · have e : k * (m0 + m1 * W + m2 * W ^ 2 + m3 * W ^ 3) =
        k * m0 + k * m1 * W + k * m2 * W ^ 2 + k * m3 * W ^ 3 := by
      simp only [Nat.mul_add, Nat.mul_assoc]
    rw [e]
    simp only [W] at *
    omega

theorem W2_lit : W ^ 2 = 340282366920938463463374607431768211456 := by decide +kernel
theorem W3_lit : W ^ 3 = 6277101735386680763835789423207666416102355444464034512896 := by decide +kernel
theorem W5_lit : W ^ 5 = 2135987035920910082395021706169552114602704522356652769947041607822219725780640550022962086936576 := by decide +kernel
theorem W6_lit : W ^ 6 = 39402006196394479212279040100143613805079739270465446667948293404245721771497210611414266254884915640806627990306816 := by decide +kernel
theorem W7_lit : W ^ 7 = 726838724295606890549323807888004534353641360687318060281490199180639288113397923326191050713763565560762521606266177933534601628614656 := by decide +kernel
theorem W1_lit : W = 18446744073709551616 := by decide +kernel

/-- Value of eight limbs. -/
def val8 (r0 r1 r2 r3 r4 r5 r6 r7 : Nat) : Nat :=
  r0 + r1 * W + r2 * W ^ 2 + r3 * W ^ 3 + r4 * W ^ 4 + r5 * W ^ 5 + r6 * W ^ 6 + r7 * W ^ 7

/-- The four reduction rounds: `(r4 + r5·W + r6·W² + r7·W³ + carry2·W⁴)·2^256 = T + K·M` for some
`K < 2^256`. For every 512-bit input and every modulus with `INV·m0 ≡ -1 (mod 2^64)`. -/
theorem redRounds_spec (p : MontParams) (r0 r1 r2 r3 r4 r5 r6 r7 : Nat) (hm : p.m.wf)
    (h0 : r0 < W) (h1 : r1 < W) (h2 : r2 < W) (h3 : r3 < W) (h4 : r4 < W) (h5 : r5 < W)
    (h6 : r6 < W) (h7 : r7 < W) (hinv : p.m.l0 * p.inv % W = W - 1) :
    ∃ x4 x5 x6 x7 c K, redRounds p r0 r1 r2 r3 r4 r5 r6 r7 = (x4, x5, x6, x7, c) ∧
      x4 < W ∧ x5 < W ∧ x6 < W ∧ x7 < W ∧ c ≤ 1 ∧ K < W ^ 4 ∧
      (x4 + x5 * W + x6 * W ^ 2 + x7 * W ^ 3 + c * W ^ 4) * W ^ 4 =
        val8 r0 r1 r2 r3 r4 r5 r6 r7 + K * p.m.val := by
  simp only [redRounds, val8]
  obtain ⟨a1, a2, a3, a4, ca, ea, la1, la2, la3, la4, lca, va⟩ :=
    redStep_spec p r0 r1 r2 r3 r4 0 hm h0 h1 h2 h3 h4 (by omega) hinv
  simp only [ea]
  obtain ⟨b2, b3, b4, b5, cb, eb, lb2, lb3, lb4, lb5, lcb, vb⟩ :=
    redStep_spec p a1 a2 a3 a4 r5 ca hm la1 la2 la3 la4 h5 lca hinv
  simp only [eb]
  obtain ⟨c3, c4, c5, c6, cc, ec, lc3, lc4, lc5, lc6, lcc, vc⟩ :=
    redStep_spec p b2 b3 b4 b5 r6 cb hm lb2 lb3 lb4 lb5 h6 lcb hinv
  simp only [ec]
  obtain ⟨d4, d5, d6, d7, cd, ed, ld4, ld5, ld6, ld7, lcd, vd⟩ :=
    redStep_spec p c3 c4 c5 c6 r7 cc hm lc3 lc4 lc5 lc6 h7 lcc hinv
  simp only [ed]
  have hk0 := wmul_lt r0 p.inv
  have hk1 := wmul_lt a1 p.inv
  have hk2 := wmul_lt b2 p.inv
  have hk3 := wmul_lt c3 p.inv
  generalize wmul r0 p.inv = k0 at *
  generalize wmul a1 p.inv = k1 at *
  generalize wmul b2 p.inv = k2 at *
  generalize wmul c3 p.inv = k3 at *
  refine ⟨d4, d5, d6, d7, cd, k0 + k1 * W + k2 * W ^ 2 + k3 * W ^ 3, rfl, ld4, ld5, ld6, ld7, lcd, ?_, ?_⟩
  · simp only [W] at *
    omega
  · linear_combination (W ^ 3) * vd + W ^ 2 * vc + W * vb + va

end MidnightZK.C10
