import MidnightZK.Proofs.C10.Limbs
/-!
Montgomery reduction and multiplication at limb level (core only: carry chains by `omega`, the
polynomial identity in the radix by `grind` over `Int`).
-/
namespace MidnightZK.C10

/-- `INV` makes the low limb vanish: `r0 + (r0·INV mod 2^64)·m0 ≡ 0 (mod 2^64)`. -/
theorem wmul_inv (m0 inv r0 : Nat) (hinv : m0 * inv % W = W - 1) :
    (r0 + wmul r0 inv * m0) % W = 0 := by
  unfold wmul
  have h1 : (1 + m0 * inv) % W = 0 := by
    simp only [W] at *
    omega
  have e : (r0 + r0 * inv % W * m0) % W = (r0 * (1 + m0 * inv)) % W := by
    rw [Nat.add_mod, Nat.mul_mod (r0 * inv % W) m0, Nat.mod_mod, ← Nat.mul_mod, ← Nat.add_mod]
    congr 1
    rw [Nat.mul_add, Nat.mul_one, Nat.mul_assoc, Nat.mul_comm inv m0]
  rw [e, Nat.mul_mod, h1, Nat.mul_zero, Nat.zero_mod]

theorem wmul_lt (a b : Nat) : wmul a b < W := Nat.mod_lt _ W_pos

/-- One reduction round: the window value times `2^64` equals the previous window plus `k·M`. -/
theorem redStep_spec (p : MontParams) (r0 r1 r2 r3 r4 c2 : Nat) (hm : p.m.wf)
    (h0 : r0 < W) (h1 : r1 < W) (h2 : r2 < W) (h3 : r3 < W) (h4 : r4 < W) (hc2 : c2 ≤ 1)
    (hinv : p.m.l0 * p.inv % W = W - 1) :
    ∃ a1 a2 a3 a4 c, redStep p r0 r1 r2 r3 r4 c2 = (a1, a2, a3, a4, c) ∧
      a1 < W ∧ a2 < W ∧ a3 < W ∧ a4 < W ∧ c ≤ 1 ∧
      (a1 + a2 * W + a3 * W ^ 2 + a4 * W ^ 3 + c * W ^ 4) * W =
        r0 + r1 * W + r2 * W ^ 2 + r3 * W ^ 3 + (r4 + c2) * W ^ 4 + wmul r0 p.inv * p.m.val := by
  obtain ⟨⟨m0, m1, m2, m3⟩, inv⟩ := p
  obtain ⟨hm0, hm1, hm2, hm3⟩ := hm
  simp only [redStep, L4.val] at *
  have hk := wmul_inv m0 inv r0 hinv
  have hkl := wmul_lt r0 inv
  generalize wmul r0 inv = k at *
  obtain ⟨x0, y0, e0, g0, l0, u0⟩ := mac_pair_lt r0 k m0 0 h0 hkl hm0 W_pos
  simp only [e0]
  obtain ⟨x1, y1, e1, g1, l1, u1⟩ := mac_pair_lt r1 k m1 y0 h1 hkl hm1 u0
  simp only [e1]
  obtain ⟨x2, y2, e2, g2, l2, u2⟩ := mac_pair_lt r2 k m2 y1 h2 hkl hm2 u1
  simp only [e2]
  obtain ⟨x3, y3, e3, g3, l3, u3⟩ := mac_pair_lt r3 k m3 y2 h3 hkl hm3 u2
  simp only [e3]
  obtain ⟨x4, y4, e4, g4, l4⟩ := adc_pair r4 c2 y3
  simp only [e4]
  refine ⟨x1, x2, x3, x4, y4, rfl, l1, l2, l3, l4, ?_, ?_⟩
  · simp only [W] at *
    omega
  · have e : k * (m0 + m1 * W + m2 * W ^ 2 + m3 * W ^ 3) =
        k * m0 + k * m1 * W + k * m2 * W ^ 2 + k * m3 * W ^ 3 := by
      simp only [Nat.mul_add, Nat.mul_assoc]
    rw [e]
    simp only [W] at *
    omega

theorem W2_lit : W ^ 2 = 340282366920938463463374607431768211456 := by decide +kernel
theorem W3_lit : W ^ 3 = 6277101735386680763835789423207666416102355444464034512896 := by decide +kernel
theorem W5_lit : W ^ 5 = 2135987035920910082395021706169552114602704522356652769947041607822219725780640550022962086936576 := by decide +kernel
theorem W6_lit : W ^ 6 = 39402006196394479212279040100143613805079739270465446667948293404245721771497210611414266254884915640806627990306816 := by decide +kernel
theorem W7_lit : W ^ 7 = 726838724295606890549323807888004534353641360687318060281490199180639288113397923326191050713763565560762521606266177933534601628614656 := by decide +kernel
theorem W1_lit : W = 18446744073709551616 := by decide +kernel

/-- Chaining four reduction rounds: a polynomial identity in the radix. -/
theorem poly_int (W V4 U3 U2 U1 L r4 r5 r6 r7 P0 P1 P2 P3 : Int)
  (vd : V4 * W = U3 + r7 * W^4 + P3)
  (vc : U3 * W = U2 + r6 * W^4 + P2)
  (vb : U2 * W = U1 + r5 * W^4 + P1)
  (va : U1 * W = L + r4 * W^4 + P0) :
  V4 * W^4 = L + r4 * W^4 + r5 * W^5 + r6 * W^6 + r7 * W^7 + (P0 + P1 * W + P2 * W^2 + P3 * W^3) := by
  have e1 : V4 * W^4 = (V4 * W) * W^3 := by grind
  have e2 : (U3 + r7 * W^4 + P3) * W^3 = (U3 * W) * W^2 + r7 * W^7 + P3 * W^3 := by grind
  have e3 : (U2 + r6 * W^4 + P2) * W^2 = (U2 * W) * W + r6 * W^6 + P2 * W^2 := by grind
  rw [e1, vd, e2, vc, e3, vb]
  have e4 : (U1 + r5 * W ^ 4 + P1) * W = U1 * W + r5 * W^5 + P1 * W := by grind
  rw [e4, va]
  grind
theorem poly_nat (W V4 U3 U2 U1 L r4 r5 r6 r7 P0 P1 P2 P3 : Nat)
  (vd : V4 * W = U3 + r7 * W^4 + P3)
  (vc : U3 * W = U2 + r6 * W^4 + P2)
  (vb : U2 * W = U1 + r5 * W^4 + P1)
  (va : U1 * W = L + r4 * W^4 + P0) :
  V4 * W^4 = L + r4 * W^4 + r5 * W^5 + r6 * W^6 + r7 * W^7 + (P0 + P1 * W + P2 * W^2 + P3 * W^3) := by
  have := poly_int W V4 U3 U2 U1 L r4 r5 r6 r7 P0 P1 P2 P3 (by exact_mod_cast vd) (by exact_mod_cast vc) (by exact_mod_cast vb) (by exact_mod_cast va)
  exact_mod_cast this

/-- Value of eight limbs. -/
def val8 (r0 r1 r2 r3 r4 r5 r6 r7 : Nat) : Nat :=
  r0 + r1 * W + r2 * W ^ 2 + r3 * W ^ 3 + r4 * W ^ 4 + r5 * W ^ 5 + r6 * W ^ 6 + r7 * W ^ 7

/-- The four reduction rounds: `(r4 + r5·W + r6·W² + r7·W³ + carry2·W⁴)·2^256 = T + K·M` for some
`K < 2^256`. For every 512-bit input and every modulus with `INV·m0 ≡ -1 (mod 2^64)`. -/
theorem redRounds_spec (p : MontParams) (r0 r1 r2 r3 r4 r5 r6 r7 : Nat) (hm : p.m.wf)
    (h0 : r0 < W) (h1 : r1 < W) (h2 : r2 < W) (h3 : r3 < W) (h4 : r4 < W) (h5 : r5 < W)
    (h6 : r6 < W) (h7 : r7 < W) (hinv : p.m.l0 * p.inv % W = W - 1) :
    ∃ x4 x5 x6 x7 c K, redRounds p r0 r1 r2 r3 r4 r5 r6 r7 = (x4, x5, x6, x7, c) ∧
      x4 < W ∧ x5 < W ∧ x6 < W ∧ x7 < W ∧ c ≤ 1 ∧ K < W ^ 4 ∧
      (x4 + x5 * W + x6 * W ^ 2 + x7 * W ^ 3 + c * W ^ 4) * W ^ 4 =
        val8 r0 r1 r2 r3 r4 r5 r6 r7 + K * p.m.val := by
  simp only [redRounds, val8]
  obtain ⟨a1, a2, a3, a4, ca, ea, la1, la2, la3, la4, lca, va⟩ :=
    redStep_spec p r0 r1 r2 r3 r4 0 hm h0 h1 h2 h3 h4 (by omega) hinv
  simp only [ea]
  obtain ⟨b2, b3, b4, b5, cb, eb, lb2, lb3, lb4, lb5, lcb, vb⟩ :=
    redStep_spec p a1 a2 a3 a4 r5 ca hm la1 la2 la3 la4 h5 lca hinv
  simp only [eb]
  obtain ⟨c3, c4, c5, c6, cc, ec, lc3, lc4, lc5, lc6, lcc, vc⟩ :=
    redStep_spec p b2 b3 b4 b5 r6 cb hm lb2 lb3 lb4 lb5 h6 lcb hinv
  simp only [ec]
  obtain ⟨d4, d5, d6, d7, cd, ed, ld4, ld5, ld6, ld7, lcd, vd⟩ :=
    redStep_spec p c3 c4 c5 c6 r7 cc hm lc3 lc4 lc5 lc6 h7 lcc hinv
  simp only [ed]
  have hk0 := wmul_lt r0 p.inv
  have hk1 := wmul_lt a1 p.inv
  have hk2 := wmul_lt b2 p.inv
  have hk3 := wmul_lt c3 p.inv
  generalize wmul r0 p.inv = k0 at *
  generalize wmul a1 p.inv = k1 at *
  generalize wmul b2 p.inv = k2 at *
  generalize wmul c3 p.inv = k3 at *
  refine ⟨d4, d5, d6, d7, cd, k0 + k1 * W + k2 * W ^ 2 + k3 * W ^ 3, rfl, ld4, ld5, ld6, ld7, lcd, ?_, ?_⟩
  · simp only [W] at *
    omega
  · simp only [Nat.add_zero] at va
    have vb' : (b2 + b3 * W + b4 * W ^ 2 + b5 * W ^ 3 + cb * W ^ 4) * W =
        (a1 + a2 * W + a3 * W ^ 2 + a4 * W ^ 3 + ca * W ^ 4) + r5 * W ^ 4 + k1 * p.m.val := by
      rw [vb, Nat.add_mul]; omega
    have vc' : (c3 + c4 * W + c5 * W ^ 2 + c6 * W ^ 3 + cc * W ^ 4) * W =
        (b2 + b3 * W + b4 * W ^ 2 + b5 * W ^ 3 + cb * W ^ 4) + r6 * W ^ 4 + k2 * p.m.val := by
      rw [vc, Nat.add_mul]; omega
    have vd' : (d4 + d5 * W + d6 * W ^ 2 + d7 * W ^ 3 + cd * W ^ 4) * W =
        (c3 + c4 * W + c5 * W ^ 2 + c6 * W ^ 3 + cc * W ^ 4) + r7 * W ^ 4 + k3 * p.m.val := by
      rw [vd, Nat.add_mul]; omega
    have h := poly_nat W _ _ _ _ (r0 + r1 * W + r2 * W ^ 2 + r3 * W ^ 3) r4 r5 r6 r7 _ _ _ _ vd' vc' vb' va
    rw [h]
    have e : (k0 + k1 * W + k2 * W ^ 2 + k3 * W ^ 3) * p.m.val =
        k0 * p.m.val + k1 * p.m.val * W + k2 * p.m.val * W ^ 2 + k3 * p.m.val * W ^ 3 := by
      simp only [Nat.add_mul, Nat.mul_assoc, Nat.mul_comm, Nat.mul_left_comm]
    rw [e]

theorem carry_zero (X c M : Nat) (h : X + c * W ^ 4 < 2 * M) (hM : 2 * M ≤ W ^ 4) : c = 0 := by
  simp only [W4_eq] at *
  omega

/-- Final conditional subtraction of a Montgomery reduction, abstractly. -/
theorem mont_final (X c M T K res W4 : Nat) (hc : c = 0) (hv : (X + c * W4) * W4 = T + K * M)
    (hX : X + c * W4 < 2 * M)
    (hge : M ≤ X → res = X - M) (hlt : X < M → res = (X + W4 - M + M) % W4) (h2m : 2 * M ≤ W4) :
    res < M ∧ res * W4 % M = T % M := by
  subst hc
  simp only [Nat.zero_mul, Nat.add_zero] at hv hX
  rcases Nat.lt_or_ge X M with h | h
  · have e1 : X + W4 - M + M = X + W4 := Nat.sub_add_cancel (by omega)
    have e2 : (X + W4 - M + M) % W4 = X := by
      rw [e1, Nat.add_mod_right, Nat.mod_eq_of_lt (by omega)]
    rw [hlt h, e2]
    exact ⟨h, by rw [hv, Nat.add_mul_mod_self_right]⟩
  · rw [hge h]
    refine ⟨by omega, ?_⟩
    have e2 : (X - M) * W4 + M * W4 = T + K * M := by
      rw [← Nat.add_mul, Nat.sub_add_cancel h, hv]
    have e3 : ((X - M) * W4 + M * W4) % M = (X - M) * W4 % M := Nat.add_mul_mod_self_left _ _ _
    rw [← e3, e2, Nat.add_mul_mod_self_right]

/-- `montgomery_reduce` (`jubjub/fr.rs`, `bls12_381/fq.rs`): for a modulus `M < 2^255` with
`INV·m0 ≡ -1 (mod 2^64)` and every input `T < M·2^256`, the result is `< M` and is the unique
residue `x` with `x·2^256 ≡ T (mod M)`, i.e. `T·R⁻¹ mod M`. -/
theorem montReduce_core (p : MontParams) (r0 r1 r2 r3 r4 r5 r6 r7 : Nat) (hm : p.m.wf)
    (h0 : r0 < W) (h1 : r1 < W) (h2 : r2 < W) (h3 : r3 < W) (h4 : r4 < W) (h5 : r5 < W)
    (h6 : r6 < W) (h7 : r7 < W) (hinv : p.m.l0 * p.inv % W = W - 1)
    (h2m : 2 * p.m.val ≤ W ^ 4) (hT : val8 r0 r1 r2 r3 r4 r5 r6 r7 < p.m.val * W ^ 4) :
    (montReduce p r0 r1 r2 r3 r4 r5 r6 r7).wf ∧ (montReduce p r0 r1 r2 r3 r4 r5 r6 r7).val < p.m.val ∧
    (montReduce p r0 r1 r2 r3 r4 r5 r6 r7).val * W ^ 4 % p.m.val =
      val8 r0 r1 r2 r3 r4 r5 r6 r7 % p.m.val := by
  obtain ⟨x4, x5, x6, x7, c, K, e, l4, l5, l6, l7, lc, hK, hv⟩ :=
    redRounds_spec p r0 r1 r2 r3 r4 r5 r6 r7 hm h0 h1 h2 h3 h4 h5 h6 h7 hinv
  simp only [montReduce, e]
  generalize val8 r0 r1 r2 r3 r4 r5 r6 r7 = T at *
  have hMpos : 0 < p.m.val := by
    rcases Nat.eq_zero_or_pos p.m.val with h | h
    · rw [h, Nat.zero_mul] at hT; omega
    · exact h
  have hKM : K * p.m.val < p.m.val * W ^ 4 := by
    rw [Nat.mul_comm p.m.val]
    exact Nat.mul_lt_mul_of_pos_right hK hMpos
  have hX2 : (x4 + x5 * W + x6 * W ^ 2 + x7 * W ^ 3 + c * W ^ 4) * W ^ 4 < (2 * p.m.val) * W ^ 4 := by
    rw [hv, Nat.two_mul, Nat.add_mul]
    exact Nat.add_lt_add hT hKM
  have hX : x4 + x5 * W + x6 * W ^ 2 + x7 * W ^ 3 + c * W ^ 4 < 2 * p.m.val :=
    Nat.lt_of_mul_lt_mul_right hX2
  have hc : c = 0 := carry_zero _ c _ hX h2m
  obtain ⟨hw, hge, hlt⟩ := subL_spec p.m ⟨x4, x5, x6, x7⟩ p.m hm ⟨l4, l5, l6, l7⟩ hm
  exact ⟨hw, mont_final (x4 + x5 * W + x6 * W ^ 2 + x7 * W ^ 3) c _ _ _ _ _ hc hv hX hge hlt h2m⟩

theorem schoolbook_poly (a0 a1 a2 a3 b0 b1 b2 b3 W : Int) :
    (a0 + a1 * W + a2 * W ^ 2 + a3 * W ^ 3) * (b0 + b1 * W + b2 * W ^ 2 + b3 * W ^ 3) =
      a0 * b0 + (a0 * b1 + a1 * b0) * W + (a0 * b2 + a1 * b1 + a2 * b0) * W ^ 2 +
      (a0 * b3 + a1 * b2 + a2 * b1 + a3 * b0) * W ^ 3 + (a1 * b3 + a2 * b2 + a3 * b1) * W ^ 4 +
      (a2 * b3 + a3 * b2) * W ^ 5 + a3 * b3 * W ^ 6 := by
  grind

/-- One row of the schoolbook product: `acc + x·b` as five limbs. -/
theorem mac_row (c0 c1 c2 c3 x b0 b1 b2 b3 : Nat) (hc0 : c0 < W) (hc1 : c1 < W) (hc2 : c2 < W)
    (hc3 : c3 < W) (hx : x < W) (hb0 : b0 < W) (hb1 : b1 < W) (hb2 : b2 < W) (hb3 : b3 < W) :
    ∃ n0 n1 n2 n3 n4 q0 q1 q2, mac c0 x b0 0 = (n0, q0) ∧ mac c1 x b1 q0 = (n1, q1) ∧
      mac c2 x b2 q1 = (n2, q2) ∧ mac c3 x b3 q2 = (n3, n4) ∧
      n0 < W ∧ n1 < W ∧ n2 < W ∧ n3 < W ∧ n4 < W ∧
      n0 + (n1 + n2 * W + n3 * W ^ 2 + n4 * W ^ 3) * W =
        (c0 + c1 * W + c2 * W ^ 2 + c3 * W ^ 3) + x * (b0 + b1 * W + b2 * W ^ 2 + b3 * W ^ 3) := by
  obtain ⟨n0, q0, e0, g0, l0, u0⟩ := mac_pair_lt c0 x b0 0 hc0 hx hb0 W_pos
  obtain ⟨n1, q1, e1, g1, l1, u1⟩ := mac_pair_lt c1 x b1 q0 hc1 hx hb1 u0
  obtain ⟨n2, q2, e2, g2, l2, u2⟩ := mac_pair_lt c2 x b2 q1 hc2 hx hb2 u1
  obtain ⟨n3, n4, e3, g3, l3, u3⟩ := mac_pair_lt c3 x b3 q2 hc3 hx hb3 u2
  refine ⟨n0, n1, n2, n3, n4, q0, q1, q2, e0, e1, e2, e3, l0, l1, l2, l3, u3, ?_⟩
  have e : x * (b0 + b1 * W + b2 * W ^ 2 + b3 * W ^ 3) =
      x * b0 + x * b1 * W + x * b2 * W ^ 2 + x * b3 * W ^ 3 := by
    simp only [Nat.mul_add, Nat.mul_assoc]
  rw [e]
  simp only [W2_lit, W3_lit] at *
  simp only [W1_lit] at *
  omega

theorem rows_poly (p0 s1 u2 P S U X a0 a1 a2 a3 B W : Int)
    (h0 : p0 + P * W = a0 * B) (h1 : s1 + S * W = P + a1 * B) (h2 : u2 + U * W = S + a2 * B)
    (h3 : X = U + a3 * B) :
    p0 + s1 * W + u2 * W ^ 2 + X * W ^ 3 = (a0 + a1 * W + a2 * W ^ 2 + a3 * W ^ 3) * B := by
  have e0 : p0 = a0 * B - P * W := by omega
  have e1 : s1 = P + a1 * B - S * W := by omega
  have e2 : u2 = S + a2 * B - U * W := by omega
  subst e0 e1 e2 h3
  grind

theorem rows_poly_nat (p0 s1 u2 P S U X a0 a1 a2 a3 B W : Nat)
    (h0 : p0 + P * W = a0 * B) (h1 : s1 + S * W = P + a1 * B) (h2 : u2 + U * W = S + a2 * B)
    (h3 : X = U + a3 * B) :
    p0 + s1 * W + u2 * W ^ 2 + X * W ^ 3 = (a0 + a1 * W + a2 * W ^ 2 + a3 * W ^ 3) * B := by
  have := rows_poly p0 s1 u2 P S U X a0 a1 a2 a3 B W (by exact_mod_cast h0) (by exact_mod_cast h1)
    (by exact_mod_cast h2) (by exact_mod_cast h3)
  exact_mod_cast this

theorem regroup8 (p0 s1 u2 w3 w4 w5 w6 w7 W : Nat) :
    p0 + s1 * W + u2 * W ^ 2 + w3 * W ^ 3 + w4 * W ^ 4 + w5 * W ^ 5 + w6 * W ^ 6 + w7 * W ^ 7 =
      p0 + s1 * W + u2 * W ^ 2 + (w3 + (w4 + w5 * W + w6 * W ^ 2 + w7 * W ^ 3) * W) * W ^ 3 := by
  have : ((p0 : Int) + s1 * W + u2 * W ^ 2 + w3 * W ^ 3 + w4 * W ^ 4 + w5 * W ^ 5 + w6 * W ^ 6 + w7 * W ^ 7 =
      p0 + s1 * W + u2 * W ^ 2 + (w3 + (w4 + w5 * W + w6 * W ^ 2 + w7 * W ^ 3) * W) * W ^ 3) := by grind
  exact_mod_cast this

/-- The 4×4 schoolbook product: the eight limbs are `u64`s and denote `a·b` exactly. -/
theorem schoolbook_spec (a b : L4) (ha : a.wf) (hb : b.wf) :
    ∃ r0 r1 r2 r3 r4 r5 r6 r7, schoolbook a b = (r0, r1, r2, r3, r4, r5, r6, r7) ∧
      r0 < W ∧ r1 < W ∧ r2 < W ∧ r3 < W ∧ r4 < W ∧ r5 < W ∧ r6 < W ∧ r7 < W ∧
      val8 r0 r1 r2 r3 r4 r5 r6 r7 = a.val * b.val := by
  obtain ⟨a0, a1, a2, a3⟩ := a
  obtain ⟨b0, b1, b2, b3⟩ := b
  obtain ⟨ha0, ha1, ha2, ha3⟩ := ha
  obtain ⟨hb0, hb1, hb2, hb3⟩ := hb
  simp only [schoolbook, L4.val, val8] at *
  obtain ⟨p0, p1, p2, p3, p4, _, _, _, e0, e1, e2, e3, lp0, lp1, lp2, lp3, lp4, v0⟩ :=
    mac_row 0 0 0 0 a0 b0 b1 b2 b3 W_pos W_pos W_pos W_pos ha0 hb0 hb1 hb2 hb3
  simp only [e0, e1, e2, e3]
  obtain ⟨s1, s2, s3, s4, s5, _, _, _, f0, f1, f2, f3, ls1, ls2, ls3, ls4, ls5, v1⟩ :=
    mac_row p1 p2 p3 p4 a1 b0 b1 b2 b3 lp1 lp2 lp3 lp4 ha1 hb0 hb1 hb2 hb3
  simp only [f0, f1, f2, f3]
  obtain ⟨u2, u3, u4, u5, u6, _, _, _, g0, g1, g2, g3, lu2, lu3, lu4, lu5, lu6, v2⟩ :=
    mac_row s2 s3 s4 s5 a2 b0 b1 b2 b3 ls2 ls3 ls4 ls5 ha2 hb0 hb1 hb2 hb3
  simp only [g0, g1, g2, g3]
  obtain ⟨w3, w4, w5, w6, w7, _, _, _, k0, k1, k2, k3, lw3, lw4, lw5, lw6, lw7, v3⟩ :=
    mac_row u3 u4 u5 u6 a3 b0 b1 b2 b3 lu3 lu4 lu5 lu6 ha3 hb0 hb1 hb2 hb3
  simp only [k0, k1, k2, k3]
  refine ⟨p0, s1, u2, w3, w4, w5, w6, w7, rfl, lp0, ls1, lu2, lw3, lw4, lw5, lw6, lw7, ?_⟩
  simp only [Nat.zero_mul, Nat.add_zero, Nat.zero_add] at v0
  rw [regroup8]
  exact rows_poly_nat p0 s1 u2 _ _ _ _ a0 a1 a2 a3 _ W v0 v1 v2 v3

theorem L4.val_lt (a : L4) (ha : a.wf) : a.val < W ^ 4 := by
  obtain ⟨a0, a1, a2, a3⟩ := a
  obtain ⟨h0, h1, h2, h3⟩ := ha
  simp only [L4.val, W4_eq, W2_lit, W3_lit] at *
  simp only [W1_lit] at *
  omega

/-- `mul_ref` / `mul_const`: for `u64` limbs with `a·b < M·2^256` the result is `< M` and
`result·2^256 ≡ a·b (mod M)`. -/
theorem mulL_core (p : MontParams) (a b : L4) (hm : p.m.wf) (ha : a.wf) (hb : b.wf)
    (hinv : p.m.l0 * p.inv % W = W - 1) (h2m : 2 * p.m.val ≤ W ^ 4)
    (hT : a.val * b.val < p.m.val * W ^ 4) :
    (mulL p a b).wf ∧ (mulL p a b).val < p.m.val ∧
    (mulL p a b).val * W ^ 4 % p.m.val = a.val * b.val % p.m.val := by
  obtain ⟨r0, r1, r2, r3, r4, r5, r6, r7, e, l0, l1, l2, l3, l4, l5, l6, l7, hv⟩ := schoolbook_spec a b ha hb
  simp only [mulL, e]
  rw [← hv] at hT ⊢
  exact montReduce_core p r0 r1 r2 r3 r4 r5 r6 r7 hm l0 l1 l2 l3 l4 l5 l6 l7 hinv h2m hT

/-- A product with one canonical factor is in the range of the reduction. -/
theorem mul_lt_of_right_lt (a b M : Nat) (ha : a < W ^ 4) (hb : b < M) : a * b < M * W ^ 4 := by
  have hM : 0 < M := by omega
  calc a * b ≤ a * M := Nat.mul_le_mul_left _ (Nat.le_of_lt hb)
    _ < W ^ 4 * M := Nat.mul_lt_mul_of_pos_right ha hM
    _ = M * W ^ 4 := Nat.mul_comm _ _

/-- `to_bytes` (limb part): `montgomery_reduce(a, 0, 0, 0, 0)` is `< M` and `·2^256 ≡ a`. -/
theorem toCanonL_core (p : MontParams) (a : L4) (hm : p.m.wf) (ha : a.wf)
    (hinv : p.m.l0 * p.inv % W = W - 1) (h2m : 2 * p.m.val ≤ W ^ 4) (hpos : 0 < p.m.val) :
    (toCanonL p a).wf ∧ (toCanonL p a).val < p.m.val ∧
    (toCanonL p a).val * W ^ 4 % p.m.val = a.val % p.m.val := by
  obtain ⟨h0, h1, h2, h3⟩ := ha
  have hv : val8 a.l0 a.l1 a.l2 a.l3 0 0 0 0 = a.val := by
    unfold val8 L4.val
    omega
  have hT : val8 a.l0 a.l1 a.l2 a.l3 0 0 0 0 < p.m.val * W ^ 4 := by
    rw [hv]
    have := L4.val_lt a ⟨h0, h1, h2, h3⟩
    calc a.val < W ^ 4 := this
      _ = 1 * W ^ 4 := (Nat.one_mul _).symm
      _ ≤ p.m.val * W ^ 4 := Nat.mul_le_mul_right _ hpos
  have := montReduce_core p a.l0 a.l1 a.l2 a.l3 0 0 0 0 hm h0 h1 h2 h3 W_pos W_pos W_pos W_pos hinv h2m hT
  rw [hv] at this
  exact this

end MidnightZK.C10
