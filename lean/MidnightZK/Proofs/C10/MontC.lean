import MidnightZK.Proofs.C10.Field
/-!
The carry-aware variant of the Montgomery code (`curve25519/fp.rs`: `montgomery_reduce`, `mul`,
`square` via the same reduction, `add`): the carry out of the last round takes part in the trial
subtraction, so the theorems need NO bound `2·M ≤ 2^256` — they hold for every odd modulus below
`2^256` (Curve25519's `2^255 - 19` included).
-/
namespace MidnightZK.C10

/-- Side conditions for the carry-aware code: as `MontOK` without `2·M ≤ 2^256`. -/
structure MontOKC (p : MontParams) : Prop where
  wf : p.m.wf
  inv : p.m.l0 * p.inv % W = W - 1
  odd : Nat.gcd p.m.val (W ^ 4) = 1
  pos : 1 < p.m.val

theorem MontOK.toC {p : MontParams} (ok : MontOK p) : MontOKC p := ⟨ok.wf, ok.inv, ok.odd, ok.pos⟩

/-- Final conditional subtraction with a carry word, abstractly. -/
theorem mont_final_c (V M T K res W4 : Nat) (hv : V * W4 = T + K * M) (hV : V < 2 * M)
    (hge : M ≤ V → res = V - M) (hlt : V < M → res = V) :
    res < M ∧ res * W4 % M = T % M := by
  rcases Nat.lt_or_ge V M with h | h
  · rw [hlt h]
    exact ⟨h, by rw [hv, Nat.add_mul_mod_self_right]⟩
  · rw [hge h]
    refine ⟨by omega, ?_⟩
    have e2 : (V - M) * W4 + M * W4 = T + K * M := by
      rw [← Nat.add_mul, Nat.sub_add_cancel h, hv]
    have e3 : ((V - M) * W4 + M * W4) % M = (V - M) * W4 % M := Nat.add_mul_mod_self_left _ _ _
    rw [← e3, e2, Nat.add_mul_mod_self_right]

/-- Four chained `sbb`: the limb-wise difference with its final borrow. -/
theorem sbb4_chain (x0 x1 x2 x3 m0 m1 m2 m3 : Nat) (hx0 : x0 < W) (hx1 : x1 < W) (hx2 : x2 < W)
    (hx3 : x3 < W) (hm0 : m0 < W) (hm1 : m1 < W) (hm2 : m2 < W) (hm3 : m3 < W) :
    ∃ d0 d1 d2 d3 o0 o1 o2 o3, sbb x0 m0 0 = (d0, o0 * (W - 1)) ∧ sbb x1 m1 (o0 * (W - 1)) = (d1, o1 * (W - 1)) ∧
      sbb x2 m2 (o1 * (W - 1)) = (d2, o2 * (W - 1)) ∧ sbb x3 m3 (o2 * (W - 1)) = (d3, o3 * (W - 1)) ∧
      o3 ≤ 1 ∧ d0 < W ∧ d1 < W ∧ d2 < W ∧ d3 < W ∧
      d0 + d1 * W + d2 * W ^ 2 + d3 * W ^ 3 + (m0 + m1 * W + m2 * W ^ 2 + m3 * W ^ 3) =
        x0 + x1 * W + x2 * W ^ 2 + x3 * W ^ 3 + W ^ 4 * o3 := by
  obtain ⟨d0, o0, e0, ho0, h0, k0⟩ := sbb_pair x0 m0 0 0 hx0 hm0 (by omega) (by omega)
  obtain ⟨d1, o1, e1, ho1, h1, k1⟩ := sbb_pair x1 m1 (o0 * (W - 1)) o0 hx1 hm1 ho0 rfl
  obtain ⟨d2, o2, e2, ho2, h2, k2⟩ := sbb_pair x2 m2 (o1 * (W - 1)) o1 hx2 hm2 ho1 rfl
  obtain ⟨d3, o3, e3, ho3, h3, k3⟩ := sbb_pair x3 m3 (o2 * (W - 1)) o2 hx3 hm3 ho2 rfl
  refine ⟨d0, d1, d2, d3, o0, o1, o2, o3, e0, e1, e2, e3, ho3, k0, k1, k2, k3, ?_⟩
  clear e0 e1 e2 e3
  simp only [W4_eq, W] at *
  omega

/-- Four chained `adc` (the last carry reported). -/
theorem adc4_chain (d0 d1 d2 d3 n0 n1 n2 n3 : Nat) :
    ∃ y0 y1 y2 y3 c0 c1 c2 c3, adc d0 n0 0 = (y0, c0) ∧ adc d1 n1 c0 = (y1, c1) ∧
      adc d2 n2 c1 = (y2, c2) ∧ adc d3 n3 c2 = (y3, c3) ∧ y0 < W ∧ y1 < W ∧ y2 < W ∧ y3 < W ∧
      y0 + y1 * W + y2 * W ^ 2 + y3 * W ^ 3 + W ^ 4 * c3 =
        d0 + d1 * W + d2 * W ^ 2 + d3 * W ^ 3 + (n0 + n1 * W + n2 * W ^ 2 + n3 * W ^ 3) := by
  obtain ⟨y0, c0, f0, g0, j0⟩ := adc_pair d0 n0 0
  obtain ⟨y1, c1, f1, g1, j1⟩ := adc_pair d1 n1 c0
  obtain ⟨y2, c2, f2, g2, j2⟩ := adc_pair d2 n2 c1
  obtain ⟨y3, c3, f3, g3, j3⟩ := adc_pair d3 n3 c2
  refine ⟨y0, y1, y2, y3, c0, c1, c2, c3, f0, f1, f2, f3, j0, j1, j2, j3, ?_⟩
  clear f0 f1 f2 f3
  simp only [W4_eq, W] at *
  omega

theorem limbs_lt (a0 a1 a2 a3 : Nat) (h0 : a0 < W) (h1 : a1 < W) (h2 : a2 < W) (h3 : a3 < W) :
    a0 + a1 * W + a2 * W ^ 2 + a3 * W ^ 3 < W ^ 4 := by
  simp only [W4_eq, W] at *
  omega

/-- The trial subtraction of `curve25519/fp.rs` (four `sbb` on the limbs, a fifth on the carry
word, masked add-back), as a function. -/
def finalSubC (m : L4) (x4 x5 x6 x7 c : Nat) : L4 :=
  let (d0, borrow) := sbb x4 m.l0 0
  let (d1, borrow) := sbb x5 m.l1 borrow
  let (d2, borrow) := sbb x6 m.l2 borrow
  let (d3, borrow) := sbb x7 m.l3 borrow
  let (_, borrow) := sbb c 0 borrow
  let (d0, carry) := adc d0 (m.l0 &&& borrow) 0
  let (d1, carry) := adc d1 (m.l1 &&& borrow) carry
  let (d2, carry) := adc d2 (m.l2 &&& borrow) carry
  let (d3, _) := adc d3 (m.l3 &&& borrow) carry
  ⟨d0, d1, d2, d3⟩

theorem montReduceC_eq (p : MontParams) (r0 r1 r2 r3 r4 r5 r6 r7 : Nat) :
    montReduceC p r0 r1 r2 r3 r4 r5 r6 r7 =
      (let (x4, x5, x6, x7, c) := redRounds p r0 r1 r2 r3 r4 r5 r6 r7; finalSubC p.m x4 x5 x6 x7 c) := rfl

theorem addC_eq (m a b : L4) :
    addC m a b =
      (let (d0, carry) := adc a.l0 b.l0 0
       let (d1, carry) := adc a.l1 b.l1 carry
       let (d2, carry) := adc a.l2 b.l2 carry
       let (d3, carry) := adc a.l3 b.l3 carry
       finalSubC m d0 d1 d2 d3 carry) := rfl

/-- For `u64` limbs `x`, a carry `c ≤ 1` and `V = x + c·2^256 < 2·M`, the trial subtraction
returns `V - M` when that is non-negative and `V` otherwise. -/
theorem finalSubC_spec (m : L4) (x4 x5 x6 x7 c : Nat) (hm : m.wf) (l4 : x4 < W) (l5 : x5 < W)
    (l6 : x6 < W) (l7 : x7 < W) (lc : c ≤ 1)
    (hV : x4 + x5 * W + x6 * W ^ 2 + x7 * W ^ 3 + c * W ^ 4 < 2 * m.val) :
    (finalSubC m x4 x5 x6 x7 c).wf ∧
    (m.val ≤ x4 + x5 * W + x6 * W ^ 2 + x7 * W ^ 3 + c * W ^ 4 →
      (finalSubC m x4 x5 x6 x7 c).val = x4 + x5 * W + x6 * W ^ 2 + x7 * W ^ 3 + c * W ^ 4 - m.val) ∧
    (x4 + x5 * W + x6 * W ^ 2 + x7 * W ^ 3 + c * W ^ 4 < m.val →
      (finalSubC m x4 x5 x6 x7 c).val = x4 + x5 * W + x6 * W ^ 2 + x7 * W ^ 3 + c * W ^ 4) := by
  obtain ⟨m0, m1, m2, m3⟩ := m
  obtain ⟨hm0, hm1, hm2, hm3⟩ := hm
  simp only [finalSubC, L4.wf, L4.val] at *
  obtain ⟨d0, d1, d2, d3, o0, o1, o2, o3, e0, e1, e2, e3, ho3, k0, k1, k2, k3, hD⟩ :=
    sbb4_chain x4 x5 x6 x7 m0 m1 m2 m3 l4 l5 l6 l7 hm0 hm1 hm2 hm3
  simp only [e0, e1, e2, e3]
  obtain ⟨d4, o4, e4, ho4, h4, k4⟩ := sbb_pair c 0 (o3 * (W - 1)) o3 (by simp only [W]; omega) W_pos ho3 rfl
  simp only [e4]
  have hXlt := limbs_lt x4 x5 x6 x7 l4 l5 l6 l7
  have hMlt := limbs_lt m0 m1 m2 m3 hm0 hm1 hm2 hm3
  have hDlt := limbs_lt d0 d1 d2 d3 k0 k1 k2 k3
  have : o4 = 0 ∨ o4 = 1 := by omega
  rcases this with h | h <;> subst h
  · simp only [Nat.zero_mul, Nat.and_zero]
    obtain ⟨y0, y1, y2, y3, c0, c1, c2, c3, f0, f1, f2, f3, j0, j1, j2, j3, hY⟩ := adc4_chain d0 d1 d2 d3 0 0 0 0
    simp only [f0, f1, f2, f3]
    have hYlt := limbs_lt y0 y1 y2 y3 j0 j1 j2 j3
    refine ⟨⟨j0, j1, j2, j3⟩, ?_⟩
    clear e0 e1 e2 e3 e4 f0 f1 f2 f3
    generalize x4 + x5 * W + x6 * W ^ 2 + x7 * W ^ 3 = X at *
    generalize m0 + m1 * W + m2 * W ^ 2 + m3 * W ^ 3 = M at *
    generalize d0 + d1 * W + d2 * W ^ 2 + d3 * W ^ 3 = D at *
    generalize y0 + y1 * W + y2 * W ^ 2 + y3 * W ^ 3 = Y at *
    simp only [W4_eq] at *
    simp only [W] at h4 k4
    constructor <;> intro _ <;> omega
  · simp only [Nat.one_mul, land_ones _ hm0, land_ones _ hm1, land_ones _ hm2, land_ones _ hm3]
    obtain ⟨y0, y1, y2, y3, c0, c1, c2, c3, f0, f1, f2, f3, j0, j1, j2, j3, hY⟩ := adc4_chain d0 d1 d2 d3 m0 m1 m2 m3
    simp only [f0, f1, f2, f3]
    have hYlt := limbs_lt y0 y1 y2 y3 j0 j1 j2 j3
    refine ⟨⟨j0, j1, j2, j3⟩, ?_⟩
    clear e0 e1 e2 e3 e4 f0 f1 f2 f3
    generalize x4 + x5 * W + x6 * W ^ 2 + x7 * W ^ 3 = X at *
    generalize m0 + m1 * W + m2 * W ^ 2 + m3 * W ^ 3 = M at *
    generalize d0 + d1 * W + d2 * W ^ 2 + d3 * W ^ 3 = D at *
    generalize y0 + y1 * W + y2 * W ^ 2 + y3 * W ^ 3 = Y at *
    simp only [W4_eq] at *
    simp only [W] at h4 k4
    constructor <;> intro _ <;> omega

/-- `curve25519/fp.rs: fn montgomery_reduce`: for EVERY odd modulus `M < 2^256` with
`INV·m0 ≡ -1 (mod 2^64)` and every input `T < M·2^256`, the result is `< M` and is the unique
residue `x` with `x·2^256 ≡ T (mod M)`. -/
theorem montReduceC_core (p : MontParams) (r0 r1 r2 r3 r4 r5 r6 r7 : Nat) (hm : p.m.wf)
    (h0 : r0 < W) (h1 : r1 < W) (h2 : r2 < W) (h3 : r3 < W) (h4 : r4 < W) (h5 : r5 < W)
    (h6 : r6 < W) (h7 : r7 < W) (hinv : p.m.l0 * p.inv % W = W - 1)
    (hT : val8 r0 r1 r2 r3 r4 r5 r6 r7 < p.m.val * W ^ 4) :
    (montReduceC p r0 r1 r2 r3 r4 r5 r6 r7).wf ∧ (montReduceC p r0 r1 r2 r3 r4 r5 r6 r7).val < p.m.val ∧
    (montReduceC p r0 r1 r2 r3 r4 r5 r6 r7).val * W ^ 4 % p.m.val =
      val8 r0 r1 r2 r3 r4 r5 r6 r7 % p.m.val := by
  obtain ⟨x4, x5, x6, x7, c, K, e, l4, l5, l6, l7, lc, hK, hv⟩ :=
    redRounds_spec p r0 r1 r2 r3 r4 r5 r6 r7 hm h0 h1 h2 h3 h4 h5 h6 h7 hinv
  rw [montReduceC_eq, e]
  simp only
  generalize val8 r0 r1 r2 r3 r4 r5 r6 r7 = T at *
  have hMpos : 0 < p.m.val := by
    rcases Nat.eq_zero_or_pos p.m.val with h | h
    · rw [h, Nat.zero_mul] at hT; omega
    · exact h
  have hKM : K * p.m.val < p.m.val * W ^ 4 := by
    rw [Nat.mul_comm p.m.val]
    exact Nat.mul_lt_mul_of_pos_right hK hMpos
  have hX2 : (x4 + x5 * W + x6 * W ^ 2 + x7 * W ^ 3 + c * W ^ 4) * W ^ 4 < (2 * p.m.val) * W ^ 4 := by
    rw [hv, Nat.two_mul, Nat.add_mul]
    exact Nat.add_lt_add hT hKM
  have hX : x4 + x5 * W + x6 * W ^ 2 + x7 * W ^ 3 + c * W ^ 4 < 2 * p.m.val :=
    Nat.lt_of_mul_lt_mul_right hX2
  obtain ⟨hw, hge, hlt⟩ := finalSubC_spec p.m x4 x5 x6 x7 c hm l4 l5 l6 l7 lc hX
  exact ⟨hw, mont_final_c _ _ _ K _ _ hv hX hge hlt⟩

/-- `curve25519/fp.rs: fn mul`. -/
theorem mulC_core (p : MontParams) (a b : L4) (hm : p.m.wf) (ha : a.wf) (hb : b.wf)
    (hinv : p.m.l0 * p.inv % W = W - 1) (hT : a.val * b.val < p.m.val * W ^ 4) :
    (mulC p a b).wf ∧ (mulC p a b).val < p.m.val ∧
    (mulC p a b).val * W ^ 4 % p.m.val = a.val * b.val % p.m.val := by
  obtain ⟨r0, r1, r2, r3, r4, r5, r6, r7, e, l0, l1, l2, l3, l4, l5, l6, l7, hv⟩ := schoolbook_spec a b ha hb
  simp only [mulC, e]
  rw [← hv] at hT ⊢
  exact montReduceC_core p r0 r1 r2 r3 r4 r5 r6 r7 hm l0 l1 l2 l3 l4 l5 l6 l7 hinv hT

/-- `mul` on Montgomery representatives is multiplication modulo `M` (carry-aware variant). -/
theorem mulC_mont (p : MontParams) (ok : MontOKC p) (a b : L4) (x y : Nat)
    (ha : IsMont p.m.val a x) (hb : IsMont p.m.val b y) :
    IsMont p.m.val (mulC p a b) (x * y) := by
  obtain ⟨haw, hav⟩ := ha
  obtain ⟨hbw, hbv⟩ := hb
  have hMpos : 0 < p.m.val := by have := ok.pos; omega
  have hbM : b.val < p.m.val := by rw [hbv]; exact Nat.mod_lt _ hMpos
  have hT := mul_lt_of_right_lt a.val b.val p.m.val (L4.val_lt a haw) hbM
  obtain ⟨hw, hlt, hv⟩ := mulC_core p a b ok.wf haw hbw ok.inv hT
  refine ⟨hw, ?_⟩
  apply mont_cancel ok.odd hlt (Nat.mod_lt _ hMpos)
  show (mulC p a b).val * RR ≡ x * y * RR % p.m.val * RR [MOD p.m.val]
  have h1 : (mulC p a b).val * RR ≡ a.val * b.val [MOD p.m.val] := hv
  have h2 : a.val ≡ x * RR [MOD p.m.val] := by rw [hav]; exact Nat.mod_modEq _ _
  have h3 : b.val ≡ y * RR [MOD p.m.val] := by rw [hbv]; exact Nat.mod_modEq _ _
  have h4 : x * y * RR % p.m.val ≡ x * y * RR [MOD p.m.val] := Nat.mod_modEq _ _
  calc (mulC p a b).val * RR ≡ a.val * b.val [MOD p.m.val] := h1
    _ ≡ (x * RR) * (y * RR) [MOD p.m.val] := Nat.ModEq.mul h2 h3
    _ = (x * y * RR) * RR := by simp only [Nat.mul_assoc, Nat.mul_comm, Nat.mul_left_comm]
    _ ≡ x * y * RR % p.m.val * RR [MOD p.m.val] := (Nat.ModEq.mul_right _ h4).symm

/-- `curve25519/fp.rs: fn add` on canonical operands is addition modulo `M` — no bound on `M`
below `2^256`: the carry of the limb addition enters the trial subtraction. -/
theorem addC_canonical (p : MontParams) (ok : MontOKC p) (a b : L4) (haw : a.wf) (hbw : b.wf)
    (ha : a.val < p.m.val) (hb : b.val < p.m.val) :
    (addC p.m a b).wf ∧ (addC p.m a b).val = (a.val + b.val) % p.m.val := by
  obtain ⟨a0, a1, a2, a3⟩ := a
  obtain ⟨b0, b1, b2, b3⟩ := b
  obtain ⟨y0, y1, y2, y3, c0, c1, c2, c3, f0, f1, f2, f3, j0, j1, j2, j3, hY⟩ := adc4_chain a0 a1 a2 a3 b0 b1 b2 b3
  rw [addC_eq]
  simp only [f0, f1, f2, f3]
  have hA : a0 + a1 * W + a2 * W ^ 2 + a3 * W ^ 3 < W ^ 4 := L4.val_lt _ haw
  have hB : b0 + b1 * W + b2 * W ^ 2 + b3 * W ^ 3 < W ^ 4 := L4.val_lt _ hbw
  have ha : a0 + a1 * W + a2 * W ^ 2 + a3 * W ^ 3 < p.m.val := ha
  have hb : b0 + b1 * W + b2 * W ^ 2 + b3 * W ^ 3 < p.m.val := hb
  show _ ∧ _ = (a0 + a1 * W + a2 * W ^ 2 + a3 * W ^ 3 + (b0 + b1 * W + b2 * W ^ 2 + b3 * W ^ 3)) % p.m.val
  have hYlt := limbs_lt y0 y1 y2 y3 j0 j1 j2 j3
  have hc3 : c3 ≤ 1 := by
    generalize y0 + y1 * W + y2 * W ^ 2 + y3 * W ^ 3 = Y at *
    generalize a0 + a1 * W + a2 * W ^ 2 + a3 * W ^ 3 = A at *
    generalize b0 + b1 * W + b2 * W ^ 2 + b3 * W ^ 3 = B at *
    simp only [W4_eq] at *
    omega
  have hV : y0 + y1 * W + y2 * W ^ 2 + y3 * W ^ 3 + c3 * W ^ 4 < 2 * p.m.val := by
    rw [Nat.mul_comm c3, hY, Nat.two_mul]; exact Nat.add_lt_add ha hb
  obtain ⟨hw, hge, hlt⟩ := finalSubC_spec p.m y0 y1 y2 y3 c3 ok.wf j0 j1 j2 j3 hc3 hV
  refine ⟨hw, ?_⟩
  rw [Nat.mul_comm c3, hY] at hge hlt
  rcases Nat.lt_or_ge (a0 + a1 * W + a2 * W ^ 2 + a3 * W ^ 3 + (b0 + b1 * W + b2 * W ^ 2 + b3 * W ^ 3)) p.m.val with h | h
  · rw [hlt h, Nat.mod_eq_of_lt h]
  · rw [hge h]
    have hS2 := Nat.add_lt_add ha hb
    clear hV hge hlt hY hc3
    generalize a0 + a1 * W + a2 * W ^ 2 + a3 * W ^ 3 + (b0 + b1 * W + b2 * W ^ 2 + b3 * W ^ 3) = S at *
    have : S = (S - p.m.val) + p.m.val := by omega
    conv => rhs; rw [this, Nat.add_mod_right]
    exact (Nat.mod_eq_of_lt (by omega)).symm

theorem addC_mont (p : MontParams) (ok : MontOKC p) (a b : L4) (x y : Nat)
    (ha : IsMont p.m.val a x) (hb : IsMont p.m.val b y) : IsMont p.m.val (addC p.m a b) (x + y) := by
  obtain ⟨haw, hav⟩ := ha
  obtain ⟨hbw, hbv⟩ := hb
  have hMpos : 0 < p.m.val := by have := ok.pos; omega
  obtain ⟨hw, hv⟩ := addC_canonical p ok a b haw hbw (by rw [hav]; exact Nat.mod_lt _ hMpos)
    (by rw [hbv]; exact Nat.mod_lt _ hMpos)
  refine ⟨hw, ?_⟩
  rw [hv, hav, hbv, ← Nat.add_mod, ← Nat.add_mul]

/-- `from_raw` / `from_bytes` of `curve25519::Fp` (`val * R2`): the Montgomery representative of
`val`, for every 256-bit `val`. -/
theorem fromRawC_mont (p : MontParams) (ok : MontOKC p) (r2 a : L4) (haw : a.wf) (hr2w : r2.wf)
    (hr2 : r2.val = RR * RR % p.m.val) : IsMont p.m.val (mulC p a r2) a.val := by
  have hMpos : 0 < p.m.val := by have := ok.pos; omega
  have hbM : r2.val < p.m.val := by rw [hr2]; exact Nat.mod_lt _ hMpos
  have hT := mul_lt_of_right_lt a.val r2.val p.m.val (L4.val_lt a haw) hbM
  obtain ⟨hw, hlt, hv⟩ := mulC_core p a r2 ok.wf haw hr2w ok.inv hT
  rw [← RR_def] at hv
  refine ⟨hw, ?_⟩
  apply mont_cancel ok.odd hlt (Nat.mod_lt _ hMpos)
  rw [hv, hr2, Nat.mod_mul_mod, Nat.mul_mod_mod, Nat.mul_assoc]

/-- `curve25519/fp.rs: fn from_uniform_bytes_inner` (`d0·R2 + d1·R3`): the Montgomery
representative of the 512-bit integer `d0 + d1·2^256`. -/
theorem fromU512C_mont (p : MontParams) (ok : MontOKC p) (r2 r3 d0 d1 : L4) (h0 : d0.wf) (h1 : d1.wf)
    (hr2w : r2.wf) (hr3w : r3.wf) (hr2 : r2.val = RR * RR % p.m.val)
    (hr3 : r3.val = RR * RR * RR % p.m.val) :
    IsMont p.m.val (fromU512C p r2 r3 d0 d1) (d0.val + d1.val * RR) := by
  have hMpos : 0 < p.m.val := by have := ok.pos; omega
  have m0 := fromRawC_mont p ok r2 d0 h0 hr2w hr2
  have hbM : r3.val < p.m.val := by rw [hr3]; exact Nat.mod_lt _ hMpos
  have hT := mul_lt_of_right_lt d1.val r3.val p.m.val (L4.val_lt d1 h1) hbM
  obtain ⟨hw, hlt, hv⟩ := mulC_core p d1 r3 ok.wf h1 hr3w ok.inv hT
  rw [← RR_def] at hv
  have m1 : IsMont p.m.val (mulC p d1 r3) (d1.val * RR) := by
    refine ⟨hw, ?_⟩
    apply mont_cancel ok.odd hlt (Nat.mod_lt _ hMpos)
    rw [hv, hr3, Nat.mod_mul_mod, Nat.mul_mod_mod]
    have e : d1.val * (RR * RR * RR) = d1.val * RR * RR * RR := by simp only [Nat.mul_assoc]
    rw [e]
  exact addC_mont p ok _ _ _ _ m0 m1

end MidnightZK.C10
