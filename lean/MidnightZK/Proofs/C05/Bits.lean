import MidnightZK.Proofs.C05.EndToEnd
/-!
Helper lemmas for C05: bit decompositions of the limbs of an emulated element
(`assigned_to_le_bits` and what is built on it), and the low-limbs / top-limb split of a vector
within `well_formed_bounds`.
-/
namespace MidnightZK.C05

open ChipCfg (bitsValue toBits chunksOf)

theorem bitsValue_nonneg : ∀ b : List Bool, 0 ≤ bitsValue b
  | [] => by simp [bitsValue]
  | x :: t => by
    have := bitsValue_nonneg t
    simp only [bitsValue]
    split <;> omega

theorem bitsValue_lt : ∀ b : List Bool, bitsValue b < 2 ^ b.length
  | [] => by simp [bitsValue]
  | x :: t => by
    have := bitsValue_lt t
    simp only [bitsValue, List.length_cons, pow_succ]
    split <;> omega

theorem bitsValue_append : ∀ a b : List Bool,
    bitsValue (a ++ b) = bitsValue a + 2 ^ a.length * bitsValue b
  | [], b => by simp [bitsValue]
  | x :: a, b => by
    simp only [List.cons_append, bitsValue, bitsValue_append a b, List.length_cons, pow_succ]
    ring

theorem bitsValue_replicate_false : ∀ n : Nat, bitsValue (List.replicate n false) = 0
  | 0 => rfl
  | n + 1 => by simp [List.replicate_succ, bitsValue, bitsValue_replicate_false n]

theorem bitsValue_all_false : ∀ b : List Bool, b.all (fun x => !x) = true → bitsValue b = 0
  | [], _ => rfl
  | x :: t, h => by
    simp only [List.all_cons, Bool.and_eq_true, Bool.not_eq_eq_eq_not, Bool.not_true] at h
    simp [bitsValue, h.1, bitsValue_all_false t (by simpa using h.2)]

/-- Bit vectors of the same length with the same value are equal. -/
theorem bitsValue_inj : ∀ a b : List Bool, a.length = b.length → bitsValue a = bitsValue b → a = b
  | [], [], _, _ => rfl
  | [], _ :: _, h, _ => by simp at h
  | _ :: _, [], h, _ => by simp at h
  | x :: a, y :: b, hl, hv => by
    simp only [bitsValue] at hv
    have ha := bitsValue_nonneg a
    have hb := bitsValue_nonneg b
    have hxy : x = y := by
      cases x <;> cases y <;> simp at hv ⊢ <;> omega
    subst hxy
    have : bitsValue a = bitsValue b := by omega
    rw [bitsValue_inj a b (by simpa using hl) this]

/-- What the native decompositions of `assigned_to_le_bits` enforce on an arbitrary assignment:
limb `i` is decomposed into exactly `ks[i]` bit cells that recompose to it
(`decompose_fixed_limb_size(limb, ks[i], 1)`, events `D` of the trace; the native gadget's
interface, C04). -/
def DecompOk : List Nat → List Int → List (List Bool) → Prop
  | k :: ks, z :: zs, b :: bs => (b.length = k ∧ bitsValue b = z) ∧ DecompOk ks zs bs
  | [], [], [] => True
  | _, _, _ => False

/-- The concatenated limb decompositions against the widths `[L, …, L, msl]` are the binary
expansion of `Σ 2^(L·i)·zᵢ`. -/
theorem decomp_flatten_value (L msl : Nat) : ∀ (n : Nat) (zs : List Int) (bs : List (List Bool)),
    DecompOk (List.replicate n L ++ [msl]) zs bs →
    bitsValue bs.flatten = limbsValue L zs ∧ bs.flatten.length = L * n + msl
  | 0, [z], [b], h => by
    simp only [List.replicate_zero, List.nil_append, DecompOk] at h
    simp [limbsValue, h.1.1, h.1.2]
  | 0, [], _, h => by cases ‹List (List Bool)› <;> simp [DecompOk] at h
  | 0, _ :: _, [], h => by simp [DecompOk] at h
  | 0, [_], _ :: _ :: _, h => by simp [DecompOk] at h
  | 0, _ :: _ :: _, [_], h => by simp [DecompOk] at h
  | 0, _ :: _ :: _, _ :: _ :: _, h => by simp [DecompOk] at h
  | n + 1, z :: zs, b :: bs, h => by
    simp only [List.replicate_succ, List.cons_append, DecompOk] at h
    obtain ⟨ih1, ih2⟩ := decomp_flatten_value L msl n zs bs h.2
    simp only [List.flatten_cons, bitsValue_append, limbsValue, List.length_append, h.1.1, h.1.2,
      ih1, ih2]
    exact ⟨trivial, by ring⟩
  | n + 1, [], _, h => by cases ‹List (List Bool)› <;> simp [List.replicate_succ, DecompOk] at h
  | n + 1, _ :: _, [], h => by simp [List.replicate_succ, DecompOk] at h

theorem toBits_spec : ∀ (k : Nat) (z : Int), 0 ≤ z → z < 2 ^ k →
    (toBits k z).1.length = k ∧ bitsValue (toBits k z).1 = z ∧ (toBits k z).2 = true
  | 0, z, h0, h1 => by
    have : z = 0 := by simp at h1; omega
    subst this; simp [toBits, bitsValue]
  | k + 1, z, h0, h1 => by
    have hz : z / 2 < 2 ^ k := by rw [pow_succ] at h1; omega
    obtain ⟨a, b, c⟩ := toBits_spec k (z / 2) (by omega) hz
    simp only [toBits, List.length_cons, a, bitsValue, b, c, and_true, true_and]
    have hm : z % 2 = 0 ∨ z % 2 = 1 := by omega
    rcases hm with hm | hm <;> simp [hm] <;> omega

/-- Completeness: the honest bits (`toBits`) of limbs within the widths satisfy the
decomposition constraints. -/
theorem decompOk_honest : ∀ (ks : List Nat) (zs : List Int), bitsOk ks zs →
    DecompOk ks zs ((zs.zip ks).map (fun t => (toBits t.2 t.1).1))
  | [], [], _ => trivial
  | k :: ks, z :: zs, h => by
    obtain ⟨a, b, _⟩ := toBits_spec k z h.1.1 h.1.2
    simp only [List.zip_cons_cons, List.map_cons, DecompOk]
    exact ⟨⟨a, b⟩, decompOk_honest ks zs h.2⟩
  | [], _ :: _, h => by simp [bitsOk] at h
  | _ :: _, [], h => by simp [bitsOk] at h

/-- A vector within the bounds of widths `ks ++ [msl]` splits as low limbs and a top limb. -/
theorem within_split (msl : Nat) : ∀ (ks : List Nat) (zs : List Int),
    within ((ks ++ [msl]).map (fun k => ((0 : Int), (2 : Int) ^ k - 1))) zs →
    ∃ (lo : List Int) (top : Int), zs = lo ++ [top] ∧ lo.length = ks.length ∧ bitsOk ks lo ∧
      0 ≤ top ∧ top < 2 ^ msl
  | [], [z], h => by
    simp only [List.nil_append, List.map_cons, List.map_nil, within] at h
    exact ⟨[], z, rfl, rfl, trivial, h.1.1, by have := h.1.2; omega⟩
  | [], [], h => by simp [within] at h
  | [], _ :: _ :: _, h => by simp [within] at h
  | k :: ks, z :: zs, h => by
    simp only [List.cons_append, List.map_cons, within] at h
    obtain ⟨lo, top, rfl, hl, hb, h0, h1⟩ := within_split msl ks zs h.2
    exact ⟨z :: lo, top, rfl, by simp [hl], ⟨⟨h.1.1, by have := h.1.2; omega⟩, hb⟩, h0, h1⟩
  | _ :: _, [], h => by simp [within] at h

theorem bitsOk_replicate (L : Nat) : ∀ (n : Nat) (lo : List Int), bitsOk (List.replicate n L) lo →
    ∀ x ∈ lo, 0 ≤ x ∧ x < 2 ^ L
  | 0, [], _ => by simp
  | n + 1, x :: lo, h => by
    simp only [List.replicate_succ, bitsOk] at h
    intro w hw
    simp only [List.mem_cons] at hw
    rcases hw with rfl | hw
    · exact h.1
    · exact bitsOk_replicate L n lo h.2 w hw
  | 0, _ :: _, h => by simp [bitsOk] at h
  | _ + 1, [], h => by simp [List.replicate_succ, bitsOk] at h

/-- Chunks of `w` bits read as base-`2^w` digits recompose the value of the bit vector
(`assigned_to_le_bytes`: `w = 8`; `assigned_to_le_chunks` when `w` does not divide `LOG2_BASE`). -/
theorem chunks_value_aux (w : Nat) (hw : 0 < w) : ∀ (fuel : Nat) (bits : List Bool), bits.length ≤ fuel →
    limbsValue w ((chunksOf (fuel + 1) w bits).map bitsValue) = bitsValue bits
  | 0, bits, h => by
    have : bits = [] := List.eq_nil_of_length_eq_zero (by omega)
    subst this
    simp [chunksOf, limbsValue, bitsValue]
  | fuel + 1, bits, h => by
    unfold chunksOf
    by_cases he : bits = []
    · subst he; simp [limbsValue, bitsValue]
    · have hne : ¬ (bits.isEmpty = true ∨ w = 0) := by
        simp only [List.isEmpty_iff]; rintro (h1 | h1); exact he h1; omega
      rw [if_neg hne]
      have hlen : 0 < bits.length := List.length_pos_iff.mpr he
      have hdrop : (bits.drop w).length ≤ fuel := by simp only [List.length_drop]; omega
      have ih := chunks_value_aux w hw fuel (bits.drop w) hdrop
      simp only [List.map_cons, limbsValue, ih]
      conv_rhs => rw [← List.take_append_drop w bits, bitsValue_append]
      by_cases hl : w ≤ bits.length
      · rw [List.length_take, Nat.min_eq_left hl]
      · have : bits.drop w = [] := List.drop_eq_nil_of_le (by omega)
        rw [this]; simp [bitsValue]

end MidnightZK.C05
