import MidnightZK.Proofs.C05.Gate
import MidnightZK.Proofs.C05.Limbs
import MidnightZK.Model.C05.Chip
/-!
Helper lemmas for C05: from the range checks AS EMITTED by the model's event emitter (bit lengths
`uBits`, `vBits`, the well-formed widths; tied to the real decomposition chip by the `fpt`
correspondence) and the tracked limb bounds to the hypotheses of the gate soundness theorems.
-/
namespace MidnightZK.C05

/-- The range checks a list of bit lengths imposes on a list of cell values: `0 ≤ vᵢ < 2^kᵢ`
(same length). -/
def bitsOk : List Nat → List Int → Prop
  | k :: ks, v :: vs => (0 ≤ v ∧ v < 2 ^ k) ∧ bitsOk ks vs
  | [], [] => True
  | _, _ => False

/-- Limb integers within tracked limb bounds (same length). -/
def within : List (Int × Int) → List Int → Prop
  | b :: bs, v :: vs => (b.1 ≤ v ∧ v ≤ b.2) ∧ within bs vs
  | [], [] => True
  | _, _ => False

theorem bitsOk_length : ∀ (ks : List Nat) (vs : List Int), bitsOk ks vs → vs.length = ks.length
  | [], [], _ => rfl
  | _ :: ks, _ :: vs, h => by simp [bitsOk_length ks vs h.2]
  | [], _ :: _, h => by simp [bitsOk] at h
  | _ :: _, [], h => by simp [bitsOk] at h

theorem within_length : ∀ (bs : List (Int × Int)) (vs : List Int), within bs vs → vs.length = bs.length
  | [], [], _ => rfl
  | _ :: bs, _ :: vs, h => by simp [within_length bs vs h.2]
  | [], _ :: _, h => by simp [within] at h
  | _ :: _, [], h => by simp [within] at h

theorem two_pow_log2_le (n : Int) (h : 1 ≤ n) : (2 : Int) ^ (Nat.log2 n.toNat) ≤ n := by
  have h0 : n.toNat ≠ 0 := by omega
  have := Nat.log2_self_le h0
  have h2 : ((2 ^ n.toNat.log2 : Nat) : Int) ≤ (n.toNat : Int) := by exact_mod_cast this
  have h3 : (n.toNat : Int) = n := Int.toNat_of_nonneg (by omega)
  rw [h3] at h2
  simpa using h2

/-- A cell range-checked `< 2^uBits` is `< u_max` (for `u_max ≥ 1`; `u_max` is a power of two in
the repository, so the two bounds coincide: `compiled_bounds_are_powers_of_two`). -/
theorem lt_uMax_of_bits (b : AuxBounds) (hpos : 1 ≤ b.uMax) (u : Int)
    (hu : u < 2 ^ ChipCfg.uBits b) : u < b.uMax := by
  have := two_pow_log2_le b.uMax hpos
  unfold ChipCfg.uBits at hu
  omega

theorem vjsInRange_of_bits : ∀ (vs : List (Int × Int)) (vjs : List Int),
    (∀ vb ∈ vs, 1 ≤ vb.2) → bitsOk (vs.map (fun vb => Nat.log2 vb.2.toNat)) vjs →
    vjsInRange vs vjs = true
  | [], [], _, _ => by simp [vjsInRange]
  | vb :: vs, vj :: vjs, hp, h => by
    simp only [List.map_cons, bitsOk] at h
    simp only [vjsInRange, Bool.and_eq_true, decide_eq_true_eq]
    have := two_pow_log2_le vb.2 (hp vb (by simp))
    exact ⟨⟨h.1.1, by omega⟩, vjsInRange_of_bits vs vjs (fun x hx => hp x (by simp [hx])) h.2⟩
  | [], _ :: _, _, h => by simp [bitsOk] at h
  | _ :: _, [], _, h => by simp [bitsOk] at h

/-! ## `get_identity_auxiliary_bounds` returns positive range sizes -/

theorem vBound_pos (p m kMin uMax mj eMin eMax : Int) (b : Int × Int)
    (h : vBound p m kMin uMax mj eMin eMax = .ok b) : 1 ≤ b.2 := by
  unfold vBound at h
  simp only at h
  split at h
  · cases h
  · cases h
    have := nextPow2_pos (divFloor (eMax - urem (kMin * m) mj) mj -
      divCeil (eMin - uMax * urem m mj - urem (kMin * m) mj) mj + 1)
    simp only
    omega

theorem vBounds_pos (p m kMin uMax : Int) : ∀ (ms : List Int) (bs vs : List (Int × Int)),
    vBounds p m kMin uMax ms bs = .ok vs → ∀ vb ∈ vs, 1 ≤ vb.2
  | [], _, vs, h => by
    unfold vBounds at h; cases h; simp
  | _ :: _, [], vs, h => by
    unfold vBounds at h; cases h; simp
  | mj :: ms, (eMin, eMax) :: bs, vs, h => by
    unfold vBounds at h
    split at h
    · cases h
    · next b hb =>
      split at h
      · cases h
      · next r hr =>
        cases h
        intro vb hvb
        simp only [List.mem_cons] at hvb
        rcases hvb with rfl | hvb
        · exact vBound_pos p m kMin uMax mj eMin eMax _ hb
        · exact vBounds_pos p m kMin uMax ms bs r hr vb hvb

/-- Whenever `get_identity_auxiliary_bounds` returns, `u_max ≥ 1` and every `vj_max ≥ 1`. -/
theorem identityAuxBounds_pos (p m : Int) (moduli : List Int) (eb : Int × Int)
    (mjb : List (Int × Int)) (r : AuxBounds)
    (hr : identityAuxBounds p m moduli eb mjb = .ok r) :
    1 ≤ r.uMax ∧ ∀ vb ∈ r.vs, 1 ≤ vb.2 := by
  unfold identityAuxBounds at hr
  simp only at hr
  split at hr
  · cases hr
  · split at hr
    · cases hr
    · next vs hvs =>
      cases hr
      refine ⟨?_, vBounds_pos _ _ _ _ _ _ _ hvs⟩
      have := nextPow2_pos (divFloor eb.2 m - divCeil eb.1 m + 1)
      simp only
      omega

/-! ## Well-formed widths and tracked bounds -/

theorem bitsOk_lt_base (L : Nat) : ∀ (ks : List Nat) (zs : List Int), (∀ k ∈ ks, k ≤ L) →
    bitsOk ks zs → ∀ z ∈ zs, 0 ≤ z ∧ z < 2 ^ L
  | [], [], _, _ => by simp
  | k :: ks, z :: zs, hk, h => by
    intro w hw
    simp only [List.mem_cons] at hw
    rcases hw with rfl | hw
    · have hpow : (2 : Int) ^ k ≤ 2 ^ L := pow_le_pow_right₀ (by norm_num) (hk k (by simp))
      exact ⟨h.1.1, lt_of_lt_of_le h.1.2 hpow⟩
    · exact bitsOk_lt_base L ks zs (fun x hx => hk x (by simp [hx])) h.2 w hw
  | [], _ :: _, _, h => by simp [bitsOk] at h
  | _ :: _, [], _, h => by simp [bitsOk] at h

/-- Limbs range-checked against the well-formed widths lie within `well_formed_bounds`. -/
theorem within_wf_of_bits : ∀ (ks : List Nat) (zs : List Int), bitsOk ks zs →
    within (ks.map (fun k => ((0 : Int), (2 : Int) ^ k - 1))) zs
  | [], [], _ => by simp [within]
  | k :: ks, z :: zs, h => by
    simp only [List.map_cons, within]
    exact ⟨⟨h.1.1, by have := h.1.2; omega⟩, within_wf_of_bits ks zs h.2⟩
  | [], _ :: _, h => by simp [bitsOk] at h
  | _ :: _, [], h => by simp [bitsOk] at h

theorem bits_of_within_wf : ∀ (ks : List Nat) (zs : List Int),
    within (ks.map (fun k => ((0 : Int), (2 : Int) ^ k - 1))) zs → bitsOk ks zs
  | [], [], _ => by simp [bitsOk]
  | k :: ks, z :: zs, h => by
    simp only [List.map_cons, within] at h
    exact ⟨⟨h.1.1, by have := h.1.2; omega⟩, bits_of_within_wf ks zs h.2⟩
  | [], _ :: _, h => by simp [within] at h
  | _ :: _, [], h => by simp [within] at h

/-- `make_canonical`'s guard on the tracked bounds gives the input range of the normalization
gate. -/
theorem within_guard (lim : Int) : ∀ (bs : List (Int × Int)) (xs : List Int),
    (bs.any (fun b => decide (b.1 < -lim) || decide (b.2 > lim))) = false → within bs xs →
    ∀ x ∈ xs, -lim ≤ x ∧ x ≤ lim
  | [], [], _, _ => by simp
  | b :: bs, x :: xs, hg, h => by
    simp only [List.any_cons, Bool.or_eq_false_iff, decide_eq_false_iff_not, not_lt] at hg
    intro w hw
    simp only [List.mem_cons] at hw
    rcases hw with rfl | hw
    · have := h.1
      have := hg.1
      constructor <;> omega
    · exact within_guard lim bs xs hg.2 h.2 w hw
  | [], _ :: _, _, h => by simp [within] at h
  | _ :: _, [], _, h => by simp [within] at h

/-- `is_well_formed` on the tracked bounds: the limbs lie within the well-formed bounds (the
branch of `normalize` that skips the normalization gate is sound). -/
theorem within_wf_of_isWellFormed : ∀ (bs : List (Int × Int)) (ks : List Nat) (xs : List Int),
    bs.length = ks.length →
    ((bs.zip ks).all (fun bk => decide (0 ≤ bk.1.1) && decide (bitsNat bk.1.2.natAbs ≤ bk.2))) = true →
    within bs xs → within (ks.map (fun k => ((0 : Int), (2 : Int) ^ k - 1))) xs
  | [], [], [], _, _, _ => by simp [within]
  | b :: bs, k :: ks, x :: xs, hl, hw, h => by
    simp only [List.zip_cons_cons, List.all_cons, Bool.and_eq_true, decide_eq_true_eq] at hw
    simp only [List.map_cons, within]
    refine ⟨?_, within_wf_of_isWellFormed bs ks xs (by simpa using hl) hw.2 h.2⟩
    obtain ⟨⟨h0, h1⟩, _⟩ := hw
    have hb := h.1
    have hlt := lt_two_pow_bitsNat b.2.natAbs
    have hpow : 2 ^ bitsNat b.2.natAbs ≤ 2 ^ k := Nat.pow_le_pow_right (by decide) h1
    have hnat : (b.2.natAbs : Int) = b.2 := Int.natAbs_of_nonneg (by omega)
    have : (b.2.natAbs : Int) < ((2 ^ k : Nat) : Int) := by exact_mod_cast lt_of_lt_of_le hlt hpow
    rw [hnat] at this
    push_cast at this
    constructor <;> omega
  | [], [], _ :: _, _, _, h => by simp [within] at h
  | _ :: _, _ :: _, [], _, _, h => by simp [within] at h
  | [], _ :: _, _, hl, _, _ => by simp at hl
  | _ :: _, [], _, hl, _, _ => by simp at hl

/-! ## Lazy arithmetic on tracked bounds -/

theorem within_zip3_add : ∀ (bx bY : List (Int × Int)) (cs xs ys : List Int),
    within bx xs → within bY ys → bx.length = cs.length → bY.length = cs.length →
    within (ChipCfg.zipB3 bx bY cs (fun a b k => (a.1 + b.1 + k, a.2 + b.2 + k)))
      (ChipCfg.zip3 xs ys cs (fun a b k => a + b + k))
  | [], [], [], [], [], _, _, _, _ => by simp [ChipCfg.zipB3, ChipCfg.zip3, within]
  | a :: bx, b :: bY, c :: cs, x :: xs, y :: ys, hx, hy, h1, h2 => by
    have ih := within_zip3_add bx bY cs xs ys hx.2 hy.2 (by simpa using h1) (by simpa using h2)
    simp only [ChipCfg.zipB3, ChipCfg.zip3] at ih ⊢
    simp only [List.zip_cons_cons, List.map_cons, within]
    have := hx.1; have := hy.1
    exact ⟨⟨by omega, by omega⟩, ih⟩
  | [], _, _, _ :: _, _, hx, _, _, _ => by simp [within] at hx
  | _ :: _, _, _, [], _, hx, _, _, _ => by simp [within] at hx
  | _, [], _, _, _ :: _, _, hy, _, _ => by simp [within] at hy
  | _, _ :: _, _, _, [], _, hy, _, _ => by simp [within] at hy
  | [], [], _ :: _, _, _, _, _, h1, _ => by simp at h1
  | _ :: _, _ :: _, [], _, _, _, _, h1, _ => by simp at h1
  | [], _ :: _, _, _, _, _, _, h1, h2 => by
    exfalso; simp only [List.length_nil, List.length_cons] at h1 h2; omega
  | _ :: _, [], _, _, _, _, _, h1, h2 => by
    exfalso; simp only [List.length_nil, List.length_cons] at h1 h2; omega

theorem within_zip3_sub : ∀ (bx bY : List (Int × Int)) (cs xs ys : List Int),
    within bx xs → within bY ys → bx.length = cs.length → bY.length = cs.length →
    within (ChipCfg.zipB3 bx bY cs (fun a b k => (a.1 - b.2 + k, a.2 - b.1 + k)))
      (ChipCfg.zip3 xs ys cs (fun a b k => a - b + k))
  | [], [], [], [], [], _, _, _, _ => by simp [ChipCfg.zipB3, ChipCfg.zip3, within]
  | a :: bx, b :: bY, c :: cs, x :: xs, y :: ys, hx, hy, h1, h2 => by
    have ih := within_zip3_sub bx bY cs xs ys hx.2 hy.2 (by simpa using h1) (by simpa using h2)
    simp only [ChipCfg.zipB3, ChipCfg.zip3] at ih ⊢
    simp only [List.zip_cons_cons, List.map_cons, within]
    have := hx.1; have := hy.1
    exact ⟨⟨by omega, by omega⟩, ih⟩
  | [], _, _, _ :: _, _, hx, _, _, _ => by simp [within] at hx
  | _ :: _, _, _, [], _, hx, _, _, _ => by simp [within] at hx
  | _, [], _, _, _ :: _, _, hy, _, _ => by simp [within] at hy
  | _, _ :: _, _, _, [], _, hy, _, _ => by simp [within] at hy
  | [], [], _ :: _, _, _, _, _, h1, _ => by simp at h1
  | _ :: _, _ :: _, [], _, _, _, _, h1, _ => by simp at h1
  | [], _ :: _, _, _, _, _, _, h1, h2 => by
    exfalso; simp only [List.length_nil, List.length_cons] at h1 h2; omega
  | _ :: _, [], _, _, _, _, _, h1, h2 => by
    exfalso; simp only [List.length_nil, List.length_cons] at h1 h2; omega

end MidnightZK.C05
