import Mathlib.Data.Int.GCD
import Mathlib.Tactic.Linarith
import Mathlib.Tactic.Ring
import Mathlib.Tactic.Positivity
import MidnightZK.Model.C05.Bounds
/-!
Helper lemmas for C05: the CRT lift and the soundness / completeness of the model of
`get_identity_auxiliary_bounds`.
-/
namespace MidnightZK.C05

/-! ## Rounding helpers -/

theorem divFloor_mul_le (a b : Int) (hb : 0 < b) : divFloor a b * b ≤ a := by
  unfold divFloor; exact Int.ediv_mul_le a (ne_of_gt hb)

theorem lt_divFloor_succ_mul (a b : Int) (hb : 0 < b) : a < (divFloor a b + 1) * b := by
  unfold divFloor; exact Int.lt_ediv_add_one_mul_self a hb

theorem le_divCeil_mul (a b : Int) (hb : 0 < b) : a ≤ divCeil a b * b := by
  unfold divCeil
  have := Int.ediv_mul_le (-a) (ne_of_gt hb)
  linarith

theorem divCeil_pred_mul_lt (a b : Int) (hb : 0 < b) : (divCeil a b - 1) * b < a := by
  unfold divCeil
  have := Int.lt_ediv_add_one_mul_self (-a) hb
  linarith

/-- `k·b ≥ a → k ≥ ⌈a/b⌉`. -/
theorem divCeil_le_of_le_mul (a b k : Int) (hb : 0 < b) (h : a ≤ k * b) : divCeil a b ≤ k := by
  by_contra hc
  have hc : k + 1 ≤ divCeil a b := by omega
  have h1 := divCeil_pred_mul_lt a b hb
  have : k * b ≤ (divCeil a b - 1) * b := by
    apply Int.mul_le_mul_of_nonneg_right _ (le_of_lt hb); omega
  linarith

/-- `k·b ≤ a → k ≤ ⌊a/b⌋`. -/
theorem le_divFloor_of_mul_le (a b k : Int) (hb : 0 < b) (h : k * b ≤ a) : k ≤ divFloor a b := by
  by_contra hc
  have hc : divFloor a b + 1 ≤ k := by omega
  have h1 := lt_divFloor_succ_mul a b hb
  have : (divFloor a b + 1) * b ≤ k * b := by
    apply Int.mul_le_mul_of_nonneg_right _ (le_of_lt hb); omega
  linarith

theorem lt_two_pow_bitsNat (n : Nat) : n < 2 ^ bitsNat n := by
  unfold bitsNat
  split
  · next h => subst h; simp
  · exact Nat.lt_log2_self

/-- `next_power_of_two v ≥ v` for every `v` (for `v ≤ 0` trivially). -/
theorem le_nextPow2 (v : Int) : v ≤ nextPow2 v := by
  unfold nextPow2 ceilLog2
  by_cases hv : v ≤ 0
  · have : (0 : Int) < 2 ^ bitsNat (v - 1).natAbs := by positivity
    omega
  · have h1 : ((v - 1).natAbs : Int) = v - 1 := by omega
    have h2 := lt_two_pow_bitsNat (v - 1).natAbs
    have h3 : (((v - 1).natAbs : Nat) : Int) < ((2 ^ bitsNat (v - 1).natAbs : Nat) : Int) := by
      exact_mod_cast h2
    rw [h1] at h3
    push_cast at h3
    omega

theorem nextPow2_pos (v : Int) : 0 < nextPow2 v := by
  unfold nextPow2; positivity

/-! ## CRT lift -/

theorem foldl_lcm_dvd (D : Int) : ∀ (ms : List Int) (acc : Int), acc ∣ D → (∀ m ∈ ms, m ∣ D) →
    ms.foldl lcmZ acc ∣ D
  | [], acc, h, _ => by simpa using h
  | m :: t, acc, h, hm => by
      simp only [List.foldl_cons]
      apply foldl_lcm_dvd D t
      · exact Int.coe_lcm_dvd h (hm m (by simp))
      · intro m' hm'; exact hm m' (by simp [hm'])

/-- The number-theoretic heart: an integer divisible by the native modulus and by every
auxiliary modulus, and smaller in absolute value than their lcm, is zero. -/
theorem crt_zero (p : Int) (ms : List Int) (D : Int)
    (hp : p ∣ D) (hms : ∀ m ∈ ms, m ∣ D) (hlt : |D| < ms.foldl lcmZ p) : D = 0 :=
  Int.eq_zero_of_abs_lt_dvd (foldl_lcm_dvd D ms p hp hms) hlt

/-! ## The lcm loop -/

theorem takeModuli_spec (lo hi : Int) : ∀ (ms : List Int) (l : Int),
    ∃ k, k ≤ ms.length ∧ (takeModuli lo hi l ms).2 = ms.take k ∧
      (takeModuli lo hi l ms).1 = (ms.take k).foldl lcmZ l
  | [], l => ⟨0, by simp [takeModuli]⟩
  | mj :: rest, l => by
    unfold takeModuli
    split
    · exact ⟨0, by simp⟩
    · obtain ⟨k, h0, h1, h2⟩ := takeModuli_spec lo hi rest (lcmZ l mj)
      exact ⟨k + 1, by simp [h0], by simp [h1], by simp [h2]⟩

/-! ## One auxiliary modulus -/

/-- Soundness of one auxiliary-modulus identity: if `vBound` accepted (no wrap-around) and the
identity holds modulo the native modulus `p` with `u`, `vj` in their ranges and the reduced
expression within its declared bounds, then the identity holds over the integers, hence `mj`
divides `Ej - (u + kMin)·m`. -/
theorem vBound_sound (p m kMin uMax mj eMin eMax ljMin vjMax u Ej vj : Int)
    (hmj : 0 < mj)
    (hb : vBound p m kMin uMax mj eMin eMax = .ok (ljMin, vjMax))
    (hu0 : 0 ≤ u) (hu1 : u < uMax) (hE0 : eMin ≤ Ej) (hE1 : Ej ≤ eMax)
    (hv0 : 0 ≤ vj) (hv1 : vj < vjMax)
    (hid : p ∣ Ej - u * urem m mj - urem (kMin * m) mj - (vj + ljMin) * mj) :
    mj ∣ Ej - (u + kMin) * m := by
  unfold vBound at hb
  simp only at hb
  split at hb
  · cases hb
  · next hc =>
    simp only [Except.ok.injEq, Prod.mk.injEq] at hb
    obtain ⟨hlj, hvj⟩ := hb
    rw [hlj] at hvj
    rw [hlj, hvj] at hc
    push Not at hc
    obtain ⟨hlo, hhi⟩ := hc
    have hr0 : 0 ≤ urem m mj := Int.emod_nonneg _ (ne_of_gt hmj)
    have h1 : u * urem m mj ≤ uMax * urem m mj :=
      Int.mul_le_mul_of_nonneg_right (le_of_lt hu1) hr0
    have h2 : 0 ≤ u * urem m mj := Int.mul_nonneg hu0 hr0
    have h3 : (vj + ljMin) * mj < (vjMax + ljMin) * mj := by
      apply Int.mul_lt_mul_of_pos_right _ hmj; omega
    have h4 : ljMin * mj ≤ (vj + ljMin) * mj :=
      Int.mul_le_mul_of_nonneg_right (by omega) (le_of_lt hmj)
    set D := Ej - u * urem m mj - urem (kMin * m) mj - (vj + ljMin) * mj with hD
    have habs : |D| < p := by
      rw [abs_lt]; constructor <;> linarith
    have hz : D = 0 := Int.eq_zero_of_abs_lt_dvd hid habs
    -- back to the unreduced constants
    have e1 : urem m mj = m - mj * (m / mj) := by
      unfold urem; rw [Int.emod_def]
    have e2 : urem (kMin * m) mj = kMin * m - mj * (kMin * m / mj) := by
      unfold urem; rw [Int.emod_def]
    refine ⟨-(u * (m / mj)) - (kMin * m / mj) + (vj + ljMin), ?_⟩
    rw [hD, e1, e2] at hz
    linarith

/-- Completeness of one auxiliary-modulus identity: for the honest `u` (any `u ∈ [0, uMax]`) and a
reduced expression within its declared bounds such that `mj` divides the identity's left-hand side,
the honest `vj = lhs / mj - ljMin` lies in `[0, vjMax)` and satisfies the identity exactly. -/
theorem vBound_complete (p m kMin uMax mj eMin eMax ljMin vjMax u Ej : Int)
    (hmj : 0 < mj)
    (hb : vBound p m kMin uMax mj eMin eMax = .ok (ljMin, vjMax))
    (hu0 : 0 ≤ u) (hu1 : u ≤ uMax) (hE0 : eMin ≤ Ej) (hE1 : Ej ≤ eMax)
    (hdvd : mj ∣ Ej - u * urem m mj - urem (kMin * m) mj) :
    let vj := computeVj m mj Ej u kMin ljMin
    0 ≤ vj ∧ vj < vjMax ∧ Ej - u * urem m mj - urem (kMin * m) mj - (vj + ljMin) * mj = 0 := by
  intro vj
  unfold vBound at hb
  simp only at hb
  split at hb
  · cases hb
  · simp only [Except.ok.injEq, Prod.mk.injEq] at hb
    obtain ⟨hlj, hvj⟩ := hb
    obtain ⟨q, hq⟩ := hdvd
    have hr0 : 0 ≤ urem m mj := Int.emod_nonneg _ (ne_of_gt hmj)
    have hvjdef : vj = q - ljMin := by
      show computeVj m mj Ej u kMin ljMin = q - ljMin
      unfold computeVj
      rw [hq, Int.mul_tdiv_cancel_left _ (ne_of_gt hmj)]
    have h1 : u * urem m mj ≤ uMax * urem m mj := Int.mul_le_mul_of_nonneg_right hu1 hr0
    have h2 : 0 ≤ u * urem m mj := Int.mul_nonneg hu0 hr0
    -- ljMin ≤ q ≤ ljMax
    have hlo : ljMin ≤ q := by
      rw [← hlj]
      apply divCeil_le_of_le_mul _ _ _ hmj
      have : mj * q = q * mj := Int.mul_comm _ _
      linarith
    have hhi : q ≤ divFloor (eMax - urem (kMin * m) mj) mj := by
      apply le_divFloor_of_mul_le _ _ _ hmj
      have : mj * q = q * mj := Int.mul_comm _ _
      linarith
    have hnp := le_nextPow2 (divFloor (eMax - urem (kMin * m) mj) mj - ljMin + 1)
    rw [hlj] at hvj
    rw [hvj] at hnp
    refine ⟨by omega, by omega, ?_⟩
    rw [hvjdef, hq]; ring

/-! ## All auxiliary moduli -/

/-- The per-modulus hypotheses of the lift, over the zipped lists (necessary moduli, declared
bounds of the reduced expressions, returned `(ljMin, vjMax)`, reduced expression values, `vj`
values): bounds, congruence with the integer expression `E`, range of `vj`, identity modulo `p`. -/
def WitOK (p m kMin u E : Int) :
    List Int → List (Int × Int) → List (Int × Int) → List Int → List Int → Prop
  | mj :: ms, eb :: bs, vb :: vsb, Ej :: Es, vj :: vjs =>
    (eb.1 ≤ Ej ∧ Ej ≤ eb.2 ∧ mj ∣ Ej - E ∧ 0 ≤ vj ∧ vj < vb.2 ∧
      p ∣ Ej - u * urem m mj - urem (kMin * m) mj - (vj + vb.1) * mj) ∧
    WitOK p m kMin u E ms bs vsb Es vjs
  | _, _, [], _, _ => True
  | _, _, _ :: _, _, _ => False

theorem vBounds_length (p m kMin uMax : Int) : ∀ (ms : List Int) (bs vsb : List (Int × Int)),
    vBounds p m kMin uMax ms bs = .ok vsb → vsb.length = min ms.length bs.length
  | [], bs, vsb, h => by cases bs <;> simp [vBounds] at h <;> simp [← h]
  | mj :: ms, [], vsb, h => by simp [vBounds] at h; subst h; simp
  | mj :: ms, (eMin, eMax) :: bs, vsb, h => by
    unfold vBounds at h
    split at h
    · cases h
    · next b hb =>
      split at h
      · cases h
      · next r hr =>
        cases h
        simp [vBounds_length p m kMin uMax ms bs r hr]

theorem vBounds_sound (p m kMin uMax u E : Int) (hu0 : 0 ≤ u) (hu1 : u < uMax) :
    ∀ (ms : List Int) (bs vsb : List (Int × Int)) (Es vjs : List Int),
    (∀ mj ∈ ms, 0 < mj) →
    vBounds p m kMin uMax ms bs = .ok vsb →
    WitOK p m kMin u E ms bs vsb Es vjs →
    ∀ mj ∈ ms.take vsb.length, mj ∣ E - (u + kMin) * m
  | [], bs, vsb, Es, vjs, _, _, _ => by simp
  | mj :: ms, [], vsb, Es, vjs, _, h, _ => by
    simp [vBounds] at h; subst h; simp
  | mj :: ms, (eMin, eMax) :: bs, vsb, Es, vjs, hpos, h, hw => by
    unfold vBounds at h
    split at h
    · cases h
    · next b hb =>
      split at h
      · cases h
      · next r hr =>
        cases h
        match Es, vjs, hw with
        | Ej :: Es, vj :: vjs, hw =>
          simp only [WitOK] at hw
          obtain ⟨⟨h0, h1, hcong, hv0, hv1, hid⟩, hrest⟩ := hw
          intro x hx
          simp only [List.length_cons, List.take_succ_cons, List.mem_cons] at hx
          rcases hx with rfl | hx
          · have := vBound_sound p m kMin uMax x eMin eMax b.1 b.2 u Ej vj
              (hpos x (by simp)) (by simpa using hb) hu0 hu1 h0 h1 hv0 hv1 hid
            have h2 : E - (u + kMin) * m = (Ej - (u + kMin) * m) - (Ej - E) := by ring
            rw [h2]; exact Int.dvd_sub this hcong
          · exact vBounds_sound p m kMin uMax u E hu0 hu1 ms bs r Es vjs
              (fun y hy => hpos y (by simp [hy])) hr hrest x hx

/-! ## The whole function -/

/-- **Soundness of `get_identity_auxiliary_bounds`** (model): whenever the function returns
`(kMin, uMax, vs)`, any integer expression value `E` within the declared bounds, any
`u ∈ [0, uMax)`, and any per-modulus data satisfying `WitOK` (reduced expression within its
declared bounds and congruent to `E`, `vj ∈ [0, vjMax)`, identity modulo the native modulus),
together with the native identity `p ∣ E - (u + kMin)·m`, force the identity over the integers. -/
theorem identityAuxBounds_sound (p m : Int) (moduli : List Int) (eb : Int × Int)
    (mjb : List (Int × Int)) (r : AuxBounds)
    (hm : 0 < m) (hmods : ∀ mj ∈ moduli, 0 < mj) (hlen : moduli.length ≤ mjb.length)
    (hr : identityAuxBounds p m moduli eb mjb = .ok r)
    (E u : Int) (Es vjs : List Int)
    (hE0 : eb.1 ≤ E) (hE1 : E ≤ eb.2) (hu0 : 0 ≤ u) (hu1 : u < r.uMax)
    (hnat : p ∣ E - (u + r.kMin) * m)
    (hw : WitOK p m r.kMin u E moduli mjb r.vs Es vjs) :
    E = (u + r.kMin) * m := by
  unfold identityAuxBounds at hr
  simp only at hr
  split at hr
  · cases hr
  · next hc =>
    split at hr
    · cases hr
    · next vs hvs =>
      cases hr
      simp only at hu1 hnat hw ⊢
      push Not at hc
      set kMin := divCeil eb.1 m with hk
      set uMax := nextPow2 (divFloor eb.2 m - kMin + 1) with hU
      set lower := eb.1 - (uMax + kMin) * m with hlo
      set upper := eb.2 - kMin * m with hup
      obtain ⟨k, hkl, hk2, hk1⟩ := takeModuli_spec lower upper moduli p
      rw [hk1] at hc
      rw [hk2] at hvs
      -- the witness data restricted to the necessary moduli
      have hlenv := vBounds_length _ _ _ _ _ _ _ hvs
      have hdv : ∀ mj ∈ (moduli.take k).take vs.length, mj ∣ E - (u + kMin) * m := by
        apply vBounds_sound p m kMin uMax u E hu0 hu1 (moduli.take k) mjb vs Es vjs
          (fun y hy => hmods y (List.mem_of_mem_take hy)) hvs
        -- WitOK only inspects the first `vs.length` entries of the moduli list
        clear hvs hc hk1 hk2
        have hvl : vs.length ≤ k := by
          rw [hlenv]; simp only [List.length_take]; omega
        clear hlenv hkl
        induction vs generalizing moduli mjb Es vjs k with
        | nil => cases moduli.take k <;> cases mjb <;> simp [WitOK]
        | cons vb vsb ih =>
          match moduli, mjb, Es, vjs, hw with
          | mj :: ms, eb' :: bs, Ej :: Es', vj :: vjs', hw =>
            match k, hvl with
            | k' + 1, hvl =>
              simp only [WitOK] at hw ⊢
              simp only [List.take_succ_cons, WitOK]
              refine ⟨hw.1, ?_⟩
              exact ih ms bs (fun y hy => hmods y (by simp [hy]))
                (by simp at hlen; omega) Es' vjs' hw.2 k' (by simp at hvl; omega)
      have hfull : (moduli.take k).take vs.length = moduli.take k := by
        rw [hlenv, List.take_take]; congr 1
        simp only [List.length_take]; omega
      rw [hfull] at hdv
      have hD : E - (u + kMin) * m = 0 := by
        apply crt_zero p (moduli.take k) _ hnat hdv
        have hm0 : 0 ≤ m := le_of_lt hm
        have h1 : (u + kMin) * m < (uMax + kMin) * m := by
          apply Int.mul_lt_mul_of_pos_right _ hm; omega
        have h2 : kMin * m ≤ (u + kMin) * m :=
          Int.mul_le_mul_of_nonneg_right (by omega) hm0
        rw [abs_lt]; constructor <;> linarith [hc.1, hc.2]
      linarith

/-- **Completeness of `get_identity_auxiliary_bounds`** (model), integer part: for an expression
value within the declared bounds that is a multiple of `m`, the honest quotient
`u = E / m - kMin` (`compute_u`) lies in `[0, uMax)` and satisfies `E = (u + kMin)·m`. -/
theorem computeU_in_range (p m : Int) (moduli : List Int) (eb : Int × Int)
    (mjb : List (Int × Int)) (r : AuxBounds) (hm : 0 < m)
    (hr : identityAuxBounds p m moduli eb mjb = .ok r)
    (E : Int) (hE0 : eb.1 ≤ E) (hE1 : E ≤ eb.2) (hdvd : m ∣ E) :
    let u := computeU m E r.kMin
    0 ≤ u ∧ u < r.uMax ∧ E = (u + r.kMin) * m := by
  intro u
  unfold identityAuxBounds at hr
  simp only at hr
  split at hr
  · cases hr
  · split at hr
    · cases hr
    · cases hr
      simp only
      obtain ⟨q, hq⟩ := hdvd
      have hu : u = q - divCeil eb.1 m := by
        show computeU m E (divCeil eb.1 m) = _
        unfold computeU
        rw [hq, Int.mul_tdiv_cancel_left _ (ne_of_gt hm)]
      have hqm : m * q = q * m := Int.mul_comm _ _
      have h1 : divCeil eb.1 m ≤ q := divCeil_le_of_le_mul _ _ _ hm (by linarith)
      have h2 : q ≤ divFloor eb.2 m := le_divFloor_of_mul_le _ _ _ hm (by linarith)
      have h3 := le_nextPow2 (divFloor eb.2 m - divCeil eb.1 m + 1)
      refine ⟨by omega, by omega, ?_⟩
      rw [hu, hq]; ring

end MidnightZK.C05
