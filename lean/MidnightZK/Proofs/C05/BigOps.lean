import MidnightZK.Proofs.C05.BigSat
/-!
C05, BigUint operations as CONSTRAINT SYSTEMS over arbitrary assignments: `normalize`, `add`,
`mul`, `sub`, `div_rem`, `mod_mul` composed from the carry-chain relation `NormSat` (range checks
as emitted by `Big.normRc`), the prover-chosen witnesses of `assign_bounded` (range checks
`Big.boundedSb`) and the limb-wise native sums / products.
-/
namespace MidnightZK.C05

/-- What `normalize(x)` enforces on an arbitrary assignment, `x'` being the returned number:
either `x` is already normalised (tracked bounds `≤ lb`) and is returned as it is, or the carry
chain runs on `x` padded with `k` zero limbs (`resize`), with the range checks `Big.normRc` emits
for the tracked bounds, the last carry being asserted zero; the result has bounds `lb`. -/
def NormOut (p lb nb : Nat) (x x' : BVar) : Prop :=
  (isNormalized lb x.sb = true ∧ x' = x) ∨
  (x'.sb = List.replicate x'.limbs.length lb ∧ ∃ (k : Nat) (rc qrs : List (Nat × Nat)),
    Big.normRc lb nb 0 (x.sb ++ List.replicate k 0) = some rc ∧
    NormSat p lb 0 (x.limbs ++ List.replicate k 0) rc qrs 0 ∧ x'.limbs = qrs.map (·.2))

theorem limbsWithin_replicate (lb : Nat) : ∀ (ls : List Nat), (∀ l ∈ ls, l < 2 ^ lb) →
    limbsWithin ls (List.replicate ls.length lb)
  | [], _ => trivial
  | l :: ls, h => by
    simp only [List.length_cons, List.replicate_succ, limbsWithin]
    exact ⟨h l (by simp), limbsWithin_replicate lb ls (fun a ha => h a (by simp [ha]))⟩

theorem isNormalized_replicate (lb n : Nat) : isNormalized lb (List.replicate n lb) = true := by
  simp [isNormalized]

/-- `normalize` is sound on every assignment: the returned limbs lie within the bounds recorded for
them, are normalised, and represent the same integer. -/
theorem normOut_sound (p lb nb : Nat) (hp : 2 ^ (nb - 1) ≤ p) (hlb : lb < nb) (x x' : BVar)
    (hx : limbsWithin x.limbs x.sb) (h : NormOut p lb nb x x') :
    limbsWithin x'.limbs x'.sb ∧ isNormalized lb x'.sb = true ∧ (∀ z ∈ x'.limbs, z < 2 ^ lb) ∧
      bigValue lb x'.limbs = bigValue lb x.limbs := by
  rcases h with ⟨hn, rfl⟩ | ⟨hsb, k, rc, qrs, hrc, hs, hl⟩
  · exact ⟨hx, hn, limbsWithin_normalized lb _ _ hx hn, rfl⟩
  · have hpad := limbsWithin_pad x.limbs x.sb k hx
    have hch := normSat_pins_chain p lb nb hp hlb _ _ 0 0 rc qrs 0 hpad (by simp) hrc hs
    obtain ⟨_, h2, h3⟩ := normChain_spec lb nb _ _ 0 0 _ 0 hch
    rw [← hl] at h2 h3
    refine ⟨by rw [hsb]; exact limbsWithin_replicate lb _ h2, by rw [hsb]; exact isNormalized_replicate _ _,
      h2, ?_⟩
    rw [bigValue_pad] at h3
    simpa using h3

/-- Completeness of `normalize`: for every input within its tracked bounds for which the emitter
does not panic, the honest carries satisfy the constraints (they pass the emitted range checks). -/
theorem normOut_complete (p lb nb : Nat) (x : BVar) (k : Nat) (rc : List (Nat × Nat))
    (hx : limbsWithin x.limbs x.sb)
    (hrc : Big.normRc lb nb 0 (x.sb ++ List.replicate k 0) = some rc) :
    ∃ c, NormSat p lb 0 (x.limbs ++ List.replicate k 0) rc
      (honestQR lb 0 (x.limbs ++ List.replicate k 0)) c :=
  normSat_honest p lb nb _ _ 0 0 rc (limbsWithin_pad _ _ k hx) (by simp) hrc

/-- `add(x, y) = z` as constraints: native limb-wise sums, then `normalize`. -/
def AddSat (p lb nb : Nat) (x y z : BVar) : Prop :=
  NormOut p lb nb ⟨Big.zipAddLimbs x.limbs y.limbs, Big.zipAddBounds x.sb y.sb⟩ z

theorem addSat_sound (p lb nb : Nat) (hp : 2 ^ (nb - 1) ≤ p) (hlb : lb < nb) (x y z : BVar)
    (hx : limbsWithin x.limbs x.sb) (hy : limbsWithin y.limbs y.sb) (h : AddSat p lb nb x y z) :
    limbsWithin z.limbs z.sb ∧ isNormalized lb z.sb = true ∧ (∀ l ∈ z.limbs, l < 2 ^ lb) ∧
      bigValue lb z.limbs = bigValue lb x.limbs + bigValue lb y.limbs := by
  obtain ⟨h1, h2, h3, h4⟩ := normOut_sound p lb nb hp hlb _ z
    (limbsWithin_zipAdd _ _ _ _ hx hy) h
  exact ⟨h1, h2, h3, by rw [h4]; exact zipAddLimbs_value lb _ _⟩

/-- `mul(x, y) = z` as constraints: both operands normalised, the accumulation loop (native
products and sums; tracked bounds `Big.mulAccum`), then `normalize`. -/
def MulSat (p lb nb : Nat) (x y z : BVar) : Prop :=
  ∃ x' y' : BVar, NormOut p lb nb x x' ∧ NormOut p lb nb y y' ∧ x'.limbs ≠ [] ∧ y'.limbs ≠ [] ∧
    NormOut p lb nb ⟨(Big.mulAccum x' y').1, (Big.mulAccum x' y').2⟩ z

theorem mulSat_sound (p lb nb : Nat) (hp : 2 ^ (nb - 1) ≤ p) (hlb : lb < nb) (x y z : BVar)
    (hx : limbsWithin x.limbs x.sb) (hy : limbsWithin y.limbs y.sb) (h : MulSat p lb nb x y z) :
    limbsWithin z.limbs z.sb ∧ isNormalized lb z.sb = true ∧ (∀ l ∈ z.limbs, l < 2 ^ lb) ∧
      bigValue lb z.limbs = bigValue lb x.limbs * bigValue lb y.limbs := by
  obtain ⟨x', y', hnx, hny, _, hne, hz⟩ := h
  obtain ⟨wx, _, _, vx⟩ := normOut_sound p lb nb hp hlb x x' hx hnx
  obtain ⟨wy, _, _, vy⟩ := normOut_sound p lb nb hp hlb y y' hy hny
  obtain ⟨wa, va⟩ := mulAccum_spec lb x' y' wx wy (fun _ => hne)
  obtain ⟨h1, h2, h3, h4⟩ := normOut_sound p lb nb hp hlb _ z wa hz
  exact ⟨h1, h2, h3, by rw [h4, va, vx, vy]⟩

/-- `sub(x, y) = res` as constraints: `res` is a prover-chosen witness whose limbs are range-checked
with the bit lengths `Big.boundedSb lb (nb_bits x)` (`assign_bounded`, events `A`), `res + y` is
normalised to `z`, and `z` is asserted equal to `x` limb by limb (after `resize`: equal values). -/
def SubSat (p lb nb : Nat) (x y res : BVar) : Prop :=
  res.sb = Big.boundedSb lb (nbBits lb x.sb) ∧ limbsWithin res.limbs res.sb ∧
    ∃ z : BVar, AddSat p lb nb res y z ∧ bigValue lb z.limbs = bigValue lb x.limbs

theorem subSat_sound (p lb nb : Nat) (hp : 2 ^ (nb - 1) ≤ p) (hlb : lb < nb) (x y res : BVar)
    (hy : limbsWithin y.limbs y.sb) (h : SubSat p lb nb x y res) :
    bigValue lb res.limbs = bigValue lb x.limbs - bigValue lb y.limbs ∧
      bigValue lb y.limbs ≤ bigValue lb x.limbs := by
  obtain ⟨_, hw, z, ha, he⟩ := h
  have := (addSat_sound p lb nb hp hlb res y z hw hy ha).2.2.2
  omega

/-- `div_rem(x, y) = (q, r)` as constraints: `q`, `r` prover-chosen, range-checked limb by limb
with `Big.boundedSb` of `nb_bits x` / `nb_bits y`; `q·y` (`mul`), `+ r` (`add`), asserted equal to
`x`; `r < y` (`assert_lower_than`: the comparison fold, `lower_than_sound`). -/
def DivRemSat (p lb nb : Nat) (x y q r : BVar) : Prop :=
  q.sb = Big.boundedSb lb (nbBits lb x.sb) ∧ limbsWithin q.limbs q.sb ∧
  r.sb = Big.boundedSb lb (nbBits lb y.sb) ∧ limbsWithin r.limbs r.sb ∧
    ∃ qy s : BVar, MulSat p lb nb q y qy ∧ AddSat p lb nb qy r s ∧
      bigValue lb s.limbs = bigValue lb x.limbs ∧ bigValue lb r.limbs < bigValue lb y.limbs

theorem divRemSat_sound (p lb nb : Nat) (hp : 2 ^ (nb - 1) ≤ p) (hlb : lb < nb) (x y q r : BVar)
    (hy : limbsWithin y.limbs y.sb) (h : DivRemSat p lb nb x y q r) :
    bigValue lb q.limbs = bigValue lb x.limbs / bigValue lb y.limbs ∧
      bigValue lb r.limbs = bigValue lb x.limbs % bigValue lb y.limbs := by
  obtain ⟨_, hq, _, hr, qy, s, hm, ha, he, hlt⟩ := h
  obtain ⟨wqy, _, _, vqy⟩ := mulSat_sound p lb nb hp hlb q y qy hq hy hm
  obtain ⟨_, _, _, vs⟩ := addSat_sound p lb nb hp hlb qy r s wqy hr ha
  have e : bigValue lb x.limbs = bigValue lb q.limbs * bigValue lb y.limbs + bigValue lb r.limbs := by
    rw [← he, vs, vqy]
  have hy0 : 0 < bigValue lb y.limbs := by omega
  rw [e]
  constructor
  · rw [Nat.add_comm, Nat.add_mul_div_right _ _ hy0, Nat.div_eq_of_lt hlt, Nat.zero_add]
  · rw [Nat.add_comm, Nat.add_mul_mod_self_right, Nat.mod_eq_of_lt hlt]

/-- `mod_mul(x, y, m) = r` as constraints. -/
def ModMulSat (p lb nb : Nat) (x y m r : BVar) : Prop :=
  ∃ pr q : BVar, MulSat p lb nb x y pr ∧ DivRemSat p lb nb pr m q r

theorem modMulSat_sound (p lb nb : Nat) (hp : 2 ^ (nb - 1) ≤ p) (hlb : lb < nb) (x y m r : BVar)
    (hx : limbsWithin x.limbs x.sb) (hy : limbsWithin y.limbs y.sb) (hm : limbsWithin m.limbs m.sb)
    (h : ModMulSat p lb nb x y m r) :
    limbsWithin r.limbs r.sb ∧
    bigValue lb r.limbs = (bigValue lb x.limbs * bigValue lb y.limbs) % bigValue lb m.limbs ∧
      bigValue lb r.limbs < bigValue lb m.limbs := by
  obtain ⟨pr, q, hmul, hdr⟩ := h
  obtain ⟨_, _, _, vp⟩ := mulSat_sound p lb nb hp hlb x y pr hx hy hmul
  have h2 := (divRemSat_sound p lb nb hp hlb pr m q r hm hdr).2
  obtain ⟨_, _, _, hr, _, _, _, _, _, hlt⟩ := hdr
  exact ⟨hr, by rw [h2, vp], hlt⟩

/-- The relation `MM a b r` of the `mod_exp` loop instantiated with the limb-level constraint
system of `mod_mul` for a modulus `m` (a fixed `AssignedBigUint` within its bounds): some
operands representing `a`, `b` (within their tracked bounds) and a result representing `r`. -/
def MMc (p lb nb : Nat) (m : BVar) (a b r : Nat) : Prop :=
  ∃ x y rr : BVar, limbsWithin x.limbs x.sb ∧ limbsWithin y.limbs y.sb ∧
    bigValue lb x.limbs = a ∧ bigValue lb y.limbs = b ∧ bigValue lb rr.limbs = r ∧
    ModMulSat p lb nb x y m rr

theorem mmc_sound (p lb nb : Nat) (hp : 2 ^ (nb - 1) ≤ p) (hlb : lb < nb) (m : BVar)
    (hm : limbsWithin m.limbs m.sb) (a b r : Nat) (h : MMc p lb nb m a b r) :
    r = a * b % bigValue lb m.limbs ∧ r < bigValue lb m.limbs := by
  obtain ⟨x, y, rr, hx, hy, rfl, rfl, rfl, hs⟩ := h
  obtain ⟨_, h1, h2⟩ := modMulSat_sound p lb nb hp hlb x y m rr hx hy hm hs
  exact ⟨h1, h2⟩

end MidnightZK.C05
