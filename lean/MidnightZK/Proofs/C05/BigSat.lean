import Mathlib.Tactic.Linarith
import Mathlib.Tactic.Ring
import Mathlib.Tactic.Positivity
import MidnightZK.Proofs.C05.Big
/-!
Helper lemmas for C05, BigUint at the level of the CONSTRAINTS (every assignment): the carry
chain of `normalize` with prover-chosen quotients / remainders and the range checks as emitted
(`Big.normRc`, read back from the real decomposition chip on every run: `bigrc` lines), the
accumulation loop of `mul` with its tracked bounds, limb-wise addition of operands of different
limb counts, and the square-and-multiply loop of `mod_exp`.
-/
namespace MidnightZK.C05

/-- Limb integers within their size bounds (`limb < 2^bound`, same length). -/
def limbsWithin : List Nat → List Nat → Prop
  | x :: xs, b :: bs => x < 2 ^ b ∧ limbsWithin xs bs
  | [], [] => True
  | _, _ => False

theorem limbsWithin_length : ∀ (xs bs : List Nat), limbsWithin xs bs → xs.length = bs.length
  | [], [], _ => rfl
  | _ :: xs, _ :: bs, h => by simp [limbsWithin_length xs bs h.2]
  | [], _ :: _, h => by simp [limbsWithin] at h
  | _ :: _, [], h => by simp [limbsWithin] at h

theorem limbsWithin_zip : ∀ (xs bs : List Nat), limbsWithin xs bs → ∀ t ∈ xs.zip bs, t.1 < 2 ^ t.2
  | [], [], _ => by simp
  | x :: xs, b :: bs, h => by
    intro t ht
    simp only [List.zip_cons_cons, List.mem_cons] at ht
    rcases ht with rfl | ht
    · exact h.1
    · exact limbsWithin_zip xs bs h.2 t ht
  | [], _ :: _, h => by simp [limbsWithin] at h
  | _ :: _, [], h => by simp [limbsWithin] at h

theorem limbsWithin_of_zip : ∀ (xs bs : List Nat), xs.length = bs.length →
    (∀ t ∈ xs.zip bs, t.1 < 2 ^ t.2) → limbsWithin xs bs
  | [], [], _, _ => trivial
  | x :: xs, b :: bs, hl, h =>
    ⟨h (x, b) (by simp), limbsWithin_of_zip xs bs (by simpa using hl)
      (fun t ht => h t (by simp [List.zip_cons_cons, ht]))⟩
  | [], _ :: _, hl, _ => by simp at hl
  | _ :: _, [], hl, _ => by simp at hl

/-- Limbs within bounds that are all `≤ lb` (`is_normalized`) are normalised limbs. -/
theorem limbsWithin_normalized (lb : Nat) : ∀ (xs bs : List Nat), limbsWithin xs bs →
    isNormalized lb bs = true → ∀ x ∈ xs, x < 2 ^ lb
  | [], [], _, _ => by simp
  | x :: xs, b :: bs, h, hn => by
    simp only [isNormalized, List.all_cons, Bool.and_eq_true, decide_eq_true_eq] at hn
    intro w hw
    simp only [List.mem_cons] at hw
    rcases hw with rfl | hw
    · exact lt_of_lt_of_le h.1 (two_pow_le_of_le hn.1)
    · exact limbsWithin_normalized lb xs bs h.2 (by simpa [isNormalized] using hn.2) w hw
  | [], _ :: _, h, _ => by simp [limbsWithin] at h
  | _ :: _, [], h, _ => by simp [limbsWithin] at h

/-- `resize`: zero limbs with bound 0. -/
theorem limbsWithin_pad : ∀ (xs bs : List Nat) (k : Nat), limbsWithin xs bs →
    limbsWithin (xs ++ List.replicate k 0) (bs ++ List.replicate k 0)
  | [], [], 0, _ => trivial
  | [], [], k + 1, _ => by
    simp only [List.nil_append, List.replicate_succ, limbsWithin]
    exact ⟨by simp, by simpa using limbsWithin_pad [] [] k trivial⟩
  | x :: xs, b :: bs, k, h => ⟨h.1, limbsWithin_pad xs bs k h.2⟩
  | [], _ :: _, _, h => by simp [limbsWithin] at h
  | _ :: _, [], _, h => by simp [limbsWithin] at h

theorem bigValue_pad (lb : Nat) : ∀ (xs : List Nat) (k : Nat),
    bigValue lb (xs ++ List.replicate k 0) = bigValue lb xs
  | [], 0 => rfl
  | [], k + 1 => by
    have := bigValue_pad lb [] k
    simp only [List.nil_append] at this
    simp [List.replicate_succ, bigValue, this]
  | x :: xs, k => by simp [bigValue, bigValue_pad lb xs k]

/-! ## The carry chain of `normalize` on an arbitrary assignment -/

/-- What the circuit of `normalize` enforces on an ARBITRARY assignment of the cells `(qᵢ, rᵢ)` of
its `div_rem_native_by_base` steps (cell values as natural numbers `< p`): the two range checks
with the bit lengths `(k_q, k_r)` as emitted, the native identity `q·2^lb + r = carry + x (mod p)`,
and the next step run on the carry `q`; `c` is the last carry cell (asserted to be zero). -/
def NormSat (p lb : Nat) : Nat → List Nat → List (Nat × Nat) → List (Nat × Nat) → Nat → Prop
  | carry, [], [], [], c => c = carry
  | carry, x :: xs, k :: rc, qr :: qrs, c =>
    qr.1 < 2 ^ k.1 ∧ qr.2 < 2 ^ k.2 ∧ (qr.1 * 2 ^ lb + qr.2) % p = (carry + x) % p ∧
      NormSat p lb qr.1 xs rc qrs c
  | _, _, _, _, _ => False

theorem max_sub_add (a b : Nat) : max a b - b + b = max a b := by omega

/-- **The constraints of `normalize` pin the carry chain**: whatever quotients and remainders the
prover assigns, if they pass the emitted range checks and the native identities, they are the
honest ones — the chain of the model. -/
theorem normSat_pins_chain (p lb numBits : Nat) (hp : 2 ^ (numBits - 1) ≤ p) (hlb : lb < numBits) :
    ∀ (xs sbs : List Nat) (carry cb : Nat) (rc qrs : List (Nat × Nat)) (c : Nat),
    limbsWithin xs sbs → carry < 2 ^ cb → Big.normRc lb numBits cb sbs = some rc →
    NormSat p lb carry xs rc qrs c →
    Big.normChain lb numBits carry cb xs sbs = .ok (qrs.map (·.2), c)
  | [], [], carry, cb, rc, qrs, c, _, _, hrc, hs => by
    simp only [Big.normRc, Option.some.injEq] at hrc
    subst hrc
    cases qrs with
    | nil => simp only [NormSat] at hs; subst hs; simp [Big.normChain]
    | cons _ _ => simp [NormSat] at hs
  | x :: xs, b :: sbs, carry, cb, rc, qrs, c, hw, hc, hrc, hs => by
    unfold Big.normRc at hrc
    simp only at hrc
    split at hrc
    · cases hrc
    · next hpb =>
      have hpb : boundOfAddition cb b < numBits := by omega
      cases hrec : Big.normRc lb numBits (max (boundOfAddition cb b) lb - lb) sbs with
      | none => simp [hrec] at hrc
      | some rc' =>
        simp only [hrec, Option.map_some, Option.some.injEq] at hrc
        subst hrc
        cases qrs with
        | nil => simp [NormSat] at hs
        | cons qr qrs =>
          obtain ⟨hq, hr, hid, hrest⟩ := hs
          simp only at hq hr
          have hpay : carry + x < 2 ^ boundOfAddition cb b := boundOfAddition_spec _ _ _ _ hc hw.1
          have h1 : 2 ^ boundOfAddition cb b ≤ 2 ^ (numBits - 1) := two_pow_le_of_le (by omega)
          have h2 : 2 ^ (max (boundOfAddition cb b) lb - lb + lb) ≤ 2 ^ (numBits - 1) := by
            rw [max_sub_add]; exact two_pow_le_of_le (by omega)
          obtain ⟨e1, e2⟩ := carry_unique p lb (max (boundOfAddition cb b) lb - lb) (carry + x) qr.1 qr.2
            (by omega) hq hr (by omega) hid
          have ih := normSat_pins_chain p lb numBits hp hlb xs sbs qr.1 _ rc' qrs c hw.2 hq hrec hrest
          unfold Big.normChain
          simp only [List.headD_cons, List.drop_succ_cons, List.drop_zero]
          rw [if_neg (by omega), ← e1, ih]
          simp [e2]
  | [], _ :: _, _, _, _, _, _, h, _, _, _ => by simp [limbsWithin] at h
  | _ :: _, [], _, _, _, _, _, h, _, _, _ => by simp [limbsWithin] at h

/-- The honest assignment of the cells of the carry chain. -/
def honestQR (lb : Nat) : Nat → List Nat → List (Nat × Nat)
  | _, [] => []
  | carry, x :: xs => ((carry + x) / 2 ^ lb, (carry + x) % 2 ^ lb) :: honestQR lb ((carry + x) / 2 ^ lb) xs

/-- Completeness of the emitted range checks: the honest quotients / remainders pass them (the
emitted bit lengths are not too tight), for every input within its tracked bounds. -/
theorem normSat_honest (p lb numBits : Nat) :
    ∀ (xs sbs : List Nat) (carry cb : Nat) (rc : List (Nat × Nat)),
    limbsWithin xs sbs → carry < 2 ^ cb → Big.normRc lb numBits cb sbs = some rc →
    ∃ c, NormSat p lb carry xs rc (honestQR lb carry xs) c
  | [], [], carry, cb, rc, _, _, hrc => by
    simp only [Big.normRc, Option.some.injEq] at hrc
    subst hrc
    exact ⟨carry, by simp [honestQR, NormSat]⟩
  | x :: xs, b :: sbs, carry, cb, rc, hw, hc, hrc => by
    unfold Big.normRc at hrc
    simp only at hrc
    split at hrc
    · cases hrc
    · cases hrec : Big.normRc lb numBits (max (boundOfAddition cb b) lb - lb) sbs with
      | none => simp [hrec] at hrc
      | some rc' =>
        simp only [hrec, Option.map_some, Option.some.injEq] at hrc
        subst hrc
        have hB : 0 < 2 ^ lb := by positivity
        have hpay : carry + x < 2 ^ boundOfAddition cb b := boundOfAddition_spec _ _ _ _ hc hw.1
        have hq : (carry + x) / 2 ^ lb < 2 ^ (max (boundOfAddition cb b) lb - lb) := by
          apply Nat.div_lt_of_lt_mul
          rw [← Nat.pow_add]
          have e : lb + (max (boundOfAddition cb b) lb - lb) = max (boundOfAddition cb b) lb := by
            omega
          rw [e]
          have := two_pow_le_of_le (le_max_left (boundOfAddition cb b) lb)
          omega
        obtain ⟨c, hcs⟩ := normSat_honest p lb numBits xs sbs _ _ rc' hw.2 hq hrec
        refine ⟨c, ?_⟩
        simp only [honestQR, NormSat]
        refine ⟨hq, Nat.mod_lt _ hB, ?_, hcs⟩
        rw [Nat.mul_comm, Nat.div_add_mod]
  | [], _ :: _, _, _, _, h, _, _ => by simp [limbsWithin] at h
  | _ :: _, [], _, _, _, h, _, _ => by simp [limbsWithin] at h

/-! ## Limb-wise addition of operands of any two limb counts -/

theorem boundOfAddition_comm (a b : Nat) : boundOfAddition a b = boundOfAddition b a := by
  unfold boundOfAddition
  by_cases ha : a = 0 <;> by_cases hb : b = 0 <;> simp [ha, hb, Nat.max_comm]

theorem zipAddLimbs_comm : ∀ (xs ys : List Nat), Big.zipAddLimbs xs ys = Big.zipAddLimbs ys xs
  | [], [] => rfl
  | [], _ :: _ => by simp [Big.zipAddLimbs]
  | _ :: _, [] => by simp [Big.zipAddLimbs]
  | x :: xs, y :: ys => by simp [Big.zipAddLimbs, zipAddLimbs_comm xs ys, Nat.add_comm]

theorem zipAddBounds_comm : ∀ (xs ys : List Nat), Big.zipAddBounds xs ys = Big.zipAddBounds ys xs
  | [], [] => rfl
  | [], _ :: _ => by simp [Big.zipAddBounds]
  | _ :: _, [] => by simp [Big.zipAddBounds]
  | x :: xs, y :: ys => by
    simp [Big.zipAddBounds, zipAddBounds_comm xs ys, boundOfAddition_comm x y]

/-- The tracked bounds of the limb-wise sum are bounds of the limb-wise sum, whatever the two limb
counts (the limbs beyond the shorter operand keep their own bound). -/
theorem limbsWithin_zipAdd : ∀ (xs bx ys bY : List Nat), limbsWithin xs bx → limbsWithin ys bY →
    limbsWithin (Big.zipAddLimbs xs ys) (Big.zipAddBounds bx bY)
  | [], [], ys, bY, _, hy => by
    cases ys <;> cases bY <;> simp_all [Big.zipAddLimbs, Big.zipAddBounds, limbsWithin]
  | x :: xs, b :: bx, [], [], hx, _ => by simpa [Big.zipAddLimbs, Big.zipAddBounds] using hx
  | x :: xs, b :: bx, y :: ys, c :: bY, hx, hy => by
    simp only [Big.zipAddLimbs, Big.zipAddBounds, limbsWithin]
    exact ⟨boundOfAddition_spec _ _ _ _ hx.1 hy.1, limbsWithin_zipAdd xs bx ys bY hx.2 hy.2⟩
  | [], _ :: _, _, _, h, _ => by simp [limbsWithin] at h
  | _ :: _, [], _, _, h, _ => by simp [limbsWithin] at h
  | _, _, [], _ :: _, _, h => by simp [limbsWithin] at h
  | _, _, _ :: _, [], _, h => by simp [limbsWithin] at h

/-- The two `extend` branches of `add` spelled out: on the common prefix the limbs are added, the
remaining limbs are those of the LONGER operand (here `ys`; the other branch by commutativity). -/
theorem zipAddLimbs_longer_second : ∀ (xs ys : List Nat), xs.length ≤ ys.length →
    Big.zipAddLimbs xs ys = List.zipWith (· + ·) xs (ys.take xs.length) ++ ys.drop xs.length
  | [], ys, _ => by cases ys <;> simp [Big.zipAddLimbs]
  | _ :: _, [], h => by simp at h
  | x :: xs, y :: ys, h => by
    simp only [Big.zipAddLimbs, List.length_cons, List.take_succ_cons, List.zipWith_cons_cons,
      List.drop_succ_cons, List.cons_append]
    rw [zipAddLimbs_longer_second xs ys (by simpa using h)]

/-! ## The accumulation loop of `mul`: limbs within the tracked bounds, value = product -/

theorem addAt_spec (lb : Nat) : ∀ (ls sbs : List Nat) (k v b : Nat), k < ls.length →
    limbsWithin ls sbs → v < 2 ^ b →
    limbsWithin (Big.addAt k v b ls sbs).1 (Big.addAt k v b ls sbs).2 ∧
      (Big.addAt k v b ls sbs).1.length = ls.length ∧
      bigValue lb (Big.addAt k v b ls sbs).1 = bigValue lb ls + v * 2 ^ (lb * k)
  | [], _, _, _, _, hk, _, _ => by simp at hk
  | _ :: _, [], _, _, _, _, h, _ => by simp [limbsWithin] at h
  | l :: ls, s :: sbs, 0, v, b, _, hw, hv => by
    simp only [Big.addAt, List.set_cons_zero, List.getD_cons_zero, limbsWithin, List.length_cons,
      bigValue, Nat.mul_zero, Nat.pow_zero, Nat.mul_one]
    exact ⟨⟨boundOfAddition_spec _ _ _ _ hw.1 hv, hw.2⟩, trivial, by ring⟩
  | l :: ls, s :: sbs, k + 1, v, b, hk, hw, hv => by
    obtain ⟨h1, h2, h3⟩ := addAt_spec lb ls sbs k v b (by simpa using hk) hw.2 hv
    simp only [Big.addAt] at h1 h2 h3
    simp only [Big.addAt, List.set_cons_succ, List.getD_cons_succ, limbsWithin, List.length_cons,
      bigValue]
    refine ⟨⟨hw.1, h1⟩, by rw [h2], ?_⟩
    rw [h3, Nat.mul_succ, Nat.pow_add]; ring

/-- Values of a list of (limb, bound) pairs. -/
def pairsValue (lb : Nat) (ps : List (Nat × Nat)) : Nat := bigValue lb (ps.map (·.1))

theorem mulAccumRow_spec (lb x bx i : Nat) (hx : x < 2 ^ bx) :
    ∀ (ys : List (Nat × Nat)) (j : Nat) (acc : List Nat × List Nat),
    (∀ t ∈ ys, t.1 < 2 ^ t.2) → i + j + ys.length ≤ acc.1.length → limbsWithin acc.1 acc.2 →
    limbsWithin (Big.mulAccumRow x bx i ys j acc).1 (Big.mulAccumRow x bx i ys j acc).2 ∧
      (Big.mulAccumRow x bx i ys j acc).1.length = acc.1.length ∧
      bigValue lb (Big.mulAccumRow x bx i ys j acc).1 =
        bigValue lb acc.1 + x * pairsValue lb ys * 2 ^ (lb * (i + j))
  | [], j, acc, _, _, hw => by simp [Big.mulAccumRow, pairsValue, bigValue, hw]
  | (y, by') :: ys, j, acc, hy, hlen, hw => by
    have hy0 : y < 2 ^ by' := hy (y, by') (by simp)
    have hprod : x * y < 2 ^ (bx + by') := by
      rw [Nat.pow_add]; exact Nat.mul_lt_mul'' hx hy0
    simp only [List.length_cons] at hlen
    obtain ⟨a1, a2, a3⟩ := addAt_spec lb acc.1 acc.2 (i + j) (x * y) (bx + by') (by omega) hw hprod
    obtain ⟨b1, b2, b3⟩ := mulAccumRow_spec lb x bx i hx ys (j + 1)
      (Big.addAt (i + j) (x * y) (bx + by') acc.1 acc.2) (fun t ht => hy t (by simp [ht]))
      (by rw [a2]; omega) a1
    simp only [Big.mulAccumRow]
    refine ⟨b1, by rw [b2, a2], ?_⟩
    rw [b3, a3]
    simp only [pairsValue, List.map_cons, bigValue]
    have e : lb * (i + (j + 1)) = lb * (i + j) + lb := by ring
    rw [e, Nat.pow_add]; ring

theorem mulAccumRows_spec (lb : Nat) (ys : List (Nat × Nat)) (hy : ∀ t ∈ ys, t.1 < 2 ^ t.2) :
    ∀ (xs : List (Nat × Nat)) (i : Nat) (acc : List Nat × List Nat),
    (∀ t ∈ xs, t.1 < 2 ^ t.2) → (xs = [] ∨ i + xs.length + ys.length ≤ acc.1.length + 1) →
    limbsWithin acc.1 acc.2 →
    limbsWithin (Big.mulAccumRows xs ys i acc).1 (Big.mulAccumRows xs ys i acc).2 ∧
      (Big.mulAccumRows xs ys i acc).1.length = acc.1.length ∧
      bigValue lb (Big.mulAccumRows xs ys i acc).1 =
        bigValue lb acc.1 + pairsValue lb xs * pairsValue lb ys * 2 ^ (lb * i)
  | [], i, acc, _, _, hw => by simp [Big.mulAccumRows, pairsValue, bigValue, hw]
  | (x, bx) :: xs, i, acc, hx, hlen, hw => by
    have hx0 : x < 2 ^ bx := hx (x, bx) (by simp)
    have hlen' : i + (xs.length + 1) + ys.length ≤ acc.1.length + 1 := by
      rcases hlen with h | h
      · cases h
      · simpa using h
    obtain ⟨a1, a2, a3⟩ := mulAccumRow_spec lb x bx i hx0 ys 0 acc hy (by omega) hw
    obtain ⟨b1, b2, b3⟩ := mulAccumRows_spec lb ys hy xs (i + 1) (Big.mulAccumRow x bx i ys 0 acc)
      (fun t ht => hx t (by simp [ht])) (by
        cases xs with
        | nil => exact Or.inl rfl
        | cons _ _ => right; rw [a2]; simp only [List.length_cons] at hlen' ⊢; omega) a1
    simp only [Big.mulAccumRows]
    refine ⟨b1, by rw [b2, a2], ?_⟩
    rw [b3, a3]
    simp only [pairsValue, List.map_cons, bigValue, Nat.add_zero]
    have e : lb * (i + 1) = lb * i + lb := by ring
    rw [e, Nat.pow_add]; ring

theorem limbsWithin_zeros : ∀ n : Nat, limbsWithin (List.replicate n 0) (List.replicate n 0)
  | 0 => trivial
  | n + 1 => by
    simp only [List.replicate_succ, limbsWithin]
    exact ⟨by simp, limbsWithin_zeros n⟩

theorem bigValue_zeros (lb : Nat) : ∀ n : Nat, bigValue lb (List.replicate n 0) = 0
  | 0 => rfl
  | n + 1 => by simp [List.replicate_succ, bigValue, bigValue_zeros lb n]

theorem map_fst_zip : ∀ (xs bs : List Nat), xs.length = bs.length → (xs.zip bs).map (·.1) = xs
  | [], [], _ => rfl
  | x :: xs, b :: bs, h => by simp [map_fst_zip xs bs (by simpa using h)]
  | [], _ :: _, h => by simp at h
  | _ :: _, [], h => by simp at h

/-- The accumulation loop of `mul` (limbs and bounds together, in the order of the code): the
product limbs lie within the bounds the gadget tracks for them and represent the product. -/
theorem mulAccum_spec (lb : Nat) (x y : BVar) (hx : limbsWithin x.limbs x.sb)
    (hy : limbsWithin y.limbs y.sb) (hne : x.limbs ≠ [] → y.limbs ≠ []) :
    limbsWithin (Big.mulAccum x y).1 (Big.mulAccum x y).2 ∧
      bigValue lb (Big.mulAccum x y).1 = bigValue lb x.limbs * bigValue lb y.limbs := by
  unfold Big.mulAccum
  simp only
  have hlx := limbsWithin_length _ _ hx
  have hly := limbsWithin_length _ _ hy
  obtain ⟨h1, _, h3⟩ := mulAccumRows_spec lb (y.limbs.zip y.sb) (limbsWithin_zip _ _ hy)
    (x.limbs.zip x.sb) 0
    (List.replicate (x.limbs.length + y.limbs.length - 1) 0,
      List.replicate (x.limbs.length + y.limbs.length - 1) 0)
    (limbsWithin_zip _ _ hx) (by
      by_cases hxe : x.limbs = []
      · left; simp [hxe]
      · right
        have : y.limbs ≠ [] := hne hxe
        have h1 : 0 < x.limbs.length := List.length_pos_iff.mpr hxe
        have h2 : 0 < y.limbs.length := List.length_pos_iff.mpr this
        simp only [List.length_zip, List.length_replicate, ← hlx, ← hly, Nat.min_self]
        omega) (limbsWithin_zeros _)
  refine ⟨h1, ?_⟩
  rw [h3, bigValue_zeros]
  simp [pairsValue, map_fst_zip _ _ hlx, map_fst_zip _ _ hly]

/-! ## The square-and-multiply loop of `mod_exp` -/

/-- What the circuit of the loop of `mod_exp` enforces, over an abstract relation `MM a b r` =
"the constraints of `mod_mul(a, b, m)` hold with result `r`" (every `r` is a prover-chosen
remainder): state `(n, tmp, res)` as in the code, `out` the returned value. -/
def ModExpLoopSat (MM : Nat → Nat → Nat → Prop) : Nat → Nat → Nat → Option Nat → Nat → Prop
  | 0, _, _, res, out => res = some out
  | fuel + 1, n, tmp, res, out =>
    if n = 0 then res = some out
    else
      ∃ res' : Option Nat,
        (if n % 2 = 1 then
          (match res with
            | none => res' = some tmp
            | some acc => ∃ r, MM acc tmp r ∧ res' = some r)
         else res' = res) ∧
        (if n / 2 > 0 then ∃ t, MM tmp tmp t ∧ ModExpLoopSat MM fuel (n / 2) t res' out
         else res' = some out)

/-- Value of the accumulator (`None` = nothing multiplied yet). -/
def accVal : Option Nat → Nat
  | none => 1
  | some a => a

theorem pow_split (t n : Nat) : t ^ n = t ^ (n % 2) * (t * t) ^ (n / 2) := by
  rw [← Nat.pow_two, ← Nat.pow_mul, ← Nat.pow_add, Nat.mod_add_div]

/-- Loop invariant of square-and-multiply, for EVERY assignment of the intermediate results:
`out ≡ acc · tmp^n (mod m)`, and `out < m` once `tmp` and the accumulator are reduced. -/
theorem modExpLoopSat_spec (MM : Nat → Nat → Nat → Prop) (m : Nat)
    (hMM : ∀ a b r, MM a b r → r = a * b % m ∧ r < m) :
    ∀ (fuel n tmp : Nat) (res : Option Nat) (out : Nat), n < 2 ^ fuel → 0 < n →
    ModExpLoopSat MM fuel n tmp res out →
    out % m = (accVal res * tmp ^ n) % m ∧
      (tmp < m → (∀ a, res = some a → a < m) → out < m)
  | 0, n, _, _, _, hn, hpos, _ => by simp at hn; omega
  | fuel + 1, n, tmp, res, out, hn, hpos, h => by
    unfold ModExpLoopSat at h
    rw [if_neg (by omega)] at h
    obtain ⟨res', hres, hnext⟩ := h
    -- the accumulator after the conditional multiplication
    have hacc : accVal res' % m = (accVal res * tmp ^ (n % 2)) % m ∧
        (tmp < m → (∀ a, res = some a → a < m) → ∀ a, res' = some a → a < m) := by
      by_cases hodd : n % 2 = 1
      · rw [if_pos hodd] at hres
        rw [hodd, Nat.pow_one]
        cases res with
        | none =>
          simp only at hres
          subst hres
          exact ⟨by simp [accVal], fun ht _ a ha => by cases ha; exact ht⟩
        | some acc =>
          simp only at hres
          obtain ⟨r, hr, rfl⟩ := hres
          obtain ⟨e, hlt⟩ := hMM _ _ _ hr
          refine ⟨by simp [accVal, e], fun _ _ a ha => by cases ha; exact hlt⟩
      · rw [if_neg hodd] at hres
        subst hres
        have : n % 2 = 0 := by omega
        rw [this]
        exact ⟨by simp, fun _ h a ha => h a ha⟩
    by_cases hhalf : n / 2 > 0
    · rw [if_pos hhalf] at hnext
      obtain ⟨t, ht, hrec⟩ := hnext
      obtain ⟨et, hlt⟩ := hMM _ _ _ ht
      have hn2 : n / 2 < 2 ^ fuel := by
        rw [Nat.pow_succ] at hn; omega
      obtain ⟨ih1, ih2⟩ := modExpLoopSat_spec MM m hMM fuel (n / 2) t res' out hn2 hhalf hrec
      constructor
      · rw [ih1, pow_split tmp n, et]
        calc (accVal res' * (tmp * tmp % m) ^ (n / 2)) % m
            = ((accVal res' % m) * ((tmp * tmp % m) ^ (n / 2) % m)) % m := by rw [Nat.mul_mod]
          _ = ((accVal res * tmp ^ (n % 2)) % m * ((tmp * tmp) ^ (n / 2) % m)) % m := by
              rw [hacc.1, Nat.pow_mod (tmp * tmp % m), Nat.mod_mod, ← Nat.pow_mod]
          _ = (accVal res * tmp ^ (n % 2) * (tmp * tmp) ^ (n / 2)) % m := by rw [← Nat.mul_mod]
          _ = (accVal res * (tmp ^ (n % 2) * (tmp * tmp) ^ (n / 2))) % m := by rw [Nat.mul_assoc]
      · intro htm hres'
        exact ih2 hlt (hacc.2 htm hres')
    · rw [if_neg hhalf] at hnext
      have hn1 : n = 1 := by omega
      subst hn1
      constructor
      · have := hacc.1
        rw [hnext] at this
        simpa [accVal] using this
      · intro htm hres'
        exact hacc.2 htm hres' out hnext

/-- Once the accumulator holds something (reduced or not), the returned value is reduced: the
highest set bit of `n ≥ 1` multiplies the accumulator by a `mod_mul`, whose result is `< m`. -/
theorem modExpLoopSat_some_reduced (MM : Nat → Nat → Nat → Prop) (m : Nat)
    (hMM : ∀ a b r, MM a b r → r = a * b % m ∧ r < m) :
    ∀ (fuel n tmp a out : Nat), n < 2 ^ fuel → 0 < n →
    ModExpLoopSat MM fuel n tmp (some a) out → out < m
  | 0, n, _, _, _, hn, hpos, _ => by simp at hn; omega
  | fuel + 1, n, tmp, a, out, hn, hpos, h => by
    unfold ModExpLoopSat at h
    rw [if_neg (by omega)] at h
    obtain ⟨res', hres, hnext⟩ := h
    have hn2 : n / 2 < 2 ^ fuel := by rw [Nat.pow_succ] at hn; omega
    by_cases hodd : n % 2 = 1
    · rw [if_pos hodd] at hres
      obtain ⟨r, hr, rfl⟩ := hres
      have hrlt := (hMM _ _ _ hr).2
      by_cases hhalf : n / 2 > 0
      · rw [if_pos hhalf] at hnext
        obtain ⟨t, ht, hrec⟩ := hnext
        exact (modExpLoopSat_spec MM m hMM fuel (n / 2) t (some r) out hn2 hhalf hrec).2
          (hMM _ _ _ ht).2 (fun b hb => by cases hb; exact hrlt)
      · rw [if_neg hhalf] at hnext
        cases hnext; exact hrlt
    · rw [if_neg hodd] at hres
      subst hres
      have hhalf : n / 2 > 0 := by omega
      rw [if_pos hhalf] at hnext
      obtain ⟨t, _, hrec⟩ := hnext
      exact modExpLoopSat_some_reduced MM m hMM fuel (n / 2) t a out hn2 hhalf hrec

open Big (accStep modExpLoopVal)

/-- Completeness: the honest intermediate results satisfy the loop's constraints. -/
theorem modExpLoopSat_honest (MM : Nat → Nat → Nat → Prop) (m : Nat)
    (hMM : ∀ a b, MM a b (a * b % m)) :
    ∀ (fuel n tmp : Nat) (res : Option Nat) (out : Nat),
    modExpLoopVal m fuel n tmp res = some out → ModExpLoopSat MM fuel n tmp res out
  | 0, _, _, res, out, h => by simpa [modExpLoopVal, ModExpLoopSat] using h
  | fuel + 1, n, tmp, res, out, h => by
    unfold modExpLoopVal at h
    unfold ModExpLoopSat
    by_cases hn : n = 0
    · simpa [hn] using h
    · rw [if_neg hn] at h ⊢
      refine ⟨accStep m n tmp res, ?_, ?_⟩
      · unfold accStep
        by_cases hodd : n % 2 = 1
        · rw [if_pos hodd, if_pos hodd]
          cases res with
          | none => rfl
          | some acc => exact ⟨_, hMM acc tmp, rfl⟩
        · rw [if_neg hodd, if_neg hodd]
      · by_cases hhalf : n / 2 > 0
        · rw [if_pos hhalf] at h ⊢
          exact ⟨_, hMM tmp tmp, modExpLoopSat_honest MM m hMM fuel _ _ _ out h⟩
        · rw [if_neg hhalf] at h ⊢
          exact h

end MidnightZK.C05
