import Mathlib.Tactic.Linarith
import Mathlib.Tactic.Ring
import Mathlib.Tactic.Positivity
import MidnightZK.Model.C05.Big
/-!
Helper lemmas for C05: big unsigned integers — bound bookkeeping, uniqueness of carries and
quotients, value preservation of the normalisation chain, the comparison fold.
-/
namespace MidnightZK.C05

theorem two_pow_le_of_le {a b : Nat} (h : a ≤ b) : 2 ^ a ≤ 2 ^ b := Nat.pow_le_pow_right (by decide) h

/-- `bound_of_addition` is a bound of the sum. -/
theorem boundOfAddition_spec (a b b1 b2 : Nat) (ha : a < 2 ^ b1) (hb : b < 2 ^ b2) :
    a + b < 2 ^ boundOfAddition b1 b2 := by
  unfold boundOfAddition
  split
  · next h =>
    subst h
    have : a = 0 := by simpa using ha
    subst this; simpa using hb
  · split
    · next h =>
      subst h
      have : b = 0 := by simpa using hb
      subst this; simpa using ha
    · have h1 : 2 ^ b1 ≤ 2 ^ max b1 b2 := two_pow_le_of_le (le_max_left _ _)
      have h2 : 2 ^ b2 ≤ 2 ^ max b1 b2 := two_pow_le_of_le (le_max_right _ _)
      have : 2 ^ (1 + max b1 b2) = 2 * 2 ^ max b1 b2 := by rw [Nat.pow_add]
      omega

theorem natBits_spec (n : Nat) : n < 2 ^ natBits n := by
  unfold natBits
  split
  · next h => subst h; simp
  · exact Nat.lt_log2_self

/-- Limbs within their size bounds have a value of at most `nb_bits()` bits. -/
theorem bigValue_le_maxValue (lb : Nat) : ∀ (ls sb : List Nat), ls.length = sb.length →
    (∀ t ∈ ls.zip sb, t.1 < 2 ^ t.2) → bigValue lb ls ≤ maxValue lb sb
  | [], [], _, _ => by simp [bigValue, maxValue]
  | x :: ls, b :: sb, hl, h => by
    simp only [bigValue, maxValue]
    have h1 : x < 2 ^ b := h (x, b) (by simp)
    have ih := bigValue_le_maxValue lb ls sb (by simpa using hl)
      (fun t ht => h t (by simp [List.zip_cons_cons, ht]))
    have : 2 ^ lb * bigValue lb ls ≤ 2 ^ lb * maxValue lb sb := Nat.mul_le_mul_left _ ih
    omega
  | [], _ :: _, h, _ => by simp at h
  | _ :: _, [], h, _ => by simp at h

theorem bigValue_lt_nbBits (lb : Nat) (ls sb : List Nat) (hl : ls.length = sb.length)
    (h : ∀ t ∈ ls.zip sb, t.1 < 2 ^ t.2) : bigValue lb ls < 2 ^ nbBits lb sb :=
  lt_of_le_of_lt (bigValue_le_maxValue lb ls sb hl h) (natBits_spec _)

/-- Limb-wise addition adds the values. -/
theorem zipAddLimbs_value (lb : Nat) : ∀ (xs ys : List Nat),
    bigValue lb (Big.zipAddLimbs xs ys) = bigValue lb xs + bigValue lb ys
  | [], ys => by cases ys <;> simp [Big.zipAddLimbs, bigValue]
  | x :: xs, [] => by simp [Big.zipAddLimbs, bigValue]
  | x :: xs, y :: ys => by
    simp only [Big.zipAddLimbs, bigValue, zipAddLimbs_value lb xs ys]; ring

/-- **Uniqueness of the carry** (`div_rem_native_by_base`): if `x < p`, `q < 2^k`, `r < 2^lb`
with `2^(k + lb) ≤ p` (what `x_size_bound < F::NUM_BITS` guarantees), and the native identity
`x = q·2^lb + r` holds modulo `p`, then `q = x / 2^lb` and `r = x % 2^lb`. -/
theorem carry_unique (p lb k x q r : Nat) (hx : x < p) (hq : q < 2 ^ k) (hr : r < 2 ^ lb)
    (hp : 2 ^ (k + lb) ≤ p) (hid : (q * 2 ^ lb + r) % p = x % p) :
    q = x / 2 ^ lb ∧ r = x % 2 ^ lb := by
  have hB : 0 < 2 ^ lb := by positivity
  have h1 : q * 2 ^ lb + r < p := by
    have : (q + 1) * 2 ^ lb ≤ 2 ^ k * 2 ^ lb := Nat.mul_le_mul_right _ hq
    have e : 2 ^ (k + lb) = 2 ^ k * 2 ^ lb := Nat.pow_add 2 k lb
    have : (q + 1) * 2 ^ lb = q * 2 ^ lb + 2 ^ lb := by ring
    omega
  rw [Nat.mod_eq_of_lt h1, Nat.mod_eq_of_lt hx] at hid
  subst hid
  constructor
  · rw [Nat.add_comm, Nat.add_mul_div_right _ _ hB, Nat.div_eq_of_lt hr, Nat.zero_add]
  · rw [Nat.add_comm, Nat.add_mul_mod_self_right, Nat.mod_eq_of_lt hr]

/-- The carry chain of `normalize` preserves the value and outputs limbs in `[0, 2^lb)`. -/
theorem normChain_spec (lb numBits : Nat) : ∀ (xs sbs : List Nat) (carry cb : Nat) (ls : List Nat) (c : Nat),
    Big.normChain lb numBits carry cb xs sbs = .ok (ls, c) →
    ls.length = xs.length ∧ (∀ l ∈ ls, l < 2 ^ lb) ∧
      bigValue lb ls + 2 ^ (lb * xs.length) * c = carry + bigValue lb xs
  | [], sbs, carry, cb, ls, c, h => by
    simp only [Big.normChain, Except.ok.injEq, Prod.mk.injEq] at h
    obtain ⟨rfl, rfl⟩ := h
    simp [bigValue]
  | x :: xs, sbs, carry, cb, ls, c, h => by
    unfold Big.normChain at h
    simp only at h
    split at h
    · cases h
    · split at h
      · cases h
      · next ls' c' hrec =>
        simp only [Except.ok.injEq, Prod.mk.injEq] at h
        obtain ⟨rfl, rfl⟩ := h
        obtain ⟨h1, h2, h3⟩ := normChain_spec lb numBits xs (sbs.drop 1) _ _ ls' c' hrec
        have hB : 0 < 2 ^ lb := by positivity
        refine ⟨by simp [h1], ?_, ?_⟩
        · intro l hl
          simp only [List.mem_cons] at hl
          rcases hl with rfl | hl
          · exact Nat.mod_lt _ hB
          · exact h2 l hl
        · simp only [bigValue, List.length_cons]
          have e : 2 ^ (lb * (xs.length + 1)) = 2 ^ lb * 2 ^ (lb * xs.length) := by
            rw [Nat.mul_succ, Nat.pow_add]; ring
          have hdm := Nat.mod_add_div (carry + x) (2 ^ lb)
          rw [e]
          calc (carry + x) % 2 ^ lb + 2 ^ lb * bigValue lb ls' + 2 ^ lb * 2 ^ (lb * xs.length) * c'
              = (carry + x) % 2 ^ lb + 2 ^ lb * (bigValue lb ls' + 2 ^ (lb * xs.length) * c') := by ring
            _ = (carry + x) % 2 ^ lb + 2 ^ lb * ((carry + x) / 2 ^ lb + bigValue lb xs) := by rw [h3]
            _ = carry + (x + 2 ^ lb * bigValue lb xs) := by
              have : (carry + x) % 2 ^ lb + 2 ^ lb * ((carry + x) / 2 ^ lb + bigValue lb xs) =
                ((carry + x) % 2 ^ lb + 2 ^ lb * ((carry + x) / 2 ^ lb)) + 2 ^ lb * bigValue lb xs := by ring
              rw [this, hdm]; ring

/-- Normalised limb vectors of the same length with the same value are equal. -/
theorem bigValue_inj (lb : Nat) : ∀ (xs ys : List Nat), xs.length = ys.length →
    (∀ x ∈ xs, x < 2 ^ lb) → (∀ y ∈ ys, y < 2 ^ lb) → bigValue lb xs = bigValue lb ys → xs = ys
  | [], [], _, _, _, _ => rfl
  | [], _ :: _, h, _, _, _ => by simp at h
  | _ :: _, [], h, _, _, _ => by simp at h
  | x :: xs, y :: ys, hl, hx, hy, hv => by
    simp only [bigValue] at hv
    have hx0 := hx x (by simp)
    have hy0 := hy y (by simp)
    have hB : 0 < 2 ^ lb := by positivity
    have h1 : (x + 2 ^ lb * bigValue lb xs) % 2 ^ lb = x := by
      rw [Nat.add_mul_mod_self_left]; exact Nat.mod_eq_of_lt hx0
    have h2 : (y + 2 ^ lb * bigValue lb ys) % 2 ^ lb = y := by
      rw [Nat.add_mul_mod_self_left]; exact Nat.mod_eq_of_lt hy0
    have hxy : x = y := by rw [← h1, ← h2, hv]
    subst hxy
    have hrest : bigValue lb xs = bigValue lb ys := by
      have : 2 ^ lb * bigValue lb xs = 2 ^ lb * bigValue lb ys := by omega
      exact Nat.eq_of_mul_eq_mul_left hB this
    rw [bigValue_inj lb xs ys (by simpa using hl) (fun a ha => hx a (by simp [ha]))
      (fun a ha => hy a (by simp [ha])) hrest]

theorem geq_step (B x y X Y : Nat) (acc : Bool) (_hB : 0 < B) (hx0 : x < B) (hy0 : y < B) :
    (decide (X > Y) || (decide (X = Y) && (decide (x > y) || (decide (x = y) && acc)))) =
      (decide (x + B * X > y + B * Y) || (decide (x + B * X = y + B * Y) && acc)) := by
  rcases Nat.lt_trichotomy X Y with h | h | h
  · have : B * (X + 1) ≤ B * Y := Nat.mul_le_mul_left _ h
    have e : B * (X + 1) = B * X + B := by ring
    have h1 : ¬ (x + B * X > y + B * Y) := by omega
    have h2 : ¬ (x + B * X = y + B * Y) := by omega
    have h3 : ¬ (X > Y) := by omega
    have h4 : ¬ (X = Y) := by omega
    simp [h1, h2, h3, h4]
  · subst h
    by_cases hgt : x > y
    · have h1 : x + B * X > y + B * X := by omega
      simp [hgt, h1]
    · by_cases heq : x = y
      · subst heq; simp
      · have h1 : ¬ (x + B * X > y + B * X) := by omega
        have h2 : ¬ (x + B * X = y + B * X) := by omega
        simp [hgt, heq, h1]
  · have : B * (Y + 1) ≤ B * X := Nat.mul_le_mul_left _ h
    have e : B * (Y + 1) = B * Y + B := by ring
    have h1 : x + B * X > y + B * Y := by omega
    simp [h, h1]

/-- The comparison fold of `geq`, started from the least significant limb, decides `≥` on the
represented integers. -/
theorem geqFold_spec (lb : Nat) : ∀ (xs ys : List Nat) (acc : Bool), xs.length = ys.length →
    (∀ x ∈ xs, x < 2 ^ lb) → (∀ y ∈ ys, y < 2 ^ lb) →
    Big.geqFold xs ys acc =
      (decide (bigValue lb xs > bigValue lb ys) || (decide (bigValue lb xs = bigValue lb ys) && acc))
  | [], [], acc, _, _, _ => by simp [Big.geqFold, bigValue]
  | [], _ :: _, _, h, _, _ => by simp at h
  | _ :: _, [], _, h, _, _ => by simp at h
  | x :: xs, y :: ys, acc, hl, hx, hy => by
    simp only [Big.geqFold, bigValue]
    rw [geqFold_spec lb xs ys _ (by simpa using hl) (fun a ha => hx a (by simp [ha]))
      (fun a ha => hy a (by simp [ha]))]
    exact geq_step (2 ^ lb) x y _ _ acc (by positivity) (hx x (by simp)) (hy y (by simp))

theorem bigValue_map_mul (lb x : Nat) : ∀ ys : List Nat,
    bigValue lb (ys.map (fun y => x * y)) = x * bigValue lb ys
  | [] => by simp [bigValue]
  | y :: ys => by simp only [List.map_cons, bigValue, bigValue_map_mul lb x ys]; ring

/-- The schoolbook limb products represent the product of the represented integers. -/
theorem mulLimbs_value (lb : Nat) : ∀ (xs ys : List Nat),
    bigValue lb (Big.mulLimbs xs ys) = bigValue lb xs * bigValue lb ys
  | [], ys => by simp [Big.mulLimbs, bigValue]
  | x :: xs, ys => by
    simp only [Big.mulLimbs, zipAddLimbs_value, bigValue_map_mul, bigValue, mulLimbs_value lb xs ys]
    ring

end MidnightZK.C05
