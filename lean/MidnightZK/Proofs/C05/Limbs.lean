import Mathlib.Tactic.Linarith
import Mathlib.Tactic.Ring
import Mathlib.Tactic.Positivity
import MidnightZK.Model.C05.Chip
/-!
Helper lemmas for C05: limb vectors (positional uniqueness, round trip of `bi_to_limbs`, the
unique representation of zero) and the value equations of the limb-wise operations of the chip.
-/
namespace MidnightZK.C05

/-! ## Positional representation -/

theorem limbsValue_nonneg (L : Nat) : ∀ xs : List Int, (∀ x ∈ xs, 0 ≤ x) → 0 ≤ limbsValue L xs
  | [], _ => by simp [limbsValue]
  | x :: xs, h => by
    simp only [limbsValue]
    have h1 := limbsValue_nonneg L xs (fun y hy => h y (by simp [hy]))
    have h2 : (0 : Int) ≤ 2 ^ L * limbsValue L xs := Int.mul_nonneg (by positivity) h1
    have := h x (by simp)
    omega

/-- Digits in `[0, 2^L)` determine the limb vector: two vectors of the same length with all
limbs in range and the same value are equal. -/
theorem limbsValue_inj (L : Nat) : ∀ (xs ys : List Int), xs.length = ys.length →
    (∀ x ∈ xs, 0 ≤ x ∧ x < 2 ^ L) → (∀ y ∈ ys, 0 ≤ y ∧ y < 2 ^ L) →
    limbsValue L xs = limbsValue L ys → xs = ys
  | [], [], _, _, _, _ => rfl
  | [], _ :: _, h, _, _, _ => by simp at h
  | _ :: _, [], h, _, _, _ => by simp at h
  | x :: xs, y :: ys, hl, hx, hy, hv => by
    simp only [limbsValue] at hv
    have hx0 := hx x (by simp)
    have hy0 := hy y (by simp)
    have hB : (0 : Int) < 2 ^ L := by positivity
    -- reduce modulo the base
    have h1 : (x + 2 ^ L * limbsValue L xs) % 2 ^ L = x := by
      rw [Int.add_mul_emod_self_left]; exact Int.emod_eq_of_lt hx0.1 hx0.2
    have h2 : (y + 2 ^ L * limbsValue L ys) % 2 ^ L = y := by
      rw [Int.add_mul_emod_self_left]; exact Int.emod_eq_of_lt hy0.1 hy0.2
    have hxy : x = y := by rw [← h1, ← h2, hv]
    subst hxy
    have hrest : limbsValue L xs = limbsValue L ys := by
      have : (2 : Int) ^ L * limbsValue L xs = 2 ^ L * limbsValue L ys := by omega
      exact Int.eq_of_mul_eq_mul_left (ne_of_gt hB) this
    rw [limbsValue_inj L xs ys (by simpa using hl) (fun a ha => hx a (by simp [ha]))
      (fun a ha => hy a (by simp [ha])) hrest]

/-- `bi_to_limbs`: the digits are in range and recompose the value (with the remaining quotient in
the position after the last digit). -/
theorem toLimbs_spec (L : Nat) : ∀ (n : Nat) (v : Int), 0 ≤ v →
    (toLimbs L n v).1.length = n ∧ (∀ x ∈ (toLimbs L n v).1, 0 ≤ x ∧ x < 2 ^ L) ∧
    0 ≤ (toLimbs L n v).2 ∧
    limbsValue L (toLimbs L n v).1 + 2 ^ (L * n) * (toLimbs L n v).2 = v
  | 0, v, hv => by simp [toLimbs, limbsValue, hv]
  | n + 1, v, hv => by
    have hB : (0 : Int) < 2 ^ L := by positivity
    have hq : 0 ≤ v / 2 ^ L := Int.ediv_nonneg hv (le_of_lt hB)
    obtain ⟨h1, h2, h3, h4⟩ := toLimbs_spec L n (v / 2 ^ L) hq
    simp only [toLimbs, List.length_cons, h1, List.mem_cons, limbsValue, true_and]
    refine ⟨?_, h3, ?_⟩
    · rintro x (rfl | hx)
      · exact ⟨Int.emod_nonneg _ (ne_of_gt hB), Int.emod_lt_of_pos _ hB⟩
      · exact h2 x hx
    · have e : (2 : Int) ^ (L * (n + 1)) = 2 ^ L * 2 ^ (L * n) := by
        rw [Nat.mul_succ, pow_add]; ring
      have := Int.emod_add_mul_ediv v (2 ^ L)
      rw [e]
      calc v % 2 ^ L + 2 ^ L * limbsValue L (toLimbs L n (v / 2 ^ L)).1 +
            2 ^ L * 2 ^ (L * n) * (toLimbs L n (v / 2 ^ L)).2
          = v % 2 ^ L + 2 ^ L * (limbsValue L (toLimbs L n (v / 2 ^ L)).1 +
              2 ^ (L * n) * (toLimbs L n (v / 2 ^ L)).2) := by ring
        _ = v % 2 ^ L + 2 ^ L * (v / 2 ^ L) := by rw [h4]
        _ = v := this

/-- Upper bound of a vector whose low limbs are in `[0, 2^L)` and whose top limb is in
`[0, 2^k)`. -/
theorem limbsValue_append_top_lt (L k : Nat) : ∀ (lo : List Int) (top : Int),
    (∀ x ∈ lo, 0 ≤ x ∧ x < 2 ^ L) → 0 ≤ top → top < 2 ^ k →
    0 ≤ limbsValue L (lo ++ [top]) ∧ limbsValue L (lo ++ [top]) < 2 ^ (L * lo.length + k)
  | [], top, _, h0, h1 => by simp [limbsValue]; omega
  | x :: lo, top, hx, h0, h1 => by
    obtain ⟨ih0, ih1⟩ := limbsValue_append_top_lt L k lo top (fun a ha => hx a (by simp [ha])) h0 h1
    have hx0 := hx x (by simp)
    have hB : (0 : Int) < 2 ^ L := by positivity
    simp only [List.cons_append, limbsValue, List.length_cons]
    have e : (2 : Int) ^ (L * (lo.length + 1) + k) = 2 ^ L * 2 ^ (L * lo.length + k) := by
      rw [Nat.mul_succ, ← pow_add]; congr 1; omega
    rw [e]
    have h2 : (2 : Int) ^ L * limbsValue L (lo ++ [top]) ≤ 2 ^ L * (2 ^ (L * lo.length + k) - 1) :=
      Int.mul_le_mul_of_nonneg_left (by omega) (le_of_lt hB)
    have h3 : (0 : Int) ≤ 2 ^ L * limbsValue L (lo ++ [top]) := Int.mul_nonneg (le_of_lt hB) ih0
    constructor
    · omega
    · have : (2 : Int) ^ L * (2 ^ (L * lo.length + k) - 1) = 2 ^ L * 2 ^ (L * lo.length + k) - 2 ^ L := by ring
      omega

/-- **Unique representation of zero**: a well-formed limb vector (low limbs in `[0, base)`, most
significant limb in `[0, 2^msl)`) with `base^(n-1)·2^msl < 2m` that represents a multiple of `m`
represents exactly `m` (`1 + Σ = m`), i.e. it is the vector `limbs_of_zero`. -/
theorem wellFormed_zero_value (L k : Nat) (m : Int) (lo : List Int) (top : Int)
    (hlo : ∀ x ∈ lo, 0 ≤ x ∧ x < 2 ^ L) (h0 : 0 ≤ top) (h1 : top < 2 ^ k)
    (h2m : (2 : Int) ^ (L * lo.length + k) < 2 * m)
    (hdvd : m ∣ 1 + limbsValue L (lo ++ [top])) :
    1 + limbsValue L (lo ++ [top]) = m := by
  obtain ⟨a0, a1⟩ := limbsValue_append_top_lt L k lo top hlo h0 h1
  obtain ⟨q, hq⟩ := hdvd
  have hm : 0 < m := by
    have : (0 : Int) < 2 ^ (L * lo.length + k) := by positivity
    omega
  have hq1 : 0 < q := by
    by_contra hc
    have : q ≤ 0 := by omega
    have : m * q ≤ 0 := Int.mul_nonpos_of_nonneg_of_nonpos (le_of_lt hm) this
    omega
  have hq2 : q < 2 := by
    by_contra hc
    have : 2 ≤ q := by omega
    have : m * 2 ≤ m * q := Int.mul_le_mul_of_nonneg_left this (le_of_lt hm)
    omega
  have : q = 1 := by omega
  rw [hq, this, Int.mul_one]

/-! ## Value equations of the limb-wise operations -/

theorem limbsValue_lsConst (L : Nat) (k : Int) (n : Nat) :
    limbsValue L (k :: List.replicate n 0) = k := by
  induction n with
  | zero => simp [limbsValue]
  | succ n ih =>
    simp only [limbsValue] at ih ⊢
    have : limbsValue L (List.replicate (n + 1) 0) = 0 := by
      have hz : ∀ j, limbsValue L (List.replicate j (0 : Int)) = 0 := by
        intro j; induction j with
        | zero => simp [limbsValue]
        | succ j ihj => simp [List.replicate_succ, limbsValue, ihj]
      exact hz _
    rw [this]; ring

/-- Limb-wise combination `a·xᵢ + b·yᵢ + cᵢ` has value `a·V(x) + b·V(y) + V(c)` (equal lengths). -/
theorem limbsValue_lin (L : Nat) (a b : Int) : ∀ (xs ys cs : List Int),
    xs.length = ys.length → ys.length = cs.length →
    limbsValue L (ChipCfg.zip3 xs ys cs (fun x y c => a * x + b * y + c)) =
      a * limbsValue L xs + b * limbsValue L ys + limbsValue L cs
  | [], [], [], _, _ => by simp [ChipCfg.zip3, limbsValue]
  | x :: xs, y :: ys, c :: cs, h1, h2 => by
    have ih := limbsValue_lin L a b xs ys cs (by simpa using h1) (by simpa using h2)
    simp only [ChipCfg.zip3] at ih ⊢
    simp only [List.zip_cons_cons, List.map_cons, limbsValue, ih]; ring
  | [], _ :: _, _, h, _ => by simp at h
  | _ :: _, [], _, h, _ => by simp at h
  | _ :: _, _ :: _, [], _, h => by simp at h
  | [], [], _ :: _, _, h => by simp at h

end MidnightZK.C05
