import Mathlib.Data.Int.ModEq
import MidnightZK.Proofs.C05.Crt
import MidnightZK.Model.C05.Gate
/-!
Helper lemmas for C05: bounds and congruences of the gate expressions, and the soundness of the
multiplication and normalization gates of the foreign-field chip.
-/
namespace MidnightZK.C05

/-! ## `sum_bigints` -/

theorem sumProd_nonneg : ∀ (cs vs : List Int), (∀ c ∈ cs, 0 ≤ c) → (∀ v ∈ vs, 0 ≤ v) →
    0 ≤ sumProd cs vs
  | [], _, _, _ => by simp [sumProd]
  | _ :: _, [], _, _ => by simp [sumProd]
  | c :: cs, v :: vs, hc, hv => by
    simp only [sumProd]
    have h1 : 0 ≤ c * v := Int.mul_nonneg (hc c (by simp)) (hv v (by simp))
    have h2 := sumProd_nonneg cs vs (fun x hx => hc x (by simp [hx])) (fun x hx => hv x (by simp [hx]))
    omega

theorem sumProd_le_replicate (M : Int) : ∀ (cs vs : List Int), (∀ c ∈ cs, 0 ≤ c) →
    (∀ v ∈ vs, v ≤ M) → sumProd cs vs ≤ sumProd cs (List.replicate vs.length M)
  | [], _, _, _ => by simp [sumProd]
  | _ :: _, [], _, _ => by simp [sumProd]
  | c :: cs, v :: vs, hc, hv => by
    simp only [sumProd, List.length_cons, List.replicate_succ]
    have h1 : c * v ≤ c * M := Int.mul_le_mul_of_nonneg_left (hv v (by simp)) (hc c (by simp))
    have h2 := sumProd_le_replicate M cs vs (fun x hx => hc x (by simp [hx]))
      (fun x hx => hv x (by simp [hx]))
    omega

theorem sumProd_replicate_add (a b : Int) : ∀ (cs : List Int) (n : Nat),
    sumProd cs (List.replicate n (a + b)) =
      sumProd cs (List.replicate n a) + sumProd cs (List.replicate n b)
  | [], _ => by simp [sumProd]
  | _ :: _, 0 => by simp [sumProd]
  | c :: cs, n + 1 => by
    simp only [List.replicate_succ, sumProd, sumProd_replicate_add a b cs n]; ring

theorem sumProd_map_emod_dvd (mj : Int) : ∀ (cs vs : List Int),
    mj ∣ sumProd (cs.map (· % mj)) vs - sumProd cs vs
  | [], _ => by simp [sumProd]
  | _ :: _, [] => by simp [sumProd]
  | c :: cs, v :: vs => by
    simp only [List.map_cons, sumProd]
    obtain ⟨q, hq⟩ := sumProd_map_emod_dvd mj cs vs
    refine ⟨-(c / mj) * v + q, ?_⟩
    have : c % mj = c - mj * (c / mj) := Int.emod_def c mj
    rw [this]; linarith [hq]

theorem sumProd_append : ∀ (a b c d : List Int), a.length = c.length →
    sumProd (a ++ b) (c ++ d) = sumProd a c + sumProd b d
  | [], b, [], d, _ => by simp [sumProd]
  | x :: a, b, y :: c, d, h => by
    simp only [List.cons_append, sumProd]
    rw [sumProd_append a b c d (by simpa using h)]; ring
  | [], _, _ :: _, _, h => by simp at h
  | _ :: _, _, [], _, h => by simp at h

theorem sumProd_map_mul (x : Int) : ∀ (cs ys : List Int),
    sumProd cs (ys.map (fun y => x * y)) = x * sumProd cs ys
  | [], _ => by simp [sumProd]
  | _ :: _, [] => by simp [sumProd]
  | c :: cs, y :: ys => by
    simp only [List.map_cons, sumProd, sumProd_map_mul x cs ys]; ring

/-! ## `pair_wise_prod` -/

theorem length_pairwiseProd : ∀ (xs ys : List Int),
    (pairwiseProd xs ys).length = xs.length * ys.length
  | [], _ => by simp [pairwiseProd]
  | x :: xs, ys => by
    have := length_pairwiseProd xs ys
    simp only [pairwiseProd] at this ⊢
    simp only [List.flatMap_cons, List.length_append, List.length_map, this, List.length_cons]
    ring

theorem mem_pairwiseProd_bounds (B : Int) (xs ys : List Int)
    (hx : ∀ x ∈ xs, 0 ≤ x ∧ x ≤ B) (hy : ∀ y ∈ ys, 0 ≤ y ∧ y ≤ B) :
    ∀ v ∈ pairwiseProd xs ys, 0 ≤ v ∧ v ≤ B ^ 2 := by
  intro v hv
  simp only [pairwiseProd, List.mem_flatMap, List.mem_map] at hv
  obtain ⟨x, hxm, y, hym, rfl⟩ := hv
  obtain ⟨hx0, hx1⟩ := hx x hxm
  obtain ⟨hy0, hy1⟩ := hy y hym
  refine ⟨Int.mul_nonneg hx0 hy0, ?_⟩
  have : x * y ≤ B * B := Int.mul_le_mul hx1 hy1 hy0 (le_trans hx0 hx1)
  rw [pow_two]; exact this

/-! ## Bounds of the gate expressions -/

/-- `MulConfig::bounds` does bound the multiplication-gate expression: for non-negative
coefficient vectors and limbs in `[0, base)`. -/
theorem mulExpr_in_bounds (bp dbp : List Int) (base : Int) (n : Nat) (xs ys zs : List Int)
    (hbp : ∀ c ∈ bp, 0 ≤ c) (hdbp : ∀ c ∈ dbp, 0 ≤ c)
    (hxl : xs.length = n) (hyl : ys.length = n) (hzl : zs.length = n)
    (hx : ∀ x ∈ xs, 0 ≤ x ∧ x ≤ base - 1) (hy : ∀ y ∈ ys, 0 ≤ y ∧ y ≤ base - 1)
    (hz : ∀ z ∈ zs, 0 ≤ z ∧ z ≤ base - 1) :
    (Params.mulExprBounds bp dbp base n).1 ≤ mulExpr bp dbp xs ys zs ∧
      mulExpr bp dbp xs ys zs ≤ (Params.mulExprBounds bp dbp base n).2 := by
  unfold Params.mulExprBounds mulExpr
  simp only
  have hp := mem_pairwiseProd_bounds (base - 1) xs ys hx hy
  have hpl : (pairwiseProd xs ys).length = n * n := by rw [length_pairwiseProd, hxl, hyl]
  have a1 := sumProd_nonneg dbp (pairwiseProd xs ys) hdbp (fun v hv => (hp v hv).1)
  have a2 := sumProd_le_replicate ((base - 1) ^ 2) dbp (pairwiseProd xs ys) hdbp (fun v hv => (hp v hv).2)
  have b1 := sumProd_nonneg bp xs hbp (fun v hv => (hx v hv).1)
  have b2 := sumProd_le_replicate (base - 1) bp xs hbp (fun v hv => (hx v hv).2)
  have c1 := sumProd_nonneg bp ys hbp (fun v hv => (hy v hv).1)
  have c2 := sumProd_le_replicate (base - 1) bp ys hbp (fun v hv => (hy v hv).2)
  have d1 := sumProd_nonneg bp zs hbp (fun v hv => (hz v hv).1)
  have d2 := sumProd_le_replicate (base - 1) bp zs hbp (fun v hv => (hz v hv).2)
  rw [hpl] at a2; rw [hxl] at b2; rw [hyl] at c2; rw [hzl] at d2
  constructor <;> omega

/-- `NormConfig::bounds` does bound the normalization-gate expression: `x_i ∈ [-L, L]`,
`z_i ∈ [0, base)`. -/
theorem normExpr_in_bounds (bp : List Int) (base lim : Int) (n : Nat) (xs zs : List Int) (t : Int)
    (hbp : ∀ c ∈ bp, 0 ≤ c) (hxl : xs.length = n) (hzl : zs.length = n)
    (hx : ∀ x ∈ xs, -lim ≤ x ∧ x ≤ lim) (hz : ∀ z ∈ zs, 0 ≤ z ∧ z ≤ base - 1) :
    (Params.normExprBounds bp base lim n t).1 ≤ normExpr bp lim xs zs t ∧
      normExpr bp lim xs zs t ≤ (Params.normExprBounds bp base lim n t).2 := by
  unfold Params.normExprBounds normExpr
  simp only
  have hs : ∀ v ∈ xs.map (· + lim), 0 ≤ v ∧ v ≤ lim + lim := by
    intro v hv
    simp only [List.mem_map] at hv
    obtain ⟨x, hxm, rfl⟩ := hv
    have := hx x hxm
    constructor <;> omega
  have a1 := sumProd_nonneg bp (xs.map (· + lim)) hbp (fun v hv => (hs v hv).1)
  have a2 := sumProd_le_replicate (lim + lim) bp (xs.map (· + lim)) hbp (fun v hv => (hs v hv).2)
  have d1 := sumProd_nonneg bp zs hbp (fun v hv => (hz v hv).1)
  have d2 := sumProd_le_replicate (base - 1) bp zs hbp (fun v hv => (hz v hv).2)
  rw [List.length_map, hxl, sumProd_replicate_add] at a2
  rw [hzl] at d2
  constructor <;> omega

/-! ## Values represented by limb vectors -/

theorem basePowersFrom_succ (P : Params) (s n : Nat) :
    P.basePowersFrom s (n + 1) = ((2 : Int) ^ (P.log2Base * s)) % P.m :: P.basePowersFrom (s + 1) n := by
  simp [Params.basePowersFrom, List.range'_succ]

theorem length_basePowersFrom (P : Params) (s n : Nat) : (P.basePowersFrom s n).length = n := by
  simp [Params.basePowersFrom]

theorem basePowersFrom_nonneg (P : Params) (hm : 0 < P.m) (s n : Nat) :
    ∀ c ∈ P.basePowersFrom s n, 0 ≤ c := by
  intro c hc
  simp only [Params.basePowersFrom, List.mem_map] at hc
  obtain ⟨i, _, rfl⟩ := hc
  exact Int.emod_nonneg _ (ne_of_gt hm)

theorem doubleBasePowers_nonneg (P : Params) (hm : 0 < P.m) : ∀ c ∈ P.doubleBasePowers, 0 ≤ c := by
  intro c hc
  simp only [Params.doubleBasePowers, List.mem_flatMap] at hc
  obtain ⟨i, _, hi⟩ := hc
  exact basePowersFrom_nonneg P hm i _ c hi

/-- `Σ (base^(s+j) mod m)·y_j ≡ base^s · Σ base^j·y_j (mod m)`. -/
theorem sumProd_basePowersFrom (P : Params) : ∀ (ys : List Int) (s : Nat),
    sumProd (P.basePowersFrom s ys.length) ys ≡
      (2 : Int) ^ (P.log2Base * s) * limbsValue P.log2Base ys [ZMOD P.m]
  | [], s => by simp [sumProd, limbsValue, Params.basePowersFrom, Int.ModEq]
  | y :: ys, s => by
    simp only [List.length_cons, basePowersFrom_succ, sumProd, limbsValue]
    have ih := sumProd_basePowersFrom P ys (s + 1)
    have h1 : ((2 : Int) ^ (P.log2Base * s)) % P.m * y ≡ (2 : Int) ^ (P.log2Base * s) * y [ZMOD P.m] :=
      Int.ModEq.mul_right _ (Int.mod_modEq _ _)
    have h2 := Int.ModEq.add h1 ih
    have e : (2 : Int) ^ (P.log2Base * s) * y +
        (2 : Int) ^ (P.log2Base * (s + 1)) * limbsValue P.log2Base ys =
        (2 : Int) ^ (P.log2Base * s) * (y + (2 : Int) ^ P.log2Base * limbsValue P.log2Base ys) := by
      rw [Nat.mul_succ, pow_add]; ring
    rw [e] at h2
    exact h2

/-- `Σ_i Σ_j (base^(s+i+j) mod m)·x_i·y_j ≡ base^s · (Σ base^i·x_i)·(Σ base^j·y_j) (mod m)`. -/
theorem sumProd_doublePowers (P : Params) (ys : List Int) : ∀ (xs : List Int) (s : Nat),
    sumProd ((List.range' s xs.length).flatMap (fun i => P.basePowersFrom i ys.length))
        (pairwiseProd xs ys) ≡
      (2 : Int) ^ (P.log2Base * s) * limbsValue P.log2Base xs * limbsValue P.log2Base ys [ZMOD P.m]
  | [], s => by simp [sumProd, limbsValue, pairwiseProd, Int.ModEq]
  | x :: xs, s => by
    have ih := sumProd_doublePowers P ys xs (s + 1)
    simp only [pairwiseProd] at ih ⊢
    simp only [List.length_cons, List.range'_succ, List.flatMap_cons, limbsValue]
    rw [sumProd_append _ _ _ _ (by simp [length_basePowersFrom]), sumProd_map_mul]
    have h1 : x * sumProd (P.basePowersFrom s ys.length) ys ≡
        x * ((2 : Int) ^ (P.log2Base * s) * limbsValue P.log2Base ys) [ZMOD P.m] :=
      Int.ModEq.mul_left _ (sumProd_basePowersFrom P ys s)
    have h2 := Int.ModEq.add h1 ih
    have e : x * ((2 : Int) ^ (P.log2Base * s) * limbsValue P.log2Base ys) +
        (2 : Int) ^ (P.log2Base * (s + 1)) * limbsValue P.log2Base xs * limbsValue P.log2Base ys =
        (2 : Int) ^ (P.log2Base * s) * (x + (2 : Int) ^ P.log2Base * limbsValue P.log2Base xs) *
          limbsValue P.log2Base ys := by
      rw [Nat.mul_succ, pow_add]; ring
    rw [e] at h2
    exact h2

/-- The multiplication-gate expression is congruent, modulo the emulated modulus, to
`x·y - z` for the represented integers `x = 1 + Σ base^i·x_i` etc. -/
theorem mulExpr_modEq (P : Params) (xs ys zs : List Int)
    (hxl : xs.length = P.nbLimbs) (hyl : ys.length = P.nbLimbs) (hzl : zs.length = P.nbLimbs) :
    mulExpr P.basePowers P.doubleBasePowers xs ys zs ≡
      (1 + limbsValue P.log2Base xs) * (1 + limbsValue P.log2Base ys)
        - (1 + limbsValue P.log2Base zs) [ZMOD P.m] := by
  unfold mulExpr Params.basePowers Params.doubleBasePowers
  have hx := sumProd_basePowersFrom P xs 0
  have hy := sumProd_basePowersFrom P ys 0
  have hz := sumProd_basePowersFrom P zs 0
  have hxy := sumProd_doublePowers P ys xs 0
  rw [hxl] at hx hxy; rw [hyl] at hy hxy; rw [hzl] at hz
  simp only [Nat.mul_zero, pow_zero, one_mul] at hx hy hz hxy
  have h := Int.ModEq.sub (Int.ModEq.add (Int.ModEq.add hxy hx) hy) hz
  have e : limbsValue P.log2Base xs * limbsValue P.log2Base ys + limbsValue P.log2Base xs +
      limbsValue P.log2Base ys - limbsValue P.log2Base zs =
      (1 + limbsValue P.log2Base xs) * (1 + limbsValue P.log2Base ys)
        - (1 + limbsValue P.log2Base zs) := by ring
  rw [e] at h
  exact h

theorem sumProd_map_add_replicate (lim : Int) : ∀ (cs xs : List Int), cs.length = xs.length →
    sumProd cs (xs.map (· + lim)) = sumProd cs xs + sumProd cs (List.replicate xs.length lim)
  | [], [], _ => by simp [sumProd]
  | c :: cs, x :: xs, h => by
    simp only [List.map_cons, sumProd, List.length_cons, List.replicate_succ]
    rw [sumProd_map_add_replicate lim cs xs (by simpa using h)]; ring
  | [], _ :: _, h => by simp at h
  | _ :: _, [], h => by simp at h

/-- The normalization-gate expression is congruent, modulo the emulated modulus, to `x - z`. -/
theorem normExpr_modEq (P : Params) (xs zs : List Int)
    (hxl : xs.length = P.nbLimbs) (hzl : zs.length = P.nbLimbs) :
    normExpr P.basePowers P.maxLimbBound xs zs P.normSumShifts ≡
      (1 + limbsValue P.log2Base xs) - (1 + limbsValue P.log2Base zs) [ZMOD P.m] := by
  unfold normExpr Params.normSumShifts
  have hl : P.basePowers.length = xs.length := by
    rw [hxl]; exact length_basePowersFrom P 0 P.nbLimbs
  rw [sumProd_map_add_replicate _ _ _ hl, hxl]
  have hx := sumProd_basePowersFrom P xs 0
  have hz := sumProd_basePowersFrom P zs 0
  rw [hxl] at hx; rw [hzl] at hz
  simp only [Nat.mul_zero, pow_zero, one_mul] at hx hz
  have h := Int.ModEq.sub hx hz
  unfold Params.basePowers
  have e : sumProd (P.basePowersFrom 0 P.nbLimbs) xs +
      sumProd (P.basePowersFrom 0 P.nbLimbs) (List.replicate P.nbLimbs P.maxLimbBound) -
      sumProd (P.basePowersFrom 0 P.nbLimbs) zs -
      sumProd (P.basePowersFrom 0 P.nbLimbs) (List.replicate P.nbLimbs P.maxLimbBound) =
      sumProd (P.basePowersFrom 0 P.nbLimbs) xs - sumProd (P.basePowersFrom 0 P.nbLimbs) zs := by ring
  rw [e]
  have e2 : (1 + limbsValue P.log2Base xs) - (1 + limbsValue P.log2Base zs) =
      limbsValue P.log2Base xs - limbsValue P.log2Base zs := by ring
  rw [e2]; exact h

/-! ## From the Boolean gate predicate to the hypotheses of the lift -/

theorem witOK_of_holds (p m kMin u E : Int) (exprOf : Int → Int) (bnd : Int → Int × Int) :
    ∀ (ms : List Int) (vsb : List (Int × Int)) (vjs : List Int),
    (∀ mj ∈ ms, (bnd mj).1 ≤ exprOf mj ∧ exprOf mj ≤ (bnd mj).2 ∧ mj ∣ exprOf mj - E) →
    modIdsHold p m kMin u exprOf ms vsb vjs = true → vjsInRange vsb vjs = true →
    WitOK p m kMin u E ms (ms.map bnd) vsb (ms.map exprOf) vjs := by
  intro ms
  induction ms with
  | nil =>
    intro vsb vjs _ h _
    cases vsb with
    | nil => simp [WitOK]
    | cons vb vsb => simp [modIdsHold] at h
  | cons mj ms ih =>
    intro vsb vjs hb h hr
    cases vsb with
    | nil => cases vjs <;> simp [WitOK]
    | cons vb vsb =>
      cases vjs with
      | nil => simp [modIdsHold] at h
      | cons vj vjs =>
        simp only [modIdsHold, Bool.and_eq_true, decide_eq_true_eq] at h
        simp only [vjsInRange, Bool.and_eq_true, decide_eq_true_eq] at hr
        simp only [List.map_cons, WitOK]
        obtain ⟨h1, h2, h3⟩ := hb mj (by simp)
        refine ⟨⟨h1, h2, h3, hr.1.1, hr.1.2, ?_⟩, ?_⟩
        · have := Int.dvd_of_emod_eq_zero h.1
          simpa [modId] using this
        · exact ih vsb vjs (fun y hy => hb y (by simp [hy])) h.2 hr.2

/-! ## Gate soundness -/

/-- **Soundness of the multiplication gate** (model of `gates/mul.rs`): for a parameter set whose
`MulConfig::bounds` computation succeeds with result `b`, if the limbs of `x`, `y`, `z` lie in
`[0, base)`, `u ∈ [0, u_max)`, every `vj ∈ [0, vj_max)` and all identities of the gate vanish in
the native field, then `x·y ≡ z` modulo the emulated modulus (`x = 1 + Σ base^i·x_i`, …). -/
theorem mul_gate_sound_aux (P : Params) (b : AuxBounds)
    (hm : 0 < P.m) (hmods : ∀ mj ∈ P.moduli, 0 < mj)
    (hb : P.mulBounds = .ok b)
    (xs ys zs : List Int) (u : Int) (vjs : List Int)
    (hxl : xs.length = P.nbLimbs) (hyl : ys.length = P.nbLimbs) (hzl : zs.length = P.nbLimbs)
    (hx : ∀ x ∈ xs, 0 ≤ x ∧ x < P.base) (hy : ∀ y ∈ ys, 0 ≤ y ∧ y < P.base)
    (hz : ∀ z ∈ zs, 0 ≤ z ∧ z < P.base)
    (hu : 0 ≤ u ∧ u < b.uMax) (hv : vjsInRange b.vs vjs = true)
    (hg : P.mulGateHolds b xs ys zs u vjs = true) :
    (1 + limbsValue P.log2Base xs) * (1 + limbsValue P.log2Base ys) ≡
      1 + limbsValue P.log2Base zs [ZMOD P.m] := by
  unfold Params.mulGateHolds at hg
  simp only [Bool.and_eq_true, decide_eq_true_eq] at hg
  obtain ⟨hnat, hmod⟩ := hg
  unfold Params.mulBounds at hb
  simp only at hb
  have hx' : ∀ x ∈ xs, 0 ≤ x ∧ x ≤ P.base - 1 := fun x h => ⟨(hx x h).1, by have := (hx x h).2; omega⟩
  have hy' : ∀ x ∈ ys, 0 ≤ x ∧ x ≤ P.base - 1 := fun x h => ⟨(hy x h).1, by have := (hy x h).2; omega⟩
  have hz' : ∀ x ∈ zs, 0 ≤ x ∧ x ≤ P.base - 1 := fun x h => ⟨(hz x h).1, by have := (hz x h).2; omega⟩
  have hbp := basePowersFrom_nonneg P hm 0 P.nbLimbs
  have hdbp := doubleBasePowers_nonneg P hm
  set E := mulExpr P.basePowers P.doubleBasePowers xs ys zs with hE
  have hEb := mulExpr_in_bounds P.basePowers P.doubleBasePowers P.base P.nbLimbs xs ys zs
    hbp hdbp hxl hyl hzl hx' hy' hz'
  have hw : WitOK P.p P.m b.kMin u E P.moduli
      (P.moduli.map (fun mj => Params.mulExprBounds (P.basePowers.map (· % mj))
        (P.doubleBasePowers.map (· % mj)) P.base P.nbLimbs)) b.vs
      (P.moduli.map (P.mulExprMod xs ys zs)) vjs := by
    apply witOK_of_holds _ _ _ _ _ _ _ _ _ _ _ hmod hv
    intro mj hmj
    have hpos := hmods mj hmj
    have hbpj : ∀ c ∈ P.basePowers.map (· % mj), 0 ≤ c := by
      intro c hc; simp only [List.mem_map] at hc; obtain ⟨a, _, rfl⟩ := hc
      exact Int.emod_nonneg _ (ne_of_gt hpos)
    have hdbpj : ∀ c ∈ P.doubleBasePowers.map (· % mj), 0 ≤ c := by
      intro c hc; simp only [List.mem_map] at hc; obtain ⟨a, _, rfl⟩ := hc
      exact Int.emod_nonneg _ (ne_of_gt hpos)
    have hb2 := mulExpr_in_bounds (P.basePowers.map (· % mj)) (P.doubleBasePowers.map (· % mj))
      P.base P.nbLimbs xs ys zs hbpj hdbpj hxl hyl hzl hx' hy' hz'
    refine ⟨hb2.1, hb2.2, ?_⟩
    unfold Params.mulExprMod mulExpr
    rw [hE]; unfold mulExpr
    have d1 := sumProd_map_emod_dvd mj P.doubleBasePowers (pairwiseProd xs ys)
    have d2 := sumProd_map_emod_dvd mj P.basePowers xs
    have d3 := sumProd_map_emod_dvd mj P.basePowers ys
    have d4 := sumProd_map_emod_dvd mj P.basePowers zs
    have := Int.dvd_sub (Int.dvd_add (Int.dvd_add d1 d2) d3) d4
    convert this using 1; ring
  have hlift := identityAuxBounds_sound P.p P.m P.moduli _ _ b hm hmods (by simp) hb E u
    (P.moduli.map (P.mulExprMod xs ys zs)) vjs hEb.1 hEb.2 hu.1 hu.2
    (by simpa [nativeId] using Int.dvd_of_emod_eq_zero hnat) hw
  have hcong := mulExpr_modEq P xs ys zs hxl hyl hzl
  rw [← hE, hlift] at hcong
  have h0 : (u + b.kMin) * P.m ≡ 0 [ZMOD P.m] := by
    rw [Int.modEq_zero_iff_dvd]; exact Dvd.intro_left _ rfl
  have h1 := (hcong.symm.trans h0)
  have := Int.ModEq.add_right (1 + limbsValue P.log2Base zs) h1
  have e : (1 + limbsValue P.log2Base xs) * (1 + limbsValue P.log2Base ys) -
      (1 + limbsValue P.log2Base zs) + (1 + limbsValue P.log2Base zs) =
      (1 + limbsValue P.log2Base xs) * (1 + limbsValue P.log2Base ys) := by ring
  rw [e, zero_add] at this
  exact this

/-- **Soundness of the normalization gate** (model of `gates/norm.rs`): for a parameter set whose
`NormConfig::bounds` computation succeeds with result `b`, if the limbs of the input lie in
`[-L, L]` (`L = max_limb_bound`, the bound `make_canonical` checks before calling `normalize`),
the output limbs in `[0, base)`, `u`, `vj` in their ranges and all identities of the gate vanish
in the native field, then input and output represent the same residue. -/
theorem norm_gate_sound_aux (P : Params) (b : AuxBounds)
    (hm : 0 < P.m) (hmods : ∀ mj ∈ P.moduli, 0 < mj)
    (hb : P.normBounds = .ok b)
    (xs zs : List Int) (u : Int) (vjs : List Int)
    (hxl : xs.length = P.nbLimbs) (hzl : zs.length = P.nbLimbs)
    (hx : ∀ x ∈ xs, -P.maxLimbBound ≤ x ∧ x ≤ P.maxLimbBound)
    (hz : ∀ z ∈ zs, 0 ≤ z ∧ z < P.base)
    (hu : 0 ≤ u ∧ u < b.uMax) (hv : vjsInRange b.vs vjs = true)
    (hg : P.normGateHolds b xs zs u vjs = true) :
    1 + limbsValue P.log2Base xs ≡ 1 + limbsValue P.log2Base zs [ZMOD P.m] := by
  unfold Params.normGateHolds at hg
  simp only [Bool.and_eq_true, decide_eq_true_eq] at hg
  obtain ⟨hnat, hmod⟩ := hg
  unfold Params.normBounds at hb
  simp only at hb
  have hz' : ∀ x ∈ zs, 0 ≤ x ∧ x ≤ P.base - 1 := fun x h => ⟨(hz x h).1, by have := (hz x h).2; omega⟩
  have hbp := basePowersFrom_nonneg P hm 0 P.nbLimbs
  set E := normExpr P.basePowers P.maxLimbBound xs zs P.normSumShifts with hE
  have hEb := normExpr_in_bounds P.basePowers P.base P.maxLimbBound P.nbLimbs xs zs P.normSumShifts
    hbp hxl hzl hx hz'
  have hw : WitOK P.p P.m b.kMin u E P.moduli
      (P.moduli.map (fun mj => Params.normExprBounds (P.basePowers.map (· % mj)) P.base
        P.maxLimbBound P.nbLimbs (urem P.normSumShifts mj))) b.vs
      (P.moduli.map (P.normExprMod xs zs)) vjs := by
    apply witOK_of_holds _ _ _ _ _ _ _ _ _ _ _ hmod hv
    intro mj hmj
    have hpos := hmods mj hmj
    have hbpj : ∀ c ∈ P.basePowers.map (· % mj), 0 ≤ c := by
      intro c hc; simp only [List.mem_map] at hc; obtain ⟨a, _, rfl⟩ := hc
      exact Int.emod_nonneg _ (ne_of_gt hpos)
    have hb2 := normExpr_in_bounds (P.basePowers.map (· % mj)) P.base P.maxLimbBound P.nbLimbs xs zs
      (urem P.normSumShifts mj) hbpj hxl hzl hx hz'
    refine ⟨hb2.1, hb2.2, ?_⟩
    unfold Params.normExprMod
    rw [hE]; unfold normExpr
    have d1 := sumProd_map_emod_dvd mj P.basePowers (xs.map (· + P.maxLimbBound))
    have d2 := sumProd_map_emod_dvd mj P.basePowers zs
    have d3 : mj ∣ urem P.normSumShifts mj - P.normSumShifts := by
      unfold urem; rw [Int.emod_def]; exact ⟨-(P.normSumShifts / mj), by ring⟩
    have := Int.dvd_sub (Int.dvd_sub d1 d2) d3
    convert this using 1; ring
  have hlift := identityAuxBounds_sound P.p P.m P.moduli _ _ b hm hmods (by simp) hb E u
    (P.moduli.map (P.normExprMod xs zs)) vjs hEb.1 hEb.2 hu.1 hu.2
    (by simpa [nativeId] using Int.dvd_of_emod_eq_zero hnat) hw
  have hcong := normExpr_modEq P xs zs hxl hzl
  rw [← hE, hlift] at hcong
  have h0 : (u + b.kMin) * P.m ≡ 0 [ZMOD P.m] := by
    rw [Int.modEq_zero_iff_dvd]; exact Dvd.intro_left _ rfl
  have h1 := (hcong.symm.trans h0)
  have := Int.ModEq.add_right (1 + limbsValue P.log2Base zs) h1
  have e : (1 + limbsValue P.log2Base xs) - (1 + limbsValue P.log2Base zs) +
      (1 + limbsValue P.log2Base zs) = 1 + limbsValue P.log2Base xs := by ring
  rw [e, zero_add] at this
  exact this

end MidnightZK.C05
