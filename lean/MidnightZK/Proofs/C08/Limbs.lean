import MidnightZK.Model.C08.PublicInput
/-! Lemmas on limb decomposition (`toLimbs` / `fromLimbs`). Core only. -/
namespace MidnightZK.C08

theorem toLimbs_length (w : Nat) : ∀ n v, (toLimbs w n v).length = n
  | 0, _ => rfl
  | n + 1, v => by simp [toLimbs, toLimbs_length w n]

theorem toLimbs_lt (w : Nat) : ∀ n v, ∀ l ∈ toLimbs w n v, l < 2 ^ w
  | 0, _, l, h => by simp [toLimbs] at h
  | n + 1, v, l, h => by
    simp only [toLimbs, List.mem_cons] at h
    rcases h with h | h
    · subst h; exact Nat.mod_lt _ (Nat.pow_pos (by decide))
    · exact toLimbs_lt w n _ l h

theorem fromLimbs_toLimbs (w : Nat) : ∀ n v, fromLimbs w (toLimbs w n v) = v % 2 ^ (w * n)
  | 0, v => by simp [toLimbs, fromLimbs, Nat.mod_one]
  | n + 1, v => by
    simp only [toLimbs, fromLimbs, fromLimbs_toLimbs w n]
    rw [Nat.mul_succ, Nat.pow_add, Nat.mul_comm (2 ^ (w * n)) (2 ^ w), Nat.mod_mul]

/-- Limb decomposition loses nothing on values that fit. -/
theorem toLimbs_injective (w n v₁ v₂ : Nat) (h₁ : v₁ < 2 ^ (w * n)) (h₂ : v₂ < 2 ^ (w * n))
    (h : toLimbs w n v₁ = toLimbs w n v₂) : v₁ = v₂ := by
  have := congrArg (fromLimbs w) h
  rwa [fromLimbs_toLimbs, fromLimbs_toLimbs, Nat.mod_eq_of_lt h₁, Nat.mod_eq_of_lt h₂] at this

theorem fits_iff (w n v : Nat) : fits w n v = true ↔ v < 2 ^ (w * n) := by
  unfold fits
  rw [beq_iff_eq, Nat.div_eq_zero_iff]
  simp

/-- Reducing limbs modulo a `q ≥ 2^w` changes nothing. -/
theorem map_mod_toLimbs (q w n v : Nat) (hq : 2 ^ w ≤ q) :
    (toLimbs w n v).map (· % q) = toLimbs w n v := by
  have h : ∀ l ∈ toLimbs w n v, l % q = l := fun l hl =>
    Nat.mod_eq_of_lt (Nat.lt_of_lt_of_le (toLimbs_lt w n v l hl) hq)
  conv => rhs; rw [← List.map_id (toLimbs w n v)]
  exact List.map_congr_left (by simpa using h)

end MidnightZK.C08
