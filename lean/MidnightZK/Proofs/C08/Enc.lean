import MidnightZK.Proofs.C08.Limbs
/-! Injectivity / inversion lemmas of the per-type encoders. Core only. -/
namespace MidnightZK.C08

/-! ### bit, byte, native -/

theorem encBit_inj (q : Nat) (hq : 2 ≤ q) (a b : Bool) (h : encBit q a = encBit q b) : a = b := by
  cases a <;> cases b <;> simp [encBit, Nat.mod_eq_of_lt (show 1 < q by omega)] at h ⊢
  all_goals (have := Nat.zero_mod q; omega)

theorem encByte_inj (q : Nat) (hq : 256 ≤ q) (a b : Nat) (ha : a < 256) (hb : b < 256)
    (h : encByte q a = encByte q b) : a = b := by
  simp only [encByte, List.cons.injEq, and_true] at h
  rwa [Nat.mod_eq_of_lt (by omega), Nat.mod_eq_of_lt (by omega)] at h

theorem encNative_inj (q : Nat) (a b : Nat) (ha : a < q) (hb : b < q)
    (h : encNative q a = encNative q b) : a = b := by
  simp only [encNative, List.cons.injEq, and_true] at h
  rwa [Nat.mod_eq_of_lt ha, Nat.mod_eq_of_lt hb] at h

/-! ### emulated field elements -/

/-- `x ↦ (x - 1) mod p` is injective on `[0, p)`. -/
theorem shift_inj (p x y : Nat) (hx : x < p) (hy : y < p)
    (h : (x + p - 1) % p = (y + p - 1) % p) : x = y := by
  by_cases hx0 : x = 0 <;> by_cases hy0 : y = 0
  · omega
  · subst hx0
    rw [show 0 + p - 1 = p - 1 by omega, Nat.mod_eq_of_lt (by omega),
      show y + p - 1 = (y - 1) + p by omega, Nat.add_mod_right, Nat.mod_eq_of_lt (by omega)] at h
    omega
  · subst hy0
    rw [show 0 + p - 1 = p - 1 by omega, Nat.mod_eq_of_lt (show p - 1 < p by omega),
      show x + p - 1 = (x - 1) + p by omega, Nat.add_mod_right, Nat.mod_eq_of_lt (by omega)] at h
    omega
  · rw [show x + p - 1 = (x - 1) + p by omega, Nat.add_mod_right, Nat.mod_eq_of_lt (by omega),
      show y + p - 1 = (y - 1) + p by omega, Nat.add_mod_right, Nat.mod_eq_of_lt (by omega)] at h
    omega

theorem encField_eq (q : Nat) (P : FParams) (hq : 2 ^ P.w ≤ q) (x : Nat) :
    encField q P x = toLimbs P.w P.n ((x + P.p - 1) % P.p) := by
  unfold encField; exact map_mod_toLimbs q P.w P.n _ hq

theorem encField_length (q : Nat) (P : FParams) (x : Nat) : (encField q P x).length = P.n := by
  simp [encField, toLimbs_length]

theorem encField_lt (q : Nat) (P : FParams) (hq : 2 ^ P.w ≤ q) (x : Nat) :
    ∀ l ∈ encField q P x, l < 2 ^ P.w := by
  rw [encField_eq q P hq]; exact toLimbs_lt _ _ _

theorem encField_inj (q : Nat) (P : FParams) (hq : 2 ^ P.w ≤ q) (hfit : P.p ≤ 2 ^ (P.w * P.n))
    (x y : Nat) (hx : x < P.p) (hy : y < P.p) (h : encField q P x = encField q P y) : x = y := by
  rw [encField_eq q P hq, encField_eq q P hq] at h
  have hp : 0 < P.p := by omega
  have := toLimbs_injective P.w P.n _ _
    (Nat.lt_of_lt_of_le (Nat.mod_lt _ hp) hfit) (Nat.lt_of_lt_of_le (Nat.mod_lt _ hp) hfit) h
  exact shift_inj P.p x y hx hy this

/-- The verifier-side decoder inverts the encoder. -/
theorem decField_encField (q : Nat) (P : FParams) (hq : 2 ^ P.w ≤ q)
    (hfit : P.p ≤ 2 ^ (P.w * P.n)) (x : Nat) (hx : x < P.p) :
    decField P (encField q P x) = x := by
  have hp : 0 < P.p := by omega
  unfold decField
  rw [encField_eq q P hq, fromLimbs_toLimbs,
    Nat.mod_eq_of_lt (Nat.lt_of_lt_of_le (Nat.mod_lt _ hp) hfit)]
  by_cases hx0 : x = 0
  · subst hx0
    rw [show 0 + P.p - 1 = P.p - 1 by omega, Nat.mod_eq_of_lt (show P.p - 1 < P.p by omega),
      show P.p - 1 + 1 = P.p by omega, Nat.mod_self]
  · rw [show x + P.p - 1 = (x - 1) + P.p by omega, Nat.add_mod_right,
      Nat.mod_eq_of_lt (show x - 1 < P.p by omega), show x - 1 + 1 = x by omega,
      Nat.mod_eq_of_lt hx]

end MidnightZK.C08
