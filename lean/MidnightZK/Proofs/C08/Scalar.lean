import MidnightZK.Proofs.C08.Enc
/-! Bit vectors, chunks, Jubjub scalars and BigUints. -/
namespace MidnightZK.C08

theorem bitsLE_length : ∀ n v, (bitsLE n v).length = n
  | 0, _ => rfl
  | n + 1, v => by simp [bitsLE, bitsLE_length n]

theorem fromBitsLE_bitsLE : ∀ n v, fromBitsLE (bitsLE n v) = v % 2 ^ n
  | 0, v => by simp [bitsLE, fromBitsLE, Nat.mod_one]
  | n + 1, v => by
    simp only [bitsLE, fromBitsLE, fromBitsLE_bitsLE n]
    rw [Nat.pow_succ, Nat.mul_comm (2 ^ n) 2, Nat.mod_mul]
    have : v % 2 = 0 ∨ v % 2 = 1 := by omega
    rcases this with h | h <;> simp [h]

theorem chunksAux_nil {α : Type} (k : Nat) : ∀ fuel, chunksAux k fuel ([] : List α) = []
  | 0 => rfl
  | _ + 1 => rfl

/-- A non-empty vector no longer than the batch size is a single chunk. -/
theorem chunks_single {α : Type} (k : Nat) (l : List α) (h0 : 1 ≤ l.length) (hk : l.length ≤ k) :
    chunks k l = [l] := by
  obtain ⟨a, t, rfl⟩ : ∃ a t, l = a :: t := by
    cases l with
    | nil => simp at h0
    | cons a t => exact ⟨a, t, rfl⟩
  unfold chunks
  simp only [List.length_cons, chunksAux]
  rw [List.take_of_length_le (by simpa using hk), List.drop_of_length_le (by simpa using hk),
    chunksAux_nil]

/-- Off-circuit encoder of a Jubjub scalar when the bit window fits one batch. -/
theorem encJScalar_eq (q nbits numBitsF s : Nat) (h0 : 1 ≤ nbits) (hb : nbits ≤ numBitsF - 1) :
    encJScalar q nbits numBitsF s = [s % 2 ^ nbits % q] := by
  unfold encJScalar encBitVec
  rw [chunks_single _ _ (by rw [bitsLE_length]; exact h0) (by rw [bitsLE_length]; exact hb)]
  simp [fromBitsLE_bitsLE]

theorem encBitVec_bitsLE_single (q batch len s : Nat) (h0 : 1 ≤ len) (hb : len ≤ batch) :
    encBitVec q batch (bitsLE len s) = [s % 2 ^ len % q] := by
  unfold encBitVec
  rw [chunks_single _ _ (by rw [bitsLE_length]; exact h0) (by rw [bitsLE_length]; exact hb)]
  simp [fromBitsLE_bitsLE]

theorem encJScalar_inj (q nbits numBitsF : Nat) (h0 : 1 ≤ nbits) (hb : nbits ≤ numBitsF - 1)
    (hq : 2 ^ (numBitsF - 1) ≤ q) (s t : Nat) (hs : s < 2 ^ nbits) (ht : t < 2 ^ nbits)
    (h : encJScalar q nbits numBitsF s = encJScalar q nbits numBitsF t) : s = t := by
  rw [encJScalar_eq q nbits numBitsF s h0 hb, encJScalar_eq q nbits numBitsF t h0 hb] at h
  have hle : 2 ^ nbits ≤ q := Nat.le_trans (Nat.pow_le_pow_right (by decide) hb) hq
  simp only [List.cons.injEq, and_true] at h
  rwa [Nat.mod_eq_of_lt hs, Nat.mod_eq_of_lt ht, Nat.mod_eq_of_lt (by omega),
    Nat.mod_eq_of_lt (by omega)] at h

/-! ### BigUint -/

theorem encBig_some (q w nb v : Nat) (hq : 2 ^ w ≤ q) (hv : v < 2 ^ (w * ceilDiv nb w)) :
    encBig q w nb v = some (toLimbs w (ceilDiv nb w) v) := by
  unfold encBig
  simp only [(fits_iff w (ceilDiv nb w) v).mpr hv, if_true, map_mod_toLimbs q w _ v hq]

theorem encBig_none (q w nb v : Nat) (hv : ¬ v < 2 ^ (w * ceilDiv nb w)) :
    encBig q w nb v = none := by
  unfold encBig
  have : fits w (ceilDiv nb w) v = false := by
    rw [← Bool.not_eq_true, fits_iff]; exact hv
  simp [this]

theorem le_mul_ceilDiv (a b : Nat) (hb : 0 < b) : a ≤ b * ceilDiv a b := by
  unfold ceilDiv
  have h := Nat.div_add_mod (a + b - 1) b
  have hm := Nat.mod_lt (a + b - 1) hb
  omega

/-- Every value below `2^nb_bits` fits the limbs of the declared bound. -/
theorem lt_pow_limbs (w nb v : Nat) (hw : 0 < w) (hv : v < 2 ^ nb) : v < 2 ^ (w * ceilDiv nb w) :=
  Nat.lt_of_lt_of_le hv (Nat.pow_le_pow_right (by decide) (le_mul_ceilDiv nb w hw))

theorem encBig_inj (q w nb : Nat) (hq : 2 ^ w ≤ q) (v₁ v₂ : Nat) (l : List Nat)
    (h₁ : encBig q w nb v₁ = some l) (h₂ : encBig q w nb v₂ = some l) : v₁ = v₂ := by
  by_cases f₁ : v₁ < 2 ^ (w * ceilDiv nb w)
  · by_cases f₂ : v₂ < 2 ^ (w * ceilDiv nb w)
    · rw [encBig_some q w nb v₁ hq f₁] at h₁
      rw [encBig_some q w nb v₂ hq f₂] at h₂
      exact toLimbs_injective w _ v₁ v₂ f₁ f₂ (by rw [Option.some.inj h₁, Option.some.inj h₂])
    · rw [encBig_none q w nb v₂ f₂] at h₂; cases h₂
  · rw [encBig_none q w nb v₁ f₁] at h₁; cases h₁

theorem encBig_length (q w nb v : Nat) (l : List Nat) (h : encBig q w nb v = some l) :
    l.length = ceilDiv nb w := by
  simp only [encBig] at h
  split at h
  · cases h; simp [toLimbs_length]
  · cases h

end MidnightZK.C08
