import MidnightZK.Model.C08.Names
/-! `AssignedMsm::assign` rebuilds the off-circuit map when it sorts the names. -/
namespace MidnightZK.C08

/-- Inserting a key greater than every key of the map appends. -/
theorem insertKV_append {κ α : Type} (lt : κ → κ → Bool)
    (hasym : ∀ a b, lt a b = true → lt b a = false) (k : κ) (v : α) :
    ∀ m : List (κ × α), (∀ e ∈ m, lt e.1 k = true) → insertKV lt k v m = m ++ [(k, v)]
  | [], _ => rfl
  | (k', v') :: rest, h => by
    have h1 : lt k' k = true := h (k', v') (by simp)
    have h2 : lt k k' = false := hasym _ _ h1
    simp only [insertKV, h2, h1, if_true, Bool.false_eq_true, if_false, List.cons_append]
    rw [insertKV_append lt hasym k v rest (fun e he => h e (by simp [he]))]

theorem btree_sorted_aux {κ α : Type} (lt : κ → κ → Bool)
    (hasym : ∀ a b, lt a b = true → lt b a = false) :
    ∀ (kvs m : List (κ × α)), (∀ e ∈ m, ∀ f ∈ kvs, lt e.1 f.1 = true) →
      kvs.Pairwise (fun a b => lt a.1 b.1 = true) →
      kvs.foldl (fun m kv => insertKV lt kv.1 kv.2 m) m = m ++ kvs
  | [], m, _, _ => by simp
  | kv :: rest, m, hm, hs => by
    rw [List.pairwise_cons] at hs
    simp only [List.foldl_cons]
    rw [insertKV_append lt hasym kv.1 kv.2 m (fun e he => hm e he kv (by simp))]
    rw [btree_sorted_aux lt hasym rest (m ++ [(kv.1, kv.2)])]
    · simp
    · intro e he f hf
      rw [List.mem_append] at he
      rcases he with he | he
      · exact hm e he f (by simp [hf])
      · simp only [List.mem_singleton] at he
        subst he
        exact hs.1 f hf
    · exact hs.2

/-- Collecting a strictly key-sorted list into a `BTreeMap` gives that list. -/
theorem btree_of_sorted {κ α : Type} (lt : κ → κ → Bool)
    (hasym : ∀ a b, lt a b = true → lt b a = false) (kvs : List (κ × α))
    (hs : kvs.Pairwise (fun a b => lt a.1 b.1 = true)) : btree lt kvs = kvs := by
  unfold btree
  rw [btree_sorted_aux lt hasym kvs [] (by simp) hs]
  simp

theorem zip_fst_snd {κ α : Type} : ∀ l : List (κ × α), (l.map (·.1)).zip (l.map (·.2)) = l
  | [] => rfl
  | (a, b) :: rest => by simp [zip_fst_snd rest]

end MidnightZK.C08
