import MidnightZK.Proofs.C08.Scalar
/-! The bound an in-circuit BigUint derives for itself (`nb_bits`) announces exactly as many
limbs as the exposure binds. -/
namespace MidnightZK.C08

theorem boundValue_lt (w : Nat) : ∀ bounds : List Nat, (∀ b ∈ bounds, b ≤ w) →
    boundValue w bounds < 2 ^ (w * bounds.length)
  | [], _ => by simp [boundValue]
  | b :: bs, h => by
    have ih := boundValue_lt w bs (fun x hx => h x (by simp [hx]))
    have hb : 2 ^ b ≤ 2 ^ w := Nat.pow_le_pow_right (by decide) (h b (by simp))
    have hpos : 0 < 2 ^ b := Nat.pow_pos (by decide)
    simp only [boundValue, List.length_cons, Nat.mul_succ, Nat.pow_add]
    -- (2^b - 1) + 2^w * V < 2^(w*len) * 2^w  with V + 1 ≤ 2^(w*len)
    have : 2 ^ w * (boundValue w bs + 1) ≤ 2 ^ w * 2 ^ (w * bs.length) := Nat.mul_le_mul_left _ ih
    rw [Nat.mul_add, Nat.mul_one] at this
    rw [Nat.mul_comm (2 ^ (w * bs.length)) (2 ^ w)]
    omega

theorem boundValue_ge (w : Nat) : ∀ bounds : List Nat, bounds ≠ [] →
    1 ≤ bounds.getLast! → 2 ^ (w * (bounds.length - 1)) ≤ boundValue w bounds
  | [], h, _ => absurd rfl h
  | [b], _, hl => by
    simp only [List.getLast!, List.getLast] at hl
    have : 2 ≤ 2 ^ b := by
      calc 2 = 2 ^ 1 := rfl
        _ ≤ 2 ^ b := Nat.pow_le_pow_right (by decide) hl
    simp [boundValue]; omega
  | b :: c :: cs, _, hl => by
    have hl' : 1 ≤ (c :: cs).getLast! := by
      simpa [List.getLast!, List.getLast] using hl
    have ih := boundValue_ge w (c :: cs) (by simp) hl'
    simp only [boundValue, List.length_cons, Nat.add_sub_cancel] at ih ⊢
    have : 2 ^ w * 2 ^ (w * (cs.length + 1 - 1 + 1 - 1)) ≤ 2 ^ w * (2 ^ c - 1 + 2 ^ w * boundValue w cs) := by
      apply Nat.mul_le_mul_left
      simpa using ih
    have e : w * (cs.length + 1) = w + w * cs.length := by rw [Nat.mul_succ]; omega
    rw [e, Nat.pow_add]
    simp only [Nat.add_sub_cancel] at this
    omega

theorem bitLen_bounds (v a b : Nat) (hlo : 2 ^ a ≤ v) (hhi : v < 2 ^ b) : a < bitLen v ∧ bitLen v ≤ b := by
  have hv : v ≠ 0 := by
    have : 0 < 2 ^ a := Nat.pow_pos (by decide)
    omega
  unfold bitLen
  simp only [hv, if_false]
  have h1 := (Nat.le_log2 hv).mpr hlo
  have h2 := (Nat.log2_lt hv).mpr hhi
  omega

theorem ceilDiv_eq (x w n : Nat) (hw : 0 < w) (hlo : w * n < x) (hhi : x ≤ w * (n + 1)) :
    ceilDiv x w = n + 1 := by
  unfold ceilDiv
  have e1 : w * (n + 1) = w * n + w := Nat.mul_succ w n
  have e2 : (n + 1) * w = w * n + w := by rw [Nat.mul_comm]; exact e1
  have e3 : (n + 1 + 1) * w = w * n + w + w := by rw [Nat.succ_mul, e2]
  apply Nat.div_eq_of_lt_le
  · rw [e2]; omega
  · rw [e3]; omega

/-- For normalised limb bounds (each `≤ w`) whose most significant bound is non-zero, the
derived bit bound announces exactly `bounds.length` limbs. -/
theorem derived_bound_count (w : Nat) (hw : 0 < w) (bounds : List Nat) (hne : bounds ≠ [])
    (hall : ∀ b ∈ bounds, b ≤ w) (hlast : 1 ≤ bounds.getLast!) :
    ceilDiv (nbBitsOf w bounds) w = bounds.length := by
  obtain ⟨n, hn⟩ : ∃ n, bounds.length = n + 1 := by
    cases bounds with
    | nil => exact absurd rfl hne
    | cons a t => exact ⟨t.length, rfl⟩
  have lo := boundValue_ge w bounds hne hlast
  have hi := boundValue_lt w bounds hall
  rw [hn] at lo hi
  simp only [Nat.add_sub_cancel] at lo
  obtain ⟨b1, b2⟩ := bitLen_bounds _ _ _ lo hi
  rw [hn]
  exact ceilDiv_eq _ w n hw b1 b2

/-- In both branches of `normalize` the number of exposed limbs is `⌈nb_bits/w⌉`. -/
theorem exposedLimbCount_eq (w : Nat) (hw : 0 < w) (bounds : List Nat) (hne : bounds ≠ [])
    (hlast : 1 ≤ bounds.getLast!) :
    exposedLimbCount w bounds = ceilDiv (nbBitsOf w bounds) w := by
  unfold exposedLimbCount
  split
  · next h =>
    rw [List.all_eq_true] at h
    exact (derived_bound_count w hw bounds hne (fun b hb => by simpa using h b hb) hlast).symm
  · rfl

theorem boundValue_replicate_append (w : Nat) (rest : List Nat) : ∀ k,
    boundValue w (List.replicate k w ++ rest) + 1 = 2 ^ (w * k) * (boundValue w rest + 1)
  | 0 => by simp
  | k + 1 => by
    have ih := boundValue_replicate_append w rest k
    have hp : 1 ≤ 2 ^ w := Nat.one_le_two_pow
    simp only [List.replicate_succ, List.cons_append, boundValue]
    have e : 2 ^ w - 1 + 2 ^ w * boundValue w (List.replicate k w ++ rest) + 1
        = 2 ^ w * (boundValue w (List.replicate k w ++ rest) + 1) := by
      rw [Nat.mul_add, Nat.mul_one]; omega
    have hk : w + w * k = w * (k + 1) := by rw [Nat.mul_succ, Nat.add_comm]
    rw [e, ih, ← Nat.mul_assoc, ← Nat.pow_add, hk]

theorem ceilDiv_pred (nb w : Nat) (hw : 0 < w) (hnb : 1 ≤ nb) : ceilDiv nb w - 1 = (nb - 1) / w := by
  unfold ceilDiv
  have : nb + w - 1 = (nb - 1) + w := by omega
  rw [this, Nat.add_div_right _ hw]
  rfl

/-- `assign_bounded(nb_bits)` gives limb bounds whose derived bound `nb_bits()` is `nb_bits`. -/
theorem nbBitsOf_assignBounds (w nb : Nat) (hw : 0 < w) (hnb : 1 ≤ nb) :
    nbBitsOf w (assignBounds w nb) = nb := by
  unfold nbBitsOf assignBounds
  simp only []
  rw [Nat.max_eq_left hnb, ceilDiv_pred nb w hw hnb]
  have h := boundValue_replicate_append w [(nb - 1) % w + 1] ((nb - 1) / w)
  simp only [boundValue, Nat.mul_zero, Nat.add_zero] at h
  have hp : 1 ≤ 2 ^ ((nb - 1) % w + 1) := Nat.one_le_two_pow
  rw [Nat.sub_add_cancel hp, ← Nat.pow_add] at h
  have hdm := Nat.div_add_mod (nb - 1) w
  have he : w * ((nb - 1) / w) + ((nb - 1) % w + 1) = nb := by omega
  rw [he] at h
  have hlo : 2 ^ (nb - 1) ≤ boundValue w (List.replicate ((nb - 1) / w) w ++ [(nb - 1) % w + 1]) := by
    have : 2 ^ nb = 2 * 2 ^ (nb - 1) := by
      rw [← Nat.pow_succ']; congr 1; omega
    have h1 : 1 ≤ 2 ^ (nb - 1) := Nat.one_le_two_pow
    omega
  have hhi : boundValue w (List.replicate ((nb - 1) / w) w ++ [(nb - 1) % w + 1]) < 2 ^ nb := by omega
  have := bitLen_bounds _ (nb - 1) nb hlo hhi
  omega

end MidnightZK.C08
