import MidnightZK.Proofs.C08.Point
/-! The instance-row counter machine, MSMs and accumulators. -/
namespace MidnightZK.C08

/-! ### `constrainAll` -/

theorem constrainAll_spec (cs : List Nat) : ∀ (c : Chip),
    (c.constrainAll cs).offset = c.offset + cs.length ∧
    (c.constrainAll cs).binds = c.binds ++ (List.range' c.offset cs.length).zip cs ∧
    (c.constrainAll cs).comOffset = c.comOffset ∧ (c.constrainAll cs).comBinds = c.comBinds := by
  induction cs with
  | nil => intro c; simp [Chip.constrainAll]
  | cons x xs ih =>
    intro c
    have := ih (c.constrain x)
    simp only [Chip.constrainAll, List.foldl_cons] at this ⊢
    obtain ⟨h1, h2, h3, h4⟩ := this
    refine ⟨?_, ?_, ?_, ?_⟩
    · rw [h1]; simp [Chip.constrain]; omega
    · rw [h2]; simp [Chip.constrain, List.range'_succ]
    · rw [h3]; simp [Chip.constrain]
    · rw [h4]; simp [Chip.constrain]

theorem constrainAllCommitted_spec (cs : List Nat) : ∀ (c : Chip),
    (c.constrainAllCommitted cs).comOffset = c.comOffset + cs.length ∧
    (c.constrainAllCommitted cs).comBinds = c.comBinds ++ (List.range' c.comOffset cs.length).zip cs ∧
    (c.constrainAllCommitted cs).offset = c.offset ∧ (c.constrainAllCommitted cs).binds = c.binds := by
  induction cs with
  | nil => intro c; simp [Chip.constrainAllCommitted]
  | cons x xs ih =>
    intro c
    have := ih (c.constrainCommitted x)
    simp only [Chip.constrainAllCommitted, List.foldl_cons] at this ⊢
    obtain ⟨h1, h2, h3, h4⟩ := this
    refine ⟨?_, ?_, ?_, ?_⟩
    · rw [h1]; simp [Chip.constrainCommitted]; omega
    · rw [h2]; simp [Chip.constrainCommitted, List.range'_succ]
    · rw [h3]; simp [Chip.constrainCommitted]
    · rw [h4]; simp [Chip.constrainCommitted]

/-- Copy constraints `row (s+i) ↦ csᵢ` hold iff the instance agrees with `cs` at those rows. -/
theorem holds_zip_range' (s : Nat) (cs inst : List Nat) :
    Holds ((List.range' s cs.length).zip cs) inst ↔ ∀ i, (h : i < cs.length) → inst.getD (s + i) 0 = cs[i] := by
  induction cs generalizing s with
  | nil => simp [Holds]
  | cons x xs ih =>
    simp only [List.length_cons, List.range'_succ, List.zip_cons_cons]
    have ih' := ih (s + 1)
    unfold Holds at ih' ⊢
    simp only [List.mem_cons, forall_eq_or_imp]
    rw [ih']
    constructor
    · rintro ⟨h0, hr⟩ i hi
      cases i with
      | zero => simpa using h0
      | succ j =>
        have := hr j (by simpa using hi)
        simpa [Nat.add_assoc, Nat.add_comm 1 j] using this
    · intro h
      refine ⟨by simpa using h 0 (by simp), fun i hi => ?_⟩
      have := h (i + 1) (by simpa using hi)
      simpa [Nat.add_assoc, Nat.add_comm 1 i] using this

theorem holdsB_iff (b : List (Nat × Nat)) (inst : List Nat) : holdsB b inst = true ↔ Holds b inst := by
  simp [holdsB, Holds, List.all_eq_true]

theorem eq_of_getD_eq (inst cs : List Nat) (hl : inst.length = cs.length)
    (h : ∀ i, (hi : i < cs.length) → inst.getD i 0 = cs[i]) : inst = cs := by
  apply List.ext_getElem hl
  intro i h1 h2
  have := h i h2
  simpa [List.getD, List.getElem?_eq_getElem h1] using this

/-! ### MSM / accumulator -/

theorem flatMap_const_length {α : Type} (f : α → List Nat) (L : Nat) (hlen : ∀ a, (f a).length = L) :
    ∀ l : List α, (l.flatMap f).length = L * l.length
  | [] => by simp
  | a :: t => by
    simp only [List.flatMap_cons, List.length_append, List.length_cons, hlen,
      flatMap_const_length f L hlen t, Nat.mul_succ]
    omega

theorem flatMap_inj_of_length {α : Type} (f : α → List Nat) (L : Nat)
    (hlen : ∀ a, (f a).length = L) (S : α → Prop)
    (hinj : ∀ a b, S a → S b → f a = f b → a = b) :
    ∀ l₁ l₂ : List α, l₁.length = l₂.length → (∀ a ∈ l₁, S a) → (∀ a ∈ l₂, S a) →
      l₁.flatMap f = l₂.flatMap f → l₁ = l₂
  | [], [], _, _, _, _ => rfl
  | [], _ :: _, h, _, _, _ => by simp at h
  | _ :: _, [], h, _, _, _ => by simp at h
  | a :: t, b :: u, hl, h₁, h₂, h => by
    simp only [List.flatMap_cons] at h
    obtain ⟨hab, htu⟩ := List.append_inj h (by rw [hlen, hlen])
    have e := hinj a b (h₁ a (by simp)) (h₂ b (by simp)) hab
    have := flatMap_inj_of_length f L hlen S hinj t u (by simpa using hl)
      (fun x hx => h₁ x (by simp [hx])) (fun x hx => h₂ x (by simp [hx])) htu
    rw [e, this]

theorem map_mod_inj (q : Nat) : ∀ l₁ l₂ : List Nat, l₁.length = l₂.length →
    (∀ a ∈ l₁, a < q) → (∀ a ∈ l₂, a < q) → l₁.map (· % q) = l₂.map (· % q) → l₁ = l₂ := by
  intro l₁ l₂ _ h₁ h₂ h
  have e₁ : l₁.map (· % q) = l₁ := by
    conv => rhs; rw [← List.map_id l₁]
    exact List.map_congr_left (fun a ha => by simpa using Nat.mod_eq_of_lt (h₁ a ha))
  have e₂ : l₂.map (· % q) = l₂ := by
    conv => rhs; rw [← List.map_id l₂]
    exact List.map_congr_left (fun a ha => by simpa using Nat.mod_eq_of_lt (h₂ a ha))
  rwa [e₁, e₂] at h

/-- Well-formedness of an MSM value. -/
def MsmOk (q : Nat) (P : FParams) (m : Msm) : Prop :=
  (∀ b ∈ m.bases, PointOk P b) ∧ (∀ s ∈ m.scalars, s < q) ∧ (∀ s ∈ m.fixed, s < q)

/-- Same shape: what the circuit fixes (number of bases/scalars, set of fixed-base names). -/
def SameShape (m₁ m₂ : Msm) : Prop :=
  m₁.bases.length = m₂.bases.length ∧ m₁.scalars.length = m₂.scalars.length ∧
    m₁.fixed.length = m₂.fixed.length

theorem encMsm_inj (q : Nat) (P : FParams) (hq : 2 ^ (P.w + 1) ≤ q) (hn : 1 ≤ P.n)
    (hfit : P.p ≤ 2 ^ (P.w * P.n)) (m₁ m₂ : Msm) (hs : SameShape m₁ m₂)
    (h₁ : MsmOk q P m₁) (h₂ : MsmOk q P m₂) (h : encMsm q P m₁ = encMsm q P m₂) : m₁ = m₂ := by
  obtain ⟨sb, ss, sf⟩ := hs
  unfold encMsm at h
  have lb : (m₁.bases.flatMap (encPoint q P)).length = (m₂.bases.flatMap (encPoint q P)).length := by
    rw [flatMap_const_length _ _ (encPoint_length q P), flatMap_const_length _ _ (encPoint_length q P), sb]
  rw [List.append_assoc, List.append_assoc] at h
  obtain ⟨hb, hrest⟩ := List.append_inj h lb
  obtain ⟨hsc, hfx⟩ := List.append_inj hrest (by simp [ss])
  have eb := flatMap_inj_of_length (encPoint q P) (2 * P.n) (encPoint_length q P) (PointOk P)
    (fun a b ha hb' => encPoint_inj q P hq hn hfit a b ha hb') _ _ sb h₁.1 h₂.1 hb
  have es := map_mod_inj q _ _ ss h₁.2.1 h₂.2.1 hsc
  have ef := map_mod_inj q _ _ sf h₁.2.2 h₂.2.2 hfx
  cases m₁; cases m₂; simp_all

theorem encMsm_length (q : Nat) (P : FParams) (m : Msm) :
    (encMsm q P m).length = 2 * P.n * m.bases.length + m.scalars.length + m.fixed.length := by
  simp [encMsm, flatMap_const_length _ _ (encPoint_length q P)]; omega

theorem encAcc_inj (q : Nat) (P : FParams) (hq : 2 ^ (P.w + 1) ≤ q) (hn : 1 ≤ P.n)
    (hfit : P.p ≤ 2 ^ (P.w * P.n)) (l₁ r₁ l₂ r₂ : Msm) (hl : SameShape l₁ l₂) (hr : SameShape r₁ r₂)
    (ok : MsmOk q P l₁ ∧ MsmOk q P r₁ ∧ MsmOk q P l₂ ∧ MsmOk q P r₂)
    (h : encAcc q P l₁ r₁ = encAcc q P l₂ r₂) : l₁ = l₂ ∧ r₁ = r₂ := by
  unfold encAcc at h
  have len : (encMsm q P l₁).length = (encMsm q P l₂).length := by
    rw [encMsm_length, encMsm_length, hl.1, hl.2.1, hl.2.2]
  obtain ⟨a, b⟩ := List.append_inj h len
  exact ⟨encMsm_inj q P hq hn hfit l₁ l₂ hl ok.1 ok.2.2.1 a,
    encMsm_inj q P hq hn hfit r₁ r₂ hr ok.2.1 ok.2.2.2 b⟩

end MidnightZK.C08

namespace MidnightZK.C08

theorem cellsPoint_fun (q : Nat) (P : FParams) (hq : 2 ^ (P.w + 1) ≤ q) (hn : 1 ≤ P.n) :
    (fun b => let r := reprPoint q P b; cellsPoint q P r.1 r.2.1 r.2.2) = encPoint q P := by
  funext b
  exact cellsPoint_reprPoint q P hq hn b

theorem cellsMsm_eq (q : Nat) (P : FParams) (hq : 2 ^ (P.w + 1) ≤ q) (hn : 1 ≤ P.n) (m : Msm) :
    cellsMsm q P m = encMsm q P m := by
  unfold cellsMsm encMsm
  rw [cellsPoint_fun q P hq hn]

theorem cellsAcc_eq (q : Nat) (P : FParams) (hq : 2 ^ (P.w + 1) ≤ q) (hn : 1 ≤ P.n) (l r : Msm) :
    cellsAcc q P l r = encAcc q P l r := by
  unfold cellsAcc encAcc
  rw [cellsMsm_eq q P hq hn, cellsMsm_eq q P hq hn]

theorem cellsAccCommitted_eq (q : Nat) (P : FParams) (hq : 2 ^ (P.w + 1) ≤ q) (hn : 1 ≤ P.n)
    (l r : Msm) : cellsAccCommitted q P l r = encAccCommitted q P l r := by
  unfold cellsAccCommitted encAccCommitted encMsmCommitted
  rw [cellsMsm_eq q P hq hn, cellsPoint_fun q P hq hn]

end MidnightZK.C08
