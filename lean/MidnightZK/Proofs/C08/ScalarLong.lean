import MidnightZK.Proofs.C08.Expose
/-! Jubjub scalars whose in-circuit bit vector is longer than one batch: what exactly the exposure
binds (the off-circuit encoding followed by zero rows). -/
namespace MidnightZK.C08

theorem take_bitsLE : ∀ k n v, (bitsLE n v).take k = bitsLE (min k n) v
  | 0, n, v => by simp [bitsLE]
  | k + 1, 0, v => by simp [bitsLE]
  | k + 1, n + 1, v => by
    simp only [bitsLE, List.take_succ_cons, take_bitsLE k n (v / 2), Nat.succ_min_succ]

theorem drop_bitsLE : ∀ k n v, (bitsLE n v).drop k = bitsLE (n - k) (v / 2 ^ k)
  | 0, n, v => by simp
  | k + 1, 0, v => by simp [bitsLE]
  | k + 1, n + 1, v => by
    simp only [bitsLE, List.drop_succ_cons, drop_bitsLE k n (v / 2), Nat.succ_sub_succ,
      Nat.div_div_eq_div_mul, Nat.pow_succ', Nat.add_sub_add_right]

/-- More fuel than the length changes nothing. -/
theorem chunksAux_fuel {α : Type} (k : Nat) (hk : 1 ≤ k) : ∀ (fuel fuel' : Nat) (l : List α),
    l.length ≤ fuel → l.length ≤ fuel' → chunksAux k fuel l = chunksAux k fuel' l
  | 0, fuel', l, h, _ => by
    have : l = [] := List.eq_nil_of_length_eq_zero (by omega)
    subst this
    rw [chunksAux_nil, chunksAux_nil]
  | fuel + 1, 0, l, _, h' => by
    have : l = [] := List.eq_nil_of_length_eq_zero (by omega)
    subst this
    rw [chunksAux_nil, chunksAux_nil]
  | fuel + 1, fuel' + 1, [], _, _ => rfl
  | fuel + 1, fuel' + 1, x :: xs, h, h' => by
    simp only [chunksAux]
    congr 1
    apply chunksAux_fuel k hk fuel fuel'
    · simp only [List.length_drop, List.length_cons] at h ⊢; omega
    · simp only [List.length_drop, List.length_cons] at h' ⊢; omega

theorem chunks_cons {α : Type} (k : Nat) (hk : 1 ≤ k) (l : List α) (hl : l ≠ []) :
    chunks k l = l.take k :: chunks k (l.drop k) := by
  cases l with
  | nil => exact absurd rfl hl
  | cons x xs =>
    unfold chunks
    simp only [List.length_cons, chunksAux]
    congr 1
    apply chunksAux_fuel k hk
    · simp only [List.length_drop, List.length_cons]; omega
    · exact Nat.le_refl _

/-- First batch, then the batches of the remaining bits. -/
theorem encBitVec_bitsLE_cons (q B n v : Nat) (hB : 1 ≤ B) (hn : 1 ≤ n) :
    encBitVec q B (bitsLE n v) =
      (v % 2 ^ (min B n) % q) :: encBitVec q B (bitsLE (n - B) (v / 2 ^ B)) := by
  unfold encBitVec
  have hne : bitsLE n v ≠ [] := by
    intro h
    have := congrArg List.length h
    rw [bitsLE_length] at this
    simp at this; omega
  rw [chunks_cons B hB _ hne, take_bitsLE, drop_bitsLE, List.map_cons, fromBitsLE_bitsLE]

theorem ceilDiv_step (n B : Nat) (hB : 1 ≤ B) (hn : 1 ≤ n) : ceilDiv n B = ceilDiv (n - B) B + 1 := by
  unfold ceilDiv
  by_cases h : n ≤ B
  · have h0 : n - B = 0 := by omega
    rw [h0]
    have h1 : (0 + B - 1) / B = 0 := Nat.div_eq_of_lt (by omega)
    have h2 : (n + B - 1) / B = 1 := by
      apply Nat.div_eq_of_lt_le <;> omega
    omega
  · have : n + B - 1 = (n - B + B - 1) + B := by omega
    rw [this, Nat.add_div_right _ (by omega)]

/-- The all-zero bit vector of length `n` is exposed as `⌈n/B⌉` zero rows. -/
theorem encBitVec_zeros (q B : Nat) (hB : 1 ≤ B) : ∀ n, encBitVec q B (bitsLE n 0) = List.replicate (ceilDiv n B) 0 := by
  intro n
  induction n using Nat.strongRecOn with
  | _ n ih =>
    by_cases hn : n = 0
    · subst hn
      have : ceilDiv 0 B = 0 := by unfold ceilDiv; exact Nat.div_eq_of_lt (by omega)
      rw [this]; rfl
    · rw [encBitVec_bitsLE_cons q B n 0 hB (by omega), Nat.zero_div, ih (n - B) (by omega),
        ceilDiv_step n B hB (by omega), List.replicate_succ]
      simp

/-- A value that fits one batch, held by a bit vector of any length `n ≥ 1` that holds it: the
exposure binds the value on the first row and zeros on the `⌈n/B⌉ − 1` following rows. -/
theorem encBitVec_bitsLE_long (q B n s : Nat) (hB : 1 ≤ B) (hn : 1 ≤ n) (hs : s < 2 ^ B)
    (hfit : s < 2 ^ n) :
    encBitVec q B (bitsLE n s) = (s % q) :: List.replicate (ceilDiv n B - 1) 0 := by
  rw [encBitVec_bitsLE_cons q B n s hB hn, Nat.div_eq_of_lt hs, encBitVec_zeros q B hB,
    ceilDiv_step n B hB hn, Nat.add_sub_cancel]
  congr 2
  apply Nat.mod_eq_of_lt
  by_cases h : B ≤ n
  · rwa [Nat.min_eq_left h]
  · rwa [Nat.min_eq_right (by omega)]

theorem ceilDiv_le_one_iff (n B : Nat) (hB : 1 ≤ B) (hn : 1 ≤ n) : ceilDiv n B - 1 = 0 ↔ n ≤ B := by
  rw [ceilDiv_step n B hB hn]
  constructor
  · intro h
    have h0 : ceilDiv (n - B) B = 0 := by omega
    unfold ceilDiv at h0
    have := (Nat.div_eq_zero_iff_lt (by omega : 0 < B)).mp h0
    omega
  · intro h
    have h0 : n - B = 0 := by omega
    rw [h0]
    have : ceilDiv 0 B = 0 := by unfold ceilDiv; exact Nat.div_eq_of_lt (by omega)
    omega

/-- What the exposure of a Jubjub scalar binds, for EVERY bit-vector length. -/
theorem cells_jscalar (path : Path) (s : Nat) (hs : s < Gen.jubjubScalarModulus)
    (hpos : 1 ≤ scalarBitLen path s) (hfit : s < 2 ^ scalarBitLen path s) :
    encode (.jscalar s) = some [s] ∧
    cells path (.jscalar s) =
      some ([s] ++ List.replicate (ceilDiv (scalarBitLen path s) scalarBatch - 1) 0) := by
  have f := native_facts
  have hs252 : s < 2 ^ Gen.jubjubNumBitsSubgroup := by omega
  have hB : 1 ≤ scalarBatch := by unfold scalarBatch; omega
  have hsB : s < 2 ^ scalarBatch :=
    Nat.lt_of_lt_of_le hs252 (Nat.pow_le_pow_right (by decide) (by unfold scalarBatch; omega))
  have hsq : s < q := Nat.lt_of_lt_of_le hsB (by unfold scalarBatch; exact f.2.1)
  constructor
  · simp only [encode]
    rw [encJScalar_eq q _ _ s f.2.2.2.1 f.2.2.2.2.1, Nat.mod_eq_of_lt hs252, Nat.mod_eq_of_lt hsq]
  · simp only [cells]
    rw [encBitVec_bitsLE_long q scalarBatch _ s hB hpos hsB hfit, Nat.mod_eq_of_lt hsq]
    rfl

end MidnightZK.C08
