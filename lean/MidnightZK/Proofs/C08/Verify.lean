import MidnightZK.Model.C08.Verify
import MidnightZK.Proofs.C08.Expose
/-! The verifier's length checks, zero padding of the instance column, and the transcript. -/
namespace MidnightZK.C08

theorem verifyGuard_iff (vk : MidnightVK) (pi : List Nat) :
    verifyGuard vk pi = true ↔ pi.length = vk.nbPublicInputs := by
  simp [verifyGuard]

theorem weakGuard_iff (vk : MidnightVK) (pi : List Nat) :
    weakGuard vk pi = true ↔ pi.length ≤ vk.nbPublicInputs := by
  simp [weakGuard]

theorem batchVerifyGuard_iff (vks : List MidnightVK) (pis : List (List Nat)) (n : Nat) :
    batchVerifyGuard vks pis n = true ↔
      pis.length = vks.length ∧ n = vks.length ∧
        ∀ vp ∈ vks.zip pis, vp.2.length = vp.1.nbPublicInputs := by
  unfold batchVerifyGuard
  by_cases h1 : pis.length = vks.length
  · by_cases h2 : n = vks.length
    · simp [h1, h2, List.all_eq_true]
    · simp [h1, h2]
  · simp [h1]

/-- Rows beyond the given vector read as zero, so appending zeros changes nothing. -/
theorem getD_append_zeros (inst : List Nat) (k i : Nat) :
    (inst ++ List.replicate k 0).getD i 0 = inst.getD i 0 := by
  simp only [List.getD]
  by_cases h : i < inst.length
  · rw [List.getElem?_append_left h]
  · have h' : inst.length ≤ i := Nat.le_of_not_lt h
    rw [List.getElem?_append_right h', List.getElem?_eq_none h']
    by_cases hk : i - inst.length < k
    · rw [List.getElem?_replicate_of_lt hk]; rfl
    · rw [List.getElem?_eq_none (by simpa using Nat.le_of_not_lt hk)]

theorem holds_append_zeros (b : List (Nat × Nat)) (inst : List Nat) (k : Nat) :
    Holds b (inst ++ List.replicate k 0) ↔ Holds b inst := by
  unfold Holds
  constructor
  · intro h rv hrv
    have := h rv hrv
    rwa [getD_append_zeros] at this
  · intro h rv hrv
    rw [getD_append_zeros]
    exact h rv hrv

theorem innerProduct_zeros : ∀ (k : Nat) (ls : List Nat), innerProduct (List.replicate k 0) ls = 0
  | 0, ls => by cases ls <;> rfl
  | k + 1, [] => rfl
  | k + 1, l :: ls => by
    simp only [List.replicate_succ, innerProduct, innerProduct_zeros k ls, Nat.zero_mul]

theorem innerProduct_append_zeros : ∀ (inst : List Nat) (k : Nat) (ls : List Nat),
    innerProduct (inst ++ List.replicate k 0) ls = innerProduct inst ls
  | [], k, ls => by
    rw [List.nil_append, innerProduct_zeros]
    cases ls <;> rfl
  | a :: as, k, [] => rfl
  | a :: as, k, l :: ls => by
    simp only [List.cons_append, innerProduct, innerProduct_append_zeros as k ls]

/-- The length of the concatenated encodings is determined by the types of the plain steps. -/
theorem formatInstance_plainLen : ∀ (steps : List (Path × Val)) (pl cm : List Nat),
    formatInstance steps = some (pl, cm) → plainLen steps = some pl.length
  | [], pl, cm, h => by
    simp only [formatInstance, Option.some.injEq, Prod.mk.injEq] at h
    obtain ⟨rfl, _⟩ := h
    rfl
  | (p, v) :: rest, pl, cm, h => by
    simp only [formatInstance, Option.bind_eq_bind, Option.bind_eq_some_iff, Option.pure_def,
      Option.some.injEq] at h
    obtain ⟨e, he, r, hr, hpl⟩ := h
    have hl := encode_length_aux v e he
    have ih := formatInstance_plainLen rest r.1 r.2 hr
    simp only [plainLen, hl, ih, Option.bind_eq_bind, Option.bind_some, Option.pure_def]
    by_cases hp : p = .committed
    · simp only [hp, if_true, Prod.mk.injEq] at hpl ⊢
      rw [← hpl.1]
    · simp only [hp, if_false, Prod.mk.injEq] at hpl ⊢
      rw [← hpl.1, List.length_append]

theorem absorbInstance_inj (a b : List Nat) : absorbInstance a = absorbInstance b ↔ a = b := by
  unfold absorbInstance
  constructor
  · intro h
    exact (List.cons.inj h).2
  · rintro rfl; rfl

theorem verifyVerdict_ok_iff (vk : MidnightVK) (b : List (Nat × Nat)) (proved pi : List Nat) :
    verifyVerdict vk b proved pi = .ok ↔
      verifyGuard vk pi = true ∧ proved = pi ∧ holdsB b pi = true := by
  unfold verifyVerdict
  by_cases hg : verifyGuard vk pi = true
  · simp only [hg, Bool.not_true, Bool.false_eq_true, if_false, true_and]
    by_cases ha : proved = pi
    · subst ha
      by_cases hh : holdsB b proved = true
      · simp [hh]
      · simp [hh]
    · have : (absorbInstance proved == absorbInstance pi) = false := by
        rw [beq_eq_false_iff_ne]
        exact fun e => ha ((absorbInstance_inj _ _).mp e)
      simp [this, ha]
  · simp [hg]

end MidnightZK.C08
