import MidnightZK.Model.C08.Expose
import MidnightZK.Proofs.C08.Chip
import MidnightZK.Proofs.C08.Scalar
/-! Side conditions of the compiled-in parameter sets, re-checked by kernel evaluation over the
generated constants (`Gen/C08Params.lean`). -/
namespace MidnightZK.C08

/-- What the encoders need from a parameter set over the native field `q`:
the limbs hold every element (`p ≤ 2^(w·n)`), a limb plus the identity flag `2^w` does not wrap
(`2^(w+1) ≤ q`), and there is at least one limb. -/
def goodB (P : FParams) : Bool :=
  decide (0 < P.p) && decide (P.p ≤ 2 ^ (P.w * P.n)) && decide (2 ^ (P.w + 1) ≤ q) && decide (1 ≤ P.n)

structure Good (P : FParams) : Prop where
  pos : 0 < P.p
  fit : P.p ≤ 2 ^ (P.w * P.n)
  flag : 2 ^ (P.w + 1) ≤ q
  limb : 1 ≤ P.n

theorem Good.of_goodB {P : FParams} (h : goodB P = true) : Good P := by
  simp only [goodB, Bool.and_eq_true, decide_eq_true_eq] at h
  exact ⟨h.1.1.1, h.1.1.2, h.1.2, h.2⟩

theorem Good.base {P : FParams} (g : Good P) : 2 ^ P.w ≤ q := by
  have : 2 ^ P.w ≤ 2 ^ (P.w + 1) := Nat.pow_le_pow_right (by decide) (by omega)
  exact Nat.le_trans this g.flag

/-- Every (name, params.rs entry over `midnight_curves::Fq`) combination. -/
def allGood : Bool :=
  fieldNames.all (fun e => Gen.emulationParams.all (fun g =>
    !(g.1 == "midnight_curves::Fq" && g.2.1 == e.2.1) || goodB ⟨e.2.2, g.2.2.1, g.2.2.2⟩))

theorem allGood_true : allGood = true := by decide +kernel

theorem paramsOf_good (name : String) (P : FParams) (h : paramsOf name = some P) : Good P := by
  unfold paramsOf at h
  simp only [Option.bind_eq_bind, Option.bind_eq_some_iff, Option.pure_def, Option.some.injEq] at h
  obtain ⟨e, he, wn, hwn, hP⟩ := h
  unfold lookupParams at hwn
  simp only [Option.map_eq_some_iff] at hwn
  obtain ⟨g, hg, hgw⟩ := hwn
  have hem := List.mem_of_find?_eq_some he
  have hgm := List.mem_of_find?_eq_some hg
  have hgp := List.find?_some hg
  have := allGood_true
  unfold allGood at this
  rw [List.all_eq_true] at this
  have := this e hem
  rw [List.all_eq_true] at this
  have := this g hgm
  simp only [hgp, Bool.not_true, Bool.false_or] at this
  subst hP; subst hgw
  exact Good.of_goodB this

theorem curveParams_good (c : String) (P : FParams) (h : curveParams c = some P) : Good P := by
  unfold curveParams at h
  split at h
  · exact paramsOf_good _ _ h
  · split at h
    · exact paramsOf_good _ _ h
    · cases h

/-- Facts about the native field and the Jubjub / BigUint constants. -/
theorem native_facts :
    256 ≤ q ∧ 2 ^ (Gen.nativeNumBits - 1) ≤ q ∧ q < 2 ^ Gen.nativeNumBits ∧
    1 ≤ Gen.jubjubNumBitsSubgroup ∧ Gen.jubjubNumBitsSubgroup ≤ Gen.nativeNumBits - 1 ∧
    Gen.jubjubScalarModulus ≤ 2 ^ Gen.jubjubNumBitsSubgroup ∧
    jubjubScalarNumBits = Gen.jubjubNumBitsSubgroup ∧
    2 ^ Gen.bigLog2Base ≤ q ∧ 0 < Gen.bigLog2Base ∧ Gen.bigLog2Base % 8 = 0 := by
  decide +kernel

end MidnightZK.C08
