import MidnightZK.Model.C08.Handles
import MidnightZK.Proofs.C08.Verify
/-! Handles on the native chip share the two instance-row counters; the committed instance. -/
namespace MidnightZK.C08

/-! ### Simulation: a synthesis through handles that all reference the same two cells is the
two-counter machine `Chip`. -/

theorem view_constrain (h0 : NChip) (hne : h0.plainRef ≠ h0.comRef) (s : Synth) (cell : Nat) :
    (s.constrain h0 cell).view h0 = (s.view h0).constrain cell := by
  simp [Synth.view, Synth.constrain, Chip.constrain, Ne.symm hne]

theorem view_constrainCommitted (h0 : NChip) (hne : h0.plainRef ≠ h0.comRef) (s : Synth) (cell : Nat) :
    (s.constrainCommitted h0 cell).view h0 = (s.view h0).constrainCommitted cell := by
  simp [Synth.view, Synth.constrainCommitted, Chip.constrainCommitted, hne]

theorem view_constrainAll (h0 : NChip) (hne : h0.plainRef ≠ h0.comRef) (cells : List Nat) :
    ∀ s : Synth, (s.constrainAll h0 cells).view h0 = (s.view h0).constrainAll cells := by
  induction cells with
  | nil => intro s; rfl
  | cons x xs ih =>
    intro s
    have := ih (s.constrain h0 x)
    simp only [Synth.constrainAll, Chip.constrainAll, List.foldl_cons] at this ⊢
    rw [this, view_constrain h0 hne]

theorem view_constrainAllCommitted (h0 : NChip) (hne : h0.plainRef ≠ h0.comRef) (cells : List Nat) :
    ∀ s : Synth, (s.constrainAllCommitted h0 cells).view h0 = (s.view h0).constrainAllCommitted cells := by
  induction cells with
  | nil => intro s; rfl
  | cons x xs ih =>
    intro s
    have := ih (s.constrainCommitted h0 x)
    simp only [Synth.constrainAllCommitted, Chip.constrainAllCommitted, List.foldl_cons] at this ⊢
    rw [this, view_constrainCommitted h0 hne]

/-- Whatever handle each step goes through, as long as every handle references the cells of
`h0`, the synthesis is the two-counter machine run on the sequence of exposed items alone. -/
theorem exposeVia_view (env : Handle → NChip) (h0 : NChip) (henv : ∀ h, env h = h0)
    (hne : h0.plainRef ≠ h0.comRef) :
    ∀ (steps : List (Handle × HItem)) (s : Synth),
      (exposeVia env s steps).map (Synth.view h0) = exposeItems (s.view h0) (steps.map (·.2))
  | [], s => rfl
  | (h, it) :: rest, s => by
    simp only [exposeVia, exposeItems, List.map_cons, henv h]
    cases hc : hcells it with
    | none => simp
    | some pc =>
      simp only [Option.bind_some]
      rw [exposeVia_view env h0 henv hne rest, view_constrainAllCommitted h0 hne,
        view_constrainAll h0 hne]

theorem view_init : ({} : Synth).view NChip.new = ({} : Chip) := rfl

/-- The two-counter machine on a sequence of items: counters, bound rows and bound values are
those of the concatenated cell lists. -/
theorem exposeItems_spec : ∀ (items : List HItem) (c c' : Chip),
    exposeItems c items = some c' →
    ∃ pl cm, hcellsAll items = some (pl, cm) ∧
      c'.offset = c.offset + pl.length ∧
      c'.binds = c.binds ++ (List.range' c.offset pl.length).zip pl ∧
      c'.comOffset = c.comOffset + cm.length ∧
      c'.comBinds = c.comBinds ++ (List.range' c.comOffset cm.length).zip cm
  | [], c, c', h => by
    simp only [exposeItems, Option.some.injEq] at h
    subst h
    exact ⟨[], [], rfl, by simp, by simp, by simp, by simp⟩
  | it :: rest, c, c', h => by
    simp only [exposeItems, Option.bind_eq_some_iff] at h
    obtain ⟨pc, hpc, hrest⟩ := h
    obtain ⟨pl, cm, hf, h1, h2, h3, h4⟩ := exposeItems_spec rest _ c' hrest
    obtain ⟨a1, a2, a3, a4⟩ := constrainAll_spec pc.1 c
    obtain ⟨b1, b2, b3, b4⟩ := constrainAllCommitted_spec pc.2 (c.constrainAll pc.1)
    refine ⟨pc.1 ++ pl, pc.2 ++ cm, ?_, ?_, ?_, ?_, ?_⟩
    · simp [hcellsAll, hpc, hf]
    · rw [h1, b3, a1]; simp; omega
    · rw [h2, b4, b3, a2, a1, List.append_assoc, List.length_append, List.range'_append_1.symm,
        List.zip_append (by simp)]
    · rw [h3, b1, a3]; simp; omega
    · rw [h4, b2, b1, a4, a3, List.append_assoc, List.length_append, List.range'_append_1.symm,
        List.zip_append (by simp)]

/-- Copy constraints `row i ↦ plᵢ` for `i < |pl|` hold for a vector of the same length iff the
vector is `pl`. -/
theorem holds_range_zip_iff (pl inst : List Nat) (hlen : inst.length = pl.length) :
    Holds ((List.range' 0 pl.length).zip pl) inst ↔ inst = pl := by
  rw [holds_zip_range' 0 pl inst]
  constructor
  · intro hh
    exact eq_of_getD_eq inst pl hlen (by simpa using hh)
  · rintro rfl i hi
    simp [List.getD, List.getElem?_eq_getElem hi]

/-! ### Commitment to the committed instance column -/

theorem dropWhile_zeros (k : Nat) (l : List Nat) :
    (List.replicate k 0 ++ l).dropWhile (· == 0) = l.dropWhile (· == 0) := by
  induction k with
  | zero => simp
  | succ k ih => simp [List.replicate_succ, ih]

theorem commitKey_append_zeros_aux (v : List Nat) (k : Nat) :
    commitKey (v ++ List.replicate k 0) = commitKey v := by
  unfold commitKey
  rw [List.reverse_append, List.reverse_replicate, dropWhile_zeros]

theorem verifyCommittedVerdict_ok_iff (vk : MidnightVK) (b cb : List (Nat × Nat))
    (pp pc pi : List Nat) (cm : Option (List Nat)) :
    verifyCommittedVerdict vk b cb pp pc pi cm = .ok ↔
      verifyGuard vk pi = true ∧ pp = pi ∧ commitKey pc = cm.getD (commitKey []) ∧
        holdsB b pi = true ∧ holdsB cb pc = true := by
  unfold verifyCommittedVerdict
  by_cases hg : verifyGuard vk pi = true
  · simp only [hg, Bool.not_true, Bool.false_eq_true, if_false, true_and]
    by_cases ha : pp = pi
    · subst ha
      by_cases hk : commitKey pc = cm.getD (commitKey [])
      · by_cases hh : holdsB b pp = true
        · by_cases hc : holdsB cb pc = true
          · simp [hk, hh, hc]
          · simp [hk, hh, hc]
        · simp [hk, hh]
      · have : (commitKey pc == cm.getD (commitKey [])) = false := by
          rw [beq_eq_false_iff_ne]; exact hk
        simp [this, hk]
    · have : (absorbInstance pp == absorbInstance pi) = false := by
        rw [beq_eq_false_iff_ne]
        exact fun e => ha ((absorbInstance_inj _ _).mp e)
      simp [this, ha]
  · simp [hg]

end MidnightZK.C08
