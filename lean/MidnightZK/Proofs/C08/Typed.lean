import MidnightZK.Proofs.C08.Params
/-! Typed layer: `encode`, `encLen`, `cells`, `exposeAll`, `formatInstance`. -/
namespace MidnightZK.C08

theorem scalar_one : ceilDiv Gen.jubjubNumBitsSubgroup scalarBatch = 1 := by decide +kernel

theorem flatMap_encByte_length (q : Nat) : ∀ bs : List Nat, (bs.flatMap (encByte q)).length = bs.length
  | [] => rfl
  | b :: t => by simp [List.flatMap_cons, encByte, flatMap_encByte_length q t]

/-- The off-circuit encoding has the length the type announces. -/
theorem encode_length_aux (v : Val) (l : List Nat) (h : encode v = some l) :
    encLen v = some l.length := by
  cases v with
  | bit b => simp [encode, encBit] at h; subst h; rfl
  | byte b => simp [encode, encByte] at h; subst h; rfl
  | native x => simp [encode, encNative] at h; subst h; rfl
  | ff name x =>
    simp only [encode, Option.map_eq_some_iff] at h
    obtain ⟨P, hP, rfl⟩ := h
    simp [encLen, hP, encField_length]
  | fpoint c p =>
    simp only [encode, Option.map_eq_some_iff] at h
    obtain ⟨P, hP, rfl⟩ := h
    simp [encLen, hP, encPoint_length]
  | jpoint x y => simp [encode, encJPoint] at h; subst h; rfl
  | jscalar s =>
    simp only [encode, Option.some.injEq] at h
    have f := native_facts
    rw [encJScalar_eq q _ _ s f.2.2.2.1 f.2.2.2.2.1] at h
    subst h; simp [encLen, scalar_one]
  | big nb v =>
    simp only [encode] at h
    simp [encLen, encBig_length q _ nb v l h]
  | bytes bs =>
    simp only [encode, Option.some.injEq] at h
    subst h; rw [flatMap_encByte_length]; rfl

/-- Well-formedness of a value of each type (what the Rust types guarantee). -/
def WF : Val → Prop
  | .bit _ => True
  | .byte b => b < 256
  | .native x => x < q
  | .ff name x => ∀ P, paramsOf name = some P → x < P.p
  | .fpoint c p => ∀ P, curveParams c = some P → PointOk P p
  | .jpoint x y => x < q ∧ y < q
  | .jscalar s => s < Gen.jubjubScalarModulus
  | .big nb v => v < 2 ^ nb
  | .bytes bs => ∀ b ∈ bs, b < 256

/-- Same public-input type (the type is fixed by the circuit; values vary). -/
def SameType : Val → Val → Prop
  | .bit _, .bit _ => True
  | .byte _, .byte _ => True
  | .native _, .native _ => True
  | .ff n₁ _, .ff n₂ _ => n₁ = n₂
  | .fpoint c₁ _, .fpoint c₂ _ => c₁ = c₂
  | .jpoint _ _, .jpoint _ _ => True
  | .jscalar _, .jscalar _ => True
  | .big nb₁ _, .big nb₂ _ => nb₁ = nb₂
  | .bytes b₁, .bytes b₂ => b₁.length = b₂.length
  | _, _ => False

theorem flatMap_encByte_inj (q : Nat) (hq : 256 ≤ q) : ∀ a b : List Nat, a.length = b.length →
    (∀ x ∈ a, x < 256) → (∀ x ∈ b, x < 256) → a.flatMap (encByte q) = b.flatMap (encByte q) → a = b
  | [], [], _, _, _, _ => rfl
  | [], _ :: _, h, _, _, _ => by simp at h
  | _ :: _, [], h, _, _, _ => by simp at h
  | x :: t, y :: u, hl, ha, hb, h => by
    simp only [List.flatMap_cons, encByte, List.cons_append, List.nil_append, List.cons.injEq] at h
    have hx := ha x (by simp)
    have hy := hb y (by simp)
    rw [Nat.mod_eq_of_lt (by omega), Nat.mod_eq_of_lt (by omega)] at h
    rw [h.1, flatMap_encByte_inj q hq t u (by simpa using hl) (fun z hz => ha z (by simp [hz]))
      (fun z hz => hb z (by simp [hz])) h.2]

theorem encode_injective_aux (v₁ v₂ : Val) (l : List Nat) (ht : SameType v₁ v₂) (w₁ : WF v₁)
    (w₂ : WF v₂) (h₁ : encode v₁ = some l) (h₂ : encode v₂ = some l) : v₁ = v₂ := by
  have f := native_facts
  cases v₁ <;> cases v₂ <;> simp only [SameType] at ht <;> try exact ht.elim
  case bit.bit a b =>
    simp only [encode, Option.some.injEq] at h₁ h₂
    rw [encBit_inj q (by omega) a b (by rw [h₁, h₂])]
  case byte.byte a b =>
    simp only [encode, Option.some.injEq] at h₁ h₂
    rw [encByte_inj q f.1 a b w₁ w₂ (by rw [h₁, h₂])]
  case native.native a b =>
    simp only [encode, Option.some.injEq] at h₁ h₂
    rw [encNative_inj q a b w₁ w₂ (by rw [h₁, h₂])]
  case ff.ff n₁ x n₂ y =>
    subst ht
    simp only [encode, Option.map_eq_some_iff] at h₁ h₂
    obtain ⟨P, hP, e₁⟩ := h₁
    obtain ⟨P', hP', e₂⟩ := h₂
    rw [hP] at hP'; cases hP'
    have g := paramsOf_good _ _ hP
    rw [encField_inj q P g.base g.fit x y (w₁ P hP) (w₂ P hP) (by rw [e₁, e₂])]
  case fpoint.fpoint c₁ p₁ c₂ p₂ =>
    subst ht
    simp only [encode, Option.map_eq_some_iff] at h₁ h₂
    obtain ⟨P, hP, e₁⟩ := h₁
    obtain ⟨P', hP', e₂⟩ := h₂
    rw [hP] at hP'; cases hP'
    have g := curveParams_good _ _ hP
    rw [encPoint_inj q P g.flag g.limb g.fit p₁ p₂ (w₁ P hP) (w₂ P hP) (by rw [e₁, e₂])]
  case jpoint.jpoint x₁ y₁ x₂ y₂ =>
    simp only [encode, encJPoint, Option.some.injEq] at h₁ h₂
    rw [← h₂] at h₁
    simp only [List.cons.injEq, and_true] at h₁
    simp only [WF] at w₁ w₂
    rw [Nat.mod_eq_of_lt w₁.1, Nat.mod_eq_of_lt w₁.2, Nat.mod_eq_of_lt w₂.1, Nat.mod_eq_of_lt w₂.2] at h₁
    rw [h₁.1, h₁.2]
  case jscalar.jscalar s t =>
    simp only [encode, Option.some.injEq] at h₁ h₂
    simp only [WF] at w₁ w₂
    rw [encJScalar_inj q _ _ f.2.2.2.1 f.2.2.2.2.1 f.2.1 s t (by omega) (by omega) (by rw [h₁, h₂])]
  case big.big nb₁ v₁ nb₂ v₂ =>
    subst ht
    simp only [encode] at h₁ h₂
    rw [encBig_inj q _ nb₁ f.2.2.2.2.2.2.2.1 v₁ v₂ l h₁ h₂]
  case bytes.bytes a b =>
    simp only [encode, Option.some.injEq] at h₁ h₂
    rw [flatMap_encByte_inj q f.1 a b ht w₁ w₂ (by rw [h₁, h₂])]

end MidnightZK.C08
