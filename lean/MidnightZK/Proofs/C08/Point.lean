import MidnightZK.Proofs.C08.Enc
/-! Foreign points: injectivity of the encoder, agreement of the in-circuit exposure. -/
namespace MidnightZK.C08

theorem exists_cons_of_length_pos {α : Type} (l : List α) (h : 1 ≤ l.length) :
    ∃ a t, l = a :: t := by
  cases l with
  | nil => simp at h
  | cons a t => exact ⟨a, t, rfl⟩

theorem addHead_length (q a : Nat) (l : List Nat) : (addHead q a l).length = l.length := by
  cases l <;> simp [addHead]

theorem encPoint_length (q : Nat) (P : FParams) (pt : Option (Nat × Nat)) :
    (encPoint q P pt).length = 2 * P.n := by
  cases pt with
  | none => simp [encPoint, addHead_length, encField_length]; omega
  | some xy => obtain ⟨x, y⟩ := xy; simp [encPoint, encField_length]; omega

/-- First raw input of the identity: the first limb of `p - 1` plus `2^LOG2_BASE` (no wrap). -/
theorem encPoint_none_head (q : Nat) (P : FParams) (hq : 2 ^ (P.w + 1) ≤ q) (hn : 1 ≤ P.n) :
    ∃ h t, encPoint q P none = (h + 2 ^ P.w) :: t ∧ h < 2 ^ P.w ∧
      encField q P 0 ++ encField q P 0 = h :: t := by
  have hq' : 2 ^ P.w ≤ q := by
    have : 2 ^ P.w ≤ 2 ^ (P.w + 1) := Nat.pow_le_pow_right (by decide) (by omega)
    omega
  obtain ⟨h, t, hE⟩ := exists_cons_of_length_pos (encField q P 0) (by rw [encField_length]; exact hn)
  have hlt : h < 2 ^ P.w := encField_lt q P hq' 0 h (by rw [hE]; simp)
  have h2 : 2 ^ P.w % q = 2 ^ P.w := Nat.mod_eq_of_lt (by
    have : 2 ^ P.w < 2 ^ (P.w + 1) := Nat.pow_lt_pow_right (by decide) (by omega)
    omega)
  refine ⟨h, t ++ encField q P 0, ?_, hlt, ?_⟩
  · simp only [encPoint, hE, List.cons_append, addHead, h2]
    rw [Nat.mod_eq_of_lt]
    rw [Nat.pow_succ] at hq; omega
  · simp [hE]

theorem encPoint_some_head (q : Nat) (P : FParams) (hq : 2 ^ P.w ≤ q) (hn : 1 ≤ P.n) (x y : Nat) :
    ∃ h t, encPoint q P (some (x, y)) = h :: t ∧ h < 2 ^ P.w := by
  obtain ⟨h, t, hE⟩ := exists_cons_of_length_pos (encField q P x) (by rw [encField_length]; exact hn)
  exact ⟨h, t ++ encField q P y, by simp [encPoint, hE], encField_lt q P hq x h (by rw [hE]; simp)⟩

/-- Validity of a point value: affine coordinates are reduced field elements. -/
def PointOk (P : FParams) (pt : Option (Nat × Nat)) : Prop :=
  ∀ xy, pt = some xy → xy.1 < P.p ∧ xy.2 < P.p

theorem encPoint_inj (q : Nat) (P : FParams) (hq : 2 ^ (P.w + 1) ≤ q) (hn : 1 ≤ P.n)
    (hfit : P.p ≤ 2 ^ (P.w * P.n)) (a b : Option (Nat × Nat)) (ha : PointOk P a) (hb : PointOk P b)
    (h : encPoint q P a = encPoint q P b) : a = b := by
  have hq' : 2 ^ P.w ≤ q := by
    have : 2 ^ P.w ≤ 2 ^ (P.w + 1) := Nat.pow_le_pow_right (by decide) (by omega)
    omega
  cases a with
  | none =>
    cases b with
    | none => rfl
    | some xy =>
      obtain ⟨x, y⟩ := xy
      obtain ⟨h₁, t₁, e₁, _, _⟩ := encPoint_none_head q P hq hn
      obtain ⟨h₂, t₂, e₂, lt₂⟩ := encPoint_some_head q P hq' hn x y
      rw [e₁, e₂] at h
      injection h with hh _
      omega
  | some xy =>
    obtain ⟨x, y⟩ := xy
    cases b with
    | none =>
      obtain ⟨h₁, t₁, e₁, _, _⟩ := encPoint_none_head q P hq hn
      obtain ⟨h₂, t₂, e₂, lt₂⟩ := encPoint_some_head q P hq' hn x y
      rw [e₁, e₂] at h
      injection h with hh _
      omega
    | some xy' =>
      obtain ⟨x', y'⟩ := xy'
      simp only [encPoint] at h
      have hl : (encField q P x).length = (encField q P x').length := by simp [encField_length]
      obtain ⟨hx, hy⟩ := List.append_inj h hl
      have hxa := ha (x, y) rfl
      have hxb := hb (x', y') rfl
      rw [encField_inj q P hq' hfit x x' hxa.1 hxb.1 hx, encField_inj q P hq' hfit y y' hxa.2 hxb.2 hy]

/-- The in-circuit exposure of an honestly assigned point (`limbs`, `is_id` flag combined by one
linear combination) yields exactly the off-circuit encoding. -/
theorem cellsPoint_reprPoint (q : Nat) (P : FParams) (hq : 2 ^ (P.w + 1) ≤ q) (hn : 1 ≤ P.n)
    (pt : Option (Nat × Nat)) :
    cellsPoint q P (reprPoint q P pt).1 (reprPoint q P pt).2.1 (reprPoint q P pt).2.2
      = encPoint q P pt := by
  have hq' : 2 ^ P.w ≤ q := by
    have : 2 ^ P.w ≤ 2 ^ (P.w + 1) := Nat.pow_le_pow_right (by decide) (by omega)
    omega
  have hq1 : 1 < q := by
    have : 1 ≤ 2 ^ P.w := Nat.pow_pos (by decide)
    rw [Nat.pow_succ] at hq; omega
  cases pt with
  | none =>
    obtain ⟨h, t, e, hlt, hE⟩ := encPoint_none_head q P hq hn
    simp only [reprPoint, cellsPoint, hE, e]
    have h2 : 2 ^ P.w % q = 2 ^ P.w := Nat.mod_eq_of_lt (by
      have : 2 ^ P.w < 2 ^ (P.w + 1) := Nat.pow_lt_pow_right (by decide) (by omega)
      omega)
    rw [Nat.mod_eq_of_lt hq1, Nat.one_mul, Nat.mul_one, h2, h2, Nat.mod_eq_of_lt (show h < q by omega),
      Nat.mod_eq_of_lt]
    rw [Nat.pow_succ] at hq; omega
  | some xy =>
    obtain ⟨x, y⟩ := xy
    obtain ⟨h, t, e, hlt⟩ := encPoint_some_head q P hq' hn x y
    have e' : encField q P x ++ encField q P y = h :: t := by simpa [encPoint] using e
    simp only [reprPoint, cellsPoint, e', e]
    rw [Nat.mod_eq_of_lt hq1, Nat.one_mul, Nat.mul_zero, Nat.zero_mod, Nat.add_zero,
      Nat.mod_mod, Nat.mod_eq_of_lt (show h < q by omega)]

end MidnightZK.C08
