import MidnightZK.Proofs.C08.Typed
/-! Agreement of the in-circuit exposure with the off-circuit encoder, and the counter machine
on sequences of exposures. -/
namespace MidnightZK.C08

/-- Conditions on the in-circuit representation under which the exposure binds the off-circuit
encoding. Trivial for every type but two: a Jubjub scalar must have a bit vector that fits one
batch (and holds the value); a BigUint must expose as many limbs as its declared bound has. -/
def Agree (path : Path) : Val → Prop
  | .jscalar s => s < 2 ^ Gen.jubjubNumBitsSubgroup ∧ 1 ≤ scalarBitLen path s ∧
      scalarBitLen path s ≤ scalarBatch ∧ s < 2 ^ scalarBitLen path s
  | .big nb v => exposedLimbCount Gen.bigLog2Base (bigBounds path nb v) = ceilDiv nb Gen.bigLog2Base
  | _ => True

theorem cells_eq_encode_aux (path : Path) (v : Val) (h : Agree path v) : cells path v = encode v := by
  have f := native_facts
  cases v with
  | fpoint c p =>
    simp only [cells, encode]
    cases hc : curveParams c with
    | none => rfl
    | some P =>
      have g := curveParams_good _ _ hc
      simp only [Option.map_some, cellsPoint_reprPoint q P g.flag g.limb p]
  | jscalar s =>
    simp only [Agree] at h
    obtain ⟨h1, h2, h3, h4⟩ := h
    simp only [cells, encode]
    rw [encBitVec_bitsLE_single q scalarBatch _ s h2 h3, encJScalar_eq q _ _ s f.2.2.2.1 f.2.2.2.2.1,
      Nat.mod_eq_of_lt h4, Nat.mod_eq_of_lt h1]
  | big nb v =>
    simp only [Agree] at h
    simp only [cells, encode, encBig, h]
  | bit b => rfl
  | byte b => rfl
  | native x => rfl
  | ff n x => rfl
  | jpoint x y => rfl
  | bytes bs => rfl

/-! ### Which entry points satisfy `Agree` -/

theorem agree_jscalar_assign (path : Path) (hp : path = .constrain ∨ path = .assign ∨ path = .committed)
    (s : Nat) (hs : s < Gen.jubjubScalarModulus) : Agree path (.jscalar s) := by
  have f := native_facts
  have hl : scalarBitLen path s = Gen.jubjubNumBitsSubgroup := by
    rcases hp with rfl | rfl | rfl <;> simp [scalarBitLen, f.2.2.2.2.2.2.1]
  simp only [Agree, hl]
  refine ⟨by omega, f.2.2.2.1, f.2.2.2.2.1, by omega⟩

theorem minBits_spec (s : Nat) : 1 ≤ minBits s ∧ s < 2 ^ minBits s ∧
    ∀ k, 1 ≤ k → s < 2 ^ k → minBits s ≤ k := by
  unfold minBits
  split
  · next h => subst h; exact ⟨by omega, by simp, fun k hk _ => hk⟩
  · next h =>
    refine ⟨by omega, Nat.lt_log2_self, fun k _ hlt => ?_⟩
    have := (Nat.log2_lt h).mpr hlt
    omega

theorem agree_jscalar_fixed (s : Nat) (hs : s < Gen.jubjubScalarModulus) :
    Agree .fixed (.jscalar s) := by
  have f := native_facts
  obtain ⟨m1, m2, m3⟩ := minBits_spec s
  have hs' : s < 2 ^ Gen.jubjubNumBitsSubgroup := by omega
  have := m3 _ f.2.2.2.1 hs'
  simp only [Agree, scalarBitLen]
  exact ⟨hs', m1, by unfold scalarBatch; omega, m2⟩

theorem agree_jscalar_bytes (n s : Nat) (hn : 1 ≤ n) (hfit : 8 * n ≤ scalarBatch)
    (hs : s < Gen.jubjubScalarModulus) (hb : s < 2 ^ (8 * n)) : Agree (.derived n) (.jscalar s) := by
  have f := native_facts
  have hl : scalarBitLen (.derived n) s = 8 * n := by
    cases n with
    | zero => omega
    | succ k => simp [scalarBitLen]
  simp only [Agree, hl]
  exact ⟨by omega, by omega, hfit, hb⟩

theorem ceilDiv_pos (a b : Nat) (ha : 1 ≤ a) (hb : 0 < b) : 1 ≤ ceilDiv a b := by
  unfold ceilDiv
  exact (Nat.le_div_iff_mul_le hb).mpr (by omega)

theorem exposedLimbCount_assignBounds (w nb : Nat) (hw : 0 < w) :
    exposedLimbCount w (assignBounds w nb) = ceilDiv (max nb 1) w := by
  have hn := ceilDiv_pos (max nb 1) w (by omega) hw
  unfold exposedLimbCount assignBounds
  have hall : (List.replicate (ceilDiv (max nb 1) w - 1) w ++ [(nb - 1) % w + 1]).all (· ≤ w) = true := by
    rw [List.all_eq_true]
    intro x hx
    simp only [List.mem_append, List.mem_replicate, List.mem_singleton] at hx
    have := Nat.mod_lt (nb - 1) hw
    rcases hx with ⟨_, rfl⟩ | rfl <;> simp <;> omega
  simp only [hall, if_true, List.length_append, List.length_replicate, List.length_singleton]
  omega

theorem agree_big_assign (path : Path) (hp : path = .constrain ∨ path = .assign)
    (nb v : Nat) (hnb : 1 ≤ nb) : Agree path (.big nb v) := by
  have f := native_facts
  have hb : bigBounds path nb v = assignBounds Gen.bigLog2Base nb := by
    rcases hp with rfl | rfl <;> rfl
  simp only [Agree, hb, exposedLimbCount_assignBounds _ nb f.2.2.2.2.2.2.2.2.1,
    Nat.max_eq_left hnb]

/-! ### Sequences of exposures -/

/-- The chip after exposing `steps`, when every step exposes its encoding: counter, bound rows
and bound values are those of the concatenated off-circuit encodings. -/
theorem exposeAll_spec : ∀ (steps : List (Path × Val)) (c c' : Chip),
    exposeAll c steps = some c' → (∀ s ∈ steps, cells s.1 s.2 = encode s.2) →
    ∃ pl cm, formatInstance steps = some (pl, cm) ∧
      c'.offset = c.offset + pl.length ∧
      c'.binds = c.binds ++ (List.range' c.offset pl.length).zip pl ∧
      c'.comOffset = c.comOffset + cm.length ∧
      c'.comBinds = c.comBinds ++ (List.range' c.comOffset cm.length).zip cm
  | [], c, c', h, _ => by
    simp only [exposeAll, Option.some.injEq] at h
    subst h
    exact ⟨[], [], rfl, by simp, by simp, by simp, by simp⟩
  | (p, v) :: rest, c, c', h, hag => by
    simp only [exposeAll, Option.bind_eq_some_iff] at h
    obtain ⟨c₁, hstep, hrest⟩ := h
    have hcv : cells p v = encode v := hag (p, v) (by simp)
    simp only [exposeStep, hcv, Option.map_eq_some_iff] at hstep
    obtain ⟨e, he, hc₁⟩ := hstep
    obtain ⟨pl, cm, hf, h1, h2, h3, h4⟩ := exposeAll_spec rest c₁ c' hrest
      (fun s hs => hag s (by simp [hs]))
    by_cases hpc : p = .committed
    · subst hpc
      simp only [if_true] at hc₁
      obtain ⟨a1, a2, a3, a4⟩ := constrainAllCommitted_spec e c
      rw [hc₁] at a1 a2 a3 a4
      refine ⟨pl, e ++ cm, ?_, ?_, ?_, ?_, ?_⟩
      · simp [formatInstance, he, hf]
      · rw [h1, a3]
      · rw [h2, a4, a3]
      · rw [h3, a1]; simp; omega
      · rw [h4, a2, a1, List.append_assoc, List.length_append, List.range'_append_1.symm,
          List.zip_append (by simp)]
    · simp only [hpc, if_false] at hc₁
      obtain ⟨a1, a2, a3, a4⟩ := constrainAll_spec e c
      rw [hc₁] at a1 a2 a3 a4
      refine ⟨e ++ pl, cm, ?_, ?_, ?_, ?_, ?_⟩
      · simp [formatInstance, he, hf, hpc]
      · rw [h1, a1]; simp; omega
      · rw [h2, a2, a1, List.append_assoc, List.length_append, List.range'_append_1.symm,
          List.zip_append (by simp)]
      · rw [h3, a3]
      · rw [h4, a4, a3]

end MidnightZK.C08
