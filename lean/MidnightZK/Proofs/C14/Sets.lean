import Mathlib.Data.List.Basic
import Mathlib.Data.List.Nodup
import Mathlib.Tactic.Ring
import MidnightZK.Model.C14.Sets
/-! Helper lemmas for the grouping theorems of C14 (`construct_intermediate_sets`). -/
namespace MidnightZK.C14

section generic
variable {α : Type} [DecidableEq α]

theorem mem_insertNew (l : List α) (x y : α) : y ∈ insertNew l x ↔ y ∈ l ∨ y = x := by
  unfold insertNew
  split
  · next h => constructor
              · exact Or.inl
              · rintro (h' | rfl); exact h'; exact h
  · simp

theorem insertNew_nodup (l : List α) (x : α) (h : l.Nodup) : (insertNew l x).Nodup := by
  unfold insertNew
  split
  · exact h
  · next hx => exact List.Nodup.append h (by simp) (by simpa using hx)

theorem insertNew_prefix (l : List α) (x : α) : ∃ t, insertNew l x = l ++ t := by
  unfold insertNew
  split
  · exact ⟨[], by simp⟩
  · exact ⟨[x], rfl⟩

theorem foldl_insertNew_prefix (xs : List α) : ∀ (l : List α), ∃ t, xs.foldl insertNew l = l ++ t := by
  induction xs with
  | nil => intro l; exact ⟨[], by simp⟩
  | cons x xs ih =>
    intro l
    obtain ⟨t1, h1⟩ := insertNew_prefix l x
    obtain ⟨t2, h2⟩ := ih (insertNew l x)
    exact ⟨t1 ++ t2, by rw [List.foldl_cons, h2, h1, List.append_assoc]⟩

theorem foldl_insertNew_nodup (xs : List α) : ∀ (l : List α), l.Nodup → (xs.foldl insertNew l).Nodup := by
  induction xs with
  | nil => intro l h; exact h
  | cons x xs ih => intro l h; exact ih _ (insertNew_nodup l x h)

theorem mem_foldl_insertNew (xs : List α) : ∀ (l : List α) (y : α),
    y ∈ xs.foldl insertNew l ↔ y ∈ l ∨ y ∈ xs := by
  induction xs with
  | nil => intro l y; simp
  | cons x xs ih =>
    intro l y
    rw [List.foldl_cons, ih, mem_insertNew]
    simp only [List.mem_cons]
    tauto

theorem idxOf_append_of_mem' (l t : List α) (y : α) (h : y ∈ l) : (l ++ t).idxOf y = l.idxOf y :=
  List.idxOf_append_of_mem h

/-- The first-occurrence list (what an insertion-ordered map keeps). -/
def firstOcc (l : List α) : List α := l.foldl insertNew []

theorem firstOcc_append_singleton (l : List α) (x : α) : firstOcc (l ++ [x]) = insertNew (firstOcc l) x := by
  simp [firstOcc, List.foldl_append]

theorem mem_firstOcc (l : List α) (y : α) : y ∈ firstOcc l ↔ y ∈ l := by
  simp [firstOcc, mem_foldl_insertNew]

theorem firstOcc_nodup (l : List α) : (firstOcc l).Nodup := foldl_insertNew_nodup l [] List.nodup_nil

end generic

section btree

theorem mem_insertSorted (x y : Nat) (l : List Nat) : y ∈ insertSorted x l ↔ y = x ∨ y ∈ l := by
  induction l with
  | nil => simp [insertSorted]
  | cons z zs ih =>
    unfold insertSorted
    split
    · simp
    · split
      · next h => subst h; simp
      · simp [ih]; tauto

theorem insertSorted_sorted (x : Nat) (l : List Nat) (h : l.Pairwise (· < ·)) :
    (insertSorted x l).Pairwise (· < ·) := by
  induction l with
  | nil => simp [insertSorted]
  | cons z zs ih =>
    unfold insertSorted
    rw [List.pairwise_cons] at h
    split
    · next hxz =>
      rw [List.pairwise_cons]
      refine ⟨?_, List.pairwise_cons.2 h⟩
      intro a ha
      rcases List.mem_cons.1 ha with rfl | ha
      · exact hxz
      · exact Nat.lt_trans hxz (h.1 a ha)
    · split
      · exact List.pairwise_cons.2 h
      · next h1 h2 =>
        rw [List.pairwise_cons]
        refine ⟨?_, ih h.2⟩
        intro a ha
        rcases (mem_insertSorted x a zs).1 ha with rfl | ha
        · omega
        · exact h.1 a ha

theorem mem_btreeSet (l : List Nat) (y : Nat) : y ∈ btreeSet l ↔ y ∈ l := by
  induction l with
  | nil => simp [btreeSet]
  | cons x xs ih =>
    have : btreeSet (x :: xs) = insertSorted x (btreeSet xs) := rfl
    rw [this, mem_insertSorted, ih]; simp

theorem btreeSet_sorted (l : List Nat) : (btreeSet l).Pairwise (· < ·) := by
  induction l with
  | nil => simp [btreeSet]
  | cons x xs ih => exact insertSorted_sorted x _ ih

theorem btreeSet_nodup (l : List Nat) : (btreeSet l).Nodup :=
  (btreeSet_sorted l).imp (fun h => Nat.ne_of_lt h)

theorem insertSorted_length_of_not_mem (x : Nat) (l : List Nat) (h : x ∉ l) :
    (insertSorted x l).length = l.length + 1 := by
  induction l with
  | nil => simp [insertSorted]
  | cons z zs ih =>
    unfold insertSorted
    have hz : x ≠ z := fun e => h (e ▸ List.mem_cons_self ..)
    have hzs : x ∉ zs := fun e => h (List.mem_cons_of_mem _ e)
    split
    · simp
    · simp [ih hzs]

theorem btreeSet_length_of_nodup (l : List Nat) (h : l.Nodup) : (btreeSet l).length = l.length := by
  induction l with
  | nil => simp [btreeSet]
  | cons x xs ih =>
    rw [List.nodup_cons] at h
    have : btreeSet (x :: xs) = insertSorted x (btreeSet xs) := rfl
    rw [this, insertSorted_length_of_not_mem _ _ (by rw [mem_btreeSet]; exact h.1), ih h.2]; simp

end btree

section phase1
variable {C P E : Type} [DecidableEq C] [DecidableEq P]

/-- The point indices recorded for commitment `c` (first entry with this commitment). -/
def entry (cm : List (C × List Nat)) (c : C) : Option (List Nat) :=
  (cm.find? (fun e => e.1 = c)).map (·.2)

@[simp] theorem entry_nil (c : C) : entry ([] : List (C × List Nat)) c = none := rfl

theorem entry_cons (e : C × List Nat) (es : List (C × List Nat)) (c : C) :
    entry (e :: es) c = if e.1 = c then some e.2 else entry es c := by
  unfold entry
  rw [List.find?_cons]
  by_cases h : e.1 = c <;> simp [h]

theorem entry_eq_none_iff (cm : List (C × List Nat)) (c : C) : entry cm c = none ↔ c ∉ cm.map (·.1) := by
  induction cm with
  | nil => simp
  | cons e es ih =>
    rw [entry_cons]
    by_cases h : e.1 = c
    · simp [h]
    · simp only [h, if_false, ih, List.map_cons, List.mem_cons]
      constructor
      · intro h1 h2; rcases h2 with h2 | h2; exact h h2.symm; exact h1 h2
      · intro h1 h2; exact h1 (Or.inr h2)

theorem addPoint_none_iff (cm : List (C × List Nat)) (c : C) (i : Nat) :
    addPoint cm c i = none ↔ ∃ l, entry cm c = some l ∧ i ∈ l := by
  induction cm with
  | nil => simp [addPoint]
  | cons e es ih =>
    rw [addPoint, entry_cons]
    by_cases h : e.1 = c
    · simp only [h, if_true]
      by_cases hi : i ∈ e.2
      · simp [hi]
      · simp [hi]
    · simp only [h, if_false, Option.map_eq_none_iff, ih]

theorem addPoint_some (cm cm' : List (C × List Nat)) (c : C) (i : Nat) (h : addPoint cm c i = some cm') :
    cm'.map (·.1) = insertNew (cm.map (·.1)) c ∧
    entry cm' c = some ((entry cm c).getD [] ++ [i]) ∧
    ∀ c', c' ≠ c → entry cm' c' = entry cm c' := by
  induction cm generalizing cm' with
  | nil =>
    simp only [addPoint, Option.some.injEq] at h
    subst h
    refine ⟨by simp [insertNew], by simp [entry_cons], ?_⟩
    intro c' hc'
    rw [entry_cons]; simp [Ne.symm hc']
  | cons e es ih =>
    rw [addPoint] at h
    by_cases hc : e.1 = c
    · simp only [hc, if_true] at h
      by_cases hi : i ∈ e.2
      · simp [hi] at h
      · simp only [hi, if_false, Option.some.injEq] at h
        subst h
        refine ⟨?_, ?_, ?_⟩
        · simp [insertNew, hc]
        · simp [entry_cons, hc]
        · intro c' hc'
          rw [entry_cons, entry_cons]
          simp [hc, Ne.symm hc']
    · simp only [hc, if_false] at h
      obtain ⟨cm2, h2, rfl⟩ := Option.map_eq_some_iff.1 h
      obtain ⟨k1, k2, k3⟩ := ih cm2 h2
      refine ⟨?_, ?_, ?_⟩
      · simp only [List.map_cons, k1, insertNew]
        have : (c ∈ e.1 :: es.map (·.1)) ↔ c ∈ es.map (·.1) := by
          simp only [List.mem_cons]
          constructor
          · rintro (h' | h'); exact absurd h'.symm hc; exact h'
          · exact Or.inr
        by_cases hm : c ∈ es.map (·.1)
        · simp [hm]
        · have hm' : ¬ (c ∈ e.1 :: es.map (·.1)) := fun h' => hm (this.1 h')
          rw [if_neg hm, if_neg hm']; simp
      · rw [entry_cons, entry_cons]; simp [hc, k2]
      · intro c' hc'
        rw [entry_cons, entry_cons, k3 c' hc']

/-- Folding `addPoint` over `(commitment, point index)` pairs. -/
def addAll : List (C × Nat) → List (C × List Nat) → Option (List (C × List Nat))
  | [], cm => some cm
  | (c, i) :: r, cm =>
    match addPoint cm c i with
    | none => none
    | some cm' => addAll r cm'

/-- Invariant of the first loop: the commitment map lists the commitments seen so far in order of
first appearance, each with its point indices in query order. -/
def Inv (cm : List (C × List Nat)) (seen : List (C × Nat)) : Prop :=
  cm.map (·.1) = firstOcc (seen.map (·.1)) ∧
  ∀ c, entry cm c = if c ∈ seen.map (·.1) then some ((seen.filter (fun p => p.1 = c)).map (·.2)) else none

theorem inv_nil : Inv ([] : List (C × List Nat)) [] := by
  refine ⟨rfl, ?_⟩
  intro c; simp

theorem inv_step (cm : List (C × List Nat)) (seen : List (C × Nat)) (c : C) (i : Nat) (h : Inv cm seen) :
    (addPoint cm c i = none ↔ (c, i) ∈ seen) ∧
    ∀ cm', addPoint cm c i = some cm' → Inv cm' (seen ++ [(c, i)]) := by
  obtain ⟨hk, he⟩ := h
  constructor
  · rw [addPoint_none_iff]
    constructor
    · rintro ⟨l, hl, hi⟩
      rw [he c] at hl
      split at hl
      · simp only [Option.some.injEq] at hl
        subst hl
        obtain ⟨p, hp, rfl⟩ := List.mem_map.1 hi
        have := List.mem_filter.1 hp
        have h1 : p.1 = c := by simpa using this.2
        rw [← h1]; exact this.1
      · cases hl
    · intro hm
      refine ⟨(seen.filter (fun p => p.1 = c)).map (·.2), ?_, ?_⟩
      · rw [he c, if_pos (List.mem_map.2 ⟨(c, i), hm, rfl⟩)]
      · exact List.mem_map.2 ⟨(c, i), List.mem_filter.2 ⟨hm, by simp⟩, rfl⟩
  · intro cm' hcm'
    obtain ⟨k1, k2, k3⟩ := addPoint_some cm cm' c i hcm'
    refine ⟨?_, ?_⟩
    · rw [k1, hk, List.map_append, List.map_cons, List.map_nil, firstOcc_append_singleton]
    · intro c'
      by_cases hc' : c' = c
      · subst hc'
        rw [k2, he c']
        simp only [List.map_append, List.map_cons, List.map_nil, List.mem_append, List.mem_singleton, or_true,
          if_true, List.filter_append, Option.some.injEq]
        split
        · simp
        · next hnm =>
          simp
          intro a b hab hac
          exact hnm (List.mem_map.2 ⟨(a, b), hab, hac⟩)
      · rw [k3 c' hc', he c']
        have : (c' ∈ (seen ++ [(c, i)]).map (·.1)) ↔ c' ∈ seen.map (·.1) := by
          simp only [List.map_append, List.map_cons, List.map_nil, List.mem_append, List.mem_singleton]
          constructor
          · rintro (h' | h'); exact h'; exact absurd h' hc'
          · exact Or.inl
        by_cases hm : c' ∈ seen.map (·.1)
        · rw [if_pos hm, if_pos (this.2 hm)]
          simp [List.filter_append, Ne.symm hc']
        · rw [if_neg hm, if_neg (fun h' => hm (this.1 h'))]

theorem addAll_spec : ∀ (pairs : List (C × Nat)) (cm : List (C × List Nat)) (seen : List (C × Nat)),
    Inv cm seen → seen.Nodup →
    (addAll pairs cm = none ↔ ¬ (seen ++ pairs).Nodup) ∧
    ∀ cm', addAll pairs cm = some cm' → Inv cm' (seen ++ pairs) := by
  intro pairs
  induction pairs with
  | nil =>
    intro cm seen hinv hnd
    simp only [addAll, List.append_nil]
    exact ⟨by simp [hnd], by intro cm' h; cases h; exact hinv⟩
  | cons p pairs ih =>
    intro cm seen hinv hnd
    obtain ⟨c, i⟩ := p
    obtain ⟨h1, h2⟩ := inv_step cm seen c i hinv
    have hsplit : seen ++ (c, i) :: pairs = (seen ++ [(c, i)]) ++ pairs := by simp
    cases hap : addPoint cm c i with
    | none =>
      have hm := h1.1 hap
      simp only [addAll, hap]
      refine ⟨by
        simp only [true_iff]
        intro hnd'
        rw [List.nodup_append] at hnd'
        exact hnd'.2.2 _ hm _ (List.mem_cons_self ..) rfl, by intro cm' h; cases h⟩
    | some cm1 =>
      have hnm : (c, i) ∉ seen := fun hm => by rw [h1.2 hm] at hap; cases hap
      have hnd1 : (seen ++ [(c, i)]).Nodup := by
        rw [List.nodup_append]
        exact ⟨hnd, by simp, by
          intro a ha b hb; simp at hb; subst hb; exact fun e => hnm (e ▸ ha)⟩
      obtain ⟨g1, g2⟩ := ih cm1 (seen ++ [(c, i)]) (h2 cm1 hap) hnd1
      simp only [addAll, hap]
      rw [hsplit]
      exact ⟨g1, g2⟩

end phase1

section phase1b
variable {C P E : Type} [DecidableEq C] [DecidableEq P]

/-- The distinct points in order of first appearance, continuing from `pts`. -/
def ptsF (qs : List (Query C P E)) (pts : List P) : List P := (qs.map (·.point)).foldl insertNew pts

/-- The `(commitment, point index)` pairs of the queries, indices taken in the final point list. -/
def pairsOf (qs : List (Query C P E)) (ptsFinal : List P) : List (C × Nat) :=
  qs.map (fun q => (q.com, ptsFinal.idxOf q.point))

theorem phase1_eq : ∀ (qs : List (Query C P E)) (pts : List P) (cm : List (C × List Nat)),
    phase1 qs pts cm = (addAll (pairsOf qs (ptsF qs pts)) cm).map (fun cm' => (ptsF qs pts, cm')) := by
  intro qs
  induction qs with
  | nil => intro pts cm; simp [phase1, ptsF, pairsOf, addAll]
  | cons q qs ih =>
    intro pts cm
    have hF : ptsF (q :: qs) pts = ptsF qs (insertNew pts q.point) := by simp [ptsF]
    have hmem : q.point ∈ insertNew pts q.point := (mem_insertNew _ _ _).2 (Or.inr rfl)
    obtain ⟨t, ht⟩ := foldl_insertNew_prefix (qs.map (·.point)) (insertNew pts q.point)
    have hidx : (ptsF qs (insertNew pts q.point)).idxOf q.point = (insertNew pts q.point).idxOf q.point := by
      unfold ptsF; rw [ht]; exact List.idxOf_append_of_mem hmem
    rw [phase1, hF]
    simp only [pairsOf, List.map_cons, addAll, hidx]
    cases addPoint cm q.com ((insertNew pts q.point).idxOf q.point) with
    | none => rfl
    | some cm' => simp only; rw [ih]; rfl

theorem pairs_nodup_iff (qs : List (Query C P E)) :
    (pairsOf qs (ptsF qs [])).Nodup ↔ (qs.map (fun q => (q.com, q.point))).Nodup := by
  have hmemp : ∀ q ∈ qs, q.point ∈ ptsF qs [] := by
    intro q hq
    unfold ptsF
    rw [mem_foldl_insertNew]
    exact Or.inr (List.mem_map_of_mem hq)
  have hmap : pairsOf qs (ptsF qs []) =
      (qs.map (fun q => (q.com, q.point))).map (fun cp => (cp.1, (ptsF qs []).idxOf cp.2)) := by
    simp [pairsOf, List.map_map, Function.comp_def]
  rw [hmap]
  constructor
  · exact List.Nodup.of_map _
  · intro hnd
    apply List.Nodup.map_on _ hnd
    intro x hx y hy hxy
    obtain ⟨q1, hq1, rfl⟩ := List.mem_map.1 hx
    obtain ⟨q2, hq2, rfl⟩ := List.mem_map.1 hy
    simp only [Prod.mk.injEq] at hxy ⊢
    exact ⟨hxy.1, (List.idxOf_inj (hmemp q1 hq1)).1 hxy.2⟩

/-- A repeated `(commitment, point)` pair is refused, and nothing else is. -/
theorem construct_none_iff (dflt : E) (qs : List (Query C P E)) :
    constructIntermediateSets dflt qs = none ↔ ¬ (qs.map (fun q => (q.com, q.point))).Nodup := by
  have h1 : constructIntermediateSets dflt qs = none ↔ phase1 qs [] [] = none := by
    unfold constructIntermediateSets
    cases phase1 qs [] [] with
    | none => simp
    | some r => obtain ⟨pts, cm⟩ := r; simp
  rw [h1, phase1_eq, Option.map_eq_none_iff, (addAll_spec _ _ [] inv_nil List.nodup_nil).1, List.nil_append,
    pairs_nodup_iff]

end phase1b

section phase3
variable {C P E : Type} [DecidableEq C] [DecidableEq P]

/-- The point-index set of commitment `c` (`commitment_set_map.iter().find(..)`). -/
def setOf (cm : List (C × List Nat)) (c : C) : List Nat :=
  match cm.find? (fun e => e.1 = c) with
  | some e => btreeSet e.2
  | none => []

theorem setOf_eq (cm : List (C × List Nat)) (c : C) : setOf cm c = btreeSet ((entry cm c).getD []) := by
  unfold setOf entry
  cases cm.find? (fun e => e.1 = c) <;> simp [btreeSet]

/-- The update of one commitment data by one query (inner loop of the fourth loop). -/
def updOne (pts : List P) (cm : List (C × List Nat)) (sets : List (List Nat))
    (d : CommitmentData C E) (q : Query C P E) : CommitmentData C E :=
  if q.com = d.com then
    { d with setIndex := sets.idxOf (setOf cm q.com),
             evals := d.evals.set ((setOf cm q.com).idxOf (pts.idxOf q.point)) q.eval }
  else d

theorem placeEval_eq (pts : List P) (cm : List (C × List Nat)) (sets : List (List Nat))
    (st : List (CommitmentData C E)) (q : Query C P E) :
    placeEval pts cm sets st q = st.map (fun d => updOne pts cm sets d q) := by
  unfold placeEval updOne setOf
  rfl

theorem foldl_placeEval (pts : List P) (cm : List (C × List Nat)) (sets : List (List Nat)) :
    ∀ (qs : List (Query C P E)) (st : List (CommitmentData C E)),
    qs.foldl (placeEval pts cm sets) st = st.map (fun d => qs.foldl (updOne pts cm sets) d) := by
  intro qs
  induction qs with
  | nil => intro st; simp
  | cons q qs ih =>
    intro st
    rw [List.foldl_cons, placeEval_eq, ih, List.map_map]
    rfl

theorem foldl_set_length (us : List (Nat × E)) : ∀ (ev0 : List E),
    (us.foldl (fun ev u => ev.set u.1 u.2) ev0).length = ev0.length := by
  induction us with
  | nil => intro ev0; rfl
  | cons u us ih => intro ev0; rw [List.foldl_cons, ih, List.length_set]

theorem foldl_set_other (us : List (Nat × E)) : ∀ (ev0 : List E) (k : Nat), k ∉ us.map (·.1) →
    (us.foldl (fun ev u => ev.set u.1 u.2) ev0)[k]? = ev0[k]? := by
  induction us with
  | nil => intro ev0 k _; rfl
  | cons u us ih =>
    intro ev0 k hk
    simp only [List.map_cons, List.mem_cons, not_or] at hk
    rw [List.foldl_cons, ih _ k hk.2, List.getElem?_set_ne (fun h => hk.1 h.symm)]

theorem foldl_set_get (us : List (Nat × E)) : ∀ (ev0 : List E), (us.map (·.1)).Nodup →
    (∀ u ∈ us, u.1 < ev0.length) →
    ∀ u ∈ us, (us.foldl (fun ev u => ev.set u.1 u.2) ev0)[u.1]? = some u.2 := by
  induction us with
  | nil => intro ev0 _ _ u hu; cases hu
  | cons a us ih =>
    intro ev0 hnd hlt u hu
    rw [List.map_cons, List.nodup_cons] at hnd
    rw [List.foldl_cons]
    rcases List.mem_cons.1 hu with rfl | hu'
    · rw [foldl_set_other us _ _ hnd.1]
      rw [List.getElem?_set_self (hlt _ (List.mem_cons_self ..))]
    · apply ih _ hnd.2 _ u hu'
      intro v hv
      rw [List.length_set]
      exact hlt v (List.mem_cons_of_mem _ hv)

/-- The fields of one commitment data after all queries. -/
theorem foldl_updOne (pts : List P) (cm : List (C × List Nat)) (sets : List (List Nat)) :
    ∀ (qs : List (Query C P E)) (d : CommitmentData C E),
    let d' := qs.foldl (updOne pts cm sets) d
    d'.com = d.com ∧ d'.pointIndices = d.pointIndices ∧
    d'.evals = ((qs.filter (fun q => q.com = d.com)).map
        (fun q => ((setOf cm d.com).idxOf (pts.idxOf q.point), q.eval))).foldl
        (fun ev u => ev.set u.1 u.2) d.evals ∧
    ((∃ q ∈ qs, q.com = d.com) → d'.setIndex = sets.idxOf (setOf cm d.com)) := by
  intro qs
  induction qs with
  | nil => intro d; simp
  | cons q qs ih =>
    intro d
    simp only [List.foldl_cons]
    obtain ⟨h1, h2, h3, h4⟩ := ih (updOne pts cm sets d q)
    by_cases hq : q.com = d.com
    · have hu : updOne pts cm sets d q =
          { d with
            setIndex := sets.idxOf (setOf cm q.com)
            evals := d.evals.set ((setOf cm q.com).idxOf (pts.idxOf q.point)) q.eval } := by
        simp [updOne, hq]
      have hcom : (updOne pts cm sets d q).com = d.com := by rw [hu]
      refine ⟨by rw [h1, hcom], by rw [h2, hu], ?_, ?_⟩
      · rw [h3, hcom, List.filter_cons, if_pos (by simpa using hq), List.map_cons, List.foldl_cons, hu, hq]
      · intro _
        by_cases hex : ∃ q' ∈ qs, q'.com = d.com
        · rw [h4 (by simpa [hcom] using hex), hcom]
        · -- no later query touches this commitment
          have hstay : ∀ (qs' : List (Query C P E)) (d1 : CommitmentData C E),
              (∀ q' ∈ qs', q'.com ≠ d1.com) → qs'.foldl (updOne pts cm sets) d1 = d1 := by
            intro qs'
            induction qs' with
            | nil => intro d1 _; rfl
            | cons a qs' ih' =>
              intro d1 hne
              have ha : updOne pts cm sets d1 a = d1 := by
                simp [updOne, hne a (List.mem_cons_self ..)]
              rw [List.foldl_cons, ha]
              exact ih' d1 (fun q' hq' => hne q' (List.mem_cons_of_mem _ hq'))
          rw [hstay qs _ (by
            intro q' hq' hc
            exact hex ⟨q', hq', by rw [hc, hcom]⟩)]
          rw [hu, hq]
    · have hu : updOne pts cm sets d q = d := by simp [updOne, hq]
      rw [hu] at h1 h2 h3 h4 ⊢
      refine ⟨h1, h2, ?_, ?_⟩
      · rw [h3, List.filter_cons, if_neg (by simpa using hq)]
      · rintro ⟨q', hq', hc⟩
        rcases List.mem_cons.1 hq' with rfl | hq''
        · exact absurd hc hq
        · exact h4 ⟨q', hq'', hc⟩

end phase3

section assembly
variable {C P E : Type} [DecidableEq C] [DecidableEq P]

theorem mem_phase2_aux (cm : List (C × List Nat)) : ∀ (init : List (List Nat)) (y : List Nat),
    y ∈ cm.foldl (fun sets e => insertNew sets (btreeSet e.2)) init ↔
      y ∈ init ∨ ∃ e ∈ cm, btreeSet e.2 = y := by
  induction cm with
  | nil => intro init y; simp
  | cons e es ih =>
    intro init y
    rw [List.foldl_cons, ih, mem_insertNew]
    simp only [List.mem_cons, exists_eq_or_imp]
    constructor
    · rintro ((h | h) | h)
      · exact Or.inl h
      · exact Or.inr (Or.inl h.symm)
      · exact Or.inr (Or.inr h)
    · rintro (h | h | h)
      · exact Or.inl (Or.inl h)
      · exact Or.inl (Or.inr h.symm)
      · exact Or.inr h

theorem mem_phase2 (cm : List (C × List Nat)) (y : List Nat) :
    y ∈ phase2 cm ↔ ∃ e ∈ cm, btreeSet e.2 = y := by
  unfold phase2
  rw [mem_phase2_aux]; simp

theorem phase2_nodup (cm : List (C × List Nat)) : (phase2 cm).Nodup := by
  unfold phase2
  have : ∀ (cm : List (C × List Nat)) (init : List (List Nat)), init.Nodup →
      (cm.foldl (fun sets e => insertNew sets (btreeSet e.2)) init).Nodup := by
    intro cm
    induction cm with
    | nil => intro init h; exact h
    | cons e es ih => intro init h; exact ih _ (insertNew_nodup _ _ h)
  exact this cm [] List.nodup_nil

theorem filterMap_get_all (pts : List P) : ∀ (L : List Nat), (∀ i ∈ L, i < pts.length) →
    (L.filterMap (fun i => pts[i]?)).length = L.length ∧
    ∀ (j : Nat), (L.filterMap (fun i => pts[i]?))[j]? = (L[j]?).bind (fun i => pts[i]?) := by
  intro L
  induction L with
  | nil => intro _; simp
  | cons i L ih =>
    intro h
    have hi : i < pts.length := h i (List.mem_cons_self ..)
    obtain ⟨h1, h2⟩ := ih (fun k hk => h k (List.mem_cons_of_mem _ hk))
    have hsome : pts[i]? = some pts[i] := List.getElem?_eq_getElem hi
    rw [List.filterMap_cons, hsome]
    refine ⟨by simp [h1], ?_⟩
    intro j
    cases j with
    | zero => simp [hsome]
    | succ j => simp [h2 j]

theorem entry_find (cm : List (C × List Nat)) (c : C) (l : List Nat) (h : entry cm c = some l) :
    (c, l) ∈ cm := by
  unfold entry at h
  obtain ⟨e, he, rfl⟩ := Option.map_eq_some_iff.1 h
  have h1 := List.find?_some he
  have h2 := List.mem_of_find?_eq_some he
  have : e.1 = c := by simpa using h1
  rw [← this]; exact h2

/-- Everything `sets_spec` needs about one query, in terms of the internal state. -/
theorem construct_query (dflt : E) (qs : List (Query C P E))
    (cm' : List (CommitmentData C E)) (psets : List (List P))
    (h : constructIntermediateSets dflt qs = some (cm', psets)) (q : Query C P E) (hq : q ∈ qs) :
    ∃ d ∈ cm', d.com = q.com ∧ ∃ S, psets[d.setIndex]? = some S ∧ d.evals.length = S.length ∧
      S.Nodup ∧ (∀ p, p ∈ S ↔ ∃ q' ∈ qs, q'.com = q.com ∧ q'.point = p) ∧
      ∃ j : Nat, S[j]? = some q.point ∧ d.evals[j]? = some q.eval := by
  -- unfold the construction
  unfold constructIntermediateSets at h
  rw [phase1_eq] at h
  cases hadd : addAll (pairsOf qs (ptsF qs [])) [] with
  | none => rw [hadd] at h; simp at h
  | some cm =>
    rw [hadd] at h
    simp only [Option.map_some, Option.some.injEq, Prod.mk.injEq] at h
    obtain ⟨hcm', hpsets⟩ := h
    set pts := ptsF qs [] with hpts
    set pairs := pairsOf qs pts with hpairs
    obtain ⟨hnone, hinv⟩ := addAll_spec pairs [] [] inv_nil List.nodup_nil
    have hpnd : pairs.Nodup := by
      by_contra hnd
      have := hnone.2 (by simpa using hnd)
      rw [hadd] at this; cases this
    obtain ⟨hkeys, hent⟩ : Inv cm pairs := by simpa using hinv cm hadd
    have hptsnd : pts.Nodup := foldl_insertNew_nodup _ [] List.nodup_nil
    have hmemp : ∀ q' ∈ qs, q'.point ∈ pts := by
      intro q' hq'
      rw [hpts]; unfold ptsF
      rw [mem_foldl_insertNew]
      exact Or.inr (List.mem_map_of_mem hq')
    -- the commitment of `q`
    have hcin : q.com ∈ pairs.map (·.1) := by
      rw [hpairs]; unfold pairsOf
      rw [List.map_map]
      exact List.mem_map.2 ⟨q, hq, rfl⟩
    -- point indices of this commitment
    have hl : (pairs.filter (fun p => p.1 = q.com)).map (·.2) =
        (qs.filter (fun q' => q'.com = q.com)).map (fun q' => pts.idxOf q'.point) := by
      rw [hpairs]; unfold pairsOf
      rw [List.filter_map, List.map_map]
      rfl
    set l := (qs.filter (fun q' => q'.com = q.com)).map (fun q' => pts.idxOf q'.point) with hldef
    have hentry : entry cm q.com = some l := by rw [hent, if_pos hcin, hl]
    have hlnd : l.Nodup := by
      rw [← hl]
      apply List.Nodup.map_on _ (hpnd.filter _)
      intro x hx y hy hxy
      have hx' := (List.mem_filter.1 hx).2
      have hy' := (List.mem_filter.1 hy).2
      simp only [decide_eq_true_eq] at hx' hy'
      exact Prod.ext (hx'.trans hy'.symm) hxy
    have hein : (q.com, l) ∈ cm := entry_find cm q.com l hentry
    have hset : setOf cm q.com = btreeSet l := by rw [setOf_eq, hentry]; rfl
    set Sc := btreeSet l with hSc
    -- the final data of this commitment
    let d0 : CommitmentData C E := { com := q.com, setIndex := 0, pointIndices := l, evals := List.replicate l.length dflt }
    obtain ⟨f1, f2, f3, f4⟩ := foldl_updOne pts cm (phase2 cm) qs d0
    refine ⟨qs.foldl (updOne pts cm (phase2 cm)) d0, ?_, f1, ?_⟩
    · rw [← hcm', foldl_placeEval, List.map_map]
      exact List.mem_map.2 ⟨(q.com, l), hein, rfl⟩
    · have hScmem : Sc ∈ phase2 cm := (mem_phase2 cm Sc).2 ⟨(q.com, l), hein, rfl⟩
      have hidxlt : ∀ i ∈ Sc, i < pts.length := by
        intro i hi
        rw [hSc, mem_btreeSet, hldef] at hi
        obtain ⟨q', hq', rfl⟩ := List.mem_map.1 hi
        exact List.idxOf_lt_length_of_mem (hmemp q' (List.mem_filter.1 hq').1)
      obtain ⟨g1, g2⟩ := filterMap_get_all pts Sc hidxlt
      have hsi : (qs.foldl (updOne pts cm (phase2 cm)) d0).setIndex = (phase2 cm).idxOf Sc := by
        rw [f4 ⟨q, hq, rfl⟩, hset]
      refine ⟨Sc.filterMap (fun i => pts[i]?), ?_, ?_, ?_, ?_, ?_⟩
      · rw [hsi, ← hpsets, List.getElem?_map, List.getElem?_idxOf hScmem]; rfl
      · rw [f3, foldl_set_length, g1]
        simp only [d0, List.length_replicate]
        exact (btreeSet_length_of_nodup l hlnd).symm
      · apply List.Nodup.filterMap _ (btreeSet_nodup l)
        intro i i' p hi hi'
        simp only [Option.mem_def] at hi hi'
        obtain ⟨hi1, hi2⟩ := List.getElem?_eq_some_iff.1 hi
        obtain ⟨hi1', hi2'⟩ := List.getElem?_eq_some_iff.1 hi'
        exact (List.Nodup.getElem_inj_iff hptsnd).1 (hi2.trans hi2'.symm)
      · intro p
        rw [List.mem_filterMap]
        constructor
        · rintro ⟨i, hi, hp⟩
          rw [hSc, mem_btreeSet, hldef] at hi
          obtain ⟨q', hq', rfl⟩ := List.mem_map.1 hi
          obtain ⟨hq'1, hq'2⟩ := List.mem_filter.1 hq'
          refine ⟨q', hq'1, by simpa using hq'2, ?_⟩
          rw [List.getElem?_idxOf (hmemp q' hq'1)] at hp
          exact Option.some.inj hp
        · rintro ⟨q', hq', hc, rfl⟩
          refine ⟨pts.idxOf q'.point, ?_, List.getElem?_idxOf (hmemp q' hq')⟩
          rw [hSc, mem_btreeSet, hldef]
          exact List.mem_map.2 ⟨q', List.mem_filter.2 ⟨hq', by simpa using hc⟩, rfl⟩
      · -- position of the query's point and its evaluation
        have hiS : pts.idxOf q.point ∈ Sc := by
          rw [hSc, mem_btreeSet, hldef]
          exact List.mem_map.2 ⟨q, List.mem_filter.2 ⟨hq, by simp⟩, rfl⟩
        refine ⟨Sc.idxOf (pts.idxOf q.point), ?_, ?_⟩
        · rw [g2, List.getElem?_idxOf hiS]
          simp only [Option.bind_some]
          exact List.getElem?_idxOf (hmemp q hq)
        · rw [f3]
          simp only [d0, hset]
          have hus_nd : (((qs.filter (fun q' => q'.com = q.com)).map
              (fun q' => (Sc.idxOf (pts.idxOf q'.point), q'.eval))).map (·.1)).Nodup := by
            rw [List.map_map]
            have : ((fun (u : Nat × E) => u.1) ∘ fun (q' : Query C P E) => (Sc.idxOf (pts.idxOf q'.point), q'.eval)) =
                (fun i => Sc.idxOf i) ∘ (fun q' => pts.idxOf q'.point) := rfl
            rw [this, ← List.map_map]
            apply List.Nodup.map_on _ hlnd
            intro x hx y hy hxy
            have hxS : x ∈ Sc := by rw [hSc, mem_btreeSet]; exact hx
            exact (List.idxOf_inj hxS).1 hxy
          have hus_lt : ∀ u ∈ (qs.filter (fun q' => q'.com = q.com)).map
              (fun q' => (Sc.idxOf (pts.idxOf q'.point), q'.eval)), u.1 < (List.replicate l.length dflt).length := by
            intro u hu
            obtain ⟨q', hq', rfl⟩ := List.mem_map.1 hu
            have : pts.idxOf q'.point ∈ Sc := by
              rw [hSc, mem_btreeSet, hldef]
              exact List.mem_map.2 ⟨q', hq', rfl⟩
            have := List.idxOf_lt_length_of_mem this
            rw [List.length_replicate, ← btreeSet_length_of_nodup l hlnd]
            exact this
          have := foldl_set_get _ (List.replicate l.length dflt) hus_nd hus_lt
            (Sc.idxOf (pts.idxOf q.point), q.eval)
            (List.mem_map.2 ⟨q, List.mem_filter.2 ⟨hq, by simp⟩, rfl⟩)
          exact this

/-- The commitments of the result: the distinct commitments in order of first appearance. -/
theorem construct_coms (dflt : E) (qs : List (Query C P E))
    (cm' : List (CommitmentData C E)) (psets : List (List P))
    (h : constructIntermediateSets dflt qs = some (cm', psets)) :
    cm'.map (·.com) = firstOcc (qs.map (·.com)) := by
  unfold constructIntermediateSets at h
  rw [phase1_eq] at h
  cases hadd : addAll (pairsOf qs (ptsF qs [])) [] with
  | none => rw [hadd] at h; simp at h
  | some cm =>
    rw [hadd] at h
    simp only [Option.map_some, Option.some.injEq, Prod.mk.injEq] at h
    obtain ⟨hcm', -⟩ := h
    obtain ⟨-, hinv⟩ := addAll_spec (pairsOf qs (ptsF qs [])) [] [] inv_nil List.nodup_nil
    obtain ⟨hkeys, -⟩ : Inv cm (pairsOf qs (ptsF qs [])) := by simpa using hinv cm hadd
    rw [← hcm', foldl_placeEval, List.map_map, List.map_map]
    have : (fun (e : C × List Nat) => (qs.foldl (updOne (ptsF qs []) cm (phase2 cm))
        ({ com := e.1, setIndex := 0, pointIndices := e.2, evals := List.replicate e.2.length dflt } : CommitmentData C E)).com) =
        (fun e => e.1) := by
      funext e
      exact (foldl_updOne _ _ _ qs _).1
    simp only [Function.comp_def]
    rw [this, hkeys]
    simp [pairsOf, List.map_map, Function.comp_def]

end assembly

section used
variable {C P E : Type} [DecidableEq C] [DecidableEq P]

theorem eq_of_nodup_map_fst {β : Type} (cm : List (C × β)) (h : (cm.map (·.1)).Nodup)
    (e e' : C × β) (he : e ∈ cm) (he' : e' ∈ cm) (h1 : e.1 = e'.1) : e = e' :=
  List.inj_on_of_nodup_map h he he' h1

/-- Every point set of the result is the set of some commitment of the result, and the
commitments of the result are pairwise different. -/
theorem construct_set_used (dflt : E) (qs : List (Query C P E))
    (cm' : List (CommitmentData C E)) (psets : List (List P))
    (h : constructIntermediateSets dflt qs = some (cm', psets)) :
    (cm'.map (·.com)).Nodup ∧ ∀ i, i < psets.length → ∃ d ∈ cm', d.setIndex = i := by
  refine ⟨by rw [construct_coms dflt qs cm' psets h]; exact firstOcc_nodup _, ?_⟩
  intro i hi
  unfold constructIntermediateSets at h
  rw [phase1_eq] at h
  cases hadd : addAll (pairsOf qs (ptsF qs [])) [] with
  | none => rw [hadd] at h; simp at h
  | some cm =>
    rw [hadd] at h
    simp only [Option.map_some, Option.some.injEq, Prod.mk.injEq] at h
    obtain ⟨hcm', hpsets⟩ := h
    obtain ⟨-, hinv⟩ := addAll_spec (pairsOf qs (ptsF qs [])) [] [] inv_nil List.nodup_nil
    obtain ⟨hkeys, hent⟩ : Inv cm (pairsOf qs (ptsF qs [])) := by simpa using hinv cm hadd
    have hi' : i < (phase2 cm).length := by rw [← hpsets] at hi; simpa using hi
    obtain ⟨e, he, hey⟩ := (mem_phase2 cm _).1 (List.getElem_mem hi')
    have hknd : (cm.map (·.1)).Nodup := by rw [hkeys]; exact firstOcc_nodup _
    have hcin : e.1 ∈ (pairsOf qs (ptsF qs [])).map (·.1) := by
      rw [← mem_firstOcc, ← hkeys]; exact List.mem_map_of_mem he
    obtain ⟨pr, hpr, hpc⟩ := List.mem_map.1 hcin
    obtain ⟨q, hq, rfl⟩ := List.mem_map.1 (by simpa [pairsOf] using hpr : pr ∈ qs.map (fun q => (q.com, (ptsF qs []).idxOf q.point)))
    have hentry := hent e.1
    rw [if_pos hcin] at hentry
    have hein := entry_find cm e.1 _ hentry
    have heq : e = (e.1, ((pairsOf qs (ptsF qs [])).filter (fun p => p.1 = e.1)).map (·.2)) :=
      eq_of_nodup_map_fst cm hknd _ _ he hein rfl
    have hset : setOf cm e.1 = btreeSet e.2 := by
      rw [setOf_eq, hentry]; simp only [Option.getD_some]
      have := congrArg Prod.snd heq
      simp only at this
      rw [← this]
    obtain ⟨f1, f2, f3, f4⟩ := foldl_updOne (ptsF qs []) cm (phase2 cm) qs
      ({ com := e.1, setIndex := 0, pointIndices := e.2, evals := List.replicate e.2.length dflt } : CommitmentData C E)
    refine ⟨qs.foldl (updOne (ptsF qs []) cm (phase2 cm))
      ({ com := e.1, setIndex := 0, pointIndices := e.2, evals := List.replicate e.2.length dflt } : CommitmentData C E), ?_, ?_⟩
    · rw [← hcm', foldl_placeEval, List.map_map]
      exact List.mem_map.2 ⟨e, he, rfl⟩
    · rw [f4 ⟨q, hq, by simpa using hpc⟩]
      simp only [hset, hey]
      exact (phase2_nodup cm).idxOf_getElem i hi'

end used

section relabel
variable {C C' P E E' : Type} [DecidableEq C] [DecidableEq C'] [DecidableEq P]

/-- Renaming the commitments and transforming the evaluations of a query. -/
def relabelQuery (f : C → C') (g : E → E') (q : Query C P E) : Query C' P E' :=
  { com := f q.com, point := q.point, eval := g q.eval }

/-- The same on a commitment data. -/
def relabelData (f : C → C') (g : E → E') (d : CommitmentData C E) : CommitmentData C' E' :=
  { com := f d.com, setIndex := d.setIndex, pointIndices := d.pointIndices, evals := d.evals.map g }

def relabelCm (f : C → C') (cm : List (C × List Nat)) : List (C' × List Nat) :=
  cm.map (fun e => (f e.1, e.2))

theorem addPoint_relabel (f : C → C') (hf : Function.Injective f) (c : C) (i : Nat) :
    ∀ (cm : List (C × List Nat)),
    addPoint (relabelCm f cm) (f c) i = (addPoint cm c i).map (relabelCm f) := by
  intro cm
  induction cm with
  | nil => simp [addPoint, relabelCm]
  | cons e es ih =>
    have hiff : (f e.1 = f c) ↔ (e.1 = c) := ⟨fun h => hf h, fun h => by rw [h]⟩
    simp only [relabelCm, List.map_cons, addPoint] at ih ⊢
    by_cases hc : e.1 = c
    · simp only [hc, if_true]
      by_cases hi : i ∈ e.2 <;> simp [hi, relabelCm]
    · have hc' : ¬ (f e.1 = f c) := fun h => hc (hiff.1 h)
      simp only [hc, hc', if_false]
      rw [ih]
      cases addPoint es c i <;> simp [relabelCm]

theorem phase1_relabel (f : C → C') (hf : Function.Injective f) (g : E → E') :
    ∀ (qs : List (Query C P E)) (pts : List P) (cm : List (C × List Nat)),
    phase1 (qs.map (relabelQuery f g)) pts (relabelCm f cm) =
      (phase1 qs pts cm).map (fun r => (r.1, relabelCm f r.2)) := by
  intro qs
  induction qs with
  | nil => intro pts cm; simp [phase1]
  | cons q qs ih =>
    intro pts cm
    simp only [List.map_cons, phase1, relabelQuery]
    rw [addPoint_relabel f hf]
    cases addPoint cm q.com ((insertNew pts q.point).idxOf q.point) with
    | none => simp
    | some cm1 => simp only [Option.map_some]; exact ih _ _

theorem phase2_relabel (f : C → C') (cm : List (C × List Nat)) : phase2 (relabelCm f cm) = phase2 cm := by
  unfold phase2 relabelCm
  rw [List.foldl_map]

theorem entry_relabel (f : C → C') (hf : Function.Injective f) (c : C) :
    ∀ (cm : List (C × List Nat)), entry (relabelCm f cm) (f c) = entry cm c := by
  intro cm
  induction cm with
  | nil => rfl
  | cons e es ih =>
    have hiff : (f e.1 = f c) ↔ (e.1 = c) := ⟨fun h => hf h, fun h => by rw [h]⟩
    have : relabelCm f (e :: es) = (f e.1, e.2) :: relabelCm f es := rfl
    rw [this, entry_cons, entry_cons, ih]
    by_cases hc : e.1 = c
    · simp [hc]
    · have hc' : ¬ (f e.1 = f c) := fun h => hc (hiff.1 h)
      simp [hc, hc']

theorem placeEval_relabel (f : C → C') (hf : Function.Injective f) (g : E → E') (pts : List P)
    (cm : List (C × List Nat)) (sets : List (List Nat)) (st : List (CommitmentData C E)) (q : Query C P E) :
    placeEval pts (relabelCm f cm) sets (st.map (relabelData f g)) (relabelQuery f g q) =
      (placeEval pts cm sets st q).map (relabelData f g) := by
  rw [placeEval_eq, placeEval_eq, List.map_map, List.map_map]
  apply List.map_congr_left
  intro d _
  have hset : setOf (relabelCm f cm) (f q.com) = setOf cm q.com := by
    rw [setOf_eq, setOf_eq, entry_relabel f hf]
  have hiff : (f q.com = f d.com) ↔ (q.com = d.com) := ⟨fun h => hf h, fun h => by rw [h]⟩
  simp only [Function.comp, updOne, relabelData, relabelQuery, hset]
  by_cases hc : q.com = d.com
  · simp [hc, List.map_set]
  · have hc' : ¬ (f q.com = f d.com) := fun h => hc (hiff.1 h)
    simp [hc, hc']

theorem foldl_placeEval_relabel (f : C → C') (hf : Function.Injective f) (g : E → E') (pts : List P)
    (cm : List (C × List Nat)) (sets : List (List Nat)) :
    ∀ (qs : List (Query C P E)) (st : List (CommitmentData C E)),
    (qs.map (relabelQuery f g)).foldl (placeEval pts (relabelCm f cm) sets) (st.map (relabelData f g)) =
      (qs.foldl (placeEval pts cm sets) st).map (relabelData f g) := by
  intro qs
  induction qs with
  | nil => intro st; rfl
  | cons q qs ih =>
    intro st
    rw [List.map_cons, List.foldl_cons, List.foldl_cons, placeEval_relabel f hf g, ih]

/-- The grouping commutes with an injective renaming of the commitments and any transformation
of the evaluations. -/
theorem construct_relabel (f : C → C') (hf : Function.Injective f) (g : E → E') (dflt : E)
    (qs : List (Query C P E)) :
    constructIntermediateSets (g dflt) (qs.map (relabelQuery f g)) =
      (constructIntermediateSets dflt qs).map (fun r => (r.1.map (relabelData f g), r.2)) := by
  unfold constructIntermediateSets
  have h1 := phase1_relabel f hf g qs [] []
  simp only [relabelCm, List.map_nil] at h1
  rw [h1]
  cases phase1 qs [] [] with
  | none => rfl
  | some r =>
    obtain ⟨pts, cm⟩ := r
    simp only [Option.map_some]
    have h2 := phase2_relabel f cm
    have h3 := foldl_placeEval_relabel f hf g pts cm (phase2 cm) qs
      (cm.map (fun e => ({ com := e.1, setIndex := 0, pointIndices := e.2, evals := List.replicate e.2.length dflt } : CommitmentData C E)))
    have hcm : List.map (fun (e : C × List Nat) => (f e.1, e.2)) cm = relabelCm f cm := rfl
    simp only [hcm]
    rw [h2, ← h3]
    congr 3
    simp [relabelCm, relabelData, List.map_map, Function.comp_def]

end relabel

end MidnightZK.C14
