import Mathlib.Data.List.Basic
import Mathlib.Data.List.Nodup
import Mathlib.Tactic.Ring
import MidnightZK.Model.C14.Sets
/-! Helper lemmas for the grouping theorems of C14 (`construct_intermediate_sets`). -/
namespace MidnightZK.C14

section generic
variable {α : Type} [DecidableEq α]

theorem mem_insertNew (l : List α) (x y : α) : y ∈ insertNew l x ↔ y ∈ l ∨ y = x := by
  unfold insertNew
  split
  · next h => constructor
              · exact Or.inl
              · rintro (h' | rfl); exact h'; exact h
  · simp

theorem insertNew_nodup (l : List α) (x : α) (h : l.Nodup) : (insertNew l x).Nodup := by
  unfold insertNew
  split
  · exact h
  · next hx => exact List.Nodup.append h (by simp) (by simpa using hx)

theorem insertNew_prefix (l : List α) (x : α) : ∃ t, insertNew l x = l ++ t := by
  unfold insertNew
  split
  · exact ⟨[], by simp⟩
  · exact ⟨[x], rfl⟩

theorem foldl_insertNew_prefix (xs : List α) : ∀ (l : List α), ∃ t, xs.foldl insertNew l = l ++ t := by
  induction xs with
  | nil => intro l; exact ⟨[], by simp⟩
  | cons x xs ih =>
    intro l
    obtain ⟨t1, h1⟩ := insertNew_prefix l x
    obtain ⟨t2, h2⟩ := ih (insertNew l x)
    exact ⟨t1 ++ t2, by rw [List.foldl_cons, h2, h1, List.append_assoc]⟩

theorem foldl_insertNew_nodup (xs : List α) : ∀ (l : List α), l.Nodup → (xs.foldl insertNew l).Nodup := by
  induction xs with
  | nil => intro l h; exact h
  | cons x xs ih => intro l h; exact ih _ (insertNew_nodup l x h)

theorem mem_foldl_insertNew (xs : List α) : ∀ (l : List α) (y : α),
    y ∈ xs.foldl insertNew l ↔ y ∈ l ∨ y ∈ xs := by
  induction xs with
  | nil => intro l y; simp
  | cons x xs ih =>
    intro l y
    rw [List.foldl_cons, ih, mem_insertNew]
    simp only [List.mem_cons]
    tauto

theorem idxOf_append_of_mem' (l t : List α) (y : α) (h : y ∈ l) : (l ++ t).idxOf y = l.idxOf y :=
  List.idxOf_append_of_mem h

/-- The first-occurrence list (what an insertion-ordered map keeps). -/
def firstOcc (l : List α) : List α := l.foldl insertNew []

theorem firstOcc_append_singleton (l : List α) (x : α) : firstOcc (l ++ [x]) = insertNew (firstOcc l) x := by
  simp [firstOcc, List.foldl_append]

theorem mem_firstOcc (l : List α) (y : α) : y ∈ firstOcc l ↔ y ∈ l := by
  simp [firstOcc, mem_foldl_insertNew]

theorem firstOcc_nodup (l : List α) : (firstOcc l).Nodup := foldl_insertNew_nodup l [] List.nodup_nil

end generic

section btree

theorem mem_insertSorted (x y : Nat) (l : List Nat) : y ∈ insertSorted x l ↔ y = x ∨ y ∈ l := by
  induction l with
  | nil => simp [insertSorted]
  | cons z zs ih =>
    unfold insertSorted
    split
    · simp
    · split
      · next h => subst h; simp
      · simp [ih]; tauto

theorem insertSorted_sorted (x : Nat) (l : List Nat) (h : l.Pairwise (· < ·)) :
    (insertSorted x l).Pairwise (· < ·) := by
  induction l with
  | nil => simp [insertSorted]
  | cons z zs ih =>
    unfold insertSorted
    rw [List.pairwise_cons] at h
    split
    · next hxz =>
      rw [List.pairwise_cons]
      refine ⟨?_, List.pairwise_cons.2 h⟩
      intro a ha
      rcases List.mem_cons.1 ha with rfl | ha
      · exact hxz
      · exact Nat.lt_trans hxz (h.1 a ha)
    · split
      · exact List.pairwise_cons.2 h
      · next h1 h2 =>
        rw [List.pairwise_cons]
        refine ⟨?_, ih h.2⟩
        intro a ha
        rcases (mem_insertSorted x a zs).1 ha with rfl | ha
        · omega
        · exact h.1 a ha

theorem mem_btreeSet (l : List Nat) (y : Nat) : y ∈ btreeSet l ↔ y ∈ l := by
  induction l with
  | nil => simp [btreeSet]
  | cons x xs ih =>
    have : btreeSet (x :: xs) = insertSorted x (btreeSet xs) := rfl
    rw [this, mem_insertSorted, ih]; simp

theorem btreeSet_sorted (l : List Nat) : (btreeSet l).Pairwise (· < ·) := by
  induction l with
  | nil => simp [btreeSet]
  | cons x xs ih => exact insertSorted_sorted x _ ih

theorem btreeSet_nodup (l : List Nat) : (btreeSet l).Nodup :=
  (btreeSet_sorted l).imp (fun h => Nat.ne_of_lt h)

theorem insertSorted_length_of_not_mem (x : Nat) (l : List Nat) (h : x ∉ l) :
    (insertSorted x l).length = l.length + 1 := by
  induction l with
  | nil => simp [insertSorted]
  | cons z zs ih =>
    unfold insertSorted
    have hz : x ≠ z := fun e => h (e ▸ List.mem_cons_self ..)
    have hzs : x ∉ zs := fun e => h (List.mem_cons_of_mem _ e)
    split
    · simp
    · simp [ih hzs]

theorem btreeSet_length_of_nodup (l : List Nat) (h : l.Nodup) : (btreeSet l).length = l.length := by
  induction l with
  | nil => simp [btreeSet]
  | cons x xs ih =>
    rw [List.nodup_cons] at h
    have : btreeSet (x :: xs) = insertSorted x (btreeSet xs) := rfl
    rw [this, insertSorted_length_of_not_mem _ _ (by rw [mem_btreeSet]; exact h.1), ih h.2]; simp

end btree

section phase1
variable {C P E : Type} [DecidableEq C] [DecidableEq P]

/-- The point indices recorded for commitment `c` (first entry with this commitment). -/
def entry (cm : List (C × List Nat)) (c : C) : Option (List Nat) :=
  (cm.find? (fun e => e.1 = c)).map (·.2)

@[simp] theorem entry_nil (c : C) : entry ([] : List (C × List Nat)) c = none := rfl

theorem entry_cons (e : C × List Nat) (es : List (C × List Nat)) (c : C) :
    entry (e :: es) c = if e.1 = c then some e.2 else entry es c := by
  unfold entry
  rw [List.find?_cons]
  by_cases h : e.1 = c <;> simp [h]

theorem entry_eq_none_iff (cm : List (C × List Nat)) (c : C) : entry cm c = none ↔ c ∉ cm.map (·.1) := by
  induction cm with
  | nil => simp
  | cons e es ih =>
    rw [entry_cons]
    by_cases h : e.1 = c
    · simp [h]
    · simp only [h, if_false, ih, List.map_cons, List.mem_cons]
      constructor
      · intro h1 h2; rcases h2 with h2 | h2; exact h h2.symm; exact h1 h2
      · intro h1 h2; exact h1 (Or.inr h2)

theorem addPoint_none_iff (cm : List (C × List Nat)) (c : C) (i : Nat) :
    addPoint cm c i = none ↔ ∃ l, entry cm c = some l ∧ i ∈ l := by
  induction cm with
  | nil => simp [addPoint]
  | cons e es ih =>
    rw [addPoint, entry_cons]
    by_cases h : e.1 = c
    · simp only [h, if_true]
      by_cases hi : i ∈ e.2
      · simp [hi]
      · simp [hi]
    · simp only [h, if_false, Option.map_eq_none_iff, ih]

theorem addPoint_some (cm cm' : List (C × List Nat)) (c : C) (i : Nat) (h : addPoint cm c i = some cm') :
    cm'.map (·.1) = insertNew (cm.map (·.1)) c ∧
    entry cm' c = some ((entry cm c).getD [] ++ [i]) ∧
    ∀ c', c' ≠ c → entry cm' c' = entry cm c' := by
  induction cm generalizing cm' with
  | nil =>
    simp only [addPoint, Option.some.injEq] at h
    subst h
    refine ⟨by simp [insertNew], by simp [entry_cons], ?_⟩
    intro c' hc'
    rw [entry_cons]; simp [Ne.symm hc']
  | cons e es ih =>
    rw [addPoint] at h
    by_cases hc : e.1 = c
    · simp only [hc, if_true] at h
      by_cases hi : i ∈ e.2
      · simp [hi] at h
      · simp only [hi, if_false, Option.some.injEq] at h
        subst h
        refine ⟨?_, ?_, ?_⟩
        · simp [insertNew, hc]
        · simp [entry_cons, hc]
        · intro c' hc'
          rw [entry_cons, entry_cons]
          simp [hc, Ne.symm hc']
    · simp only [hc, if_false] at h
      obtain ⟨cm2, h2, rfl⟩ := Option.map_eq_some_iff.1 h
      obtain ⟨k1, k2, k3⟩ := ih cm2 h2
      refine ⟨?_, ?_, ?_⟩
      · simp only [List.map_cons, k1, insertNew]
        have : (c ∈ e.1 :: es.map (·.1)) ↔ c ∈ es.map (·.1) := by
          simp only [List.mem_cons]
          constructor
          · rintro (h' | h'); exact absurd h'.symm hc; exact h'
          · exact Or.inr
        by_cases hm : c ∈ es.map (·.1)
        · simp [hm]
        · have hm' : ¬ (c ∈ e.1 :: es.map (·.1)) := fun h' => hm (this.1 h')
          rw [if_neg hm, if_neg hm']; simp
      · rw [entry_cons, entry_cons]; simp [hc, k2]
      · intro c' hc'
        rw [entry_cons, entry_cons, k3 c' hc']

/-- Folding `addPoint` over `(commitment, point index)` pairs. -/
def addAll : List (C × Nat) → List (C × List Nat) → Option (List (C × List Nat))
  | [], cm => some cm
  | (c, i) :: r, cm =>
    match addPoint cm c i with
    | none => none
    | some cm' => addAll r cm'

/-- Invariant of the first loop: the commitment map lists the commitments seen so far in order of
first appearance, each with its point indices in query order. -/
def Inv (cm : List (C × List Nat)) (seen : List (C × Nat)) : Prop :=
  cm.map (·.1) = firstOcc (seen.map (·.1)) ∧
  ∀ c, entry cm c = if c ∈ seen.map (·.1) then some ((seen.filter (fun p => p.1 = c)).map (·.2)) else none

theorem inv_nil : Inv ([] : List (C × List Nat)) [] := by
  refine ⟨rfl, ?_⟩
  intro c; simp

theorem inv_step (cm : List (C × List Nat)) (seen : List (C × Nat)) (c : C) (i : Nat) (h : Inv cm seen) :
    (addPoint cm c i = none ↔ (c, i) ∈ seen) ∧
    ∀ cm', addPoint cm c i = some cm' → Inv cm' (seen ++ [(c, i)]) := by
  obtain ⟨hk, he⟩ := h
  constructor
  · rw [addPoint_none_iff]
    constructor
    · rintro ⟨l, hl, hi⟩
      rw [he c] at hl
      split at hl
      · simp only [Option.some.injEq] at hl
        subst hl
        obtain ⟨p, hp, rfl⟩ := List.mem_map.1 hi
        have := List.mem_filter.1 hp
        have h1 : p.1 = c := by simpa using this.2
        rw [← h1]; exact this.1
      · cases hl
    · intro hm
      refine ⟨(seen.filter (fun p => p.1 = c)).map (·.2), ?_, ?_⟩
      · rw [he c, if_pos (List.mem_map.2 ⟨(c, i), hm, rfl⟩)]
      · exact List.mem_map.2 ⟨(c, i), List.mem_filter.2 ⟨hm, by simp⟩, rfl⟩
  · intro cm' hcm'
    obtain ⟨k1, k2, k3⟩ := addPoint_some cm cm' c i hcm'
    refine ⟨?_, ?_⟩
    · rw [k1, hk, List.map_append, List.map_cons, List.map_nil, firstOcc_append_singleton]
    · intro c'
      by_cases hc' : c' = c
      · subst hc'
        rw [k2, he c']
        simp only [List.map_append, List.map_cons, List.map_nil, List.mem_append, List.mem_singleton, or_true,
          if_true, List.filter_append, Option.some.injEq]
        split <;> simp
      · rw [k3 c' hc', he c']
        have : (c' ∈ (seen ++ [(c, i)]).map (·.1)) ↔ c' ∈ seen.map (·.1) := by
          simp only [List.map_append, List.map_cons, List.map_nil, List.mem_append, List.mem_singleton]
          constructor
          · rintro (h' | h'); exact h'; exact absurd h' hc'
          · exact Or.inl
        by_cases hm : c' ∈ seen.map (·.1)
        · rw [if_pos hm, if_pos (this.2 hm)]
          simp [List.filter_append, Ne.symm hc']
        · rw [if_neg hm, if_neg (fun h' => hm (this.1 h'))]

theorem addAll_spec : ∀ (pairs : List (C × Nat)) (cm : List (C × List Nat)) (seen : List (C × Nat)),
    Inv cm seen → seen.Nodup →
    (addAll pairs cm = none ↔ ¬ (seen ++ pairs).Nodup) ∧
    ∀ cm', addAll pairs cm = some cm' → Inv cm' (seen ++ pairs) := by
  intro pairs
  induction pairs with
  | nil =>
    intro cm seen hinv hnd
    simp only [addAll, List.append_nil]
    exact ⟨by simp [hnd], by intro cm' h; cases h; exact hinv⟩
  | cons p pairs ih =>
    intro cm seen hinv hnd
    obtain ⟨c, i⟩ := p
    obtain ⟨h1, h2⟩ := inv_step cm seen c i hinv
    have hsplit : seen ++ (c, i) :: pairs = (seen ++ [(c, i)]) ++ pairs := by simp
    cases hap : addPoint cm c i with
    | none =>
      have hm := h1.1 hap
      simp only [addAll, hap]
      refine ⟨by
        simp only [true_iff]
        intro hnd'
        rw [List.nodup_append] at hnd'
        exact hnd'.2.2 _ hm _ (List.mem_cons_self ..) rfl, by intro cm' h; cases h⟩
    | some cm1 =>
      have hnm : (c, i) ∉ seen := fun hm => by rw [h1.2 hm] at hap; cases hap
      have hnd1 : (seen ++ [(c, i)]).Nodup := by
        rw [List.nodup_append]
        exact ⟨hnd, by simp, by
          intro a ha b hb; simp at hb; subst hb; exact fun e => hnm (e ▸ ha)⟩
      obtain ⟨g1, g2⟩ := ih cm1 (seen ++ [(c, i)]) (h2 cm1 hap) hnd1
      simp only [addAll, hap]
      rw [hsplit]
      exact ⟨g1, g2⟩

end phase1

end MidnightZK.C14
