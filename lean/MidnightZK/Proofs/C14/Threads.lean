import MidnightZK.Proofs.C14.Poly
/-! `eval_polynomial` does not depend on the size of the rayon pool (C14: completeness of the
multi-opening for every thread count). -/
namespace MidnightZK.C14

open Polynomial

section
variable {F : Type} [Field F] [DecidableEq F]
set_option linter.unusedSectionVars false

theorem powNat_eq_pow (x : F) (n : Nat) : powNat x n = x ^ n := by
  induction n with
  | zero => simp [powNat]
  | succ n ih => simp [powNat, ih, pow_succ]

theorem evalPoly_append (a b : List F) (x : F) :
    evalPoly (a ++ b) x = evalPoly a x + x ^ a.length * evalPoly b x := by
  induction a with
  | nil => simp
  | cons c a ih => simp [ih, pow_succ]; ring

theorem foldl_add_eq (l : List F) (a : F) : l.foldl (fun acc c => acc + c) a = a + l.sum := by
  induction l generalizing a with
  | nil => simp
  | cons c l ih => simp [ih]; ring

/-- The weighted sum of the chunks (chunk `i` shifted by `x^((i₀+i)·cs)`) is the shifted Horner value. -/
theorem chunks_sum (cs : Nat) (hcs : 0 < cs) (x : F) : ∀ (fuel : Nat) (l : List F) (i0 : Nat),
    l.length ≤ fuel →
    (((chunksOf cs fuel l).zipIdx i0).map (fun ci => evalPoly ci.1 x * x ^ (ci.2 * cs))).sum =
      x ^ (i0 * cs) * evalPoly l x := by
  intro fuel
  induction fuel with
  | zero =>
    intro l i0 h
    have : l = [] := List.length_eq_zero_iff.1 (Nat.le_zero.1 h)
    subst this; simp [chunksOf]
  | succ fuel ih =>
    intro l i0 h
    unfold chunksOf
    by_cases hl : l.isEmpty
    · have : l = [] := List.isEmpty_iff.1 hl
      subst this; simp
    · rw [if_neg hl]
      have hne : l ≠ [] := fun e => hl (List.isEmpty_iff.2 e)
      have hpos : 0 < l.length := List.length_pos_iff.2 hne
      simp only [List.zipIdx_cons, List.map_cons, List.sum_cons]
      rw [ih (l.drop cs) (i0 + 1) (by rw [List.length_drop]; omega)]
      conv_rhs => rw [← List.take_append_drop cs l, evalPoly_append]
      rw [List.length_take]
      by_cases hle : cs ≤ l.length
      · rw [Nat.min_eq_left hle, Nat.add_mul, one_mul, pow_add]; ring
      · have hd : l.drop cs = [] := List.drop_eq_nil_of_le (by omega)
        rw [hd]; simp; ring

theorem chunksOf_length (cs : Nat) (hcs : 0 < cs) : ∀ (fuel : Nat) (l : List F), l.length ≤ fuel →
    (chunksOf cs fuel l).length = (l.length + cs - 1) / cs := by
  intro fuel
  induction fuel with
  | zero =>
    intro l h
    have : l = [] := List.length_eq_zero_iff.1 (Nat.le_zero.1 h)
    subst this
    simp only [chunksOf, List.length_nil, Nat.zero_add]
    exact (Nat.div_eq_of_lt (by omega)).symm
  | succ fuel ih =>
    intro l h
    unfold chunksOf
    by_cases hl : l.isEmpty
    · have : l = [] := List.isEmpty_iff.1 hl
      subst this
      simp only [List.isEmpty_nil, if_true, List.length_nil, Nat.zero_add]
      exact (Nat.div_eq_of_lt (by omega)).symm
    · rw [if_neg hl]
      have hne : l ≠ [] := fun e => hl (List.isEmpty_iff.2 e)
      have hpos : 0 < l.length := List.length_pos_iff.2 hne
      rw [List.length_cons, ih (l.drop cs) (by rw [List.length_drop]; omega), List.length_drop]
      by_cases hle : cs ≤ l.length
      · have : l.length + cs - 1 = (l.length - cs + cs - 1) + cs := by omega
        rw [this, Nat.add_div_right _ hcs]
      · have h1 : l.length - cs = 0 := by omega
        rw [h1, Nat.zero_add, Nat.div_eq_of_lt (by omega)]
        have : (l.length + cs - 1) / cs = 1 := by
          apply Nat.div_eq_of_lt_le <;> omega
        rw [this]

/-- `⌈n/⌈n/t⌉⌉ ≤ t`: cutting into chunks of `⌈n/t⌉` never gives more than `t` chunks. -/
theorem ceil_chunks_le (n t : Nat) (ht : 0 < t) (hn : 0 < n) :
    (n + (n + t - 1) / t - 1) / ((n + t - 1) / t) ≤ t := by
  have hcs : 0 < (n + t - 1) / t := Nat.div_pos (by omega) ht
  have hmul : n ≤ t * ((n + t - 1) / t) := by
    have := Nat.lt_mul_div_succ (n + t - 1) ht
    rw [Nat.mul_succ] at this
    omega
  generalize (n + t - 1) / t = cs at hcs hmul ⊢
  apply Nat.le_of_lt_succ
  rw [Nat.div_lt_iff_lt_mul hcs, Nat.succ_mul]
  omega

/-- **`eval_polynomial` is independent of the thread count**: for every pool size `t ≥ 1`, every
coefficient vector and every point, the chunked evaluation equals Horner's. -/
theorem evalPolyThreads_eq (t : Nat) (ht : 0 < t) (p : List F) (x : F) :
    evalPolyThreads t p x = evalPoly p x := by
  unfold evalPolyThreads
  simp only
  split
  · rfl
  · rename_i hser
    have hn : 0 < p.length := by omega
    have hcs : 0 < (p.length + t - 1) / t := Nat.div_pos (by omega) ht
    have htake : (chunksOf ((p.length + t - 1) / t) p.length p).take t =
        chunksOf ((p.length + t - 1) / t) p.length p := by
      apply List.take_of_length_le
      rw [chunksOf_length _ hcs _ _ (le_refl _)]
      exact ceil_chunks_le p.length t ht hn
    rw [htake, foldl_add_eq, zero_add]
    have := chunks_sum ((p.length + t - 1) / t) hcs x p.length p 0 (le_refl _)
    simp only [Nat.zero_mul, pow_zero, one_mul] at this
    rw [← this]
    simp only [powNat_eq_pow]

end
end MidnightZK.C14
