import MidnightZK.Proofs.C14.Sound
import MidnightZK.Proofs.C14.Lagrange
/-! Composition of the four soundness steps of the multi-opening (C14) into one statement with
explicit, nested sets of exceptional challenges. Commitments are polynomials (algebraic group
model: whoever outputs `f_com` and `π` knows polynomials `f`, `w` behind them); the final pairing
check is the polynomial identity `(X − x₃)·w = P − v` (binding, i.e. q-SDH, is what lifts the
check at the secret `s` to this identity — assumed, named in `checks/c14.py`). -/
namespace MidnightZK.C14

open Polynomial

section
variable {F : Type} [Field F] [DecidableEq F]
set_option linter.unusedSectionVars false

/-- The polynomial behind the verifier's `final_com = Σ_{i<m} x₄ⁱ·q_comᵢ + x₄ᵐ·f_com` when `qᵢ` are
the polynomials behind the `x₁`-folded commitments and `f` is the polynomial behind `f_com`. -/
noncomputable def finalPolyOf (x4 : F) (f : F[X]) : List (List F) → F[X]
  | [] => f
  | q :: qs => toPoly q + C x4 * finalPolyOf x4 f qs

theorem finalPolyOf_eval (x4 x3 : F) (f : F[X]) (qs : List (List F)) :
    (finalPolyOf x4 f qs).eval x3 = evalPoly (qs.map (fun q => evalPoly q x3) ++ [f.eval x3]) x4 := by
  induction qs with
  | nil => simp [finalPolyOf]
  | cons q qs ih => simp [finalPolyOf, ih, toPoly_eval]

/-- The verifier's `f_eval` (closed form of the fold, `f_eval_is_horner_fold`) computed from the
`q` evaluations `qe` found in the proof; a set is `(Sᵢ, qᵢ, rᵢ)`. -/
def fEvalOf (x2 x3 : F) (gs : List (List F × List F × List F)) (qe : List F) : F :=
  evalPoly ((gs.zip qe).map (fun ge => (ge.2 - evalPoly ge.1.2.2 x3) *
    (ge.1.1.foldl (fun a p => a * (x3 - p)) 1)⁻¹)) x2

/-- The verifier's `v = Σ_{i<m} x₄ⁱ·qeᵢ + x₄ᵐ·f_eval` (`inner_product(&evals, powers(x4))`). -/
def vOf (x2 x3 x4 : F) (gs : List (List F × List F × List F)) (qe : List F) : F :=
  evalPoly (qe ++ [fEvalOf x2 x3 gs qe]) x4

theorem zip_map_self {α β : Type} (l : List α) (g : α → β) :
    l.zip (l.map g) = l.map (fun a => (a, g a)) := by
  induction l with
  | nil => rfl
  | cons a l ih => simp [ih]

/-- Steps `x₂`, `x₃`, `x₄` composed: after the `x₁`-fold some interpolant `rᵢ` differs from `qᵢ`
on its point set. -/
theorem sound_x2_x3_x4 (U : List F) (hU : U.Nodup) (nMax : Nat)
    (gs : List (List F × List F × List F))
    (hsub : ∀ g ∈ gs, ∀ p ∈ g.1, p ∈ U) (hnd : ∀ g ∈ gs, g.1.Nodup)
    (hq : ∀ g ∈ gs, g.2.1.length ≤ nMax) (hr : ∀ g ∈ gs, g.2.2.length ≤ nMax)
    (hwrong : ∃ g ∈ gs, ∃ z ∈ g.1, evalPoly g.2.2 z ≠ evalPoly g.2.1 z) :
    ∃ bad2 : Finset F, bad2.card ≤ gs.length - 1 ∧ ∀ x2, x2 ∉ bad2 →
      ∀ f : F[X], f.natDegree ≤ nMax - 1 →
      ∃ bad3 : Finset F, bad3.card ≤ nMax - 1 + U.length ∧ ∀ x3, x3 ∉ bad3 → x3 ∉ U →
        ∀ qe : List F, qe.length = gs.length →
        ∃ bad4 : Finset F, bad4.card ≤ gs.length ∧ ∀ x4, x4 ∉ bad4 →
          ¬ ∃ w : F[X], (X - C x3) * w =
            finalPolyOf x4 f (gs.map (fun g => g.2.1)) - C (vOf x2 x3 x4 gs qe) := by
  obtain ⟨bad2, h2c, h2⟩ := x2_fold_not_polynomial_count_aux U gs hsub hwrong
  refine ⟨bad2, h2c, fun x2 hx2 f hf => ?_⟩
  have hne : f * vanishing U ≠ fNumerator U x2 gs := fun h => h2 x2 hx2 ⟨f, h⟩
  obtain ⟨bad3, h3c, h3⟩ := x3_identity_sound_count_aux U hU x2 gs hsub hnd f hne
  refine ⟨bad3, le_trans h3c (x3_degree_bound U x2 nMax gs hq hr f hf), fun x3 hx3 hxU qe hqe => ?_⟩
  have hlen : (qe ++ [fEvalOf x2 x3 gs qe]).length =
      (gs.map (fun g => evalPoly g.2.1 x3) ++ [f.eval x3]).length := by simp [hqe]
  have hne' : qe ++ [fEvalOf x2 x3 gs qe] ≠ gs.map (fun g => evalPoly g.2.1 x3) ++ [f.eval x3] := by
    intro heq
    obtain ⟨h1, h2'⟩ := List.append_inj heq (by simp [hqe])
    have hfe : fEvalOf x2 x3 gs qe = f.eval x3 := by simpa using h2'
    apply h3 x3 hx3 hxU
    rw [← hfe, fEvalOf, h1, zip_map_self, List.map_map]
    rfl
  obtain ⟨bad4, h4c, h4⟩ := x4_fold_sound_count_aux _ _ hlen hne'
  refine ⟨bad4, by simpa [hqe] using h4c, ?_⟩
  rintro x4 hx4 ⟨w, hw⟩
  apply h4 x4 hx4
  have h := congrArg (Polynomial.eval x3) hw
  simp only [eval_mul, eval_sub, eval_X, eval_C, sub_self, zero_mul, finalPolyOf_eval, List.map_map] at h
  have h' := (sub_eq_zero.1 h.symm).symm
  simpa [vOf, Function.comp_def] using h'

/-- **All four steps composed.** The set `S` holds polynomials `pⱼ` with claimed evaluation vectors
`eⱼ`, one of them wrong; `gsOf x₁` is the verifier's folded data for the challenge `x₁`
(`(Sᵢ, qᵢ, rᵢ)` per point set), tied to the set `S` by `hfold`: the entry of `S` consists of the
`inner_product` of the polynomials, and an interpolant of the `evals_inner_product` of the claims
(what `lagrange_interpolate` returns, `lagrange_interpolate_spec`). -/
theorem multiopen_sound_algebraic_aux (U : List F) (hU : U.Nodup) (nMax : Nat)
    (S : List F) (pe : List (List F × List F))
    (hpl : ∀ p ∈ pe, p.1.length = nMax) (hel : ∀ p ∈ pe, p.2.length = S.length)
    (t : Nat) (ht : t < S.length)
    (hwrong : ∃ p ∈ pe, p.2.getD t 0 ≠ evalPoly p.1 (S.getD t 0))
    (nb : Nat) (hnb : pe.length ≤ nb) (m : Nat)
    (gsOf : F → List (List F × List F × List F)) (hm : ∀ x1, (gsOf x1).length = m)
    (hsub : ∀ x1, ∀ g ∈ gsOf x1, ∀ p ∈ g.1, p ∈ U) (hnd : ∀ x1, ∀ g ∈ gsOf x1, g.1.Nodup)
    (hq : ∀ x1, ∀ g ∈ gsOf x1, g.2.1.length ≤ nMax) (hr : ∀ x1, ∀ g ∈ gsOf x1, g.2.2.length ≤ nMax)
    (hfold : ∀ x1 q es, innerProduct (pe.map (·.1)) x1 = some q →
      evalsInnerProduct (pe.map (·.2)) (powersN x1 nb 1) = some es → es.length = S.length →
      ∃ r, (S, q, r) ∈ gsOf x1 ∧ ∀ i, i < S.length → evalPoly r (S.getD i 0) = es.getD i 0) :
    ∃ bad1 : Finset F, bad1.card ≤ pe.length - 1 ∧ ∀ x1, x1 ∉ bad1 →
      ∃ bad2 : Finset F, bad2.card ≤ m - 1 ∧ ∀ x2, x2 ∉ bad2 →
        ∀ f : F[X], f.natDegree ≤ nMax - 1 →
        ∃ bad3 : Finset F, bad3.card ≤ nMax - 1 + U.length ∧ ∀ x3, x3 ∉ bad3 → x3 ∉ U →
          ∀ qe : List F, qe.length = m →
          ∃ bad4 : Finset F, bad4.card ≤ m ∧ ∀ x4, x4 ∉ bad4 →
            ¬ ∃ w : F[X], (X - C x3) * w =
              finalPolyOf x4 f ((gsOf x1).map (fun g => g.2.1)) - C (vOf x2 x3 x4 (gsOf x1) qe) := by
  obtain ⟨bad1, h1c, h1⟩ := x1_fold_sound_count_aux S pe nMax hpl hel t ht hwrong
  refine ⟨bad1, h1c, fun x1 hx1 => ?_⟩
  obtain ⟨q, es, hq1, hes, hesl, hdiff⟩ := h1 x1 hx1 nb hnb
  obtain ⟨r, hmem, hrint⟩ := hfold x1 q es hq1 hes hesl
  have hz : S.getD t 0 ∈ S := by
    rw [List.getD_eq_getElem?_getD, List.getElem?_eq_getElem ht]
    exact List.getElem_mem ht
  have hw : ∃ g ∈ gsOf x1, ∃ z ∈ g.1, evalPoly g.2.2 z ≠ evalPoly g.2.1 z :=
    ⟨(S, q, r), hmem, S.getD t 0, hz, by rw [hrint t ht]; exact hdiff⟩
  have := sound_x2_x3_x4 U hU nMax (gsOf x1) (hsub x1) (hnd x1) (hq x1) (hr x1) hw
  simpa only [hm x1] using this

/-- A point set of the verifier with its commitments: the points `S` and, for every commitment
opened at exactly these points, the polynomial behind it and the claimed evaluations. -/
abbrev ClaimSet (F : Type) := List F × List (List F × List F)

/-- The verifier's folded data of one set for the challenge `x₁`, with the model's functions:
`(S, inner_product(polys, powers(x₁)), lagrange_interpolate(S, evals_inner_product(claims, powers_x1)))`
(the first component is the polynomial behind the folded commitment `q_com`). -/
def foldedSet (x1 : F) (nb : Nat) (s : ClaimSet F) : List F × List F × List F :=
  (s.1, (innerProduct (s.2.map (·.1)) x1).getD [],
    (lagrangeInterpolate (fun (a : F) => a⁻¹) s.1
      ((evalsInnerProduct (s.2.map (·.2)) (powersN x1 nb 1)).getD [])).getD [])

/-- Well-formed sets: distinct points, at least one and at most `nMax`; at least one commitment;
polynomials of `nMax` coefficients; one claimed evaluation per point. -/
structure ClaimSetOk (nMax nb : Nat) (U : List F) (s : ClaimSet F) : Prop where
  nodup : s.1.Nodup
  pts_ne : s.1 ≠ []
  pts_le : s.1.length ≤ nMax
  sub : ∀ p ∈ s.1, p ∈ U
  ne : s.2 ≠ []
  nb_le : s.2.length ≤ nb
  plen : ∀ p ∈ s.2, p.1.length = nMax
  elen : ∀ p ∈ s.2, p.2.length = s.1.length

theorem foldedSet_facts (nMax nb : Nat) (U : List F) (x1 : F) (s : ClaimSet F)
    (h : ClaimSetOk nMax nb U s) :
    ∃ q es r, innerProduct (s.2.map (·.1)) x1 = some q ∧
      evalsInnerProduct (s.2.map (·.2)) (powersN x1 nb 1) = some es ∧
      lagrangeInterpolate (fun (a : F) => a⁻¹) s.1 es = some r ∧
      foldedSet x1 nb s = (s.1, q, r) ∧ q.length = nMax ∧ es.length = s.1.length ∧
      r.length = s.1.length ∧ ∀ i, i < s.1.length → evalPoly r (s.1.getD i 0) = es.getD i 0 := by
  obtain ⟨S, pe⟩ := s
  obtain ⟨p0, prest, rfl⟩ := List.exists_cons_of_ne_nil h.ne
  have hp0 : p0.1.length = nMax := h.plen p0 (List.mem_cons_self ..)
  obtain ⟨q, hq, hql, -⟩ := innerProduct_spec x1 p0.1 (prest.map (·.1)) (by
    intro q hq
    obtain ⟨p, hp, rfl⟩ := List.mem_map.1 hq
    rw [hp0, h.plen p (List.mem_cons_of_mem _ hp)])
  have hes := evalsInnerProduct_general x1 S.length ((p0 :: prest).map (·.2)) (by simp)
    (by
      intro e he
      obtain ⟨p, hp, rfl⟩ := List.mem_map.1 he
      exact h.elen p hp) nb (by simpa using h.nb_le)
  obtain ⟨es, hesdef⟩ : ∃ es, es = (List.range S.length).map
      (fun t => evalPoly (((p0 :: prest).map (·.2)).map (fun e => e.getD t 0)) x1) := ⟨_, rfl⟩
  rw [← hesdef] at hes
  have hesl : es.length = S.length := by rw [hesdef]; simp
  obtain ⟨r, hr, hrl, hri⟩ := lagrangeSpec_inv S es h.nodup hesl.symm h.pts_ne
  refine ⟨q, es, r, by simpa using hq, hes, hr, ?_, by rw [hql, hp0], hesl, hrl, ?_⟩
  · simp only [foldedSet]
    rw [hes]
    simp only [List.map_cons] at hq ⊢
    rw [hq]
    simp only [Option.getD_some]
    rw [hr]
    rfl
  · intro i hi
    have hi2 : i < es.length := by rw [hesl]; exact hi
    have := hri i hi hi2
    simp only [List.getD_eq_getElem?_getD, List.getElem?_eq_getElem hi, List.getElem?_eq_getElem hi2,
      Option.getD_some]
    exact this

/-- The composition for the model's own fold of every set (`foldedSet`). -/
theorem multiopen_sound_algebraic_model (U : List F) (hU : U.Nodup) (nMax nb : Nat)
    (sets : List (ClaimSet F)) (hok : ∀ s ∈ sets, ClaimSetOk nMax nb U s)
    (hwrong : ∃ s ∈ sets, ∃ t, t < s.1.length ∧ ∃ p ∈ s.2, p.2.getD t 0 ≠ evalPoly p.1 (s.1.getD t 0)) :
    ∃ npolys, npolys ≤ nb ∧ ∃ bad1 : Finset F, bad1.card ≤ npolys - 1 ∧ ∀ x1, x1 ∉ bad1 →
      ∃ bad2 : Finset F, bad2.card ≤ sets.length - 1 ∧ ∀ x2, x2 ∉ bad2 →
        ∀ f : F[X], f.natDegree ≤ nMax - 1 →
        ∃ bad3 : Finset F, bad3.card ≤ nMax - 1 + U.length ∧ ∀ x3, x3 ∉ bad3 → x3 ∉ U →
          ∀ qe : List F, qe.length = sets.length →
          ∃ bad4 : Finset F, bad4.card ≤ sets.length ∧ ∀ x4, x4 ∉ bad4 →
            ¬ ∃ w : F[X], (X - C x3) * w =
              finalPolyOf x4 f ((sets.map (foldedSet x1 nb)).map (fun g => g.2.1)) -
                C (vOf x2 x3 x4 (sets.map (foldedSet x1 nb)) qe) := by
  obtain ⟨s, hs, t, ht, hw⟩ := hwrong
  have hsok := hok s hs
  refine ⟨s.2.length, hsok.nb_le, ?_⟩
  have facts : ∀ x1, ∀ g ∈ sets.map (foldedSet x1 nb), ∃ s' ∈ sets, ∃ q r, g = (s'.1, q, r) ∧
      q.length = nMax ∧ r.length = s'.1.length := by
    intro x1 g hg
    obtain ⟨s', hs', rfl⟩ := List.mem_map.1 hg
    obtain ⟨q, es, r, -, -, -, hfs, hql, -, hrl, -⟩ := foldedSet_facts nMax nb U x1 s' (hok s' hs')
    exact ⟨s', hs', q, r, hfs, hql, hrl⟩
  exact multiopen_sound_algebraic_aux U hU nMax s.1 s.2 hsok.plen hsok.elen t ht hw nb hsok.nb_le
    sets.length (fun x1 => sets.map (foldedSet x1 nb)) (fun _ => by simp)
    (fun x1 g hg => by
      obtain ⟨s', hs', q, r, rfl, -, -⟩ := facts x1 g hg
      exact (hok s' hs').sub)
    (fun x1 g hg => by
      obtain ⟨s', hs', q, r, rfl, -, -⟩ := facts x1 g hg
      exact (hok s' hs').nodup)
    (fun x1 g hg => by
      obtain ⟨s', hs', q, r, rfl, hql, -⟩ := facts x1 g hg
      exact le_of_eq hql)
    (fun x1 g hg => by
      obtain ⟨s', hs', q, r, rfl, -, hrl⟩ := facts x1 g hg
      simp only
      rw [hrl]; exact (hok s' hs').pts_le)
    (fun x1 q es hq hes hesl => by
      obtain ⟨q', es', r, hq', hes', -, hfs, -, -, -, hri⟩ := foldedSet_facts nMax nb U x1 s hsok
      have e1 : q' = q := by rw [hq'] at hq; exact Option.some.inj hq
      have e2 : es' = es := by rw [hes'] at hes; exact Option.some.inj hes
      subst e1 e2
      exact ⟨r, List.mem_map.2 ⟨s, hs, hfs⟩, hri⟩)

/-- The verifier's `final_com` is a commitment to `finalPolyOf`: when the folded commitments
`q_comᵢ` have logarithm `qᵢ(s)` and `f_com` has logarithm `f(s)`, the MSM
`msm_inner_product(q_coms ++ [f_com], powers(x₄))` of `multi_prepare` has logarithm `P(s)`. -/
theorem finalCom_log (dlog : Base → F) (s x4 : F) (f : F[X]) (qComs : List (List (F × Base)))
    (qs : List (List F)) (hq : qComs.map (msmLog dlog) = qs.map (fun q => evalPoly q s))
    (hf : dlog .f = f.eval s) :
    msmLog dlog (msmInnerProduct (qComs ++ [[((1 : F), Base.f)]]) (powersN x4 (qComs.length + 1) 1)) =
      (finalPolyOf x4 f qs).eval s := by
  rw [msmInnerProduct_spec dlog x4 _ _ 1 (by simp), one_mul, finalPolyOf_eval, List.map_append, hq]
  simp [msmLog, hf]

/-- The deferred pairing check of `multi_prepare`, `e(π,[s]₂) = e(final_com − v·G + x₃·π,[1]₂)`,
is the final identity `(X − x₃)·w = P − v` evaluated at the setup secret `s` (with `w`, `f`, `qᵢ`
the polynomials behind `π`, `f_com`, `q_comᵢ`). -/
theorem check_is_identity_at_s (dlog : Base → F) (s x3 x4 v : F) (f w : F[X])
    (qComs : List (List (F × Base))) (qs : List (List F))
    (hq : qComs.map (msmLog dlog) = qs.map (fun q => evalPoly q s))
    (hf : dlog .f = f.eval s) (hpi : dlog .pi = w.eval s) (hneg : dlog .negG = -1) :
    checkLog s dlog { left := [((1 : F), Base.pi)],
                      right := msmInnerProduct (qComs ++ [[((1 : F), Base.f)]]) (powersN x4 (qComs.length + 1) 1) ++
                        [(x3, Base.pi), (v, Base.negG)] } = true ↔
      ((X - C x3) * w).eval s = (finalPolyOf x4 f qs - C v).eval s := by
  unfold checkLog
  simp only [decide_eq_true_eq]
  rw [msmLog_append, finalCom_log dlog s x4 f qComs qs hq hf]
  simp only [msmLog, List.foldr_cons, List.foldr_nil, hpi, hneg, eval_mul, eval_sub, eval_X, eval_C]
  constructor <;> intro h <;> linear_combination h

/-- The verifier's groups for a list of claim sets (`terms` = the MSM terms of a commitment, which
play no role for the scalars). -/
def claimGroups (terms : List F × List F → List (F × Base)) (sets : List (ClaimSet F)) :
    List (List F × List (List (F × Base) × List F)) :=
  sets.map (fun s => (s.1, s.2.map (fun pe => (terms pe, pe.2))))

/-- **The `v` of the composed soundness statement is the `v` of the model verifier.** For well-formed
claim sets, `nb` the largest number of commitments of a set (as `multi_prepare` computes it), any
`q` evaluations `qe` in the proof and `x₃` outside the points, the model's `prepareTrace` reaches `v`
and its `f_eval`, `v` are `fEvalOf`, `vOf` over the folds `foldedSet`. -/
theorem verifier_v_is_vOf (nMax nb : Nat) (U : List F) (sets : List (ClaimSet F))
    (hok : ∀ s ∈ sets, ClaimSetOk nMax nb U s)
    (hnb : nb = (sets.map (fun s => s.2.length)).foldl max 0)
    (terms : List F × List F → List (F × Base)) (x1 x2 x3 x4 : F) (hx3 : x3 ∉ U)
    (qe : List F) (hqe : qe.length = sets.length) :
    ∃ t, prepareTrace (fun (a : F) => a⁻¹) (claimGroups terms sets) ⟨true, qe, true⟩ x1 x2 x3 x4 = some t ∧
      t.fEval = fEvalOf x2 x3 (sets.map (foldedSet x1 nb)) qe ∧
      t.v = vOf x2 x3 x4 (sets.map (foldedSet x1 nb)) qe := by
  let esOf : ClaimSet F → List F := fun s => (evalsInnerProduct (s.2.map (·.2)) (powersN x1 nb 1)).getD []
  let grp : ClaimSet F → List F × List (List (F × Base) × List F) :=
    fun s => (s.1, s.2.map (fun pe => (terms pe, pe.2)))
  have hlen : (claimGroups terms sets).length = sets.length := by simp [claimGroups]
  have hnb' : ((claimGroups terms sets).map (fun g => g.2.length)).foldl max 0 = nb := by
    rw [hnb, claimGroups, List.map_map]
    congr 1
    apply List.map_congr_left
    intro s _
    simp
  have hevals : (claimGroups terms sets).mapM (fun g => evalsInnerProduct (g.2.map (·.2)) (powersN x1 nb 1)) =
      some (sets.map esOf) := by
    rw [claimGroups, List.mapM_map]
    apply mapM_eq_some_map
    intro s hs
    obtain ⟨q, es, r, -, hes, -⟩ := foldedSet_facts nMax nb U x1 s (hok s hs)
    simp only [Function.comp, List.map_map, esOf]
    have : (s.2.map ((fun x => x.2) ∘ fun pe => (terms pe, pe.2))) = s.2.map (·.2) := by
      apply List.map_congr_left; intro _ _; rfl
    rw [this, hes]; rfl
  let L := ((claimGroups terms sets).zip (sets.map esOf)).zip qe
  have hL : L = (sets.zip qe).map (fun se => ((grp se.1, esOf se.1), se.2)) := by
    simp only [L, claimGroups]
    rw [List.zip_map', List.zip_map_left]
    apply List.map_congr_left
    intro se _
    rfl
  let r : (((List F × List (List (F × Base) × List F)) × List F) × F) → List F :=
    fun pe => (lagrangeInterpolate (fun (a : F) => a⁻¹) pe.1.1.1 pe.1.2).getD []
  have hmemL : ∀ pe ∈ L, ∃ s ∈ sets, pe.1 = (grp s, esOf s) := by
    intro pe hpe
    rw [hL] at hpe
    obtain ⟨se, hse, rfl⟩ := List.mem_map.1 hpe
    exact ⟨se.1, (List.of_mem_zip hse).1, rfl⟩
  have hr : ∀ pe ∈ L, lagrangeInterpolate (fun (a : F) => a⁻¹) pe.1.1.1 pe.1.2 = some (r pe) := by
    intro pe hpe
    obtain ⟨s, hs, hpe1⟩ := hmemL pe hpe
    obtain ⟨q, es, rr, -, hes, hlag, -⟩ := foldedSet_facts nMax nb U x1 s (hok s hs)
    simp only [r, hpe1, grp, esOf, hes, Option.getD_some, hlag]
  have hx : ∀ pe ∈ L, x3 ∉ pe.1.1.1 := by
    intro pe hpe
    obtain ⟨s, hs, hpe1⟩ := hmemL pe hpe
    rw [hpe1]
    exact fun h => hx3 ((hok s hs).sub x3 h)
  have hfold := fEvalStep_fold (fun (a : F) => a⁻¹) x2 x3 L r hr hx
  have hfe : evalPoly (L.map (fun pe => (pe.2 - evalPoly (r pe) x3) *
      (pe.1.1.1.foldl (fun a p => a * (x3 - p)) 1)⁻¹)) x2 = fEvalOf x2 x3 (sets.map (foldedSet x1 nb)) qe := by
    rw [fEvalOf, hL, List.zip_map_left, List.map_map, List.map_map]
    congr 1
  have htake : qe.take (claimGroups terms sets).length = qe := by
    rw [hlen, ← hqe, List.take_length]
  have hne : qe ++ [fEvalOf x2 x3 (sets.map (foldedSet x1 nb)) qe] ≠ [] := by simp
  obtain ⟨w, ws, hws⟩ := List.exists_cons_of_ne_nil hne
  refine ⟨{ powersX1 := powersN x1 nb 1, qEvalSets := sets.map esOf,
            rEvals := ((claimGroups terms sets).zip (sets.map esOf)).reverse.filterMap (fun gq =>
              (lagrangeInterpolate (fun (a : F) => a⁻¹) gq.1.1 gq.2).map (fun r => evalPoly r x3)),
            fEval := fEvalOf x2 x3 (sets.map (foldedSet x1 nb)) qe,
            v := vOf x2 x3 x4 (sets.map (foldedSet x1 nb)) qe }, ?_, rfl, rfl⟩
  unfold prepareTrace
  simp only [hnb']
  rw [hevals]
  have h1 : ¬ (qe.length < (claimGroups terms sets).length) := by omega
  simp only [if_false, h1, not_true_eq_false, htake]
  change (match (L.foldr (fEvalStep (fun (a : F) => a⁻¹) x2 x3) (some 0)) with | none => none | some fEval => _) = _
  rw [hfold, hfe]
  simp only
  rw [hws, innerProductScalars_spec, ← hws]
  rfl

/-- The folded commitments `q_comᵢ = msm_inner_product(commitments of set i, powers_x1)` of the
verifier are commitments to the folded polynomials of `foldedSet` when every commitment's terms
have the logarithm of its polynomial at `s`. -/
theorem qComs_log (nMax nb : Nat) (U : List F) (sets : List (ClaimSet F))
    (hok : ∀ s ∈ sets, ClaimSetOk nMax nb U s)
    (terms : List F × List F → List (F × Base)) (dlog : Base → F) (s x1 : F)
    (hterms : ∀ cs ∈ sets, ∀ pe ∈ cs.2, msmLog dlog (terms pe) = evalPoly pe.1 s) :
    ((claimGroups terms sets).map (fun g => msmInnerProduct (g.2.map (·.1)) (powersN x1 nb 1))).map (msmLog dlog) =
      ((sets.map (foldedSet x1 nb)).map (fun g => g.2.1)).map (fun q => evalPoly q s) := by
  simp only [claimGroups, List.map_map]
  apply List.map_congr_left
  intro cs hcs
  have h := hok cs hcs
  simp only [Function.comp]
  rw [msmInnerProduct_spec dlog x1 _ nb 1 (by simpa using h.nb_le), one_mul]
  obtain ⟨S, pe⟩ := cs
  obtain ⟨p0, prest, rfl⟩ := List.exists_cons_of_ne_nil h.ne
  have hp0 : p0.1.length = nMax := h.plen p0 (List.mem_cons_self ..)
  obtain ⟨q, hq, -, hqp⟩ := innerProduct_spec x1 p0.1 (prest.map (·.1)) (by
    intro q hq
    obtain ⟨p, hp, rfl⟩ := List.mem_map.1 hq
    rw [hp0, h.plen p (List.mem_cons_of_mem _ hp)])
  have hfs : (foldedSet x1 nb (S, p0 :: prest)).2.1 = q := by
    simp only [foldedSet, List.map_cons]
    rw [hq]; rfl
  rw [hfs, evalPoly_eq_eval_combo x1 s _ _ hqp]
  congr 1
  simp only [List.map_map, ← List.map_cons]
  apply List.map_congr_left
  intro pe' hpe'
  simp only [Function.comp]
  exact hterms _ hcs pe' hpe'

/-- The dual MSM of `prepareGroups`, explicitly, whenever the trace reaches `v` and `π` is present. -/
theorem prepareTrace_dual (inv : F → F) (groups : List (List F × List (List (F × Base) × List F)))
    (proof : ProofView F) (x1 x2 x3 x4 : F) (tr : PrepTrace F)
    (h : prepareTrace inv groups proof x1 x2 x3 x4 = some tr) (hpi : proof.hasPi = true) :
    prepareGroups inv groups proof x1 x2 x3 x4 = .ok
      { left := [((1 : F), Base.pi)],
        right := msmInnerProduct (groups.map (fun g => msmInnerProduct (g.2.map (·.1))
            (powersN x1 ((groups.map (fun g => g.2.length)).foldl max 0) 1)) ++ [[((1 : F), Base.f)]])
            (powersN x4 (groups.length + 1) 1) ++ [(x3, Base.pi), (tr.v, Base.negG)] } := by
  unfold prepareTrace at h
  unfold prepareGroups
  simp only [] at h ⊢
  split at h
  · cases h
  · rename_i qes hq
    split at h
    · cases h
    · rename_i hF
      split at h
      · cases h
      · rename_i hlen
        split at h
        · cases h
        · rename_i fe hfe
          split at h
          · cases h
          · rename_i v hv
            cases h
            simp only [hF, hlen, hpi, if_false, not_true_eq_false]

theorem claimGroups_nb (terms : List F × List F → List (F × Base)) (sets : List (ClaimSet F)) :
    ((claimGroups terms sets).map (fun g => g.2.length)).foldl max 0 =
      (sets.map (fun s => s.2.length)).foldl max 0 := by
  rw [claimGroups, List.map_map]
  congr 1
  apply List.map_congr_left
  intro s _
  simp

/-- The model verifier's deferred check on claim sets, under the algebraic reading of the group
elements, is the final identity of the composed soundness statement evaluated at `s`. -/
theorem model_check_iff_identity_at_s (nMax nb : Nat) (U : List F) (sets : List (ClaimSet F))
    (hok : ∀ s ∈ sets, ClaimSetOk nMax nb U s)
    (hnb : nb = (sets.map (fun s => s.2.length)).foldl max 0)
    (terms : List F × List F → List (F × Base)) (dlog : Base → F) (s x1 x2 x3 x4 : F) (hx3 : x3 ∉ U)
    (qe : List F) (hqe : qe.length = sets.length) (f w : F[X])
    (hterms : ∀ cs ∈ sets, ∀ pe ∈ cs.2, msmLog dlog (terms pe) = evalPoly pe.1 s)
    (hf : dlog .f = f.eval s) (hpi : dlog .pi = w.eval s) (hneg : dlog .negG = -1) :
    ∃ dual, prepareGroups (fun (a : F) => a⁻¹) (claimGroups terms sets) ⟨true, qe, true⟩ x1 x2 x3 x4 = .ok dual ∧
      (checkLog s dlog dual = true ↔
        ((X - C x3) * w).eval s =
          (finalPolyOf x4 f ((sets.map (foldedSet x1 nb)).map (fun g => g.2.1)) -
            C (vOf x2 x3 x4 (sets.map (foldedSet x1 nb)) qe)).eval s) := by
  obtain ⟨t, ht, -, hv⟩ := verifier_v_is_vOf nMax nb U sets hok hnb terms x1 x2 x3 x4 hx3 qe hqe
  have hd := prepareTrace_dual _ _ _ x1 x2 x3 x4 t ht rfl
  refine ⟨_, hd, ?_⟩
  rw [claimGroups_nb, ← hnb, hv]
  have := check_is_identity_at_s dlog s x3 x4 (vOf x2 x3 x4 (sets.map (foldedSet x1 nb)) qe) f w _ _
    (qComs_log nMax nb U sets hok terms dlog s x1 hterms) hf hpi hneg
  simpa only [List.length_map] using this

end
end MidnightZK.C14
