import MidnightZK.Proofs.C14.Lagrange
import MidnightZK.Proofs.C14.Sets
/-! End-to-end completeness of the multi-opening model for one-piece commitments: grouping
(`Sets`) + opening algebra (`Complete`). -/
namespace MidnightZK.C14

open Polynomial

section
variable {F : Type} [Field F] [DecidableEq F]
set_option linter.unusedSectionVars false

/-- The prover's queries for `(polynomial index, point)` pairs, with the true evaluations. -/
def proverQueries (polys : List (List F)) (pq : List (Nat × F)) : List (Query Nat F F) :=
  pq.map (fun q => { com := q.1, point := q.2, eval := evalPoly (polys.getD q.1 []) q.2 })

/-- The verifier's queries: one-piece references to the commitments, the true evaluations. -/
def verifierQueries (polys : List (List F)) (pq : List (Nat × F)) : List (Query ComRef F F) :=
  (proverQueries polys pq).map (relabelQuery ComRef.one id)

/-- Discrete logarithms of the bases for an honest run. -/
def honestLog (polys : List (List F)) (s : F) (out : ProverOut F) : Base → F
  | .com i => evalPoly (polys.getD i []) s
  | .f => commitLog s out.fPoly
  | .pi => commitLog s out.piPoly
  | .negG => -1

/-- The groups of an honest run, read off the grouping result. -/
def groupsOf (polys : List (List F)) (cm : List (CommitmentData Nat F)) (psets : List (List F)) :
    List (Group F) :=
  psets.zipIdx.map (fun pi => (pi.1, (cm.filter (fun d => d.setIndex = pi.2)).map
    (fun d => (polys.getD d.com [], [((1 : F), Base.com d.com)]))))

theorem duplicate_iff (qs : List (Query Nat F F)) :
    constructIntermediateSets (0 : F) qs = none ↔ ¬ (qs.map (fun q => (q.com, q.point))).Nodup :=
  construct_none_iff (0 : F) qs

theorem multiopen_complete_groups (nMax : Nat) (hn : 0 < nMax) (s x1 x2 x3 x4 : F) (dlog : Base → F)
    (groups : List (Group F)) (hne : groups ≠ [])
    (hok : ∀ g ∈ groups, GroupOk nMax s x3 dlog g) :
    ∃ out dual, openGroups nMax (proverGroups groups) x1 x2 x3 x4 = some out ∧
      (dlog .f = commitLog s out.fPoly → dlog .pi = commitLog s out.piPoly → dlog .negG = -1 →
        prepareGroups (fun a => a⁻¹) (verifierGroups groups) ⟨true, out.qEvals, true⟩ x1 x2 x3 x4 = .ok dual ∧
        checkLog s dlog dual = true) :=
  prepareGroups_complete nMax hn s x1 x2 x3 x4 dlog (fun a => a⁻¹) (fun _ => rfl) lagrangeSpec_inv groups hne hok

theorem mem_zipIdx' {α : Type} (l : List α) (x : α) (i : Nat) : (x, i) ∈ l.zipIdx ↔ l[i]? = some x := by
  rw [List.mem_zipIdx_iff_getElem?]

/-- Facts about one commitment data of the grouping of honest prover queries. -/
theorem data_facts (polys : List (List F)) (pq : List (Nat × F))
    (cm : List (CommitmentData Nat F)) (psets : List (List F))
    (h : constructIntermediateSets (0 : F) (proverQueries polys pq) = some (cm, psets))
    (d : CommitmentData Nat F) (hd : d ∈ cm) :
    (∃ q ∈ pq, q.1 = d.com) ∧
    ∃ S, psets[d.setIndex]? = some S ∧ S.Nodup ∧ S ≠ [] ∧ (∀ p ∈ S, ∃ q ∈ pq, q.1 = d.com ∧ q.2 = p) ∧
      d.evals = S.map (fun z => evalPoly (polys.getD d.com []) z) := by
  have hcoms := construct_coms (0 : F) _ cm psets h
  have hnd : (cm.map (·.com)).Nodup := (construct_set_used (0 : F) _ cm psets h).1
  have hdc : d.com ∈ (proverQueries polys pq).map (·.com) := by
    rw [← mem_firstOcc, ← hcoms]; exact List.mem_map_of_mem hd
  obtain ⟨q0, hq0, hq0c⟩ := List.mem_map.1 hdc
  have uniq : ∀ d' ∈ cm, d'.com = d.com → d' = d := fun d' hd' hc =>
    List.inj_on_of_nodup_map hnd hd' hd hc
  obtain ⟨d0, hd0, hd0c, S, hS, hlen, hSnd, hSmem, j0, hj0, -⟩ := construct_query (0 : F) _ cm psets h q0 hq0
  have hd0d : d0 = d := uniq d0 hd0 (hd0c.trans hq0c)
  subst hd0d
  have hq0' : ∃ q ∈ pq, q.1 = d0.com := by
    obtain ⟨q, hq, rfl⟩ := List.mem_map.1 hq0
    exact ⟨q, hq, hq0c⟩
  refine ⟨hq0', S, hS, hSnd, ?_, ?_, ?_⟩
  · intro hnil; rw [hnil] at hj0; simp at hj0
  · intro p hp
    obtain ⟨q', hq', hc', hp'⟩ := (hSmem p).1 hp
    obtain ⟨q, hq, rfl⟩ := List.mem_map.1 hq'
    exact ⟨q, hq, hc'.trans hq0c, hp'⟩
  · apply List.ext_getElem?
    intro j
    rw [List.getElem?_map]
    by_cases hj : j < S.length
    · have hp : S[j] ∈ S := List.getElem_mem hj
      obtain ⟨q', hq', hc', hp'⟩ := (hSmem S[j]).1 hp
      obtain ⟨d1, hd1, hd1c, S1, hS1, -, -, -, j1, hj1, he1⟩ := construct_query (0 : F) _ cm psets h q' hq'
      have hd1d : d1 = d0 := uniq d1 hd1 (hd1c.trans (hc'.trans hq0c))
      subst hd1d
      have hSS : S1 = S := by rw [hS] at hS1; exact (Option.some.inj hS1).symm
      subst hSS
      have hj1lt : j1 < S1.length := (List.getElem?_eq_some_iff.1 hj1).1
      have hjj : j1 = j := by
        apply (List.Nodup.getElem_inj_iff hSnd).1
        rw [(List.getElem?_eq_some_iff.1 hj1).2, hp']
      subst hjj
      rw [he1, List.getElem?_eq_getElem hj]
      simp only [Option.map_some, Option.some.injEq]
      obtain ⟨q, hq, rfl⟩ := List.mem_map.1 hq'
      simp only at hp' hc' hq0c ⊢
      rw [← hp', ← hq0c, ← hc']
    · have h1 : d0.evals[j]? = none := by
        rw [List.getElem?_eq_none_iff]; omega
      have h2 : S[j]? = none := by rw [List.getElem?_eq_none_iff]; omega
      rw [h1, h2]; rfl

/-- End-to-end completeness of the model for one-piece commitments. -/
theorem multiopen_complete_queries_aux (nMax : Nat) (hn : 0 < nMax) (s x1 x2 x3 x4 : F) (dbg : Bool)
    (polys : List (List F)) (hlen : ∀ p ∈ polys, p.length = nMax)
    (pq : List (Nat × F)) (hidx : ∀ q ∈ pq, q.1 < polys.length) (hnd : pq.Nodup) (hne : pq ≠ [])
    (hx3 : ∀ q ∈ pq, x3 ≠ q.2) :
    ∃ out dual, multiOpen nMax polys (proverQueries polys pq) x1 x2 x3 x4 = .ok out ∧
      multiPrepare (fun a => a⁻¹) dbg (verifierQueries polys pq) ⟨true, out.qEvals, true⟩ x1 x2 x3 x4 = .ok dual ∧
      checkLog s (honestLog polys s out) dual = true := by
  -- the grouping succeeds on both sides, with the same shape
  have hkeys : ((proverQueries polys pq).map (fun q => (q.com, q.point))).Nodup := by
    have : (proverQueries polys pq).map (fun q => (q.com, q.point)) = pq := by
      simp [proverQueries, List.map_map, Function.comp_def]
    rw [this]; exact hnd
  cases hcons : constructIntermediateSets (0 : F) (proverQueries polys pq) with
  | none => exact absurd hkeys ((duplicate_iff _).1 hcons)
  | some r =>
    obtain ⟨cm, psets⟩ := r
    have hconsv : constructIntermediateSets (0 : F) (verifierQueries polys pq) =
        some (cm.map (relabelData ComRef.one id), psets) := by
      have := construct_relabel (C := Nat) (C' := ComRef) (P := F) (E := F) (E' := F)
        ComRef.one (fun _ _ h => by cases h; rfl) id (0 : F) (proverQueries polys pq)
      simp only [id] at this
      rw [verifierQueries, this, hcons]; rfl
    have hfacts := data_facts polys pq cm psets hcons
    obtain ⟨hcnd, hused⟩ := construct_set_used (0 : F) _ cm psets hcons
    -- the groups
    set G := groupsOf polys cm psets with hG
    have hGne : G ≠ [] := by
      obtain ⟨q0, hq0⟩ := List.exists_mem_of_ne_nil pq hne
      have hq0' : (⟨q0.1, q0.2, evalPoly (polys.getD q0.1 []) q0.2⟩ : Query Nat F F) ∈ proverQueries polys pq :=
        List.mem_map.2 ⟨q0, hq0, rfl⟩
      obtain ⟨d, hd, -, S, hS, -⟩ := construct_query (0 : F) _ cm psets hcons _ hq0'
      intro hnil
      have hl : G.length = psets.length := by simp [hG, groupsOf]
      rw [hnil] at hl
      have : psets = [] := List.length_eq_zero_iff.1 hl.symm
      rw [this] at hS; simp at hS
    have hGok : ∀ g ∈ G, GroupOk nMax s x3 (honestLog polys s ⟨[], [], [], [], 0, []⟩) g := by
      intro g hg
      obtain ⟨⟨S, i⟩, hSi, rfl⟩ := List.mem_map.1 hg
      have hSi' : psets[i]? = some S := (mem_zipIdx' psets S i).1 hSi
      have hi : i < psets.length := (List.getElem?_eq_some_iff.1 hSi').1
      obtain ⟨d, hd, hdi⟩ := hused i hi
      obtain ⟨-, S', hS', hS'nd, hS'ne, hS'mem, -⟩ := hfacts d hd
      have hSS : S' = S := by rw [hdi, hSi'] at hS'; exact (Option.some.inj hS').symm
      subst hSS
      refine ⟨?_, ?_, ?_, hS'nd, hS'ne, ?_⟩
      · simp only
        intro hnil
        have : d ∈ cm.filter (fun d => d.setIndex = i) := List.mem_filter.2 ⟨hd, by simpa using hdi⟩
        have := List.mem_map_of_mem (f := fun d => (polys.getD d.com [], [((1 : F), Base.com d.com)])) this
        rw [hnil] at this; cases this
      · intro pm hpm
        obtain ⟨d', hd', rfl⟩ := List.mem_map.1 hpm
        have hd'cm := (List.mem_filter.1 hd').1
        obtain ⟨⟨q, hq, hqc⟩, -⟩ := hfacts d' hd'cm
        have hlt : d'.com < polys.length := by rw [← hqc]; exact hidx q hq
        simp only
        have hget : polys.getD d'.com [] = polys[d'.com] := by
          simp [List.getD_eq_getElem?_getD, hlt]
        rw [hget]
        exact hlen _ (List.getElem_mem hlt)
      · intro pm hpm
        obtain ⟨d', hd', rfl⟩ := List.mem_map.1 hpm
        simp [msmLog, honestLog]
      · intro hx
        obtain ⟨q, hq, -, hqp⟩ := hS'mem x3 hx
        exact hx3 q hq hqp.symm
    -- completeness of the algebra on these groups
    obtain ⟨out, dual, hopen, hrest⟩ := multiopen_complete_groups nMax hn s x1 x2 x3 x4
      (honestLog polys s ⟨[], [], [], [], 0, []⟩) G hGne hGok
    -- the same groups with the logarithms of this very proof
    have hGok' : ∀ g ∈ G, GroupOk nMax s x3 (honestLog polys s out) g := by
      intro g hg
      obtain ⟨a, b, c, d, e, f⟩ := hGok g hg
      refine ⟨a, b, ?_, d, e, f⟩
      intro pm hpm
      have := c pm hpm
      obtain ⟨⟨S, i⟩, hSi, rfl⟩ := List.mem_map.1 hg
      obtain ⟨d', hd', rfl⟩ := List.mem_map.1 hpm
      simp [msmLog, honestLog]
    obtain ⟨out', dual', hopen', hrest'⟩ := multiopen_complete_groups nMax hn s x1 x2 x3 x4
      (honestLog polys s out) G hGne hGok'
    have hoo : out' = out := by rw [hopen] at hopen'; exact (Option.some.inj hopen').symm
    subst hoo
    obtain ⟨hprep, hcheck⟩ := hrest' rfl rfl rfl
    refine ⟨out', dual', ?_, ?_, hcheck⟩
    · unfold multiOpen
      rw [hcons]
      simp only
      have hpg : psets.zipIdx.map (fun pi => (pi.1, bySet cm (fun d => polys.getD d.com []) pi.2)) = proverGroups G := by
        simp [hG, groupsOf, proverGroups, bySet, List.map_map, Function.comp_def]
      rw [hpg, hopen]
    · unfold multiPrepare
      rw [hconsv]
      simp only
      have hmsms : (cm.map (relabelData ComRef.one id)).mapM (comMsm dbg psets) =
          some (cm.map (fun d => (d.setIndex, [((1 : F), Base.com d.com)], d.evals))) := by
        rw [List.mapM_map]
        apply mapM_eq_some_map
        intro d _
        simp [comMsm, relabelData, asTerms]
      rw [hmsms]
      simp only
      have hvg : psets.zipIdx.map (fun pi => (pi.1,
          ((cm.map (fun d => (d.setIndex, [((1 : F), Base.com d.com)], d.evals))).filter (fun t => t.1 = pi.2)).map (fun t => t.2))) =
          verifierGroups G := by
        rw [hG, groupsOf, verifierGroups, List.map_map]
        apply List.map_congr_left
        rintro ⟨S, i⟩ hSi
        have hSi' : psets[i]? = some S := (mem_zipIdx' psets S i).1 hSi
        simp only [Function.comp, Prod.mk.injEq, true_and]
        rw [List.filter_map, List.map_map, List.map_map]
        apply List.map_congr_left
        intro d hd
        obtain ⟨hdcm, hdi⟩ := List.mem_filter.1 hd
        simp only [Function.comp, decide_eq_true_eq] at hdi
        obtain ⟨-, S', hS', -, -, -, hev⟩ := hfacts d hdcm
        have hSS : S' = S := by rw [hdi, hSi'] at hS'; exact (Option.some.inj hS').symm
        subst hSS
        simp [hev]
      rw [hvg]
      exact hprep

end
end MidnightZK.C14
