import MidnightZK.Proofs.C14.Sets
import MidnightZK.Model.C14.Open
/-! Duplicate (commitment, point) pairs through `multi_open` / `multi_prepare` (C14): the only
source of `Err(DuplicatedQuery)` is the grouping, and it fires exactly on a repeated pair. -/
namespace MidnightZK.C14
set_option linter.unusedSectionVars false

section
variable {F : Type} [Zero F] [One F] [Add F] [Sub F] [Neg F] [Mul F] [DecidableEq F]

theorem prepareGroups_ne_dup (inv : F → F) (groups : List (List F × List (List (F × Base) × List F)))
    (proof : ProofView F) (x1 x2 x3 x4 : F) :
    prepareGroups inv groups proof x1 x2 x3 x4 ≠ .error .dup := by
  intro h
  unfold prepareGroups at h
  simp only [] at h
  repeat' (first | contradiction | cases h | split at h)

/-- `multi_prepare` (model) returns `Err(DuplicatedQuery)` exactly when a (commitment reference,
point) pair occurs twice in the verifier's query list — whatever the evaluations, the proof and
the challenges. -/
theorem multiPrepare_dup_iff (inv : F → F) (dbg : Bool) (qs : List (Query ComRef F F))
    (proof : ProofView F) (x1 x2 x3 x4 : F) :
    multiPrepare inv dbg qs proof x1 x2 x3 x4 = .error .dup ↔
      ¬ (qs.map (fun q => (q.com, q.point))).Nodup := by
  rw [← construct_none_iff (0 : F) qs]
  unfold multiPrepare
  cases hc : constructIntermediateSets (0 : F) qs with
  | none => simp
  | some r =>
    obtain ⟨cm, ps⟩ := r
    simp only [reduceCtorEq, iff_false]
    cases hm : cm.mapM (comMsm dbg ps) with
    | none => simp
    | some msms => exact prepareGroups_ne_dup _ _ _ _ _ _ _

/-- `multi_open` (model) returns `Err(DuplicatedQuery)` exactly when a (polynomial reference,
point) pair occurs twice in the prover's query list. -/
theorem multiOpen_dup_iff (nMax : Nat) (polys : List (List F)) (qs : List (Query Nat F F))
    (x1 x2 x3 x4 : F) :
    multiOpen nMax polys qs x1 x2 x3 x4 = .error .dup ↔
      ¬ (qs.map (fun q => (q.com, q.point))).Nodup := by
  rw [← construct_none_iff (0 : F) qs]
  unfold multiOpen
  cases hc : constructIntermediateSets (0 : F) qs with
  | none => simp
  | some r =>
    obtain ⟨cm, ps⟩ := r
    simp only [reduceCtorEq, iff_false]
    split <;> simp

end

section
variable {C P E : Type} [DecidableEq C] [DecidableEq P]

/-- A query list in which some query repeats the (commitment, point) pair of an earlier one is
refused, identical evaluations or not (nothing is deduplicated). -/
theorem repeated_pair_none (dflt : E) (pre mid post : List (Query C P E)) (q q' : Query C P E)
    (hc : q.com = q'.com) (hp : q.point = q'.point) :
    constructIntermediateSets dflt (pre ++ q :: (mid ++ q' :: post)) = none := by
  rw [construct_none_iff]
  intro hnd
  simp only [List.map_append, List.map_cons] at hnd
  have h2 := (List.nodup_append.1 hnd).2.1
  have h3 := (List.nodup_cons.1 h2).1
  apply h3
  rw [hc, hp]
  simp

end
end MidnightZK.C14

namespace MidnightZK.C14
section
variable {F : Type} [Zero F] [One F] [Add F] [Sub F] [Neg F] [Mul F] [DecidableEq F]
set_option linter.unusedSectionVars false

/-- The trace function follows `prepareGroups`: whenever it returns a trace (and `π` is present in
the proof), `prepareGroups` returns the dual MSM whose last right-hand term is `v·(−G)` with the
traced `v`, and whose term before it is `x₃·π`. -/
theorem prepareTrace_consistent (inv : F → F) (groups : List (List F × List (List (F × Base) × List F)))
    (proof : ProofView F) (x1 x2 x3 x4 : F) (tr : PrepTrace F)
    (h : prepareTrace inv groups proof x1 x2 x3 x4 = some tr) (hpi : proof.hasPi = true) :
    ∃ dual, prepareGroups inv groups proof x1 x2 x3 x4 = .ok dual ∧
      ∃ pre, dual.right = pre ++ [(x3, Base.pi), (tr.v, Base.negG)] := by
  unfold prepareTrace at h
  unfold prepareGroups
  simp only [] at h ⊢
  split at h
  · cases h
  · rename_i qes hq
    split at h
    · cases h
    · rename_i hF
      split at h
      · cases h
      · rename_i hlen
        split at h
        · cases h
        · rename_i fe hfe
          split at h
          · cases h
          · rename_i v hv
            cases h
            simp only [hF, hlen, hpi, if_false, not_true_eq_false]
            exact ⟨_, rfl, _, rfl⟩

end
end MidnightZK.C14
