import Mathlib.LinearAlgebra.Lagrange
import MidnightZK.Proofs.C14.Linear
/-! Completeness of the opening algebra of C14 (grouped form) and its per-set core. -/
namespace MidnightZK.C14

open Polynomial

section
variable {F : Type} [Field F] [DecidableEq F]
set_option linter.unusedSectionVars false

/-- What `multi_prepare` needs from `lagrange_interpolate`: a polynomial with at most `|S|`
coefficients through the given values. -/
def LagrangeSpec (inv : F → F) : Prop :=
  ∀ (S E : List F), S.Nodup → S.length = E.length → S ≠ [] →
    ∃ r, lagrangeInterpolate inv S E = some r ∧ r.length = S.length ∧
      ∀ (i : Nat) (h1 : i < S.length) (h2 : i < E.length), evalPoly r S[i] = E[i]

/-- Per-set core of the verifier's `f_eval`: for ANY polynomial `r` with at most `|S|`
coefficients that agrees with `q` on the (distinct) points of `S`, the folded `kate_division`
quotient evaluates at `x₃ ∉ S` to `(q(x₃) − r(x₃)) / ∏(x₃ − pᵢ)`. -/
theorem fEval_term (q r S : List F) (x3 : F) (hS : S.Nodup) (hx : x3 ∉ S)
    (hr : r.length ≤ S.length) (hagree : ∀ z ∈ S, evalPoly r z = evalPoly q z) :
    (evalPoly q x3 - evalPoly r x3) * (S.foldl (fun a p => a * (x3 - p)) 1)⁻¹ =
      evalPoly (kateFold q S) x3 := by
  obtain ⟨R, hdeg, hq⟩ := kateFold_spec S q
  have hRr : R = toPoly r := by
    apply eq_of_degree_sub_lt_of_eval_finset_eq S.toFinset
    · rw [List.toFinset_card_of_nodup hS]
      refine lt_of_le_of_lt (degree_sub_le _ _) ?_
      rw [max_lt_iff]
      refine ⟨hdeg, lt_of_lt_of_le (toPoly_degree_lt r) ?_⟩
      exact_mod_cast hr
    · intro z hz
      have hz' : z ∈ S := List.mem_toFinset.1 hz
      have h1 := congrArg (Polynomial.eval z) hq
      simp only [eval_add, eval_mul, vanishing_eval_eq_zero_of_mem hz', zero_mul, zero_add, toPoly_eval] at h1
      rw [toPoly_eval, ← h1, hagree z hz']
  have h3 := congrArg (Polynomial.eval x3) hq
  simp only [eval_add, eval_mul, toPoly_eval, hRr] at h3
  rw [← vanishing_eval]
  have hne := vanishing_eval_ne_zero hx
  rw [h3]
  field_simp
  ring

theorem mapM_eq_some_map {α β : Type} (f : α → Option β) (g : α → β) (l : List α)
    (h : ∀ a ∈ l, f a = some (g a)) : l.mapM f = some (l.map g) := by
  induction l with
  | nil => rfl
  | cons a l ih =>
    rw [List.mapM_cons, h a (List.mem_cons_self ..), ih (fun b hb => h b (List.mem_cons_of_mem _ hb))]
    rfl

theorem le_foldl_max (l : List Nat) : ∀ (init : Nat), (∀ a ∈ l, a ≤ l.foldl max init) ∧ init ≤ l.foldl max init := by
  induction l with
  | nil => intro init; simp
  | cons b l ih =>
    intro init
    obtain ⟨h1, h2⟩ := ih (max init b)
    refine ⟨?_, ?_⟩
    · intro a ha
      rcases List.mem_cons.1 ha with rfl | ha
      · exact le_trans (le_max_right _ _) h2
      · exact h1 a ha
    · exact le_trans (le_max_left _ _) h2

theorem foldr_horner {α : Type} (t : α → F) (x : F) (l : List α) :
    l.foldr (fun g (acc : F) => acc * x + t g) 0 = evalPoly (l.map t) x := by
  induction l with
  | nil => rfl
  | cons a l ih => simp [ih]; ring

theorem evalPoly_eq_eval_combo (x y : F) (ps : List (List F)) (r : List F) (h : toPoly r = combo x ps) :
    evalPoly r y = evalPoly (ps.map (fun p => evalPoly p y)) x := by
  rw [← toPoly_eval, h, combo_eval]

/-- A set of the multi-opening in grouped form: its points and, for every polynomial opened at
exactly these points, the polynomial and the MSM terms the verifier holds for its commitment. -/
abbrev Group (F : Type) := List F × List (List F × List (F × Base))

/-- The prover's view of the groups. -/
def proverGroups (groups : List (Group F)) : List (List F × List (List F)) :=
  groups.map (fun g => (g.1, g.2.map (·.1)))

/-- The verifier's view of the groups, with the true evaluations in point-set order. -/
def verifierGroups (groups : List (Group F)) : List (List F × List (List (F × Base) × List F)) :=
  groups.map (fun g => (g.1, g.2.map (fun pm => (pm.2, g.1.map (fun z => evalPoly pm.1 z)))))

/-- The `x₁`-combination of the polynomials of a group. -/
def qOf (x1 : F) (g : Group F) : List F := (innerProduct (g.2.map (·.1)) x1).getD []

/-- Well-formedness of a group for an honest opening. -/
structure GroupOk (nMax : Nat) (s x3 : F) (dlog : Base → F) (g : Group F) : Prop where
  polys_ne : g.2 ≠ []
  len : ∀ pm ∈ g.2, pm.1.length = nMax
  com : ∀ pm ∈ g.2, msmLog dlog pm.2 = evalPoly pm.1 s
  nodup : g.1.Nodup
  pts_ne : g.1 ≠ []
  fresh : x3 ∉ g.1

theorem qOf_spec {nMax : Nat} {s x3 : F} {dlog : Base → F} {g : Group F} (x1 : F)
    (h : GroupOk nMax s x3 dlog g) :
    innerProduct (g.2.map (·.1)) x1 = some (qOf x1 g) ∧ (qOf x1 g).length = nMax ∧
      toPoly (qOf x1 g) = combo x1 (g.2.map (·.1)) := by
  obtain ⟨polys_ne, len, -, -, -, -⟩ := h
  cases hg : g.2 with
  | nil => exact absurd hg polys_ne
  | cons pm rest =>
    have hl : ∀ q ∈ rest.map (·.1), q.length ≤ pm.1.length := by
      intro q hq
      obtain ⟨pm', hpm', rfl⟩ := List.mem_map.1 hq
      rw [len pm' (hg ▸ List.mem_cons_of_mem _ hpm'), len pm (hg ▸ List.mem_cons_self ..)]
    obtain ⟨r, hr, hrl, hrp⟩ := innerProduct_spec x1 pm.1 (rest.map (·.1)) hl
    have hq : qOf x1 g = r := by simp [qOf, hg, hr]
    rw [hq]
    simp only [List.map_cons]
    exact ⟨hr, by rw [hrl, len pm (hg ▸ List.mem_cons_self ..)], hrp⟩

/-- The quotient polynomial of a group, padded as `multi_open` pads it. -/
def fOf (nMax : Nat) (x1 : F) (g : Group F) : List F := resize (kateFold (qOf x1 g) g.1) nMax

theorem openGroups_spec (nMax : Nat) (hn : 0 < nMax) (s x1 x2 x3 x4 : F) (dlog : Base → F)
    (groups : List (Group F)) (hne : groups ≠ [])
    (hok : ∀ g ∈ groups, GroupOk nMax s x3 dlog g) :
    ∃ out, openGroups nMax (proverGroups groups) x1 x2 x3 x4 = some out ∧
      out.qPolys = groups.map (qOf x1) ∧
      out.fPoly.length = nMax ∧
      toPoly out.fPoly = combo x2 (groups.map (fOf nMax x1)) ∧
      out.qEvals = (groups.map (qOf x1)).map (fun q => evalPoly q x3) ∧
      toPoly out.finalPoly = combo x4 (groups.map (qOf x1) ++ [out.fPoly]) ∧
      out.v = evalPoly out.finalPoly x3 ∧
      toPoly out.finalPoly - C out.v = (X - C x3) * toPoly out.piPoly := by
  -- q polynomials
  have hq : (proverGroups groups).mapM (fun g => innerProduct g.2 x1) = some (groups.map (qOf x1)) := by
    unfold proverGroups
    rw [List.mapM_map]
    exact mapM_eq_some_map _ _ _ (fun g hg => (qOf_spec x1 (hok g hg)).1)
  -- f polynomials
  have hzip : ((proverGroups groups).zip (groups.map (qOf x1))).map
      (fun gq => resize (kateFold gq.2 gq.1.1) nMax) = groups.map (fOf nMax x1) := by
    unfold proverGroups
    rw [List.zip_map', List.map_map]
    rfl
  obtain ⟨g0, grest, rfl⟩ := List.exists_cons_of_ne_nil hne
  have hflen : ∀ q ∈ (grest.map (fOf nMax x1)), q.length ≤ (fOf nMax x1 g0).length := by
    intro q hq'
    obtain ⟨g, _, rfl⟩ := List.mem_map.1 hq'
    simp [fOf, resize_length]
  obtain ⟨fPoly, hf, hfl, hfp⟩ := innerProduct_spec x2 (fOf nMax x1 g0) (grest.map (fOf nMax x1)) hflen
  have hfl' : fPoly.length = nMax := by rw [hfl]; simp [fOf, resize_length]
  -- final polynomial
  have hq0 := qOf_spec x1 (hok g0 (List.mem_cons_self ..))
  have hfinlen : ∀ q ∈ (grest.map (qOf x1) ++ [fPoly]), q.length ≤ (qOf x1 g0).length := by
    intro q hq'
    rw [hq0.2.1]
    rcases List.mem_append.1 hq' with h | h
    · obtain ⟨g, hg, rfl⟩ := List.mem_map.1 h
      rw [(qOf_spec x1 (hok g (List.mem_cons_of_mem _ hg))).2.1]
    · rw [List.mem_singleton.1 h, hfl']
  obtain ⟨fin, hfin, hfinl, hfinp⟩ := innerProduct_spec x4 (qOf x1 g0) (grest.map (qOf x1) ++ [fPoly]) hfinlen
  have hfinl' : fin.length = nMax := by rw [hfinl, hq0.2.1]
  cases hfc : fin with
  | nil => rw [hfc] at hfinl'; simp at hfinl'; omega
  | cons c0 rest =>
    refine ⟨{ qPolys := (g0 :: grest).map (qOf x1), fPoly := fPoly,
              qEvals := ((g0 :: grest).map (qOf x1)).map (fun q => evalPoly q x3),
              finalPoly := fin, v := evalPoly fin x3,
              piPoly := kateDivision ((c0 - evalPoly fin x3) :: rest) x3 }, ?_, rfl, hfl', ?_, rfl, ?_, rfl, ?_⟩
    · unfold openGroups
      rw [hq]
      simp only
      rw [hzip]
      simp only [List.map_cons] at hf ⊢
      rw [hf]
      simp only [List.cons_append]
      rw [hfin]
      simp only [hfc]
    · simpa using hfp
    · simpa using hfinp
    · simp only
      have hk := kateAux_spec x3 ((c0 - evalPoly fin x3) :: rest)
      have hrem := kateAux_rem x3 ((c0 - evalPoly fin x3) :: rest)
      have hev : evalPoly ((c0 - evalPoly fin x3) :: rest) x3 = 0 := by
        rw [hfc]; simp
      rw [hev] at hrem
      rw [hrem] at hk
      unfold kateDivision
      rw [C_0, add_zero] at hk
      rw [← hk, hfc]
      simp [C_sub]
      ring

theorem fEval_fold (nMax : Nat) (s x1 x2 x3 : F) (dlog : Base → F) (inv : F → F)
    (hinv : ∀ a, inv a = a⁻¹) (hL : LagrangeSpec inv)
    (vg : Group F → (List F × List (List (F × Base) × List F))) (hvg : ∀ g, (vg g).1 = g.1) :
    ∀ (gs : List (Group F)), (∀ g ∈ gs, GroupOk nMax s x3 dlog g) →
    (gs.map (fun g => ((vg g, g.1.map (fun z => evalPoly (qOf x1 g) z)), evalPoly (qOf x1 g) x3))).foldr
        (fEvalStep inv x2 x3) (some 0) =
      some (evalPoly (gs.map (fun g => evalPoly (kateFold (qOf x1 g) g.1) x3)) x2) := by
  intro gs
  induction gs with
  | nil => intro _; rfl
  | cons g gs ih =>
    intro hok
    have hg := hok g (List.mem_cons_self ..)
    rw [List.map_cons, List.foldr_cons, ih (fun g' hg' => hok g' (List.mem_cons_of_mem _ hg'))]
    obtain ⟨r, hr, hrl, hre⟩ := hL g.1 (g.1.map (fun z => evalPoly (qOf x1 g) z)) hg.nodup (by simp) hg.pts_ne
    have hden : g.1.foldl (fun a p => a * (x3 - p)) 1 ≠ 0 := by
      rw [← vanishing_eval]; exact vanishing_eval_ne_zero hg.fresh
    have hagree : ∀ z ∈ g.1, evalPoly r z = evalPoly (qOf x1 g) z := by
      intro z hz
      obtain ⟨i, hi, rfl⟩ := List.mem_iff_getElem.1 hz
      have := hre i hi (by simpa using hi)
      simpa using this
    have hterm := fEval_term (qOf x1 g) r g.1 x3 hg.nodup hg.fresh (le_of_eq hrl) hagree
    simp only [fEvalStep, hvg, hr, if_neg hden, hinv, hterm, List.map_cons, evalPoly_cons]
    congr 1
    ring

/-- The verifier's group for a prover group. -/
def vgOf (g : Group F) : List F × List (List (F × Base) × List F) :=
  (g.1, g.2.map (fun pm => (pm.2, g.1.map (fun z => evalPoly pm.1 z))))

theorem verifierGroups_eq (groups : List (Group F)) : verifierGroups groups = groups.map vgOf := rfl

theorem evals_of_group {nMax : Nat} {s x3 : F} {dlog : Base → F} {g : Group F} (x1 : F) (nb : Nat)
    (h : GroupOk nMax s x3 dlog g) (hnb : g.2.length ≤ nb) :
    evalsInnerProduct ((vgOf g).2.map (·.2)) (powersN x1 nb 1) =
      some (g.1.map (fun z => evalPoly (qOf x1 g) z)) := by
  have hq := (qOf_spec x1 h).2.2
  cases hg : g.2 with
  | nil => exact absurd hg h.polys_ne
  | cons pm rest =>
    have h1 : (vgOf g).2.map (·.2) = ((pm.1 :: rest.map (·.1))).map (fun q => g.1.map (fun z => evalPoly q z)) := by
      simp [vgOf, hg, List.map_map, Function.comp_def]
    rw [h1, evalsInnerProduct_spec x1 g.1 pm.1 (rest.map (·.1)) nb (by simpa [hg] using hnb)]
    congr 1
    apply List.map_congr_left
    intro z _
    rw [hg] at hq
    exact (evalPoly_eq_eval_combo x1 z _ _ hq).symm

theorem msm_of_group {nMax : Nat} {s x3 : F} {dlog : Base → F} {g : Group F} (x1 : F) (nb : Nat)
    (h : GroupOk nMax s x3 dlog g) (hnb : g.2.length ≤ nb) :
    msmLog dlog (msmInnerProduct ((vgOf g).2.map (·.1)) (powersN x1 nb 1)) = evalPoly (qOf x1 g) s := by
  rw [msmInnerProduct_spec dlog x1 _ nb 1 (by simpa [vgOf] using hnb), one_mul]
  have hq := (qOf_spec x1 h).2.2
  rw [evalPoly_eq_eval_combo x1 s _ _ hq]
  congr 1
  simp only [vgOf, List.map_map]
  apply List.map_congr_left
  intro pm hpm
  simp [h.com pm hpm]

/-- Completeness of the opening algebra (grouped form): for every list of well-formed groups,
all challenges with `x₃` outside the point sets, the verifier's deferred pairing check, on
discrete logarithms, holds for the prover's proof. -/
theorem prepareGroups_complete (nMax : Nat) (hn : 0 < nMax) (s x1 x2 x3 x4 : F) (dlog : Base → F)
    (inv : F → F) (hinv : ∀ a, inv a = a⁻¹) (hL : LagrangeSpec inv)
    (groups : List (Group F)) (hne : groups ≠ [])
    (hok : ∀ g ∈ groups, GroupOk nMax s x3 dlog g) :
    ∃ out dual, openGroups nMax (proverGroups groups) x1 x2 x3 x4 = some out ∧
      ((dlog .f = commitLog s out.fPoly → dlog .pi = commitLog s out.piPoly → dlog .negG = -1 →
        prepareGroups inv (verifierGroups groups) ⟨true, out.qEvals, true⟩ x1 x2 x3 x4 = .ok dual ∧
        checkLog s dlog dual = true)) := by
  obtain ⟨out, hout, hqp, hfl, hfp, hqe, hfinp, hv, hpi⟩ :=
    openGroups_spec nMax hn s x1 x2 x3 x4 dlog groups hne hok
  -- the value the verifier computes for `f_eval`
  let fEval := evalPoly (groups.map (fun g => evalPoly (kateFold (qOf x1 g) g.1) x3)) x2
  obtain ⟨nb, hnb_def⟩ : ∃ nb, nb = ((verifierGroups groups).map (fun g => g.2.length)).foldl max 0 := ⟨_, rfl⟩
  have hnb : ∀ g ∈ groups, g.2.length ≤ nb := by
    intro g hg
    have := (le_foldl_max ((verifierGroups groups).map (fun g => g.2.length)) 0).1 g.2.length
    rw [hnb_def]
    apply this
    rw [verifierGroups_eq, List.map_map]
    exact List.mem_map.2 ⟨g, hg, by simp [vgOf]⟩
  let qComs := (verifierGroups groups).map (fun g => msmInnerProduct (g.2.map (·.1)) (powersN x1 nb 1))
  let finalCom := msmInnerProduct (qComs ++ [[((1 : F), Base.f)]]) (powersN x4 ((verifierGroups groups).length + 1) 1)
  let v := evalPoly (out.qEvals ++ [fEval]) x4
  refine ⟨out, { left := [((1 : F), Base.pi)], right := finalCom ++ [(x3, Base.pi), (v, Base.negG)] }, hout, ?_⟩
  intro hdf hdpi hneg
  have hlen : (verifierGroups groups).length = groups.length := by simp [verifierGroups]
  have hqel : out.qEvals.length = groups.length := by simp [hqe]
  have hevals : (verifierGroups groups).mapM (fun g => evalsInnerProduct (g.2.map (·.2)) (powersN x1 nb 1)) =
      some (groups.map (fun g => g.1.map (fun z => evalPoly (qOf x1 g) z))) := by
    rw [verifierGroups_eq, List.mapM_map]
    exact mapM_eq_some_map _ _ _ (fun g hg => evals_of_group x1 nb (hok g hg) (hnb g hg))
  have hfold : (((verifierGroups groups).zip (groups.map (fun g => g.1.map (fun z => evalPoly (qOf x1 g) z)))).zip
      (out.qEvals.take (verifierGroups groups).length)).foldr (fEvalStep inv x2 x3) (some 0) = some fEval := by
    rw [hlen, ← hqel, List.take_length, hqe, verifierGroups_eq, List.zip_map', List.map_map, List.zip_map']
    exact fEval_fold nMax s x1 x2 x3 dlog inv hinv hL vgOf (fun _ => rfl) groups hok
  constructor
  · unfold prepareGroups
    simp only [← hnb_def]
    rw [hevals]
    have h1 : ¬ (out.qEvals.length < (verifierGroups groups).length) := by omega
    simp only [Bool.not_true, Bool.false_eq_true, if_false, h1, not_true_eq_false, not_false_eq_true]
    rw [hfold]
    have htake : out.qEvals.take (verifierGroups groups).length = out.qEvals := by
      rw [hlen, ← hqel, List.take_length]
    simp only [htake]
    cases hqs : out.qEvals ++ [fEval] with
    | nil => simp at hqs
    | cons w ws => rw [innerProductScalars_spec, ← hqs]
  · -- the check
    unfold checkLog
    simp only [decide_eq_true_eq]
    have hcom : (qComs ++ [[((1 : F), Base.f)]]).map (msmLog dlog) =
        (groups.map (qOf x1) ++ [out.fPoly]).map (fun p => evalPoly p s) := by
      simp only [List.map_append, List.map_cons, List.map_nil, qComs]
      congr 1
      · rw [verifierGroups_eq, List.map_map, List.map_map, List.map_map]
        apply List.map_congr_left
        intro g hg
        exact msm_of_group x1 nb (hok g hg) (hnb g hg)
      · simp [msmLog, hdf, commitLog]
    have hfinal : msmLog dlog finalCom = evalPoly out.finalPoly s := by
      simp only [finalCom]
      rw [msmInnerProduct_spec dlog x4 _ _ 1 (by simp [qComs]), one_mul, hcom]
      exact (evalPoly_eq_eval_combo x4 s _ _ hfinp).symm
    have hfe : evalPoly out.fPoly x3 = fEval := by
      rw [evalPoly_eq_eval_combo x2 x3 _ _ hfp, List.map_map]
      simp only [fEval]
      congr 1
      apply List.map_congr_left
      intro g hg
      simp only [Function.comp, fOf]
      rw [← toPoly_eval, toPoly_resize, toPoly_eval]
      rw [kateFold_length, (qOf_spec x1 (hok g hg)).2.1]
      omega
    have hvv : v = out.v := by
      rw [hv, evalPoly_eq_eval_combo x4 x3 _ _ hfinp]
      simp only [v, List.map_append, List.map_cons, List.map_nil, hfe, hqe]
    have hpis := congrArg (Polynomial.eval s) hpi
    simp only [eval_sub, eval_mul, eval_C, eval_X, toPoly_eval] at hpis
    rw [msmLog_append, hfinal]
    simp only [msmLog, List.foldr_cons, List.foldr_nil, hdpi, hneg, commitLog, hvv]
    linear_combination (-1 : F) * hpis

end
end MidnightZK.C14
