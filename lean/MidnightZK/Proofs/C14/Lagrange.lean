import MidnightZK.Proofs.C14.Complete
/-! `lagrange_interpolate` (model of `arithmetic.rs`) returns a polynomial with `|S|` coefficients
through the given values: `LagrangeSpec` holds for field inversion. -/
namespace MidnightZK.C14

open Polynomial

section
variable {F : Type} [Field F] [DecidableEq F]
set_option linter.unusedSectionVars false

theorem zipWith_lin_length (c d : F) : ∀ (l1 l2 : List F), l1.length = l2.length →
    (List.zipWith (fun a b => a * c + b * d) l1 l2).length = l1.length := by
  intro l1 l2 h; simp [h]

theorem toPoly_zipWith_lin (c d : F) : ∀ (l1 l2 : List F), l1.length = l2.length →
    toPoly (List.zipWith (fun a b => a * c + b * d) l1 l2) = C c * toPoly l1 + C d * toPoly l2 := by
  intro l1
  induction l1 with
  | nil => intro l2 h; cases l2 <;> simp_all
  | cons a l1 ih =>
    intro l2 h
    cases l2 with
    | nil => simp at h
    | cons b l2 =>
      have h' : l1.length = l2.length := by simpa using h
      simp only [List.zipWith_cons_cons, toPoly_cons, ih l2 h', C_add, C_mul]
      ring

theorem toPoly_zipWith_acc (ev : F) : ∀ (l1 l2 : List F), l1.length = l2.length →
    toPoly (List.zipWith (fun f c => f + c * ev) l1 l2) = toPoly l1 + C ev * toPoly l2 := by
  intro l1
  induction l1 with
  | nil => intro l2 h; cases l2 <;> simp_all
  | cons a l1 ih =>
    intro l2 h
    cases l2 with
    | nil => simp at h
    | cons b l2 =>
      have h' : l1.length = l2.length := by simpa using h
      simp only [List.zipWith_cons_cons, toPoly_cons, ih l2 h', C_add, C_mul]
      ring

/-- The inner loop: multiplication by `(X − x_k)/(x_j − x_k)` for every other point. -/
theorem basis_fold (inv : F → F) (xj : F) : ∀ (others : List F) (init : List F),
    let res := others.foldl (fun (tmp : List F) xk =>
      List.zipWith (fun a b => a * (-(inv (xj - xk)) * xk) + b * inv (xj - xk)) (tmp ++ [0]) (0 :: tmp)) init
    res.length = init.length + others.length ∧
    toPoly res = toPoly init * (others.map (fun xk => C (inv (xj - xk)) * (X - C xk))).prod := by
  intro others
  induction others with
  | nil => intro init; simp
  | cons xk others ih =>
    intro init
    simp only [List.foldl_cons, List.map_cons, List.prod_cons, List.length_cons]
    have hl : (init ++ [0]).length = ((0 : F) :: init).length := by simp
    obtain ⟨h1, h2⟩ := ih (List.zipWith (fun a b => a * (-(inv (xj - xk)) * xk) + b * inv (xj - xk)) (init ++ [0]) (0 :: init))
    refine ⟨?_, ?_⟩
    · rw [h1]; simp; omega
    · rw [h2, toPoly_zipWith_lin _ _ _ _ hl]
      have : toPoly (init ++ [0]) = toPoly init := toPoly_append_zeros init 1
      rw [this]
      simp only [toPoly_cons, C_0, zero_add, C_mul, C_neg]
      ring

theorem mem_zip_range {α : Type} (l : List α) (k : Nat) (y : α) :
    (k, y) ∈ (List.range l.length).zip l ↔ ∃ h : k < l.length, l[k] = y := by
  constructor
  · intro h
    obtain ⟨i, hi, he⟩ := List.mem_iff_getElem.1 h
    simp only [List.getElem_zip, List.getElem_range, Prod.mk.injEq] at he
    have hi' : i < l.length := by simpa using hi
    obtain ⟨rfl, rfl⟩ := he
    exact ⟨hi', rfl⟩
  · rintro ⟨h, rfl⟩
    apply List.mem_iff_getElem.2
    refine ⟨k, by simpa using h, ?_⟩
    simp

/-- Value at `y` of the basis polynomial of index `j`. -/
theorem basis_eval (points : List F) (hnd : points.Nodup) (j : Nat) (hj : j < points.length) (i : Nat)
    (hi : i < points.length) :
    (((((List.range points.length).zip points).filter (fun (kx : Nat × F) => kx.1 ≠ j)).map
      (fun (kx : Nat × F) => kx.2)).map
      (fun xk => C (points[j] - xk)⁻¹ * (X - C xk))).prod.eval points[i] = if i = j then 1 else 0 := by
  rw [eval_list_prod]
  split
  · next hij =>
    subst hij
    apply List.prod_eq_one
    intro v hv
    simp only [List.map_map, List.mem_map, List.mem_filter, Function.comp] at hv
    obtain ⟨⟨k, xk⟩, ⟨hmem, hk⟩, rfl⟩ := hv
    obtain ⟨hk', rfl⟩ := (mem_zip_range points k xk).1 hmem
    have hne : points[i] - points[k] ≠ 0 := by
      intro h0
      have heq : points[i] = points[k] := sub_eq_zero.1 h0
      have := (List.Nodup.getElem_inj_iff hnd).1 heq
      simp at hk
      omega
    simp only [eval_mul, eval_C, eval_sub, eval_X]
    field_simp
  · next hij =>
    apply List.prod_eq_zero
    simp only [List.map_map, List.mem_map, List.mem_filter, Function.comp]
    refine ⟨(i, points[i]), ⟨(mem_zip_range points i _).2 ⟨hi, rfl⟩, by simpa using hij⟩, ?_⟩
    simp

theorem others_length (points : List F) (j : Nat) (hj : j < points.length) :
    ((((List.range points.length).zip points).filter (fun (kx : Nat × F) => kx.1 ≠ j)).map
      (fun (kx : Nat × F) => kx.2)).length + 1 = points.length := by
  rw [List.length_map, ← List.countP_eq_length_filter]
  have h := List.length_eq_countP_add_countP (fun (kx : Nat × F) => decide (kx.1 ≠ j))
    (l := (List.range points.length).zip points)
  have hz : ((List.range points.length).zip points).length = points.length := by simp
  have h2 : List.countP (fun (kx : Nat × F) => decide ¬(decide (kx.1 ≠ j) = true)) ((List.range points.length).zip points) = 1 := by
    have : (fun (kx : Nat × F) => decide ¬(decide (kx.1 ≠ j) = true)) = (fun k => k == j) ∘ Prod.fst := by
      funext kx
      rw [Bool.eq_iff_iff]; simp
    rw [this, ← List.countP_map, List.map_fst_zip (by simp)]
    have := List.count_eq_one_of_mem (List.nodup_range (n := points.length)) (List.mem_range.2 hj)
    rw [List.count] at this
    convert this using 2
  omega

/-- The basis polynomial of index `j` at node `xj` as the model builds it. -/
noncomputable def basisP (inv : F → F) (points : List F) (j : Nat) (xj : F) : F[X] :=
  (((((List.range points.length).zip points).filter (fun (kx : Nat × F) => kx.1 ≠ j)).map
      (fun (kx : Nat × F) => kx.2)).map (fun xk => C (inv (xj - xk)) * (X - C xk))).prod

/-- The step of the outer loop of `lagrange_interpolate`. -/
def lagStep (inv : F → F) (points : List F) (final : List F) (jxe : Nat × F × F) : List F :=
  let j := jxe.1
  let xj := jxe.2.1
  let ev := jxe.2.2
  let others := ((List.range points.length).zip points).filter (fun kx => kx.1 ≠ j) |>.map (·.2)
  let tmp := others.foldl (fun (tmp : List F) xk =>
      let denom := inv (xj - xk)
      List.zipWith (fun a b => a * (-denom * xk) + b * denom) (tmp ++ [0]) (0 :: tmp)) [1]
  List.zipWith (fun f c => f + c * ev) final tmp

theorem outer_fold (inv : F → F) (points : List F) : ∀ (L : List (Nat × F × F)) (init : List F),
    init.length = points.length → (∀ e ∈ L, e.1 < points.length) →
    (L.foldl (lagStep inv points) init).length = points.length ∧
    toPoly (L.foldl (lagStep inv points) init) =
      toPoly init + (L.map (fun e => C e.2.2 * basisP inv points e.1 e.2.1)).sum := by
  intro L
  induction L with
  | nil => intro init h _; simp [h]
  | cons e L ih =>
    intro init hinit hL
    have he := hL e (List.mem_cons_self ..)
    obtain ⟨hlen, hpoly⟩ := basis_fold inv e.2.1
      ((((List.range points.length).zip points).filter (fun (kx : Nat × F) => kx.1 ≠ e.1)).map (fun (kx : Nat × F) => kx.2)) [1]
    have hol := others_length points e.1 he
    have hstep_len : (lagStep inv points init e).length = points.length := by
      simp only [lagStep, List.length_zipWith]
      simp only [List.length_cons, List.length_nil] at hlen
      rw [hlen, hinit]; omega
    obtain ⟨h1, h2⟩ := ih (lagStep inv points init e) hstep_len (fun e' he' => hL e' (List.mem_cons_of_mem _ he'))
    refine ⟨by simpa using h1, ?_⟩
    rw [List.foldl_cons, h2, List.map_cons, List.sum_cons]
    have : toPoly (lagStep inv points init e) = toPoly init + C e.2.2 * basisP inv points e.1 e.2.1 := by
      simp only [lagStep]
      rw [toPoly_zipWith_acc]
      · rw [hpoly]; simp [basisP]
      · simp only [List.length_cons, List.length_nil] at hlen
        rw [hlen, hinit]; omega
    rw [this]; ring

theorem eval_list_sum' (l : List F[X]) (x : F) : l.sum.eval x = (l.map (Polynomial.eval x)).sum := by
  induction l with
  | nil => simp
  | cons p l ih => simp [ih]

theorem sum_single {α : Type} (L : List α) (key : α → Nat) (g : α → F) (i : Nat) (t : α)
    (hnd : (L.map key).Nodup) (ht : t ∈ L) (hk : key t = i) :
    (L.map (fun e => if i = key e then g e else 0)).sum = g t := by
  induction L with
  | nil => cases ht
  | cons a L ih =>
    rw [List.map_cons, List.sum_cons]
    rw [List.map_cons, List.nodup_cons] at hnd
    rcases List.mem_cons.1 ht with rfl | ht'
    · have hz : (L.map (fun e => if i = key e then g e else 0)).sum = 0 := by
        apply List.sum_eq_zero
        intro v hv
        obtain ⟨e, he, rfl⟩ := List.mem_map.1 hv
        have : key e ≠ key t := fun h => hnd.1 (h ▸ List.mem_map_of_mem he)
        rw [if_neg (by rw [← hk]; exact fun h => this h.symm)]
      rw [hz, if_pos hk.symm, add_zero]
    · have : key a ≠ i := fun h => hnd.1 (by rw [h, ← hk]; exact List.mem_map_of_mem ht')
      rw [if_neg (fun h => this h.symm), zero_add, ih hnd.2 ht']

/-- `lagrange_interpolate` is correct for distinct points: `LagrangeSpec` for field inversion. -/
theorem lagrangeSpec_inv : LagrangeSpec (fun (a : F) => a⁻¹) := by
  intro S E hnd hlen hne
  by_cases h1 : S.length = 1
  · -- constant polynomial
    refine ⟨[E.headD 0], ?_, by simp [h1], ?_⟩
    · unfold lagrangeInterpolate
      rw [if_neg (not_not.2 hlen), if_neg (not_not.2 hnd), if_pos h1]
    · intro i hi1 hi2
      have : i = 0 := by omega
      subst this
      cases E with
      | nil => simp at hi2
      | cons e E => simp
  · have hfold := outer_fold (fun (a : F) => a⁻¹) S ((List.range S.length).zip (S.zip E))
      (List.replicate S.length 0) (by simp) (by
        intro e he
        have := (List.of_mem_zip he).1
        exact List.mem_range.1 this)
    refine ⟨_, ?_, hfold.1, ?_⟩
    · unfold lagrangeInterpolate
      rw [if_neg (not_not.2 hlen), if_neg (not_not.2 hnd), if_neg h1]
      rfl
    · intro i hi1 hi2
      rw [← toPoly_eval, hfold.2]
      have h0 : toPoly (List.replicate S.length (0 : F)) = 0 := by
        have := toPoly_append_zeros ([] : List F) S.length
        simpa using this
      rw [h0, zero_add, eval_list_sum', List.map_map]
      have hterm : ∀ e ∈ (List.range S.length).zip (S.zip E),
          ((Polynomial.eval S[i]) ∘ (fun (e : Nat × F × F) => C e.2.2 * basisP (fun a => a⁻¹) S e.1 e.2.1)) e =
            if i = e.1 then e.2.2 else 0 := by
        intro e he
        obtain ⟨hj, hje⟩ := (mem_zip_range (S.zip E) e.1 e.2).1 (by
          have : (List.range S.length) = List.range (S.zip E).length := by simp [hlen]
          rw [this] at he; exact he)
        have hj' : e.1 < S.length := by simpa [hlen] using hj
        have hx : e.2.1 = S[e.1] := by
          have := congrArg Prod.fst hje; simpa using this.symm
        simp only [Function.comp, eval_mul, eval_C, basisP, hx]
        rw [basis_eval S hnd e.1 hj' i hi1]
        split <;> simp
      rw [List.map_congr_left hterm]
      have hmem : (i, S[i], E[i]) ∈ (List.range S.length).zip (S.zip E) := by
        have : (List.range S.length) = List.range (S.zip E).length := by simp [hlen]
        rw [this]
        exact (mem_zip_range (S.zip E) i (S[i], E[i])).2 ⟨by simpa [hlen] using hi1, by simp⟩
      have := sum_single ((List.range S.length).zip (S.zip E)) (fun e => e.1) (fun e => e.2.2) i
        (i, S[i], E[i]) (by rw [List.map_fst_zip (by simp [hlen])]; exact List.nodup_range) hmem rfl
      simpa using this

end
end MidnightZK.C14
