import MidnightZK.Proofs.C14.EndToEndChopped
import MidnightZK.Proofs.C14.Lagrange
/-! The prover's intermediate polynomials against the verifier's intermediate scalars (C14):
what `multi_open` opens is what `multi_prepare` recomputes, stated equality by equality
(`q_polys` on the point sets = the `x₁`-folded claims, `q_polys(x₃)` = the `q` evaluations of the
proof, `f_poly(x₃)` = `f_eval`, `final_poly(x₃)` = `v`), first for grouped data, then for every
query list with one-piece or chopped references. -/
namespace MidnightZK.C14

open Polynomial

section
variable {F : Type} [Field F] [DecidableEq F]
set_option linter.unusedSectionVars false

/-- The equalities between the prover's output `out` and the verifier's trace `t`. -/
structure OpenMatches (x3 : F) (out : ProverOut F) (t : PrepTrace F) (points : List (List F)) : Prop where
  /-- one `q` polynomial per point set -/
  sets : out.qPolys.length = points.length
  /-- the `x₁`-folded claims the verifier interpolates are the values of `q_polys` on the point sets -/
  claims : t.qEvalSets = (points.zip out.qPolys).map (fun Sq => Sq.1.map (fun z => evalPoly Sq.2 z))
  /-- the `q` evaluations written into the proof are the values of `q_polys` at `x₃` -/
  qEvals : out.qEvals = out.qPolys.map (fun q => evalPoly q x3)
  /-- the verifier's `f_eval` is the value at `x₃` of the polynomial behind `f_com` -/
  fEval : t.fEval = evalPoly out.fPoly x3
  /-- the verifier's `v` is the prover's `v` … -/
  v : t.v = out.v
  /-- … which is the value of the final polynomial at `x₃` … -/
  vFinal : out.v = evalPoly out.finalPoly x3
  /-- … and `π` commits to the quotient of `final_poly − v` by `X − x₃` -/
  pi : toPoly out.finalPoly - C out.v = (X - C x3) * toPoly out.piPoly

/-- Grouped form: prover output against the verifier trace. -/
theorem prepareTrace_matches (nMax : Nat) (hn : 0 < nMax) (s x1 x2 x3 x4 : F) (dlog : Base → F)
    (inv : F → F) (hinv : ∀ a, inv a = a⁻¹) (hL : LagrangeSpec inv)
    (groups : List (Group F)) (hne : groups ≠ [])
    (hok : ∀ g ∈ groups, GroupOk nMax s x3 dlog g) :
    ∃ out t, openGroups nMax (proverGroups groups) x1 x2 x3 x4 = some out ∧
      prepareTrace inv (verifierGroups groups) ⟨true, out.qEvals, true⟩ x1 x2 x3 x4 = some t ∧
      OpenMatches x3 out t (groups.map (·.1)) := by
  obtain ⟨out, hout, hqp, hfl, hfp, hqe, hfinp, hv, hpi⟩ :=
    openGroups_spec nMax hn s x1 x2 x3 x4 dlog groups hne hok
  let fEval := evalPoly (groups.map (fun g => evalPoly (kateFold (qOf x1 g) g.1) x3)) x2
  obtain ⟨nb, hnb_def⟩ : ∃ nb, nb = ((verifierGroups groups).map (fun g => g.2.length)).foldl max 0 := ⟨_, rfl⟩
  have hnb : ∀ g ∈ groups, g.2.length ≤ nb := by
    intro g hg
    have := (le_foldl_max ((verifierGroups groups).map (fun g => g.2.length)) 0).1 g.2.length
    rw [hnb_def]
    apply this
    rw [verifierGroups_eq, List.map_map]
    exact List.mem_map.2 ⟨g, hg, by simp [vgOf]⟩
  let v := evalPoly (out.qEvals ++ [fEval]) x4
  have hlen : (verifierGroups groups).length = groups.length := by simp [verifierGroups]
  have hqel : out.qEvals.length = groups.length := by simp [hqe]
  have hevals : (verifierGroups groups).mapM (fun g => evalsInnerProduct (g.2.map (·.2)) (powersN x1 nb 1)) =
      some (groups.map (fun g => g.1.map (fun z => evalPoly (qOf x1 g) z))) := by
    rw [verifierGroups_eq, List.mapM_map]
    exact mapM_eq_some_map _ _ _ (fun g hg => evals_of_group x1 nb (hok g hg) (hnb g hg))
  have hfold : (((verifierGroups groups).zip (groups.map (fun g => g.1.map (fun z => evalPoly (qOf x1 g) z)))).zip
      (out.qEvals.take (verifierGroups groups).length)).foldr (fEvalStep inv x2 x3) (some 0) = some fEval := by
    rw [hlen, ← hqel, List.take_length, hqe, verifierGroups_eq, List.zip_map', List.map_map, List.zip_map']
    exact fEval_fold nMax s x1 x2 x3 dlog inv hinv hL vgOf (fun _ => rfl) groups hok
  have hfe : evalPoly out.fPoly x3 = fEval := by
    rw [evalPoly_eq_eval_combo x2 x3 _ _ hfp, List.map_map]
    simp only [fEval]
    congr 1
    apply List.map_congr_left
    intro g hg
    simp only [Function.comp, fOf]
    rw [← toPoly_eval, toPoly_resize, toPoly_eval]
    rw [kateFold_length, (qOf_spec x1 (hok g hg)).2.1]
    omega
  have hvv : v = out.v := by
    rw [hv, evalPoly_eq_eval_combo x4 x3 _ _ hfinp]
    simp only [v, List.map_append, List.map_cons, List.map_nil, hfe, hqe]
  have htake : out.qEvals.take (verifierGroups groups).length = out.qEvals := by
    rw [hlen, ← hqel, List.take_length]
  have htr : ∃ rs, prepareTrace inv (verifierGroups groups) ⟨true, out.qEvals, true⟩ x1 x2 x3 x4 =
      some { powersX1 := powersN x1 nb 1,
             qEvalSets := groups.map (fun g => g.1.map (fun z => evalPoly (qOf x1 g) z)),
             rEvals := rs, fEval := fEval, v := v } := by
    unfold prepareTrace
    simp only [← hnb_def]
    rw [hevals]
    have h1 : ¬ (out.qEvals.length < (verifierGroups groups).length) := by omega
    simp only [if_false, h1, not_true_eq_false]
    rw [hfold]
    simp only [htake]
    cases hqs : out.qEvals ++ [fEval] with
    | nil => simp at hqs
    | cons w ws =>
      rw [innerProductScalars_spec, ← hqs]
      exact ⟨_, rfl⟩
  obtain ⟨rs, htr⟩ := htr
  refine ⟨out, _, hout, htr, ?_⟩
  refine ⟨by simp [hqp], ?_, by rw [hqe, hqp], hfe.symm, hvv, hv, hpi⟩
  simp only [hqp, List.zip_map', List.map_map]
  rfl

/-- What `multi_open` opens is what `multi_prepare` recomputes — for every query-set shape with
honest one-piece or chopped references (the hypotheses of `multiopen_complete_refs`). -/
theorem multi_open_matches_verifier_aux (nMax : Nat) (hn : 0 < nMax) (s x1 x2 x3 x4 : F) (dbg : Bool)
    (ref : Nat → ComRef) (hinj : Function.Injective ref) (dl : Nat → F)
    (polys : List (List F)) (hlen : ∀ p ∈ polys, p.length = nMax)
    (pq : List (Nat × F)) (hidx : ∀ q ∈ pq, q.1 < polys.length) (hnd : pq.Nodup) (hne : pq ≠ [])
    (hx3 : ∀ q ∈ pq, x3 ≠ q.2) (hok : RefOk ref dl s polys pq) :
    ∃ out t points, multiOpen nMax polys (proverQueries polys pq) x1 x2 x3 x4 = .ok out ∧
      multiPrepareTrace (fun a => a⁻¹) dbg (verifierQueriesRef ref polys pq) ⟨true, out.qEvals, true⟩ x1 x2 x3 x4 = some t ∧
      (∃ cm, constructIntermediateSets (0 : F) (proverQueries polys pq) = some (cm, points)) ∧
      OpenMatches x3 out t points := by
  have hkeys : ((proverQueries polys pq).map (fun q => (q.com, q.point))).Nodup := by
    have : (proverQueries polys pq).map (fun q => (q.com, q.point)) = pq := by
      simp [proverQueries, List.map_map, Function.comp_def]
    rw [this]; exact hnd
  cases hcons : constructIntermediateSets (0 : F) (proverQueries polys pq) with
  | none => exact absurd hkeys ((duplicate_iff _).1 hcons)
  | some r =>
    obtain ⟨cm, psets⟩ := r
    have hconsv : constructIntermediateSets (0 : F) (verifierQueriesRef ref polys pq) =
        some (cm.map (relabelData ref id), psets) := by
      have := construct_relabel (C := Nat) (C' := ComRef) (P := F) (E := F) (E' := F)
        ref hinj id (0 : F) (proverQueries polys pq)
      simp only [id] at this
      rw [verifierQueriesRef, this, hcons]; rfl
    have hfacts := data_facts polys pq cm psets hcons
    have hpil := construct_pointIndices_length (0 : F) _ cm psets hcons
    obtain ⟨hcnd, hused⟩ := construct_set_used (0 : F) _ cm psets hcons
    set G := groupsOfRef ref polys cm psets with hG
    have hGne : G ≠ [] := by
      obtain ⟨q0, hq0⟩ := List.exists_mem_of_ne_nil pq hne
      have hq0' : (⟨q0.1, q0.2, evalPoly (polys.getD q0.1 []) q0.2⟩ : Query Nat F F) ∈ proverQueries polys pq :=
        List.mem_map.2 ⟨q0, hq0, rfl⟩
      obtain ⟨d, hd, -, S, hS, -⟩ := construct_query (0 : F) _ cm psets hcons _ hq0'
      intro hnil
      have hl : G.length = psets.length := by simp [hG, groupsOfRef]
      rw [hnil] at hl
      have : psets = [] := List.length_eq_zero_iff.1 hl.symm
      rw [this] at hS; simp at hS
    have hGok : ∀ out, ∀ g ∈ G, GroupOk nMax s x3 (refLog dl s out) g := by
      intro out g hg
      obtain ⟨⟨S, i⟩, hSi, rfl⟩ := List.mem_map.1 hg
      have hSi' : psets[i]? = some S := (mem_zipIdx' psets S i).1 hSi
      have hi : i < psets.length := (List.getElem?_eq_some_iff.1 hSi').1
      obtain ⟨d, hd, hdi⟩ := hused i hi
      obtain ⟨-, S', hS', hS'nd, hS'ne, hS'mem, -⟩ := hfacts d hd
      have hSS : S' = S := by rw [hdi, hSi'] at hS'; exact (Option.some.inj hS').symm
      subst hSS
      refine ⟨?_, ?_, ?_, hS'nd, hS'ne, ?_⟩
      · simp only
        intro hnil
        have : d ∈ cm.filter (fun d => d.setIndex = i) := List.mem_filter.2 ⟨hd, by simpa using hdi⟩
        have := List.mem_map_of_mem (f := fun d => (polys.getD d.com [], termsOf (ref d.com) S')) this
        rw [hnil] at this; cases this
      · intro pm hpm
        obtain ⟨d', hd', rfl⟩ := List.mem_map.1 hpm
        have hd'cm := (List.mem_filter.1 hd').1
        obtain ⟨⟨q, hq, hqc⟩, -⟩ := hfacts d' hd'cm
        have hlt : d'.com < polys.length := by rw [← hqc]; exact hidx q hq
        simp only
        have hget : polys.getD d'.com [] = polys[d'.com] := by
          simp [List.getD_eq_getElem?_getD, hlt]
        rw [hget]
        exact hlen _ (List.getElem_mem hlt)
      · intro pm hpm
        obtain ⟨d', hd', rfl⟩ := List.mem_map.1 hpm
        obtain ⟨hd'cm, hd'i⟩ := List.mem_filter.1 hd'
        simp only [decide_eq_true_eq] at hd'i
        obtain ⟨hq', S'', hS'', -, -, hS''mem, -⟩ := hfacts d' hd'cm
        have hSS : S'' = S' := by rw [hd'i, hSi'] at hS''; exact (Option.some.inj hS'').symm
        subst hSS
        exact termsOf_log ref dl s polys pq hok out d'.com S'' hS'ne hq' hS''mem
      · intro hx
        obtain ⟨q, hq, -, hqp⟩ := hS'mem x3 hx
        exact hx3 q hq hqp.symm
    obtain ⟨out, t, hopen, htrace, hm⟩ := prepareTrace_matches nMax hn s x1 x2 x3 x4
      (refLog dl s ⟨[], [], [], [], 0, []⟩) (fun a => a⁻¹) (fun _ => rfl) lagrangeSpec_inv G hGne (hGok _)
    have hpts : G.map (·.1) = psets := by
      simp [hG, groupsOfRef, List.map_map, Function.comp_def]
    have hpg : psets.zipIdx.map (fun pi => (pi.1, bySet cm (fun d => polys.getD d.com []) pi.2)) = proverGroups G := by
      simp [hG, groupsOfRef, proverGroups, bySet, List.map_map, Function.comp_def]
    have hmsms : (cm.map (relabelData ref id)).mapM (comMsm dbg psets) =
        some (cm.map (fun d => (d.setIndex, termsOf (ref d.com) (psets.getD d.setIndex []), d.evals))) := by
      rw [List.mapM_map]
      apply mapM_eq_some_map
      intro d hd
      obtain ⟨⟨q, hq, hqc⟩, S, hS, hSnd, hSne, hSmem, hev⟩ := hfacts d hd
      have hrok := hok q hq
      rw [hqc] at hrok
      cases hr : ref d.com with
      | one i => simp [comMsm, relabelData, hr, asTerms, termsOf]
      | chopped parts n =>
        rw [hr] at hrok
        obtain ⟨hn0, hsingle, -⟩ := hrok
        -- the point set is the single point
        obtain ⟨x, S', rfl⟩ := List.exists_cons_of_ne_nil hSne
        have hS'nil : S' = [] := by
          cases S' with
          | nil => rfl
          | cons y S'' =>
            exfalso
            obtain ⟨q1, hq1, hq1c, hq1p⟩ := hSmem x (List.mem_cons_self ..)
            obtain ⟨q2, hq2, hq2c, hq2p⟩ := hSmem y (List.mem_cons_of_mem _ (List.mem_cons_self ..))
            have e1 := hsingle q1 hq1 hq1c
            have e2 := hsingle q2 hq2 hq2c
            have hxy : x = y := by rw [← hq1p, ← hq2p, e1, e2]
            rw [hxy] at hSnd
            simp at hSnd
        subst hS'nil
        have hpl1 : d.pointIndices.length = 1 := by
          rw [hpil d hd, hev]; simp
        simp [comMsm, relabelData, hr, hpl1, hS, asTerms, hn0, termsOf]
    have hvg : psets.zipIdx.map (fun pi => (pi.1,
        ((cm.map (fun d => (d.setIndex, termsOf (ref d.com) (psets.getD d.setIndex []), d.evals))).filter (fun t => t.1 = pi.2)).map (fun t => t.2))) =
        verifierGroups G := by
      rw [hG, groupsOfRef, verifierGroups, List.map_map]
      apply List.map_congr_left
      rintro ⟨S, i⟩ hSi
      have hSi' : psets[i]? = some S := (mem_zipIdx' psets S i).1 hSi
      simp only [Function.comp, Prod.mk.injEq, true_and]
      rw [List.filter_map, List.map_map, List.map_map]
      apply List.map_congr_left
      intro d hd
      obtain ⟨hdcm, hdi⟩ := List.mem_filter.1 hd
      simp only [Function.comp, decide_eq_true_eq] at hdi
      obtain ⟨-, S', hS', -, -, -, hev⟩ := hfacts d hdcm
      have hSS : S' = S := by rw [hdi, hSi'] at hS'; exact (Option.some.inj hS').symm
      subst hSS
      simp [hev, hdi, hSi']
    rw [hpts] at hm
    refine ⟨out, t, psets, ?_, ?_, ⟨cm, rfl⟩, hm⟩
    · unfold multiOpen
      rw [hcons]
      simp only
      rw [hpg, hopen]
    · unfold multiPrepareTrace
      rw [hconsv]
      simp only
      rw [hmsms]
      simp only
      rw [hvg]
      exact htrace

end
end MidnightZK.C14
