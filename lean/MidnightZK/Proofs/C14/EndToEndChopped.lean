import MidnightZK.Proofs.C14.EndToEnd
/-! End-to-end completeness of the multi-opening model for verifier queries that name the
prover's polynomials through arbitrary commitment references — one-piece or chopped. -/
namespace MidnightZK.C14

open Polynomial

section sets
variable {C P E : Type} [DecidableEq C] [DecidableEq P]

theorem placeEval_lengths (pts : List P) (cm : List (C × List Nat)) (sets : List (List Nat))
    (st : List (CommitmentData C E)) (q : Query C P E)
    (h : ∀ d ∈ st, d.pointIndices.length = d.evals.length) :
    ∀ d ∈ placeEval pts cm sets st q, d.pointIndices.length = d.evals.length := by
  intro d hd
  unfold placeEval at hd
  simp only [List.mem_map] at hd
  obtain ⟨d0, hd0, rfl⟩ := hd
  split
  · simp [h d0 hd0]
  · exact h d0 hd0

/-- `evals` is allocated with the length of `point_indices` and only written by index. -/
theorem construct_pointIndices_length (dflt : E) (qs : List (Query C P E))
    (cm : List (CommitmentData C E)) (psets : List (List P))
    (h : constructIntermediateSets dflt qs = some (cm, psets)) :
    ∀ d ∈ cm, d.pointIndices.length = d.evals.length := by
  unfold constructIntermediateSets at h
  cases hp : phase1 qs [] [] with
  | none => rw [hp] at h; simp at h
  | some r =>
    obtain ⟨pts, cm0⟩ := r
    rw [hp] at h
    simp only [Option.some.injEq, Prod.mk.injEq] at h
    obtain ⟨hcm, -⟩ := h
    rw [← hcm]
    have gen : ∀ (qs' : List (Query C P E)) (st : List (CommitmentData C E)),
        (∀ d ∈ st, d.pointIndices.length = d.evals.length) →
        ∀ d ∈ qs'.foldl (placeEval pts cm0 (phase2 cm0)) st, d.pointIndices.length = d.evals.length := by
      intro qs'
      induction qs' with
      | nil => intro st hst; exact hst
      | cons q qs' ih =>
        intro st hst
        rw [List.foldl_cons]
        exact ih _ (placeEval_lengths pts cm0 (phase2 cm0) st q hst)
    apply gen
    intro d hd
    obtain ⟨e, -, rfl⟩ := List.mem_map.1 hd
    simp

end sets

section
variable {F : Type} [Field F] [DecidableEq F]
set_option linter.unusedSectionVars false

/-- The verifier's queries when the commitment of the prover's polynomial `i` is referred to as
`ref i` (true evaluations). -/
def verifierQueriesRef (ref : Nat → ComRef) (polys : List (List F)) (pq : List (Nat × F)) :
    List (Query ComRef F F) :=
  (proverQueries polys pq).map (relabelQuery ref id)

/-- The MSM terms `as_terms` yields for a reference whose point set is `S`. -/
def termsOf (c : ComRef) (S : List F) : List (F × Base) :=
  match c with
  | .one i => [(1, .com i)]
  | .chopped parts n =>
    (parts.foldl (fun (st : List (F × Base) × F) p =>
      (st.1 ++ [(st.2, Base.com p)], st.2 * powNat (S.headD 0) (n - 1))) ([], 1)).1

/-- Discrete logarithms: `dl` for the commitment table, the honest ones for `f_com` and `π`. -/
def refLog (dl : Nat → F) (s : F) (out : ProverOut F) : Base → F
  | .com i => dl i
  | .f => commitLog s out.fPoly
  | .pi => commitLog s out.piPoly
  | .negG => -1

/-- The references are honest: a one-piece reference names a commitment to the polynomial; a
chopped reference `(parts, n)` is used for a polynomial opened at a single point `x`, `n ≠ 0`, and
`Σⱼ (x^(n−1))ʲ·partsⱼ` is a commitment to that polynomial (what `vanishing/prover.rs` opens). -/
def RefOk (ref : Nat → ComRef) (dl : Nat → F) (s : F) (polys : List (List F)) (pq : List (Nat × F)) : Prop :=
  ∀ q ∈ pq, match ref q.1 with
    | .one i => dl i = evalPoly (polys.getD q.1 []) s
    | .chopped parts n => n ≠ 0 ∧ (∀ q' ∈ pq, q'.1 = q.1 → q'.2 = q.2) ∧
        evalPoly (parts.map dl) (powNat q.2 (n - 1)) = evalPoly (polys.getD q.1 []) s

theorem msmLog_chopped_fold (dlog : Base → F) (sf : F) : ∀ (parts : List Nat) (acc : List (F × Base)) (cur : F),
    msmLog dlog (parts.foldl (fun (st : List (F × Base) × F) p =>
      (st.1 ++ [(st.2, Base.com p)], st.2 * sf)) (acc, cur)).1 =
    msmLog dlog acc + cur * evalPoly (parts.map (fun p => dlog (.com p))) sf := by
  intro parts
  induction parts with
  | nil => intro acc cur; simp
  | cons p ps ih =>
    intro acc cur
    rw [List.foldl_cons, ih, msmLog_append]
    simp [msmLog]; ring

def groupsOfRef (ref : Nat → ComRef) (polys : List (List F)) (cm : List (CommitmentData Nat F))
    (psets : List (List F)) : List (Group F) :=
  psets.zipIdx.map (fun pi => (pi.1, (cm.filter (fun d => d.setIndex = pi.2)).map
    (fun d => (polys.getD d.com [], termsOf (ref d.com) pi.1))))

/-- The logarithm of the terms of an honest reference is the commitment of the polynomial. -/
theorem termsOf_log (ref : Nat → ComRef) (dl : Nat → F) (s : F) (polys : List (List F))
    (pq : List (Nat × F)) (hok : RefOk ref dl s polys pq) (out : ProverOut F)
    (c : Nat) (S : List F) (hS : S ≠ []) (hc : ∃ q ∈ pq, q.1 = c)
    (hSm : ∀ p ∈ S, ∃ q ∈ pq, q.1 = c ∧ q.2 = p) :
    msmLog (refLog dl s out) (termsOf (ref c) S) = evalPoly (polys.getD c []) s := by
  obtain ⟨q, hq, rfl⟩ := hc
  have h := hok q hq
  unfold termsOf
  cases hr : ref q.1 with
  | one i => rw [hr] at h; simp [msmLog, refLog, h]
  | chopped parts n =>
    rw [hr] at h
    obtain ⟨-, hsingle, hcom⟩ := h
    obtain ⟨x, S', rfl⟩ := List.exists_cons_of_ne_nil hS
    obtain ⟨q', hq', hq'c, hq'p⟩ := hSm x (List.mem_cons_self ..)
    have hx : x = q.2 := by rw [← hq'p]; exact hsingle q' hq' hq'c
    simp only [List.headD_cons]
    rw [msmLog_chopped_fold]
    simp only [msmLog, List.foldr_nil, zero_add, one_mul, refLog]
    rw [hx]; exact hcom

/-- End-to-end completeness for arbitrary honest references (one-piece and chopped). -/
theorem multiopen_complete_refs_aux (nMax : Nat) (hn : 0 < nMax) (s x1 x2 x3 x4 : F) (dbg : Bool)
    (ref : Nat → ComRef) (hinj : Function.Injective ref) (dl : Nat → F)
    (polys : List (List F)) (hlen : ∀ p ∈ polys, p.length = nMax)
    (pq : List (Nat × F)) (hidx : ∀ q ∈ pq, q.1 < polys.length) (hnd : pq.Nodup) (hne : pq ≠ [])
    (hx3 : ∀ q ∈ pq, x3 ≠ q.2) (hok : RefOk ref dl s polys pq) :
    ∃ out dual, multiOpen nMax polys (proverQueries polys pq) x1 x2 x3 x4 = .ok out ∧
      multiPrepare (fun a => a⁻¹) dbg (verifierQueriesRef ref polys pq) ⟨true, out.qEvals, true⟩ x1 x2 x3 x4 = .ok dual ∧
      checkLog s (refLog dl s out) dual = true := by
  have hkeys : ((proverQueries polys pq).map (fun q => (q.com, q.point))).Nodup := by
    have : (proverQueries polys pq).map (fun q => (q.com, q.point)) = pq := by
      simp [proverQueries, List.map_map, Function.comp_def]
    rw [this]; exact hnd
  cases hcons : constructIntermediateSets (0 : F) (proverQueries polys pq) with
  | none => exact absurd hkeys ((duplicate_iff _).1 hcons)
  | some r =>
    obtain ⟨cm, psets⟩ := r
    have hconsv : constructIntermediateSets (0 : F) (verifierQueriesRef ref polys pq) =
        some (cm.map (relabelData ref id), psets) := by
      have := construct_relabel (C := Nat) (C' := ComRef) (P := F) (E := F) (E' := F)
        ref hinj id (0 : F) (proverQueries polys pq)
      simp only [id] at this
      rw [verifierQueriesRef, this, hcons]; rfl
    have hfacts := data_facts polys pq cm psets hcons
    have hpil := construct_pointIndices_length (0 : F) _ cm psets hcons
    obtain ⟨hcnd, hused⟩ := construct_set_used (0 : F) _ cm psets hcons
    set G := groupsOfRef ref polys cm psets with hG
    have hGne : G ≠ [] := by
      obtain ⟨q0, hq0⟩ := List.exists_mem_of_ne_nil pq hne
      have hq0' : (⟨q0.1, q0.2, evalPoly (polys.getD q0.1 []) q0.2⟩ : Query Nat F F) ∈ proverQueries polys pq :=
        List.mem_map.2 ⟨q0, hq0, rfl⟩
      obtain ⟨d, hd, -, S, hS, -⟩ := construct_query (0 : F) _ cm psets hcons _ hq0'
      intro hnil
      have hl : G.length = psets.length := by simp [hG, groupsOfRef]
      rw [hnil] at hl
      have : psets = [] := List.length_eq_zero_iff.1 hl.symm
      rw [this] at hS; simp at hS
    have hGok : ∀ out, ∀ g ∈ G, GroupOk nMax s x3 (refLog dl s out) g := by
      intro out g hg
      obtain ⟨⟨S, i⟩, hSi, rfl⟩ := List.mem_map.1 hg
      have hSi' : psets[i]? = some S := (mem_zipIdx' psets S i).1 hSi
      have hi : i < psets.length := (List.getElem?_eq_some_iff.1 hSi').1
      obtain ⟨d, hd, hdi⟩ := hused i hi
      obtain ⟨-, S', hS', hS'nd, hS'ne, hS'mem, -⟩ := hfacts d hd
      have hSS : S' = S := by rw [hdi, hSi'] at hS'; exact (Option.some.inj hS').symm
      subst hSS
      refine ⟨?_, ?_, ?_, hS'nd, hS'ne, ?_⟩
      · simp only
        intro hnil
        have : d ∈ cm.filter (fun d => d.setIndex = i) := List.mem_filter.2 ⟨hd, by simpa using hdi⟩
        have := List.mem_map_of_mem (f := fun d => (polys.getD d.com [], termsOf (ref d.com) S')) this
        rw [hnil] at this; cases this
      · intro pm hpm
        obtain ⟨d', hd', rfl⟩ := List.mem_map.1 hpm
        have hd'cm := (List.mem_filter.1 hd').1
        obtain ⟨⟨q, hq, hqc⟩, -⟩ := hfacts d' hd'cm
        have hlt : d'.com < polys.length := by rw [← hqc]; exact hidx q hq
        simp only
        have hget : polys.getD d'.com [] = polys[d'.com] := by
          simp [List.getD_eq_getElem?_getD, hlt]
        rw [hget]
        exact hlen _ (List.getElem_mem hlt)
      · intro pm hpm
        obtain ⟨d', hd', rfl⟩ := List.mem_map.1 hpm
        obtain ⟨hd'cm, hd'i⟩ := List.mem_filter.1 hd'
        simp only [decide_eq_true_eq] at hd'i
        obtain ⟨hq', S'', hS'', -, -, hS''mem, -⟩ := hfacts d' hd'cm
        have hSS : S'' = S' := by rw [hd'i, hSi'] at hS''; exact (Option.some.inj hS'').symm
        subst hSS
        exact termsOf_log ref dl s polys pq hok out d'.com S'' hS'ne hq' hS''mem
      · intro hx
        obtain ⟨q, hq, -, hqp⟩ := hS'mem x3 hx
        exact hx3 q hq hqp.symm
    obtain ⟨out, dual, hopen, -⟩ := multiopen_complete_groups nMax hn s x1 x2 x3 x4
      (refLog dl s ⟨[], [], [], [], 0, []⟩) G hGne (hGok _)
    obtain ⟨out', dual', hopen', hrest'⟩ := multiopen_complete_groups nMax hn s x1 x2 x3 x4
      (refLog dl s out) G hGne (hGok out)
    have hoo : out' = out := by rw [hopen] at hopen'; exact (Option.some.inj hopen').symm
    subst hoo
    obtain ⟨hprep, hcheck⟩ := hrest' rfl rfl rfl
    refine ⟨out', dual', ?_, ?_, hcheck⟩
    · unfold multiOpen
      rw [hcons]
      simp only
      have hpg : psets.zipIdx.map (fun pi => (pi.1, bySet cm (fun d => polys.getD d.com []) pi.2)) = proverGroups G := by
        simp [hG, groupsOfRef, proverGroups, bySet, List.map_map, Function.comp_def]
      rw [hpg, hopen]
    · unfold multiPrepare
      rw [hconsv]
      simp only
      have hmsms : (cm.map (relabelData ref id)).mapM (comMsm dbg psets) =
          some (cm.map (fun d => (d.setIndex, termsOf (ref d.com) (psets.getD d.setIndex []), d.evals))) := by
        rw [List.mapM_map]
        apply mapM_eq_some_map
        intro d hd
        obtain ⟨⟨q, hq, hqc⟩, S, hS, hSnd, hSne, hSmem, hev⟩ := hfacts d hd
        have hrok := hok q hq
        rw [hqc] at hrok
        cases hr : ref d.com with
        | one i => simp [comMsm, relabelData, hr, asTerms, termsOf]
        | chopped parts n =>
          rw [hr] at hrok
          obtain ⟨hn0, hsingle, -⟩ := hrok
          -- the point set is the single point
          obtain ⟨x, S', rfl⟩ := List.exists_cons_of_ne_nil hSne
          have hS'nil : S' = [] := by
            cases S' with
            | nil => rfl
            | cons y S'' =>
              exfalso
              obtain ⟨q1, hq1, hq1c, hq1p⟩ := hSmem x (List.mem_cons_self ..)
              obtain ⟨q2, hq2, hq2c, hq2p⟩ := hSmem y (List.mem_cons_of_mem _ (List.mem_cons_self ..))
              have e1 := hsingle q1 hq1 hq1c
              have e2 := hsingle q2 hq2 hq2c
              have hxy : x = y := by rw [← hq1p, ← hq2p, e1, e2]
              rw [hxy] at hSnd
              simp at hSnd
          subst hS'nil
          have hpl1 : d.pointIndices.length = 1 := by
            rw [hpil d hd, hev]; simp
          simp [comMsm, relabelData, hr, hpl1, hS, asTerms, hn0, termsOf]
      rw [hmsms]
      simp only
      have hvg : psets.zipIdx.map (fun pi => (pi.1,
          ((cm.map (fun d => (d.setIndex, termsOf (ref d.com) (psets.getD d.setIndex []), d.evals))).filter (fun t => t.1 = pi.2)).map (fun t => t.2))) =
          verifierGroups G := by
        rw [hG, groupsOfRef, verifierGroups, List.map_map]
        apply List.map_congr_left
        rintro ⟨S, i⟩ hSi
        have hSi' : psets[i]? = some S := (mem_zipIdx' psets S i).1 hSi
        simp only [Function.comp, Prod.mk.injEq, true_and]
        rw [List.filter_map, List.map_map, List.map_map]
        apply List.map_congr_left
        intro d hd
        obtain ⟨hdcm, hdi⟩ := List.mem_filter.1 hd
        simp only [Function.comp, decide_eq_true_eq] at hdi
        obtain ⟨-, S', hS', -, -, -, hev⟩ := hfacts d hdcm
        have hSS : S' = S := by rw [hdi, hSi'] at hS'; exact (Option.some.inj hS').symm
        subst hSS
        simp [hev, hdi, hSi']
      rw [hvg]
      exact hprep

end
end MidnightZK.C14
