import MidnightZK.Proofs.C14.Complete
/-! Algebraic core of the soundness of the multi-opening (C14), with explicit counts of the
exceptional challenges: a wrong claimed evaluation survives the `x₁`-fold of its set for at most
`#polynomials − 1` values of `x₁`, the `x₂`-fold of the sets for at most `#sets − 1` values of
`x₂`, the identity test at `x₃` for at most `nMax + #points − 1` values of `x₃`, and the
`x₄`-fold of the final opening for at most `#sets` values of `x₄`. -/
namespace MidnightZK.C14

open Polynomial

section
variable {F : Type} [Field F] [DecidableEq F]
set_option linter.unusedSectionVars false

theorem toPoly_coeff (cs : List F) (i : Nat) : (toPoly cs).coeff i = cs.getD i 0 := by
  induction cs generalizing i with
  | nil => simp
  | cons c t ih =>
    cases i with
    | zero => simp
    | succ i => simp [ih, coeff_X_mul]

theorem toPoly_ne_zero (cs : List F) (h : ∃ c ∈ cs, c ≠ 0) : toPoly cs ≠ 0 := by
  obtain ⟨c, hc, hne⟩ := h
  obtain ⟨i, hi, rfl⟩ := List.mem_iff_getElem.1 hc
  intro h0
  have := toPoly_coeff cs i
  rw [h0, coeff_zero, List.getD_eq_getElem?_getD, List.getElem?_eq_getElem hi] at this
  exact hne this.symm

theorem toPoly_natDegree_le (cs : List F) : (toPoly cs).natDegree ≤ cs.length - 1 := by
  by_cases h : toPoly cs = 0
  · rw [h]; simp
  · have := toPoly_degree_lt cs
    rw [degree_eq_natDegree h] at this
    have : (toPoly cs).natDegree < cs.length := by exact_mod_cast this
    omega

/-- Schwartz–Zippel in one variable for a Horner fold: a coefficient list that is not all zero
evaluates to zero at no more than `length − 1` points. -/
theorem horner_bad_set (cs : List F) (h : ∃ c ∈ cs, c ≠ 0) :
    ∃ bad : Finset F, bad.card ≤ cs.length - 1 ∧ ∀ x, evalPoly cs x = 0 → x ∈ bad := by
  have hne := toPoly_ne_zero cs h
  refine ⟨(toPoly cs).roots.toFinset, ?_, ?_⟩
  · calc (toPoly cs).roots.toFinset.card ≤ Multiset.card (toPoly cs).roots := Multiset.toFinset_card_le _
      _ ≤ (toPoly cs).natDegree := card_roots' _
      _ ≤ cs.length - 1 := toPoly_natDegree_le cs
  · intro x hx
    rw [Multiset.mem_toFinset, mem_roots hne, IsRoot.def, toPoly_eval]
    exact hx

/-- The same for an arbitrary non-zero polynomial. -/
theorem poly_bad_set (P : F[X]) (h : P ≠ 0) :
    ∃ bad : Finset F, bad.card ≤ P.natDegree ∧ ∀ x, P.eval x = 0 → x ∈ bad := by
  refine ⟨P.roots.toFinset, ?_, ?_⟩
  · exact le_trans (Multiset.toFinset_card_le _) (card_roots' _)
  · intro x hx
    rw [Multiset.mem_toFinset, mem_roots h, IsRoot.def]
    exact hx

theorem evalPoly_sub_zip (a b : List F) (x : F) (h : a.length = b.length) :
    evalPoly (List.zipWith (· - ·) a b) x = evalPoly a x - evalPoly b x := by
  induction a generalizing b with
  | nil => cases b <;> simp_all
  | cons c t ih =>
    cases b with
    | nil => simp at h
    | cons d u =>
      simp only [List.zipWith_cons_cons, evalPoly_cons]
      rw [ih u (by simpa using h)]
      ring

/-- Two different lists of the same length have the same Horner value at no more than
`length − 1` points. -/
theorem horner_diff_bad_set (a b : List F) (hlen : a.length = b.length) (hne : a ≠ b) :
    ∃ bad : Finset F, bad.card ≤ a.length - 1 ∧ ∀ x, evalPoly a x = evalPoly b x → x ∈ bad := by
  have hex : ∃ c ∈ List.zipWith (· - ·) a b, c ≠ 0 := by
    by_contra hcon
    push Not at hcon
    apply hne
    apply List.ext_getElem hlen
    intro i h1 h2
    have hi : i < (List.zipWith (· - ·) a b).length := by simp; omega
    have := hcon _ (List.getElem_mem hi)
    rw [List.getElem_zipWith] at this
    exact sub_eq_zero.1 this
  obtain ⟨bad, hcard, hmem⟩ := horner_bad_set _ hex
  refine ⟨bad, ?_, ?_⟩
  · have : (List.zipWith (· - ·) a b).length = a.length := by simp; omega
    rw [this] at hcard; exact hcard
  · intro x hx
    apply hmem
    rw [evalPoly_sub_zip a b x hlen, hx, sub_self]

-- ---------------------------------------------------------------------------------------------
-- x₁: the fold of the claimed evaluations of one set

/-- Position `t` of `evals_inner_product(evals_set, powers(x).take(n))`: `Σⱼ evalsⱼ[t]·xʲ`, for
ANY claimed evaluation vectors of a common length `L` (at least one, no more than `n`). -/
theorem evalsInnerProduct_general (x : F) (L : Nat) (E : List (List F)) (hE : E ≠ [])
    (hlen : ∀ e ∈ E, e.length = L) (n : Nat) (hn : E.length ≤ n) :
    evalsInnerProduct E (powersN x n 1) =
      some ((List.range L).map (fun t => evalPoly (E.map (fun e => e.getD t 0)) x)) := by
  have gen : ∀ (E : List (List F)) (n : Nat) (cur : F) (g : Nat → F),
      (∀ e ∈ E, e.length = L) → E.length ≤ n →
      (E.zip (powersN x n cur)).foldlM
        (fun (res : List F) es => if es.1.length < res.length then none
          else some (List.zipWith (fun r e => r + e * es.2) res es.1)) ((List.range L).map g) =
      some ((List.range L).map (fun t => g t + cur * evalPoly (E.map (fun e => e.getD t 0)) x)) := by
    intro E
    induction E with
    | nil => intro n cur g _ _; simp
    | cons e E ih =>
      intro n cur g hl hn
      cases n with
      | zero => simp at hn
      | succ n =>
        have hn' : E.length ≤ n := by simpa using hn
        have hel : e.length = L := hl e (List.mem_cons_self ..)
        simp only [powersN, List.zip_cons_cons, List.foldlM_cons]
        have hlt : ¬ e.length < ((List.range L).map g).length := by simp [hel]
        rw [if_neg hlt]
        simp only [Option.bind_eq_bind, Option.bind_some]
        have hres : List.zipWith (fun r e => r + e * cur) ((List.range L).map g) e =
            (List.range L).map (fun t => g t + e.getD t 0 * cur) := by
          apply List.ext_getElem
          · simp [hel]
          · intro i h1 h2
            have hi : i < L := by simpa using h2
            simp [List.getD_eq_getElem?_getD, List.getElem?_eq_getElem (hel ▸ hi)]
        rw [hres, ih n (x * cur) _ (fun e' he' => hl e' (List.mem_cons_of_mem _ he')) hn']
        congr 1
        apply List.map_congr_left
        intro t _
        simp; ring
  obtain ⟨e0, E', rfl⟩ := List.exists_cons_of_ne_nil hE
  have h0 : List.replicate e0.length (0 : F) = (List.range L).map (fun _ => (0 : F)) := by
    rw [hlen e0 (List.mem_cons_self ..)]
    apply List.ext_getElem <;> simp
  simp only [evalsInnerProduct]
  rw [h0, gen (e0 :: E') n 1 (fun _ => 0) hlen hn]
  congr 1
  apply List.map_congr_left
  intro t _
  simp

theorem getD_map_range (L t : Nat) (f : Nat → F) (ht : t < L) :
    ((List.range L).map f).getD t 0 = f t := by
  rw [List.getD_eq_getElem?_getD, List.getElem?_map, List.getElem?_range ht]; rfl

theorem evalPoly_map_sub {α : Type} (l : List α) (f g : α → F) (x : F) :
    evalPoly (l.map (fun a => f a - g a)) x = evalPoly (l.map f) x - evalPoly (l.map g) x := by
  induction l with
  | nil => simp
  | cons a l ih => simp only [List.map_cons, evalPoly_cons, ih]; ring

/-- `inner_product(polys, powers(x₁))` exists for polynomials of a common length and its value
at any `z` is the `x₁`-fold of the values. -/
theorem innerProduct_eval_at (x1 : F) (pe : List (List F × List F)) (nMax : Nat)
    (hpl : ∀ p ∈ pe, p.1.length = nMax) (hne : pe ≠ []) :
    ∃ q, innerProduct (pe.map (·.1)) x1 = some q ∧
      ∀ z, evalPoly q z = evalPoly (pe.map (fun p => evalPoly p.1 z)) x1 := by
  obtain ⟨p0, rest, rfl⟩ := List.exists_cons_of_ne_nil hne
  have hl : ∀ q ∈ rest.map (·.1), q.length ≤ p0.1.length := by
    intro q hq
    obtain ⟨p, hp, rfl⟩ := List.mem_map.1 hq
    rw [hpl p (List.mem_cons_of_mem _ hp), hpl p0 (List.mem_cons_self ..)]
  obtain ⟨q, hq, -, hqp⟩ := innerProduct_spec x1 p0.1 (rest.map (·.1)) hl
  refine ⟨q, hq, fun z => ?_⟩
  rw [evalPoly_eq_eval_combo x1 z _ q hqp]
  simp [List.map_map, Function.comp_def]

/-- **`x₁` step of soundness, with the count.** One set of the multi-opening: points `S`,
polynomials `pⱼ` with claimed evaluation vectors `eⱼ` (`|eⱼ| = |S|`, as
`construct_intermediate_sets` builds them). If one claimed evaluation is wrong —
`eⱼ[t] ≠ pⱼ(S[t])` for some `j`, `t` — then for all `x₁` outside a set of at most
`#polynomials − 1` values, the `x₁`-folded claim at position `t` (what `evals_inner_product`
returns and `lagrange_interpolate` interpolates) differs from the value at `S[t]` of the
`x₁`-folded polynomial (what `inner_product` returns and the prover commits to). -/
theorem x1_fold_sound_count_aux (S : List F) (pe : List (List F × List F)) (nMax : Nat)
    (hpl : ∀ p ∈ pe, p.1.length = nMax) (hel : ∀ p ∈ pe, p.2.length = S.length)
    (t : Nat) (ht : t < S.length)
    (hwrong : ∃ p ∈ pe, p.2.getD t 0 ≠ evalPoly p.1 (S.getD t 0)) :
    ∃ bad : Finset F, bad.card ≤ pe.length - 1 ∧
      ∀ x1, x1 ∉ bad → ∀ nb, pe.length ≤ nb →
        ∃ q es, innerProduct (pe.map (·.1)) x1 = some q ∧
          evalsInnerProduct (pe.map (·.2)) (powersN x1 nb 1) = some es ∧
          es.length = S.length ∧ es.getD t 0 ≠ evalPoly q (S.getD t 0) := by
  have hne : pe ≠ [] := by
    obtain ⟨p, hp, -⟩ := hwrong
    exact List.ne_nil_of_mem hp
  -- the difference list `eⱼ[t] − pⱼ(S[t])`
  have hex : ∃ c ∈ pe.map (fun p => p.2.getD t 0 - evalPoly p.1 (S.getD t 0)), c ≠ 0 := by
    obtain ⟨p, hp, hw⟩ := hwrong
    exact ⟨_, List.mem_map.2 ⟨p, hp, rfl⟩, sub_ne_zero.2 hw⟩
  obtain ⟨bad, hcard, hmem⟩ := horner_bad_set _ hex
  rw [List.length_map] at hcard
  refine ⟨bad, hcard, ?_⟩
  intro x1 hx1 nb hnb
  obtain ⟨q, hq, hqz⟩ := innerProduct_eval_at x1 pe nMax hpl hne
  have hes := evalsInnerProduct_general x1 S.length (pe.map (·.2)) (by simpa using hne)
    (by intro e he; obtain ⟨p, hp, rfl⟩ := List.mem_map.1 he; exact hel p hp) nb (by simpa using hnb)
  refine ⟨q, _, hq, hes, by simp, ?_⟩
  intro heq
  apply hx1
  apply hmem
  have hest : ((List.range S.length).map
      (fun t => evalPoly ((pe.map (·.2)).map (fun e => e.getD t 0)) x1)).getD t 0 =
      evalPoly (pe.map (fun p => p.2.getD t 0)) x1 := by
    rw [getD_map_range _ _ _ ht, List.map_map]
    rfl
  rw [hest] at heq
  rw [evalPoly_map_sub pe (fun p => p.2.getD t 0) (fun p => evalPoly p.1 (S.getD t 0)) x1, heq,
    ← hqz, sub_self]

-- ---------------------------------------------------------------------------------------------
-- x₂: the fold of the sets

/-- `∏ (X − p)` over the points of `U` outside `S`: `Z_U / Z_S` when `S ⊆ U`. -/
noncomputable def coVanishing (U S : List F) : F[X] := vanishing (U.filter (fun p => p ∉ S))

theorem vanishing_perm {A B : List F} (h : A.Perm B) : vanishing A = vanishing B := by
  unfold vanishing
  exact (h.map _).prod_eq

theorem vanishing_append (A B : List F) : vanishing (A ++ B) = vanishing A * vanishing B := by
  unfold vanishing
  rw [List.map_append, List.prod_append]

/-- `Z_U = Z_S · (Z_U / Z_S)` for `S ⊆ U` without repetitions. -/
theorem vanishing_split (U S : List F) (hU : U.Nodup) (hS : S.Nodup) (hsub : ∀ p ∈ S, p ∈ U) :
    vanishing U = vanishing S * coVanishing U S := by
  have h1 : U.Perm (U.filter (fun p => p ∈ S) ++ U.filter (fun p => p ∉ S)) := by
    have := List.filter_append_perm (fun p => decide (p ∈ S)) U
    simpa using this.symm
  have h2 : (U.filter (fun p => p ∈ S)).Perm S := by
    apply (List.perm_ext_iff_of_nodup (hU.filter _) hS).2
    intro a
    simp only [List.mem_filter, decide_eq_true_eq]
    exact ⟨fun h => h.2, fun h => ⟨hsub a h, h⟩⟩
  rw [vanishing_perm h1, vanishing_append, vanishing_perm h2, coVanishing]

theorem coVanishing_eval_ne_zero {U S : List F} {z : F} (hz : z ∈ S) : (coVanishing U S).eval z ≠ 0 := by
  apply vanishing_eval_ne_zero
  simp [hz]

/-- `q − r = Z_S · kateFold(q, S)` when `r` (degree `< |S|`) agrees with `q` on the distinct
points of `S`. -/
theorem right_divisible (q r S : List F) (hS : S.Nodup) (hr : r.length ≤ S.length)
    (hagree : ∀ z ∈ S, evalPoly r z = evalPoly q z) :
    toPoly q - toPoly r = vanishing S * toPoly (kateFold q S) := by
  obtain ⟨R, hdeg, hq⟩ := kateFold_spec S q
  have hRr : R = toPoly r := by
    apply eq_of_degree_sub_lt_of_eval_finset_eq S.toFinset
    · rw [List.toFinset_card_of_nodup hS]
      refine lt_of_le_of_lt (degree_sub_le _ _) ?_
      rw [max_lt_iff]
      exact ⟨hdeg, lt_of_lt_of_le (toPoly_degree_lt r) (by exact_mod_cast hr)⟩
    · intro z hz
      have hz' : z ∈ S := List.mem_toFinset.1 hz
      have h1 := congrArg (Polynomial.eval z) hq
      simp only [eval_add, eval_mul, vanishing_eval_eq_zero_of_mem hz', zero_mul, zero_add, toPoly_eval] at h1
      rw [toPoly_eval, ← h1, hagree z hz']
  rw [hq, hRr]; ring

/-- The numerator of `f = Σᵢ x₂ⁱ·(qᵢ − rᵢ)/Z_{Sᵢ}` over the common denominator `Z_U`:
`Σᵢ x₂ⁱ·(qᵢ − rᵢ)·(Z_U/Z_{Sᵢ})`; a set is `(Sᵢ, qᵢ, rᵢ)`. -/
noncomputable def fNumerator (U : List F) (x2 : F) : List (List F × List F × List F) → F[X]
  | [] => 0
  | g :: gs => (toPoly g.2.1 - toPoly g.2.2) * coVanishing U g.1 + C x2 * fNumerator U x2 gs

theorem fNumerator_eval (U : List F) (x2 z : F) (gs : List (List F × List F × List F)) :
    (fNumerator U x2 gs).eval z =
      evalPoly (gs.map (fun g => (evalPoly g.2.1 z - evalPoly g.2.2 z) * (coVanishing U g.1).eval z)) x2 := by
  induction gs with
  | nil => simp [fNumerator]
  | cons g gs ih => simp [fNumerator, ih, toPoly_eval]

/-- **`x₂` step of soundness, with the count.** Sets `(Sᵢ, qᵢ, rᵢ)` (points, `x₁`-folded
polynomial, the polynomial interpolated from the `x₁`-folded claims), `U` a list containing all
the points. If for one set `rᵢ` differs from `qᵢ` at a point of `Sᵢ` (a wrong claim that survived
the `x₁`-fold), then for all `x₂` outside a set of at most `#sets − 1` values there is NO
polynomial `f` with `f·Z_U = Σᵢ x₂ⁱ·(qᵢ − rᵢ)·Z_U/Z_{Sᵢ}`, i.e. (`vanishing_split`) the function
`Σᵢ x₂ⁱ·(qᵢ − rᵢ)/Z_{Sᵢ}` the prover has to commit to is not a polynomial. -/
theorem x2_fold_not_polynomial_count_aux (U : List F) (gs : List (List F × List F × List F))
    (hsub : ∀ g ∈ gs, ∀ p ∈ g.1, p ∈ U)
    (hwrong : ∃ g ∈ gs, ∃ z ∈ g.1, evalPoly g.2.2 z ≠ evalPoly g.2.1 z) :
    ∃ bad : Finset F, bad.card ≤ gs.length - 1 ∧
      ∀ x2, x2 ∉ bad → ¬ ∃ f : F[X], f * vanishing U = fNumerator U x2 gs := by
  obtain ⟨g, hg, z, hz, hw⟩ := hwrong
  let cs := gs.map (fun g => (evalPoly g.2.1 z - evalPoly g.2.2 z) * (coVanishing U g.1).eval z)
  have hex : ∃ c ∈ cs, c ≠ 0 :=
    ⟨_, List.mem_map.2 ⟨g, hg, rfl⟩,
      mul_ne_zero (sub_ne_zero.2 (Ne.symm hw)) (coVanishing_eval_ne_zero hz)⟩
  obtain ⟨bad, hcard, hmem⟩ := horner_bad_set cs hex
  refine ⟨bad, by simpa [cs] using hcard, ?_⟩
  rintro x2 hx2 ⟨f, hf⟩
  apply hx2
  apply hmem
  have := congrArg (Polynomial.eval z) hf
  rw [eval_mul, vanishing_eval_eq_zero_of_mem (hsub g hg z hz), mul_zero, fNumerator_eval] at this
  exact this.symm

/-- Conversely (completeness of the same formulation): when every `rᵢ` agrees with `qᵢ` on `Sᵢ`,
the polynomial `Σᵢ x₂ⁱ·kateFold(qᵢ, Sᵢ)` `multi_open` commits to satisfies the identity — for every
`x₂`. -/
theorem x2_fold_polynomial_of_right (U : List F) (hU : U.Nodup) (x2 : F)
    (gs : List (List F × List F × List F))
    (hsub : ∀ g ∈ gs, ∀ p ∈ g.1, p ∈ U) (hnd : ∀ g ∈ gs, g.1.Nodup)
    (hr : ∀ g ∈ gs, g.2.2.length ≤ g.1.length)
    (hagree : ∀ g ∈ gs, ∀ z ∈ g.1, evalPoly g.2.2 z = evalPoly g.2.1 z) :
    combo x2 (gs.map (fun g => kateFold g.2.1 g.1)) * vanishing U = fNumerator U x2 gs := by
  induction gs with
  | nil => simp [combo, fNumerator]
  | cons g gs ih =>
    have hg : g ∈ g :: gs := List.mem_cons_self ..
    have ih' := ih (fun g' h' => hsub g' (List.mem_cons_of_mem _ h'))
      (fun g' h' => hnd g' (List.mem_cons_of_mem _ h'))
      (fun g' h' => hr g' (List.mem_cons_of_mem _ h'))
      (fun g' h' => hagree g' (List.mem_cons_of_mem _ h'))
    have hdiv := right_divisible g.2.1 g.2.2 g.1 (hnd g hg) (hr g hg) (hagree g hg)
    simp only [List.map_cons, combo, fNumerator]
    rw [add_mul, mul_assoc, ih', hdiv, vanishing_split U g.1 hU (hnd g hg) (hsub g hg)]
    ring

-- ---------------------------------------------------------------------------------------------
-- x₃: the identity test

/-- The `f_eval` fold of `multi_prepare` is a Horner fold in `x₂`: for ANY claimed evaluation
vectors and `q` evaluations, if `lagrange_interpolate` returns `r pe` for the set `pe` and `x₃` is
outside the point sets, the verifier's `f_eval` is `Σᵢ x₂ⁱ·(proof_evalᵢ − rᵢ(x₃))/∏(x₃ − p)`. -/
theorem fEvalStep_fold (inv : F → F) (x2 x3 : F)
    (L : List (((List F × List (List (F × Base) × List F)) × List F) × F))
    (r : (((List F × List (List (F × Base) × List F)) × List F) × F) → List F)
    (hr : ∀ pe ∈ L, lagrangeInterpolate inv pe.1.1.1 pe.1.2 = some (r pe))
    (hx : ∀ pe ∈ L, x3 ∉ pe.1.1.1) :
    L.foldr (fEvalStep inv x2 x3) (some 0) =
      some (evalPoly (L.map (fun pe => (pe.2 - evalPoly (r pe) x3) *
        inv (pe.1.1.1.foldl (fun a p => a * (x3 - p)) 1))) x2) := by
  induction L with
  | nil => rfl
  | cons pe L ih =>
    rw [List.foldr_cons, ih (fun pe' h' => hr pe' (List.mem_cons_of_mem _ h'))
      (fun pe' h' => hx pe' (List.mem_cons_of_mem _ h'))]
    have hden : pe.1.1.1.foldl (fun a p => a * (x3 - p)) 1 ≠ 0 := by
      rw [← vanishing_eval]; exact vanishing_eval_ne_zero (hx pe (List.mem_cons_self ..))
    simp only [fEvalStep, hr pe (List.mem_cons_self ..), if_neg hden, List.map_cons, evalPoly_cons]
    congr 1
    ring

theorem evalPoly_map_mul {α : Type} (l : List α) (c : F) (f : α → F) (x : F) :
    evalPoly (l.map (fun a => c * f a)) x = c * evalPoly (l.map f) x := by
  induction l with
  | nil => simp
  | cons a l ih => simp only [List.map_cons, evalPoly_cons, ih]; ring

/-- Outside `U`, the numerator is `Z_U(x₃)` times the verifier's `f_eval` expression. -/
theorem fNumerator_eval_outside (U : List F) (hU : U.Nodup) (x2 x3 : F)
    (gs : List (List F × List F × List F))
    (hsub : ∀ g ∈ gs, ∀ p ∈ g.1, p ∈ U) (hnd : ∀ g ∈ gs, g.1.Nodup) (hx : x3 ∉ U) :
    (fNumerator U x2 gs).eval x3 = (vanishing U).eval x3 *
      evalPoly (gs.map (fun g => (evalPoly g.2.1 x3 - evalPoly g.2.2 x3) *
        (g.1.foldl (fun a p => a * (x3 - p)) 1)⁻¹)) x2 := by
  rw [fNumerator_eval, ← evalPoly_map_mul]
  congr 1
  apply List.map_congr_left
  intro g hg
  have hxs : x3 ∉ g.1 := fun h => hx (hsub g hg x3 h)
  have hne := vanishing_eval_ne_zero hxs
  have hsplit := congrArg (Polynomial.eval x3) (vanishing_split U g.1 hU (hnd g hg) (hsub g hg))
  rw [eval_mul] at hsplit
  rw [← vanishing_eval, hsplit]
  field_simp

/-- **`x₃` step of soundness, with the count.** If the polynomial `f` behind the commitment
`f_com` does NOT satisfy the identity `f·Z_U = Σᵢ x₂ⁱ·(qᵢ − rᵢ)·Z_U/Z_{Sᵢ}` (and by
`x2_fold_not_polynomial_count` no polynomial does when a claim is wrong), then for all `x₃`
outside `U` and outside a set of at most `deg(f·Z_U − numerator)` values, the value `f(x₃)` differs
from the `f_eval` the verifier computes from the true `qᵢ(x₃)` (`fEvalStep_fold`). -/
theorem x3_identity_sound_count_aux (U : List F) (hU : U.Nodup) (x2 : F)
    (gs : List (List F × List F × List F))
    (hsub : ∀ g ∈ gs, ∀ p ∈ g.1, p ∈ U) (hnd : ∀ g ∈ gs, g.1.Nodup)
    (f : F[X]) (hne : f * vanishing U ≠ fNumerator U x2 gs) :
    ∃ bad : Finset F, bad.card ≤ (f * vanishing U - fNumerator U x2 gs).natDegree ∧
      ∀ x3, x3 ∉ bad → x3 ∉ U →
        f.eval x3 ≠ evalPoly (gs.map (fun g => (evalPoly g.2.1 x3 - evalPoly g.2.2 x3) *
          (g.1.foldl (fun a p => a * (x3 - p)) 1)⁻¹)) x2 := by
  obtain ⟨bad, hcard, hmem⟩ := poly_bad_set _ (sub_ne_zero.2 hne)
  refine ⟨bad, hcard, ?_⟩
  intro x3 hx3 hxU heq
  apply hx3
  apply hmem
  rw [eval_sub, eval_mul, fNumerator_eval_outside U hU x2 x3 gs hsub hnd hxU, heq]
  ring

theorem fNumerator_natDegree_le (U : List F) (x2 : F) (nMax : Nat)
    (gs : List (List F × List F × List F))
    (hq : ∀ g ∈ gs, g.2.1.length ≤ nMax) (hr : ∀ g ∈ gs, g.2.2.length ≤ nMax) :
    (fNumerator U x2 gs).natDegree ≤ nMax - 1 + U.length := by
  induction gs with
  | nil => simp [fNumerator]
  | cons g gs ih =>
    have ih' := ih (fun g' h' => hq g' (List.mem_cons_of_mem _ h')) (fun g' h' => hr g' (List.mem_cons_of_mem _ h'))
    have hg : g ∈ g :: gs := List.mem_cons_self ..
    simp only [fNumerator]
    refine le_trans (natDegree_add_le _ _) (max_le ?_ (le_trans (natDegree_C_mul_le _ _) ih'))
    refine le_trans natDegree_mul_le (Nat.add_le_add ?_ ?_)
    · refine le_trans (natDegree_sub_le _ _) (max_le ?_ ?_)
      · exact le_trans (toPoly_natDegree_le _) (Nat.sub_le_sub_right (hq g hg) 1)
      · exact le_trans (toPoly_natDegree_le _) (Nat.sub_le_sub_right (hr g hg) 1)
    · rw [coVanishing, vanishing_natDegree]
      exact List.length_filter_le _ _

/-- The explicit count of the `x₃` step: at most `nMax − 1 + #points` exceptional values when the
committed polynomial and all `qᵢ`, `rᵢ` have at most `nMax` coefficients. -/
theorem x3_degree_bound (U : List F) (x2 : F) (nMax : Nat)
    (gs : List (List F × List F × List F))
    (hq : ∀ g ∈ gs, g.2.1.length ≤ nMax) (hr : ∀ g ∈ gs, g.2.2.length ≤ nMax)
    (f : F[X]) (hf : f.natDegree ≤ nMax - 1) :
    (f * vanishing U - fNumerator U x2 gs).natDegree ≤ nMax - 1 + U.length := by
  refine le_trans (natDegree_sub_le _ _) (max_le ?_ (fNumerator_natDegree_le U x2 nMax gs hq hr))
  refine le_trans natDegree_mul_le (Nat.add_le_add hf ?_)
  rw [vanishing_natDegree]

-- ---------------------------------------------------------------------------------------------
-- x₄: the fold of the final opening

/-- **`x₄` step of soundness, with the count.** If the values the verifier folds into `v`
(`q_evals_on_x3` read from the proof, then `f_eval`) are not the values at `x₃` of the polynomials
folded into the final polynomial (`qᵢ`, then `f`), then for all `x₄` outside a set of at most
`#sets` values the verifier's `v` is not the value of the final polynomial at `x₃` — and then
(`pi_unique`) no witness polynomial `π` exists. -/
theorem x4_fold_sound_count_aux (claimed truth : List F) (hlen : claimed.length = truth.length)
    (hne : claimed ≠ truth) :
    ∃ bad : Finset F, bad.card ≤ claimed.length - 1 ∧
      ∀ x4, x4 ∉ bad → evalPoly claimed x4 ≠ evalPoly truth x4 := by
  obtain ⟨bad, hcard, hmem⟩ := horner_diff_bad_set claimed truth hlen hne
  exact ⟨bad, hcard, fun x4 hx4 heq => hx4 (hmem x4 heq)⟩

end
end MidnightZK.C14
