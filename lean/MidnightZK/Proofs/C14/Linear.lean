import MidnightZK.Proofs.C14.Poly
/-! Linearity lemmas of C14: `inner_product`, `msm_inner_product`, `evals_inner_product`,
`resize`, all expressed through Horner evaluation in the combining challenge. -/
namespace MidnightZK.C14

open Polynomial

section
variable {F : Type} [Field F]

/-- `Σ pᵢ·xⁱ` as a polynomial (Horner in `x`). -/
noncomputable def combo (x : F) : List (List F) → F[X]
  | [] => 0
  | p :: ps => toPoly p + C x * combo x ps

theorem combo_eval (x y : F) (ps : List (List F)) :
    (combo x ps).eval y = evalPoly (ps.map (fun p => evalPoly p y)) x := by
  induction ps with
  | nil => simp [combo]
  | cons p ps ih => simp [combo, ih, toPoly_eval]

theorem innerProductFrom_length (x : F) : ∀ (ps : List (List F)) (cur : F) (acc : List F),
    (innerProductFrom x cur ps acc).length = acc.length := by
  intro ps
  induction ps with
  | nil => intro cur acc; simp [innerProductFrom]
  | cons p ps ih => intro cur acc; rw [innerProductFrom, ih, polyAdd_length]

theorem innerProductFrom_spec (x : F) : ∀ (ps : List (List F)) (cur : F) (acc : List F),
    (∀ p ∈ ps, p.length ≤ acc.length) →
    toPoly (innerProductFrom x cur ps acc) = toPoly acc + C cur * combo x ps := by
  intro ps
  induction ps with
  | nil => intro cur acc _; simp [innerProductFrom, combo]
  | cons p ps ih =>
    intro cur acc h
    have hp : p.length ≤ acc.length := h p (List.mem_cons_self ..)
    rw [innerProductFrom, ih]
    · rw [toPoly_polyAdd _ _ (by rw [polyScale_length]; exact hp), toPoly_polyScale, combo, C_mul]
      ring
    · intro q hq
      rw [polyAdd_length]
      exact h q (List.mem_cons_of_mem _ hq)

/-- `inner_product(polys, powers(x))` is `Σ pᵢ·xⁱ` when no polynomial is longer than the first. -/
theorem innerProduct_spec (x : F) (p : List F) (ps : List (List F))
    (h : ∀ q ∈ ps, q.length ≤ p.length) :
    ∃ r, innerProduct (p :: ps) x = some r ∧ r.length = p.length ∧ toPoly r = combo x (p :: ps) := by
  refine ⟨_, rfl, ?_, ?_⟩
  · rw [innerProductFrom_length, polyScale_length]
  · rw [innerProductFrom_spec x ps _ _ (by simpa [polyScale_length] using h), toPoly_polyScale, combo]
    simp

theorem innerProductScalars_spec (x : F) (v : F) (vs : List F) :
    innerProductScalars (v :: vs) x = some (evalPoly (v :: vs) x) := by
  have gen : ∀ (vs : List F) (a c : F),
      (vs.foldl (fun (st : F × F) w => (st.1 + w * st.2, x * st.2)) (a, c)).1 = a + c * evalPoly vs x := by
    intro vs
    induction vs with
    | nil => intro a c; simp
    | cons w ws ih => intro a c; rw [List.foldl_cons, ih]; simp; ring
  simp only [innerProductScalars, gen]
  simp

theorem toPoly_append_zeros (l : List F) (k : Nat) : toPoly (l ++ List.replicate k 0) = toPoly l := by
  induction l with
  | nil =>
    induction k with
    | zero => simp
    | succ k ih => simp [List.replicate_succ] at ih ⊢; exact ih
  | cons c t ih => simp [ih]

theorem toPoly_resize (l : List F) (n : Nat) (h : l.length ≤ n) : toPoly (resize l n) = toPoly l := by
  unfold resize
  rw [List.take_of_length_le (by simp; omega), toPoly_append_zeros]

theorem resize_length (l : List F) (n : Nat) : (resize l n).length = n := by
  unfold resize
  simp; omega

/-- Value of an MSM on discrete logarithms: additivity. -/
theorem msmLog_append (dlog : Base → F) (a b : List (F × Base)) :
    msmLog dlog (a ++ b) = msmLog dlog a + msmLog dlog b := by
  induction a with
  | nil => simp [msmLog]
  | cons t a ih =>
    simp only [msmLog, List.cons_append, List.foldr_cons] at ih ⊢
    rw [ih]; ring

theorem msmLog_scale (dlog : Base → F) (m : List (F × Base)) (c : F) :
    msmLog dlog (m.map (fun t => (t.1 * c, t.2))) = c * msmLog dlog m := by
  induction m with
  | nil => simp [msmLog]
  | cons t m ih =>
    simp only [msmLog, List.map_cons, List.foldr_cons] at ih ⊢
    rw [ih]; ring

/-- `msm_inner_product(msms, powers(x).take(n))` evaluates to `Σ xʲ·log(msmⱼ)` when there are at
least as many powers as MSMs. -/
theorem msmInnerProduct_spec (dlog : Base → F) (x : F) : ∀ (msms : List (List (F × Base))) (n : Nat) (cur : F),
    msms.length ≤ n →
    msmLog dlog (msmInnerProduct msms (powersN x n cur)) = cur * evalPoly (msms.map (msmLog dlog)) x := by
  intro msms
  induction msms with
  | nil => intro n cur _; simp [msmInnerProduct, msmLog]
  | cons m ms ih =>
    intro n cur h
    cases n with
    | zero => simp at h
    | succ n =>
      have h' : ms.length ≤ n := by simpa using h
      have ih' := ih n (x * cur) h'
      simp only [msmInnerProduct, powersN, List.zip_cons_cons, List.map_cons, List.flatten_cons] at ih' ⊢
      rw [msmLog_append, msmLog_scale, ih']
      simp; ring

theorem powersN_length (x : F) : ∀ (n : Nat) (cur : F), (powersN x n cur).length = n := by
  intro n
  induction n with
  | zero => intro cur; simp [powersN]
  | succ n ih => intro cur; simp [powersN, ih]

/-- `evals_inner_product(evals_set, powers(x))`: position `t` holds `Σ_j evalsⱼ[t]·xʲ`, here for the
evaluations of polynomials at the points of a set. -/
theorem evalsInnerProduct_spec (x : F) (S : List F) (p : List F) (ps : List (List F)) (n : Nat)
    (hn : (p :: ps).length ≤ n) :
    evalsInnerProduct ((p :: ps).map (fun q => S.map (fun z => evalPoly q z))) (powersN x n 1) =
      some (S.map (fun z => evalPoly ((p :: ps).map (fun q => evalPoly q z)) x)) := by
  have gen : ∀ (qs : List (List F)) (n : Nat) (cur : F) (g : F → F),
      qs.length ≤ n →
      ((qs.map (fun q => S.map (fun z => evalPoly q z))).zip (powersN x n cur)).foldlM
        (fun (res : List F) es => if es.1.length < res.length then none
          else some (List.zipWith (fun r e => r + e * es.2) res es.1)) (S.map g) =
      some (S.map (fun z => g z + cur * evalPoly (qs.map (fun q => evalPoly q z)) x)) := by
    intro qs
    induction qs with
    | nil => intro n cur g _; simp
    | cons q qs ih =>
      intro n cur g hn
      cases n with
      | zero => simp at hn
      | succ n =>
        have hn' : qs.length ≤ n := by simpa using hn
        simp only [List.map_cons, powersN, List.zip_cons_cons, List.foldlM_cons]
        have hlen : ¬ (S.map (fun z => evalPoly q z)).length < (S.map g).length := by simp
        rw [if_neg hlen]
        simp only [Option.bind_eq_bind, Option.bind_some]
        have hres' : List.zipWith (fun r e => r + e * cur) (S.map g) (S.map (fun z => evalPoly q z)) =
            S.map (fun z => g z + evalPoly q z * cur) := by
          rw [List.zipWith_map_left, List.zipWith_map_right, List.zipWith_self]
        rw [hres', ih n (x * cur) _ hn']
        congr 1
        apply List.map_congr_left
        intro z _
        simp; ring
  have h0 : List.replicate (S.map (fun z => evalPoly p z)).length (0 : F) = S.map (fun _ => (0 : F)) := by
    simp [List.map_const']
  simp only [evalsInnerProduct, List.map_cons]
  rw [h0]
  have := gen (p :: ps) n 1 (fun _ => 0) hn
  simp only [List.map_cons] at this
  rw [this]
  congr 1
  apply List.map_congr_left
  intro z _
  simp

end
end MidnightZK.C14
