import Mathlib.Algebra.Polynomial.Roots
import Mathlib.Algebra.Polynomial.Degree.Lemmas
import Mathlib.Tactic.Ring
import Mathlib.Tactic.LinearCombination
import Mathlib.Tactic.FieldSimp
import MidnightZK.Model.C14.Open
/-! Helper lemmas for the opening algebra of C14: coefficient lists as `Polynomial F`. -/
namespace MidnightZK.C14

open Polynomial

section
variable {F : Type} [Field F]

/-- The polynomial of a coefficient list (constant coefficient first). -/
noncomputable def toPoly : List F → F[X]
  | [] => 0
  | c :: t => C c + X * toPoly t

@[simp] theorem toPoly_nil : toPoly ([] : List F) = 0 := rfl
@[simp] theorem toPoly_cons (c : F) (t : List F) : toPoly (c :: t) = C c + X * toPoly t := rfl

@[simp] theorem evalPoly_nil (x : F) : evalPoly ([] : List F) x = 0 := rfl
@[simp] theorem evalPoly_cons (c : F) (t : List F) (x : F) :
    evalPoly (c :: t) x = c + x * evalPoly t x := rfl

theorem toPoly_eval (p : List F) (x : F) : (toPoly p).eval x = evalPoly p x := by
  induction p with
  | nil => simp
  | cons c t ih => simp [ih]

theorem toPoly_degree_lt (p : List F) : (toPoly p).degree < p.length := by
  induction p with
  | nil => simp
  | cons c t ih =>
    rw [toPoly_cons, List.length_cons]
    refine lt_of_le_of_lt (degree_add_le _ _) ?_
    rw [max_lt_iff]
    constructor
    · refine lt_of_le_of_lt degree_C_le ?_
      exact_mod_cast Nat.succ_pos _
    · by_cases h : toPoly t = 0
      · rw [h, mul_zero, degree_zero]; exact WithBot.bot_lt_coe _
      · rw [degree_mul, degree_X]
        rw [degree_eq_natDegree h] at ih ⊢
        have : (toPoly t).natDegree < t.length := by exact_mod_cast ih
        have : 1 + (toPoly t).natDegree < t.length + 1 := by omega
        exact_mod_cast this

theorem toPoly_polyScale (p : List F) (s : F) : toPoly (polyScale p s) = C s * toPoly p := by
  induction p with
  | nil => simp [polyScale]
  | cons c t ih =>
    have : polyScale (c :: t) s = (c * s) :: polyScale t s := rfl
    rw [this, toPoly_cons, ih, toPoly_cons, C_mul]; ring

theorem polyAdd_length (a b : List F) : (polyAdd a b).length = a.length := by
  induction a generalizing b with
  | nil => cases b <;> simp [polyAdd]
  | cons x xs ih => cases b <;> simp [polyAdd, ih]

theorem toPoly_polyAdd (a b : List F) (h : b.length ≤ a.length) :
    toPoly (polyAdd a b) = toPoly a + toPoly b := by
  induction a generalizing b with
  | nil => cases b <;> simp_all [polyAdd]
  | cons x xs ih =>
    cases b with
    | nil => simp [polyAdd]
    | cons y ys =>
      have h' : ys.length ≤ xs.length := by simpa using h
      simp only [polyAdd, toPoly_cons, ih ys h', C_add]; ring

theorem polyScale_length (p : List F) (s : F) : (polyScale p s).length = p.length := by
  simp [polyScale]

/-- Synthetic division: `a = (X - b)·q + r`. -/
theorem kateAux_spec (b : F) (a : List F) :
    toPoly a = (X - C b) * toPoly (kateAux b a).1 + C (kateAux b a).2 := by
  fun_induction kateAux b a with
  | case1 => simp
  | case2 a0 => simp
  | case3 a0 a1 t qr ih =>
    rw [toPoly_cons (a0), ih]
    simp only [toPoly_cons, C_add, C_mul]
    ring

theorem kateAux_length (b : F) (a : List F) : (kateAux b a).1.length = a.length - 1 := by
  fun_induction kateAux b a with
  | case1 => simp
  | case2 a0 => simp
  | case3 a0 a1 t qr ih => simp only [List.length_cons, qr] at ih ⊢; omega

theorem kateAux_rem (b : F) (a : List F) : (kateAux b a).2 = evalPoly a b := by
  have h := congrArg (Polynomial.eval b) (kateAux_spec b a)
  simp [toPoly_eval] at h
  exact h.symm

/-- The vanishing polynomial of a list of points. -/
noncomputable def vanishing (S : List F) : F[X] := (S.map (fun p => X - C p)).prod

@[simp] theorem vanishing_nil : vanishing ([] : List F) = 1 := by simp [vanishing]
@[simp] theorem vanishing_cons (p : F) (S : List F) : vanishing (p :: S) = (X - C p) * vanishing S := by
  simp [vanishing]

theorem vanishing_eval (S : List F) (x : F) :
    (vanishing S).eval x = S.foldl (fun a p => a * (x - p)) 1 := by
  have gen : ∀ (S : List F) (init : F), S.foldl (fun a p => a * (x - p)) init = init * (vanishing S).eval x := by
    intro S
    induction S with
    | nil => intro init; simp
    | cons p S ih => intro init; rw [List.foldl_cons, ih, vanishing_cons, eval_mul]; simp; ring
  rw [gen S 1, one_mul]

theorem vanishing_eval_eq_zero_of_mem {S : List F} {x : F} (h : x ∈ S) : (vanishing S).eval x = 0 := by
  induction S with
  | nil => cases h
  | cons p S ih =>
    rw [vanishing_cons, eval_mul]
    rcases List.mem_cons.1 h with rfl | h
    · simp
    · rw [ih h, mul_zero]

theorem vanishing_eval_ne_zero {S : List F} {x : F} (h : x ∉ S) : (vanishing S).eval x ≠ 0 := by
  induction S with
  | nil => simp
  | cons p S ih =>
    rw [vanishing_cons, eval_mul]
    have h1 : x ≠ p := fun e => h (e ▸ List.mem_cons_self ..)
    have h2 : x ∉ S := fun e => h (List.mem_cons_of_mem _ e)
    refine mul_ne_zero ?_ (ih h2)
    simpa [sub_eq_zero] using h1

theorem vanishing_monic (S : List F) : (vanishing S).Monic := by
  induction S with
  | nil => simp
  | cons p S ih => rw [vanishing_cons]; exact (monic_X_sub_C p).mul ih

theorem vanishing_natDegree (S : List F) : (vanishing S).natDegree = S.length := by
  induction S with
  | nil => simp
  | cons p S ih =>
    rw [vanishing_cons, (monic_X_sub_C p).natDegree_mul (vanishing_monic S), ih, natDegree_X_sub_C,
      List.length_cons]; omega

/-- Folding `kate_division` over the points of a set divides by the vanishing polynomial of the
set; the dropped remainders add up to a polynomial of degree `< |S|`. -/
theorem kateFold_spec (S : List F) : ∀ (a : List F),
    ∃ R : F[X], R.degree < S.length ∧ toPoly a = vanishing S * toPoly (kateFold a S) + R := by
  induction S with
  | nil =>
    intro a
    exact ⟨0, by simp, by simp [kateFold]⟩
  | cons p S ih =>
    intro a
    obtain ⟨R', hdeg, hq⟩ := ih (kateDivision a p)
    refine ⟨(X - C p) * R' + C (kateAux p a).2, ?_, ?_⟩
    · refine lt_of_le_of_lt (degree_add_le _ _) ?_
      rw [max_lt_iff]
      constructor
      · by_cases h : R' = 0
        · rw [h, mul_zero, degree_zero]; exact WithBot.bot_lt_coe _
        · rw [degree_mul, degree_X_sub_C, List.length_cons]
          rw [degree_eq_natDegree h] at hdeg ⊢
          have : R'.natDegree < S.length := by exact_mod_cast hdeg
          have : 1 + R'.natDegree < S.length + 1 := by omega
          exact_mod_cast this
      · refine lt_of_le_of_lt degree_C_le ?_
        rw [List.length_cons]; exact_mod_cast Nat.succ_pos _
    · have h1 := kateAux_spec p a
      simp only [kateFold, vanishing_cons]
      unfold kateDivision at hq ⊢
      rw [h1]
      conv_lhs => rw [hq]
      ring

theorem kateFold_length (S : List F) : ∀ (a : List F), (kateFold a S).length = a.length - S.length := by
  induction S with
  | nil => intro a; simp [kateFold]
  | cons p S ih =>
    intro a
    rw [kateFold, ih, kateDivision, kateAux_length, List.length_cons]; omega

end
end MidnightZK.C14
