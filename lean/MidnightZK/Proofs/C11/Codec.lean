import MidnightZK.Model.C11.Jubjub
import MidnightZK.Model.C11.Codec
/-!
Lemmas for the codec theorems of `Props/C11.lean`: the square-root routine of the executable
field returns canonical representatives; negation flips the parity of a non-zero element of an
odd-characteristic field. Core only.
-/
namespace MidnightZK.C11

theorem powMod_lt (b e m : Nat) (hm : 0 < m) : powMod b e m < m := by
  rw [powMod_spec b e m hm]; exact Nat.mod_lt _ hm

theorem tsLoop_lt (p : Nat) (hp : 0 < p) : ∀ (f m c t r : Nat), r < p → Fp.tsLoop p f m c t r < p := by
  intro f
  induction f with
  | zero => intro m c t r h; simpa [Fp.tsLoop]
  | succ n ih =>
    intro m c t r h
    unfold Fp.tsLoop
    split
    · exact h
    · exact ih _ _ _ _ (Nat.mod_lt _ hp)

/-- `Fp.sqrt` returns a canonical representative. -/
theorem Fp.sqrt_lt {p : Nat} (hp : 0 < p) {a u : Fp p} (h : a.sqrt = some u) : u.v < p := by
  unfold Fp.sqrt at h
  split at h
  · cases h; exact hp
  · split at h
    · cases h
    · simp only at h
      split at h
      · cases h
        apply tsLoop_lt p hp
        exact powMod_lt _ _ _ hp
      · cases h

/-- Parity of `-u` for `0 < u < q`, `q` odd. -/
theorem neg_parity {q : Nat} (hq : q % 2 = 1) {u : Fp q} (hu : u.v < q) (h0 : u.v ≠ 0) :
    (-u).v % 2 = 1 - u.v % 2 ∧ (-u).v < q := by
  show (negMod u.v q) % 2 = 1 - u.v % 2 ∧ negMod u.v q < q
  unfold negMod
  rw [Nat.mod_eq_of_lt hu]
  have h1 : q - u.v < q := by omega
  rw [Nat.mod_eq_of_lt h1]
  omega

end MidnightZK.C11

namespace MidnightZK.C11
open Jubjub

/-- Core of the canonicity of the Jubjub decoder. -/
theorem fromBytesInner_canonical {q : Nat} (hq : q % 2 = 1) (hq255 : q < 2 ^ 255) (d : Fp q)
    (b : Nat) (hb : b < 2 ^ 256) (p : Fp q × Fp q) (h : fromBytesInner d true b = some p) :
    toBytesNat p = b := by
  have hq0 : 0 < q := by omega
  unfold fromBytesInner at h
  simp only at h
  split at h
  · cases h
  · next hvb =>
    split at h
    · cases h
    · next u hu =>
      have hul := Fp.sqrt_lt hq0 hu
      have hs : b / 2 ^ 255 % 2 = b / 2 ^ 255 := by
        have : b / 2 ^ 255 < 2 := by
          apply Nat.div_lt_of_lt_mul; omega
        omega
      have hdec : b = b % 2 ^ 255 + (b / 2 ^ 255) * 2 ^ 255 := by
        have := Nat.div_add_mod b (2 ^ 255); omega
      split at h
      · cases h
      · next hz =>
        cases h
        simp only [toBytesNat]
        by_cases hflip : ((u.v % 2) != b / 2 ^ 255 % 2) = true
        · simp only [hflip, if_true]
          have hne : u.v ≠ 0 := by
            intro h0
            apply hz
            have e0 : (u.v == 0) = true := by simp [h0]
            rw [e0, hflip]; rfl
          obtain ⟨hp, _⟩ := neg_parity hq hul hne
          rw [hp]
          have : u.v % 2 ≠ b / 2 ^ 255 % 2 := by simpa using hflip
          have h2 : b / 2 ^ 255 < 2 := by
            apply Nat.div_lt_of_lt_mul; omega
          have : 1 - u.v % 2 = b / 2 ^ 255 := by omega
          rw [this]; omega
        · simp only [hflip]
          have : u.v % 2 = b / 2 ^ 255 % 2 := by simpa using hflip
          simp only [Bool.false_eq_true, if_false]
          rw [this, hs]; omega

end MidnightZK.C11

namespace MidnightZK.C11

theorem edDecodeGen_canonical_partial {q : Nat} (hq0 : 0 < q) (hodd : q % 2 = 1) (d : Fp q)
    (bs : List Nat) (p : Fp q × Fp q)
    (hn : leBytesToNat bs < 2 ^ 256) (hy : leBytesToNat bs % 2 ^ 255 < q)
    (h : Codec.edDecodeGen d bs = some p) (hx : p.1.v ≠ 0 ∨ leBytesToNat bs / 2 ^ 255 % 2 = 0) :
    p.2.v + (p.1.v % 2) * 2 ^ 255 = leBytesToNat bs := by
  unfold Codec.edDecodeGen at h
  simp only at h
  split at h
  · cases h
  · next x0 hs =>
    have hx0 := Fp.sqrt_lt hq0 hs
    have hdec : leBytesToNat bs = leBytesToNat bs % 2 ^ 255 + (leBytesToNat bs / 2 ^ 255) * 2 ^ 255 := by
      have := Nat.div_add_mod (leBytesToNat bs) (2 ^ 255); omega
    have h2 : leBytesToNat bs / 2 ^ 255 < 2 := by
      apply Nat.div_lt_of_lt_mul; omega
    -- the non-negative root `xe`
    obtain ⟨xe, hxe, e1, e2⟩ : ∃ xe : Fp q, xe = (if x0.isOdd then -x0 else x0) ∧
        xe.v % 2 = 0 ∧ xe.v < q := by
      refine ⟨_, rfl, ?_⟩
      by_cases ho : x0.isOdd = true
      · rw [if_pos ho]
        have hodd' : x0.v % 2 = 1 := by simpa [Fp.isOdd] using ho
        have hne : x0.v ≠ 0 := by omega
        obtain ⟨a, b⟩ := neg_parity hodd hx0 hne
        exact ⟨by omega, b⟩
      · rw [if_neg ho]
        have : x0.v % 2 ≠ 1 := by simpa [Fp.isOdd] using ho
        exact ⟨by omega, hx0⟩
    rw [← hxe] at h
    rw [Nat.mod_eq_of_lt hy] at h
    by_cases hsg : (leBytesToNat bs / 2 ^ 255 % 2 == 1) = true
    · rw [if_pos hsg] at h
      cases h
      simp only at hx ⊢
      have hs1 : leBytesToNat bs / 2 ^ 255 = 1 := by
        have : leBytesToNat bs / 2 ^ 255 % 2 = 1 := by simpa using hsg
        omega
      have hne : xe.v ≠ 0 := by
        intro hz
        cases hx with
        | inl hx =>
          apply hx
          show negMod xe.v q = 0
          rw [hz]; unfold negMod; simp
        | inr hx => omega
      obtain ⟨a, _⟩ := neg_parity hodd e2 hne
      rw [a]; omega
    · rw [if_neg hsg] at h
      cases h
      simp only
      have : leBytesToNat bs / 2 ^ 255 % 2 ≠ 1 := by simpa using hsg
      omega


end MidnightZK.C11
