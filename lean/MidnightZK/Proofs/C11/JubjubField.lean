import Mathlib.NumberTheory.LegendreSymbol.Basic
import MidnightZK.Proofs.C11.Edwards
import MidnightZK.Model.C11.Params
/-!
The completeness side conditions (`Complete d`) over `ZMod q` from three numerical facts about
naturals: Euler's criterion turns `d^((q-1)/2) ≡ -1` into "`d` is not a square". Stated for a
generic prime `q` (so that the kernel never unfolds `ZMod` at a 255-bit literal) and instantiated
with the Jubjub parameters in `Props/C11.lean`. Mathlib is imported here only.
-/
namespace MidnightZK.C11

theorem complete_of_euler {q d i : ℕ} [Fact q.Prime] (hq : 2 < q)
    (hEuler : powMod d ((q - 1) / 2) q = q - 1) (hi : (i * i) % q = q - 1) :
    Complete ((d : ℕ) : ZMod q) := by
  have hp : q.Prime := Fact.out
  have hr1 : ((q - 1 : ℕ) : ZMod q) = -1 := by
    have h1 : 1 ≤ q := by omega
    rw [Nat.cast_sub h1]; simp
  have h2 : (2 : ZMod q) ≠ 0 := by
    intro h
    have : ((2 : ℕ) : ZMod q) = 0 := by exact_mod_cast h
    rw [ZMod.natCast_eq_zero_iff] at this
    have := Nat.le_of_dvd (by omega) this
    omega
  have hodd : q % 2 = 1 := by
    rcases hp.eq_two_or_odd with h | h
    · omega
    · exact h
  have hpow : ((d : ℕ) : ZMod q) ^ (q / 2) = -1 := by
    have he : q / 2 = (q - 1) / 2 := by omega
    rw [he, ← Nat.cast_pow, ← ZMod.natCast_mod, ← powMod_spec _ _ _ (by omega), hEuler, hr1]
  refine ⟨h2, ⟨((i : ℕ) : ZMod q), ?_⟩, ?_⟩
  · rw [← Nat.cast_mul, ← ZMod.natCast_mod, hi, hr1]
  · intro t ht
    have hd0 : ((d : ℕ) : ZMod q) ≠ 0 := by
      intro h
      rw [h, zero_pow (by omega)] at hpow
      have h10 : (1 : ZMod q) = 0 := by rw [← neg_neg (1 : ZMod q), ← hpow, neg_zero]
      exact one_ne_zero h10
    have hsq : IsSquare ((d : ℕ) : ZMod q) := ⟨t, ht.symm⟩
    rw [ZMod.euler_criterion q hd0] at hsq
    rw [hpow] at hsq
    apply h2
    have : (2 : ZMod q) = 1 - (-1) := by ring
    rw [this, hsq]; ring

end MidnightZK.C11
