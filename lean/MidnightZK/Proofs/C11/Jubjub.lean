import MidnightZK.Proofs.C11.Edwards
/-!
Coordinate-level lemmas: every extended-coordinate formula of `jubjub/curve.rs` maps, through
`(U, V, Z, T1, T2) ↦ (U/Z, V/Z)`, to the affine twisted-Edwards law, for all well-formed inputs
whose affine-law denominators are non-zero. Core only.
-/
namespace MidnightZK.C11
open Jubjub Lean.Grind

variable {F : Type} [Field F]

/-- Shared computation: the completed point `(ba, bpa, dpc, dmc)` becomes the extended point
`(ba·dmc, bpa·dpc, dpc·dmc, ba, bpa)`, whose affine value is `(ba/dpc, bpa/dmc)`. -/
theorem completed_frac {ba bpa dpc dmc n1 n2 e1 e2 : F} (nA : dpc ≠ 0) (nB : dmc ≠ 0)
    (he1 : e1 ≠ 0) (he2 : e2 ≠ 0) (h1 : ba * e1 = n1 * dpc) (h2 : bpa * e2 = n2 * dmc) :
    WF (intoExtended ba bpa dpc dmc) ∧
    (intoExtended ba bpa dpc dmc).toAffine = (n1 * e1⁻¹, n2 * e2⁻¹) := by
  simp only [intoExtended, Ext.toAffine]
  have nZ : dpc * dmc ≠ 0 := mul_ne_zero' nA nB
  refine ⟨⟨nZ, by grind⟩, Prod.ext ?_ ?_⟩
  · refine frac_eq nZ he1 ?_
    have : ba * dmc * e1 = (ba * e1) * dmc := by grind
    rw [this, h1]; grind
  · refine frac_eq nZ he2 ?_
    have : bpa * dpc * e2 = (bpa * e2) * dpc := by grind
    rw [this, h2]; grind

theorem eq_mul_inv_of_mul_eq {a b c : F} (hb : b ≠ 0) (h : a * b = c) : a = c * b⁻¹ := by
  have hw := Field.mul_inv_cancel hb
  rw [← h]
  generalize b⁻¹ = w at hw
  grind

/-- `T1·T2 = U·V/Z` from well-formedness. -/
theorem WF.t_eq {P : Ext F} (h : WF P) : P.t1 * P.t2 = P.u * P.v * P.z⁻¹ :=
  eq_mul_inv_of_mul_eq h.z_ne h.inv

/-- Extended + extended-Niels of a well-formed point. -/
theorem addENiels_spec (d : F) (P Q : Ext F) (hP : WF P) (hQ : WF Q) (h2 : (2:F) ≠ 0)
    (hk1 : 1 + d * P.toAffine.1 * Q.toAffine.1 * P.toAffine.2 * Q.toAffine.2 ≠ 0)
    (hk2 : 1 - d * P.toAffine.1 * Q.toAffine.1 * P.toAffine.2 * Q.toAffine.2 ≠ 0) :
    WF (addENiels P (Q.toNiels (d + d))) ∧
    (addENiels P (Q.toNiels (d + d))).toAffine = eAdd (-1) d P.toAffine Q.toAffine := by
  have hs := hP.t_eq
  have hr := hQ.t_eq
  obtain ⟨u1, v1, z1, s1, s2⟩ := P
  obtain ⟨u2, v2, z2, r1, r2⟩ := Q
  obtain ⟨hz1, hi1⟩ := hP
  obtain ⟨hz2, hi2⟩ := hQ
  simp only [Ext.toAffine, Ext.toNiels, addENiels, eAdd] at *
  have w1 := Field.mul_inv_cancel hz1
  have w2 := Field.mul_inv_cancel hz2
  generalize z1⁻¹ = i1 at *
  generalize z2⁻¹ = i2 at *
  have hA : z1 * z2 + z1 * z2 + s1 * s2 * (r1 * r2 * (d + d))
      = 2 * z1 * z2 * (1 + d * (u1 * i1) * (u2 * i2) * (v1 * i1) * (v2 * i2)) := by
    rw [hs, hr]; grind
  have hB : z1 * z2 + z1 * z2 - s1 * s2 * (r1 * r2 * (d + d))
      = 2 * z1 * z2 * (1 - d * (u1 * i1) * (u2 * i2) * (v1 * i1) * (v2 * i2)) := by
    rw [hs, hr]; grind
  have nA : z1 * z2 + z1 * z2 + s1 * s2 * (r1 * r2 * (d + d)) ≠ 0 := by
    rw [hA]; exact mul_ne_zero' (mul_ne_zero' (mul_ne_zero' h2 hz1) hz2) hk1
  have nB : z1 * z2 + z1 * z2 - s1 * s2 * (r1 * r2 * (d + d)) ≠ 0 := by
    rw [hB]; exact mul_ne_zero' (mul_ne_zero' (mul_ne_zero' h2 hz1) hz2) hk2
  exact completed_frac nA nB hk1 hk2 (by rw [hA]; grind) (by rw [hB]; grind)

/-- Extended − extended-Niels. -/
theorem subENiels_spec (d : F) (P Q : Ext F) (hP : WF P) (hQ : WF Q) (h2 : (2:F) ≠ 0)
    (hk1 : 1 + d * P.toAffine.1 * Q.toAffine.1 * P.toAffine.2 * Q.toAffine.2 ≠ 0)
    (hk2 : 1 - d * P.toAffine.1 * Q.toAffine.1 * P.toAffine.2 * Q.toAffine.2 ≠ 0) :
    WF (subENiels P (Q.toNiels (d + d))) ∧
    (subENiels P (Q.toNiels (d + d))).toAffine = eAdd (-1) d P.toAffine (eNeg Q.toAffine) := by
  have hs := hP.t_eq
  have hr := hQ.t_eq
  obtain ⟨u1, v1, z1, s1, s2⟩ := P
  obtain ⟨u2, v2, z2, r1, r2⟩ := Q
  obtain ⟨hz1, hi1⟩ := hP
  obtain ⟨hz2, hi2⟩ := hQ
  simp only [Ext.toAffine, Ext.toNiels, subENiels, eAdd, eNeg] at *
  have w1 := Field.mul_inv_cancel hz1
  have w2 := Field.mul_inv_cancel hz2
  generalize z1⁻¹ = i1 at *
  generalize z2⁻¹ = i2 at *
  have hA : z1 * z2 + z1 * z2 + s1 * s2 * (r1 * r2 * (d + d))
      = 2 * z1 * z2 * (1 + d * (u1 * i1) * (u2 * i2) * (v1 * i1) * (v2 * i2)) := by
    rw [hs, hr]; grind
  have hB : z1 * z2 + z1 * z2 - s1 * s2 * (r1 * r2 * (d + d))
      = 2 * z1 * z2 * (1 - d * (u1 * i1) * (u2 * i2) * (v1 * i1) * (v2 * i2)) := by
    rw [hs, hr]; grind
  have nA : z1 * z2 + z1 * z2 + s1 * s2 * (r1 * r2 * (d + d)) ≠ 0 := by
    rw [hA]; exact mul_ne_zero' (mul_ne_zero' (mul_ne_zero' h2 hz1) hz2) hk1
  have nB : z1 * z2 + z1 * z2 - s1 * s2 * (r1 * r2 * (d + d)) ≠ 0 := by
    rw [hB]; exact mul_ne_zero' (mul_ne_zero' (mul_ne_zero' h2 hz1) hz2) hk2
  have hk1' : 1 + d * (u1 * i1) * -(u2 * i2) * (v1 * i1) * (v2 * i2) ≠ 0 := by
    intro h; apply hk2; rw [← h]; grind
  have hk2' : 1 - d * (u1 * i1) * -(u2 * i2) * (v1 * i1) * (v2 * i2) ≠ 0 := by
    intro h; apply hk1; rw [← h]; grind
  exact completed_frac nB nA hk1' hk2' (by rw [hB]; grind) (by rw [hA]; grind)

/-- Extended + affine-Niels (`to_niels` of an affine point). -/
theorem addANiels_spec (d : F) (P : Ext F) (q : F × F) (hP : WF P) (h2 : (2:F) ≠ 0)
    (hk1 : 1 + d * P.toAffine.1 * q.1 * P.toAffine.2 * q.2 ≠ 0)
    (hk2 : 1 - d * P.toAffine.1 * q.1 * P.toAffine.2 * q.2 ≠ 0) :
    WF (addANiels P (affToNiels (d + d) q)) ∧
    (addANiels P (affToNiels (d + d) q)).toAffine = eAdd (-1) d P.toAffine q := by
  have hs := hP.t_eq
  obtain ⟨u1, v1, z1, s1, s2⟩ := P
  obtain ⟨u2, v2⟩ := q
  obtain ⟨hz1, hi1⟩ := hP
  simp only [Ext.toAffine, affToNiels, addANiels, eAdd] at *
  have w1 := Field.mul_inv_cancel hz1
  generalize z1⁻¹ = i1 at *
  have hA : z1 + z1 + s1 * s2 * (u2 * v2 * (d + d))
      = 2 * z1 * (1 + d * (u1 * i1) * u2 * (v1 * i1) * v2) := by
    rw [hs]; grind
  have hB : z1 + z1 - s1 * s2 * (u2 * v2 * (d + d))
      = 2 * z1 * (1 - d * (u1 * i1) * u2 * (v1 * i1) * v2) := by
    rw [hs]; grind
  have nA : z1 + z1 + s1 * s2 * (u2 * v2 * (d + d)) ≠ 0 := by
    rw [hA]; exact mul_ne_zero' (mul_ne_zero' h2 hz1) hk1
  have nB : z1 + z1 - s1 * s2 * (u2 * v2 * (d + d)) ≠ 0 := by
    rw [hB]; exact mul_ne_zero' (mul_ne_zero' h2 hz1) hk2
  exact completed_frac nA nB hk1 hk2 (by rw [hA]; grind) (by rw [hB]; grind)

/-- Extended − affine-Niels. -/
theorem subANiels_spec (d : F) (P : Ext F) (q : F × F) (hP : WF P) (h2 : (2:F) ≠ 0)
    (hk1 : 1 + d * P.toAffine.1 * q.1 * P.toAffine.2 * q.2 ≠ 0)
    (hk2 : 1 - d * P.toAffine.1 * q.1 * P.toAffine.2 * q.2 ≠ 0) :
    WF (subANiels P (affToNiels (d + d) q)) ∧
    (subANiels P (affToNiels (d + d) q)).toAffine = eAdd (-1) d P.toAffine (eNeg q) := by
  have hs := hP.t_eq
  obtain ⟨u1, v1, z1, s1, s2⟩ := P
  obtain ⟨u2, v2⟩ := q
  obtain ⟨hz1, hi1⟩ := hP
  simp only [Ext.toAffine, affToNiels, subANiels, eAdd, eNeg] at *
  have w1 := Field.mul_inv_cancel hz1
  generalize z1⁻¹ = i1 at *
  have hA : z1 + z1 + s1 * s2 * (u2 * v2 * (d + d))
      = 2 * z1 * (1 + d * (u1 * i1) * u2 * (v1 * i1) * v2) := by
    rw [hs]; grind
  have hB : z1 + z1 - s1 * s2 * (u2 * v2 * (d + d))
      = 2 * z1 * (1 - d * (u1 * i1) * u2 * (v1 * i1) * v2) := by
    rw [hs]; grind
  have nA : z1 + z1 + s1 * s2 * (u2 * v2 * (d + d)) ≠ 0 := by
    rw [hA]; exact mul_ne_zero' (mul_ne_zero' h2 hz1) hk1
  have nB : z1 + z1 - s1 * s2 * (u2 * v2 * (d + d)) ≠ 0 := by
    rw [hB]; exact mul_ne_zero' (mul_ne_zero' h2 hz1) hk2
  have hk1' : 1 + d * (u1 * i1) * -u2 * (v1 * i1) * v2 ≠ 0 := by
    intro h; apply hk2; rw [← h]; grind
  have hk2' : 1 - d * (u1 * i1) * -u2 * (v1 * i1) * v2 ≠ 0 := by
    intro h; apply hk1; rw [← h]; grind
  exact completed_frac nB nA hk1' hk2' (by rw [hB]; grind) (by rw [hA]; grind)

/-- Doubling (`dbl-2008-bbjlp`) of a well-formed point on the curve. -/
theorem double_spec (d : F) (P : Ext F) (hP : WF P) (hOn : EOn d P.toAffine)
    (hk1 : 1 + d * P.toAffine.1 * P.toAffine.1 * P.toAffine.2 * P.toAffine.2 ≠ 0)
    (hk2 : 1 - d * P.toAffine.1 * P.toAffine.1 * P.toAffine.2 * P.toAffine.2 ≠ 0) :
    WF P.double ∧ P.double.toAffine = eAdd (-1) d P.toAffine P.toAffine := by
  obtain ⟨u1, v1, z1, s1, s2⟩ := P
  obtain ⟨hz1, hi1⟩ := hP
  simp only [Ext.toAffine, Ext.double, eAdd, EOn] at *
  have w1 := Field.mul_inv_cancel hz1
  generalize z1⁻¹ = i1 at *
  -- projective curve equation: (v² - u²) = z²·(1 + k), 2z² - (v² - u²) = z²·(1 - k)
  have hA : v1 * v1 - u1 * u1 = z1 * z1 * (1 + d * (u1 * i1) * (u1 * i1) * (v1 * i1) * (v1 * i1)) := by
    have : v1 * v1 - u1 * u1 = z1 * z1 * (-(u1 * i1 * (u1 * i1)) + v1 * i1 * (v1 * i1)) := by grind
    rw [this, hOn]; grind
  have hB : z1 * z1 + z1 * z1 - (v1 * v1 - u1 * u1)
      = z1 * z1 * (1 - d * (u1 * i1) * (u1 * i1) * (v1 * i1) * (v1 * i1)) := by
    rw [hA]; grind
  have nA : v1 * v1 - u1 * u1 ≠ 0 := by
    rw [hA]; exact mul_ne_zero' (mul_ne_zero' hz1 hz1) hk1
  have nB : z1 * z1 + z1 * z1 - (v1 * v1 - u1 * u1) ≠ 0 := by
    rw [hB]; exact mul_ne_zero' (mul_ne_zero' hz1 hz1) hk2
  exact completed_frac nA nB hk1 hk2 (by rw [hA]; grind) (by rw [hB]; grind)

/-- Negation. -/
theorem neg_spec (P : Ext F) (hP : WF P) : WF P.neg ∧ P.neg.toAffine = eNeg P.toAffine := by
  obtain ⟨u1, v1, z1, s1, s2⟩ := P
  obtain ⟨hz1, hi1⟩ := hP
  simp only [Ext.toAffine, Ext.neg, eNeg] at *
  refine ⟨⟨hz1, by grind⟩, Prod.ext (by grind) rfl⟩

theorem inv_one : (1 : F)⁻¹ = 1 := by
  have h : (1 : F) ≠ 0 := by
    intro h
    have := Field.zero_ne_one (α := F)
    grind
  have := Field.mul_inv_cancel h
  grind

/-- `From<JubjubAffine>`: well-formed, same affine value. -/
theorem ofAffine_spec (p : F × F) : WF (ofAffine p) ∧ (ofAffine p).toAffine = p := by
  obtain ⟨x, y⟩ := p
  simp only [ofAffine, Ext.toAffine]
  refine ⟨⟨?_, by grind⟩, ?_⟩
  · intro h
    have := Field.zero_ne_one (α := F)
    grind
  · rw [inv_one]; exact Prod.ext (by grind) (by grind)

/-- The cross-multiplied comparison of `ct_eq` decides equality of the affine values. -/
theorem ctEq_iff [DecidableEq F] (P Q : Ext F) (hP : P.z ≠ 0) (hQ : Q.z ≠ 0) :
    P.ctEq Q = true ↔ P.toAffine = Q.toAffine := by
  obtain ⟨u1, v1, z1, s1, s2⟩ := P
  obtain ⟨u2, v2, z2, r1, r2⟩ := Q
  simp only [Ext.ctEq, Ext.toAffine, Bool.and_eq_true, decide_eq_true_eq, Prod.mk.injEq] at *
  rw [frac_eq_iff hP hQ, frac_eq_iff hP hQ]

/-- `is_identity` (`u == 0 & v == z`) holds exactly for the representations of `(0, 1)`. -/
theorem isIdentity_iff [DecidableEq F] (P : Ext F) (hP : P.z ≠ 0) :
    P.isIdentity = true ↔ P.toAffine = (0, 1) := by
  obtain ⟨u1, v1, z1, s1, s2⟩ := P
  simp only [Ext.isIdentity, Ext.toAffine, Bool.and_eq_true, decide_eq_true_eq, Prod.mk.injEq] at *
  have w1 := Field.mul_inv_cancel hP
  generalize z1⁻¹ = i1 at *
  constructor
  · rintro ⟨a, b⟩; subst a; subst b; exact ⟨by grind, by grind⟩
  · rintro ⟨a, b⟩
    constructor
    · have : u1 = u1 * i1 * z1 := by grind
      rw [this, a]; grind
    · have : v1 = v1 * i1 * z1 := by grind
      rw [this, b]; grind

/-- Adding the neutral point `(0, 1)` is the identity map. -/
theorem eAdd_zero (d : F) (p : F × F) : eAdd (-1) d p (0, 1) = p := by
  obtain ⟨x, y⟩ := p
  simp only [eAdd]
  have e1 : 1 + d * x * 0 * y * 1 = (1 : F) := by grind
  have e2 : 1 - d * x * 0 * y * 1 = (1 : F) := by grind
  rw [e1, e2, inv_one]
  exact Prod.ext (by grind) (by grind)

theorem EOn_zero (d : F) : EOn d ((0, 1) : F × F) := by
  simp only [EOn]; grind

theorem identity_niels (d2 : F) : (ENiels.identity : ENiels F) = (Ext.identity : Ext F).toNiels d2 := by
  simp only [ENiels.identity, Ext.identity, Ext.toNiels]
  congr 1 <;> grind

theorem identity_spec : WF (Ext.identity : Ext F) ∧ (Ext.identity : Ext F).toAffine = (0, 1) := by
  have := ofAffine_spec ((0, 1) : F × F)
  simp only [Ext.identity, Ext.toAffine]
  refine ⟨⟨?_, by grind⟩, ?_⟩
  · intro h
    have := Field.zero_ne_one (α := F)
    grind
  · rw [inv_one]; exact Prod.ext (by grind) (by grind)

/-- The `multiply` loop follows the affine double-and-add schedule bit by bit and keeps the
accumulator well-formed and on the curve. -/
theorem multiplyBits_spec {d : F} (hc : Complete d) (P : Ext F) (hP : WF P) (hOn : EOn d P.toAffine)
    (bits : List Bool) : ∀ acc : Ext F, WF acc → EOn d acc.toAffine →
    WF ((P.toNiels (d + d)).multiplyBits bits acc) ∧
    EOn d ((P.toNiels (d + d)).multiplyBits bits acc).toAffine ∧
    ((P.toNiels (d + d)).multiplyBits bits acc).toAffine
      = eMulBits (-1) d bits P.toAffine acc.toAffine := by
  induction bits with
  | nil => intro acc ha ho; exact ⟨ha, ho, rfl⟩
  | cons b bs ih =>
    intro acc ha ho
    simp only [ENiels.multiplyBits, eMulBits, List.foldl_cons]
    obtain ⟨k1, k2⟩ := denoms_ne_zero hc ho ho
    obtain ⟨wd, ed⟩ := double_spec d acc ha ho k1 k2
    have od : EOn d acc.double.toAffine := by rw [ed]; exact eAdd_on_curve d ho ho k1 k2
    cases b with
    | true =>
      obtain ⟨m1, m2⟩ := denoms_ne_zero hc od hOn
      obtain ⟨wa, ea⟩ := addENiels_spec d acc.double P wd hP hc.two_ne m1 m2
      have oa : EOn d (addENiels acc.double (P.toNiels (d + d))).toAffine := by
        rw [ea]; exact eAdd_on_curve d od hOn m1 m2
      have := ih _ wa oa
      simp only [ENiels.multiplyBits, eMulBits] at this
      simp only [if_true]
      rw [ea, ed] at this
      exact this
    | false =>
      obtain ⟨wi, ei⟩ := identity_spec (F := F)
      have oi : EOn d (Ext.identity : Ext F).toAffine := by rw [ei]; exact EOn_zero d
      obtain ⟨m1, m2⟩ := denoms_ne_zero hc od oi
      obtain ⟨wa, ea⟩ := addENiels_spec d acc.double Ext.identity wd wi hc.two_ne m1 m2
      rw [ei, eAdd_zero] at ea
      have oa : EOn d (addENiels acc.double ((Ext.identity : Ext F).toNiels (d + d))).toAffine := by
        rw [ea]; exact od
      have := ih _ wa oa
      simp only [ENiels.multiplyBits, eMulBits] at this
      simp only [Bool.false_eq_true, if_false]
      rw [ea, ed] at this
      rw [← identity_niels (d + d)] at this
      exact this

end MidnightZK.C11
