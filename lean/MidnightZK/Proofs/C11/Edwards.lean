import MidnightZK.Model.C11.Jubjub
/-!
Helper lemmas for the Jubjub theorems of `Props/C11.lean`: fraction bookkeeping over a
`Lean.Grind.Field`, completeness of the twisted-Edwards law with `a = -1` (denominators never
vanish when `d` is a non-square), and the coordinate-level identities behind the extended /
Niels / doubling formulas. Core only (`grind`).
-/
namespace MidnightZK.C11
open Jubjub Lean.Grind

variable {F : Type} [Field F]

theorem mul_ne_zero' {a b : F} (ha : a ≠ 0) (hb : b ≠ 0) : a * b ≠ 0 := by
  intro h
  have h1 := Field.mul_inv_cancel ha
  have : b = a⁻¹ * (a * b) := by grind
  rw [h] at this
  grind

theorem frac_eq {a b c e : F} (hb : b ≠ 0) (he : e ≠ 0) (h : a * e = c * b) :
    a * b⁻¹ = c * e⁻¹ := by
  have h1 := Field.mul_inv_cancel hb
  have h2 := Field.mul_inv_cancel he
  generalize b⁻¹ = ib at *
  generalize e⁻¹ = ie at *
  have : a * ib = (a * e) * ib * ie := by grind
  rw [this, h]; grind

theorem frac_eq_iff {a b c e : F} (hb : b ≠ 0) (he : e ≠ 0) :
    a * b⁻¹ = c * e⁻¹ ↔ a * e = c * b := by
  constructor
  · intro h
    have h1 := Field.mul_inv_cancel hb
    have h2 := Field.mul_inv_cancel he
    generalize b⁻¹ = ib at *
    generalize e⁻¹ = ie at *
    have : a * e = (a * ib) * e * b := by grind
    rw [this, h]; grind
  · exact frac_eq hb he

/-- The affine point `p` satisfies `-u² + v² = 1 + d·u²·v²`. -/
def EOn (d : F) (p : F × F) : Prop := -(p.1 * p.1) + p.2 * p.2 = 1 + d * (p.1 * p.1) * (p.2 * p.2)

/-- Well-formed extended point: `Z ≠ 0` and `T1·T2·Z = U·V`. -/
structure WF (P : Ext F) : Prop where
  z_ne : P.z ≠ 0
  inv : P.t1 * P.t2 * P.z = P.u * P.v

/-- Completeness core: on the curve, `(d·x1·x2·y1·y2)² = 1` is impossible when `d` is a
non-square and `-1` is a square (DESIGN Appendix A.3). -/
theorem denom_sq_ne_one (d i x1 y1 x2 y2 : F)
    (hi : i * i = -1) (h2ne : (2:F) ≠ 0)
    (hd : ∀ t : F, t * t ≠ d)
    (h1 : -(x1*x1) + y1*y1 = 1 + d * (x1*x1) * (y1*y1))
    (h2 : -(x2*x2) + y2*y2 = 1 + d * (x2*x2) * (y2*y2))
    (e : F) (he : e = d * x1 * x2 * y1 * y2) (hee : e * e = 1) : False := by
  have k1 : (i*x1 + e*y1) * (i*x1 + e*y1)
      = d * (x1*x1) * (y1*y1) * ((i*x2 + y2) * (i*x2 + y2)) := by grind
  have k2 : (i*x1 - e*y1) * (i*x1 - e*y1)
      = d * (x1*x1) * (y1*y1) * ((i*x2 - y2) * (i*x2 - y2)) := by grind
  have hx1 : x1 ≠ 0 := by intro h; subst h; grind
  have hy1 : y1 ≠ 0 := by intro h; subst h; grind
  by_cases c1 : i*x2 + y2 = 0
  · by_cases c2 : i*x2 - y2 = 0
    · have t2 : (2:F) * y2 = 0 := by grind
      have : y2 = 0 := by grind
      subst this; grind
    · apply hd ((i*x1 - e*y1) * (x1 * y1 * (i*x2 - y2))⁻¹)
      have hne : x1 * y1 * (i*x2 - y2) ≠ 0 := by grind
      have hw := Field.mul_inv_cancel hne
      generalize (x1 * y1 * (i*x2 - y2))⁻¹ = v at hw ⊢
      have s1 : (i*x1 - e*y1) * v * ((i*x1 - e*y1) * v)
          = ((i*x1 - e*y1) * (i*x1 - e*y1)) * (v*v) := by grind
      have s2 : d * (x1*x1) * (y1*y1) * ((i*x2 - y2) * (i*x2 - y2)) * (v*v)
          = d * ((x1 * y1 * (i*x2 - y2) * v) * (x1 * y1 * (i*x2 - y2) * v)) := by grind
      rw [s1, k2, s2, hw]; grind
  · apply hd ((i*x1 + e*y1) * (x1 * y1 * (i*x2 + y2))⁻¹)
    have hne : x1 * y1 * (i*x2 + y2) ≠ 0 := by grind
    have hw := Field.mul_inv_cancel hne
    generalize (x1 * y1 * (i*x2 + y2))⁻¹ = v at hw ⊢
    have s1 : (i*x1 + e*y1) * v * ((i*x1 + e*y1) * v)
        = ((i*x1 + e*y1) * (i*x1 + e*y1)) * (v*v) := by grind
    have s2 : d * (x1*x1) * (y1*y1) * ((i*x2 + y2) * (i*x2 + y2)) * (v*v)
        = d * ((x1 * y1 * (i*x2 + y2) * v) * (x1 * y1 * (i*x2 + y2) * v)) := by grind
    rw [s1, k1, s2, hw]; grind

/-- Side conditions on the field and on `d` under which the `a = -1` law is complete. -/
structure Complete (d : F) : Prop where
  two_ne : (2 : F) ≠ 0
  neg_one_sq : ∃ i : F, i * i = -1
  d_nonsq : ∀ t : F, t * t ≠ d

theorem denoms_ne_zero {d : F} (hc : Complete d) {p q : F × F} (hp : EOn d p) (hq : EOn d q) :
    1 + d * p.1 * q.1 * p.2 * q.2 ≠ 0 ∧ 1 - d * p.1 * q.1 * p.2 * q.2 ≠ 0 := by
  obtain ⟨i, hi⟩ := hc.neg_one_sq
  constructor
  · intro h
    exact denom_sq_ne_one d i p.1 p.2 q.1 q.2 hi hc.two_ne hc.d_nonsq hp hq _ rfl (by grind)
  · intro h
    exact denom_sq_ne_one d i p.1 p.2 q.1 q.2 hi hc.two_ne hc.d_nonsq hp hq _ rfl (by grind)

/-- The affine law is closed on the curve (whenever its denominators are non-zero). -/
theorem eAdd_on_curve (d : F) {p q : F × F} (hp : EOn d p) (hq : EOn d q)
    (h1 : 1 + d * p.1 * q.1 * p.2 * q.2 ≠ 0) (h2 : 1 - d * p.1 * q.1 * p.2 * q.2 ≠ 0) :
    EOn d (eAdd (-1) d p q) := by
  obtain ⟨x1, y1⟩ := p
  obtain ⟨x2, y2⟩ := q
  simp only [EOn, eAdd] at *
  have e1 := Field.mul_inv_cancel h1
  have e2 := Field.mul_inv_cancel h2
  generalize (1 + d * x1 * x2 * y1 * y2)⁻¹ = a at *
  generalize (1 - d * x1 * x2 * y1 * y2)⁻¹ = b at *
  -- multiply through by the squared denominators
  have key : (-( (x1 * y2 + y1 * x2) * (x1 * y2 + y1 * x2)) * ((1 - d * x1 * x2 * y1 * y2) * (1 - d * x1 * x2 * y1 * y2))
      + (y1 * y2 - -1 * x1 * x2) * (y1 * y2 - -1 * x1 * x2) * ((1 + d * x1 * x2 * y1 * y2) * (1 + d * x1 * x2 * y1 * y2)))
      = ((1 + d * x1 * x2 * y1 * y2) * (1 + d * x1 * x2 * y1 * y2)) * ((1 - d * x1 * x2 * y1 * y2) * (1 - d * x1 * x2 * y1 * y2))
        + d * ((x1 * y2 + y1 * x2) * (x1 * y2 + y1 * x2)) * ((y1 * y2 - -1 * x1 * x2) * (y1 * y2 - -1 * x1 * x2)) := by
    grind
  grind

end MidnightZK.C11
