import Mathlib.Algebra.Field.ZMod
import Mathlib.Algebra.Field.Basic
import MidnightZK.Proofs.C11.Jubjub
/-!
A small concrete instance (`ZMod 13`, `d = 2`, `-1 = 5²`) used by the non-vacuity examples of
`Props/C11.lean`: the hypotheses of the Jubjub theorems (`Complete d`, well-formed points on the
curve) are jointly satisfiable. Mathlib is imported here only (never by Model/Driver files).
-/
namespace MidnightZK.C11.Toy
open Jubjub

instance : Fact (Nat.Prime 13) := ⟨by decide⟩

abbrev K := ZMod 13

theorem complete : Complete (2 : K) where
  two_ne := by decide
  neg_one_sq := ⟨5, by decide⟩
  d_nonsq := by decide

/-- `(2, 4)` and `(3, 2)` lie on `-u² + v² = 1 + 2u²v²` over `ZMod 13`. -/
def P : Ext K := ofAffine (2, 4)
def Q : Ext K := ⟨3, 2, 1, 6, 1⟩   -- (3, 2) with T split as 6·1

theorem P_wf : WF P := (ofAffine_spec _).1
theorem Q_wf : WF Q := ⟨by decide, by decide⟩
theorem P_on : EOn (2 : K) P.toAffine := by rw [P, (ofAffine_spec _).2]; unfold EOn; decide
theorem Q_aff : Q.toAffine = (3, 2) := by
  simp only [Q, Ext.toAffine]; rw [inv_one]; decide
theorem Q_on : EOn (2 : K) Q.toAffine := by rw [Q_aff]; unfold EOn; decide

end MidnightZK.C11.Toy
