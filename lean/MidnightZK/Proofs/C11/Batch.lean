import MidnightZK.Model.C11.Batch
import MidnightZK.Proofs.C11.Jubjub
import MidnightZK.Proofs.C11.Weierstrass
/-!
Correctness of the shared-inversion batch routines (`Model/C11/Batch.lean`) for every length and
every position of zero entries, and of the `Sum` folds. Core only (`grind` over
`Lean.Grind.Field`).
-/
namespace MidnightZK.C11.Batch

variable {F : Type} [Lean.Grind.Field F] [DecidableEq F]

omit [DecidableEq F] in
theorem inv_mul_cancel' {a : F} (h : a ≠ 0) : a⁻¹ * a = 1 := by
  have := Lean.Grind.Field.mul_inv_cancel h
  grind

omit [DecidableEq F] in
/-- `(A·z)⁻¹·z = A⁻¹` and `A·(A·z)⁻¹ = z⁻¹` for non-zero `A`, `z`. -/
theorem step_inv {A z : F} (hA : A ≠ 0) (hz : z ≠ 0) :
    (A * z)⁻¹ * z = A⁻¹ ∧ A * (A * z)⁻¹ = z⁻¹ := by
  have hAz : A * z ≠ 0 := mul_ne_zero' hA hz
  have h1 := Lean.Grind.Field.mul_inv_cancel hA
  have h2 := Lean.Grind.Field.mul_inv_cancel hz
  have h3 := Lean.Grind.Field.mul_inv_cancel hAz
  generalize (A * z)⁻¹ = w at *
  generalize A⁻¹ = a at *
  generalize z⁻¹ = b at *
  constructor
  · have : w * z = w * z * (A * a) := by rw [h1]; grind
    rw [this]
    have : w * z * (A * a) = (A * z * w) * a := by grind
    rw [this, h3]; grind
  · have : A * w = A * w * (z * b) := by rw [h2]; grind
    rw [this]
    have : A * w * (z * b) = (A * z * w) * b := by grind
    rw [this, h3]; grind

/-- The two passes, from any non-zero start value `A`: the accumulator handed to the second pass
is the inverse of the running product; the second pass returns all inverses (zeros kept) and
restores `A⁻¹`. Induction over the list: every length, zeros anywhere. -/
theorem bwd_fwd (zs : List F) : ∀ A : F, A ≠ 0 →
    (fwd zs A).2 ≠ 0 ∧
    bwd (zs.zip (fwd zs A).1) ((fwd zs A).2)⁻¹ = (zs.map (·⁻¹), A⁻¹) := by
  induction zs with
  | nil => intro A hA; exact ⟨hA, rfl⟩
  | cons z zs ih =>
    intro A hA
    by_cases hz : z = 0
    · obtain ⟨h1, h2⟩ := ih A hA
      simp only [fwd, hz, if_true, List.zip_cons_cons, bwd, List.map_cons]
      refine ⟨h1, ?_⟩
      rw [h2]
      simp [Lean.Grind.Field.inv_zero]
    · obtain ⟨h1, h2⟩ := ih (A * z) (mul_ne_zero' hA hz)
      simp only [fwd, hz, if_false, List.zip_cons_cons, bwd, List.map_cons]
      refine ⟨h1, ?_⟩
      rw [h2]
      obtain ⟨e1, e2⟩ := step_inv hA hz
      simp only [e1, e2]

/-- `ff::BatchInverter::invert_with_internal_scratch` / `batch_invert` are correct for every
input: entry `i` becomes `zᵢ⁻¹`, with the convention `0⁻¹ = 0` (zero entries are left alone). -/
theorem batchInvert_eq_map (zs : List F) : batchInvert zs = zs.map (·⁻¹) := by
  have h1 : (1 : F) ≠ 0 := by
    intro h; exact Lean.Grind.Field.zero_ne_one h.symm
  have := (bwd_fwd zs 1 h1).2
  simp only [batchInvert, this]

theorem zipWith_map_self {α β γ : Type} (f : α → β → γ) (g : α → β) (l : List α) :
    List.zipWith f l (l.map g) = l.map (fun a => f a (g a)) := by
  induction l with
  | nil => rfl
  | cons a l ih => simp [ih]

open Jubjub in
theorem jjBatchNormalize_eq (ps : List (Ext F)) : jjBatchNormalize ps = ps.map Ext.toAffine := by
  unfold jjBatchNormalize
  rw [batchInvert_eq_map, List.map_map, zipWith_map_self]
  rfl

theorem bnBatchNormalize_eq (ps : List (Bn.Proj F)) : bnBatchNormalize ps = ps.map Bn.toAffine := by
  unfold bnBatchNormalize
  rw [batchInvert_eq_map, List.map_map, zipWith_map_self]
  apply List.map_congr_left
  intro p _
  simp only [Function.comp, Bn.toAffine]
  by_cases hz : p.z = 0
  · simp [hz, Lean.Grind.Field.inv_zero]
  · have : p.z⁻¹ ≠ 0 := fun h => hz ((inv_eq_zero_iff p.z).1 h)
    simp [hz, this]

omit [DecidableEq F] in
open Jubjub in
/-- Fold invariant of `impl Sum for JubjubExtended`. -/
theorem jjSum_fold {d : F} (hc : Complete d) (ps : List (Ext F))
    (hps : ∀ p ∈ ps, WF p ∧ EOn d p.toAffine) :
    ∀ acc : Ext F, WF acc → EOn d acc.toAffine →
      WF (ps.foldl (fun acc p => acc.add (d + d) p) acc) ∧
      EOn d (ps.foldl (fun acc p => acc.add (d + d) p) acc).toAffine ∧
      (ps.foldl (fun acc p => acc.add (d + d) p) acc).toAffine
        = (ps.map Ext.toAffine).foldl (eAdd (-1) d) acc.toAffine := by
  induction ps with
  | nil => intro acc h1 h2; exact ⟨h1, h2, rfl⟩
  | cons p ps ih =>
    intro acc h1 h2
    obtain ⟨wp, op⟩ := hps p (List.mem_cons_self ..)
    have dn := denoms_ne_zero hc h2 op
    obtain ⟨w, e⟩ := addENiels_spec d acc p h1 wp hc.two_ne dn.1 dn.2
    have o : EOn d (acc.add (d + d) p).toAffine := by
      show EOn d (addENiels acc (p.toNiels (d + d))).toAffine
      rw [e]; exact eAdd_on_curve d h2 op dn.1 dn.2
    have := ih (fun q hq => hps q (List.mem_cons_of_mem _ hq)) (acc.add (d + d) p) w o
    simp only [List.foldl_cons, List.map_cons]
    have e' : (acc.add (d + d) p).toAffine = eAdd (-1) d acc.toAffine p.toAffine := e
    rw [← e']
    exact this

end MidnightZK.C11.Batch
