import MidnightZK.Model.C11.Bn
import MidnightZK.Proofs.C11.Edwards
/-!
Lemmas for the short-Weierstrass part of `Props/C11.lean`: the Renes–Costello–Batina formulas
of `derive/curve.rs` against the chord-and-tangent law (fraction-free, over any commutative
ring), coordinate conversions and the cross-multiplied equality tests. Core only (`grind`).
-/
namespace MidnightZK.C11
open Bn Lean.Grind

section ring
variable {F : Type} [CommRing F]

/-- Projective curve equation `Y²Z = X³ + bZ³` (`a = 0`). -/
def POn (b : F) (P : Proj F) : Prop := P.y * P.y * P.z = P.x * P.x * P.x + b * (P.z * P.z * P.z)

theorem addRaw_chord (b : F) (P Q : Proj F) (h1 : POn b P) (h2 : POn b Q) :
    let r := addRaw (b + b + b) P Q
    let u := Q.x * P.z - P.x * Q.z
    let v := Q.y * P.z - P.y * Q.z
    r.x * (u * u * (P.z * Q.z)) = r.z * (v * v * (P.z * Q.z) - (P.x * Q.z + Q.x * P.z) * (u * u)) ∧
    r.y * (u * P.z) = v * (P.x * r.z - r.x * P.z) - P.y * u * r.z := by
  obtain ⟨x1, y1, z1⟩ := P
  obtain ⟨x2, y2, z2⟩ := Q
  simp only [addRaw, POn] at *
  constructor <;> grind

theorem addMixedRaw_chord (b : F) (P : Proj F) (x2 y2 : F) (h1 : POn b P)
    (h2 : y2 * y2 = x2 * x2 * x2 + b) :
    let r := addMixedRaw (b + b + b) P x2 y2
    let u := x2 * P.z - P.x
    let v := y2 * P.z - P.y
    r.x * (u * u * P.z) = r.z * (v * v * P.z - (P.x + x2 * P.z) * (u * u)) ∧
    r.y * (u * P.z) = v * (P.x * r.z - r.x * P.z) - P.y * u * r.z := by
  obtain ⟨x1, y1, z1⟩ := P
  simp only [addMixedRaw, POn] at *
  constructor <;> grind

theorem doubleRaw_tangent (b : F) (P : Proj F) (h1 : POn b P) :
    let r := doubleRaw (b + b + b) P
    let w := P.x * P.x + P.x * P.x + P.x * P.x
    let s := (P.y + P.y) * P.z
    r.x * (s * s * P.z) = r.z * (w * w * P.z - (P.x + P.x) * (s * s)) ∧
    r.y * (s * P.z) = w * (P.x * r.z - r.x * P.z) - P.y * s * r.z := by
  obtain ⟨x1, y1, z1⟩ := P
  simp only [doubleRaw, POn] at *
  constructor <;> grind

/-- The three formulas keep the result on the curve. -/
theorem addRaw_on_curve (b : F) (P Q : Proj F) (h1 : POn b P) (h2 : POn b Q) :
    POn b (addRaw (b + b + b) P Q) := by
  obtain ⟨x1, y1, z1⟩ := P
  obtain ⟨x2, y2, z2⟩ := Q
  simp only [addRaw, POn] at *
  grind

theorem doubleRaw_on_curve (b : F) (P : Proj F) (h1 : POn b P) : POn b (doubleRaw (b + b + b) P) := by
  obtain ⟨x1, y1, z1⟩ := P
  simp only [doubleRaw, POn] at *
  grind

/-- Adding the identity `(0 : 1 : 0)` returns the other operand up to the projective factor `Y`. -/
theorem addRaw_identity_right (b3 : F) (P : Proj F) :
    addRaw b3 P ⟨0, 1, 0⟩ = ⟨P.x * P.y, P.y * P.y, P.z * P.y⟩ := by
  obtain ⟨x1, y1, z1⟩ := P
  simp only [addRaw]
  congr 1 <;> grind

theorem addRaw_identity_left (b3 : F) (Q : Proj F) :
    addRaw b3 ⟨0, 1, 0⟩ Q = ⟨Q.x * Q.y, Q.y * Q.y, Q.z * Q.y⟩ := by
  obtain ⟨x2, y2, z2⟩ := Q
  simp only [addRaw]
  congr 1 <;> grind

/-- `P + (-P)` is the identity `(0 : _ : 0)`. -/
theorem addRaw_neg (b : F) (P : Proj F) (h : POn b P) :
    (addRaw (b + b + b) P P.neg).x = 0 ∧ (addRaw (b + b + b) P P.neg).z = 0 := by
  obtain ⟨x1, y1, z1⟩ := P
  simp only [addRaw, Proj.neg, POn] at *
  constructor <;> grind

end ring

section field
variable {F : Type} [Field F] [DecidableEq F]

theorem inv_eq_zero_iff (z : F) : z⁻¹ = 0 ↔ z = 0 := by
  constructor
  · intro h
    by_cases hz : z = 0
    · exact hz
    · have := Field.mul_inv_cancel hz
      rw [h] at this
      have := Field.zero_ne_one (α := F)
      grind
  · intro h; subst h; exact Field.inv_zero

/-- `Curve::to_affine` of `derive/curve.rs` (select on `zinv == 0`) is the homogeneous
normalisation. -/
theorem toAffine_eq_hom (P : Proj F) : toAffine P = homToAffine P.x P.y P.z := by
  simp only [toAffine, homToAffine, inv_eq_zero_iff]

/-- `jacobian_coordinates` of a homogeneous point names Jacobian coordinates of the same
affine point. -/
theorem jacobian_coordinates_spec (P : Proj F) :
    let j := jacobianCoordinates P
    jacToAffine j.1 j.2.1 j.2.2 = homToAffine P.x P.y P.z := by
  obtain ⟨x, y, z⟩ := P
  simp only [jacobianCoordinates, jacToAffine, homToAffine]
  by_cases hz : z = 0
  · simp [hz]
  · simp only [hz, if_false]
    have hw := Field.mul_inv_cancel hz
    generalize z⁻¹ = w at hw
    congr 2 <;> grind

/-- Jacobian equality test ⇔ equality of affine values (both `Z ≠ 0`). -/
theorem jac_eq_iff (x1 y1 z1 x2 y2 z2 : F) (h1 : z1 ≠ 0) (h2 : z2 ≠ 0) :
    (x1 * (z2 * z2) = x2 * (z1 * z1) ∧ y1 * (z2 * z2) * z2 = y2 * (z1 * z1) * z1) ↔
    jacToAffine x1 y1 z1 = jacToAffine x2 y2 z2 := by
  simp only [jacToAffine, h1, h2, if_false, Option.some.injEq, Prod.mk.injEq]
  have w1 := Field.mul_inv_cancel h1
  have w2 := Field.mul_inv_cancel h2
  generalize z1⁻¹ = i1 at w1 ⊢
  generalize z2⁻¹ = i2 at w2 ⊢
  constructor
  · rintro ⟨a, b⟩
    constructor
    · have : x1 * (i1 * i1) = x1 * (z2 * z2) * (i1 * i1) * (i2 * i2) := by grind
      rw [this, a]; grind
    · have : y1 * (i1 * i1 * i1) = y1 * (z2 * z2) * z2 * (i1 * i1 * i1) * (i2 * i2 * i2) := by grind
      rw [this, b]; grind
  · rintro ⟨a, b⟩
    constructor
    · have : x1 * (z2 * z2) = x1 * (i1 * i1) * (z1 * z1) * (z2 * z2) := by grind
      rw [this, a]; grind
    · have : y1 * (z2 * z2) * z2 = y1 * (i1 * i1 * i1) * (z1 * z1 * z1) * (z2 * z2 * z2) := by grind
      rw [this, b]; grind

/-- Homogeneous equality test ⇔ equality of affine values (both `Z ≠ 0`). -/
theorem hom_eq_iff (x1 y1 z1 x2 y2 z2 : F) (h1 : z1 ≠ 0) (h2 : z2 ≠ 0) :
    (x1 * z2 = x2 * z1 ∧ y1 * z2 = y2 * z1) ↔ homToAffine x1 y1 z1 = homToAffine x2 y2 z2 := by
  simp only [homToAffine, h1, h2, if_false, Option.some.injEq, Prod.mk.injEq]
  rw [frac_eq_iff h1 h2, frac_eq_iff h1 h2]

theorem cancel_right {a b c : F} (hc : c ≠ 0) (h : a * c = b * c) : a = b := by
  have w := Field.mul_inv_cancel hc
  have : a = a * c * c⁻¹ := by grind
  rw [this, h]; grind

theorem chord_x_aux {x3 z3 i3 D V Z j S : F} (hZ : Z ≠ 0) (hz3 : z3 * i3 = 1) (hj : D * j = 1)
    (hA : x3 * (D*Z*(D*Z)*Z) = z3 * (V*Z*(V*Z)*Z - S*Z*(D*Z*(D*Z)))) :
    x3 * i3 = V*j*(V*j) - S := by
  apply cancel_right (mul_ne_zero' (mul_ne_zero' hZ hZ) hZ)
  have h1 : x3 * i3 * (Z*Z*Z) = (x3 * (D*Z*(D*Z)*Z)) * i3 * (j*j) := by grind
  rw [h1, hA]; grind

theorem chord_y_aux {x1 y1 x3 y3 z3 i3 D V Z j : F} (hZ : Z ≠ 0) (hz3 : z3 * i3 = 1) (hj : D * j = 1)
    (hB : y3 * (D * Z) = V * Z * (x1 * z3 - x3) - y1 * (D * Z) * z3) :
    y3 * i3 = V * j * (x1 - x3 * i3) - y1 := by
  apply cancel_right hZ
  have h1 : y3 * i3 * Z = (y3 * (D * Z)) * i3 * j := by grind
  rw [h1, hB]; grind

theorem hom_of_ne {x y z : F} (h : z ≠ 0) : homToAffine x y z = some (x * z⁻¹, y * z⁻¹) := by
  simp [homToAffine, h]

/-- Generic shape of the three affine corollaries: from the two fraction-free identities
(chord or tangent slope `V/D`, scaled by `Z`) to the affine third point. -/
theorem third_point_aux {X1 Y1 z1 i1 x3 y3 z3 i3 D V Z j S : F} (hZ : Z ≠ 0) (hz1 : z1 * i1 = 1)
    (hz3 : z3 * i3 = 1) (hj : D * j = 1)
    (hA : x3 * (D*Z*(D*Z)*Z) = z3 * (V*Z*(V*Z)*Z - S*Z*(D*Z*(D*Z))))
    (hB : y3 * (D*Z*z1) = V*Z*(X1*z3 - x3*z1) - Y1*(D*Z)*z3) :
    (x3 * i3, y3 * i3) = wThird (V * j) (X1 * i1) (Y1 * i1) (S - X1 * i1) := by
  have ex := chord_x_aux hZ hz3 hj hA
  have hB' : y3 * (D * Z) = V * Z * (X1 * i1 * z3 - x3) - Y1 * i1 * (D * Z) * z3 := by
    have : y3 * (D * Z) = (y3 * (D*Z*z1)) * i1 := by grind
    rw [this, hB]; grind
  have ey := chord_y_aux hZ hz3 hj hB'
  simp only [wThird]
  refine Prod.ext ?_ ?_
  · simp only; rw [ex]; grind
  · simp only; rw [ey, ex]; grind

/-- Algorithm 7 on two finite points with different abscissae: the chord law (provided the
resulting `Z` is non-zero). -/
theorem addRaw_affine (b : F) (P Q : Proj F) (h1 : POn b P) (h2 : POn b Q)
    (hz1 : P.z ≠ 0) (hz2 : Q.z ≠ 0) (hu : Q.x * P.z - P.x * Q.z ≠ 0)
    (hz3 : (addRaw (b + b + b) P Q).z ≠ 0) :
    homToAffine (addRaw (b + b + b) P Q).x (addRaw (b + b + b) P Q).y (addRaw (b + b + b) P Q).z
      = wAdd (0 : F) (homToAffine P.x P.y P.z) (homToAffine Q.x Q.y Q.z) := by
  obtain ⟨hA, hB⟩ := addRaw_chord b P Q h1 h2
  generalize addRaw (b + b + b) P Q = R at *
  obtain ⟨x1, y1, z1⟩ := P
  obtain ⟨x2, y2, z2⟩ := Q
  obtain ⟨x3, y3, z3⟩ := R
  simp only at *
  rw [hom_of_ne hz1, hom_of_ne hz2, hom_of_ne hz3]
  have w1 := Field.mul_inv_cancel hz1
  have w2 := Field.mul_inv_cancel hz2
  have w3 := Field.mul_inv_cancel hz3
  generalize z1⁻¹ = i1 at *
  generalize z2⁻¹ = i2 at *
  generalize z3⁻¹ = i3 at *
  have hu' : x2 * z1 - x1 * z2 = (x2 * i2 - x1 * i1) * (z1 * z2) := by grind
  have hv' : y2 * z1 - y1 * z2 = (y2 * i2 - y1 * i1) * (z1 * z2) := by grind
  have hs' : x1 * z2 + x2 * z1 = (x1 * i1 + x2 * i2) * (z1 * z2) := by grind
  have hx : x1 * i1 ≠ x2 * i2 := by
    intro h; apply hu; rw [hu', h]; grind
  have hd : x2 * i2 - x1 * i1 ≠ 0 := by intro h; apply hx; grind
  simp only [wAdd, hx, if_false, wChord]
  have wj := Field.mul_inv_cancel hd
  generalize (x2 * i2 - x1 * i1)⁻¹ = j at *
  rw [hu', hv', hs'] at hA
  rw [hu', hv'] at hB
  have := third_point_aux (mul_ne_zero' hz1 hz2) w1 w3 wj hA hB
  rw [this]
  have e : x1 * i1 + x2 * i2 - x1 * i1 = x2 * i2 := by grind
  rw [e]

/-- Algorithm 8 (mixed addition) on a finite point and an affine point with a different
abscissa. -/
theorem addMixedRaw_affine (b : F) (P : Proj F) (x2 y2 : F) (h1 : POn b P)
    (h2 : y2 * y2 = x2 * x2 * x2 + b) (hz1 : P.z ≠ 0) (hu : x2 * P.z - P.x ≠ 0)
    (hz3 : (addMixedRaw (b + b + b) P x2 y2).z ≠ 0) :
    homToAffine (addMixedRaw (b + b + b) P x2 y2).x (addMixedRaw (b + b + b) P x2 y2).y
        (addMixedRaw (b + b + b) P x2 y2).z
      = wAdd (0 : F) (homToAffine P.x P.y P.z) (some (x2, y2)) := by
  obtain ⟨hA, hB⟩ := addMixedRaw_chord b P x2 y2 h1 h2
  generalize addMixedRaw (b + b + b) P x2 y2 = R at *
  obtain ⟨x1, y1, z1⟩ := P
  obtain ⟨x3, y3, z3⟩ := R
  simp only at *
  rw [hom_of_ne hz1, hom_of_ne hz3]
  have w1 := Field.mul_inv_cancel hz1
  have w3 := Field.mul_inv_cancel hz3
  generalize z1⁻¹ = i1 at *
  generalize z3⁻¹ = i3 at *
  have hu' : x2 * z1 - x1 = (x2 - x1 * i1) * z1 := by grind
  have hv' : y2 * z1 - y1 = (y2 - y1 * i1) * z1 := by grind
  have hs' : x1 + x2 * z1 = (x1 * i1 + x2) * z1 := by grind
  have hx : x1 * i1 ≠ x2 := by
    intro h; apply hu; rw [hu', h]; grind
  have hd : x2 - x1 * i1 ≠ 0 := by intro h; apply hx; grind
  simp only [wAdd, hx, if_false, wChord]
  have wj := Field.mul_inv_cancel hd
  generalize (x2 - x1 * i1)⁻¹ = j at *
  rw [hu', hv', hs'] at hA
  rw [hu', hv'] at hB
  have := third_point_aux hz1 w1 w3 wj hA hB
  rw [this]
  have e : x1 * i1 + x2 - x1 * i1 = x2 := by grind
  rw [e]

/-- Algorithm 9 (doubling) on a finite point with `Y ≠ 0`: the tangent law. -/
theorem doubleRaw_affine (b : F) (P : Proj F) (h1 : POn b P) (hz1 : P.z ≠ 0) (hy : P.y + P.y ≠ 0)
    (hz3 : (doubleRaw (b + b + b) P).z ≠ 0) :
    homToAffine (doubleRaw (b + b + b) P).x (doubleRaw (b + b + b) P).y (doubleRaw (b + b + b) P).z
      = wAdd (0 : F) (homToAffine P.x P.y P.z) (homToAffine P.x P.y P.z) := by
  obtain ⟨hA, hB⟩ := doubleRaw_tangent b P h1
  generalize doubleRaw (b + b + b) P = R at *
  obtain ⟨x1, y1, z1⟩ := P
  obtain ⟨x3, y3, z3⟩ := R
  simp only at *
  rw [hom_of_ne hz1, hom_of_ne hz3]
  have w1 := Field.mul_inv_cancel hz1
  have w3 := Field.mul_inv_cancel hz3
  generalize z1⁻¹ = i1 at *
  generalize z3⁻¹ = i3 at *
  have hyy : y1 * i1 + y1 * i1 ≠ 0 := by
    intro h; apply hy
    have : y1 + y1 = (y1 * i1 + y1 * i1) * z1 := by grind
    rw [this, h]; grind
  simp only [wAdd, if_true, hyy, if_false, wTangent]
  have wj := Field.mul_inv_cancel hyy
  generalize (y1 * i1 + y1 * i1)⁻¹ = j at *
  have hw' : x1 * x1 + x1 * x1 + x1 * x1
      = (x1 * i1 * (x1 * i1) + x1 * i1 * (x1 * i1) + x1 * i1 * (x1 * i1) + 0) * (z1 * z1) := by grind
  have hs' : (y1 + y1) * z1 = (y1 * i1 + y1 * i1) * (z1 * z1) := by grind
  have hx' : x1 + x1 = (x1 * i1 + x1 * i1) * z1 := by grind
  rw [hw', hs'] at hB
  have hA' : x3 * ((y1 * i1 + y1 * i1) * (z1 * z1) * ((y1 * i1 + y1 * i1) * (z1 * z1)) * (z1 * z1)) =
      z3 * ((x1 * i1 * (x1 * i1) + x1 * i1 * (x1 * i1) + x1 * i1 * (x1 * i1) + 0) * (z1 * z1) *
        ((x1 * i1 * (x1 * i1) + x1 * i1 * (x1 * i1) + x1 * i1 * (x1 * i1) + 0) * (z1 * z1)) * (z1 * z1) -
        (x1 * i1 + x1 * i1) * (z1 * z1) *
          ((y1 * i1 + y1 * i1) * (z1 * z1) * ((y1 * i1 + y1 * i1) * (z1 * z1)))) := by
    have : x3 * ((y1 * i1 + y1 * i1) * (z1 * z1) * ((y1 * i1 + y1 * i1) * (z1 * z1)) * (z1 * z1))
        = (x3 * ((y1 + y1) * z1 * ((y1 + y1) * z1) * z1)) * z1 := by rw [hs']; grind
    rw [this, hA, hw', hs', hx']; grind
  have := third_point_aux (mul_ne_zero' hz1 hz1) w1 w3 wj hA' hB
  rw [this]
  have e : x1 * i1 + x1 * i1 - x1 * i1 = x1 * i1 := by grind
  rw [e]

end field
end MidnightZK.C11
