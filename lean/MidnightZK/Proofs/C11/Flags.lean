import MidnightZK.Model.C11.Codec
import MidnightZK.Proofs.C11.Codec
/-!
Flag-bit / sign-bit discipline of the decoder models of `Model/C11/Codec.lean`:

* the lexicographic sign of `Fp` and of `Fp2` (`c1` first, `c0` only when `c1 = 0`) flips under
  negation of a non-zero canonical element, and square roots returned by the executable fields
  are canonical — so the sign flag of an accepted compressed BLS12-381 string is *the* sign of
  the decoded `y`;
* non-canonical coordinates (`x ≥ p`) are rejected; the infinity flag is only accepted with an
  all-zero body; an uncompressed finite point carries no flag bit.
Core only.
-/
set_option linter.unusedSimpArgs false
namespace MidnightZK.C11

/-! ### Sign of `Fp` / `Fp2` under negation -/

theorem Fp.neg_v {p : Nat} {y : Fp p} (hy : y.v < p) : (-y).v = if y.v = 0 then 0 else p - y.v := by
  show negMod y.v p = _
  unfold negMod
  rw [Nat.mod_eq_of_lt hy]
  by_cases h : y.v = 0
  · simp [h]
  · rw [if_neg h]; apply Nat.mod_eq_of_lt; omega

theorem Fp.neg_lt {p : Nat} (hp : 0 < p) (y : Fp p) : (-y).v < p := by
  show negMod y.v p < p
  unfold negMod; exact Nat.mod_lt _ hp

/-- `lexicographically_largest` of `Fp` (`v > (p-1)/2`) flips under negation of a non-zero
canonical element (`p` odd). -/
theorem Fp.lexLargest_neg {p : Nat} (hodd : p % 2 = 1) {y : Fp p} (hy : y.v < p) (h0 : y.v ≠ 0) :
    (-y).lexLargest = !y.lexLargest := by
  unfold Fp.lexLargest
  rw [Fp.neg_v hy, if_neg h0]
  by_cases h : y.v > (p - 1) / 2
  · simp only [h, decide_true, Bool.not_true, decide_eq_false_iff_not]; omega
  · simp only [h, decide_false, Bool.not_false, decide_eq_true_eq]; omega

/-- Canonical element of `Fp2`. -/
def Fp2.Canon {p : Nat} (y : Fp2 p) : Prop := y.c0.v < p ∧ y.c1.v < p

/-- `Fp2` sign convention of the BLS12-381 encodings — compare `c1` first and fall back to `c0`
only when `c1 = 0` — flips under negation of a non-zero canonical element. (With the sign taken
from `c0` alone the statement is false whenever `c0 = 0`.) -/
theorem Fp2.lexLargest_neg {p : Nat} (hodd : p % 2 = 1) {y : Fp2 p} (hy : y.Canon)
    (h0 : y.c0.v ≠ 0 ∨ y.c1.v ≠ 0) : (-y).lexLargest = !y.lexLargest := by
  obtain ⟨h0c, h1c⟩ := hy
  show (if (-y.c1).isZero then (-y.c0).lexLargest else (-y.c1).lexLargest)
    = !(if y.c1.isZero then y.c0.lexLargest else y.c1.lexLargest)
  by_cases h1 : y.c1.v = 0
  · have hz : y.c1.isZero = true := by simp [Fp.isZero, h1]
    have hz' : (-y.c1).isZero = true := by
      simp only [Fp.isZero, Fp.neg_v h1c, h1, if_true]; rfl
    rw [hz, hz']
    simp only [if_true]
    exact Fp.lexLargest_neg hodd h0c (by omega)
  · have hz : y.c1.isZero = false := by simp [Fp.isZero, h1]
    have hz' : (-y.c1).isZero = false := by
      simp only [Fp.isZero, Fp.neg_v h1c, h1, if_false]
      simp only [beq_eq_false_iff_ne]; omega
    rw [hz, hz']
    simp only [Bool.false_eq_true, if_false]
    exact Fp.lexLargest_neg hodd h1c h1

/-! ### Square roots of the executable fields are canonical -/

theorem Fp.mul_lt {p : Nat} (hp : 0 < p) (a b : Fp p) : (a * b).v < p := by
  show mulMod a.v b.v p < p
  unfold mulMod; exact Nat.mod_lt _ hp

theorem Fp2.sqrt_canon {p : Nat} (hp : 0 < p) {a r : Fp2 p} (h : a.sqrt = some r) : r.Canon := by
  unfold Fp2.sqrt at h
  simp only at h
  split at h
  · cases h; exact ⟨hp, hp⟩
  · split at h
    · split at h
      · next r0 hr0 =>
        split at h
        · cases h; exact ⟨Fp.sqrt_lt hp hr0, hp⟩
        · cases h
      · split at h
        · next r1 hr1 =>
          split at h
          · cases h; exact ⟨hp, Fp.sqrt_lt hp hr1⟩
          · cases h
        · cases h
    · split at h
      · cases h
      · split at h
        · cases h
        · next x hx =>
          split at h
          · cases h; exact ⟨Fp.sqrt_lt hp hx, Fp.mul_lt hp _ _⟩
          · cases h

namespace Codec

/-! ### What the sign flag of an accepted compressed string means -/

section generic
variable {F : Type} [CoordField F] [DecidableEq F] [OfNat F 0]

/-- Laws of a coordinate field + codec pair needed to read the sign flag: `canon` holds for
every square root the field returns, `-0 = 0`, and the sign predicate flips under negation of a
non-zero canonical element. -/
structure SignLaw (c : FieldCodec F) (canon : F → Prop) : Prop where
  sqrt_canon : ∀ a r : F, CoordField.sqrtO a = some r → canon r
  neg_zero : -(0 : F) = 0
  lex_neg : ∀ y : F, canon y → y ≠ 0 → c.lexLargest (-y) = !c.lexLargest y

/-- `blst_p1_uncompress` / `blst_p2_uncompress` as wrapped by `from_compressed[_unchecked]`: the
sign flag (bit `0x20` of byte 0) of an accepted finite point IS the lexicographic sign of the
decoded `y` (for `y ≠ 0`; `y = 0` would be a point of order two, which the BLS12-381 curves do
not have). Hence a string with the wrong sign bit is rejected or decodes to a different point. -/
theorem blsUncompress_sign {c : FieldCodec F} {canon : F → Prop} (law : SignLaw c canon) (b : F)
    (bs : List Nat) (x y : F) (h : blsUncompress c b bs = some (some (x, y))) (hy : y ≠ 0) :
    (c.lexLargest y = true ↔ bs.headD 0 &&& 0x20 ≠ 0) := by
  unfold blsUncompress at h
  simp only at h
  split at h
  · cases h
  · split at h
    · split at h <;> cases h
    · split at h
      · cases h
      · split at h
        · cases h
        · next y0 hy0 =>
          split at h
          · cases h
          · simp only [Option.some.injEq, Prod.mk.injEq] at h
            obtain ⟨-, hyy⟩ := h
            by_cases hs : (c.lexLargest y0 = true) = (bs.headD 0 &&& 0x20 ≠ 0)
            · rw [if_pos hs] at hyy; rw [← hyy, hs]
            · rw [if_neg hs] at hyy
              have hy0ne : y0 ≠ 0 := by
                intro e; rw [e, law.neg_zero] at hyy; exact hy hyy.symm
              rw [← hyy, law.lex_neg y0 (law.sqrt_canon _ _ hy0) hy0ne]
              have hs' : ¬ (c.lexLargest y0 = true ↔ bs.headD 0 &&& 0x20 ≠ 0) :=
                fun hi => hs (propext hi)
              cases hl : c.lexLargest y0 <;> by_cases hd : bs.headD 0 &&& 0x20 ≠ 0 <;>
                simp_all

/-- Two accepted compressed strings that differ in the sign flag decode to different points. -/
theorem blsUncompress_sign_flip {c : FieldCodec F} {canon : F → Prop} (law : SignLaw c canon) (b : F)
    (bs bs' : List Nat) (x y x' y' : F)
    (h : blsUncompress c b bs = some (some (x, y))) (h' : blsUncompress c b bs' = some (some (x', y')))
    (hy : y ≠ 0) (hy' : y' ≠ 0)
    (hflip : ¬ (bs.headD 0 &&& 0x20 ≠ 0 ↔ bs'.headD 0 &&& 0x20 ≠ 0)) : y ≠ y' := by
  intro e
  have h1 := blsUncompress_sign law b bs x y h hy
  have h2 := blsUncompress_sign law b bs' x' y' h' hy'
  rw [e] at h1
  exact hflip (h1.symm.trans h2)

/-- Infinity flag of the uncompressed form (`blst_p1_deserialize` behind
`from_uncompressed[_unchecked]`): the identity is accepted only as `40 00 … 00`. -/
theorem blsDeserialize_infinity (c : FieldCodec F) (b : F) (bs : List Nat)
    (h : blsDeserialize c b bs = some none) :
    bs.headD 0 &&& 0x80 = 0 ∧ bs.headD 0 &&& 0x40 ≠ 0 ∧ bs.headD 0 &&& 0x3f = 0 ∧
    allZero (bs.drop 1) = true := by
  unfold blsDeserialize at h
  simp only at h
  split at h
  · cases h
  · next h80 =>
    split at h
    · split at h
      · split at h
        · split at h <;> cases h
        · cases h
      · cases h
    · split at h
      · next hc => exact ⟨by simpa using h80, hc.1, hc.2.1, hc.2.2⟩
      · cases h

/-- A finite point accepted by the uncompressed decoder carries NO flag bit, both coordinates are
canonical (`< p`), the point is on the curve and `x ≠ 0`. -/
theorem blsDeserialize_finite (c : FieldCodec F) (b : F) (bs : List Nat) (x y : F)
    (h : blsDeserialize c b bs = some (some (x, y))) :
    bs.headD 0 &&& 0xe0 = 0 ∧ c.ofBe 3 (bs.take c.size) = some x ∧
    c.ofBe 0 (bs.drop c.size) = some y ∧ y * y = rhs b x ∧ x ≠ 0 := by
  unfold blsDeserialize at h
  simp only at h
  split at h
  · cases h
  · split at h
    · next he0 =>
      split at h
      · next x' y' hx hy =>
        split at h
        · next hon =>
          split at h
          · cases h
          · next hx0 =>
            simp only [Option.some.injEq, Prod.mk.injEq] at h
            obtain ⟨rfl, rfl⟩ := h
            exact ⟨he0, hx, hy, hon, hx0⟩
        · cases h
      · cases h
    · split at h <;> cases h

/-- `serde.rs: Compressed::decode` (`TwoSpare`: BN254 G1/G2, flags in the LAST byte): the identity
flag is only accepted with `x = 0` and a clear sign flag, and then decodes to the identity; a
string without the identity flag never decodes to `x = 0`. -/
theorem bnDecode_flags (c : FieldCodec F) (b : F) (bs : List Nat) (P : WPoint F)
    (h : bnDecode c b bs = some P) :
    (bs.getLastD 0 &&& 0x40 ≠ 0 →
      P = none ∧ bs.getLastD 0 &&& 0x80 = 0 ∧ c.ofLe 0 (setLast bs (· &&& 0x3f)) = some 0) ∧
    (bs.getLastD 0 &&& 0x40 = 0 → ∃ x y, P = some (x, y) ∧ x ≠ 0 ∧
      c.ofLe 0 (setLast bs (· &&& 0x3f)) = some x) := by
  unfold bnDecode at h
  simp only at h
  split at h
  · cases h
  · next x hx =>
    by_cases hid : bs.getLastD 0 &&& 0x40 ≠ 0
    · refine ⟨fun _ => ?_, fun hn => absurd hn hid⟩
      by_cases hx0 : x = 0 <;> by_cases hs : bs.getLastD 0 &&& 0x80 ≠ 0 <;>
        simp only [hid, hx0, hs, decide_true, decide_false, Bool.not_true, Bool.not_false,
          Bool.and_true, Bool.and_false, Bool.true_and, Bool.false_and, bne_self_eq_false,
          Bool.false_eq_true, if_false, if_true, Bool.true_bne, Bool.false_bne, ne_eq,
          not_true_eq_false, not_false_eq_true, bne_iff_ne] at h
      all_goals first
        | (cases h; exact ⟨rfl, by simpa using hs, by rw [hx, hx0]⟩)
        | (split at h <;> cases h)
    · have hid' : bs.getLastD 0 &&& 0x40 = 0 := by simpa using hid
      refine ⟨fun hn => absurd hid' hn, fun _ => ?_⟩
      by_cases hx0 : x = 0 <;>
        simp only [hid', hx0, decide_true, decide_false, Bool.not_true, Bool.not_false,
          Bool.and_true, Bool.and_false, Bool.true_and, Bool.false_and, bne_self_eq_false,
          Bool.false_eq_true, if_false, if_true, Bool.true_bne, Bool.false_bne, ne_eq,
          not_true_eq_false, not_false_eq_true, bne_iff_ne] at h
      · split at h <;> cases h
      · split at h
        · cases h
        · cases h; exact ⟨x, _, rfl, hx0, hx⟩

end generic

/-! ### The laws hold for the executable fields -/

theorem fpCodec_signLaw (p size : Nat) (hp : 0 < p) (hodd : p % 2 = 1) :
    SignLaw (fpCodec p size) (fun y : Fp p => y.v < p) where
  sqrt_canon := fun _ _ h => Fp.sqrt_lt hp h
  neg_zero := by
    show (⟨negMod (0 % p) p⟩ : Fp p) = ⟨0 % p⟩
    unfold negMod
    simp [Nat.mod_eq_of_lt hp]
  lex_neg := fun y hy h0 => Fp.lexLargest_neg hodd hy (by
    intro e; apply h0
    show y = ⟨0 % p⟩
    cases y; simp_all [Nat.mod_eq_of_lt hp])

theorem fp2Codec_signLaw (p size : Nat) (hp : 0 < p) (hodd : p % 2 = 1) :
    SignLaw (fp2Codec p size) (fun y : Fp2 p => y.Canon) where
  sqrt_canon := fun _ _ h => Fp2.sqrt_canon hp h
  neg_zero := by
    show (⟨⟨negMod (0 % p) p⟩, ⟨negMod 0 p⟩⟩ : Fp2 p) = ⟨⟨0 % p⟩, ⟨0⟩⟩
    unfold negMod
    simp [Nat.mod_eq_of_lt hp]
  lex_neg := fun y hy h0 => Fp2.lexLargest_neg hodd hy (by
    apply Classical.byContradiction
    intro hn
    apply h0
    show y = ⟨⟨0 % p⟩, ⟨0⟩⟩
    obtain ⟨⟨a⟩, ⟨b⟩⟩ := y
    simp only [not_or, Decidable.not_not] at hn
    simp_all [Nat.mod_eq_of_lt hp])

/-- Non-canonical `x` (≥ the modulus after masking the three flag bits) is rejected by the
compressed G1 decoder (`BLST_BAD_ENCODING`). -/
theorem blsUncompress_rejects_x_ge_p (p size : Nat) (b : Fp p) (bs : List Nat)
    (h40 : bs.headD 0 &&& 0x40 = 0)
    (hx : beToNat bs % 2 ^ (8 * size - 3) ≥ p) : blsUncompress (fpCodec p size) b bs = none := by
  unfold blsUncompress
  simp only
  split
  · rfl
  · rw [if_neg (by simpa using h40)]
    have : (fpCodec p size).ofBe 3 bs = none := by
      simp only [fpCodec]
      rw [if_neg (by omega)]
    rw [this]

/-- The same for G2: either coefficient (`c1` is read first, and carries the flags) at or above
the modulus. -/
theorem blsUncompress_rejects_x_ge_p_fp2 (p size : Nat) (b : Fp2 p) (bs : List Nat)
    (h40 : bs.headD 0 &&& 0x40 = 0)
    (hx : beToNat (bs.take size) % 2 ^ (8 * size - 3) ≥ p ∨ beToNat (bs.drop size) ≥ p) :
    blsUncompress (fp2Codec p size) b bs = none := by
  unfold blsUncompress
  simp only
  split
  · rfl
  · rw [if_neg (by simpa using h40)]
    have : (fp2Codec p size).ofBe 3 bs = none := by
      simp only [fp2Codec]
      rw [if_neg (by omega)]
    rw [this]

theorem tag_aux (t v : Nat) (ht : t = 2 ∨ t = 3) (h : (v % 2 == 1) = (t == 3)) :
    t = 2 + v % 2 := by
  rcases ht with rfl | rfl <;> simp at h <;> omega

theorem tag_aux' (t v : Nat) (ht : t = 2 ∨ t = 3) (h : ¬ (v % 2 == 1) = (t == 3)) :
    t = 2 + (1 - v % 2) := by
  rcases ht with rfl | rfl <;> simp at h <;> omega

/-- `K256::from_bytes`: `x ≥ p` is rejected, and the tag of an accepted finite point is
`02 + (y mod 2)` (for `y ≠ 0`; secp256k1 has no point with `y = 0`). -/
theorem secpDecode_tag_parity (bs : List Nat) (x y : Fp Params.secpP)
    (h : secpDecode bs = some (some (x, y))) (hy : y.v ≠ 0) :
    beToNat (bs.drop 1) < Params.secpP ∧ x.v = beToNat (bs.drop 1) ∧
    bs.headD 0 = 2 + y.v % 2 := by
  have hp0 : 0 < Params.secpP := by decide
  have hodd : Params.secpP % 2 = 1 := by decide
  unfold secpDecode at h
  split at h
  · cases h
  · simp only at h
    split at h
    · cases h
    · next ht =>
      split at h
      · cases h
      · next hlt =>
        split at h
        · cases h
        · next y0 hy0 =>
          simp only [Option.some.injEq, Prod.mk.injEq] at h
          obtain ⟨rfl, hyy⟩ := h
          refine ⟨by omega, rfl, ?_⟩
          have hy0lt := Fp.sqrt_lt hp0 hy0
          have htag : bs.headD 0 = 2 ∨ bs.headD 0 = 3 := by omega
          by_cases hs : y0.isOdd = (bs.headD 0 == 3)
          · rw [if_pos hs] at hyy
            subst hyy
            exact tag_aux _ _ htag hs
          · rw [if_neg hs] at hyy
            have hne : y0.v ≠ 0 := by
              intro e0
              apply hy
              rw [← hyy, Fp.neg_v hy0lt, if_pos e0]
            obtain ⟨hpar, -⟩ := neg_parity hodd hy0lt hne
            rw [← hyy, hpar]
            exact tag_aux' _ _ htag hs

end Codec
end MidnightZK.C11
