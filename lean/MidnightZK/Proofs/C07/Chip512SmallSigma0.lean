import MidnightZK.Proofs.C07.Chip512WLimbs
/-! C07: soundness of `σ₀` of the SHA-512 chip, from the generated gate polynomials, the lookups and
the copy constraints of the emitted region (same structure as the SHA-256 proofs of `ChipRegions.lean`). -/
namespace MidnightZK.C07.Chip512
open MidnightZK.C07 MidnightZK.C07.Chip

variable {p : Nat} {a : Asg} {k : Nat}

/-- `fn sigma0` of `sha512_chip.rs`: the returned cell holds `rotr 64 x 1 ^^^ rotr 64 x 8 ^^^ shr x 7`. -/
theorem sigma0_sound (hp : 2 ^ 130 ≤ p) (ha : ∀ c, a c < p) {wr : WRefs} {x : Nat} (kk ivv : List Nat)
    (hS : Sat p Gen.sha512Gates a k (sigma0 k wr).1) (hI : WInv a wr x) :
    IsPlain a (sigma0 k wr).2 ((sha512P kk ivv).smallSigma0 x) := by
  rcases wr with ⟨pl, limbs⟩
  have hlen : limbs.length = 10 := hI.len
  obtain ⟨s0, s1, s2, s3, s4, s5, s6, s7, s8, s9, rfl⟩ := list10 hlen
  have e0 := hI.l0
  have e1 := hI.l1
  have e2 := hI.l2
  have e3 := hI.l3
  have e4 := hI.l4
  have e5 := hI.l5
  have e6 := hI.l6
  have e7 := hI.l7
  have e8 := hI.l8
  have e9 := hI.l9
  simp only [List.getD_cons_succ, List.getD_cons_zero] at e0 e1 e2 e3 e4 e5 e6 e7 e8 e9
  obtain ⟨v, hu, hv, su, sv⟩ := sprdd_block (off := 0) hp ha hS (by region_simp512) (by region_simp512) (by region_simp512) (by region_simp512) (by region_simp512) (by region_simp512) (by region_simp512) (by region_simp512) (by region_simp512) (by region_simp512) (by region_simp512) (by region_simp512) (by region_simp512) (by region_simp512) (by region_simp512) (by region_simp512)
  have c0 := hS.copy' (src := s0) (col := 5) (off := 0) (by region_simp512)
  have c1 := hS.copy' (src := s1) (col := 6) (off := 0) (by region_simp512)
  have c2 := hS.copy' (src := s2) (col := 5) (off := 1) (by region_simp512)
  have c3 := hS.copy' (src := s3) (col := 6) (off := 1) (by region_simp512)
  have c4 := hS.copy' (src := s4) (col := 5) (off := 2) (by region_simp512)
  have c5 := hS.copy' (src := s5) (col := 6) (off := 2) (by region_simp512)
  have c6 := hS.copy' (src := s6) (col := 5) (off := 3) (by region_simp512)
  have c7 := hS.copy' (src := s7) (col := 6) (off := 3) (by region_simp512)
  have c8 := hS.copy' (src := s8) (col := 5) (off := 4) (by region_simp512)
  have c9 := hS.copy' (src := s9) (col := 6) (off := 4) (by region_simp512)
  rw [e0] at c0
  rw [e1] at c1
  rw [e2] at c2
  rw [e3] at c3
  rw [e4] at c4
  rw [e5] at c5
  rw [e6] at c6
  rw [e7] at c7
  rw [e8] at c8
  rw [e9] at c9
  have g := hS.gate' (s := .sig0) (o := 1) (e := Gen.gate512_sig0.getD 0 default) (by region_simp512)
    (by simp [Gen.sha512Gates, Gen.gate512_sig0])
  simp only [Nat.zero_add] at su sv
  have hx := hI.lt
  obtain ⟨hxc, hl⟩ := w_limbs hx
  set L0 := x / 2 ^ 61 with hL0
  set L1 := x / 2 ^ 48 % 2 ^ 13 with hL1
  set L2 := x / 2 ^ 35 % 2 ^ 13 with hL2
  set L3 := x / 2 ^ 22 % 2 ^ 13 with hL3
  set L4 := x / 2 ^ 19 % 2 ^ 3 with hL4
  set L5 := x / 2 ^ 8 % 2 ^ 11 with hL5
  set L6 := x / 2 ^ 7 % 2 ^ 1 with hL6
  set L7 := x / 2 ^ 6 % 2 ^ 1 with hL7
  set L8 := x / 2 ^ 1 % 2 ^ 5 with hL8
  set L9 := x % 2 ^ 1 with hL9
  have r0 : shr x 7 = concatLE [(1, L6), (11, L5), (3, L4), (13, L3), (13, L2), (13, L1), (3, L0)] := by
    rw [hxc]
    exact shr_concat [(1, L9), (5, L8), (1, L7)] [(1, L6), (11, L5), (3, L4), (13, L3), (13, L2), (13, L1), (3, L0)] (hl _ (by simp))
  have s0' := spread64_concatLE [(1, L6), (11, L5), (3, L4), (13, L3), (13, L2), (13, L1), (3, L0)] (hl _ (by simp)) (by simp [bitsTotal])
  rw [← r0] at s0'
  have r1 : rotr 64 x 1 = concatLE ([(5, L8), (1, L7), (1, L6), (11, L5), (3, L4), (13, L3), (13, L2), (13, L1), (3, L0)] ++ [(1, L9)]) := by
    rw [hxc]
    exact rotr_concat 64 [(1, L9)] [(5, L8), (1, L7), (1, L6), (11, L5), (3, L4), (13, L3), (13, L2), (13, L1), (3, L0)] (hl _ (by simp)) (hl _ (by simp)) rfl
  have s1' := spread64_concatLE ([(5, L8), (1, L7), (1, L6), (11, L5), (3, L4), (13, L3), (13, L2), (13, L1), (3, L0)] ++ [(1, L9)]) (hl _ (by simp)) (by simp [bitsTotal])
  rw [← r1] at s1'
  have r2 : rotr 64 x 8 = concatLE ([(11, L5), (3, L4), (13, L3), (13, L2), (13, L1), (3, L0)] ++ [(1, L9), (5, L8), (1, L7), (1, L6)]) := by
    rw [hxc]
    exact rotr_concat 64 [(1, L9), (5, L8), (1, L7), (1, L6)] [(11, L5), (3, L4), (13, L3), (13, L2), (13, L1), (3, L0)] (hl _ (by simp)) (hl _ (by simp)) rfl
  have s2' := spread64_concatLE ([(11, L5), (3, L4), (13, L3), (13, L2), (13, L1), (3, L0)] ++ [(1, L9), (5, L8), (1, L7), (1, L6)]) (hl _ (by simp)) (by simp [bitsTotal])
  rw [← r2] at s2'
  simp only [List.cons_append, List.nil_append, spreadConcat] at s0' s1' s2'
  have bx0 := spread64_lt (shr x 7)
  have bx1 := spread64_lt (rotr 64 x 1)
  have bx2 := spread64_lt (rotr 64 x 8)
  have bu := spread64_lt (a (.reg k 0 4))
  have bv := spread64_lt v
  have hL : (4 ^ 0 * a (.reg k 3 5) + 4 ^ 1 * a (.reg k 2 6) + 4 ^ 12 * a (.reg k 2 5) + 4 ^ 15 * a (.reg k 1 6) + 4 ^ 28 * a (.reg k 1 5) + 4 ^ 41 * a (.reg k 0 6) + 4 ^ 54 * a (.reg k 0 5))
      + (4 ^ 0 * a (.reg k 4 5) + 4 ^ 5 * a (.reg k 3 6) + 4 ^ 6 * a (.reg k 3 5) + 4 ^ 7 * a (.reg k 2 6) + 4 ^ 18 * a (.reg k 2 5) + 4 ^ 21 * a (.reg k 1 6) + 4 ^ 34 * a (.reg k 1 5) + 4 ^ 47 * a (.reg k 0 6) + 4 ^ 60 * a (.reg k 0 5) + 4 ^ 63 * a (.reg k 4 6))
      + (4 ^ 0 * a (.reg k 2 6) + 4 ^ 11 * a (.reg k 2 5) + 4 ^ 14 * a (.reg k 1 6) + 4 ^ 27 * a (.reg k 1 5) + 4 ^ 40 * a (.reg k 0 6) + 4 ^ 53 * a (.reg k 0 5) + 4 ^ 56 * a (.reg k 4 6) + 4 ^ 57 * a (.reg k 4 5) + 4 ^ 62 * a (.reg k 3 6) + 4 ^ 63 * a (.reg k 3 5))
      = spreadFuel 64 (shr x 7) + spreadFuel 64 (rotr 64 x 1) + spreadFuel 64 (rotr 64 x 8) := by
    rw [c0, c1, c2, c3, c4, c5, c6, c7, c8, c9, s0', s1', s2']; ring
  have hsum : (4 ^ 0 * a (.reg k 3 5) + 4 ^ 1 * a (.reg k 2 6) + 4 ^ 12 * a (.reg k 2 5) + 4 ^ 15 * a (.reg k 1 6) + 4 ^ 28 * a (.reg k 1 5) + 4 ^ 41 * a (.reg k 0 6) + 4 ^ 54 * a (.reg k 0 5))
      + (4 ^ 0 * a (.reg k 4 5) + 4 ^ 5 * a (.reg k 3 6) + 4 ^ 6 * a (.reg k 3 5) + 4 ^ 7 * a (.reg k 2 6) + 4 ^ 18 * a (.reg k 2 5) + 4 ^ 21 * a (.reg k 1 6) + 4 ^ 34 * a (.reg k 1 5) + 4 ^ 47 * a (.reg k 0 6) + 4 ^ 60 * a (.reg k 0 5) + 4 ^ 63 * a (.reg k 4 6))
      + (4 ^ 0 * a (.reg k 2 6) + 4 ^ 11 * a (.reg k 2 5) + 4 ^ 14 * a (.reg k 1 6) + 4 ^ 27 * a (.reg k 1 5) + 4 ^ 40 * a (.reg k 0 6) + 4 ^ 53 * a (.reg k 0 5) + 4 ^ 56 * a (.reg k 4 6) + 4 ^ 57 * a (.reg k 4 5) + 4 ^ 62 * a (.reg k 3 6) + 4 ^ 63 * a (.reg k 3 5))
      = (4 ^ 51 * a (.reg k 0 1) + 4 ^ 38 * a (.reg k 1 1) + 4 ^ 25 * a (.reg k 2 1) + 4 ^ 12 * a (.reg k 3 1) + a (.reg k 4 1))
        + 2 * (4 ^ 51 * a (.reg k 0 3) + 4 ^ 38 * a (.reg k 1 3) + 4 ^ 25 * a (.reg k 2 3) + 4 ^ 12 * a (.reg k 3 3) + a (.reg k 4 3)) := by
    refine exact_of_mod g ?_ (by rw [hL]; omega) (by rw [su, sv]; omega)
    simp [Gen.gate512_sig0, Expr.eval]
    ring
  rw [hL, su, sv] at hsum
  have hlt : ∀ n, n ≤ 64 → rotr 64 x n < 2 ^ 64 := fun n hn => rotr_lt 64 x n hx hn
  have := spread_sum_even_odd 64 _ _ _ (a (.reg k 0 4)) v (shr_lt hx) (hlt 1 (by omega)) (hlt 8 (by omega))
    hu hv hsum
  have e : (sha512P kk ivv).smallSigma0 x = rotr 64 x 1 ^^^ rotr 64 x 8 ^^^ shr x 7 := rfl
  refine ⟨?_, ?_⟩
  · show get a (.reg k 0 4) = _
    rw [get_reg, this.1, e, xor_rot3]
  · rw [e, ← xor_rot3, ← this.1]; exact hu

end MidnightZK.C07.Chip512
