import MidnightZK.Proofs.C07.Chip512Base
/-! C07: soundness of the limbs of a message word of the SHA-512 chip, from the generated gate polynomials, the lookups and
the copy constraints of the emitted region (same structure as the SHA-256 proofs of `ChipRegions.lean`). -/
namespace MidnightZK.C07.Chip512
open MidnightZK.C07 MidnightZK.C07.Chip

variable {p : Nat} {a : Asg} {k : Nat}

/-- One step of a limb decomposition. -/
theorem div_step (x s b : Nat) : x / 2 ^ s = x / 2 ^ s % 2 ^ b + 2 ^ b * (x / 2 ^ (s + b)) := by
  rw [pow_add, ← Nat.div_div_eq_div_mul]; exact (Nat.mod_add_div _ _).symm

/-- The limbs of a 64-bit word (3-13-13-13-3-11-1-1-5-1, listed little-endian) recompose it, and every
sub-list is made of well-sized limbs. -/
theorem w_limbs {x : Nat} (hx : x < 2 ^ 64) :
    x = concatLE [(1, x % 2 ^ 1), (5, x / 2 ^ 1 % 2 ^ 5), (1, x / 2 ^ 6 % 2 ^ 1), (1, x / 2 ^ 7 % 2 ^ 1), (11, x / 2 ^ 8 % 2 ^ 11), (3, x / 2 ^ 19 % 2 ^ 3), (13, x / 2 ^ 22 % 2 ^ 13), (13, x / 2 ^ 35 % 2 ^ 13), (13, x / 2 ^ 48 % 2 ^ 13), (3, x / 2 ^ 61)] ∧
    ∀ l, l ⊆ [(1, x % 2 ^ 1), (5, x / 2 ^ 1 % 2 ^ 5), (1, x / 2 ^ 6 % 2 ^ 1), (1, x / 2 ^ 7 % 2 ^ 1), (11, x / 2 ^ 8 % 2 ^ 11), (3, x / 2 ^ 19 % 2 ^ 3), (13, x / 2 ^ 22 % 2 ^ 13), (13, x / 2 ^ 35 % 2 ^ 13), (13, x / 2 ^ 48 % 2 ^ 13), (3, x / 2 ^ 61)] →
      ∀ ka ∈ l, ka.2 < 2 ^ ka.1 := by
  constructor
  · have h0 : x = x % 2 ^ 1 + 2 ^ 1 * (x / 2 ^ 1) := (Nat.mod_add_div x (2 ^ 1)).symm
    have h1 : x / 2 ^ 1 = x / 2 ^ 1 % 2 ^ 5 + 2 ^ 5 * (x / 2 ^ 6) := div_step x 1 5
    have h2 : x / 2 ^ 6 = x / 2 ^ 6 % 2 ^ 1 + 2 ^ 1 * (x / 2 ^ 7) := div_step x 6 1
    have h3 : x / 2 ^ 7 = x / 2 ^ 7 % 2 ^ 1 + 2 ^ 1 * (x / 2 ^ 8) := div_step x 7 1
    have h4 : x / 2 ^ 8 = x / 2 ^ 8 % 2 ^ 11 + 2 ^ 11 * (x / 2 ^ 19) := div_step x 8 11
    have h5 : x / 2 ^ 19 = x / 2 ^ 19 % 2 ^ 3 + 2 ^ 3 * (x / 2 ^ 22) := div_step x 19 3
    have h6 : x / 2 ^ 22 = x / 2 ^ 22 % 2 ^ 13 + 2 ^ 13 * (x / 2 ^ 35) := div_step x 22 13
    have h7 : x / 2 ^ 35 = x / 2 ^ 35 % 2 ^ 13 + 2 ^ 13 * (x / 2 ^ 48) := div_step x 35 13
    have h8 : x / 2 ^ 48 = x / 2 ^ 48 % 2 ^ 13 + 2 ^ 13 * (x / 2 ^ 61) := div_step x 48 13
    simp only [concatLE]
    linarith
  · intro l hl ka hka
    have := hl hka
    simp at this
    rcases this with rfl | rfl | rfl | rfl | rfl | rfl | rfl | rfl | rfl | rfl <;> simp <;> omega

end MidnightZK.C07.Chip512
