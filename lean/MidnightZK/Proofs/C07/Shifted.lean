import MidnightZK.Proofs.C07.Basic
/-! C07: the shifted rounds of `poseidon_cpu.rs` compose to the textbook permutation. -/
namespace MidnightZK.C07

open Finset
set_option linter.unusedSectionVars false

section
variable {F : Type} [CommRing F]

/-- The state `T + ROUND_CONSTANTS[r]` as a vector. -/
def addRc (P : PParams F) (r : Nat) (T : List F) : List F :=
  vec P.width (fun i => T.getD i 0 + P.k r i)

/-- The shifted round with index `r`: full or partial according to its position. -/
def shiftedRound (P : PParams F) (r : Nat) (st : List F) : List F :=
  if P.isFull r then fullRoundCpu P r st else partialRoundRaw P r st

theorem textbookRound_getD (P : PParams F) (r : Nat) (T : List F) (i : Nat) (hi : i < P.width) :
    (textbookRound P r T).getD i 0 =
      ∑ j ∈ range P.width, P.m i j *
        (if P.isFull r || j = P.width - 1 then sbox (T.getD j 0 + P.k r j) else T.getD j 0 + P.k r j) := by
  unfold textbookRound
  simp only
  rw [getD_vec _ _ _ _ hi, sumTo_eq, zero_add]
  apply Finset.sum_congr rfl
  intro j hj
  have hj' : j < P.width := Finset.mem_range.mp hj
  rw [getD_vec _ _ _ _ hj', getD_vec _ _ _ _ hj']

/-- A shifted round that is not the last one maps `T + rc[r]` to `textbookRound r T + rc[r+1]`. -/
theorem shiftedRound_step (P : PParams F) (r : Nat) (T : List F)
    (hr : r + 1 < P.nbFull + P.nbPartial) :
    shiftedRound P r (addRc P r T) = addRc P (r + 1) (textbookRound P r T) := by
  unfold shiftedRound addRc
  have hne : ¬ (r = P.nbFull + P.nbPartial - 1) := by omega
  by_cases hf : P.isFull r = true
  · simp only [hf, if_true]
    unfold fullRoundCpu linearLayer shiftedConsts
    simp only [hne, if_false]
    apply vec_congr
    intro i hi
    rw [sumTo_eq, getD_vec _ _ _ _ hi, textbookRound_getD P r T i hi, add_comm]
    congr 1
    apply Finset.sum_congr rfl
    intro j hj
    have hj' : j < P.width := Finset.mem_range.mp hj
    rw [getD_vec _ _ _ _ hj', getD_vec _ _ _ _ hj']
    simp [hf]
  · simp only [hf]
    have hf' : P.isFull r = false := by simpa using hf
    unfold partialRoundRaw linearLayer
    apply vec_congr
    intro i hi
    rw [sumTo_eq, getD_vec _ _ _ _ hi, textbookRound_getD P r T i hi, add_comm]
    congr 1
    apply Finset.sum_congr rfl
    intro j hj
    have hj' : j < P.width := Finset.mem_range.mp hj
    rw [getD_vec _ _ _ _ hj']
    simp only [hf', Bool.false_or, decide_eq_true_eq]
    split
    · rw [getD_vec _ _ _ _ hj']
    · rw [getD_vec _ _ _ _ hj']

/-- The last round (full, zero constants) maps `T + rc[R-1]` to `textbookRound (R-1) T`. -/
theorem shiftedRound_last (P : PParams F) (T : List F) (hF : 0 < P.nbFull / 2) :
    shiftedRound P (P.nbFull + P.nbPartial - 1) (addRc P (P.nbFull + P.nbPartial - 1) T)
      = textbookRound P (P.nbFull + P.nbPartial - 1) T := by
  set r := P.nbFull + P.nbPartial - 1 with hr
  have hf : P.isFull r = true := by
    unfold PParams.isFull
    simp only [Bool.or_eq_true, decide_eq_true_eq]
    right
    omega
  unfold shiftedRound addRc
  simp only [hf, if_true]
  unfold fullRoundCpu linearLayer shiftedConsts
  simp only [← hr, if_true]
  have htb : textbookRound P r T = vec P.width (fun i => (textbookRound P r T).getD i 0) := by
    unfold textbookRound
    simp only
    apply vec_congr
    intro i hi
    rw [getD_vec _ _ _ _ hi]
  rw [htb]
  apply vec_congr
  intro i hi
  rw [sumTo_eq, getD_vec _ _ _ _ hi, zero_add, textbookRound_getD P r T i hi]
  apply Finset.sum_congr rfl
  intro j hj
  have hj' : j < P.width := Finset.mem_range.mp hj
  rw [getD_vec _ _ _ _ hj', getD_vec _ _ _ _ hj']
  simp [hf]

theorem iter_shifted (P : PParams F) : ∀ (n s : Nat) (T : List F),
    s + n < P.nbFull + P.nbPartial →
    iter (shiftedRound P) n s (addRc P s T) = addRc P (s + n) (iter (textbookRound P) n s T)
  | 0, s, T, _ => by simp [iter]
  | n + 1, s, T, h => by
    rw [iter, iter, shiftedRound_step P s T (by omega), iter_shifted P n (s + 1) _ (by omega)]
    have : s + 1 + n = s + (n + 1) := by omega
    rw [this]

/-- `addRc` only reads the first `WIDTH` cells. -/
theorem addRc_vec (P : PParams F) (r : Nat) (T : List F) :
    addRc P r (vec P.width (fun i => T.getD i 0)) = addRc P r T := by
  unfold addRc
  apply vec_congr
  intro i hi
  rw [getD_vec _ _ _ _ hi]

/-- All rounds in shifted form equal the textbook permutation (even, non-zero number of full rounds). -/
theorem shifted_eq_textbook (P : PParams F) (st : List F) (hF : 0 < P.nbFull / 2) :
    iter (shiftedRound P) (P.nbFull + P.nbPartial) 0 (addRc P 0 st) = textbook P st := by
  have hR : P.nbFull + P.nbPartial = (P.nbFull + P.nbPartial - 1) + 1 := by omega
  unfold textbook
  rw [hR, iter_snoc, iter_snoc, ← addRc_vec P 0 st,
    iter_shifted P _ 0 _ (by omega)]
  simp only [zero_add]
  have := shiftedRound_last P (iter (textbookRound P) (P.nbFull + P.nbPartial - 1) 0
    (vec P.width fun i => st.getD i 0)) hF
  simpa using this

/-- `permutation_cpu_raw` (no skips) is the chain of shifted rounds. -/
theorem permutationRaw_eq_shifted (P : PParams F) (st : List F) (hE : P.nbFull % 2 = 0) :
    permutationRaw P st = iter (shiftedRound P) (P.nbFull + P.nbPartial) 0 (addRc P 0 st) := by
  unfold permutationRaw
  simp only
  have hsplit : P.nbFull + P.nbPartial = P.nbFull / 2 + (P.nbPartial + P.nbFull / 2) := by omega
  rw [hsplit, iter_add, iter_add]
  have h1 : ∀ a, iter (fullRoundCpu P) (P.nbFull / 2) 0 a = iter (shiftedRound P) (P.nbFull / 2) 0 a := by
    intro a
    apply iter_congr
    intro r _ h2 x
    unfold shiftedRound
    have : P.isFull r = true := by
      unfold PParams.isFull
      simp only [Bool.or_eq_true, decide_eq_true_eq]
      left; omega
    simp [this]
  have h2 : ∀ a, iter (partialRoundRaw P) P.nbPartial (P.nbFull / 2) a
      = iter (shiftedRound P) P.nbPartial (0 + P.nbFull / 2) a := by
    intro a
    rw [zero_add]
    apply iter_congr
    intro r h1 h2 x
    unfold shiftedRound
    have : P.isFull r = false := by
      unfold PParams.isFull
      simp only [Bool.or_eq_false_iff, decide_eq_false_iff_not]
      constructor <;> omega
    simp [this]
  have h3 : ∀ a, iter (fullRoundCpu P) (P.nbFull / 2) (P.nbFull / 2 + P.nbPartial) a
      = iter (shiftedRound P) (P.nbFull / 2) (0 + P.nbFull / 2 + P.nbPartial) a := by
    intro a
    rw [zero_add]
    apply iter_congr
    intro r h1 _ x
    unfold shiftedRound
    have : P.isFull r = true := by
      unfold PParams.isFull
      simp only [Bool.or_eq_true, decide_eq_true_eq]
      right; omega
    simp [this]
  rw [h1, h2, h3]
  rfl

/-- `permutation_cpu_raw = textbook`. -/
theorem permutationRaw_eq_textbook (P : PParams F) (st : List F)
    (hE : P.nbFull % 2 = 0) (hF : 0 < P.nbFull) :
    permutationRaw P st = textbook P st := by
  rw [permutationRaw_eq_shifted P st hE, shifted_eq_textbook P st (by omega)]

end

end MidnightZK.C07
