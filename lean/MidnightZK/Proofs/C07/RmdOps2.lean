import MidnightZK.Proofs.C07.RmdOps
/-! C07: soundness of `f_type_two` and of `left_rotate` (every rotation amount `5 … 15`: all entries of
`S`, `S_PRIME` and the constant `10`) of the RIPEMD-160 chip. The per-amount lemmas are generated
(`limb_lengths` / `limb_coeffs` evaluated by the kernel through `rfl` on the emitter's fixed cells). -/
namespace MidnightZK.C07.ChipR
open MidnightZK.C07
open MidnightZK.C07.Chip (Src Asg get InTable IsPlain IsSpr exact_of_mod exact_of_mod_add concat_11_11_10
  spread32_lt zero maskEvn64 mask_eq get_reg get_const get_ext)

variable {p : Nat} {a : Asg} {k : Nat} {r : Region}

@[simp] theorem fixEnv_m1 (r : Region) (o c : Nat) : fixEnv r (o + 1) c (-1) = (fixAt r c o : Int) := by
  unfold fixEnv
  have : Int.toNat (((o + 1 : Nat) : Int) + -1) = o := by omega
  rw [this]

@[simp] theorem fixEnv_0 (r : Region) (o c : Nat) : fixEnv r o c 0 = (fixAt r c o : Int) := by
  unfold fixEnv
  have : Int.toNat (((o : Nat) : Int) + 0) = o := by omega
  rw [this]

macro "rot_simp" : tactic =>
  `(tactic| simp [leftRotate, Region.enable, Region.assignFixed, Region.assignAdvice, Region.copyAdvice])

/-- `(x ∧ y) ∨ (¬x ∧ z)` is SHA-2's `Ch` (the two terms are disjoint). -/
theorem f1_eq_ch (x y z : Nat) (hx : x < 2 ^ 32) : Rmd.f 1 x y z = ch 32 x y z := by
  show (x &&& y) ||| (notW 32 x &&& z) = (x &&& y) ^^^ (notW 32 x &&& z)
  apply Nat.eq_of_testBit_eq
  intro i
  simp only [Nat.testBit_or, Nat.testBit_xor, Nat.testBit_and, testBit_notW 32 x i hx]
  cases x.testBit i <;> simp

/-- `fn f_type_two`: the returned cell holds `(X ∧ Y) ∨ (¬X ∧ Z)`. The prover-chosen cell `~(¬X)` is
forced to be the spread of the complement by `~X + ~(¬X) = MASK_EVN_64`. -/
theorem fTypeTwo_sound (hp : 2 ^ 66 ≤ p) (ha : ∀ c, a c < p) {sX sY sZ : Src} {x y z : Nat}
    (hS : Sat p Gen.rmdGates a k (fTypeTwo k sX sY sZ).1)
    (hX : IsSpr a sX x) (hY : IsSpr a sY y) (hZ : IsSpr a sZ z) :
    IsPlain a (fTypeTwo k sX sY sZ).2 (Rmd.f 1 x y z) := by
  obtain ⟨v0, hu0, hv0, su0, sv0, -⟩ := sprdd_block (off := 0) hp ha hS (by rmd_simp) (by rmd_simp)
    (by rmd_simp) (by rmd_simp) (by rmd_simp) (by rmd_simp) (by rmd_simp) (by rmd_simp)
    (by rmd_simp) (by rmd_simp)
  obtain ⟨v3, hu3, hv3, su3, sv3, -⟩ := sprdd_block (off := 3) hp ha hS (by rmd_simp) (by rmd_simp)
    (by rmd_simp) (by rmd_simp) (by rmd_simp) (by rmd_simp) (by rmd_simp) (by rmd_simp)
    (by rmd_simp) (by rmd_simp)
  have cE0 := hS.copy' (src := sX) (col := 5) (off := 0) (by rmd_simp)
  have cE4 := hS.copy' (src := sX) (col := 4) (off := 4) (by rmd_simp)
  have cF := hS.copy' (src := sY) (col := 6) (off := 0) (by rmd_simp)
  have cG := hS.copy' (src := sZ) (col := 6) (off := 3) (by rmd_simp)
  have cZ0 := hS.copy' (src := zero) (col := 7) (off := 0) (by rmd_simp)
  have cZ3 := hS.copy' (src := zero) (col := 7) (off := 3) (by rmd_simp)
  have cN := hS.copy' (src := .reg k 3 5) (col := 5) (off := 4) (by rmd_simp)
  have cM := hS.copy' (src := .const maskEvn64) (col := 6) (off := 4) (by rmd_simp)
  have cO0 := hS.copy' (src := .reg k 0 4) (col := 4) (off := 1) (by rmd_simp)
  have cO3 := hS.copy' (src := .reg k 3 4) (col := 5) (off := 1) (by rmd_simp)
  have g1s := hS.gate' (s := .sumOdd) (o := 1) (e := Gen.rmdGate_sumOdd.getD 0 default) (by rmd_simp)
    (by simp [Gen.rmdGates, Gen.rmdGate_sumOdd])
  have g1a := hS.gate' (s := .add) (o := 1) (e := Gen.rmdGate_add.getD 0 default) (by rmd_simp)
    (by simp [Gen.rmdGates, Gen.rmdGate_add])
  have g4s := hS.gate' (s := .sumOdd) (o := 4) (e := Gen.rmdGate_sumOdd.getD 0 default) (by rmd_simp)
    (by simp [Gen.rmdGates, Gen.rmdGate_sumOdd])
  have g4a := hS.gate' (s := .add) (o := 4) (e := Gen.rmdGate_add.getD 0 default) (by rmd_simp)
    (by simp [Gen.rmdGates, Gen.rmdGate_add])
  rw [hX.1] at cE0 cE4; rw [hY.1] at cF; rw [hZ.1] at cG
  have z0 : a (.reg k 0 7) = 0 := by rw [cZ0]; rfl
  have z3 : a (.reg k 3 7) = 0 := by rw [cZ3]; rfl
  simp only [get_reg, get_const] at cN cM cO0 cO3
  simp only [Nat.zero_add, Nat.reduceAdd] at su0 sv0 su3 sv3
  have hx := hX.2
  have bx := spread32_lt x
  have by' := spread32_lt y
  have bz := spread32_lt z
  have bu0 := spread32_lt (a (.reg k 0 4))
  have bv0 := spread32_lt v0
  have bu3 := spread32_lt (a (.reg k 3 4))
  have bv3 := spread32_lt v3
  have hnot := spread_not 32 x hx
  have bn := spread32_lt (2 ^ 32 - 1 - x)
  have bm := spread32_lt (2 ^ 32 - 1)
  -- ~X + ~(¬X) = MASK_EVN_64
  have hneg : a (.reg k 4 4) + a (.reg k 4 5) = a (.reg k 4 6) := by
    refine exact_of_mod_add g4a ?_ (by rw [cE4, cM, mask_eq]; omega) (by rw [cM, mask_eq]; omega) (ha _)
    simp [Gen.rmdGate_add, Expr.eval]
    ring
  rw [cE4, cN, cM, mask_eq] at hneg
  have hnE : a (.reg k 3 5) = spreadFuel 32 (notW 32 x) := by unfold notW; omega
  have hnlt : notW 32 x < 2 ^ 32 := by unfold notW; omega
  -- first half: ~X + ~Y + ~0
  have h1 : a (.reg k 0 5) + a (.reg k 0 6) + a (.reg k 0 7)
      = (4 ^ 21 * a (.reg k 0 3) + 4 ^ 10 * a (.reg k 1 3) + a (.reg k 2 3))
        + 2 * (4 ^ 21 * a (.reg k 0 1) + 4 ^ 10 * a (.reg k 1 1) + a (.reg k 2 1)) := by
    refine exact_of_mod g1s ?_ (by rw [cE0, cF, z0]; omega) (by rw [su0, sv0]; omega)
    simp [Gen.rmdGate_sumOdd, Expr.eval]
    ring
  rw [cE0, cF, z0, su0, sv0, Nat.add_zero] at h1
  have e1 := spread_sum_even_odd2 32 x y v0 (a (.reg k 0 4)) hx hY.2 hv0 hu0 h1
  -- second half: ~(¬X) + ~Z + ~0
  have h2 : a (.reg k 3 5) + a (.reg k 3 6) + a (.reg k 3 7)
      = (4 ^ 21 * a (.reg k 3 3) + 4 ^ 10 * a (.reg k 4 3) + a (.reg k 5 3))
        + 2 * (4 ^ 21 * a (.reg k 3 1) + 4 ^ 10 * a (.reg k 4 1) + a (.reg k 5 1)) := by
    have bn' := spread32_lt (notW 32 x)
    refine exact_of_mod g4s ?_ (by rw [hnE, cG, z3]; omega) (by rw [su3, sv3]; omega)
    simp [Gen.rmdGate_sumOdd, Expr.eval]
    ring
  rw [hnE, cG, z3, su3, sv3, Nat.add_zero] at h2
  have e2 := spread_sum_even_odd2 32 (notW 32 x) z v3 (a (.reg k 3 4)) hnlt hZ.2 hv3 hu3 h2
  -- Ret = Odd_XY + Odd_nXZ
  have h3 : a (.reg k 1 4) + a (.reg k 1 5) = a (.reg k 1 6) := by
    refine exact_of_mod g1a ?_ (by rw [cO0, cO3]; omega) (ha _)
    simp [Gen.rmdGate_add, Expr.eval]
    ring
  rw [cO0, cO3, e1.2, e2.2] at h3
  have hch := ch_via_spread 32 x y z hx
  rw [f1_eq_ch x y z hx]
  refine ⟨?_, ?_⟩
  · show get a (.reg k 1 6) = _
    rw [get_reg, hch, h3]
  · unfold C07.ch
    exact Nat.xor_lt_two_pow (Nat.and_lt_two_pow _ hY.2) (Nat.and_lt_two_pow _ hZ.2)

/-! ## `left_rotate` -/

/-- The two identities of the `left rotation` gate and the four limb lookups, for a region whose
fixed cells hold the tags `t*`, the coefficients `c*` and the rotated coefficients `d*`. -/
theorem rot_core (hp : 2 ^ 66 ≤ p) (ha : ∀ c, a c < p) (hS : Sat p Gen.rmdGates a k r)
    (s0 : (Sel.lookup, 0) ∈ r.sels) (s1 : (Sel.lookup, 1) ∈ r.sels) (sr : (Sel.rot, 1) ∈ r.sels)
    (t0 t1 t2 t3 c0 c1 c2 c3 d0 d1 d2 d3 : Nat)
    (ft0 : fixAt r 0 0 = t0) (ft1 : fixAt r 1 0 = t1) (ft2 : fixAt r 0 1 = t2) (ft3 : fixAt r 1 1 = t3)
    (fc0 : fixAt r 2 0 = c0) (fc1 : fixAt r 3 0 = c1) (fc2 : fixAt r 2 1 = c2) (fc3 : fixAt r 3 1 = c3)
    (fd0 : fixAt r 4 0 = d0) (fd1 : fixAt r 5 0 = d1) (fd2 : fixAt r 4 1 = d2) (fd3 : fixAt r 5 1 = d3)
    (bt0 : t0 ≤ 11) (bt1 : t1 ≤ 11) (bt2 : t2 ≤ 11) (bt3 : t3 ≤ 11)
    (bc0 : c0 < 2 ^ 32) (bc1 : c1 < 2 ^ 32) (bc2 : c2 < 2 ^ 32) (bc3 : c3 < 2 ^ 32)
    (bd0 : d0 < 2 ^ 32) (bd1 : d1 < 2 ^ 32) (bd2 : d2 < 2 ^ 32) (bd3 : d3 < 2 ^ 32)
    {x : Nat} (hw : a (.reg k 0 4) = x) (hx : x < 2 ^ 32) :
    a (.reg k 0 0) < 2 ^ t0 ∧ a (.reg k 0 2) < 2 ^ t1 ∧ a (.reg k 1 0) < 2 ^ t2 ∧ a (.reg k 1 2) < 2 ^ t3 ∧
    c0 * a (.reg k 0 0) + c1 * a (.reg k 0 2) + c2 * a (.reg k 1 0) + c3 * a (.reg k 1 2) = x ∧
    d0 * a (.reg k 0 0) + d1 * a (.reg k 0 2) + d2 * a (.reg k 1 0) + d3 * a (.reg k 1 2) = a (.reg k 1 4) := by
  have l0 := hS.look' s0 0 (by omega)
  have l1 := hS.look' s0 1 (by omega)
  have l2 := hS.look' s1 0 (by omega)
  have l3 := hS.look' s1 1 (by omega)
  rw [ft0] at l0; rw [ft1] at l1; rw [ft2] at l2; rw [ft3] at l3
  simp only [Nat.mul_zero, Nat.zero_add, Nat.mul_one] at l0 l1 l2 l3
  have g0 := hS.gate' sr (e := Gen.rmdGate_rot.getD 0 default) (by simp [Gen.rmdGates, Gen.rmdGate_rot])
  have g1 := hS.gate' sr (e := Gen.rmdGate_rot.getD 1 default) (by simp [Gen.rmdGates, Gen.rmdGate_rot])
  have p0 : (2 : Nat) ^ t0 ≤ 2 ^ 11 := Nat.pow_le_pow_right (by norm_num) bt0
  have p1 : (2 : Nat) ^ t1 ≤ 2 ^ 11 := Nat.pow_le_pow_right (by norm_num) bt1
  have p2 : (2 : Nat) ^ t2 ≤ 2 ^ 11 := Nat.pow_le_pow_right (by norm_num) bt2
  have p3 : (2 : Nat) ^ t3 ≤ 2 ^ 11 := Nat.pow_le_pow_right (by norm_num) bt3
  have mk : ∀ {c l : Nat}, c < 2 ^ 32 → l < 2 ^ 11 → c * l < 2 ^ 43 := by
    intro c l hc hl
    calc c * l < 2 ^ 32 * 2 ^ 11 := Nat.mul_lt_mul'' hc hl
      _ = 2 ^ 43 := by norm_num
  have m00 := mk bc0 (lt_of_lt_of_le l0.1 p0)
  have m01 := mk bc1 (lt_of_lt_of_le l1.1 p1)
  have m02 := mk bc2 (lt_of_lt_of_le l2.1 p2)
  have m03 := mk bc3 (lt_of_lt_of_le l3.1 p3)
  have m10 := mk bd0 (lt_of_lt_of_le l0.1 p0)
  have m11 := mk bd1 (lt_of_lt_of_le l1.1 p1)
  have m12 := mk bd2 (lt_of_lt_of_le l2.1 p2)
  have m13 := mk bd3 (lt_of_lt_of_le l3.1 p3)
  refine ⟨l0.1, l1.1, l2.1, l3.1, ?_, ?_⟩
  · rw [← hw]
    refine exact_of_mod g0 ?_ (by omega) (ha _)
    simp [Gen.rmdGate_rot, Expr.eval, fc0, fc1, fc2, fc3]
    ring
  · refine exact_of_mod g1 ?_ (by omega) (ha _)
    simp [Gen.rmdGate_rot, Expr.eval, fd0, fd1, fd2, fd3]
    ring

theorem rot_sels (k : Nat) (w : Src) (rot : Nat) :
    (leftRotate k w rot).1.sels = [(Sel.lookup, 0), (Sel.lookup, 1), (Sel.rot, 1)] := rfl

theorem rot_copies (k : Nat) (w : Src) (rot : Nat) : (leftRotate k w rot).1.copies = [(w, 4, 0)] := rfl

/-- The fixed cells of the `left_rotate` region: tags, coefficients, rotated coefficients. -/
theorem rot_fixeds (k : Nat) (w : Src) (rot : Nat) :
    fixAt (leftRotate k w rot).1 0 0 = (limbLengths rot).1.getD 0 0 ∧
    fixAt (leftRotate k w rot).1 1 0 = (limbLengths rot).1.getD 1 0 ∧
    fixAt (leftRotate k w rot).1 0 1 = (limbLengths rot).1.getD 2 0 ∧
    fixAt (leftRotate k w rot).1 1 1 = (limbLengths rot).1.getD 3 0 ∧
    fixAt (leftRotate k w rot).1 2 0 = (limbCoeffs rot).1.getD 0 0 ∧
    fixAt (leftRotate k w rot).1 3 0 = (limbCoeffs rot).1.getD 1 0 ∧
    fixAt (leftRotate k w rot).1 2 1 = (limbCoeffs rot).1.getD 2 0 ∧
    fixAt (leftRotate k w rot).1 3 1 = (limbCoeffs rot).1.getD 3 0 ∧
    fixAt (leftRotate k w rot).1 4 0 = (limbCoeffs rot).2.getD 0 0 ∧
    fixAt (leftRotate k w rot).1 5 0 = (limbCoeffs rot).2.getD 1 0 ∧
    fixAt (leftRotate k w rot).1 4 1 = (limbCoeffs rot).2.getD 2 0 ∧
    fixAt (leftRotate k w rot).1 5 1 = (limbCoeffs rot).2.getD 3 0 := by
  refine ⟨?_, ?_, ?_, ?_, ?_, ?_, ?_, ?_, ?_, ?_, ?_, ?_⟩ <;>
    simp [leftRotate, Region.enable, Region.assignFixed, Region.assignAdvice, Region.copyAdvice, fixAt]

theorem leftRotate_sound_5 (hp : 2 ^ 66 ≤ p) (ha : ∀ c, a c < p) {w : Src} {x : Nat}
    (hS : Sat p Gen.rmdGates a k (leftRotate k w 5).1) (hW : IsPlain a w x) :
    IsPlain a (leftRotate k w 5).2 (rotl 32 x 5) := by
  have cw := hS.copy' (src := w) (col := 4) (off := 0) (by rw [rot_copies]; simp)
  rw [hW.1] at cw
  have C : (limbLengths 5).1 = [5, 6, 11, 10] ∧ (limbCoeffs 5).1 = [134217728, 2097152, 1024, 1] ∧ (limbCoeffs 5).2 = [1, 67108864, 32768, 32] := by
    decide +kernel
  obtain ⟨f0, f1, f2, f3, f4, f5, f6, f7, f8, f9, f10, f11⟩ := rot_fixeds k w 5
  rw [C.1] at f0 f1 f2 f3; rw [C.2.1] at f4 f5 f6 f7; rw [C.2.2] at f8 f9 f10 f11
  obtain ⟨h0, h1, h2, h3, e1, e2⟩ := rot_core hp ha hS (by rw [rot_sels]; simp) (by rw [rot_sels]; simp)
    (by rw [rot_sels]; simp)
    5 6 11 10 134217728 2097152 1024 1 1 67108864 32768 32 f0 f1 f2 f3 f4 f5 f6 f7 f8 f9 f10 f11
    (by norm_num) (by norm_num) (by norm_num) (by norm_num) (by norm_num) (by norm_num) (by norm_num) (by norm_num)
    (by norm_num) (by norm_num) (by norm_num) (by norm_num) cw hW.2
  have hx := hW.2
  have key : a (.reg k 1 4) = rotl 32 x 5 := by
    unfold rotl rotr
    norm_num at h0 h1 h2 h3 ⊢
    omega
  refine ⟨key, ?_⟩
  rw [← key]
  norm_num at h0 h1 h2 h3
  omega

theorem leftRotate_sound_6 (hp : 2 ^ 66 ≤ p) (ha : ∀ c, a c < p) {w : Src} {x : Nat}
    (hS : Sat p Gen.rmdGates a k (leftRotate k w 6).1) (hW : IsPlain a w x) :
    IsPlain a (leftRotate k w 6).2 (rotl 32 x 6) := by
  have cw := hS.copy' (src := w) (col := 4) (off := 0) (by rw [rot_copies]; simp)
  rw [hW.1] at cw
  have C : (limbLengths 6).1 = [6, 5, 11, 10] ∧ (limbCoeffs 6).1 = [67108864, 2097152, 1024, 1] ∧ (limbCoeffs 6).2 = [1, 134217728, 65536, 64] := by
    decide +kernel
  obtain ⟨f0, f1, f2, f3, f4, f5, f6, f7, f8, f9, f10, f11⟩ := rot_fixeds k w 6
  rw [C.1] at f0 f1 f2 f3; rw [C.2.1] at f4 f5 f6 f7; rw [C.2.2] at f8 f9 f10 f11
  obtain ⟨h0, h1, h2, h3, e1, e2⟩ := rot_core hp ha hS (by rw [rot_sels]; simp) (by rw [rot_sels]; simp)
    (by rw [rot_sels]; simp)
    6 5 11 10 67108864 2097152 1024 1 1 134217728 65536 64 f0 f1 f2 f3 f4 f5 f6 f7 f8 f9 f10 f11
    (by norm_num) (by norm_num) (by norm_num) (by norm_num) (by norm_num) (by norm_num) (by norm_num) (by norm_num)
    (by norm_num) (by norm_num) (by norm_num) (by norm_num) cw hW.2
  have hx := hW.2
  have key : a (.reg k 1 4) = rotl 32 x 6 := by
    unfold rotl rotr
    norm_num at h0 h1 h2 h3 ⊢
    omega
  refine ⟨key, ?_⟩
  rw [← key]
  norm_num at h0 h1 h2 h3
  omega

theorem leftRotate_sound_7 (hp : 2 ^ 66 ≤ p) (ha : ∀ c, a c < p) {w : Src} {x : Nat}
    (hS : Sat p Gen.rmdGates a k (leftRotate k w 7).1) (hW : IsPlain a w x) :
    IsPlain a (leftRotate k w 7).2 (rotl 32 x 7) := by
  have cw := hS.copy' (src := w) (col := 4) (off := 0) (by rw [rot_copies]; simp)
  rw [hW.1] at cw
  have C : (limbLengths 7).1 = [7, 4, 11, 10] ∧ (limbCoeffs 7).1 = [33554432, 2097152, 1024, 1] ∧ (limbCoeffs 7).2 = [1, 268435456, 131072, 128] := by
    decide +kernel
  obtain ⟨f0, f1, f2, f3, f4, f5, f6, f7, f8, f9, f10, f11⟩ := rot_fixeds k w 7
  rw [C.1] at f0 f1 f2 f3; rw [C.2.1] at f4 f5 f6 f7; rw [C.2.2] at f8 f9 f10 f11
  obtain ⟨h0, h1, h2, h3, e1, e2⟩ := rot_core hp ha hS (by rw [rot_sels]; simp) (by rw [rot_sels]; simp)
    (by rw [rot_sels]; simp)
    7 4 11 10 33554432 2097152 1024 1 1 268435456 131072 128 f0 f1 f2 f3 f4 f5 f6 f7 f8 f9 f10 f11
    (by norm_num) (by norm_num) (by norm_num) (by norm_num) (by norm_num) (by norm_num) (by norm_num) (by norm_num)
    (by norm_num) (by norm_num) (by norm_num) (by norm_num) cw hW.2
  have hx := hW.2
  have key : a (.reg k 1 4) = rotl 32 x 7 := by
    unfold rotl rotr
    norm_num at h0 h1 h2 h3 ⊢
    omega
  refine ⟨key, ?_⟩
  rw [← key]
  norm_num at h0 h1 h2 h3
  omega

theorem leftRotate_sound_8 (hp : 2 ^ 66 ≤ p) (ha : ∀ c, a c < p) {w : Src} {x : Nat}
    (hS : Sat p Gen.rmdGates a k (leftRotate k w 8).1) (hW : IsPlain a w x) :
    IsPlain a (leftRotate k w 8).2 (rotl 32 x 8) := by
  have cw := hS.copy' (src := w) (col := 4) (off := 0) (by rw [rot_copies]; simp)
  rw [hW.1] at cw
  have C : (limbLengths 8).1 = [8, 3, 11, 10] ∧ (limbCoeffs 8).1 = [16777216, 2097152, 1024, 1] ∧ (limbCoeffs 8).2 = [1, 536870912, 262144, 256] := by
    decide +kernel
  obtain ⟨f0, f1, f2, f3, f4, f5, f6, f7, f8, f9, f10, f11⟩ := rot_fixeds k w 8
  rw [C.1] at f0 f1 f2 f3; rw [C.2.1] at f4 f5 f6 f7; rw [C.2.2] at f8 f9 f10 f11
  obtain ⟨h0, h1, h2, h3, e1, e2⟩ := rot_core hp ha hS (by rw [rot_sels]; simp) (by rw [rot_sels]; simp)
    (by rw [rot_sels]; simp)
    8 3 11 10 16777216 2097152 1024 1 1 536870912 262144 256 f0 f1 f2 f3 f4 f5 f6 f7 f8 f9 f10 f11
    (by norm_num) (by norm_num) (by norm_num) (by norm_num) (by norm_num) (by norm_num) (by norm_num) (by norm_num)
    (by norm_num) (by norm_num) (by norm_num) (by norm_num) cw hW.2
  have hx := hW.2
  have key : a (.reg k 1 4) = rotl 32 x 8 := by
    unfold rotl rotr
    norm_num at h0 h1 h2 h3 ⊢
    omega
  refine ⟨key, ?_⟩
  rw [← key]
  norm_num at h0 h1 h2 h3
  omega

theorem leftRotate_sound_9 (hp : 2 ^ 66 ≤ p) (ha : ∀ c, a c < p) {w : Src} {x : Nat}
    (hS : Sat p Gen.rmdGates a k (leftRotate k w 9).1) (hW : IsPlain a w x) :
    IsPlain a (leftRotate k w 9).2 (rotl 32 x 9) := by
  have cw := hS.copy' (src := w) (col := 4) (off := 0) (by rw [rot_copies]; simp)
  rw [hW.1] at cw
  have C : (limbLengths 9).1 = [9, 2, 11, 10] ∧ (limbCoeffs 9).1 = [8388608, 2097152, 1024, 1] ∧ (limbCoeffs 9).2 = [1, 1073741824, 524288, 512] := by
    decide +kernel
  obtain ⟨f0, f1, f2, f3, f4, f5, f6, f7, f8, f9, f10, f11⟩ := rot_fixeds k w 9
  rw [C.1] at f0 f1 f2 f3; rw [C.2.1] at f4 f5 f6 f7; rw [C.2.2] at f8 f9 f10 f11
  obtain ⟨h0, h1, h2, h3, e1, e2⟩ := rot_core hp ha hS (by rw [rot_sels]; simp) (by rw [rot_sels]; simp)
    (by rw [rot_sels]; simp)
    9 2 11 10 8388608 2097152 1024 1 1 1073741824 524288 512 f0 f1 f2 f3 f4 f5 f6 f7 f8 f9 f10 f11
    (by norm_num) (by norm_num) (by norm_num) (by norm_num) (by norm_num) (by norm_num) (by norm_num) (by norm_num)
    (by norm_num) (by norm_num) (by norm_num) (by norm_num) cw hW.2
  have hx := hW.2
  have key : a (.reg k 1 4) = rotl 32 x 9 := by
    unfold rotl rotr
    norm_num at h0 h1 h2 h3 ⊢
    omega
  refine ⟨key, ?_⟩
  rw [← key]
  norm_num at h0 h1 h2 h3
  omega

theorem leftRotate_sound_10 (hp : 2 ^ 66 ≤ p) (ha : ∀ c, a c < p) {w : Src} {x : Nat}
    (hS : Sat p Gen.rmdGates a k (leftRotate k w 10).1) (hW : IsPlain a w x) :
    IsPlain a (leftRotate k w 10).2 (rotl 32 x 10) := by
  have cw := hS.copy' (src := w) (col := 4) (off := 0) (by rw [rot_copies]; simp)
  rw [hW.1] at cw
  have C : (limbLengths 10).1 = [10, 1, 11, 10] ∧ (limbCoeffs 10).1 = [4194304, 2097152, 1024, 1] ∧ (limbCoeffs 10).2 = [1, 2147483648, 1048576, 1024] := by
    decide +kernel
  obtain ⟨f0, f1, f2, f3, f4, f5, f6, f7, f8, f9, f10, f11⟩ := rot_fixeds k w 10
  rw [C.1] at f0 f1 f2 f3; rw [C.2.1] at f4 f5 f6 f7; rw [C.2.2] at f8 f9 f10 f11
  obtain ⟨h0, h1, h2, h3, e1, e2⟩ := rot_core hp ha hS (by rw [rot_sels]; simp) (by rw [rot_sels]; simp)
    (by rw [rot_sels]; simp)
    10 1 11 10 4194304 2097152 1024 1 1 2147483648 1048576 1024 f0 f1 f2 f3 f4 f5 f6 f7 f8 f9 f10 f11
    (by norm_num) (by norm_num) (by norm_num) (by norm_num) (by norm_num) (by norm_num) (by norm_num) (by norm_num)
    (by norm_num) (by norm_num) (by norm_num) (by norm_num) cw hW.2
  have hx := hW.2
  have key : a (.reg k 1 4) = rotl 32 x 10 := by
    unfold rotl rotr
    norm_num at h0 h1 h2 h3 ⊢
    omega
  refine ⟨key, ?_⟩
  rw [← key]
  norm_num at h0 h1 h2 h3
  omega

theorem leftRotate_sound_11 (hp : 2 ^ 66 ≤ p) (ha : ∀ c, a c < p) {w : Src} {x : Nat}
    (hS : Sat p Gen.rmdGates a k (leftRotate k w 11).1) (hW : IsPlain a w x) :
    IsPlain a (leftRotate k w 11).2 (rotl 32 x 11) := by
  have cw := hS.copy' (src := w) (col := 4) (off := 0) (by rw [rot_copies]; simp)
  rw [hW.1] at cw
  have C : (limbLengths 11).1 = [11, 0, 11, 10] ∧ (limbCoeffs 11).1 = [2097152, 2097152, 1024, 1] ∧ (limbCoeffs 11).2 = [1, 1, 2097152, 2048] := by
    decide +kernel
  obtain ⟨f0, f1, f2, f3, f4, f5, f6, f7, f8, f9, f10, f11⟩ := rot_fixeds k w 11
  rw [C.1] at f0 f1 f2 f3; rw [C.2.1] at f4 f5 f6 f7; rw [C.2.2] at f8 f9 f10 f11
  obtain ⟨h0, h1, h2, h3, e1, e2⟩ := rot_core hp ha hS (by rw [rot_sels]; simp) (by rw [rot_sels]; simp)
    (by rw [rot_sels]; simp)
    11 0 11 10 2097152 2097152 1024 1 1 1 2097152 2048 f0 f1 f2 f3 f4 f5 f6 f7 f8 f9 f10 f11
    (by norm_num) (by norm_num) (by norm_num) (by norm_num) (by norm_num) (by norm_num) (by norm_num) (by norm_num)
    (by norm_num) (by norm_num) (by norm_num) (by norm_num) cw hW.2
  have hx := hW.2
  have key : a (.reg k 1 4) = rotl 32 x 11 := by
    unfold rotl rotr
    norm_num at h0 h1 h2 h3 ⊢
    omega
  refine ⟨key, ?_⟩
  rw [← key]
  norm_num at h0 h1 h2 h3
  omega

theorem leftRotate_sound_12 (hp : 2 ^ 66 ≤ p) (ha : ∀ c, a c < p) {w : Src} {x : Nat}
    (hS : Sat p Gen.rmdGates a k (leftRotate k w 12).1) (hW : IsPlain a w x) :
    IsPlain a (leftRotate k w 12).2 (rotl 32 x 12) := by
  have cw := hS.copy' (src := w) (col := 4) (off := 0) (by rw [rot_copies]; simp)
  rw [hW.1] at cw
  have C : (limbLengths 12).1 = [11, 1, 10, 10] ∧ (limbCoeffs 12).1 = [2097152, 1048576, 1024, 1] ∧ (limbCoeffs 12).2 = [2, 1, 4194304, 4096] := by
    decide +kernel
  obtain ⟨f0, f1, f2, f3, f4, f5, f6, f7, f8, f9, f10, f11⟩ := rot_fixeds k w 12
  rw [C.1] at f0 f1 f2 f3; rw [C.2.1] at f4 f5 f6 f7; rw [C.2.2] at f8 f9 f10 f11
  obtain ⟨h0, h1, h2, h3, e1, e2⟩ := rot_core hp ha hS (by rw [rot_sels]; simp) (by rw [rot_sels]; simp)
    (by rw [rot_sels]; simp)
    11 1 10 10 2097152 1048576 1024 1 2 1 4194304 4096 f0 f1 f2 f3 f4 f5 f6 f7 f8 f9 f10 f11
    (by norm_num) (by norm_num) (by norm_num) (by norm_num) (by norm_num) (by norm_num) (by norm_num) (by norm_num)
    (by norm_num) (by norm_num) (by norm_num) (by norm_num) cw hW.2
  have hx := hW.2
  have key : a (.reg k 1 4) = rotl 32 x 12 := by
    unfold rotl rotr
    norm_num at h0 h1 h2 h3 ⊢
    omega
  refine ⟨key, ?_⟩
  rw [← key]
  norm_num at h0 h1 h2 h3
  omega

theorem leftRotate_sound_13 (hp : 2 ^ 66 ≤ p) (ha : ∀ c, a c < p) {w : Src} {x : Nat}
    (hS : Sat p Gen.rmdGates a k (leftRotate k w 13).1) (hW : IsPlain a w x) :
    IsPlain a (leftRotate k w 13).2 (rotl 32 x 13) := by
  have cw := hS.copy' (src := w) (col := 4) (off := 0) (by rw [rot_copies]; simp)
  rw [hW.1] at cw
  have C : (limbLengths 13).1 = [11, 2, 9, 10] ∧ (limbCoeffs 13).1 = [2097152, 524288, 1024, 1] ∧ (limbCoeffs 13).2 = [4, 1, 8388608, 8192] := by
    decide +kernel
  obtain ⟨f0, f1, f2, f3, f4, f5, f6, f7, f8, f9, f10, f11⟩ := rot_fixeds k w 13
  rw [C.1] at f0 f1 f2 f3; rw [C.2.1] at f4 f5 f6 f7; rw [C.2.2] at f8 f9 f10 f11
  obtain ⟨h0, h1, h2, h3, e1, e2⟩ := rot_core hp ha hS (by rw [rot_sels]; simp) (by rw [rot_sels]; simp)
    (by rw [rot_sels]; simp)
    11 2 9 10 2097152 524288 1024 1 4 1 8388608 8192 f0 f1 f2 f3 f4 f5 f6 f7 f8 f9 f10 f11
    (by norm_num) (by norm_num) (by norm_num) (by norm_num) (by norm_num) (by norm_num) (by norm_num) (by norm_num)
    (by norm_num) (by norm_num) (by norm_num) (by norm_num) cw hW.2
  have hx := hW.2
  have key : a (.reg k 1 4) = rotl 32 x 13 := by
    unfold rotl rotr
    norm_num at h0 h1 h2 h3 ⊢
    omega
  refine ⟨key, ?_⟩
  rw [← key]
  norm_num at h0 h1 h2 h3
  omega

theorem leftRotate_sound_14 (hp : 2 ^ 66 ≤ p) (ha : ∀ c, a c < p) {w : Src} {x : Nat}
    (hS : Sat p Gen.rmdGates a k (leftRotate k w 14).1) (hW : IsPlain a w x) :
    IsPlain a (leftRotate k w 14).2 (rotl 32 x 14) := by
  have cw := hS.copy' (src := w) (col := 4) (off := 0) (by rw [rot_copies]; simp)
  rw [hW.1] at cw
  have C : (limbLengths 14).1 = [11, 3, 8, 10] ∧ (limbCoeffs 14).1 = [2097152, 262144, 1024, 1] ∧ (limbCoeffs 14).2 = [8, 1, 16777216, 16384] := by
    decide +kernel
  obtain ⟨f0, f1, f2, f3, f4, f5, f6, f7, f8, f9, f10, f11⟩ := rot_fixeds k w 14
  rw [C.1] at f0 f1 f2 f3; rw [C.2.1] at f4 f5 f6 f7; rw [C.2.2] at f8 f9 f10 f11
  obtain ⟨h0, h1, h2, h3, e1, e2⟩ := rot_core hp ha hS (by rw [rot_sels]; simp) (by rw [rot_sels]; simp)
    (by rw [rot_sels]; simp)
    11 3 8 10 2097152 262144 1024 1 8 1 16777216 16384 f0 f1 f2 f3 f4 f5 f6 f7 f8 f9 f10 f11
    (by norm_num) (by norm_num) (by norm_num) (by norm_num) (by norm_num) (by norm_num) (by norm_num) (by norm_num)
    (by norm_num) (by norm_num) (by norm_num) (by norm_num) cw hW.2
  have hx := hW.2
  have key : a (.reg k 1 4) = rotl 32 x 14 := by
    unfold rotl rotr
    norm_num at h0 h1 h2 h3 ⊢
    omega
  refine ⟨key, ?_⟩
  rw [← key]
  norm_num at h0 h1 h2 h3
  omega

theorem leftRotate_sound_15 (hp : 2 ^ 66 ≤ p) (ha : ∀ c, a c < p) {w : Src} {x : Nat}
    (hS : Sat p Gen.rmdGates a k (leftRotate k w 15).1) (hW : IsPlain a w x) :
    IsPlain a (leftRotate k w 15).2 (rotl 32 x 15) := by
  have cw := hS.copy' (src := w) (col := 4) (off := 0) (by rw [rot_copies]; simp)
  rw [hW.1] at cw
  have C : (limbLengths 15).1 = [11, 4, 7, 10] ∧ (limbCoeffs 15).1 = [2097152, 131072, 1024, 1] ∧ (limbCoeffs 15).2 = [16, 1, 33554432, 32768] := by
    decide +kernel
  obtain ⟨f0, f1, f2, f3, f4, f5, f6, f7, f8, f9, f10, f11⟩ := rot_fixeds k w 15
  rw [C.1] at f0 f1 f2 f3; rw [C.2.1] at f4 f5 f6 f7; rw [C.2.2] at f8 f9 f10 f11
  obtain ⟨h0, h1, h2, h3, e1, e2⟩ := rot_core hp ha hS (by rw [rot_sels]; simp) (by rw [rot_sels]; simp)
    (by rw [rot_sels]; simp)
    11 4 7 10 2097152 131072 1024 1 16 1 33554432 32768 f0 f1 f2 f3 f4 f5 f6 f7 f8 f9 f10 f11
    (by norm_num) (by norm_num) (by norm_num) (by norm_num) (by norm_num) (by norm_num) (by norm_num) (by norm_num)
    (by norm_num) (by norm_num) (by norm_num) (by norm_num) cw hW.2
  have hx := hW.2
  have key : a (.reg k 1 4) = rotl 32 x 15 := by
    unfold rotl rotr
    norm_num at h0 h1 h2 h3 ⊢
    omega
  refine ⟨key, ?_⟩
  rw [← key]
  norm_num at h0 h1 h2 h3
  omega

/-- `fn left_rotate` for every rotation amount the chip uses (`5 ≤ rot ≤ 15`): the returned cell holds
the word rotated left by `rot` bits. -/
theorem leftRotate_sound (hp : 2 ^ 66 ≤ p) (ha : ∀ c, a c < p) {w : Src} {x rot : Nat} (h5 : 5 ≤ rot) (h15 : rot ≤ 15)
    (hS : Sat p Gen.rmdGates a k (leftRotate k w rot).1) (hW : IsPlain a w x) :
    IsPlain a (leftRotate k w rot).2 (rotl 32 x rot) := by
  have hr : rot = 5 ∨ rot = 6 ∨ rot = 7 ∨ rot = 8 ∨ rot = 9 ∨ rot = 10 ∨ rot = 11 ∨ rot = 12 ∨ rot = 13 ∨ rot = 14 ∨ rot = 15 := by omega
  rcases hr with rfl | rfl | rfl | rfl | rfl | rfl | rfl | rfl | rfl | rfl | rfl
  · exact leftRotate_sound_5 hp ha hS hW
  · exact leftRotate_sound_6 hp ha hS hW
  · exact leftRotate_sound_7 hp ha hS hW
  · exact leftRotate_sound_8 hp ha hS hW
  · exact leftRotate_sound_9 hp ha hS hW
  · exact leftRotate_sound_10 hp ha hS hW
  · exact leftRotate_sound_11 hp ha hS hW
  · exact leftRotate_sound_12 hp ha hS hW
  · exact leftRotate_sound_13 hp ha hS hW
  · exact leftRotate_sound_14 hp ha hS hW
  · exact leftRotate_sound_15 hp ha hS hW

end MidnightZK.C07.ChipR
