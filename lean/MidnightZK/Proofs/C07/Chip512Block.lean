import MidnightZK.Proofs.C07.Chip512Round
/-! C07: message schedule, state addition, one block and the chain of blocks of the SHA-512 chip. -/
namespace MidnightZK.C07.Chip512
open MidnightZK.C07 MidnightZK.C07.Chip

variable {p : Nat} {a : Asg}

theorem summand_lt_of {ss : List Src} (h : ∀ s ∈ ss, get a s < 2 ^ 64) : ∀ i, i < 7 → get a (summand ss i) < 2 ^ 64 := by
  intro i _
  unfold summand
  by_cases hi : i < ss.length
  · rw [List.getD_eq_getElem _ _ hi]; exact h _ (List.getElem_mem hi)
  · rw [List.getD_eq_default _ _ (by omega)]; simp [zero]

/-! ## message schedule -/

theorem scheduleHead_length : ∀ (k : Nat) (block : List Src), (scheduleHead k block).1.length = block.length
  | _, [] => rfl
  | k, b :: t => by simp only [scheduleHead, List.length_cons]; rw [scheduleHead_length (k + 1) t]

/-- First loop of `message_schedule`: each block word is re-assigned with its limbs. -/
theorem scheduleHead_sound (hpr : Nat.Prime p) (hp : 2 ^ 130 ≤ p) (ha : ∀ c, a c < p) :
    ∀ (block : List Src) (bv : List Nat) (k : Nat), List.Forall₂ (IsPlain a) block bv →
      TraceSat p Gen.sha512Gates a k (scheduleHead k block).1 → List.Forall₂ (WInv a) (scheduleHead k block).2 bv
  | [], [], _, _, _ => List.Forall₂.nil
  | b :: t, x :: xs, k, h, hS => by
    cases h with
    | cons hb ht =>
      simp only [scheduleHead, traceSat_cons] at hS ⊢
      have hW := prepareW_sound hpr hp ha hS.1 (summand_lt_of (by
        intro s hs; simp only [List.mem_cons, List.mem_nil_iff, or_false] at hs; subst hs; rw [hb.1]; exact hb.2))
      rw [sum7_single, hb.1, Nat.mod_eq_of_lt hb.2] at hW
      exact List.Forall₂.cons hW (scheduleHead_sound hpr hp ha t xs (k + 1) ht hS.2)

/-- Second loop of `message_schedule`, by induction on the number of remaining words. -/
theorem scheduleTail_sound (hpr : Nat.Prime p) (hp : 2 ^ 130 ≤ p) (ha : ∀ c, a c < p) (kk ivv : List Nat) :
    ∀ (n k : Nat) (ws : List WRefs) (wv : List Nat), 16 ≤ ws.length → List.Forall₂ (WInv a) ws wv →
      TraceSat p Gen.sha512Gates a k (scheduleTail n k ws).1 →
      List.Forall₂ (WInv a) (scheduleTail n k ws).2 ((sha512P kk ivv).scheduleLoop n wv)
  | 0, _, _, _, _, h, _ => h
  | n + 1, k, ws, wv, hlen, h, hS => by
    have hl := forall₂_length h
    simp only [scheduleTail, traceSat_cons, Nat.add_assoc, Nat.reduceAdd] at hS ⊢
    simp only [Sha2.scheduleLoop]
    obtain ⟨hS0, hS1, hS2, hS3⟩ := hS
    have g := fun i (hi : i < ws.length) => forall₂_getD h default 0 i hi
    have w15 := g (ws.length - 15) (by omega)
    have w2 := g (ws.length - 2) (by omega)
    have w16 := g (ws.length - 16) (by omega)
    have w7 := g (ws.length - 7) (by omega)
    have h0 := sigma0_sound hp ha kk ivv hS0 w15
    have h1 := sigma1_sound hp ha kk ivv hS1 w2
    have hW := prepareW_sound hpr hp ha hS2 (summand_lt_of (by
      intro s hs
      simp only [List.mem_cons, List.mem_nil_iff, or_false] at hs
      rcases hs with rfl | rfl | rfl | rfl
      · rw [w16.plain]; exact w16.lt
      · rw [w7.plain]; exact w7.lt
      · rw [h0.1]; exact h0.2
      · rw [h1.1]; exact h1.2))
    have e : sum7 a [(ws.getD (ws.length - 16) default).plain, (ws.getD (ws.length - 7) default).plain,
        (sigma0 k (ws.getD (ws.length - 15) default)).2, (sigma1 (k + 1) (ws.getD (ws.length - 2) default)).2]
        = (sha512P kk ivv).smallSigma1 (wv.getD (wv.length - 2) 0) + wv.getD (wv.length - 7) 0
          + (sha512P kk ivv).smallSigma0 (wv.getD (wv.length - 15) 0) + wv.getD (wv.length - 16) 0 := by
      simp only [sum7, summand, List.getD_cons_succ, List.getD_cons_zero, List.getD_nil, zero, get_const]
      rw [w16.plain, w7.plain, h0.1, h1.1, hl]
      omega
    rw [e] at hW
    exact scheduleTail_sound hpr hp ha kk ivv n (k + 3) _ _ (by simp; omega) (forall₂_snoc h hW) hS3

theorem scheduleTail_length : ∀ (n k : Nat) (ws : List WRefs), (scheduleTail n k ws).1.length = 3 * n
  | 0, _, _ => rfl
  | n + 1, k, ws => by
    simp only [scheduleTail, List.length_cons]
    rw [scheduleTail_length n]; omega

/-- `fn message_schedule`: the 80 returned words hold the FIPS 180-4 message schedule of the block. -/
theorem messageSchedule_sound (hpr : Nat.Prime p) (hp : 2 ^ 130 ≤ p) (ha : ∀ c, a c < p) (kk ivv : List Nat)
    {k : Nat} {block : List Src} {bv : List Nat} (hb : List.Forall₂ (IsPlain a) block bv) (hlen : block.length = 16)
    (hS : TraceSat p Gen.sha512Gates a k (messageSchedule k block).1) :
    List.Forall₂ (WInv a) (messageSchedule k block).2 ((sha512P kk ivv).scheduleW bv) := by
  simp only [messageSchedule] at hS ⊢
  rw [traceSat_append, scheduleHead_length] at hS
  have h1 := scheduleHead_sound hpr hp ha block bv k hb hS.1
  have hl : 16 ≤ (scheduleHead k block).2.length := by rw [forall₂_length h1, ← forall₂_length hb, hlen]
  exact scheduleTail_sound hpr hp ha kk ivv 64 _ _ _ hl h1 hS.2

theorem messageSchedule_length (k : Nat) (block : List Src) :
    (messageSchedule k block).1.length = block.length + 3 * 64 := by
  simp only [messageSchedule, List.length_append, scheduleHead_length, scheduleTail_length]

end MidnightZK.C07.Chip512
