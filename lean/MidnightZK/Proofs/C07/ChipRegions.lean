import MidnightZK.Proofs.C07.ChipBase
/-! C07: soundness of each operation (region) of the SHA-256 chip, from the generated gate
polynomials, the lookups and the copy constraints of the emitted region. -/
namespace MidnightZK.C07.Chip
open MidnightZK.C07

variable {p : Nat} {a : Asg} {k : Nat}

/-- Unfolding of the region builders. -/
macro "region_simp" : tactic =>
  `(tactic| simp [maj, ch, Sigma0, Sigma1, sigma0, sigma1, copyW, prepareA, prepareE, prepareW, summand,
      Region.sprdd111110, Region.addMod, Region.aps, Region.enable, Region.assignTag, Region.assignAdvice,
      Region.copyAdvice, tagAt])

/-! ## Invariants of the assigned types -/

/-- The cell holds the 32-bit word `x`. -/
def IsPlain (a : Asg) (s : Src) (x : Nat) : Prop := get a s = x ∧ x < 2 ^ 32

/-- The cell holds the spread of the 32-bit word `x`. -/
def IsSpr (a : Asg) (s : Src) (x : Nat) : Prop := get a s = spreadFuel 32 x ∧ x < 2 ^ 32

/-- `AssignedPlainSpreaded<F, 32>` holds `x`. -/
structure PSInv (a : Asg) (r : PS) (x : Nat) : Prop where
  lt : x < 2 ^ 32
  plain : get a r.plain = x
  sprd : get a r.sprd = spreadFuel 32 x

/-- `LimbsOfA` holds `x` (10-9-11-2 limbs, big-endian). -/
structure AInv (a : Asg) (r : ARefs) (x : Nat) : Prop where
  lt : x < 2 ^ 32
  plain : get a r.plain = x
  sprd : get a r.sprd = spreadFuel 32 x
  l10 : get a r.l10 = spreadFuel 10 (x / 2 ^ 22)
  l09 : get a r.l09 = spreadFuel 9 (x / 2 ^ 13 % 2 ^ 9)
  l11 : get a r.l11 = spreadFuel 11 (x / 2 ^ 2 % 2 ^ 11)
  l02 : get a r.l02 = spreadFuel 2 (x % 2 ^ 2)

/-- `LimbsOfE` holds `x` (7-12-2-5-6 limbs, big-endian). -/
structure EInv (a : Asg) (r : ERefs) (x : Nat) : Prop where
  lt : x < 2 ^ 32
  plain : get a r.plain = x
  sprd : get a r.sprd = spreadFuel 32 x
  l07 : get a r.l07 = spreadFuel 7 (x / 2 ^ 25)
  l12 : get a r.l12 = spreadFuel 12 (x / 2 ^ 13 % 2 ^ 12)
  l02 : get a r.l02 = spreadFuel 2 (x / 2 ^ 11 % 2 ^ 2)
  l05 : get a r.l05 = spreadFuel 5 (x / 2 ^ 6 % 2 ^ 5)
  l06 : get a r.l06 = spreadFuel 6 (x % 2 ^ 6)

/-- `AssignedMessageWord` holds `x` (12-1-1-1-7-3-4-3 limbs, big-endian). -/
structure WInv (a : Asg) (r : WRefs) (x : Nat) : Prop where
  lt : x < 2 ^ 32
  plain : get a r.plain = x
  w12 : get a r.w12 = spreadFuel 12 (x / 2 ^ 20)
  w1a : get a r.w1a = spreadFuel 1 (x / 2 ^ 19 % 2)
  w1b : get a r.w1b = spreadFuel 1 (x / 2 ^ 18 % 2)
  w1c : get a r.w1c = spreadFuel 1 (x / 2 ^ 17 % 2)
  w07 : get a r.w07 = spreadFuel 7 (x / 2 ^ 10 % 2 ^ 7)
  w3a : get a r.w3a = spreadFuel 3 (x / 2 ^ 7 % 2 ^ 3)
  w04 : get a r.w04 = spreadFuel 4 (x / 2 ^ 3 % 2 ^ 4)
  w3b : get a r.w3b = spreadFuel 3 (x % 2 ^ 3)

theorem spread32_lt (x : Nat) : spreadFuel 32 x < 2 ^ 64 := by
  have := spread_lt 32 x
  have e : (4 : Nat) ^ 32 = 2 ^ 64 := by norm_num
  omega

/-! ## Maj -/

/-- `fn maj`: the returned cell holds `Maj(x, y, z)`. -/
theorem maj_sound (hp : 2 ^ 66 ≤ p) (ha : ∀ c, a c < p) {sA sB sC : Src} {x y z : Nat}
    (hS : Sat p Gen.shaGates a k (maj k sA sB sC).1)
    (hA : IsSpr a sA x) (hB : IsSpr a sB y) (hC : IsSpr a sC z) :
    IsPlain a (maj k sA sB sC).2 (C07.maj x y z) := by
  obtain ⟨v, hu, hv, su, sv⟩ := sprdd_block (off := 0) hp ha hS (by region_simp) (by region_simp) (by region_simp)
    (by region_simp) (by region_simp) (by region_simp) (by region_simp) (by region_simp) (by region_simp)
    (by region_simp)
  have cA := hS.copy' (src := sA) (col := 5) (off := 0) (by region_simp)
  have cB := hS.copy' (src := sB) (col := 6) (off := 0) (by region_simp)
  have cC := hS.copy' (src := sC) (col := 5) (off := 1) (by region_simp)
  have g := hS.gate' (s := .maj) (o := 1) (e := Gen.gate_maj.getD 0 default) (by region_simp)
    (by simp [Gen.shaGates, Gen.gate_maj])
  rw [hA.1] at cA; rw [hB.1] at cB; rw [hC.1] at cC
  simp only [Nat.zero_add] at su sv
  have bx := spread32_lt x
  have by' := spread32_lt y
  have bz := spread32_lt z
  have bu := spread32_lt (a (.reg k 0 4))
  have bv := spread32_lt v
  have hsum : a (.reg k 0 5) + a (.reg k 0 6) + a (.reg k 1 5)
      = (4 ^ 21 * a (.reg k 0 3) + 4 ^ 10 * a (.reg k 1 3) + a (.reg k 2 3))
        + 2 * (4 ^ 21 * a (.reg k 0 1) + 4 ^ 10 * a (.reg k 1 1) + a (.reg k 2 1)) := by
    refine exact_of_mod g ?_ (by rw [cA, cB, cC]; omega) (by rw [su, sv]; omega)
    simp [Gen.gate_maj, Expr.eval]
    ring
  rw [cA, cB, cC, su, sv] at hsum
  have := spread_sum_even_odd 32 x y z v (a (.reg k 0 4)) hA.2 hB.2 hC.2 hv hu hsum
  refine ⟨?_, ?_⟩
  · show get a (.reg k 0 4) = _
    rw [get_reg, this.2]
  · rw [← this.2]; exact hu

/-! ## Σ₀, Σ₁ -/

/-- `fn Sigma_0`: the returned cell holds `Σ₀(x)`. -/
theorem Sigma0_sound (hp : 2 ^ 66 ≤ p) (ha : ∀ c, a c < p) {ar : ARefs} {x : Nat} (kk ivv : List Nat)
    (hS : Sat p Gen.shaGates a k (Sigma0 k ar).1) (hA : AInv a ar x) :
    IsPlain a (Sigma0 k ar).2 ((sha256P kk ivv).bigSigma0 x) := by
  obtain ⟨v, hu, hv, su, sv⟩ := sprdd_block (off := 0) hp ha hS (by region_simp) (by region_simp) (by region_simp)
    (by region_simp) (by region_simp) (by region_simp) (by region_simp) (by region_simp) (by region_simp)
    (by region_simp)
  have c10 := hS.copy' (src := ar.l10) (col := 5) (off := 0) (by region_simp)
  have c09 := hS.copy' (src := ar.l09) (col := 6) (off := 0) (by region_simp)
  have c11 := hS.copy' (src := ar.l11) (col := 5) (off := 1) (by region_simp)
  have c02 := hS.copy' (src := ar.l02) (col := 6) (off := 1) (by region_simp)
  have g := hS.gate' (s := .Sig0) (o := 1) (e := Gen.gate_Sig0.getD 0 default) (by region_simp)
    (by simp [Gen.shaGates, Gen.gate_Sig0])
  rw [hA.l10] at c10; rw [hA.l09] at c09; rw [hA.l11] at c11; rw [hA.l02] at c02
  simp only [Nat.zero_add] at su sv
  have hx := hA.lt
  -- the limbs of x, little-endian
  set A10 := x / 2 ^ 22 with hA10
  set A09 := x / 2 ^ 13 % 2 ^ 9 with hA09
  set A11 := x / 2 ^ 2 % 2 ^ 11 with hA11
  set A02 := x % 2 ^ 2 with hA02
  have b10 : A10 < 2 ^ 10 := by omega
  have b09 : A09 < 2 ^ 9 := by omega
  have b11 : A11 < 2 ^ 11 := by omega
  have b02 : A02 < 2 ^ 2 := by omega
  have hxc : x = concatLE [(2, A02), (11, A11), (9, A09), (10, A10)] := by
    simp only [concatLE]; omega
  have hl : ∀ l, l ⊆ [(2, A02), (11, A11), (9, A09), (10, A10)] → ∀ ka ∈ l, ka.2 < 2 ^ ka.1 := by
    intro l hl ka hka
    have := hl hka
    simp at this
    rcases this with rfl | rfl | rfl | rfl <;> assumption
  have r1 : rotr 32 x 2 = concatLE ([(11, A11), (9, A09), (10, A10)] ++ [(2, A02)]) := by
    rw [hxc]
    exact rotr_concat 32 [(2, A02)] [(11, A11), (9, A09), (10, A10)] (hl _ (by simp)) (hl _ (by simp)) rfl
  have r2 : rotr 32 x 13 = concatLE ([(9, A09), (10, A10)] ++ [(2, A02), (11, A11)]) := by
    rw [hxc]
    exact rotr_concat 32 [(2, A02), (11, A11)] [(9, A09), (10, A10)] (hl _ (by simp)) (hl _ (by simp)) rfl
  have r3 : rotr 32 x 22 = concatLE ([(10, A10)] ++ [(2, A02), (11, A11), (9, A09)]) := by
    rw [hxc]
    exact rotr_concat 32 [(2, A02), (11, A11), (9, A09)] [(10, A10)] (hl _ (by simp)) (hl _ (by simp)) rfl
  have s1 := spread32_concatLE ([(11, A11), (9, A09), (10, A10)] ++ [(2, A02)]) (hl _ (by simp)) (by simp [bitsTotal])
  have s2 := spread32_concatLE ([(9, A09), (10, A10)] ++ [(2, A02), (11, A11)]) (hl _ (by simp)) (by simp [bitsTotal])
  have s3 := spread32_concatLE ([(10, A10)] ++ [(2, A02), (11, A11), (9, A09)]) (hl _ (by simp)) (by simp [bitsTotal])
  rw [← r1] at s1; rw [← r2] at s2; rw [← r3] at s3
  simp only [List.cons_append, List.nil_append, spreadConcat] at s1 s2 s3
  have bx1 := spread32_lt (rotr 32 x 2)
  have bx2 := spread32_lt (rotr 32 x 13)
  have bx3 := spread32_lt (rotr 32 x 22)
  have bu := spread32_lt (a (.reg k 0 4))
  have bv := spread32_lt v
  have hL : 4 ^ 30 * a (.reg k 1 6) + 4 ^ 20 * a (.reg k 0 5) + 4 ^ 11 * a (.reg k 0 6) + a (.reg k 1 5)
      + (4 ^ 21 * a (.reg k 1 5) + 4 ^ 19 * a (.reg k 1 6) + 4 ^ 9 * a (.reg k 0 5) + a (.reg k 0 6))
      + (4 ^ 23 * a (.reg k 0 6) + 4 ^ 12 * a (.reg k 1 5) + 4 ^ 10 * a (.reg k 1 6) + a (.reg k 0 5))
      = spreadFuel 32 (rotr 32 x 2) + spreadFuel 32 (rotr 32 x 13) + spreadFuel 32 (rotr 32 x 22) := by
    rw [c10, c09, c11, c02, s1, s2, s3]; ring
  have hsum : 4 ^ 30 * a (.reg k 1 6) + 4 ^ 20 * a (.reg k 0 5) + 4 ^ 11 * a (.reg k 0 6) + a (.reg k 1 5)
      + (4 ^ 21 * a (.reg k 1 5) + 4 ^ 19 * a (.reg k 1 6) + 4 ^ 9 * a (.reg k 0 5) + a (.reg k 0 6))
      + (4 ^ 23 * a (.reg k 0 6) + 4 ^ 12 * a (.reg k 1 5) + 4 ^ 10 * a (.reg k 1 6) + a (.reg k 0 5))
      = (4 ^ 21 * a (.reg k 0 1) + 4 ^ 10 * a (.reg k 1 1) + a (.reg k 2 1))
        + 2 * (4 ^ 21 * a (.reg k 0 3) + 4 ^ 10 * a (.reg k 1 3) + a (.reg k 2 3)) := by
    refine exact_of_mod g ?_ (by rw [hL]; omega) (by rw [su, sv]; omega)
    simp [Gen.gate_Sig0, Expr.eval]
    ring
  rw [hL, su, sv] at hsum
  have hlt : ∀ n, n ≤ 32 → rotr 32 x n < 2 ^ 32 := fun n hn => rotr_lt 32 x n hx hn
  have := spread_sum_even_odd 32 _ _ _ (a (.reg k 0 4)) v (hlt 2 (by omega)) (hlt 13 (by omega)) (hlt 22 (by omega))
    hu hv hsum
  refine ⟨?_, ?_⟩
  · show get a (.reg k 0 4) = _
    rw [get_reg, this.1]; rfl
  · have e : (sha256P kk ivv).bigSigma0 x = rotr 32 x 2 ^^^ rotr 32 x 13 ^^^ rotr 32 x 22 := rfl
    rw [e, ← this.1]; exact hu

/-- `fn Sigma_1`: the returned cell holds `Σ₁(x)`. -/
theorem Sigma1_sound (hp : 2 ^ 66 ≤ p) (ha : ∀ c, a c < p) {er : ERefs} {x : Nat} (kk ivv : List Nat)
    (hS : Sat p Gen.shaGates a k (Sigma1 k er).1) (hE : EInv a er x) :
    IsPlain a (Sigma1 k er).2 ((sha256P kk ivv).bigSigma1 x) := by
  obtain ⟨v, hu, hv, su, sv⟩ := sprdd_block (off := 0) hp ha hS (by region_simp) (by region_simp) (by region_simp)
    (by region_simp) (by region_simp) (by region_simp) (by region_simp) (by region_simp) (by region_simp)
    (by region_simp)
  have c07 := hS.copy' (src := er.l07) (col := 5) (off := 0) (by region_simp)
  have c12 := hS.copy' (src := er.l12) (col := 6) (off := 0) (by region_simp)
  have c02 := hS.copy' (src := er.l02) (col := 5) (off := 1) (by region_simp)
  have c05 := hS.copy' (src := er.l05) (col := 6) (off := 1) (by region_simp)
  have c06 := hS.copy' (src := er.l06) (col := 5) (off := 2) (by region_simp)
  have g := hS.gate' (s := .Sig1) (o := 1) (e := Gen.gate_Sig1.getD 0 default) (by region_simp)
    (by simp [Gen.shaGates, Gen.gate_Sig1])
  rw [hE.l07] at c07; rw [hE.l12] at c12; rw [hE.l02] at c02; rw [hE.l05] at c05; rw [hE.l06] at c06
  simp only [Nat.zero_add] at su sv
  have hx := hE.lt
  set E07 := x / 2 ^ 25 with hE07
  set E12 := x / 2 ^ 13 % 2 ^ 12 with hE12
  set E02 := x / 2 ^ 11 % 2 ^ 2 with hE02
  set E05 := x / 2 ^ 6 % 2 ^ 5 with hE05
  set E06 := x % 2 ^ 6 with hE06
  have b07 : E07 < 2 ^ 7 := by omega
  have b12 : E12 < 2 ^ 12 := by omega
  have b02 : E02 < 2 ^ 2 := by omega
  have b05 : E05 < 2 ^ 5 := by omega
  have b06 : E06 < 2 ^ 6 := by omega
  have hxc : x = concatLE [(6, E06), (5, E05), (2, E02), (12, E12), (7, E07)] := by
    simp only [concatLE]; omega
  have hl : ∀ l, l ⊆ [(6, E06), (5, E05), (2, E02), (12, E12), (7, E07)] → ∀ ka ∈ l, ka.2 < 2 ^ ka.1 := by
    intro l hl ka hka
    have := hl hka
    simp at this
    rcases this with rfl | rfl | rfl | rfl | rfl <;> assumption
  have r1 : rotr 32 x 6 = concatLE ([(5, E05), (2, E02), (12, E12), (7, E07)] ++ [(6, E06)]) := by
    rw [hxc]
    exact rotr_concat 32 [(6, E06)] [(5, E05), (2, E02), (12, E12), (7, E07)] (hl _ (by simp)) (hl _ (by simp)) rfl
  have r2 : rotr 32 x 11 = concatLE ([(2, E02), (12, E12), (7, E07)] ++ [(6, E06), (5, E05)]) := by
    rw [hxc]
    exact rotr_concat 32 [(6, E06), (5, E05)] [(2, E02), (12, E12), (7, E07)] (hl _ (by simp)) (hl _ (by simp)) rfl
  have r3 : rotr 32 x 25 = concatLE ([(7, E07)] ++ [(6, E06), (5, E05), (2, E02), (12, E12)]) := by
    rw [hxc]
    exact rotr_concat 32 [(6, E06), (5, E05), (2, E02), (12, E12)] [(7, E07)] (hl _ (by simp)) (hl _ (by simp)) rfl
  have s1 := spread32_concatLE ([(5, E05), (2, E02), (12, E12), (7, E07)] ++ [(6, E06)]) (hl _ (by simp)) (by simp [bitsTotal])
  have s2 := spread32_concatLE ([(2, E02), (12, E12), (7, E07)] ++ [(6, E06), (5, E05)]) (hl _ (by simp)) (by simp [bitsTotal])
  have s3 := spread32_concatLE ([(7, E07)] ++ [(6, E06), (5, E05), (2, E02), (12, E12)]) (hl _ (by simp)) (by simp [bitsTotal])
  rw [← r1] at s1; rw [← r2] at s2; rw [← r3] at s3
  simp only [List.cons_append, List.nil_append, spreadConcat] at s1 s2 s3
  have bx1 := spread32_lt (rotr 32 x 6)
  have bx2 := spread32_lt (rotr 32 x 11)
  have bx3 := spread32_lt (rotr 32 x 25)
  have bu := spread32_lt (a (.reg k 0 4))
  have bv := spread32_lt v
  have hL : 4 ^ 26 * a (.reg k 2 5) + 4 ^ 19 * a (.reg k 0 5) + 4 ^ 7 * a (.reg k 0 6) + 4 ^ 5 * a (.reg k 1 5)
        + a (.reg k 1 6)
      + (4 ^ 27 * a (.reg k 1 6) + 4 ^ 21 * a (.reg k 2 5) + 4 ^ 14 * a (.reg k 0 5) + 4 ^ 2 * a (.reg k 0 6)
        + a (.reg k 1 5))
      + (4 ^ 20 * a (.reg k 0 6) + 4 ^ 18 * a (.reg k 1 5) + 4 ^ 13 * a (.reg k 1 6) + 4 ^ 7 * a (.reg k 2 5)
        + a (.reg k 0 5))
      = spreadFuel 32 (rotr 32 x 6) + spreadFuel 32 (rotr 32 x 11) + spreadFuel 32 (rotr 32 x 25) := by
    rw [c07, c12, c02, c05, c06, s1, s2, s3]; ring
  have hsum : 4 ^ 26 * a (.reg k 2 5) + 4 ^ 19 * a (.reg k 0 5) + 4 ^ 7 * a (.reg k 0 6) + 4 ^ 5 * a (.reg k 1 5)
        + a (.reg k 1 6)
      + (4 ^ 27 * a (.reg k 1 6) + 4 ^ 21 * a (.reg k 2 5) + 4 ^ 14 * a (.reg k 0 5) + 4 ^ 2 * a (.reg k 0 6)
        + a (.reg k 1 5))
      + (4 ^ 20 * a (.reg k 0 6) + 4 ^ 18 * a (.reg k 1 5) + 4 ^ 13 * a (.reg k 1 6) + 4 ^ 7 * a (.reg k 2 5)
        + a (.reg k 0 5))
      = (4 ^ 21 * a (.reg k 0 1) + 4 ^ 10 * a (.reg k 1 1) + a (.reg k 2 1))
        + 2 * (4 ^ 21 * a (.reg k 0 3) + 4 ^ 10 * a (.reg k 1 3) + a (.reg k 2 3)) := by
    refine exact_of_mod g ?_ (by rw [hL]; omega) (by rw [su, sv]; omega)
    simp [Gen.gate_Sig1, Expr.eval]
    ring
  rw [hL, su, sv] at hsum
  have hlt : ∀ n, n ≤ 32 → rotr 32 x n < 2 ^ 32 := fun n hn => rotr_lt 32 x n hx hn
  have := spread_sum_even_odd 32 _ _ _ (a (.reg k 0 4)) v (hlt 6 (by omega)) (hlt 11 (by omega)) (hlt 25 (by omega))
    hu hv hsum
  refine ⟨?_, ?_⟩
  · show get a (.reg k 0 4) = _
    rw [get_reg, this.1]; rfl
  · have e : (sha256P kk ivv).bigSigma1 x = rotr 32 x 6 ^^^ rotr 32 x 11 ^^^ rotr 32 x 25 := rfl
    rw [e, ← this.1]; exact hu

/-! ## σ₀, σ₁ -/

theorem xor_rot3 (a b c : Nat) : a ^^^ b ^^^ c = b ^^^ c ^^^ a := by
  rw [Nat.xor_assoc, Nat.xor_comm]

theorem shr_lt {x n : Nat} (hx : x < 2 ^ 32) : shr x n < 2 ^ 32 := by
  unfold shr
  exact lt_of_le_of_lt (Nat.div_le_self _ _) hx

/-- The limbs of a message word, little-endian, and what the copies into a `σ` region hold. -/
theorem sigma_common {wr : WRefs} {x : Nat} {r : Region}
    (hS : Sat p Gen.shaGates a k r) (hW : WInv a wr x)
    (h12 : (wr.w12, 5, 0) ∈ r.copies) (h1a : (wr.w1a, 6, 0) ∈ r.copies) (h1b : (wr.w1b, 4, 1) ∈ r.copies)
    (h1c : (wr.w1c, 5, 1) ∈ r.copies) (h07 : (wr.w07, 6, 1) ∈ r.copies) (h3a : (wr.w3a, 4, 2) ∈ r.copies)
    (h04 : (wr.w04, 5, 2) ∈ r.copies) (h3b : (wr.w3b, 6, 2) ∈ r.copies) :
    a (.reg k 0 5) = spreadFuel 12 (x / 2 ^ 20) ∧ a (.reg k 0 6) = spreadFuel 1 (x / 2 ^ 19 % 2) ∧
    a (.reg k 1 4) = spreadFuel 1 (x / 2 ^ 18 % 2) ∧ a (.reg k 1 5) = spreadFuel 1 (x / 2 ^ 17 % 2) ∧
    a (.reg k 1 6) = spreadFuel 7 (x / 2 ^ 10 % 2 ^ 7) ∧ a (.reg k 2 4) = spreadFuel 3 (x / 2 ^ 7 % 2 ^ 3) ∧
    a (.reg k 2 5) = spreadFuel 4 (x / 2 ^ 3 % 2 ^ 4) ∧ a (.reg k 2 6) = spreadFuel 3 (x % 2 ^ 3) := by
  refine ⟨?_, ?_, ?_, ?_, ?_, ?_, ?_, ?_⟩
  · rw [hS.copy' h12, hW.w12]
  · rw [hS.copy' h1a, hW.w1a]
  · rw [hS.copy' h1b, hW.w1b]
  · rw [hS.copy' h1c, hW.w1c]
  · rw [hS.copy' h07, hW.w07]
  · rw [hS.copy' h3a, hW.w3a]
  · rw [hS.copy' h04, hW.w04]
  · rw [hS.copy' h3b, hW.w3b]

/-- The eight limbs of a 32-bit word (12-1-1-1-7-3-4-3, listed little-endian) recompose it, and
every sub-list is made of well-sized limbs. -/
theorem w_limbs {x : Nat} (hx : x < 2 ^ 32) :
    x = concatLE [(3, x % 2 ^ 3), (4, x / 2 ^ 3 % 2 ^ 4), (3, x / 2 ^ 7 % 2 ^ 3), (7, x / 2 ^ 10 % 2 ^ 7),
      (1, x / 2 ^ 17 % 2), (1, x / 2 ^ 18 % 2), (1, x / 2 ^ 19 % 2), (12, x / 2 ^ 20)] ∧
    ∀ l, l ⊆ [(3, x % 2 ^ 3), (4, x / 2 ^ 3 % 2 ^ 4), (3, x / 2 ^ 7 % 2 ^ 3), (7, x / 2 ^ 10 % 2 ^ 7),
      (1, x / 2 ^ 17 % 2), (1, x / 2 ^ 18 % 2), (1, x / 2 ^ 19 % 2), (12, x / 2 ^ 20)] →
      ∀ ka ∈ l, ka.2 < 2 ^ ka.1 := by
  constructor
  · simp only [concatLE]; omega
  · intro l hl ka hka
    have := hl hka
    simp at this
    rcases this with rfl | rfl | rfl | rfl | rfl | rfl | rfl | rfl <;> simp <;> omega

/-- `fn sigma_0`: the returned cell holds `σ₀(x)`. -/
theorem sigma0_sound (hp : 2 ^ 66 ≤ p) (ha : ∀ c, a c < p) {wr : WRefs} {x : Nat} (kk ivv : List Nat)
    (hS : Sat p Gen.shaGates a k (sigma0 k wr).1) (hW : WInv a wr x) :
    IsPlain a (sigma0 k wr).2 ((sha256P kk ivv).smallSigma0 x) := by
  obtain ⟨v, hu, hv, su, sv⟩ := sprdd_block (off := 0) hp ha hS (by region_simp) (by region_simp) (by region_simp)
    (by region_simp) (by region_simp) (by region_simp) (by region_simp) (by region_simp) (by region_simp)
    (by region_simp)
  obtain ⟨c12, c1a, c1b, c1c, c07, c3a, c04, c3b⟩ := sigma_common hS hW (by region_simp) (by region_simp)
    (by region_simp) (by region_simp) (by region_simp) (by region_simp) (by region_simp) (by region_simp)
  have g := hS.gate' (s := .sig0) (o := 1) (e := Gen.gate_sig0.getD 0 default) (by region_simp)
    (by simp [Gen.shaGates, Gen.gate_sig0])
  simp only [Nat.zero_add] at su sv
  have hx := hW.lt
  obtain ⟨hxc, hl⟩ := w_limbs hx
  set W3b := x % 2 ^ 3
  set W04 := x / 2 ^ 3 % 2 ^ 4
  set W3a := x / 2 ^ 7 % 2 ^ 3
  set W07 := x / 2 ^ 10 % 2 ^ 7
  set W1c := x / 2 ^ 17 % 2
  set W1b := x / 2 ^ 18 % 2
  set W1a := x / 2 ^ 19 % 2
  set W12 := x / 2 ^ 20
  have r1 : shr x 3 = concatLE [(4, W04), (3, W3a), (7, W07), (1, W1c), (1, W1b), (1, W1a), (12, W12)] := by
    rw [hxc]
    exact shr_concat [(3, W3b)] [(4, W04), (3, W3a), (7, W07), (1, W1c), (1, W1b), (1, W1a), (12, W12)]
      (hl _ (by simp))
  have r2 : rotr 32 x 7 = concatLE ([(3, W3a), (7, W07), (1, W1c), (1, W1b), (1, W1a), (12, W12)]
      ++ [(3, W3b), (4, W04)]) := by
    rw [hxc]
    exact rotr_concat 32 [(3, W3b), (4, W04)] [(3, W3a), (7, W07), (1, W1c), (1, W1b), (1, W1a), (12, W12)]
      (hl _ (by simp)) (hl _ (by simp)) rfl
  have r3 : rotr 32 x 18 = concatLE ([(1, W1b), (1, W1a), (12, W12)]
      ++ [(3, W3b), (4, W04), (3, W3a), (7, W07), (1, W1c)]) := by
    rw [hxc]
    exact rotr_concat 32 [(3, W3b), (4, W04), (3, W3a), (7, W07), (1, W1c)] [(1, W1b), (1, W1a), (12, W12)]
      (hl _ (by simp)) (hl _ (by simp)) rfl
  have s1 := spread32_concatLE [(4, W04), (3, W3a), (7, W07), (1, W1c), (1, W1b), (1, W1a), (12, W12)]
    (hl _ (by simp)) (by simp [bitsTotal])
  have s2 := spread32_concatLE ([(3, W3a), (7, W07), (1, W1c), (1, W1b), (1, W1a), (12, W12)]
      ++ [(3, W3b), (4, W04)]) (hl _ (by simp)) (by simp [bitsTotal])
  have s3 := spread32_concatLE ([(1, W1b), (1, W1a), (12, W12)]
      ++ [(3, W3b), (4, W04), (3, W3a), (7, W07), (1, W1c)]) (hl _ (by simp)) (by simp [bitsTotal])
  rw [← r1] at s1; rw [← r2] at s2; rw [← r3] at s3
  simp only [List.cons_append, List.nil_append, spreadConcat] at s1 s2 s3
  have bx1 := spread32_lt (shr x 3)
  have bx2 := spread32_lt (rotr 32 x 7)
  have bx3 := spread32_lt (rotr 32 x 18)
  have bu := spread32_lt (a (.reg k 0 4))
  have bv := spread32_lt v
  have hL : 4 ^ 17 * a (.reg k 0 5) + 4 ^ 16 * a (.reg k 0 6) + 4 ^ 15 * a (.reg k 1 4) + 4 ^ 14 * a (.reg k 1 5)
        + 4 ^ 7 * a (.reg k 1 6) + 4 ^ 4 * a (.reg k 2 4) + a (.reg k 2 5)
      + (4 ^ 28 * a (.reg k 2 5) + 4 ^ 25 * a (.reg k 2 6) + 4 ^ 13 * a (.reg k 0 5) + 4 ^ 12 * a (.reg k 0 6)
        + 4 ^ 11 * a (.reg k 1 4) + 4 ^ 10 * a (.reg k 1 5) + 4 ^ 3 * a (.reg k 1 6) + a (.reg k 2 4))
      + (4 ^ 31 * a (.reg k 1 5) + 4 ^ 24 * a (.reg k 1 6) + 4 ^ 21 * a (.reg k 2 4) + 4 ^ 17 * a (.reg k 2 5)
        + 4 ^ 14 * a (.reg k 2 6) + 4 ^ 2 * a (.reg k 0 5) + 4 ^ 1 * a (.reg k 0 6) + a (.reg k 1 4))
      = spreadFuel 32 (shr x 3) + spreadFuel 32 (rotr 32 x 7) + spreadFuel 32 (rotr 32 x 18) := by
    rw [c12, c1a, c1b, c1c, c07, c3a, c04, c3b, s1, s2, s3]; ring
  have hsum : 4 ^ 17 * a (.reg k 0 5) + 4 ^ 16 * a (.reg k 0 6) + 4 ^ 15 * a (.reg k 1 4) + 4 ^ 14 * a (.reg k 1 5)
        + 4 ^ 7 * a (.reg k 1 6) + 4 ^ 4 * a (.reg k 2 4) + a (.reg k 2 5)
      + (4 ^ 28 * a (.reg k 2 5) + 4 ^ 25 * a (.reg k 2 6) + 4 ^ 13 * a (.reg k 0 5) + 4 ^ 12 * a (.reg k 0 6)
        + 4 ^ 11 * a (.reg k 1 4) + 4 ^ 10 * a (.reg k 1 5) + 4 ^ 3 * a (.reg k 1 6) + a (.reg k 2 4))
      + (4 ^ 31 * a (.reg k 1 5) + 4 ^ 24 * a (.reg k 1 6) + 4 ^ 21 * a (.reg k 2 4) + 4 ^ 17 * a (.reg k 2 5)
        + 4 ^ 14 * a (.reg k 2 6) + 4 ^ 2 * a (.reg k 0 5) + 4 ^ 1 * a (.reg k 0 6) + a (.reg k 1 4))
      = (4 ^ 21 * a (.reg k 0 1) + 4 ^ 10 * a (.reg k 1 1) + a (.reg k 2 1))
        + 2 * (4 ^ 21 * a (.reg k 0 3) + 4 ^ 10 * a (.reg k 1 3) + a (.reg k 2 3)) := by
    refine exact_of_mod g ?_ (by rw [hL]; omega) (by rw [su, sv]; omega)
    simp [Gen.gate_sig0, Expr.eval]
    ring
  rw [hL, su, sv] at hsum
  have hlt : ∀ n, n ≤ 32 → rotr 32 x n < 2 ^ 32 := fun n hn => rotr_lt 32 x n hx hn
  have := spread_sum_even_odd 32 _ _ _ (a (.reg k 0 4)) v (shr_lt hx) (hlt 7 (by omega)) (hlt 18 (by omega))
    hu hv hsum
  have e : (sha256P kk ivv).smallSigma0 x = rotr 32 x 7 ^^^ rotr 32 x 18 ^^^ shr x 3 := rfl
  refine ⟨?_, ?_⟩
  · show get a (.reg k 0 4) = _
    rw [get_reg, this.1, e, xor_rot3]
  · rw [e, ← xor_rot3, ← this.1]; exact hu

/-- `fn sigma_1`: the returned cell holds `σ₁(x)`. -/
theorem sigma1_sound (hp : 2 ^ 66 ≤ p) (ha : ∀ c, a c < p) {wr : WRefs} {x : Nat} (kk ivv : List Nat)
    (hS : Sat p Gen.shaGates a k (sigma1 k wr).1) (hW : WInv a wr x) :
    IsPlain a (sigma1 k wr).2 ((sha256P kk ivv).smallSigma1 x) := by
  obtain ⟨v, hu, hv, su, sv⟩ := sprdd_block (off := 0) hp ha hS (by region_simp) (by region_simp) (by region_simp)
    (by region_simp) (by region_simp) (by region_simp) (by region_simp) (by region_simp) (by region_simp)
    (by region_simp)
  obtain ⟨c12, c1a, c1b, c1c, c07, c3a, c04, c3b⟩ := sigma_common hS hW (by region_simp) (by region_simp)
    (by region_simp) (by region_simp) (by region_simp) (by region_simp) (by region_simp) (by region_simp)
  have g := hS.gate' (s := .sig1) (o := 1) (e := Gen.gate_sig1.getD 0 default) (by region_simp)
    (by simp [Gen.shaGates, Gen.gate_sig1])
  simp only [Nat.zero_add] at su sv
  have hx := hW.lt
  obtain ⟨hxc, hl⟩ := w_limbs hx
  set W3b := x % 2 ^ 3
  set W04 := x / 2 ^ 3 % 2 ^ 4
  set W3a := x / 2 ^ 7 % 2 ^ 3
  set W07 := x / 2 ^ 10 % 2 ^ 7
  set W1c := x / 2 ^ 17 % 2
  set W1b := x / 2 ^ 18 % 2
  set W1a := x / 2 ^ 19 % 2
  set W12 := x / 2 ^ 20
  have r1 : shr x 10 = concatLE [(7, W07), (1, W1c), (1, W1b), (1, W1a), (12, W12)] := by
    rw [hxc]
    exact shr_concat [(3, W3b), (4, W04), (3, W3a)] [(7, W07), (1, W1c), (1, W1b), (1, W1a), (12, W12)]
      (hl _ (by simp))
  have r2 : rotr 32 x 17 = concatLE ([(1, W1c), (1, W1b), (1, W1a), (12, W12)]
      ++ [(3, W3b), (4, W04), (3, W3a), (7, W07)]) := by
    rw [hxc]
    exact rotr_concat 32 [(3, W3b), (4, W04), (3, W3a), (7, W07)] [(1, W1c), (1, W1b), (1, W1a), (12, W12)]
      (hl _ (by simp)) (hl _ (by simp)) rfl
  have r3 : rotr 32 x 19 = concatLE ([(1, W1a), (12, W12)]
      ++ [(3, W3b), (4, W04), (3, W3a), (7, W07), (1, W1c), (1, W1b)]) := by
    rw [hxc]
    exact rotr_concat 32 [(3, W3b), (4, W04), (3, W3a), (7, W07), (1, W1c), (1, W1b)] [(1, W1a), (12, W12)]
      (hl _ (by simp)) (hl _ (by simp)) rfl
  have s1 := spread32_concatLE [(7, W07), (1, W1c), (1, W1b), (1, W1a), (12, W12)]
    (hl _ (by simp)) (by simp [bitsTotal])
  have s2 := spread32_concatLE ([(1, W1c), (1, W1b), (1, W1a), (12, W12)]
      ++ [(3, W3b), (4, W04), (3, W3a), (7, W07)]) (hl _ (by simp)) (by simp [bitsTotal])
  have s3 := spread32_concatLE ([(1, W1a), (12, W12)]
      ++ [(3, W3b), (4, W04), (3, W3a), (7, W07), (1, W1c), (1, W1b)]) (hl _ (by simp)) (by simp [bitsTotal])
  rw [← r1] at s1; rw [← r2] at s2; rw [← r3] at s3
  simp only [List.cons_append, List.nil_append, spreadConcat] at s1 s2 s3
  have bx1 := spread32_lt (shr x 10)
  have bx2 := spread32_lt (rotr 32 x 17)
  have bx3 := spread32_lt (rotr 32 x 19)
  have bu := spread32_lt (a (.reg k 0 4))
  have bv := spread32_lt v
  have hL : 4 ^ 10 * a (.reg k 0 5) + 4 ^ 9 * a (.reg k 0 6) + 4 ^ 8 * a (.reg k 1 4) + 4 ^ 7 * a (.reg k 1 5)
        + a (.reg k 1 6)
      + (4 ^ 25 * a (.reg k 1 6) + 4 ^ 22 * a (.reg k 2 4) + 4 ^ 18 * a (.reg k 2 5) + 4 ^ 15 * a (.reg k 2 6)
        + 4 ^ 3 * a (.reg k 0 5) + 4 ^ 2 * a (.reg k 0 6) + 4 ^ 1 * a (.reg k 1 4) + a (.reg k 1 5))
      + (4 ^ 31 * a (.reg k 1 4) + 4 ^ 30 * a (.reg k 1 5) + 4 ^ 23 * a (.reg k 1 6) + 4 ^ 20 * a (.reg k 2 4)
        + 4 ^ 16 * a (.reg k 2 5) + 4 ^ 13 * a (.reg k 2 6) + 4 ^ 1 * a (.reg k 0 5) + a (.reg k 0 6))
      = spreadFuel 32 (shr x 10) + spreadFuel 32 (rotr 32 x 17) + spreadFuel 32 (rotr 32 x 19) := by
    rw [c12, c1a, c1b, c1c, c07, c3a, c04, c3b, s1, s2, s3]; ring
  have hsum : 4 ^ 10 * a (.reg k 0 5) + 4 ^ 9 * a (.reg k 0 6) + 4 ^ 8 * a (.reg k 1 4) + 4 ^ 7 * a (.reg k 1 5)
        + a (.reg k 1 6)
      + (4 ^ 25 * a (.reg k 1 6) + 4 ^ 22 * a (.reg k 2 4) + 4 ^ 18 * a (.reg k 2 5) + 4 ^ 15 * a (.reg k 2 6)
        + 4 ^ 3 * a (.reg k 0 5) + 4 ^ 2 * a (.reg k 0 6) + 4 ^ 1 * a (.reg k 1 4) + a (.reg k 1 5))
      + (4 ^ 31 * a (.reg k 1 4) + 4 ^ 30 * a (.reg k 1 5) + 4 ^ 23 * a (.reg k 1 6) + 4 ^ 20 * a (.reg k 2 4)
        + 4 ^ 16 * a (.reg k 2 5) + 4 ^ 13 * a (.reg k 2 6) + 4 ^ 1 * a (.reg k 0 5) + a (.reg k 0 6))
      = (4 ^ 21 * a (.reg k 0 1) + 4 ^ 10 * a (.reg k 1 1) + a (.reg k 2 1))
        + 2 * (4 ^ 21 * a (.reg k 0 3) + 4 ^ 10 * a (.reg k 1 3) + a (.reg k 2 3)) := by
    refine exact_of_mod g ?_ (by rw [hL]; omega) (by rw [su, sv]; omega)
    simp [Gen.gate_sig1, Expr.eval]
    ring
  rw [hL, su, sv] at hsum
  have hlt : ∀ n, n ≤ 32 → rotr 32 x n < 2 ^ 32 := fun n hn => rotr_lt 32 x n hx hn
  have := spread_sum_even_odd 32 _ _ _ (a (.reg k 0 4)) v (shr_lt hx) (hlt 17 (by omega)) (hlt 19 (by omega))
    hu hv hsum
  have e : (sha256P kk ivv).smallSigma1 x = rotr 32 x 17 ^^^ rotr 32 x 19 ^^^ shr x 10 := rfl
  refine ⟨?_, ?_⟩
  · show get a (.reg k 0 4) = _
    rw [get_reg, this.1, e, xor_rot3]
  · rw [e, ← xor_rot3, ← this.1]; exact hu

end MidnightZK.C07.Chip
