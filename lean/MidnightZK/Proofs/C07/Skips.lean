import MidnightZK.Proofs.C07.Basic
/-! C07: the linear identities of `round_skips.rs` evaluate to `1 + nb_skips` raw partial rounds. -/
namespace MidnightZK.C07

open Finset
set_option linter.unusedSectionVars false

section
variable {F : Type} [CommRing F]

/-- Value of a linear form under a valuation `V` of the variables and `C` of the batch constants,
over the first `n` variables and `n'` constants. -/
def LF.sem (l : LF F) (n n' : Nat) (V C : Nat → F) : F :=
  ∑ j ∈ range n, l.var.getD j 0 * V j + ∑ k ∈ range n', l.cst.getD k 0 * C k

theorem LF.sem_congr (l : LF F) (n n' : Nat) (V V' C : Nat → F) (h : ∀ j, j < n → V j = V' j) :
    l.sem n n' V C = l.sem n n' V' C := by
  unfold LF.sem
  congr 1
  apply Finset.sum_congr rfl
  intro j hj
  rw [h j (Finset.mem_range.mp hj)]

variable (d : Dims) (n n' : Nat) (V C : Nat → F)

theorem sem_unitVar (hn : n ≤ d.nv) (i : Nat) (hi : i < n) :
    (LF.unitVar d i : LF F).sem n n' V C = V i := by
  unfold LF.sem LF.unitVar
  simp only
  have h1 : ∑ j ∈ range n, (vec d.nv (fun j => if j = i then (1 : F) else 0)).getD j 0 * V j = V i := by
    rw [Finset.sum_eq_single i]
    · rw [getD_vec _ _ _ _ (by omega)]; simp
    · intro j hj hne
      rw [getD_vec _ _ _ _ (by have := Finset.mem_range.mp hj; omega)]
      simp [hne]
    · intro h; exact absurd (Finset.mem_range.mpr hi) h
  have h2 : ∑ k ∈ range n', (vec d.nc (fun _ => (0 : F))).getD k 0 * C k = 0 := by
    apply Finset.sum_eq_zero
    intro k _
    by_cases hk : k < d.nc
    · rw [getD_vec _ _ _ _ hk]; simp
    · rw [getD_vec_ge _ _ _ _ (by omega)]; simp
  rw [h1, h2, add_zero]

theorem sem_unitCst (hn' : n' ≤ d.nc) (k : Nat) (hk : k < n') :
    (LF.unitCst d k : LF F).sem n n' V C = C k := by
  unfold LF.sem LF.unitCst
  simp only
  have h1 : ∑ j ∈ range n', (vec d.nc (fun j => if j = k then (1 : F) else 0)).getD j 0 * C j = C k := by
    rw [Finset.sum_eq_single k]
    · rw [getD_vec _ _ _ _ (by omega)]; simp
    · intro j hj hne
      rw [getD_vec _ _ _ _ (by have := Finset.mem_range.mp hj; omega)]
      simp [hne]
    · intro h; exact absurd (Finset.mem_range.mpr hk) h
  have h2 : ∑ j ∈ range n, (vec d.nv (fun _ => (0 : F))).getD j 0 * V j = 0 := by
    apply Finset.sum_eq_zero
    intro j _
    by_cases hj : j < d.nv
    · rw [getD_vec _ _ _ _ hj]; simp
    · rw [getD_vec_ge _ _ _ _ (by omega)]; simp
  rw [h1, h2, zero_add]

theorem sem_addMul (hn : n ≤ d.nv) (hn' : n' ≤ d.nc) (a b : LF F) (c : F) :
    (LF.addMul d a b c).sem n n' V C = a.sem n n' V C + c * b.sem n n' V C := by
  unfold LF.sem LF.addMul
  simp only
  have h1 : ∑ j ∈ range n, (vec d.nv (fun j => a.var.getD j 0 + b.var.getD j 0 * c)).getD j 0 * V j
      = ∑ j ∈ range n, a.var.getD j 0 * V j + c * ∑ j ∈ range n, b.var.getD j 0 * V j := by
    rw [Finset.mul_sum, ← Finset.sum_add_distrib]
    apply Finset.sum_congr rfl
    intro j hj
    rw [getD_vec _ _ _ _ (by have := Finset.mem_range.mp hj; omega)]
    ring
  have h2 : ∑ k ∈ range n', (vec d.nc (fun j => a.cst.getD j 0 + b.cst.getD j 0 * c)).getD k 0 * C k
      = ∑ k ∈ range n', a.cst.getD k 0 * C k + c * ∑ k ∈ range n', b.cst.getD k 0 * C k := by
    rw [Finset.mul_sum, ← Finset.sum_add_distrib]
    apply Finset.sum_congr rfl
    intro j hj
    rw [getD_vec _ _ _ _ (by have := Finset.mem_range.mp hj; omega)]
    ring
  rw [h1, h2]
  ring

theorem sem_lfComb (hn : n ≤ d.nv) (hn' : n' ≤ d.nc) (W : Nat) (base : LF F) (cur : List (LF F))
    (coef : Nat → F) :
    (lfComb d W base cur coef).sem n n' V C
      = base.sem n n' V C + ∑ j ∈ range W, coef j * (cur.getD j default).sem n n' V C := by
  unfold lfComb
  induction W with
  | zero => simp
  | succ W ih =>
    rw [List.range_succ, List.foldl_append, Finset.sum_range_succ]
    simp only [List.foldl_cons, List.foldl_nil]
    rw [sem_addMul d n n' V C hn hn', ih]
    ring

/-- `eval_vars` on top of the pre-computed `eval_constants` is the value of the form. -/
theorem evalVars_evalConsts (l : LF F) (inst : List F) :
    l.evalVars n inst (l.evalConsts n' C) = l.sem n n' (fun j => inst.getD j 0) C := by
  unfold LF.evalVars LF.evalConsts LF.sem
  rw [sumTo_eq, sumTo_eq]
  ring

end

section
variable {F : Type} [CommRing F]
variable (P : PParams F) (smax : Nat) (d : Dims) (s : Nat)

/-- The identities after `k` calls of `update_row`. -/
def genK (k : Nat) : RoundId F :=
  (List.range k).foldl (RoundId.updateRow P d) (RoundId.init P.width smax d s)

theorem genK_succ (k : Nat) : genK P smax d s (k + 1) = RoundId.updateRow P d (genK P smax d s k) k := by
  unfold genK
  rw [List.range_succ, List.foldl_append]
  rfl

theorem generate_eq_genK : RoundId.generate P smax d s = genK P smax d s (1 + s) := rfl

theorem genK_length (k : Nat) : (genK P smax d s k).ids.length = P.width + 1 + smax := by
  induction k with
  | zero => simp [genK, RoundId.init]
  | succ k ih => rw [genK_succ]; simp [RoundId.updateRow, ih]

theorem genK_nbSkips (k : Nat) : (genK P smax d s k).nbSkips = s := by
  induction k with
  | zero => simp [genK, RoundId.init]
  | succ k ih => rw [genK_succ]; simp [RoundId.updateRow, ih]

theorem updateRow_getD (R : RoundId F) (off i : Nat) (hi : i < R.ids.length) :
    (RoundId.updateRow P d R off).ids.getD i default =
      if i < P.width - 1 then
        lfComb d P.width (LF.unitCst d (off * P.width + i)) (R.rowId P.width d off) (P.m i)
      else if i = P.width + off then
        lfComb d P.width (LF.unitCst d (off * P.width + (P.width - 1))) (R.rowId P.width d off) (P.m (P.width - 1))
      else R.ids.getD i default := by
  unfold RoundId.updateRow
  simp only
  rw [getD_map_range _ _ _ _ hi]

theorem rowId_getD (R : RoundId F) (W row j : Nat) (hj : j < W) :
    (R.rowId W d row).getD j default =
      if j = W - 1 then LF.unitVar d (W - 1 + row) else R.ids.getD j default := by
  unfold RoundId.rowId
  rw [getD_map_range _ _ _ _ hj]

/-- Later `update_row`s do not touch the identity of an earlier skipped row. -/
theorem genK_stable (t k k' : Nat) (ht : t < k) (hkk : k ≤ k') (hs : k' ≤ 1 + smax) (hW : 1 ≤ P.width) :
    (genK P smax d s k').ids.getD (P.width + t) default = (genK P smax d s k).ids.getD (P.width + t) default := by
  induction k' with
  | zero => omega
  | succ k' ih =>
    by_cases h : k = k' + 1
    · subst h; rfl
    · rw [genK_succ, updateRow_getD P d _ _ _ (by rw [genK_length]; omega)]
      have h1 : ¬ (P.width + t < P.width - 1) := by omega
      have h2 : ¬ (P.width + t = P.width + k') := by omega
      simp only [h1, h2, if_false]
      exact ih (by omega) (by omega)

/-- The states of `t` raw (shifted) partial rounds with batch constants `C` (flattened window),
started from `x`, as functions of the cell index. -/
def rawSeq (C x : Nat → F) : Nat → Nat → F
  | 0, i => x i
  | t + 1, i => C (t * P.width + i) +
      ∑ j ∈ range P.width, P.m i j * (if j = P.width - 1 then sbox (rawSeq C x t j) else rawSeq C x t j)

/-- A valuation that is right on the linear inputs and on the first `k` exponentiated cells. -/
def Good (C x V : Nat → F) (k : Nat) : Prop :=
  (∀ j, j < P.width - 1 → V j = x j) ∧
  (∀ t, t < k → V (P.width - 1 + t) = sbox (rawSeq P C x t (P.width - 1)))

theorem good_mono (C x V : Nat → F) (k k' : Nat) (h : k ≤ k') (g : Good P C x V k') : Good P C x V k :=
  ⟨g.1, fun t ht => g.2 t (by omega)⟩

/-- Invariant of `RoundId::generate`: after `k` updates the forms of the linear cells evaluate to
the state after `k` raw partial rounds, and the form of each skipped row to the last cell of that
row, under every valuation that is right on the cells computed so far. -/
theorem genK_inv (hW : 1 ≤ P.width) (hs : s ≤ smax)
    (hnv : P.width + s ≤ d.nv) (hnc : P.width * (1 + s) ≤ d.nc) (C x : Nat → F) :
    ∀ k, k ≤ 1 + s → ∀ V, Good P C x V k →
      (∀ i, i < P.width - 1 →
        ((genK P smax d s k).ids.getD i default).sem (P.width + s) (P.width * (1 + s)) V C = rawSeq P C x k i) ∧
      (∀ t, t < k →
        ((genK P smax d s k).ids.getD (P.width + t) default).sem (P.width + s) (P.width * (1 + s)) V C
          = rawSeq P C x (t + 1) (P.width - 1)) := by
  intro k
  induction k with
  | zero =>
    intro _ V g
    refine ⟨?_, fun t ht => absurd ht (by omega)⟩
    intro i hi
    have : (genK P smax d s 0).ids.getD i default = LF.unitVar d i := by
      unfold genK RoundId.init
      simp only [List.range_zero, List.foldl_nil]
      rw [getD_map_range _ _ _ _ (by omega)]
      simp [show i < P.width by omega]
    rw [this, sem_unitVar d _ _ V C hnv i (by omega)]
    exact g.1 i hi
  | succ k ih =>
    intro hk V g
    have gk : Good P C x V k := good_mono P C x V k (k + 1) (by omega) g
    obtain ⟨iha, ihb⟩ := ih (by omega) V gk
    set R := genK P smax d s k with hR
    -- value of the current row
    have hcur : ∀ j, j < P.width →
        ((R.rowId P.width d k).getD j default).sem (P.width + s) (P.width * (1 + s)) V C
          = if j = P.width - 1 then sbox (rawSeq P C x k j) else rawSeq P C x k j := by
      intro j hj
      rw [rowId_getD d R P.width k j hj]
      by_cases hjl : j = P.width - 1
      · simp only [hjl, if_true]
        rw [sem_unitVar d _ _ V C hnv _ (by omega)]
        exact g.2 k (by omega)
      · simp only [hjl, if_false]
        exact iha j (by omega)
    have hkW : ∀ i, i < P.width → k * P.width + i < P.width * (1 + s) := by
      intro i hi
      have : k * P.width + P.width ≤ P.width * (1 + s) := by
        have : (k + 1) * P.width ≤ (1 + s) * P.width := Nat.mul_le_mul_right _ (by omega)
        calc k * P.width + P.width = (k + 1) * P.width := by ring
          _ ≤ (1 + s) * P.width := this
          _ = P.width * (1 + s) := by ring
      omega
    have hcomb : ∀ i, i < P.width →
        (lfComb d P.width (LF.unitCst d (k * P.width + i)) (R.rowId P.width d k) (P.m i)).sem
          (P.width + s) (P.width * (1 + s)) V C = rawSeq P C x (k + 1) i := by
      intro i hi
      rw [sem_lfComb d _ _ V C hnv hnc, sem_unitCst d _ _ V C hnc _ (hkW i hi)]
      show _ = C (k * P.width + i) + _
      congr 1
      apply Finset.sum_congr rfl
      intro j hj
      rw [hcur j (Finset.mem_range.mp hj)]
    have hlen : R.ids.length = P.width + 1 + smax := genK_length P smax d s k
    constructor
    · intro i hi
      rw [genK_succ, updateRow_getD P d _ _ _ (by rw [← hR, hlen]; omega)]
      simp only [hi, if_true]
      exact hcomb i (by omega)
    · intro t ht
      rw [genK_succ, updateRow_getD P d _ _ _ (by rw [← hR, hlen]; omega)]
      have h1 : ¬ (P.width + t < P.width - 1) := by omega
      simp only [h1, if_false]
      by_cases htk : t = k
      · subst htk
        simp only [if_true]
        exact hcomb (P.width - 1) (by omega)
      · have h2 : ¬ (P.width + t = P.width + k) := by omega
        simp only [h2, if_false]
        exact ihb t (by omega)

end

end MidnightZK.C07
