import MidnightZK.Proofs.C07.Grain0
import MidnightZK.Proofs.C07.Grain1
import MidnightZK.Proofs.C07.Grain2
import MidnightZK.Proofs.C07.Grain3
/-! C07: the constants of `constants/blstrs.rs` are the output of the documented Grain generation. -/
namespace MidnightZK.C07.Grain

theorem checkElems_append (p n : Nat) : ∀ (l1 l2 : List Nat) (s : Nat),
    checkElems p n (l1 ++ l2) s = (checkElems p n l1 s).bind (checkElems p n l2)
  | [], l2, s => by simp [checkElems]
  | e :: l1, l2, s => by
    simp only [List.cons_append, checkElems]
    cases h : elem p n 64 s with
    | none => simp
    | some vs =>
      obtain ⟨v, s'⟩ := vs
      simp only
      split
      · exact checkElems_append p n l1 l2 s'
      · simp

theorem state_chain :
    state0 = discard 160 (initState 1 0 255 Gen.width Gen.nbFull Gen.nbPartial) ∧ state0' = state1 ∧
    state1' = state2 ∧ state2' = state3 := by decide +kernel

theorem rc_split : Gen.roundConstants.flatten =
    ((Gen.roundConstants.drop 0).take 17).flatten ++ (((Gen.roundConstants.drop 17).take 17).flatten ++
    (((Gen.roundConstants.drop 34).take 17).flatten ++ ((Gen.roundConstants.drop 51).take 17).flatten)) := by
  decide +kernel

/-- All round constants, in order, are the successive field elements of the Grain stream. -/
theorem roundConstants_ok :
    checkElems Gen.p 255 Gen.roundConstants.flatten
      (discard 160 (initState 1 0 255 Gen.width Gen.nbFull Gen.nbPartial)) = some state3' := by
  rw [rc_split, ← state_chain.1, checkElems_append, chunk0_ok, Option.bind_some,
    state_chain.2.1, checkElems_append, chunk1_ok, Option.bind_some,
    state_chain.2.2.1, checkElems_append, chunk2_ok, Option.bind_some,
    state_chain.2.2.2, chunk3_ok]

/-- The MDS matrix is the Cauchy matrix of the next `2t` (pairwise distinct) elements of the stream. -/
theorem mds_ok : mdsCheck Gen.p 255 Gen.width Gen.mds state3' = true := by
  decide +kernel

theorem check_ok : check Gen.p 255 Gen.width Gen.nbFull Gen.nbPartial Gen.roundConstants Gen.mds = true := by
  unfold check
  rw [roundConstants_ok]
  exact mds_ok

end MidnightZK.C07.Grain
