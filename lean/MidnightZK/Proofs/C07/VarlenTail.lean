import MidnightZK.Proofs.C07.Varlen
import MidnightZK.Model.C07.PoseidonVarlen
/-! C07: `poseidon_varlen` for EVERY rate: the loop of `constrain_last_chunk` is the closed form used by
`varlenStep`, and the digest only depends on the buffer cells that hold the payload (neither on the
filler in front of it nor on the unused tail of the last chunk). -/
namespace MidnightZK.C07

section clc
variable {F : Type} [Zero F]

theorem clcAux_getD (offset : Nat) : ∀ (t : List F) (i : Nat) (after : Bool) (j : Nat), 1 ≤ i →
    (after = true ↔ (1 ≤ offset ∧ offset < i)) →
    (clcAux offset i after t).getD j 0 = if 1 ≤ offset ∧ offset ≤ i + j then 0 else t.getD j 0
  | [], i, after, j, _, _ => by
    simp only [clcAux, List.getD_nil]
    split <;> rfl
  | x :: t, i, after, j, hi, ha => by
    have ha' : (xor (decide (offset = i)) after = true ↔ (1 ≤ offset ∧ offset < i + 1)) := by
      by_cases he : offset = i
      · have hf : after = false := by
          cases hafter : after
          · rfl
          · exact absurd (ha.mp hafter).2 (by omega)
        subst hf
        simp [he]
        omega
      · simp only [he, decide_false, Bool.false_xor]
        rw [ha]
        constructor
        · intro h; omega
        · intro h; omega
    cases j with
    | zero =>
      simp only [clcAux, List.getD_cons_zero, Nat.add_zero]
      by_cases hc : 1 ≤ offset ∧ offset ≤ i
      · rw [if_pos hc, if_pos (ha'.mpr (by omega))]
      · rw [if_neg hc]
        have : ¬ (xor (decide (offset = i)) after = true) := fun h => hc (by have := ha'.mp h; omega)
        rw [if_neg this]
    | succ j =>
      simp only [clcAux, List.getD_cons_succ]
      rw [clcAux_getD offset t (i + 1) _ j (by omega) ha']
      have e : i + 1 + j = i + (j + 1) := by omega
      rw [e]

/-- **`constrain_last_chunk` = closed form.** For every chunk (any `RATE`) and every offset the loop of
`constrain_last_chunk` returns the chunk with the cells `j ≥ offset` zeroed when `offset ≠ 0`, and the chunk
itself when `offset = 0` — the form `varlenStep` uses. -/
theorem constrainLastChunk_getD (chunk : List F) (offset j : Nat) :
    (constrainLastChunk chunk offset).getD j 0
      = if offset ≠ 0 ∧ offset ≤ j then 0 else chunk.getD j 0 := by
  cases chunk with
  | nil =>
    simp only [constrainLastChunk, List.getD_nil]
    split <;> rfl
  | cons x t =>
    cases j with
    | zero =>
      simp only [constrainLastChunk, List.getD_cons_zero]
      have : ¬ (offset ≠ 0 ∧ offset ≤ 0) := by omega
      rw [if_neg this]
    | succ j =>
      simp only [constrainLastChunk, List.getD_cons_succ]
      rw [clcAux_getD offset t 1 false j (by omega) ⟨fun h => (by cases h), fun h => (by omega)⟩]
      by_cases h : 1 ≤ offset ∧ offset ≤ 1 + j
      · rw [if_pos h, if_pos (by omega)]
      · rw [if_neg h, if_neg (by omega)]

end clc

section tail
variable {F : Type} [CommRing F]

/-- The rounded length of `poseidon_varlen` is the payload length plus the final padding of `get_lims`. -/
theorem roundedLen_eq (rate len : Nat) (hr : 0 < rate) :
    (if len % rate = 0 then len - len % rate else len - len % rate + rate) = len + (rate - len % rate) % rate := by
  have hm := Nat.mod_lt len hr
  have hle := Nat.mod_le len rate
  split
  · rename_i h
    simp [h]
  · rename_i h
    rw [Nat.mod_eq_of_lt (a := rate - len % rate) (b := rate) (by omega)]
    omega

/-- One step of the chunk loop gives the same result on two buffers that agree on the payload cells,
as long as the `updating` flag can only be on from the first payload chunk on. -/
theorem varlenStep_congr (P : PParams F) (perm : List F → List F) (maxLen len : Nat) (b1 b2 : List F)
    (hr : 0 < P.rate) (hm : maxLen % P.rate = 0) (hlen : len ≤ maxLen)
    (hagree : ∀ i, (getLims maxLen P.rate len).1 ≤ i → i < (getLims maxLen P.rate len).2 →
      b1.getD i 0 = b2.getD i 0)
    (reg : List F) (u : Bool) (i : Nat) (hi : i < maxLen / P.rate)
    (hu : u = true → maxLen - (len + (P.rate - len % P.rate) % P.rate) ≤ i * P.rate) :
    varlenStep P perm maxLen b1 len (reg, u) i = varlenStep P perm maxLen b2 len (reg, u) i ∧
    ((varlenStep P perm maxLen b1 len (reg, u) i).2 = true →
      maxLen - (len + (P.rate - len % P.rate) % P.rate) ≤ (i + 1) * P.rate) := by
  set rate := P.rate with hrate
  set fp := (rate - len % rate) % rate with hfp
  have hrl := roundedLen_eq rate len hr
  have hmod := Nat.mod_lt len hr
  have hfp_lt : fp < rate := Nat.mod_lt _ hr
  have hfp_eq : fp = if len % rate = 0 then 0 else rate - len % rate := by
    rw [hfp]
    split
    · rename_i h; simp [h]
    · rename_i h; exact Nat.mod_eq_of_lt (a := rate - len % rate) (b := rate) (by omega)
  -- maxLen = (maxLen / rate) * rate
  have hML : maxLen = maxLen / rate * rate := by
    have := Nat.div_add_mod maxLen rate
    rw [hm, Nat.add_zero, Nat.mul_comm] at this
    exact this.symm
  have hsucc : (i + 1) * rate = i * rate + rate := Nat.succ_mul i rate
  have hile : (i + 1) * rate ≤ maxLen / rate * rate := Nat.mul_le_mul_right rate hi
  -- the rounded length does not exceed the buffer
  have hround : len + fp ≤ maxLen := by
    -- len + fp is the least multiple of rate ≥ len; maxLen is a multiple of rate ≥ len
    by_cases h0 : len % rate = 0
    · rw [hfp_eq, if_pos h0]; omega
    · rw [hfp_eq, if_neg h0]
      have hl : len = rate * (len / rate) + len % rate := (Nat.div_add_mod len rate).symm
      have hq : len / rate < maxLen / rate := by
        rw [Nat.div_lt_iff_lt_mul hr]
        by_contra hc
        have : maxLen / rate * rate ≤ len := by omega
        have hEq : len = maxLen := by omega
        rw [hEq] at h0
        exact h0 hm
      have : (len / rate + 1) * rate ≤ maxLen / rate * rate := Nat.mul_le_mul_right rate hq
      rw [Nat.succ_mul, Nat.mul_comm] at this
      omega
  unfold varlenStep
  simp only [← hrate, hrl]
  set upd := xor (decide (len + fp = maxLen - i * rate)) u with hupd
  have hupd_inv : upd = true → maxLen - (len + fp) ≤ i * rate := by
    intro h
    by_cases hb : len + fp = maxLen - i * rate
    · omega
    · have : upd = u := by simp [hupd, hb]
      exact hu (this ▸ h)
  refine ⟨?_, ?_⟩
  · by_cases hup : upd = true
    · -- the chunk handed to `cond_update` is the same for both buffers
      have hlo := hupd_inv hup
      have hchunk : ∀ (b : List F), True := fun _ => trivial
      have hcell : ∀ j, j < rate → ¬ (i + 1 = maxLen / rate ∧ len % rate ≠ 0 ∧ len % rate ≤ j) →
          b1.getD (i * rate + j) 0 = b2.getD (i * rate + j) 0 := by
        intro j hj hnz
        apply hagree
        · show maxLen - len - fp ≤ i * rate + j
          omega
        · show i * rate + j < maxLen - fp
          by_cases hlast : i + 1 = maxLen / rate
          · -- last chunk: cell below the payload end
            have hcase : ¬ (len % rate ≠ 0 ∧ len % rate ≤ j) := fun h => hnz ⟨hlast, h.1, h.2⟩
            rw [← hlast] at hML
            by_cases h0 : len % rate = 0
            · rw [hfp_eq, if_pos h0]; omega
            · rw [hfp_eq, if_neg h0]
              have : j < len % rate := by omega
              omega
          · have : i + 2 ≤ maxLen / rate := by omega
            have h2 : (i + 2) * rate ≤ maxLen / rate * rate := Nat.mul_le_mul_right rate this
            have e2 : (i + 2) * rate = i * rate + rate + rate := by rw [Nat.add_mul, Nat.two_mul]; omega
            omega
      simp only [hup, if_true]
      congr 1
      congr 1
      apply List.map_congr_left
      intro j hj
      by_cases hjr : j < rate
      · simp only [hjr, if_true]
        congr 1
        by_cases hlast : i + 1 = maxLen / rate
        · simp only [hlast, if_true, getD_vec _ _ _ _ hjr]
          by_cases hz : len % rate ≠ 0 ∧ len % rate ≤ j
          · rw [if_pos hz, if_pos hz]
          · rw [if_neg hz, if_neg hz]
            exact hcell j hjr (fun h => hz ⟨h.2.1, h.2.2⟩)
        · simp only [hlast, if_false, getD_vec _ _ _ _ hjr]
          exact hcell j hjr (fun h => hlast h.1)
      · simp only [hjr, if_false]
    · have : upd = false := Bool.eq_false_iff.mpr hup
      simp only [this, Bool.false_eq_true, if_false]
  · intro h
    have h' : upd = true := h
    have := hupd_inv h'
    omega

/-- The chunk loop from chunk `s` on gives the same state on two buffers that agree on the payload cells. -/
theorem varlen_fold_congr (P : PParams F) (perm : List F → List F) (maxLen len : Nat) (b1 b2 : List F)
    (hr : 0 < P.rate) (hm : maxLen % P.rate = 0) (hlen : len ≤ maxLen)
    (hagree : ∀ i, (getLims maxLen P.rate len).1 ≤ i → i < (getLims maxLen P.rate len).2 →
      b1.getD i 0 = b2.getD i 0) :
    ∀ (m s : Nat) (reg : List F) (u : Bool), s + m ≤ maxLen / P.rate →
      (u = true → maxLen - (len + (P.rate - len % P.rate) % P.rate) ≤ s * P.rate) →
      (List.range' s m).foldl (varlenStep P perm maxLen b1 len) (reg, u)
        = (List.range' s m).foldl (varlenStep P perm maxLen b2 len) (reg, u) := by
  intro m
  induction m with
  | zero => intro s reg u _ _; rfl
  | succ m ih =>
    intro s reg u hs hu
    rw [foldl_range', foldl_range']
    obtain ⟨heq, hinv⟩ := varlenStep_congr P perm maxLen len b1 b2 hr hm hlen hagree reg u s (by omega) hu
    rw [heq] at hinv ⊢
    generalize varlenStep P perm maxLen b2 len (reg, u) s = st at hinv ⊢
    obtain ⟨reg', u'⟩ := st
    exact ih (s + 1) reg' u' (by omega) hinv

/-- Number of chunks of the loop when `RATE` divides `MAX_LEN`. -/
theorem nChunks_eq (maxLen rate : Nat) (hr : 0 < rate) (hm : maxLen % rate = 0) :
    (maxLen + rate - 1) / rate = maxLen / rate := by
  have hML : maxLen = maxLen / rate * rate := by
    have := Nat.div_add_mod maxLen rate
    rw [hm, Nat.add_zero, Nat.mul_comm] at this
    exact this.symm
  apply Nat.div_eq_of_lt_le
  · omega
  · rw [Nat.succ_mul]; omega

/-- The model with the literal `constrain_last_chunk` loop is the model with the closed form. -/
theorem varlenStepLoop_eq (P : PParams F) (perm : List F → List F) (maxLen : Nat) (buffer : List F) (len : Nat)
    (s : List F × Bool) (i : Nat) :
    varlenStepLoop P perm maxLen buffer len s i = varlenStep P perm maxLen buffer len s i := by
  unfold varlenStepLoop varlenStep
  simp only
  congr 2
  congr 1
  apply List.map_congr_left
  intro j hj
  by_cases hjr : j < P.rate
  · simp only [hjr, if_true]
    congr 1
    by_cases hlast : i + 1 = maxLen / P.rate
    · simp only [hlast, if_true]
      rw [constrainLastChunk_getD]
      simp only [getD_vec _ _ _ _ hjr]
    · simp only [hlast, if_false]
  · simp only [hjr, if_false]

theorem varlenLoop_eq (P : PParams F) (ofNat : Nat → F) (perm : List F → List F) (maxLen : Nat)
    (buffer : List F) (len : Nat) :
    varlenLoop P ofNat perm maxLen buffer len = varlen P ofNat perm maxLen buffer len := by
  unfold varlenLoop varlen
  have : varlenStepLoop P perm maxLen buffer len = varlenStep P perm maxLen buffer len := by
    funext s i; exact varlenStepLoop_eq P perm maxLen buffer len s i
  rw [this]

end tail

end MidnightZK.C07
