import MidnightZK.Model.C07.Grain
import MidnightZK.Gen.C07Poseidon
/-! C07: kernel evaluation of the Grain generation, round-constant rows 34..50
(split in four modules so that lake checks them in parallel). -/
namespace MidnightZK.C07.Grain

/-- LFSR state before row 34 and after row 50 (witnesses, checked by the theorem). -/
def state2 : Nat := 419620498034427714567160
def state2' : Nat := 1167368819559288849972604

theorem chunk2_ok :
    checkElems Gen.p 255 ((Gen.roundConstants.drop 34).take 17).flatten state2 = some state2' := by
  decide +kernel

end MidnightZK.C07.Grain
