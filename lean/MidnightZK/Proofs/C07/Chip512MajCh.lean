import MidnightZK.Proofs.C07.Chip512Base
/-! C07: soundness of `maj` and `ch` of the SHA-512 chip. -/
namespace MidnightZK.C07.Chip512
open MidnightZK.C07 MidnightZK.C07.Chip

variable {p : Nat} {a : Asg} {k : Nat}

/-- `fn maj`: the returned cell holds `Maj(x, y, z)`. -/
theorem maj_sound (hp : 2 ^ 130 ≤ p) (ha : ∀ c, a c < p) {sA sB sC : Src} {x y z : Nat}
    (hS : Sat p Gen.sha512Gates a k (maj k sA sB sC).1)
    (hA : IsSpr a sA x) (hB : IsSpr a sB y) (hC : IsSpr a sC z) :
    IsPlain a (maj k sA sB sC).2 (C07.maj x y z) := by
  obtain ⟨v, hu, hv, su, sv⟩ := sprdd_block (off := 0) hp ha hS (by region_simp512) (by region_simp512)
    (by region_simp512) (by region_simp512) (by region_simp512) (by region_simp512) (by region_simp512)
    (by region_simp512) (by region_simp512) (by region_simp512) (by region_simp512) (by region_simp512)
    (by region_simp512) (by region_simp512) (by region_simp512) (by region_simp512)
  have cA := hS.copy' (src := sA) (col := 5) (off := 0) (by region_simp512)
  have cB := hS.copy' (src := sB) (col := 6) (off := 0) (by region_simp512)
  have cC := hS.copy' (src := sC) (col := 5) (off := 1) (by region_simp512)
  have g := hS.gate' (s := .maj) (o := 1) (e := Gen.gate512_maj.getD 0 default) (by region_simp512)
    (by simp [Gen.sha512Gates, Gen.gate512_maj])
  rw [hA.1] at cA; rw [hB.1] at cB; rw [hC.1] at cC
  simp only [Nat.zero_add] at su sv
  have bx := spread64_lt x
  have by' := spread64_lt y
  have bz := spread64_lt z
  have bu := spread64_lt (a (.reg k 0 4))
  have bv := spread64_lt v
  have hsum : a (.reg k 0 5) + a (.reg k 0 6) + a (.reg k 1 5)
      = (4 ^ 51 * a (.reg k 0 3) + 4 ^ 38 * a (.reg k 1 3) + 4 ^ 25 * a (.reg k 2 3) + 4 ^ 12 * a (.reg k 3 3)
          + a (.reg k 4 3))
        + 2 * (4 ^ 51 * a (.reg k 0 1) + 4 ^ 38 * a (.reg k 1 1) + 4 ^ 25 * a (.reg k 2 1) + 4 ^ 12 * a (.reg k 3 1)
          + a (.reg k 4 1)) := by
    refine exact_of_mod g ?_ (by rw [cA, cB, cC]; omega) (by rw [su, sv]; omega)
    simp [Gen.gate512_maj, Expr.eval]
    ring
  rw [cA, cB, cC, su, sv] at hsum
  have := spread_sum_even_odd 64 x y z v (a (.reg k 0 4)) hA.2 hB.2 hC.2 hv hu hsum
  refine ⟨?_, ?_⟩
  · show get a (.reg k 0 4) = _
    rw [get_reg, this.2]
  · rw [← this.2]; exact hu

theorem mask_eq : maskEvn128 = spreadFuel 64 (2 ^ 64 - 1) := by decide +kernel

/-! Projections of the region builders (so that `simp` never unfolds a whole region: the nested structure
updates make that exponential for the two-block `Ch` region). -/
section proj
variable (r : Region) (s : Sel) (src : Src) (c o L li : Nat)
theorem sels_enable : (r.enable s o).sels = r.sels ++ [(s, o)] := rfl
theorem tags_enable : (r.enable s o).tags = r.tags := rfl
theorem copies_enable : (r.enable s o).copies = r.copies := rfl
theorem sels_assignAdvice : (r.assignAdvice c o).sels = r.sels := rfl
theorem tags_assignAdvice : (r.assignAdvice c o).tags = r.tags := rfl
theorem copies_assignAdvice : (r.assignAdvice c o).copies = r.copies := rfl
theorem sels_copyAdvice : (r.copyAdvice src c o).sels = r.sels := rfl
theorem tags_copyAdvice : (r.copyAdvice src c o).tags = r.tags := rfl
theorem copies_copyAdvice : (r.copyAdvice src c o).copies = r.copies ++ [(src, c, o)] := rfl
theorem sels_sprdd_true (off : Nat) : (sprdd13x4_12 true off r).sels = r.sels ++
    [(.d11, off + 1), (.lookup, off), (.lookup, off + 1), (.lookup, off + 2), (.lookup, off + 3), (.lookup, off + 4), (.lookup, off), (.lookup, off + 1), (.lookup, off + 2), (.lookup, off + 3), (.lookup, off + 4)] := by
  simp [sprdd13x4_12, Region.aps, Region.enable, Region.assignTag, Region.assignAdvice]
theorem tags_sprdd_true (off : Nat) : (sprdd13x4_12 true off r).tags = r.tags ++
    [(1, off, 13), (1, off + 1, 13), (1, off + 2, 13), (1, off + 3, 13), (1, off + 4, 12), (0, off, 13), (0, off + 1, 13), (0, off + 2, 13), (0, off + 3, 13), (0, off + 4, 12)] := by
  simp [sprdd13x4_12, Region.aps, Region.enable, Region.assignTag, Region.assignAdvice]
theorem copies_sprdd (odd : Bool) (off : Nat) : (sprdd13x4_12 odd off r).copies = r.copies := by
  simp [sprdd13x4_12, Region.aps, Region.enable, Region.assignTag, Region.assignAdvice]
end proj

theorem ch_sels (k : Nat) (sE sF sG : Src) : (ch k sE sF sG).1.sels =
    [(.halfch, 1), (.halfch, 6), (.d11, 1), (.lookup, 0), (.lookup, 1), (.lookup, 2), (.lookup, 3), (.lookup, 4), (.lookup, 0), (.lookup, 1), (.lookup, 2), (.lookup, 3), (.lookup, 4), (.d11, 6), (.lookup, 5), (.lookup, 6), (.lookup, 7), (.lookup, 8), (.lookup, 9), (.lookup, 5), (.lookup, 6), (.lookup, 7), (.lookup, 8), (.lookup, 9)] := by
  simp only [ch, sels_enable, sels_assignAdvice, sels_copyAdvice, sels_sprdd_true]
  rfl

theorem ch_tags (k : Nat) (sE sF sG : Src) : (ch k sE sF sG).1.tags =
    [(1, 0, 13), (1, 1, 13), (1, 2, 13), (1, 3, 13), (1, 4, 12), (0, 0, 13), (0, 1, 13), (0, 2, 13), (0, 3, 13), (0, 4, 12), (1, 5, 13), (1, 6, 13), (1, 7, 13), (1, 8, 13), (1, 9, 12), (0, 5, 13), (0, 6, 13), (0, 7, 13), (0, 8, 13), (0, 9, 12)] := by
  simp only [ch, tags_enable, tags_assignAdvice, tags_copyAdvice, tags_sprdd_true]
  rfl

theorem ch_copies (k : Nat) (sE sF sG : Src) : (ch k sE sF sG).1.copies =
    [(sE, 5, 0), (sE, 4, 6), (sF, 6, 0), (sG, 6, 5), (.reg k 5 5, 5, 6), (.const maskEvn128, 6, 6), (.reg k 0 4, 4, 1),
      (.reg k 5 4, 5, 1)] := by
  simp only [ch, copies_enable, copies_assignAdvice, copies_copyAdvice, copies_sprdd]
  rfl

/-- Facts about the `ch` region from its explicit lists (unfolding the builder once). -/
macro "ch_simp" : tactic => `(tactic| simp [ch_sels, ch_tags, ch_copies, tagAt])

/-- `fn ch`: the returned cell holds `Ch(x, y, z)`. The prover-chosen cell `~(¬E)` is forced to be the
spread of the complement by `~E + ~(¬E) = MASK_EVN_128`. -/
theorem ch_sound (hp : 2 ^ 130 ≤ p) (ha : ∀ c, a c < p) {sE sF sG : Src} {x y z : Nat}
    (hS : Sat p Gen.sha512Gates a k (ch k sE sF sG).1)
    (hE : IsSpr a sE x) (hF : IsSpr a sF y) (hG : IsSpr a sG z) :
    IsPlain a (ch k sE sF sG).2 (C07.ch 64 x y z) := by
  obtain ⟨v0, hu0, hv0, su0, sv0⟩ := sprdd_block (off := 0) hp ha hS (by ch_simp) (by ch_simp)
    (by ch_simp) (by ch_simp) (by ch_simp) (by ch_simp) (by ch_simp)
    (by ch_simp) (by ch_simp) (by ch_simp) (by ch_simp) (by ch_simp)
    (by ch_simp) (by ch_simp) (by ch_simp) (by ch_simp)
  obtain ⟨v5, hu5, hv5, su5, sv5⟩ := sprdd_block (off := 5) hp ha hS (by ch_simp) (by ch_simp)
    (by ch_simp) (by ch_simp) (by ch_simp) (by ch_simp) (by ch_simp)
    (by ch_simp) (by ch_simp) (by ch_simp) (by ch_simp) (by ch_simp)
    (by ch_simp) (by ch_simp) (by ch_simp) (by ch_simp)
  have cE0 := hS.copy' (src := sE) (col := 5) (off := 0) (by ch_simp)
  have cE6 := hS.copy' (src := sE) (col := 4) (off := 6) (by ch_simp)
  have cF := hS.copy' (src := sF) (col := 6) (off := 0) (by ch_simp)
  have cG := hS.copy' (src := sG) (col := 6) (off := 5) (by ch_simp)
  have cN := hS.copy' (src := .reg k 5 5) (col := 5) (off := 6) (by ch_simp)
  have cM := hS.copy' (src := .const maskEvn128) (col := 6) (off := 6) (by ch_simp)
  have cO0 := hS.copy' (src := .reg k 0 4) (col := 4) (off := 1) (by ch_simp)
  have cO5 := hS.copy' (src := .reg k 5 4) (col := 5) (off := 1) (by ch_simp)
  have g10 := hS.gate' (s := .halfch) (o := 1) (e := Gen.gate512_halfch.getD 0 default) (by ch_simp)
    (by simp [Gen.sha512Gates, Gen.gate512_halfch])
  have g11 := hS.gate' (s := .halfch) (o := 1) (e := Gen.gate512_halfch.getD 1 default) (by ch_simp)
    (by simp [Gen.sha512Gates, Gen.gate512_halfch])
  have g60 := hS.gate' (s := .halfch) (o := 6) (e := Gen.gate512_halfch.getD 0 default) (by ch_simp)
    (by simp [Gen.sha512Gates, Gen.gate512_halfch])
  have g61 := hS.gate' (s := .halfch) (o := 6) (e := Gen.gate512_halfch.getD 1 default) (by ch_simp)
    (by simp [Gen.sha512Gates, Gen.gate512_halfch])
  rw [hE.1] at cE0 cE6; rw [hF.1] at cF; rw [hG.1] at cG
  simp only [get_reg, get_const] at cN cM cO0 cO5
  simp only [Nat.zero_add, Nat.reduceAdd] at su0 sv0 su5 sv5
  have hx := hE.2
  have bx := spread64_lt x
  have by' := spread64_lt y
  have bz := spread64_lt z
  have bu0 := spread64_lt (a (.reg k 0 4))
  have bv0 := spread64_lt v0
  have bu5 := spread64_lt (a (.reg k 5 4))
  have bv5 := spread64_lt v5
  have hnot := spread_not 64 x hx
  have bn := spread64_lt (2 ^ 64 - 1 - x)
  have bm := spread64_lt (2 ^ 64 - 1)
  -- ~E + ~(¬E) = MASK_EVN_128
  have hneg : a (.reg k 6 4) + a (.reg k 6 5) = a (.reg k 6 6) := by
    refine exact_of_mod_add g61 ?_ (by rw [cE6, cM, mask_eq]; omega) (by rw [cM, mask_eq]; omega) (ha _)
    simp [Gen.gate512_halfch, Expr.eval]
    ring
  rw [cE6, cN, cM, mask_eq] at hneg
  have hnE : a (.reg k 5 5) = spreadFuel 64 (notW 64 x) := by unfold notW; omega
  have hnlt : notW 64 x < 2 ^ 64 := by unfold notW; omega
  -- first half: ~E + ~F
  have h1 : a (.reg k 0 5) + a (.reg k 0 6)
      = (4 ^ 51 * a (.reg k 0 3) + 4 ^ 38 * a (.reg k 1 3) + 4 ^ 25 * a (.reg k 2 3) + 4 ^ 12 * a (.reg k 3 3)
          + a (.reg k 4 3))
        + 2 * (4 ^ 51 * a (.reg k 0 1) + 4 ^ 38 * a (.reg k 1 1) + 4 ^ 25 * a (.reg k 2 1) + 4 ^ 12 * a (.reg k 3 1)
          + a (.reg k 4 1)) := by
    refine exact_of_mod g10 ?_ (by rw [cE0, cF]; omega) (by rw [su0, sv0]; omega)
    simp [Gen.gate512_halfch, Expr.eval]
    ring
  rw [cE0, cF, su0, sv0] at h1
  have e1 := spread_sum_even_odd2 64 x y v0 (a (.reg k 0 4)) hx hF.2 hv0 hu0 h1
  -- second half: ~(¬E) + ~G
  have h2 : a (.reg k 5 5) + a (.reg k 5 6)
      = (4 ^ 51 * a (.reg k 5 3) + 4 ^ 38 * a (.reg k 6 3) + 4 ^ 25 * a (.reg k 7 3) + 4 ^ 12 * a (.reg k 8 3)
          + a (.reg k 9 3))
        + 2 * (4 ^ 51 * a (.reg k 5 1) + 4 ^ 38 * a (.reg k 6 1) + 4 ^ 25 * a (.reg k 7 1) + 4 ^ 12 * a (.reg k 8 1)
          + a (.reg k 9 1)) := by
    have bn' := spread64_lt (notW 64 x)
    refine exact_of_mod g60 ?_ (by rw [hnE, cG]; omega) (by rw [su5, sv5]; omega)
    simp [Gen.gate512_halfch, Expr.eval]
    ring
  rw [hnE, cG, su5, sv5] at h2
  have e2 := spread_sum_even_odd2 64 (notW 64 x) z v5 (a (.reg k 5 4)) hnlt hG.2 hv5 hu5 h2
  -- Ret = Odd_EF + Odd_nEG
  have h3 : a (.reg k 1 4) + a (.reg k 1 5) = a (.reg k 1 6) := by
    refine exact_of_mod g11 ?_ (by rw [cO0, cO5]; omega) (ha _)
    simp [Gen.gate512_halfch, Expr.eval]
    ring
  rw [cO0, cO5, e1.2, e2.2] at h3
  have hch := ch_via_spread 64 x y z hx
  refine ⟨?_, ?_⟩
  · show get a (.reg k 1 6) = _
    rw [get_reg, hch, h3]
  · unfold C07.ch
    exact Nat.xor_lt_two_pow (Nat.and_lt_two_pow _ hF.2) (Nat.and_lt_two_pow _ hG.2)

end MidnightZK.C07.Chip512
