import MidnightZK.Proofs.C07.Spread
import MidnightZK.Gen.C07Sha
/-! C07: SHA-2 padding facts, the rotation tables of the Σ gates, the origin of the constants. -/
namespace MidnightZK.C07

@[simp] theorem length_beBytes : ∀ (n v : Nat), (beBytes n v).length = n
  | 0, _ => rfl
  | n + 1, v => by simp [beBytes, length_beBytes n]

theorem beBytes_inj : ∀ (n v w : Nat), beBytes n v = beBytes n w → v % 256 ^ n = w % 256 ^ n
  | 0, _, _, _ => by simp [Nat.mod_one]
  | n + 1, v, w, h => by
    simp only [beBytes] at h
    have hl : [v % 256].length = [w % 256].length := rfl
    obtain ⟨h1, h2⟩ := List.append_inj' h hl
    have ih := beBytes_inj n _ _ h1
    have h3 : v % 256 = w % 256 := by simpa using h2
    rw [pow_succ, Nat.mul_comm, Nat.mod_mul, Nat.mod_mul, ih, h3]

/-- Generic Merkle–Damgård padding with block size `b` and a big-endian length field of `L` bytes. -/
def padG (b L : Nat) (m : List Nat) : List Nat :=
  m ++ [0x80] ++ List.replicate ((b - (m.length + 1 + L) % b) % b) 0 ++ beBytes L (8 * m.length)

theorem sha256_pad_eq (k iv : List Nat) (m : List Nat) : (sha256P k iv).pad m = padG 64 8 m := by
  simp [Sha2.pad, padG, Sha2.blockBytes, Sha2.wordBytes, Sha2.lenBytes, sha256P]
theorem sha512_pad_eq (k iv : List Nat) (m : List Nat) : (sha512P k iv).pad m = padG 128 16 m := by
  simp [Sha2.pad, padG, Sha2.blockBytes, Sha2.wordBytes, Sha2.lenBytes, sha512P]

theorem padG_length (b L : Nat) (m : List Nat) :
    (padG b L m).length = m.length + 1 + (b - (m.length + 1 + L) % b) % b + L := by
  simp [padG]; omega

/-- If two messages of admissible length have the same padding they are equal. -/
theorem padG_injective (b L : Nat) (m m' : List Nat)
    (hm : 8 * m.length < 256 ^ L) (hm' : 8 * m'.length < 256 ^ L)
    (h : padG b L m = padG b L m') : m = m' := by
  unfold padG at h
  obtain ⟨h1, h2⟩ := List.append_inj' h (by simp)
  have hv := beBytes_inj L _ _ h2
  rw [Nat.mod_eq_of_lt hm, Nat.mod_eq_of_lt hm'] at hv
  have hlen : m.length = m'.length := by omega
  rw [List.append_assoc, List.append_assoc] at h1
  exact (List.append_inj h1 hlen).1

end MidnightZK.C07

namespace MidnightZK.C07

/-- Trial-division primality (no divisor in `[2, n)`). -/
def isPrimeB (n : Nat) : Bool := decide (2 ≤ n) && (List.range (n - 2)).all (fun d => n % (d + 2) != 0)

/-- The first `k` primes (all below 410 for `k ≤ 80`). -/
def firstPrimes (k : Nat) : List Nat := ((List.range 410).filter isPrimeB).take k

/-- Largest `a` with `a^e ≤ n` among `0..n`. -/
def iroot (e n : Nat) : Nat := ((List.range (n + 1)).filter (fun a => a ^ e ≤ n)).length - 1

/-- `c = ⌊2^bits · frac(p^(1/e))⌋` : with `a = ⌊p^(1/e)⌋`, `(a·2^bits + c)^e ≤ p·2^(e·bits) < (a·2^bits + c + 1)^e`. -/
def isFracRoot (e bits p c : Nat) : Bool :=
  let a := iroot e p
  let x := a * 2 ^ bits + c
  decide (c < 2 ^ bits) && decide (x ^ e ≤ p * 2 ^ (e * bits)) && decide (p * 2 ^ (e * bits) < (x + 1) ^ e)

/-- `c = ⌊2^bits · p^(1/e)⌋` (RIPEMD-160 constants). -/
def isScaledRoot (e bits p c : Nat) : Bool :=
  decide (c ^ e ≤ p * 2 ^ (e * bits)) && decide (p * 2 ^ (e * bits) < (c + 1) ^ e)

end MidnightZK.C07
