import MidnightZK.Proofs.C07.ChipRegions
/-! C07: soundness of `ch`, `prepare_A`, `prepare_E`, `prepare_message_word` of the SHA-256 chip. -/
namespace MidnightZK.C07.Chip
open MidnightZK.C07

variable {p : Nat} {a : Asg} {k : Nat}

theorem mask_eq : maskEvn64 = spreadFuel 32 (2 ^ 32 - 1) := by decide

/-! ## Ch -/

/-- `fn ch`: the returned cell holds `Ch(x, y, z)`. The prover-chosen cell `~(¬E)` is forced to be the
spread of the complement by `~E + ~(¬E) = MASK_EVN_64`. -/
theorem ch_sound (hp : 2 ^ 66 ≤ p) (ha : ∀ c, a c < p) {sE sF sG : Src} {x y z : Nat}
    (hS : Sat p Gen.shaGates a k (ch k sE sF sG).1)
    (hE : IsSpr a sE x) (hF : IsSpr a sF y) (hG : IsSpr a sG z) :
    IsPlain a (ch k sE sF sG).2 (C07.ch 32 x y z) := by
  obtain ⟨v0, hu0, hv0, su0, sv0⟩ := sprdd_block (off := 0) hp ha hS (by region_simp) (by region_simp)
    (by region_simp) (by region_simp) (by region_simp) (by region_simp) (by region_simp) (by region_simp)
    (by region_simp) (by region_simp)
  obtain ⟨v3, hu3, hv3, su3, sv3⟩ := sprdd_block (off := 3) hp ha hS (by region_simp) (by region_simp)
    (by region_simp) (by region_simp) (by region_simp) (by region_simp) (by region_simp) (by region_simp)
    (by region_simp) (by region_simp)
  have cE0 := hS.copy' (src := sE) (col := 5) (off := 0) (by region_simp)
  have cE4 := hS.copy' (src := sE) (col := 4) (off := 4) (by region_simp)
  have cF := hS.copy' (src := sF) (col := 6) (off := 0) (by region_simp)
  have cG := hS.copy' (src := sG) (col := 6) (off := 3) (by region_simp)
  have cN := hS.copy' (src := .reg k 3 5) (col := 5) (off := 4) (by region_simp)
  have cM := hS.copy' (src := .const maskEvn64) (col := 6) (off := 4) (by region_simp)
  have cO0 := hS.copy' (src := .reg k 0 4) (col := 4) (off := 1) (by region_simp)
  have cO3 := hS.copy' (src := .reg k 3 4) (col := 5) (off := 1) (by region_simp)
  have g10 := hS.gate' (s := .halfch) (o := 1) (e := Gen.gate_halfch.getD 0 default) (by region_simp)
    (by simp [Gen.shaGates, Gen.gate_halfch])
  have g11 := hS.gate' (s := .halfch) (o := 1) (e := Gen.gate_halfch.getD 1 default) (by region_simp)
    (by simp [Gen.shaGates, Gen.gate_halfch])
  have g40 := hS.gate' (s := .halfch) (o := 4) (e := Gen.gate_halfch.getD 0 default) (by region_simp)
    (by simp [Gen.shaGates, Gen.gate_halfch])
  have g41 := hS.gate' (s := .halfch) (o := 4) (e := Gen.gate_halfch.getD 1 default) (by region_simp)
    (by simp [Gen.shaGates, Gen.gate_halfch])
  rw [hE.1] at cE0 cE4; rw [hF.1] at cF; rw [hG.1] at cG
  simp only [get_reg, get_const] at cN cM cO0 cO3
  simp only [Nat.zero_add, Nat.reduceAdd] at su0 sv0 su3 sv3
  have hx := hE.2
  have bx := spread32_lt x
  have by' := spread32_lt y
  have bz := spread32_lt z
  have bu0 := spread32_lt (a (.reg k 0 4))
  have bv0 := spread32_lt v0
  have bu3 := spread32_lt (a (.reg k 3 4))
  have bv3 := spread32_lt v3
  have hnot := spread_not 32 x hx
  have bn := spread32_lt (2 ^ 32 - 1 - x)
  have bm := spread32_lt (2 ^ 32 - 1)
  -- ~E + ~(¬E) = MASK_EVN_64
  have hneg : a (.reg k 4 4) + a (.reg k 4 5) = a (.reg k 4 6) := by
    refine exact_of_mod_add g41 ?_ (by rw [cE4, cM, mask_eq]; omega) (by rw [cM, mask_eq]; omega) (ha _)
    simp [Gen.gate_halfch, Expr.eval]
    ring
  rw [cE4, cN, cM, mask_eq] at hneg
  have hnE : a (.reg k 3 5) = spreadFuel 32 (notW 32 x) := by unfold notW; omega
  have hnlt : notW 32 x < 2 ^ 32 := by unfold notW; omega
  -- first half: ~E + ~F
  have h1 : a (.reg k 0 5) + a (.reg k 0 6)
      = (4 ^ 21 * a (.reg k 0 3) + 4 ^ 10 * a (.reg k 1 3) + a (.reg k 2 3))
        + 2 * (4 ^ 21 * a (.reg k 0 1) + 4 ^ 10 * a (.reg k 1 1) + a (.reg k 2 1)) := by
    refine exact_of_mod g10 ?_ (by rw [cE0, cF]; omega) (by rw [su0, sv0]; omega)
    simp [Gen.gate_halfch, Expr.eval]
    ring
  rw [cE0, cF, su0, sv0] at h1
  have e1 := spread_sum_even_odd2 32 x y v0 (a (.reg k 0 4)) hx hF.2 hv0 hu0 h1
  -- second half: ~(¬E) + ~G
  have h2 : a (.reg k 3 5) + a (.reg k 3 6)
      = (4 ^ 21 * a (.reg k 3 3) + 4 ^ 10 * a (.reg k 4 3) + a (.reg k 5 3))
        + 2 * (4 ^ 21 * a (.reg k 3 1) + 4 ^ 10 * a (.reg k 4 1) + a (.reg k 5 1)) := by
    have bn' := spread32_lt (notW 32 x)
    refine exact_of_mod g40 ?_ (by rw [hnE, cG]; omega) (by rw [su3, sv3]; omega)
    simp [Gen.gate_halfch, Expr.eval]
    ring
  rw [hnE, cG, su3, sv3] at h2
  have e2 := spread_sum_even_odd2 32 (notW 32 x) z v3 (a (.reg k 3 4)) hnlt hG.2 hv3 hu3 h2
  -- Ret = Odd_EF + Odd_nEG
  have h3 : a (.reg k 1 4) + a (.reg k 1 5) = a (.reg k 1 6) := by
    refine exact_of_mod g11 ?_ (by rw [cO0, cO3]; omega) (ha _)
    simp [Gen.gate_halfch, Expr.eval]
    ring
  rw [cO0, cO3, e1.2, e2.2] at h3
  have hch := ch_via_spread 32 x y z hx
  refine ⟨?_, ?_⟩
  · show get a (.reg k 1 6) = _
    rw [get_reg, hch, h3]
  · unfold C07.ch
    exact Nat.xor_lt_two_pow (Nat.and_lt_two_pow _ hF.2) (Nat.and_lt_two_pow _ hG.2)

end MidnightZK.C07.Chip
