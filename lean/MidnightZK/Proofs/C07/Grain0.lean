import MidnightZK.Model.C07.Grain
import MidnightZK.Gen.C07Poseidon
/-! C07: kernel evaluation of the Grain generation, round-constant rows 0..16
(split in four modules so that lake checks them in parallel). -/
namespace MidnightZK.C07.Grain

/-- LFSR state before row 0 and after row 16 (witnesses, checked by the theorem). -/
def state0 : Nat := 320248939848869786617946
def state0' : Nat := 551121791549176175248063

theorem chunk0_ok :
    checkElems Gen.p 255 ((Gen.roundConstants.drop 0).take 17).flatten state0 = some state0' := by
  decide +kernel

end MidnightZK.C07.Grain
