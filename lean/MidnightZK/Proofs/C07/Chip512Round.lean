import MidnightZK.Proofs.C07.Chip512Sigma
import MidnightZK.Proofs.C07.Chip512SmallSigma0
import MidnightZK.Proofs.C07.Chip512SmallSigma1
import MidnightZK.Proofs.C07.Chip512MajCh
import MidnightZK.Proofs.C07.Chip512PrepAE
import MidnightZK.Proofs.C07.Chip512PrepW
/-! C07: one compression round of the SHA-512 chip (six regions, wired by copy constraints) computes the
FIPS 180-4 round function; the 80 rounds by induction. -/
namespace MidnightZK.C07.Chip512
open MidnightZK.C07 MidnightZK.C07.Chip

variable {p : Nat} {a : Asg}

/-- `CompressionState` holds the eight working variables `v = [a, b, c, d, e, f, g, h]`. -/
structure StInv (a : Asg) (st : StRefs) (v : List Nat) : Prop where
  sa : AInv a st.a (v.getD 0 0)
  sb : PSInv a st.b (v.getD 1 0)
  sc : PSInv a st.c (v.getD 2 0)
  sd : IsPlain a st.d (v.getD 3 0)
  se : EInv a st.e (v.getD 4 0)
  sf : PSInv a st.f (v.getD 5 0)
  sg : PSInv a st.g (v.getD 6 0)
  sh : IsPlain a st.h (v.getD 7 0)

theorem modW_sha512 (kk ivv : List Nat) (x : Nat) : (sha512P kk ivv).modW x = x % 2 ^ 64 := rfl

/-- **One compression round.** If the six regions emitted by `compression_round` are satisfied and the
incoming state cells hold `v`, the round-word cell holds `wv` and the round constant is a 64-bit word,
then the cells of the returned state hold the FIPS 180-4 round function of `v` — for EVERY assignment. -/
theorem round_sound (hp : 2 ^ 130 ≤ p) (ha : ∀ c, a c < p) (kk ivv : List Nat) {k : Nat} {st : StRefs}
    {v : List Nat} {rk : Nat} {w : Src} {wv : Nat}
    (hS : TraceSat p Gen.sha512Gates a k (compressionRound k st rk w).1)
    (hst : StInv a st v) (hw : IsPlain a w wv) (hk : rk < 2 ^ 64) :
    StInv a (compressionRound k st rk w).2 ((sha512P kk ivv).round v rk wv) := by
  simp only [compressionRound, traceSat_cons, Nat.add_assoc, Nat.reduceAdd] at hS
  obtain ⟨hS0, hS1, hS2, hS3, hS4, hS5, -⟩ := hS
  have h0 := Sigma0_sound hp ha kk ivv hS0 hst.sa
  have h1 := maj_sound hp ha hS1 ⟨hst.sa.sprd, hst.sa.lt⟩ ⟨hst.sb.sprd, hst.sb.lt⟩ ⟨hst.sc.sprd, hst.sc.lt⟩
  have h2 := Sigma1_sound hp ha kk ivv hS2 hst.se
  have h3 := ch_sound hp ha hS3 ⟨hst.se.sprd, hst.se.lt⟩ ⟨hst.sf.sprd, hst.sf.lt⟩ ⟨hst.sg.sprd, hst.sg.lt⟩
  have hA := prepareA_sound hp ha hS4 (by
    intro i hi
    have : i = 0 ∨ i = 1 ∨ i = 2 ∨ i = 3 ∨ i = 4 ∨ i = 5 ∨ i = 6 := by omega
    rcases this with rfl | rfl | rfl | rfl | rfl | rfl | rfl
    · simp only [summand, List.getD_cons_zero]; rw [hst.sh.1]; exact hst.sh.2
    · simp only [summand, List.getD_cons_succ, List.getD_cons_zero]; rw [h2.1]; exact h2.2
    · simp only [summand, List.getD_cons_succ, List.getD_cons_zero]; rw [h3.1]; exact h3.2
    · simp only [summand, List.getD_cons_succ, List.getD_cons_zero, get_const]; exact hk
    · simp only [summand, List.getD_cons_succ, List.getD_cons_zero]; rw [hw.1]; exact hw.2
    · simp only [summand, List.getD_cons_succ, List.getD_cons_zero]; rw [h0.1]; exact h0.2
    · simp only [summand, List.getD_cons_succ, List.getD_cons_zero]; rw [h1.1]; exact h1.2)
  have hE := prepareE_sound hp ha hS5 (by
    intro i hi
    have : i = 0 ∨ i = 1 ∨ i = 2 ∨ i = 3 ∨ i = 4 ∨ i = 5 ∨ i = 6 := by omega
    rcases this with rfl | rfl | rfl | rfl | rfl | rfl | rfl
    · simp only [summand, List.getD_cons_zero]; rw [hst.sd.1]; exact hst.sd.2
    · simp only [summand, List.getD_cons_succ, List.getD_cons_zero]; rw [hst.sh.1]; exact hst.sh.2
    · simp only [summand, List.getD_cons_succ, List.getD_cons_zero]; rw [h2.1]; exact h2.2
    · simp only [summand, List.getD_cons_succ, List.getD_cons_zero]; rw [h3.1]; exact h3.2
    · simp only [summand, List.getD_cons_succ, List.getD_cons_zero, get_const]; exact hk
    · simp only [summand, List.getD_cons_succ, List.getD_cons_zero]; rw [hw.1]; exact hw.2
    · simp [summand, zero])
  have sA : sum7 a [st.h, (Sigma1 (k + 2) st.e).2, (ch (k + 3) st.e.sprd st.f.sprd st.g.sprd).2, Src.const rk, w,
      (Sigma0 k st.a).2, (maj (k + 1) st.a.sprd st.b.sprd st.c.sprd).2]
      = v.getD 7 0 + (sha512P kk ivv).bigSigma1 (v.getD 4 0) + C07.ch 64 (v.getD 4 0) (v.getD 5 0) (v.getD 6 0)
        + rk + wv + (sha512P kk ivv).bigSigma0 (v.getD 0 0) + C07.maj (v.getD 0 0) (v.getD 1 0) (v.getD 2 0) := by
    simp only [sum7, summand, List.getD_cons_succ, List.getD_cons_zero, get_const]
    rw [hst.sh.1, h2.1, h3.1, hw.1, h0.1, h1.1]
  have sE : sum7 a [st.d, st.h, (Sigma1 (k + 2) st.e).2, (ch (k + 3) st.e.sprd st.f.sprd st.g.sprd).2, Src.const rk, w]
      = v.getD 3 0 + v.getD 7 0 + (sha512P kk ivv).bigSigma1 (v.getD 4 0)
        + C07.ch 64 (v.getD 4 0) (v.getD 5 0) (v.getD 6 0) + rk + wv + 0 := by
    simp only [sum7, summand, List.getD_cons_succ, List.getD_cons_zero, get_const]
    rw [hst.sd.1, hst.sh.1, h2.1, h3.1, hw.1]
    simp [zero]
  rw [sA] at hA
  rw [sE] at hE
  simp only [Sha2.round, modW_sha512]
  have w64 : (sha512P kk ivv).w = 64 := rfl
  rw [w64]
  refine ⟨?_, ⟨hst.sa.lt, hst.sa.plain, hst.sa.sprd⟩, hst.sb, ⟨hst.sc.plain, hst.sc.lt⟩, ?_,
    ⟨hst.se.lt, hst.se.plain, hst.se.sprd⟩, hst.sf, ⟨hst.sg.plain, hst.sg.lt⟩⟩
  · simp only [List.getD_cons_zero]
    have e : v.getD 7 0 + (sha512P kk ivv).bigSigma1 (v.getD 4 0) + C07.ch 64 (v.getD 4 0) (v.getD 5 0) (v.getD 6 0)
        + rk + wv + ((sha512P kk ivv).bigSigma0 (v.getD 0 0) + C07.maj (v.getD 0 0) (v.getD 1 0) (v.getD 2 0))
        = v.getD 7 0 + (sha512P kk ivv).bigSigma1 (v.getD 4 0) + C07.ch 64 (v.getD 4 0) (v.getD 5 0) (v.getD 6 0)
        + rk + wv + (sha512P kk ivv).bigSigma0 (v.getD 0 0) + C07.maj (v.getD 0 0) (v.getD 1 0) (v.getD 2 0) := by
      omega
    rw [e]; exact hA
  · simp only [List.getD_cons_succ, List.getD_cons_zero]
    have e : v.getD 3 0 + (v.getD 7 0 + (sha512P kk ivv).bigSigma1 (v.getD 4 0)
        + C07.ch 64 (v.getD 4 0) (v.getD 5 0) (v.getD 6 0) + rk + wv)
        = v.getD 3 0 + v.getD 7 0 + (sha512P kk ivv).bigSigma1 (v.getD 4 0)
        + C07.ch 64 (v.getD 4 0) (v.getD 5 0) (v.getD 6 0) + rk + wv + 0 := by omega
    rw [e]; exact hE

theorem compressionRound_length (k : Nat) (st : StRefs) (rk : Nat) (w : Src) :
    (compressionRound k st rk w).1.length = 6 := rfl

/-- **The 80 rounds** (`n` rounds starting at round `t`), by induction: the state cells after the rounds
hold `roundsLoop` of the reference function. -/
theorem rounds_sound (hp : 2 ^ 130 ≤ p) (ha : ∀ c, a c < p) (kk ivv : List Nat) (hkk : ∀ t, kk.getD t 0 < 2 ^ 64)
    {ws : List Src} {wv : List Nat} (hw : ∀ t, IsPlain a (ws.getD t zero) (wv.getD t 0)) :
    ∀ (n t k : Nat) (st : StRefs) (v : List Nat),
      TraceSat p Gen.sha512Gates a k (roundsEmit kk ws n t k st).1 → StInv a st v →
      StInv a (roundsEmit kk ws n t k st).2 ((sha512P kk ivv).roundsLoop wv n t v)
  | 0, _, _, _, _, _, hst => hst
  | n + 1, t, k, st, v, hS, hst => by
    simp only [roundsEmit] at hS ⊢
    rw [traceSat_append, compressionRound_length] at hS
    have h1 := round_sound hp ha kk ivv hS.1 hst (hw t) (hkk t)
    exact rounds_sound hp ha kk ivv hkk hw n (t + 1) (k + 6) _ _ hS.2 h1

theorem roundsEmit_length (kk : List Nat) (ws : List Src) :
    ∀ (n t k : Nat) (st : StRefs), (roundsEmit kk ws n t k st).1.length = 6 * n
  | 0, _, _, _ => rfl
  | n + 1, t, k, st => by
    simp only [roundsEmit, List.length_append, compressionRound_length]
    rw [roundsEmit_length kk ws n]; omega

end MidnightZK.C07.Chip512
