import MidnightZK.Proofs.C07.Basic
/-! C07: what the Poseidon sponge absorbs determines the input (padding injectivity). -/
namespace MidnightZK.C07

set_option linter.unusedSectionVars false

section
variable {F : Type} [CommRing F]

/-- The sequence added to the rate cells, chunk by chunk: the queue followed by zeros up to a
multiple of `rate` (a shorter last chunk adds to fewer cells, i.e. adds zeros). -/
def zeroPad (rate : Nat) (q : List F) : List F :=
  q ++ List.replicate ((rate - q.length % rate) % rate) 0

theorem getD_zeroPad (rate : Nat) (q : List F) (i : Nat) : (zeroPad rate q).getD i 0 = q.getD i 0 := by
  unfold zeroPad
  by_cases h : i < q.length
  · simp [List.getD_eq_getElem?_getD, List.getElem?_append_left h]
  · have h' : q.length ≤ i := Nat.le_of_not_lt h
    rw [List.getD_eq_getElem?_getD, List.getD_eq_getElem?_getD, List.getElem?_append_right h',
      List.getElem?_eq_none h']
    by_cases h2 : i - q.length < (rate - q.length % rate) % rate
    · simp [h2]
    · simp [h2]

theorem length_zeroPad_mod (rate : Nat) (q : List F) (hr : 0 < rate) :
    (zeroPad rate q).length % rate = 0 := by
  unfold zeroPad
  rw [List.length_append, List.length_replicate]
  have hm := Nat.mod_lt q.length hr
  by_cases h0 : q.length % rate = 0
  · rw [h0, Nat.sub_zero, Nat.mod_self, Nat.add_zero, h0]
  · have h1 : (rate - q.length % rate) % rate = rate - q.length % rate := Nat.mod_eq_of_lt (by omega)
    rw [h1]
    have := Nat.div_add_mod q.length rate
    have h2 : q.length + (rate - q.length % rate) = rate * (q.length / rate + 1) := by
      rw [Nat.mul_add, Nat.mul_one]; omega
    rw [h2, Nat.mul_mod_right]

/-- Two lists with the same entries (read with default `0`) and the same length are equal. -/
theorem ext_getD (l1 l2 : List F) (hl : l1.length = l2.length) (h : ∀ i, l1.getD i 0 = l2.getD i 0) :
    l1 = l2 := by
  apply List.ext_getElem hl
  intro i h1 h2
  have := h i
  simpa [List.getD_eq_getElem?_getD, List.getElem?_eq_getElem h1, List.getElem?_eq_getElem h2] using this

/-- Fixed-length mode: the capacity cell holds the input length, so (length, absorbed sequence)
determines the inputs. -/
theorem fixed_absorbed_injective (rate : Nat) (l1 l2 : List F)
    (hlen : l1.length = l2.length) (h : zeroPad rate l1 = zeroPad rate l2) : l1 = l2 := by
  apply ext_getD l1 l2 hlen
  intro i
  rw [← getD_zeroPad rate l1 i, ← getD_zeroPad rate l2 i, h]

/-- Unbounded (transcript) mode: the queue gets its own length appended before absorption; for
non-zero lengths on which `ofNat` does not vanish (all lengths below the field characteristic) the
absorbed sequence determines the inputs. -/
theorem transcript_absorbed_injective (rate : Nat) (ofNat : Nat → F) (bound : Nat)
    (hnz : ∀ a, 0 < a → a < bound → ofNat a ≠ 0)
    (l1 l2 : List F) (h1 : l1.length < bound) (h2 : l2.length < bound)
    (h : zeroPad rate (l1 ++ [ofNat l1.length]) = zeroPad rate (l2 ++ [ofNat l2.length])) :
    l1 = l2 := by
  have hg : ∀ i, (l1 ++ [ofNat l1.length]).getD i 0 = (l2 ++ [ofNat l2.length]).getD i 0 := by
    intro i
    rw [← getD_zeroPad rate _ i, ← getD_zeroPad rate (l2 ++ _) i, h]
  have hat : ∀ (l : List F), (l ++ [ofNat l.length]).getD l.length 0 = ofNat l.length := by
    intro l
    simp [List.getD_eq_getElem?_getD]
  have hbeyond : ∀ (l : List F) (i : Nat), l.length < i → (l ++ [ofNat l.length]).getD i 0 = 0 := by
    intro l i hi
    rw [List.getD_eq_getElem?_getD, List.getElem?_eq_none (by simp; omega)]
    rfl
  have hlen : l1.length = l2.length := by
    rcases Nat.lt_trichotomy l1.length l2.length with hlt | heq | hgt
    · exfalso
      have e1 := hg l2.length
      rw [hat l2, hbeyond l1 _ hlt] at e1
      exact hnz l2.length (by omega) h2 e1.symm
    · exact heq
    · exfalso
      have e1 := hg l1.length
      rw [hat l1, hbeyond l2 _ hgt] at e1
      exact hnz l1.length (by omega) h1 e1
  have hq : l1 ++ [ofNat l1.length] = l2 ++ [ofNat l2.length] :=
    ext_getD _ _ (by simp [hlen]) hg
  exact (List.append_inj hq hlen).1

/-- Absorbing a queue is absorbing its zero-padding: a shorter last chunk that adds to fewer
cells has the same effect as adding zeros (`x + 0 = x`). Width 3, rate 2 (shipped shape). -/
theorem absorbChunks_zeroPad (perm : List F → List F) : ∀ (fuel : Nat) (reg q : List F),
    q.length < 2 * fuel →
    absorbChunks 3 2 perm fuel reg q = absorbChunks 3 2 perm fuel reg (zeroPad 2 q) := by
  intro fuel
  induction fuel with
  | zero => intro reg q h; omega
  | succ f ih =>
    intro reg q h
    match q with
    | [] => simp [zeroPad, absorbChunks]
    | [a] =>
      have hz : zeroPad 2 [a] = [a, 0] := by simp [zeroPad]
      rw [hz]
      unfold absorbChunks
      simp only [List.isEmpty_cons, Bool.false_eq_true, if_false, List.take, List.drop]
      congr 2
      apply vec_congr
      intro i hi
      match i, hi with
      | 0, _ => simp
      | 1, _ => simp
      | 2, _ => simp
    | a :: b :: t =>
      have hz : zeroPad 2 (a :: b :: t) = a :: b :: zeroPad 2 t := by
        simp [zeroPad, Nat.add_mod]; omega
      rw [hz]
      unfold absorbChunks
      simp only [List.isEmpty_cons, Bool.false_eq_true, if_false, List.take, List.drop]
      exact ih _ t (by simp at h; omega)

end

end MidnightZK.C07
