import MidnightZK.Model.C07.Grain
import MidnightZK.Gen.C07Poseidon
/-! C07: kernel evaluation of the Grain generation, round-constant rows 17..33
(split in four modules so that lake checks them in parallel). -/
namespace MidnightZK.C07.Grain

/-- LFSR state before row 17 and after row 33 (witnesses, checked by the theorem). -/
def state1 : Nat := 551121791549176175248063
def state1' : Nat := 419620498034427714567160

theorem chunk1_ok :
    checkElems Gen.p 255 ((Gen.roundConstants.drop 17).take 17).flatten state1 = some state1' := by
  decide +kernel

end MidnightZK.C07.Grain
