import MidnightZK.Proofs.C07.ChipDigest
import MidnightZK.Model.C07.Sha512Chip
import MidnightZK.Gen.C07Sha512Gates
/-! C07: SHA-512 chip — basic lemmas (`assign_sprdd_13x4_12` block, `assign_add_mod_2_64`, invariants of
the assigned types). The region model (`Sat`, `TraceSat`, `rowEnv`, `InTable`) and the generic lemmas
(`exact_of_mod`, `rotr_concat`, `shr_concat`, …) are those of the SHA-256 development. -/
namespace MidnightZK.C07.Chip512
open MidnightZK.C07 MidnightZK.C07.Chip

/-- Unfolding of the region builders of `Sha512Chip.lean`. -/
macro "region_simp512" : tactic =>
  `(tactic| simp [maj, ch, Sigma0, Sigma1, sigma0, sigma1, prepareA, prepareE, prepareW, summand, copyAll, apsAll,
      sigmaBigCells, sigmaSmallCells, sprdd13x4_12, addMod, Region.aps, Region.enable, Region.assignTag,
      Region.assignAdvice, Region.copyAdvice, tagAt])

variable {p : Nat} {G : Sel → List Expr} {a : Asg} {k : Nat} {r : Region}

@[simp] theorem rowEnv_p2 (a : Asg) (k o c : Nat) : rowEnv a k o c 2 = (a (.reg k (o + 2) c) : Int) := by
  unfold rowEnv
  have : Int.toNat (((o : Nat) : Int) + 2) = o + 2 := by omega
  rw [this]

@[simp] theorem rowEnv_p3 (a : Asg) (k o c : Nat) : rowEnv a k o c 3 = (a (.reg k (o + 3) c) : Int) := by
  unfold rowEnv
  have : Int.toNat (((o : Nat) : Int) + 3) = o + 3 := by omega
  rw [this]

theorem spread64_of_lt {n x : Nat} (hn : n ≤ 64) (hx : x < 2 ^ n) : spreadFuel 64 x = spreadFuel n x :=
  spread_fuel_le hn hx

theorem spread64_lt (x : Nat) : spreadFuel 64 x < 2 ^ 128 := by
  have := spread_lt 64 x
  have e : (4 : Nat) ^ 64 = 2 ^ 128 := by norm_num
  omega

/-- The spread of a concatenation of at most 64 bits, with the fuel of `spread(x: u64)`. -/
theorem spread64_concatLE (l : List (Nat × Nat)) (h : ∀ ka ∈ l, ka.2 < 2 ^ ka.1) (hb : bitsTotal l ≤ 64) :
    spreadFuel 64 (concatLE l) = spreadConcat l := by
  rw [spread64_of_lt hb (concatLE_lt l h), spread_concatLE l h]

/-- Limbs `(13, 13, 13, 13, 12)` bits, big-endian: the recomposed word and its spread. -/
theorem concat_13x4_12 {l1 l2 l3 l4 l5 : Nat} (h1 : l1 < 2 ^ 13) (h2 : l2 < 2 ^ 13) (h3 : l3 < 2 ^ 13)
    (h4 : l4 < 2 ^ 13) (h5 : l5 < 2 ^ 12) :
    2 ^ 51 * l1 + 2 ^ 38 * l2 + 2 ^ 25 * l3 + 2 ^ 12 * l4 + l5 < 2 ^ 64 ∧
    spreadFuel 64 (2 ^ 51 * l1 + 2 ^ 38 * l2 + 2 ^ 25 * l3 + 2 ^ 12 * l4 + l5)
      = 4 ^ 51 * spreadFuel 13 l1 + 4 ^ 38 * spreadFuel 13 l2 + 4 ^ 25 * spreadFuel 13 l3
        + 4 ^ 12 * spreadFuel 13 l4 + spreadFuel 12 l5 := by
  have hb : ∀ ka ∈ [(12, l5), (13, l4), (13, l3), (13, l2), (13, l1)], ka.2 < 2 ^ ka.1 := by
    intro ka hka; simp at hka; rcases hka with rfl | rfl | rfl | rfl | rfl <;> assumption
  have s := spread64_concatLE _ hb (by simp [bitsTotal])
  have hlt := concatLE_lt _ hb
  simp only [bitsTotal, concatLE, spreadConcat] at s hlt
  have e : l5 + 2 ^ 12 * (l4 + 2 ^ 13 * (l3 + 2 ^ 13 * (l2 + 2 ^ 13 * (l1 + 2 ^ 13 * 0))))
      = 2 ^ 51 * l1 + 2 ^ 38 * l2 + 2 ^ 25 * l3 + 2 ^ 12 * l4 + l5 := by ring
  rw [e] at s hlt
  constructor
  · omega
  · rw [s]; ring

/-- What `assign_sprdd_13x4_12` at offset `off` guarantees, whatever the parity: the returned cell
(`A4` at `off`) is a 64-bit word whose spread is the inner product of the spreaded limbs in `A1`, and
the inner product of the spreaded limbs in `A3` is the spread of another 64-bit word. -/
theorem sprdd_block {off : Nat} (hp : 2 ^ 130 ≤ p) (ha : ∀ c, a c < p) (hS : Sat p Gen.sha512Gates a k r)
    (h0 : (Sel.lookup, off) ∈ r.sels) (h1 : (Sel.lookup, off + 1) ∈ r.sels) (h2 : (Sel.lookup, off + 2) ∈ r.sels)
    (h3 : (Sel.lookup, off + 3) ∈ r.sels) (h4 : (Sel.lookup, off + 4) ∈ r.sels)
    (hd : (Sel.d11, off + 1) ∈ r.sels)
    (t00 : tagAt r 0 off = 13) (t01 : tagAt r 0 (off + 1) = 13) (t02 : tagAt r 0 (off + 2) = 13)
    (t03 : tagAt r 0 (off + 3) = 13) (t04 : tagAt r 0 (off + 4) = 12)
    (t10 : tagAt r 1 off = 13) (t11 : tagAt r 1 (off + 1) = 13) (t12 : tagAt r 1 (off + 2) = 13)
    (t13 : tagAt r 1 (off + 3) = 13) (t14 : tagAt r 1 (off + 4) = 12) :
    ∃ v, a (.reg k off 4) < 2 ^ 64 ∧ v < 2 ^ 64 ∧
      4 ^ 51 * a (.reg k off 1) + 4 ^ 38 * a (.reg k (off + 1) 1) + 4 ^ 25 * a (.reg k (off + 2) 1)
        + 4 ^ 12 * a (.reg k (off + 3) 1) + a (.reg k (off + 4) 1) = spreadFuel 64 (a (.reg k off 4)) ∧
      4 ^ 51 * a (.reg k off 3) + 4 ^ 38 * a (.reg k (off + 1) 3) + 4 ^ 25 * a (.reg k (off + 2) 3)
        + 4 ^ 12 * a (.reg k (off + 3) 3) + a (.reg k (off + 4) 3) = spreadFuel 64 v := by
  have l00 := hS.look' h0 0 (by omega)
  have l01 := hS.look' h1 0 (by omega)
  have l02 := hS.look' h2 0 (by omega)
  have l03 := hS.look' h3 0 (by omega)
  have l04 := hS.look' h4 0 (by omega)
  have l10 := hS.look' h0 1 (by omega)
  have l11 := hS.look' h1 1 (by omega)
  have l12 := hS.look' h2 1 (by omega)
  have l13 := hS.look' h3 1 (by omega)
  have l14 := hS.look' h4 1 (by omega)
  rw [t00] at l00; rw [t01] at l01; rw [t02] at l02; rw [t03] at l03; rw [t04] at l04
  rw [t10] at l10; rw [t11] at l11; rw [t12] at l12; rw [t13] at l13; rw [t14] at l14
  simp only [Nat.mul_zero, Nat.zero_add, Nat.mul_one] at l00 l01 l02 l03 l04 l10 l11 l12 l13 l14
  obtain ⟨b1, s1⟩ := l00
  obtain ⟨b2, s2⟩ := l01
  obtain ⟨b3, s3⟩ := l02
  obtain ⟨b4, s4⟩ := l03
  obtain ⟨b5, s5⟩ := l04
  obtain ⟨c1, q1⟩ := l10
  obtain ⟨c2, q2⟩ := l11
  obtain ⟨c3, q3⟩ := l12
  obtain ⟨c4, q4⟩ := l13
  obtain ⟨c5, q5⟩ := l14
  have g := hS.gate' hd (e := Gen.gate512_d11.getD 0 default) (by simp [Gen.sha512Gates, Gen.gate512_d11])
  have cu := concat_13x4_12 b1 b2 b3 b4 b5
  have cv := concat_13x4_12 c1 c2 c3 c4 c5
  have hout : 2 ^ 51 * a (.reg k off 0) + 2 ^ 38 * a (.reg k (off + 1) 0) + 2 ^ 25 * a (.reg k (off + 2) 0)
      + 2 ^ 12 * a (.reg k (off + 3) 0) + a (.reg k (off + 4) 0) = a (.reg k off 4) := by
    refine exact_of_mod g ?_ (by omega) (ha _)
    simp [Gen.gate512_d11, Expr.eval, Nat.add_assoc]
    ring
  refine ⟨2 ^ 51 * a (.reg k off 2) + 2 ^ 38 * a (.reg k (off + 1) 2) + 2 ^ 25 * a (.reg k (off + 2) 2)
      + 2 ^ 12 * a (.reg k (off + 3) 2) + a (.reg k (off + 4) 2), ?_, cv.1, ?_, ?_⟩
  · rw [← hout]; exact cu.1
  · rw [← hout, cu.2, s1, s2, s3, s4, s5]
  · rw [cv.2, q1, q2, q3, q4, q5]

/-! ## Invariants of the assigned types -/

/-- The cell holds the 64-bit word `x`. -/
def IsPlain (a : Asg) (s : Src) (x : Nat) : Prop := get a s = x ∧ x < 2 ^ 64

/-- The cell holds the spread of the 64-bit word `x`. -/
def IsSpr (a : Asg) (s : Src) (x : Nat) : Prop := get a s = spreadFuel 64 x ∧ x < 2 ^ 64

/-- `AssignedPlainSpreaded<F, 64>` holds `x`. -/
structure PSInv (a : Asg) (r : PS) (x : Nat) : Prop where
  lt : x < 2 ^ 64
  plain : get a r.plain = x
  sprd : get a r.sprd = spreadFuel 64 x

/-- `LimbsOfA` holds `x` (13-12-5-6-13-13-2 limbs, big-endian). -/
structure AInv (a : Asg) (r : LRefs) (x : Nat) : Prop where
  lt : x < 2 ^ 64
  plain : get a r.plain = x
  sprd : get a r.sprd = spreadFuel 64 x
  len : r.limbs.length = 7
  l0 : get a (r.limbs.getD 0 default) = spreadFuel 13 (x / 2 ^ 51)
  l1 : get a (r.limbs.getD 1 default) = spreadFuel 12 (x / 2 ^ 39 % 2 ^ 12)
  l2 : get a (r.limbs.getD 2 default) = spreadFuel 5 (x / 2 ^ 34 % 2 ^ 5)
  l3 : get a (r.limbs.getD 3 default) = spreadFuel 6 (x / 2 ^ 28 % 2 ^ 6)
  l4 : get a (r.limbs.getD 4 default) = spreadFuel 13 (x / 2 ^ 15 % 2 ^ 13)
  l5 : get a (r.limbs.getD 5 default) = spreadFuel 13 (x / 2 ^ 2 % 2 ^ 13)
  l6 : get a (r.limbs.getD 6 default) = spreadFuel 2 (x % 2 ^ 2)

/-- `LimbsOfE` holds `x` (13-10-13-10-4-13-1 limbs, big-endian). -/
structure EInv (a : Asg) (r : LRefs) (x : Nat) : Prop where
  lt : x < 2 ^ 64
  plain : get a r.plain = x
  sprd : get a r.sprd = spreadFuel 64 x
  len : r.limbs.length = 7
  l0 : get a (r.limbs.getD 0 default) = spreadFuel 13 (x / 2 ^ 51)
  l1 : get a (r.limbs.getD 1 default) = spreadFuel 10 (x / 2 ^ 41 % 2 ^ 10)
  l2 : get a (r.limbs.getD 2 default) = spreadFuel 13 (x / 2 ^ 28 % 2 ^ 13)
  l3 : get a (r.limbs.getD 3 default) = spreadFuel 10 (x / 2 ^ 18 % 2 ^ 10)
  l4 : get a (r.limbs.getD 4 default) = spreadFuel 4 (x / 2 ^ 14 % 2 ^ 4)
  l5 : get a (r.limbs.getD 5 default) = spreadFuel 13 (x / 2 ^ 1 % 2 ^ 13)
  l6 : get a (r.limbs.getD 6 default) = spreadFuel 1 (x % 2 ^ 1)

/-- `AssignedMessageWord` holds `x` (3-13-13-13-3-11-1-1-5-1 limbs, big-endian). -/
structure WInv (a : Asg) (r : WRefs) (x : Nat) : Prop where
  lt : x < 2 ^ 64
  plain : get a r.plain = x
  len : r.limbs.length = 10
  l0 : get a (r.limbs.getD 0 default) = spreadFuel 3 (x / 2 ^ 61)
  l1 : get a (r.limbs.getD 1 default) = spreadFuel 13 (x / 2 ^ 48 % 2 ^ 13)
  l2 : get a (r.limbs.getD 2 default) = spreadFuel 13 (x / 2 ^ 35 % 2 ^ 13)
  l3 : get a (r.limbs.getD 3 default) = spreadFuel 13 (x / 2 ^ 22 % 2 ^ 13)
  l4 : get a (r.limbs.getD 4 default) = spreadFuel 3 (x / 2 ^ 19 % 2 ^ 3)
  l5 : get a (r.limbs.getD 5 default) = spreadFuel 11 (x / 2 ^ 8 % 2 ^ 11)
  l6 : get a (r.limbs.getD 6 default) = spreadFuel 1 (x / 2 ^ 7 % 2 ^ 1)
  l7 : get a (r.limbs.getD 7 default) = spreadFuel 1 (x / 2 ^ 6 % 2 ^ 1)
  l8 : get a (r.limbs.getD 8 default) = spreadFuel 5 (x / 2 ^ 1 % 2 ^ 5)
  l9 : get a (r.limbs.getD 9 default) = spreadFuel 1 (x % 2 ^ 1)

theorem list7 {α : Type} {l : List α} (h : l.length = 7) :
    ∃ x0 x1 x2 x3 x4 x5 x6, l = [x0, x1, x2, x3, x4, x5, x6] := by
  match l, h with
  | [x0, x1, x2, x3, x4, x5, x6], _ => exact ⟨x0, x1, x2, x3, x4, x5, x6, rfl⟩

theorem list10 {α : Type} {l : List α} (h : l.length = 10) :
    ∃ x0 x1 x2 x3 x4 x5 x6 x7 x8 x9, l = [x0, x1, x2, x3, x4, x5, x6, x7, x8, x9] := by
  match l, h with
  | [x0, x1, x2, x3, x4, x5, x6, x7, x8, x9], _ => exact ⟨x0, x1, x2, x3, x4, x5, x6, x7, x8, x9, rfl⟩

theorem shr_lt {x n : Nat} (hx : x < 2 ^ 64) : shr x n < 2 ^ 64 := by
  unfold shr
  exact lt_of_le_of_lt (Nat.div_le_self _ _) hx

/-- `fn assign_add_mod_2_64` inside a region whose result cell (`A4` at offset 0) is known to be a
64-bit word: the result is the sum of the summands modulo `2^64` (the carry, in row 3, is range-checked
by the lookup with tag 3). -/
theorem addmod_block {r : Region} {ss : List Src} (hp : 2 ^ 130 ≤ p) (hS : Sat p Gen.sha512Gates a k r)
    (hsel : (Sel.add, 1) ∈ r.sels) (hl3 : (Sel.lookup, 3) ∈ r.sels) (ht : tagAt r 1 3 = 3)
    (c0 : (summand ss 0, 5, 0) ∈ r.copies) (c1 : (summand ss 1, 6, 0) ∈ r.copies)
    (c2 : (summand ss 2, 5, 1) ∈ r.copies) (c3 : (summand ss 3, 6, 1) ∈ r.copies)
    (c4 : (summand ss 4, 4, 2) ∈ r.copies) (c5 : (summand ss 5, 5, 2) ∈ r.copies)
    (c6 : (summand ss 6, 6, 2) ∈ r.copies)
    (hs : ∀ i, i < 7 → get a (summand ss i) < 2 ^ 64) (hA : a (.reg k 0 4) < 2 ^ 64) :
    a (.reg k 0 4) = sum7 a ss % 2 ^ 64 := by
  have e0 := hS.copy' c0
  have e1 := hS.copy' c1
  have e2 := hS.copy' c2
  have e3 := hS.copy' c3
  have e4 := hS.copy' c4
  have e5 := hS.copy' c5
  have e6 := hS.copy' c6
  have lc := hS.look' hl3 1 (by omega)
  rw [ht] at lc
  simp only [Nat.mul_one] at lc
  obtain ⟨hc, -⟩ := lc
  have g := hS.gate' hsel (e := Gen.gate512_add.getD 0 default) (by simp [Gen.sha512Gates, Gen.gate512_add])
  have b0 := hs 0 (by omega)
  have b1 := hs 1 (by omega)
  have b2 := hs 2 (by omega)
  have b3 := hs 3 (by omega)
  have b4 := hs 4 (by omega)
  have b5 := hs 5 (by omega)
  have b6 := hs 6 (by omega)
  have hsum : a (.reg k 0 5) + a (.reg k 0 6) + a (.reg k 1 5) + a (.reg k 1 6) + a (.reg k 2 4) + a (.reg k 2 5)
      + a (.reg k 2 6) = a (.reg k 0 4) + 2 ^ 64 * a (.reg k 3 2) := by
    refine exact_of_mod g ?_ (by rw [e0, e1, e2, e3, e4, e5, e6]; omega) (by omega)
    simp [Gen.gate512_add, Expr.eval]
    ring
  rw [e0, e1, e2, e3, e4, e5, e6] at hsum
  unfold sum7
  omega

end MidnightZK.C07.Chip512
