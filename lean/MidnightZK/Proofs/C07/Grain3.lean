import MidnightZK.Model.C07.Grain
import MidnightZK.Gen.C07Poseidon
/-! C07: kernel evaluation of the Grain generation, round-constant rows 51..67
(split in four modules so that lake checks them in parallel). -/
namespace MidnightZK.C07.Grain

/-- LFSR state before row 51 and after row 67 (witnesses, checked by the theorem). -/
def state3 : Nat := 1167368819559288849972604
def state3' : Nat := 473853758365737665259344

theorem chunk3_ok :
    checkElems Gen.p 255 ((Gen.roundConstants.drop 51).take 17).flatten state3 = some state3' := by
  decide +kernel

end MidnightZK.C07.Grain
