import MidnightZK.Model.C07.ShaVarlen
/-! C07: kernel evaluation of the structural check of `sha256_varlen` — `MAX_LEN = 128`, every `len ≤ 64`
(separate modules so that lake checks them in parallel). -/
namespace MidnightZK.C07

theorem varlenShaB : (List.range 65).all (fun len => varlenStructOk 128 len) = true := by
  decide +kernel

end MidnightZK.C07
