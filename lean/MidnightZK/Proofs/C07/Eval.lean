import MidnightZK.Proofs.C07.Skips
import MidnightZK.Proofs.C07.Shifted
/-! C07: `RoundId::eval` with the pre-computed constants equals `1 + nb_skips` raw partial rounds;
`permutation_cpu` equals the textbook permutation. -/
namespace MidnightZK.C07

open Finset
set_option linter.unusedSectionVars false

section
variable {F : Type} [CommRing F]
variable (P : PParams F) (smax : Nat) (d : Dims) (s : Nat)

/-- The flattened window of round constants of the batch starting at `round`:
`ROUND_CONSTANTS[round + 1 ..]`. -/
def windowC (round : Nat) : Nat → F := fun k => P.k (round + 1 + k / P.width) (k % P.width)

/-- The instances vector after `i` iterations of the loop of `RoundId::eval`. -/
def instV (C x : Nat → F) (i : Nat) : Nat → F := fun j =>
  if j < P.width - 1 then x j
  else if j < P.width + i then sbox (rawSeq P C x (j - (P.width - 1)) (P.width - 1))
  else 0

theorem instV_good (C x : Nat → F) (i : Nat) (hW : 1 ≤ P.width) : Good P C x (instV P C x i) (i + 1) := by
  constructor
  · intro j hj; simp [instV, hj]
  · intro t ht
    unfold instV
    have h1 : ¬ (P.width - 1 + t < P.width - 1) := by omega
    have h2 : P.width - 1 + t < P.width + i := by omega
    have h3 : P.width - 1 + t - (P.width - 1) = t := by omega
    simp only [h1, h2, h3, if_false, if_true]

/-- `round_constants[t]` of the batch: `eval_constants` of the `t`-th output form. -/
theorem evalConstants_getD (R : RoundId F) (round t : Nat) (ht : t < P.width + R.nbSkips) :
    (R.evalConstants P round).getD t 0
      = (R.outForm P.width t).evalConsts (P.width * (1 + R.nbSkips)) (windowC P round) := by
  unfold RoundId.evalConstants
  simp only
  rw [getD_vec _ _ _ _ ht]
  rfl

variable (hW : 1 ≤ P.width) (hs : s ≤ smax) (hnv : P.width + s ≤ d.nv) (hnc : P.width * (1 + s) ≤ d.nc)
include hW hs hnv hnc

/-- Value computed by the loop body for skipped row `i`. -/
theorem next_eq (round : Nat) (x : Nat → F) (i : Nat) (hi : i ≤ s) (e : List F)
    (he : ∀ j, j < P.width + s → e.getD j 0 = instV P (windowC P round) x i j) :
    let R := RoundId.generate P smax d s
    ((R.ids.getD (P.width + i) default).evalVars (P.width + s) e
        ((R.evalConstants P round).getD (P.width - 1 + i) 0))
      = rawSeq P (windowC P round) x (i + 1) (P.width - 1) := by
  intro R
  have hRs : R.nbSkips = s := genK_nbSkips P smax d s (1 + s)
  rw [evalConstants_getD P R round _ (by rw [hRs]; omega), hRs]
  have hof : R.outForm P.width (P.width - 1 + i) = R.ids.getD (P.width + i) default := by
    unfold RoundId.outForm
    have : ¬ (P.width - 1 + i < P.width - 1) := by omega
    simp only [this, if_false]
    congr 1; omega
  rw [hof, evalVars_evalConsts, LF.sem_congr _ _ _ _ (instV P (windowC P round) x i) _ he]
  have hst : R.ids.getD (P.width + i) default
      = (genK P smax d s (i + 1)).ids.getD (P.width + i) default :=
    genK_stable P smax d s i (i + 1) (1 + s) (by omega) (by omega) (by omega) hW
  rw [hst]
  exact (genK_inv P smax d s hW hs hnv hnc (windowC P round) x (i + 1) (by omega) _
    (instV_good P _ x i hW)).2 i (by omega)

theorem evalLoop_fst (round : Nat) (x : Nat → F) :
    ∀ (fuel i : Nat) (e pows : List F), i + fuel = s →
      (∀ j, j < P.width + s → e.getD j 0 = instV P (windowC P round) x i j) →
      ∀ j, j < P.width + s →
        (RoundId.evalLoop (RoundId.generate P smax d s) P.width
            ((RoundId.generate P smax d s).evalConstants P round) fuel i (e, pows)).1.getD j 0
          = instV P (windowC P round) x s j := by
  intro fuel
  induction fuel with
  | zero =>
    intro i e pows hi he j hj
    have : i = s := by omega
    subst this
    simpa [RoundId.evalLoop] using he j hj
  | succ fuel ih =>
    intro i e pows hi he j hj
    unfold RoundId.evalLoop
    have hRs : (RoundId.generate P smax d s).nbSkips = s := genK_nbSkips P smax d s (1 + s)
    simp only [hRs]
    apply ih (i + 1) _ _ (by omega) _ j hj
    intro j hj
    rw [getD_vec _ _ _ _ hj]
    have hn := next_eq P smax d s hW hs hnv hnc round x i (by omega) e he
    simp only at hn
    by_cases hji : j = P.width + i
    · subst hji
      simp only [if_true]
      rw [hn]
      unfold instV
      have h1 : ¬ (P.width + i < P.width - 1) := by omega
      have h2 : P.width + i < P.width + (i + 1) := by omega
      have h3 : P.width + i - (P.width - 1) = i + 1 := by omega
      simp only [h1, h2, h3, if_false, if_true]
    · simp only [hji, if_false]
      rw [he j hj]
      unfold instV
      by_cases h1 : j < P.width - 1
      · simp [h1]
      · simp only [h1, if_false]
        by_cases h2 : j < P.width + i
        · have : j < P.width + (i + 1) := by omega
          simp [h2, this]
        · have : ¬ j < P.width + (i + 1) := by omega
          simp [h2, this]

/-- `RoundId::eval` on the identities of `generate` with the constants of `eval_constants`: the new
state is the state after `1 + nb_skips` raw partial rounds. -/
theorem eval_fst (round : Nat) (st : List F) :
    ((RoundId.generate P smax d s).eval P.width
        ((RoundId.generate P smax d s).evalConstants P round) st).1
      = vec P.width (rawSeq P (windowC P round) (fun i => st.getD i 0) (1 + s)) := by
  set R := RoundId.generate P smax d s with hR
  set x : Nat → F := fun i => st.getD i 0 with hx
  have hRs : R.nbSkips = s := genK_nbSkips P smax d s (1 + s)
  unfold RoundId.eval
  simp only [hRs]
  -- the instances after the loop
  have hexp : ∀ j, j < P.width + s →
      (RoundId.evalLoop R P.width (R.evalConstants P round) s 0
        (vec (P.width + s) (fun j => if j < P.width - 1 then st.getD j 0
          else if j = P.width - 1 then sbox (st.getD j 0) else 0), [])).1.getD j 0
        = instV P (windowC P round) x s j := by
    apply evalLoop_fst P smax d s hW hs hnv hnc round x s 0 _ _ (by omega)
    intro j hj
    rw [getD_vec _ _ _ _ hj]
    unfold instV
    by_cases h1 : j < P.width - 1
    · simp [h1, hx]
    · simp only [h1, if_false]
      by_cases h2 : j = P.width - 1
      · have h3 : j < P.width + 0 := by omega
        have h4 : j - (P.width - 1) = 0 := by omega
        rw [if_pos h2, if_pos h3, h4]
        show sbox (st.getD j 0) = sbox (st.getD (P.width - 1) 0)
        rw [h2]
      · have h3 : ¬ j < P.width + 0 := by omega
        rw [if_neg h2, if_neg h3]
  apply vec_congr
  intro i hi
  have hgood : Good P (windowC P round) x (instV P (windowC P round) x s) (1 + s) := by
    have := instV_good P (windowC P round) x s hW
    rwa [Nat.add_comm] at this
  have hinv := genK_inv P smax d s hW hs hnv hnc (windowC P round) x (1 + s) (le_refl _) _ hgood
  by_cases h1 : i < P.width - 1
  · simp only [h1, if_true]
    rw [evalConstants_getD P R round _ (by rw [hRs]; omega), hRs]
    have hof : R.outForm P.width i = R.ids.getD i default := by simp [RoundId.outForm, h1]
    rw [hof, evalVars_evalConsts, LF.sem_congr _ _ _ _ (instV P (windowC P round) x s) _ hexp]
    exact hinv.1 i h1
  · simp only [h1, if_false]
    rw [evalConstants_getD P R round _ (by rw [hRs]; omega), hRs]
    have hof : R.outForm P.width (P.width + s - 1) = R.ids.getD (P.width + s) default := by
      unfold RoundId.outForm
      have : ¬ (P.width + s - 1 < P.width - 1) := by omega
      simp only [this, if_false]
      congr 1; omega
    rw [hof, evalVars_evalConsts, LF.sem_congr _ _ _ _ (instV P (windowC P round) x s) _ hexp]
    have hi' : i = P.width - 1 := by omega
    have hb := hinv.2 s (by omega)
    rw [Nat.add_comm s 1] at hb
    rw [hi']
    exact hb

omit hs hnv hnc in
/-- `rawSeq` is the chain of `partial_round_cpu_raw`. -/
theorem iter_partialRoundRaw_getD (round : Nat) (st : List F) :
    ∀ t i, i < P.width →
      (iter (partialRoundRaw P) t round st).getD i 0
        = rawSeq P (windowC P round) (fun i => st.getD i 0) t i := by
  intro t
  induction t with
  | zero => intro i _; simp [iter, rawSeq]
  | succ t ih =>
    intro i hi
    rw [iter_snoc]
    generalize iter (partialRoundRaw P) t round st = prev at ih ⊢
    unfold partialRoundRaw linearLayer
    rw [getD_vec _ _ _ _ hi, sumTo_eq, getD_vec _ _ _ _ hi]
    show _ = windowC P round (t * P.width + i) + _
    have hc : windowC P round (t * P.width + i) = P.k (round + t + 1) i := by
      unfold windowC
      have h1 : (t * P.width + i) / P.width = t := by
        rw [Nat.mul_comm, Nat.mul_add_div (by omega), Nat.div_eq_of_lt hi, Nat.add_zero]
      have h2 : (t * P.width + i) % P.width = i := by
        rw [Nat.mul_comm, Nat.mul_add_mod, Nat.mod_eq_of_lt hi]
      rw [h1, h2]
      congr 1; omega
    rw [hc]
    congr 1
    apply Finset.sum_congr rfl
    intro j hj
    have hj' : j < P.width := Finset.mem_range.mp hj
    rw [getD_vec _ _ _ _ hj']
    split
    · rw [ih j hj']
    · rw [ih j hj']

/-- **skip_rounds_eq_raw** (helper form): one optimised batch equals `1 + nb_skips` raw rounds. -/
theorem eval_eq_raw (round : Nat) (st : List F) :
    ((RoundId.generate P smax d s).eval P.width
        ((RoundId.generate P smax d s).evalConstants P round) st).1
      = iter (partialRoundRaw P) (1 + s) round st := by
  rw [eval_fst P smax d s hW hs hnv hnc]
  have hvec : iter (partialRoundRaw P) (1 + s) round st
      = vec P.width (fun i => (iter (partialRoundRaw P) (1 + s) round st).getD i 0) := by
    rw [Nat.add_comm 1 s, iter_snoc]
    generalize iter (partialRoundRaw P) s round st = prev
    unfold partialRoundRaw linearLayer
    apply vec_congr
    intro i hi
    simp only [getD_vec _ _ _ _ hi]
  rw [hvec]
  apply vec_congr
  intro i hi
  rw [iter_partialRoundRaw_getD P hW round st (1 + s) i hi]

end

section
variable {F : Type} [CommRing F]

/-- The batches of `permutation_cpu` are the raw partial rounds they replace. -/
theorem iter_skip_eq_raw (P : PParams F) (smax s : Nat) (hW : 1 ≤ P.width) (hs : s ≤ smax) :
    ∀ (n b : Nat) (st : List F), b + n ≤ P.nbPartial / (1 + s) →
      iter (partialRoundSkip P (PreComputed.init P smax s)) n b st
        = iter (partialRoundRaw P) (n * (1 + s)) (P.nbFull / 2 + b * (1 + s)) st := by
  intro n
  induction n with
  | zero => intro b st _; simp [iter]
  | succ n ih =>
    intro b st hb
    rw [iter, ih (b + 1) _ (by omega)]
    have hstep : partialRoundSkip P (PreComputed.init P smax s) b st
        = iter (partialRoundRaw P) (1 + s) (P.nbFull / 2 + b * (1 + s)) st := by
      unfold partialRoundSkip PreComputed.init
      simp only
      have hrc : ((RoundId.generate P smax ⟨P.width + smax, P.width * (1 + smax)⟩ s).roundConstantsOpt P).getD b []
          = (RoundId.generate P smax ⟨P.width + smax, P.width * (1 + smax)⟩ s).evalConstants P
              (P.nbFull / 2 + b * (1 + s)) := by
        unfold RoundId.roundConstantsOpt
        have hRs : (RoundId.generate P smax ⟨P.width + smax, P.width * (1 + smax)⟩ s).nbSkips = s :=
          genK_nbSkips P smax _ s (1 + s)
        rw [hRs, getD_map_range _ _ _ _ (by omega)]
      rw [hrc]
      exact eval_eq_raw P smax ⟨P.width + smax, P.width * (1 + smax)⟩ s hW hs (by simp; omega)
        (by simp; exact Nat.mul_le_mul_left _ (by omega)) _ st
    rw [hstep]
    have h1 : (n + 1) * (1 + s) = (1 + s) + n * (1 + s) := by ring
    have h2 : P.nbFull / 2 + (b + 1) * (1 + s) = P.nbFull / 2 + b * (1 + s) + (1 + s) := by ring
    rw [h1, iter_add (partialRoundRaw P) (1 + s) (n * (1 + s)), h2]

/-- `permutation_cpu` (with round skips) equals `permutation_cpu_raw` (without). -/
theorem permutationCpu_eq_raw (P : PParams F) (smax s : Nat) (hW : 1 ≤ P.width) (hs : s ≤ smax)
    (st : List F) :
    permutationCpu P (PreComputed.init P smax s) st = permutationRaw P st := by
  unfold permutationCpu permutationRaw
  have hRs : (PreComputed.init P smax s).id.nbSkips = s := by
    unfold PreComputed.init
    exact genK_nbSkips P smax _ s (1 + s)
  simp only [hRs]
  rw [iter_skip_eq_raw P smax s hW hs _ 0 _ (by omega)]
  generalize iter (fullRoundCpu P) (P.nbFull / 2) 0 (vec P.width fun i => st.getD i 0 + P.k 0 i) = s1
  have hdm := Nat.div_add_mod P.nbPartial (1 + s)
  rw [Nat.mul_comm] at hdm
  generalize P.nbPartial % (1 + s) = r at *
  generalize P.nbPartial / (1 + s) * (1 + s) = m at *
  have hsplit : P.nbPartial = m + r := by omega
  have h0 : P.nbFull / 2 + 0 * (1 + s) = P.nbFull / 2 := by simp
  have h1 : P.nbFull / 2 + P.nbPartial - r = P.nbFull / 2 + m := by omega
  rw [h0, h1]
  congr 1
  rw [hsplit, iter_add]

end

end MidnightZK.C07
