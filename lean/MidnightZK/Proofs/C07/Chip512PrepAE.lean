import MidnightZK.Proofs.C07.Chip512Base
/-! C07: soundness of `prepare_A`, `prepare_E` of the SHA-512 chip. -/
namespace MidnightZK.C07.Chip512
open MidnightZK.C07 MidnightZK.C07.Chip

variable {p : Nat} {a : Asg} {k : Nat}

/-- `fn prepare_A`: the returned `LimbsOfA` holds the sum of the summands modulo `2^64`. -/
theorem prepareA_sound (hp : 2 ^ 130 ≤ p) (ha : ∀ c, a c < p) {ss : List Src}
    (hS : Sat p Gen.sha512Gates a k (prepareA k ss).1) (hs : ∀ i, i < 7 → get a (summand ss i) < 2 ^ 64) :
    AInv a (prepareA k ss).2 (sum7 a ss % 2 ^ 64) := by
  have l0 := hS.look' (o := 0) (by region_simp512) 0 (by omega)
  have t0 : tagAt (prepareA k ss).1 0 0 = 13 := by region_simp512
  rw [t0] at l0
  have l1 := hS.look' (o := 0) (by region_simp512) 1 (by omega)
  have t1 : tagAt (prepareA k ss).1 1 0 = 12 := by region_simp512
  rw [t1] at l1
  have l2 := hS.look' (o := 1) (by region_simp512) 0 (by omega)
  have t2 : tagAt (prepareA k ss).1 0 1 = 5 := by region_simp512
  rw [t2] at l2
  have l3 := hS.look' (o := 1) (by region_simp512) 1 (by omega)
  have t3 : tagAt (prepareA k ss).1 1 1 = 6 := by region_simp512
  rw [t3] at l3
  have l4 := hS.look' (o := 2) (by region_simp512) 0 (by omega)
  have t4 : tagAt (prepareA k ss).1 0 2 = 13 := by region_simp512
  rw [t4] at l4
  have l5 := hS.look' (o := 2) (by region_simp512) 1 (by omega)
  have t5 : tagAt (prepareA k ss).1 1 2 = 13 := by region_simp512
  rw [t5] at l5
  have l6 := hS.look' (o := 3) (by region_simp512) 0 (by omega)
  have t6 : tagAt (prepareA k ss).1 0 3 = 2 := by region_simp512
  rw [t6] at l6
  simp only [Nat.mul_zero, Nat.zero_add, Nat.mul_one] at l0 l1 l2 l3 l4 l5 l6
  obtain ⟨b0, s0⟩ := l0
  obtain ⟨b1, s1⟩ := l1
  obtain ⟨b2, s2⟩ := l2
  obtain ⟨b3, s3⟩ := l3
  obtain ⟨b4, s4⟩ := l4
  obtain ⟨b5, s5⟩ := l5
  obtain ⟨b6, s6⟩ := l6
  have g0 := hS.gate' (s := .dA) (o := 1) (e := Gen.gate512_dA.getD 0 default) (by region_simp512)
    (by simp [Gen.sha512Gates, Gen.gate512_dA])
  have g1 := hS.gate' (s := .dA) (o := 1) (e := Gen.gate512_dA.getD 1 default) (by region_simp512)
    (by simp [Gen.sha512Gates, Gen.gate512_dA])
  have hplain : 2 ^ 51 * a (.reg k 0 0) + 2 ^ 39 * a (.reg k 0 2) + 2 ^ 34 * a (.reg k 1 0) + 2 ^ 28 * a (.reg k 1 2) + 2 ^ 15 * a (.reg k 2 0) + 2 ^ 2 * a (.reg k 2 2) + a (.reg k 3 0)
      = a (.reg k 0 4) := by
    refine exact_of_mod g0 ?_ (by omega) (ha _)
    simp [Gen.gate512_dA, Expr.eval]
    ring
  have hA : a (.reg k 0 4) < 2 ^ 64 := by omega
  have hl : ∀ ka ∈ [(2, a (.reg k 3 0)), (13, a (.reg k 2 2)), (13, a (.reg k 2 0)), (6, a (.reg k 1 2)), (5, a (.reg k 1 0)), (12, a (.reg k 0 2)), (13, a (.reg k 0 0))],
      ka.2 < 2 ^ ka.1 := by
    intro ka hka
    simp at hka
    rcases hka with rfl | rfl | rfl | rfl | rfl | rfl | rfl <;> assumption
  have hs64 := spread64_concatLE _ hl (by simp [bitsTotal])
  simp only [concatLE, spreadConcat] at hs64
  have hx : a (.reg k 0 4) = a (.reg k 3 0) + 2 ^ 2 * (a (.reg k 2 2) + 2 ^ 13 * (a (.reg k 2 0) + 2 ^ 13 * (a (.reg k 1 2) + 2 ^ 6 * (a (.reg k 1 0) + 2 ^ 5 * (a (.reg k 0 2) + 2 ^ 12 * (a (.reg k 0 0) + 2 ^ 13 * 0)))))) := by omega
  have e : 4 ^ 51 * a (.reg k 0 1) + 4 ^ 39 * a (.reg k 0 3) + 4 ^ 34 * a (.reg k 1 1) + 4 ^ 28 * a (.reg k 1 3) + 4 ^ 15 * a (.reg k 2 1) + 4 ^ 2 * a (.reg k 2 3) + a (.reg k 3 1)
      = spreadFuel 64 (a (.reg k 0 4)) := by
    rw [hx, hs64, s0, s1, s2, s3, s4, s5, s6]; ring
  have hsprd : 4 ^ 51 * a (.reg k 0 1) + 4 ^ 39 * a (.reg k 0 3) + 4 ^ 34 * a (.reg k 1 1) + 4 ^ 28 * a (.reg k 1 3) + 4 ^ 15 * a (.reg k 2 1) + 4 ^ 2 * a (.reg k 2 3) + a (.reg k 3 1)
      = a (.reg k 1 4) := by
    have := spread64_lt (a (.reg k 0 4))
    refine exact_of_mod g1 ?_ (by rw [e]; omega) (ha _)
    simp [Gen.gate512_dA, Expr.eval]
    ring
  have hval := addmod_block (ss := ss) hp hS (by region_simp512) (by region_simp512) (by region_simp512) (by region_simp512) (by region_simp512) (by region_simp512) (by region_simp512) (by region_simp512) (by region_simp512) (by region_simp512) hs hA
  rw [← hval]
  refine ⟨hA, rfl, ?_, rfl, ?_, ?_, ?_, ?_, ?_, ?_, ?_⟩
  · show a (.reg k 1 4) = _
    rw [← hsprd, e]
  · show a (.reg k 0 1) = _
    have e' : a (.reg k 0 4) / 2 ^ 51 = a (.reg k 0 0) := by omega
    rw [s0, e']
  · show a (.reg k 0 3) = _
    have e' : a (.reg k 0 4) / 2 ^ 39 % 2 ^ 12 = a (.reg k 0 2) := by omega
    rw [s1, e']
  · show a (.reg k 1 1) = _
    have e' : a (.reg k 0 4) / 2 ^ 34 % 2 ^ 5 = a (.reg k 1 0) := by omega
    rw [s2, e']
  · show a (.reg k 1 3) = _
    have e' : a (.reg k 0 4) / 2 ^ 28 % 2 ^ 6 = a (.reg k 1 2) := by omega
    rw [s3, e']
  · show a (.reg k 2 1) = _
    have e' : a (.reg k 0 4) / 2 ^ 15 % 2 ^ 13 = a (.reg k 2 0) := by omega
    rw [s4, e']
  · show a (.reg k 2 3) = _
    have e' : a (.reg k 0 4) / 2 ^ 2 % 2 ^ 13 = a (.reg k 2 2) := by omega
    rw [s5, e']
  · show a (.reg k 3 1) = _
    have e' : a (.reg k 0 4) % 2 ^ 2 = a (.reg k 3 0) := by omega
    rw [s6, e']

/-- `fn prepare_E`: the returned `LimbsOfE` holds the sum of the summands modulo `2^64`. -/
theorem prepareE_sound (hp : 2 ^ 130 ≤ p) (ha : ∀ c, a c < p) {ss : List Src}
    (hS : Sat p Gen.sha512Gates a k (prepareE k ss).1) (hs : ∀ i, i < 7 → get a (summand ss i) < 2 ^ 64) :
    EInv a (prepareE k ss).2 (sum7 a ss % 2 ^ 64) := by
  have l0 := hS.look' (o := 0) (by region_simp512) 0 (by omega)
  have t0 : tagAt (prepareE k ss).1 0 0 = 13 := by region_simp512
  rw [t0] at l0
  have l1 := hS.look' (o := 0) (by region_simp512) 1 (by omega)
  have t1 : tagAt (prepareE k ss).1 1 0 = 10 := by region_simp512
  rw [t1] at l1
  have l2 := hS.look' (o := 1) (by region_simp512) 0 (by omega)
  have t2 : tagAt (prepareE k ss).1 0 1 = 13 := by region_simp512
  rw [t2] at l2
  have l3 := hS.look' (o := 1) (by region_simp512) 1 (by omega)
  have t3 : tagAt (prepareE k ss).1 1 1 = 10 := by region_simp512
  rw [t3] at l3
  have l4 := hS.look' (o := 2) (by region_simp512) 0 (by omega)
  have t4 : tagAt (prepareE k ss).1 0 2 = 4 := by region_simp512
  rw [t4] at l4
  have l5 := hS.look' (o := 2) (by region_simp512) 1 (by omega)
  have t5 : tagAt (prepareE k ss).1 1 2 = 13 := by region_simp512
  rw [t5] at l5
  have l6 := hS.look' (o := 3) (by region_simp512) 0 (by omega)
  have t6 : tagAt (prepareE k ss).1 0 3 = 1 := by region_simp512
  rw [t6] at l6
  simp only [Nat.mul_zero, Nat.zero_add, Nat.mul_one] at l0 l1 l2 l3 l4 l5 l6
  obtain ⟨b0, s0⟩ := l0
  obtain ⟨b1, s1⟩ := l1
  obtain ⟨b2, s2⟩ := l2
  obtain ⟨b3, s3⟩ := l3
  obtain ⟨b4, s4⟩ := l4
  obtain ⟨b5, s5⟩ := l5
  obtain ⟨b6, s6⟩ := l6
  have g0 := hS.gate' (s := .dE) (o := 1) (e := Gen.gate512_dE.getD 0 default) (by region_simp512)
    (by simp [Gen.sha512Gates, Gen.gate512_dE])
  have g1 := hS.gate' (s := .dE) (o := 1) (e := Gen.gate512_dE.getD 1 default) (by region_simp512)
    (by simp [Gen.sha512Gates, Gen.gate512_dE])
  have hplain : 2 ^ 51 * a (.reg k 0 0) + 2 ^ 41 * a (.reg k 0 2) + 2 ^ 28 * a (.reg k 1 0) + 2 ^ 18 * a (.reg k 1 2) + 2 ^ 14 * a (.reg k 2 0) + 2 ^ 1 * a (.reg k 2 2) + a (.reg k 3 0)
      = a (.reg k 0 4) := by
    refine exact_of_mod g0 ?_ (by omega) (ha _)
    simp [Gen.gate512_dE, Expr.eval]
    ring
  have hA : a (.reg k 0 4) < 2 ^ 64 := by omega
  have hl : ∀ ka ∈ [(1, a (.reg k 3 0)), (13, a (.reg k 2 2)), (4, a (.reg k 2 0)), (10, a (.reg k 1 2)), (13, a (.reg k 1 0)), (10, a (.reg k 0 2)), (13, a (.reg k 0 0))],
      ka.2 < 2 ^ ka.1 := by
    intro ka hka
    simp at hka
    rcases hka with rfl | rfl | rfl | rfl | rfl | rfl | rfl <;> assumption
  have hs64 := spread64_concatLE _ hl (by simp [bitsTotal])
  simp only [concatLE, spreadConcat] at hs64
  have hx : a (.reg k 0 4) = a (.reg k 3 0) + 2 ^ 1 * (a (.reg k 2 2) + 2 ^ 13 * (a (.reg k 2 0) + 2 ^ 4 * (a (.reg k 1 2) + 2 ^ 10 * (a (.reg k 1 0) + 2 ^ 13 * (a (.reg k 0 2) + 2 ^ 10 * (a (.reg k 0 0) + 2 ^ 13 * 0)))))) := by omega
  have e : 4 ^ 51 * a (.reg k 0 1) + 4 ^ 41 * a (.reg k 0 3) + 4 ^ 28 * a (.reg k 1 1) + 4 ^ 18 * a (.reg k 1 3) + 4 ^ 14 * a (.reg k 2 1) + 4 ^ 1 * a (.reg k 2 3) + a (.reg k 3 1)
      = spreadFuel 64 (a (.reg k 0 4)) := by
    rw [hx, hs64, s0, s1, s2, s3, s4, s5, s6]; ring
  have hsprd : 4 ^ 51 * a (.reg k 0 1) + 4 ^ 41 * a (.reg k 0 3) + 4 ^ 28 * a (.reg k 1 1) + 4 ^ 18 * a (.reg k 1 3) + 4 ^ 14 * a (.reg k 2 1) + 4 ^ 1 * a (.reg k 2 3) + a (.reg k 3 1)
      = a (.reg k 1 4) := by
    have := spread64_lt (a (.reg k 0 4))
    refine exact_of_mod g1 ?_ (by rw [e]; omega) (ha _)
    simp [Gen.gate512_dE, Expr.eval]
    ring
  have hval := addmod_block (ss := ss) hp hS (by region_simp512) (by region_simp512) (by region_simp512) (by region_simp512) (by region_simp512) (by region_simp512) (by region_simp512) (by region_simp512) (by region_simp512) (by region_simp512) hs hA
  rw [← hval]
  refine ⟨hA, rfl, ?_, rfl, ?_, ?_, ?_, ?_, ?_, ?_, ?_⟩
  · show a (.reg k 1 4) = _
    rw [← hsprd, e]
  · show a (.reg k 0 1) = _
    have e' : a (.reg k 0 4) / 2 ^ 51 = a (.reg k 0 0) := by omega
    rw [s0, e']
  · show a (.reg k 0 3) = _
    have e' : a (.reg k 0 4) / 2 ^ 41 % 2 ^ 10 = a (.reg k 0 2) := by omega
    rw [s1, e']
  · show a (.reg k 1 1) = _
    have e' : a (.reg k 0 4) / 2 ^ 28 % 2 ^ 13 = a (.reg k 1 0) := by omega
    rw [s2, e']
  · show a (.reg k 1 3) = _
    have e' : a (.reg k 0 4) / 2 ^ 18 % 2 ^ 10 = a (.reg k 1 2) := by omega
    rw [s3, e']
  · show a (.reg k 2 1) = _
    have e' : a (.reg k 0 4) / 2 ^ 14 % 2 ^ 4 = a (.reg k 2 0) := by omega
    rw [s4, e']
  · show a (.reg k 2 3) = _
    have e' : a (.reg k 0 4) / 2 ^ 1 % 2 ^ 13 = a (.reg k 2 2) := by omega
    rw [s5, e']
  · show a (.reg k 3 1) = _
    have e' : a (.reg k 0 4) % 2 ^ 1 = a (.reg k 3 0) := by omega
    rw [s6, e']

end MidnightZK.C07.Chip512
