import Mathlib.Tactic.Ring
import Mathlib.Tactic.Linarith
import Mathlib.Algebra.BigOperators.Group.Finset.Basic
import Mathlib.Algebra.BigOperators.Ring.Finset
import MidnightZK.Model.C07.Poseidon
/-! Helper lemmas for C07: `vec`, `sumTo`, `iter`. -/
namespace MidnightZK.C07

open Finset
set_option linter.unusedSectionVars false

section
variable {α : Type}

theorem getD_map_range (f : Nat → α) (n i : Nat) (d : α) (h : i < n) :
    ((List.range n).map f).getD i d = f i := by
  simp [List.getD_eq_getElem?_getD, h]

theorem getD_map_range_ge (f : Nat → α) (n i : Nat) (d : α) (h : n ≤ i) :
    ((List.range n).map f).getD i d = d := by
  simp [List.getD_eq_getElem?_getD, h]

theorem iter_snoc (f : Nat → α → α) : ∀ (n s : Nat) (a : α),
    iter f (n + 1) s a = f (s + n) (iter f n s a)
  | 0, s, a => by simp [iter]
  | n + 1, s, a => by
    rw [iter, iter_snoc f n (s + 1) (f s a)]
    have : s + 1 + n = s + (n + 1) := by omega
    rw [this]
    rfl

theorem iter_add (f : Nat → α → α) : ∀ (a b s : Nat) (x : α),
    iter f (a + b) s x = iter f b (s + a) (iter f a s x)
  | 0, b, s, x => by simp [iter]
  | a + 1, b, s, x => by
    have : a + 1 + b = (a + b) + 1 := by omega
    rw [this, iter, iter_add f a b (s + 1) (f s x), iter]
    have : s + 1 + a = s + (a + 1) := by omega
    rw [this]

theorem iter_congr (f g : Nat → α → α) : ∀ (n s : Nat) (a : α),
    (∀ r, s ≤ r → r < s + n → ∀ x, f r x = g r x) → iter f n s a = iter g n s a
  | 0, _, _, _ => rfl
  | n + 1, s, a, h => by
    rw [iter, iter, h s (le_refl _) (by omega)]
    exact iter_congr f g n (s + 1) _ (fun r h1 h2 x => h r (by omega) (by omega) x)

end

section
variable {F : Type} [CommRing F]

@[simp] theorem length_vec (n : Nat) (f : Nat → F) : (vec n f).length = n := by simp [vec]

theorem getD_vec (n : Nat) (f : Nat → F) (i : Nat) (d : F) (h : i < n) : (vec n f).getD i d = f i :=
  getD_map_range f n i d h

theorem getD_vec_ge (n : Nat) (f : Nat → F) (i : Nat) (d : F) (h : n ≤ i) : (vec n f).getD i d = d :=
  getD_map_range_ge f n i d h

theorem vec_congr (n : Nat) (f g : Nat → F) (h : ∀ i, i < n → f i = g i) : vec n f = vec n g := by
  unfold vec
  apply List.map_congr_left
  intro i hi
  exact h i (List.mem_range.mp hi)

theorem sumTo_eq (n : Nat) (f : Nat → F) (init : F) :
    sumTo n f init = init + ∑ j ∈ range n, f j := by
  unfold sumTo
  induction n with
  | zero => simp
  | succ n ih =>
    rw [List.range_succ, List.foldl_append, ih, Finset.sum_range_succ]
    simp only [List.foldl_cons, List.foldl_nil]
    ring

end

end MidnightZK.C07
