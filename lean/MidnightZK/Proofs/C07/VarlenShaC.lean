import MidnightZK.Model.C07.ShaVarlen
/-! C07: kernel evaluation of the structural check of `sha256_varlen` — `MAX_LEN = 128`, every `65 ≤ len ≤ 128`
(separate modules so that lake checks them in parallel). -/
namespace MidnightZK.C07

theorem varlenShaC : (List.range 64).all (fun i => varlenStructOk 128 (65 + i)) = true := by
  decide +kernel

end MidnightZK.C07
