import MidnightZK.Proofs.C07.RmdOps2
/-! C07: the five boolean functions of RIPEMD-160 as computed by `fn f` of the chip
(`prepare_spreaded` ×3, then `f_type_one` / `f_type_two` / `f_type_three`). -/
namespace MidnightZK.C07.ChipR
open MidnightZK.C07
open MidnightZK.C07.Chip (Src Asg get InTable IsPlain IsSpr spread32_lt zero maskEvn64 mask_eq get_reg get_const get_ext)

variable {p : Nat} {a : Asg} {k : Nat}

/-- `(X ⊕ ¬Y ⊕ Z) ⊕ (X ∧ ¬Y) = (X ∨ ¬Y) ⊕ Z` (the decomposition `f_type_three` uses). -/
theorem f3_identity (x ny z : Nat) : (x ^^^ ny ^^^ z) ^^^ (x &&& ny) = (x ||| ny) ^^^ z := by
  apply Nat.eq_of_testBit_eq
  intro i
  simp only [Nat.testBit_or, Nat.testBit_xor, Nat.testBit_and]
  cases x.testBit i <;> cases ny.testBit i <;> cases z.testBit i <;> rfl

/-- The output of the native gadget's `linear_combination([(-1, ~Y)], MASK_EVN_64)` is the spread of `¬Y`
(stated interface of the native gadget: the output cell plus `~Y` equals `MASK_EVN_64`). -/
theorem lc_isSpr {sY : Src} {xi y : Nat} (hY : IsSpr a sY y) (hLC : a (.ext xi) + get a sY = maskEvn64) :
    IsSpr a (.ext xi) (notW 32 y) := by
  have hnot := spread_not 32 y hY.2
  rw [hY.1, mask_eq] at hLC
  refine ⟨?_, by unfold notW; omega⟩
  show a (.ext xi) = _
  unfold notW; omega

/-- `fn f_type_three` (five regions): the returned cell holds `(X ∨ ¬Y) ⊕ Z`. -/
theorem fTypeThree_sound (hp : 2 ^ 66 ≤ p) (ha : ∀ c, a c < p) {sX sY sZ : Src} {xi x y z : Nat}
    (hS : TraceSat p Gen.rmdGates a k (fTypeThree k xi sX sY sZ).1)
    (hX : IsSpr a sX x) (hY : IsSpr a sY y) (hZ : IsSpr a sZ z)
    (hLC : a (.ext xi) + get a sY = maskEvn64) :
    IsPlain a (fTypeThree k xi sX sY sZ).2 (Rmd.f 2 x y z) := by
  obtain ⟨h0, h1, h2, h3, h4, -⟩ := hS
  have hnY := lc_isSpr hY hLC
  have t1 := fTypeOne_sound hp ha h0 hX hnY hZ
  have s1 := prepareSpreaded_sound hp ha h1 t1.1
  have t2 := and_sound hp ha h2 hX hnY
  have s2 := prepareSpreaded_sound hp ha h3 t2.1
  have o := xor_sound hp ha h4 s1 s2
  rw [f3_identity] at o
  exact o

/-- `fn f(idx, X, Y, Z)` for every round index: whatever the three input cells hold, they hold 32-bit
words (forced by the three `prepare_spreaded`) and the returned cell holds `f_{idx/16}(X, Y, Z)`.
`hLC`: the interface of the native `linear_combination` for the call (if any) this `f` makes. -/
theorem fEmit_sound (hp : 2 ^ 66 ≤ p) (ha : ∀ c, a c < p) (em : Em) {idx : Nat} (hidx : idx < 80)
    {X Y Z : Src} {x y z : Nat}
    (hS : TraceSat p Gen.rmdGates a em.k (fEmit em idx X Y Z).1)
    (hX : get a X = x) (hY : get a Y = y) (hZ : get a Z = z)
    (hLC : ∀ sY, (em.x, sY) ∈ (fEmit em idx X Y Z).2.2.lcs → a (.ext em.x) + get a sY = maskEvn64) :
    IsPlain a (fEmit em idx X Y Z).2.1 (Rmd.f (idx / 16) x y z) ∧ x < 2 ^ 32 ∧ y < 2 ^ 32 ∧ z < 2 ^ 32 := by
  have hq : idx / 16 = 0 ∨ idx / 16 = 1 ∨ idx / 16 = 2 ∨ idx / 16 = 3 ∨ idx / 16 = 4 := by omega
  rcases hq with hq | hq | hq | hq | hq
  · simp only [fEmit, hq] at hS hLC ⊢
    obtain ⟨h0, h1, h2, h3, -⟩ := hS
    have sx := prepareSpreaded_sound hp ha h0 hX
    have sy := prepareSpreaded_sound hp ha h1 hY
    have sz := prepareSpreaded_sound hp ha h2 hZ
    exact ⟨fTypeOne_sound hp ha h3 sx sy sz, sx.2, sy.2, sz.2⟩
  · simp only [fEmit, hq] at hS hLC ⊢
    obtain ⟨h0, h1, h2, h3, -⟩ := hS
    have sx := prepareSpreaded_sound hp ha h0 hX
    have sy := prepareSpreaded_sound hp ha h1 hY
    have sz := prepareSpreaded_sound hp ha h2 hZ
    exact ⟨fTypeTwo_sound hp ha h3 sx sy sz, sx.2, sy.2, sz.2⟩
  · simp only [fEmit, hq] at hS hLC ⊢
    obtain ⟨h0, h1, h2, h3⟩ := hS
    have sx := prepareSpreaded_sound hp ha h0 hX
    have sy := prepareSpreaded_sound hp ha h1 hY
    have sz := prepareSpreaded_sound hp ha h2 hZ
    have l := hLC (prepareSpreaded (em.k + 1) Y).2 (by simp)
    exact ⟨fTypeThree_sound hp ha h3 sx sy sz l, sx.2, sy.2, sz.2⟩
  · simp only [fEmit, hq] at hS hLC ⊢
    obtain ⟨h0, h1, h2, h3, -⟩ := hS
    have sx := prepareSpreaded_sound hp ha h0 hX
    have sy := prepareSpreaded_sound hp ha h1 hY
    have sz := prepareSpreaded_sound hp ha h2 hZ
    have o := fTypeTwo_sound hp ha h3 sz sx sy
    have e : Rmd.f 1 z x y = Rmd.f 3 x y z := by
      show (z &&& x) ||| (notW 32 z &&& y) = (x &&& z) ||| (y &&& notW 32 z)
      rw [Nat.and_comm z x, Nat.and_comm (notW 32 z) y]
    rw [e] at o
    exact ⟨o, sx.2, sy.2, sz.2⟩
  · simp only [fEmit, hq] at hS hLC ⊢
    obtain ⟨h0, h1, h2, h3⟩ := hS
    have sx := prepareSpreaded_sound hp ha h0 hX
    have sy := prepareSpreaded_sound hp ha h1 hY
    have sz := prepareSpreaded_sound hp ha h2 hZ
    have l := hLC (prepareSpreaded (em.k + 2) Z).2 (by simp)
    have o := fTypeThree_sound hp ha h3 sy sz sx l
    have e : Rmd.f 2 y z x = Rmd.f 4 x y z := by
      show (y ||| notW 32 z) ^^^ x = x ^^^ (y ||| notW 32 z)
      rw [Nat.xor_comm]
    rw [e] at o
    exact ⟨o, sx.2, sy.2, sz.2⟩

/-! ## Executable satisfaction (non-vacuity examples) -/

/-- Executable form of `Sat`. -/
def satB (p : Nat) (G : Sel → List Expr) (a : Asg) (k : Nat) (r : Region) : Bool :=
  r.sels.all (fun so => (G so.1).all (fun e => e.eval (rowEnv a k so.2) (fixEnv r so.2) % (p : Int) == 0)) &&
  r.sels.all (fun so => so.1 != .lookup ||
    (Chip.inTableB (fixAt r 0 so.2) (a (.reg k so.2 0)) (a (.reg k so.2 1)) &&
     Chip.inTableB (fixAt r 1 so.2) (a (.reg k so.2 2)) (a (.reg k so.2 3)))) &&
  r.copies.all (fun c => a (.reg k c.2.2 c.2.1) == get a c.1)

/-- The executable check implies `Sat`. -/
theorem satB_sound {G : Sel → List Expr} {r : Region} (h : satB p G a k r = true) : Sat p G a k r := by
  simp only [satB, Bool.and_eq_true, List.all_eq_true, beq_iff_eq, Bool.or_eq_true, bne_iff_ne, ne_eq,
    Chip.inTableB, decide_eq_true_eq] at h
  obtain ⟨⟨hg, hl⟩, hc⟩ := h
  refine ⟨fun so hso e he => hg so hso e he, ?_, fun c hc' => hc c hc'⟩
  intro so hso hlk li hli
  rcases hl so hso with h1 | ⟨⟨h0, h0'⟩, ⟨h1, h1'⟩⟩
  · exact absurd hlk h1
  · have : li = 0 ∨ li = 1 := by omega
    rcases this with rfl | rfl
    · exact ⟨h0, h0'⟩
    · exact ⟨h1, h1'⟩

/-- 11-11-10 limb `o` (big-endian) of a 32-bit word. -/
def limb111110 (v o : Nat) : Nat :=
  match o with
  | 0 => v / 2 ^ 21
  | 1 => v / 2 ^ 10 % 2 ^ 11
  | _ => v % 2 ^ 10

/-- The honest witness of an `and` region (region 0, inputs `~x`, `~y` in the external cells 0, 1). -/
def andWitness (x y : Nat) : Asg
  | .ext 0 => spreadFuel 32 x
  | .ext _ => spreadFuel 32 y
  | .const v => v
  | .reg _ o c =>
    match c with
    | 0 => limb111110 (x &&& y) o
    | 1 => spreadFuel 32 (limb111110 (x &&& y) o)
    | 2 => limb111110 (x ^^^ y) o
    | 3 => spreadFuel 32 (limb111110 (x ^^^ y) o)
    | 4 => x &&& y
    | 5 => spreadFuel 32 x
    | 6 => spreadFuel 32 y
    | _ => 0

end MidnightZK.C07.ChipR
