import MidnightZK.Proofs.C07.Chip512Base
/-! C07: soundness of `Σ₀`, `Σ₁` of the SHA-512 chip, from the generated gate polynomials, the lookups and
the copy constraints of the emitted region (same structure as the SHA-256 proofs of `ChipRegions.lean`). -/
namespace MidnightZK.C07.Chip512
open MidnightZK.C07 MidnightZK.C07.Chip

variable {p : Nat} {a : Asg} {k : Nat}

/-- `fn Sigma0` of `sha512_chip.rs`: the returned cell holds `rotr 64 x 28 ^^^ rotr 64 x 34 ^^^ rotr 64 x 39`. -/
theorem Sigma0_sound (hp : 2 ^ 130 ≤ p) (ha : ∀ c, a c < p) {ar : LRefs} {x : Nat} (kk ivv : List Nat)
    (hS : Sat p Gen.sha512Gates a k (Sigma0 k ar).1) (hI : AInv a ar x) :
    IsPlain a (Sigma0 k ar).2 ((sha512P kk ivv).bigSigma0 x) := by
  rcases ar with ⟨pl, sp, limbs⟩
  have hlen : limbs.length = 7 := hI.len
  obtain ⟨s0, s1, s2, s3, s4, s5, s6, rfl⟩ := list7 hlen
  have e0 := hI.l0
  have e1 := hI.l1
  have e2 := hI.l2
  have e3 := hI.l3
  have e4 := hI.l4
  have e5 := hI.l5
  have e6 := hI.l6
  simp only [List.getD_cons_succ, List.getD_cons_zero] at e0 e1 e2 e3 e4 e5 e6
  obtain ⟨v, hu, hv, su, sv⟩ := sprdd_block (off := 0) hp ha hS (by region_simp512) (by region_simp512) (by region_simp512) (by region_simp512) (by region_simp512) (by region_simp512) (by region_simp512) (by region_simp512) (by region_simp512) (by region_simp512) (by region_simp512) (by region_simp512) (by region_simp512) (by region_simp512) (by region_simp512) (by region_simp512)
  have c0 := hS.copy' (src := s0) (col := 5) (off := 0) (by region_simp512)
  have c1 := hS.copy' (src := s1) (col := 6) (off := 0) (by region_simp512)
  have c2 := hS.copy' (src := s2) (col := 5) (off := 1) (by region_simp512)
  have c3 := hS.copy' (src := s3) (col := 6) (off := 1) (by region_simp512)
  have c4 := hS.copy' (src := s4) (col := 5) (off := 2) (by region_simp512)
  have c5 := hS.copy' (src := s5) (col := 6) (off := 2) (by region_simp512)
  have c6 := hS.copy' (src := s6) (col := 5) (off := 3) (by region_simp512)
  rw [e0] at c0
  rw [e1] at c1
  rw [e2] at c2
  rw [e3] at c3
  rw [e4] at c4
  rw [e5] at c5
  rw [e6] at c6
  have g := hS.gate' (s := .Sig0) (o := 1) (e := Gen.gate512_Sig0.getD 0 default) (by region_simp512)
    (by simp [Gen.sha512Gates, Gen.gate512_Sig0])
  simp only [Nat.zero_add] at su sv
  have hx := hI.lt
  set L0 := x / 2 ^ 51 with hL0
  set L1 := x / 2 ^ 39 % 2 ^ 12 with hL1
  set L2 := x / 2 ^ 34 % 2 ^ 5 with hL2
  set L3 := x / 2 ^ 28 % 2 ^ 6 with hL3
  set L4 := x / 2 ^ 15 % 2 ^ 13 with hL4
  set L5 := x / 2 ^ 2 % 2 ^ 13 with hL5
  set L6 := x % 2 ^ 2 with hL6
  have b0 : L0 < 2 ^ 13 := by omega
  have b1 : L1 < 2 ^ 12 := by omega
  have b2 : L2 < 2 ^ 5 := by omega
  have b3 : L3 < 2 ^ 6 := by omega
  have b4 : L4 < 2 ^ 13 := by omega
  have b5 : L5 < 2 ^ 13 := by omega
  have b6 : L6 < 2 ^ 2 := by omega
  have hxc : x = concatLE [(2, L6), (13, L5), (13, L4), (6, L3), (5, L2), (12, L1), (13, L0)] := by
    simp only [concatLE]; omega
  have hl : ∀ l, l ⊆ [(2, L6), (13, L5), (13, L4), (6, L3), (5, L2), (12, L1), (13, L0)] → ∀ ka ∈ l, ka.2 < 2 ^ ka.1 := by
    intro l hl ka hka
    have := hl hka
    simp at this
    rcases this with rfl | rfl | rfl | rfl | rfl | rfl | rfl <;> assumption
  have r0 : rotr 64 x 28 = concatLE ([(6, L3), (5, L2), (12, L1), (13, L0)] ++ [(2, L6), (13, L5), (13, L4)]) := by
    rw [hxc]
    exact rotr_concat 64 [(2, L6), (13, L5), (13, L4)] [(6, L3), (5, L2), (12, L1), (13, L0)] (hl _ (by simp)) (hl _ (by simp)) rfl
  have s0' := spread64_concatLE ([(6, L3), (5, L2), (12, L1), (13, L0)] ++ [(2, L6), (13, L5), (13, L4)]) (hl _ (by simp)) (by simp [bitsTotal])
  rw [← r0] at s0'
  have r1 : rotr 64 x 34 = concatLE ([(5, L2), (12, L1), (13, L0)] ++ [(2, L6), (13, L5), (13, L4), (6, L3)]) := by
    rw [hxc]
    exact rotr_concat 64 [(2, L6), (13, L5), (13, L4), (6, L3)] [(5, L2), (12, L1), (13, L0)] (hl _ (by simp)) (hl _ (by simp)) rfl
  have s1' := spread64_concatLE ([(5, L2), (12, L1), (13, L0)] ++ [(2, L6), (13, L5), (13, L4), (6, L3)]) (hl _ (by simp)) (by simp [bitsTotal])
  rw [← r1] at s1'
  have r2 : rotr 64 x 39 = concatLE ([(12, L1), (13, L0)] ++ [(2, L6), (13, L5), (13, L4), (6, L3), (5, L2)]) := by
    rw [hxc]
    exact rotr_concat 64 [(2, L6), (13, L5), (13, L4), (6, L3), (5, L2)] [(12, L1), (13, L0)] (hl _ (by simp)) (hl _ (by simp)) rfl
  have s2' := spread64_concatLE ([(12, L1), (13, L0)] ++ [(2, L6), (13, L5), (13, L4), (6, L3), (5, L2)]) (hl _ (by simp)) (by simp [bitsTotal])
  rw [← r2] at s2'
  simp only [List.cons_append, List.nil_append, spreadConcat] at s0' s1' s2'
  have bx0 := spread64_lt (rotr 64 x 28)
  have bx1 := spread64_lt (rotr 64 x 34)
  have bx2 := spread64_lt (rotr 64 x 39)
  have bu := spread64_lt (a (.reg k 0 4))
  have bv := spread64_lt v
  have hL : (4 ^ 0 * a (.reg k 1 6) + 4 ^ 6 * a (.reg k 1 5) + 4 ^ 11 * a (.reg k 0 6) + 4 ^ 23 * a (.reg k 0 5) + 4 ^ 36 * a (.reg k 3 5) + 4 ^ 38 * a (.reg k 2 6) + 4 ^ 51 * a (.reg k 2 5))
      + (4 ^ 0 * a (.reg k 1 5) + 4 ^ 5 * a (.reg k 0 6) + 4 ^ 17 * a (.reg k 0 5) + 4 ^ 30 * a (.reg k 3 5) + 4 ^ 32 * a (.reg k 2 6) + 4 ^ 45 * a (.reg k 2 5) + 4 ^ 58 * a (.reg k 1 6))
      + (4 ^ 0 * a (.reg k 0 6) + 4 ^ 12 * a (.reg k 0 5) + 4 ^ 25 * a (.reg k 3 5) + 4 ^ 27 * a (.reg k 2 6) + 4 ^ 40 * a (.reg k 2 5) + 4 ^ 53 * a (.reg k 1 6) + 4 ^ 59 * a (.reg k 1 5))
      = spreadFuel 64 (rotr 64 x 28) + spreadFuel 64 (rotr 64 x 34) + spreadFuel 64 (rotr 64 x 39) := by
    rw [c0, c1, c2, c3, c4, c5, c6, s0', s1', s2']; ring
  have hsum : (4 ^ 0 * a (.reg k 1 6) + 4 ^ 6 * a (.reg k 1 5) + 4 ^ 11 * a (.reg k 0 6) + 4 ^ 23 * a (.reg k 0 5) + 4 ^ 36 * a (.reg k 3 5) + 4 ^ 38 * a (.reg k 2 6) + 4 ^ 51 * a (.reg k 2 5))
      + (4 ^ 0 * a (.reg k 1 5) + 4 ^ 5 * a (.reg k 0 6) + 4 ^ 17 * a (.reg k 0 5) + 4 ^ 30 * a (.reg k 3 5) + 4 ^ 32 * a (.reg k 2 6) + 4 ^ 45 * a (.reg k 2 5) + 4 ^ 58 * a (.reg k 1 6))
      + (4 ^ 0 * a (.reg k 0 6) + 4 ^ 12 * a (.reg k 0 5) + 4 ^ 25 * a (.reg k 3 5) + 4 ^ 27 * a (.reg k 2 6) + 4 ^ 40 * a (.reg k 2 5) + 4 ^ 53 * a (.reg k 1 6) + 4 ^ 59 * a (.reg k 1 5))
      = (4 ^ 51 * a (.reg k 0 1) + 4 ^ 38 * a (.reg k 1 1) + 4 ^ 25 * a (.reg k 2 1) + 4 ^ 12 * a (.reg k 3 1) + a (.reg k 4 1))
        + 2 * (4 ^ 51 * a (.reg k 0 3) + 4 ^ 38 * a (.reg k 1 3) + 4 ^ 25 * a (.reg k 2 3) + 4 ^ 12 * a (.reg k 3 3) + a (.reg k 4 3)) := by
    refine exact_of_mod g ?_ (by rw [hL]; omega) (by rw [su, sv]; omega)
    simp [Gen.gate512_Sig0, Expr.eval]
    ring
  rw [hL, su, sv] at hsum
  have hlt : ∀ n, n ≤ 64 → rotr 64 x n < 2 ^ 64 := fun n hn => rotr_lt 64 x n hx hn
  have := spread_sum_even_odd 64 _ _ _ (a (.reg k 0 4)) v (hlt 28 (by omega)) (hlt 34 (by omega)) (hlt 39 (by omega))
    hu hv hsum
  have e : (sha512P kk ivv).bigSigma0 x = rotr 64 x 28 ^^^ rotr 64 x 34 ^^^ rotr 64 x 39 := rfl
  refine ⟨?_, ?_⟩
  · show get a (.reg k 0 4) = _
    rw [get_reg, this.1, e]
  · rw [e, ← this.1]; exact hu

/-- `fn Sigma1` of `sha512_chip.rs`: the returned cell holds `rotr 64 x 14 ^^^ rotr 64 x 18 ^^^ rotr 64 x 41`. -/
theorem Sigma1_sound (hp : 2 ^ 130 ≤ p) (ha : ∀ c, a c < p) {er : LRefs} {x : Nat} (kk ivv : List Nat)
    (hS : Sat p Gen.sha512Gates a k (Sigma1 k er).1) (hI : EInv a er x) :
    IsPlain a (Sigma1 k er).2 ((sha512P kk ivv).bigSigma1 x) := by
  rcases er with ⟨pl, sp, limbs⟩
  have hlen : limbs.length = 7 := hI.len
  obtain ⟨s0, s1, s2, s3, s4, s5, s6, rfl⟩ := list7 hlen
  have e0 := hI.l0
  have e1 := hI.l1
  have e2 := hI.l2
  have e3 := hI.l3
  have e4 := hI.l4
  have e5 := hI.l5
  have e6 := hI.l6
  simp only [List.getD_cons_succ, List.getD_cons_zero] at e0 e1 e2 e3 e4 e5 e6
  obtain ⟨v, hu, hv, su, sv⟩ := sprdd_block (off := 0) hp ha hS (by region_simp512) (by region_simp512) (by region_simp512) (by region_simp512) (by region_simp512) (by region_simp512) (by region_simp512) (by region_simp512) (by region_simp512) (by region_simp512) (by region_simp512) (by region_simp512) (by region_simp512) (by region_simp512) (by region_simp512) (by region_simp512)
  have c0 := hS.copy' (src := s0) (col := 5) (off := 0) (by region_simp512)
  have c1 := hS.copy' (src := s1) (col := 6) (off := 0) (by region_simp512)
  have c2 := hS.copy' (src := s2) (col := 5) (off := 1) (by region_simp512)
  have c3 := hS.copy' (src := s3) (col := 6) (off := 1) (by region_simp512)
  have c4 := hS.copy' (src := s4) (col := 5) (off := 2) (by region_simp512)
  have c5 := hS.copy' (src := s5) (col := 6) (off := 2) (by region_simp512)
  have c6 := hS.copy' (src := s6) (col := 5) (off := 3) (by region_simp512)
  rw [e0] at c0
  rw [e1] at c1
  rw [e2] at c2
  rw [e3] at c3
  rw [e4] at c4
  rw [e5] at c5
  rw [e6] at c6
  have g := hS.gate' (s := .Sig1) (o := 1) (e := Gen.gate512_Sig1.getD 0 default) (by region_simp512)
    (by simp [Gen.sha512Gates, Gen.gate512_Sig1])
  simp only [Nat.zero_add] at su sv
  have hx := hI.lt
  set L0 := x / 2 ^ 51 with hL0
  set L1 := x / 2 ^ 41 % 2 ^ 10 with hL1
  set L2 := x / 2 ^ 28 % 2 ^ 13 with hL2
  set L3 := x / 2 ^ 18 % 2 ^ 10 with hL3
  set L4 := x / 2 ^ 14 % 2 ^ 4 with hL4
  set L5 := x / 2 ^ 1 % 2 ^ 13 with hL5
  set L6 := x % 2 ^ 1 with hL6
  have b0 : L0 < 2 ^ 13 := by omega
  have b1 : L1 < 2 ^ 10 := by omega
  have b2 : L2 < 2 ^ 13 := by omega
  have b3 : L3 < 2 ^ 10 := by omega
  have b4 : L4 < 2 ^ 4 := by omega
  have b5 : L5 < 2 ^ 13 := by omega
  have b6 : L6 < 2 ^ 1 := by omega
  have hxc : x = concatLE [(1, L6), (13, L5), (4, L4), (10, L3), (13, L2), (10, L1), (13, L0)] := by
    simp only [concatLE]; omega
  have hl : ∀ l, l ⊆ [(1, L6), (13, L5), (4, L4), (10, L3), (13, L2), (10, L1), (13, L0)] → ∀ ka ∈ l, ka.2 < 2 ^ ka.1 := by
    intro l hl ka hka
    have := hl hka
    simp at this
    rcases this with rfl | rfl | rfl | rfl | rfl | rfl | rfl <;> assumption
  have r0 : rotr 64 x 14 = concatLE ([(4, L4), (10, L3), (13, L2), (10, L1), (13, L0)] ++ [(1, L6), (13, L5)]) := by
    rw [hxc]
    exact rotr_concat 64 [(1, L6), (13, L5)] [(4, L4), (10, L3), (13, L2), (10, L1), (13, L0)] (hl _ (by simp)) (hl _ (by simp)) rfl
  have s0' := spread64_concatLE ([(4, L4), (10, L3), (13, L2), (10, L1), (13, L0)] ++ [(1, L6), (13, L5)]) (hl _ (by simp)) (by simp [bitsTotal])
  rw [← r0] at s0'
  have r1 : rotr 64 x 18 = concatLE ([(10, L3), (13, L2), (10, L1), (13, L0)] ++ [(1, L6), (13, L5), (4, L4)]) := by
    rw [hxc]
    exact rotr_concat 64 [(1, L6), (13, L5), (4, L4)] [(10, L3), (13, L2), (10, L1), (13, L0)] (hl _ (by simp)) (hl _ (by simp)) rfl
  have s1' := spread64_concatLE ([(10, L3), (13, L2), (10, L1), (13, L0)] ++ [(1, L6), (13, L5), (4, L4)]) (hl _ (by simp)) (by simp [bitsTotal])
  rw [← r1] at s1'
  have r2 : rotr 64 x 41 = concatLE ([(10, L1), (13, L0)] ++ [(1, L6), (13, L5), (4, L4), (10, L3), (13, L2)]) := by
    rw [hxc]
    exact rotr_concat 64 [(1, L6), (13, L5), (4, L4), (10, L3), (13, L2)] [(10, L1), (13, L0)] (hl _ (by simp)) (hl _ (by simp)) rfl
  have s2' := spread64_concatLE ([(10, L1), (13, L0)] ++ [(1, L6), (13, L5), (4, L4), (10, L3), (13, L2)]) (hl _ (by simp)) (by simp [bitsTotal])
  rw [← r2] at s2'
  simp only [List.cons_append, List.nil_append, spreadConcat] at s0' s1' s2'
  have bx0 := spread64_lt (rotr 64 x 14)
  have bx1 := spread64_lt (rotr 64 x 18)
  have bx2 := spread64_lt (rotr 64 x 41)
  have bu := spread64_lt (a (.reg k 0 4))
  have bv := spread64_lt v
  have hL : (4 ^ 0 * a (.reg k 2 5) + 4 ^ 4 * a (.reg k 1 6) + 4 ^ 14 * a (.reg k 1 5) + 4 ^ 27 * a (.reg k 0 6) + 4 ^ 37 * a (.reg k 0 5) + 4 ^ 50 * a (.reg k 3 5) + 4 ^ 51 * a (.reg k 2 6))
      + (4 ^ 0 * a (.reg k 1 6) + 4 ^ 10 * a (.reg k 1 5) + 4 ^ 23 * a (.reg k 0 6) + 4 ^ 33 * a (.reg k 0 5) + 4 ^ 46 * a (.reg k 3 5) + 4 ^ 47 * a (.reg k 2 6) + 4 ^ 60 * a (.reg k 2 5))
      + (4 ^ 0 * a (.reg k 0 6) + 4 ^ 10 * a (.reg k 0 5) + 4 ^ 23 * a (.reg k 3 5) + 4 ^ 24 * a (.reg k 2 6) + 4 ^ 37 * a (.reg k 2 5) + 4 ^ 41 * a (.reg k 1 6) + 4 ^ 51 * a (.reg k 1 5))
      = spreadFuel 64 (rotr 64 x 14) + spreadFuel 64 (rotr 64 x 18) + spreadFuel 64 (rotr 64 x 41) := by
    rw [c0, c1, c2, c3, c4, c5, c6, s0', s1', s2']; ring
  have hsum : (4 ^ 0 * a (.reg k 2 5) + 4 ^ 4 * a (.reg k 1 6) + 4 ^ 14 * a (.reg k 1 5) + 4 ^ 27 * a (.reg k 0 6) + 4 ^ 37 * a (.reg k 0 5) + 4 ^ 50 * a (.reg k 3 5) + 4 ^ 51 * a (.reg k 2 6))
      + (4 ^ 0 * a (.reg k 1 6) + 4 ^ 10 * a (.reg k 1 5) + 4 ^ 23 * a (.reg k 0 6) + 4 ^ 33 * a (.reg k 0 5) + 4 ^ 46 * a (.reg k 3 5) + 4 ^ 47 * a (.reg k 2 6) + 4 ^ 60 * a (.reg k 2 5))
      + (4 ^ 0 * a (.reg k 0 6) + 4 ^ 10 * a (.reg k 0 5) + 4 ^ 23 * a (.reg k 3 5) + 4 ^ 24 * a (.reg k 2 6) + 4 ^ 37 * a (.reg k 2 5) + 4 ^ 41 * a (.reg k 1 6) + 4 ^ 51 * a (.reg k 1 5))
      = (4 ^ 51 * a (.reg k 0 1) + 4 ^ 38 * a (.reg k 1 1) + 4 ^ 25 * a (.reg k 2 1) + 4 ^ 12 * a (.reg k 3 1) + a (.reg k 4 1))
        + 2 * (4 ^ 51 * a (.reg k 0 3) + 4 ^ 38 * a (.reg k 1 3) + 4 ^ 25 * a (.reg k 2 3) + 4 ^ 12 * a (.reg k 3 3) + a (.reg k 4 3)) := by
    refine exact_of_mod g ?_ (by rw [hL]; omega) (by rw [su, sv]; omega)
    simp [Gen.gate512_Sig1, Expr.eval]
    ring
  rw [hL, su, sv] at hsum
  have hlt : ∀ n, n ≤ 64 → rotr 64 x n < 2 ^ 64 := fun n hn => rotr_lt 64 x n hx hn
  have := spread_sum_even_odd 64 _ _ _ (a (.reg k 0 4)) v (hlt 14 (by omega)) (hlt 18 (by omega)) (hlt 41 (by omega))
    hu hv hsum
  have e : (sha512P kk ivv).bigSigma1 x = rotr 64 x 14 ^^^ rotr 64 x 18 ^^^ rotr 64 x 41 := rfl
  refine ⟨?_, ?_⟩
  · show get a (.reg k 0 4) = _
    rw [get_reg, this.1, e]
  · rw [e, ← this.1]; exact hu

end MidnightZK.C07.Chip512
