import Mathlib.Tactic.Ring
import Mathlib.Tactic.Linarith
import Mathlib.Tactic.NormNum
import Mathlib.Tactic.Push
import Mathlib.Data.Nat.Prime.Basic
import MidnightZK.Model.C07.ShaChip
import MidnightZK.Gen.C07ShaGates
import MidnightZK.Proofs.C07.Spread
/-! C07: basic lemmas about `Sat` / `TraceSat` and the `assign_sprdd_11_11_10` block. -/
namespace MidnightZK.C07.Chip
open MidnightZK.C07

/-- A gate value that vanishes modulo `p` and is a difference of two naturals below `p` forces the
two naturals to be equal (no wrap-around). -/
theorem exact_of_mod {p : Nat} {e : Int} {L R : Nat} (h : e % (p : Int) = 0) (he : e = (L : Int) - (R : Int))
    (hL : L < p) (hR : R < p) : L = R := by
  subst he
  have hd : (p : Int) ∣ (L : Int) - (R : Int) := Int.dvd_of_emod_eq_zero h
  obtain ⟨c, hc⟩ := hd
  have h1 : (L : Int) - R < p := by omega
  have h2 : -(p : Int) < (L : Int) - R := by omega
  have hc0 : c = 0 := by
    by_contra hne
    rcases lt_or_gt_of_ne hne with hneg | hpos
    · have : (p : Int) * c ≤ (p : Int) * (-1) := Int.mul_le_mul_of_nonneg_left (by omega) (by omega)
      omega
    · have : (p : Int) * 1 ≤ (p : Int) * c := Int.mul_le_mul_of_nonneg_left (by omega) (by omega)
      omega
  rw [hc0] at hc
  omega

/-- Variant for `x + y ≡ m` with `x ≤ m < p` and `y < p` (the `~E + ~(¬E) = MASK_EVN_64` identity: the
left side is not known to be below `p` beforehand). -/
theorem exact_of_mod_add {p : Nat} {e : Int} {x y m : Nat} (h : e % (p : Int) = 0)
    (he : e = (x : Int) + (y : Int) - (m : Int)) (hx : x ≤ m) (hm : m < p) (hy : y < p) : x + y = m := by
  subst he
  have hd : (p : Int) ∣ (x : Int) + y - m := Int.dvd_of_emod_eq_zero h
  obtain ⟨c, hc⟩ := hd
  have h1 : (x : Int) + y - m < p := by omega
  have h2 : -(p : Int) < (x : Int) + y - m := by omega
  have hc0 : c = 0 := by
    by_contra hne
    rcases lt_or_gt_of_ne hne with hneg | hpos
    · have : (p : Int) * c ≤ (p : Int) * (-1) := Int.mul_le_mul_of_nonneg_left (by omega) (by omega)
      omega
    · have : (p : Int) * 1 ≤ (p : Int) * c := Int.mul_le_mul_of_nonneg_left (by omega) (by omega)
      omega
  rw [hc0] at hc
  omega

/-- The 1-bit check `w·(w − 1) = 0` over a prime field. -/
theorem bit_of_mod {p : Nat} (hp : Nat.Prime p) {e : Int} {w : Nat} (h : e % (p : Int) = 0)
    (he : e = (w : Int) * ((w : Int) - 1)) (hw : w < p) : w = 0 ∨ w = 1 := by
  subst he
  rcases Nat.eq_zero_or_pos w with h0 | hpos
  · exact Or.inl h0
  · right
    have hd : (p : Int) ∣ (w : Int) * ((w : Int) - 1) := Int.dvd_of_emod_eq_zero h
    have hcast : ((w : Int) * ((w : Int) - 1)) = ((w * (w - 1) : Nat) : Int) := by
      have : ((w - 1 : Nat) : Int) = (w : Int) - 1 := by omega
      rw [Nat.cast_mul, this]
    rw [hcast] at hd
    have hd' : p ∣ w * (w - 1) := Int.natCast_dvd_natCast.mp hd
    rcases (Nat.Prime.dvd_mul hp).mp hd' with h1 | h1
    · exact absurd (Nat.le_of_dvd hpos h1) (by omega)
    · rcases Nat.eq_zero_or_pos (w - 1) with h2 | h2
      · omega
      · exact absurd (Nat.le_of_dvd h2 h1) (by omega)

theorem traceSat_append {p : Nat} {G : Sel → List Expr} {a : Asg} :
    ∀ (l1 l2 : List Region) (k : Nat),
      TraceSat p G a k (l1 ++ l2) ↔ TraceSat p G a k l1 ∧ TraceSat p G a (k + l1.length) l2
  | [], l2, k => by simp [TraceSat]
  | r :: l1, l2, k => by
    simp only [List.cons_append, TraceSat, List.length_cons]
    rw [traceSat_append l1 l2 (k + 1)]
    have : k + 1 + l1.length = k + (l1.length + 1) := by omega
    rw [this, and_assoc]

/-- Spread with more fuel than bits. -/
theorem spread_fuel_le {n m x : Nat} (hn : n ≤ m) (hx : x < 2 ^ n) : spreadFuel m x = spreadFuel n x := by
  obtain ⟨d, rfl⟩ := Nat.exists_eq_add_of_le hn
  exact spread_fuel_mono n d x hx

theorem spread32_of_lt {n x : Nat} (hn : n ≤ 32) (hx : x < 2 ^ n) : spreadFuel 32 x = spreadFuel n x :=
  spread_fuel_le hn hx

/-- Limbs `(11, 11, 10)` bits, big-endian: the recomposed word and its spread. -/
theorem concat_11_11_10 {l1 l2 l3 : Nat} (h1 : l1 < 2 ^ 11) (h2 : l2 < 2 ^ 11) (h3 : l3 < 2 ^ 10) :
    2 ^ 21 * l1 + 2 ^ 10 * l2 + l3 < 2 ^ 32 ∧
    spreadFuel 32 (2 ^ 21 * l1 + 2 ^ 10 * l2 + l3)
      = 4 ^ 21 * spreadFuel 11 l1 + 4 ^ 10 * spreadFuel 11 l2 + spreadFuel 10 l3 := by
  have hb : ∀ ka ∈ [(10, l3), (11, l2), (11, l1)], ka.2 < 2 ^ ka.1 := by
    intro ka hka; simp at hka; rcases hka with rfl | rfl | rfl <;> assumption
  have s := spread_concatLE _ hb
  simp only [bitsTotal, concatLE, spreadConcat] at s
  have e : l3 + 2 ^ 10 * (l2 + 2 ^ 11 * (l1 + 2 ^ 11 * 0)) = 2 ^ 21 * l1 + 2 ^ 10 * l2 + l3 := by ring
  rw [e] at s
  constructor
  · omega
  · rw [show (10 + (11 + (11 + 0))) = 32 from rfl] at s
    rw [s]; ring

variable {p : Nat} {G : Sel → List Expr} {a : Asg} {k : Nat} {r : Region}

theorem Sat.gate' (h : Sat p G a k r) {s : Sel} {o : Nat} {e : Expr} (hs : (s, o) ∈ r.sels) (he : e ∈ G s) :
    e.eval (rowEnv a k o) % (p : Int) = 0 := h.gate (s, o) hs e he

theorem Sat.look' (h : Sat p G a k r) {o : Nat} (hs : (Sel.lookup, o) ∈ r.sels) (li : Nat) (hli : li < 2) :
    InTable (tagAt r li o) (a (.reg k o (2 * li))) (a (.reg k o (2 * li + 1))) := h.look (.lookup, o) hs rfl li hli

theorem Sat.copy' (h : Sat p G a k r) {src : Src} {col off : Nat} (hc : (src, col, off) ∈ r.copies) :
    a (.reg k off col) = get a src := h.copy (src, col, off) hc

@[simp] theorem rowEnv_m1 (a : Asg) (k o c : Nat) : rowEnv a k (o + 1) c (-1) = (a (.reg k o c) : Int) := by
  unfold rowEnv
  have : Int.toNat (((o + 1 : Nat) : Int) + -1) = o := by omega
  rw [this]

@[simp] theorem rowEnv_0 (a : Asg) (k o c : Nat) : rowEnv a k o c 0 = (a (.reg k o c) : Int) := by
  unfold rowEnv
  have : Int.toNat (((o : Nat) : Int) + 0) = o := by omega
  rw [this]

@[simp] theorem rowEnv_p1 (a : Asg) (k o c : Nat) : rowEnv a k o c 1 = (a (.reg k (o + 1) c) : Int) := by
  unfold rowEnv
  have : Int.toNat (((o : Nat) : Int) + 1) = o + 1 := by omega
  rw [this]

@[simp] theorem get_reg (a : Asg) (k o c : Nat) : get a (.reg k o c) = a (.reg k o c) := rfl
@[simp] theorem get_const (a : Asg) (v : Nat) : get a (.const v) = v := rfl
@[simp] theorem get_ext (a : Asg) (i : Nat) : get a (.ext i) = a (.ext i) := rfl

/-- The executable check implies `Sat`. -/
theorem satB_sound (h : satB p G a k r = true) : Sat p G a k r := by
  simp only [satB, Bool.and_eq_true, List.all_eq_true, beq_iff_eq, Bool.or_eq_true, bne_iff_ne, ne_eq,
    inTableB, decide_eq_true_eq] at h
  obtain ⟨⟨hg, hl⟩, hc⟩ := h
  refine ⟨fun so hso e he => hg so hso e he, ?_, fun c hc' => hc c hc'⟩
  intro so hso hlk li hli
  rcases hl so hso with h1 | ⟨⟨h0, h0'⟩, ⟨h1, h1'⟩⟩
  · exact absurd hlk h1
  · have : li = 0 ∨ li = 1 := by omega
    rcases this with rfl | rfl
    · exact ⟨h0, h0'⟩
    · exact ⟨h1, h1'⟩

/-- What `assign_sprdd_11_11_10` at offset `off` guarantees, whatever the parity: the returned cell
(`A4` at `off`) is a 32-bit word whose spread is the inner product of the spreaded limbs in `A1`, and
the inner product of the spreaded limbs in `A3` is the spread of another 32-bit word. -/
theorem sprdd_block {off : Nat} (hp : 2 ^ 66 ≤ p) (ha : ∀ c, a c < p) (hS : Sat p Gen.shaGates a k r)
    (h0 : (Sel.lookup, off) ∈ r.sels) (h1 : (Sel.lookup, off + 1) ∈ r.sels) (h2 : (Sel.lookup, off + 2) ∈ r.sels)
    (hd : (Sel.d11, off + 1) ∈ r.sels)
    (t00 : tagAt r 0 off = 11) (t01 : tagAt r 0 (off + 1) = 11) (t02 : tagAt r 0 (off + 2) = 10)
    (t10 : tagAt r 1 off = 11) (t11 : tagAt r 1 (off + 1) = 11) (t12 : tagAt r 1 (off + 2) = 10) :
    ∃ v, a (.reg k off 4) < 2 ^ 32 ∧ v < 2 ^ 32 ∧
      4 ^ 21 * a (.reg k off 1) + 4 ^ 10 * a (.reg k (off + 1) 1) + a (.reg k (off + 2) 1)
        = spreadFuel 32 (a (.reg k off 4)) ∧
      4 ^ 21 * a (.reg k off 3) + 4 ^ 10 * a (.reg k (off + 1) 3) + a (.reg k (off + 2) 3) = spreadFuel 32 v := by
  have l00 := hS.look' h0 0 (by omega)
  have l01 := hS.look' h1 0 (by omega)
  have l02 := hS.look' h2 0 (by omega)
  have l10 := hS.look' h0 1 (by omega)
  have l11 := hS.look' h1 1 (by omega)
  have l12 := hS.look' h2 1 (by omega)
  rw [t00] at l00; rw [t01] at l01; rw [t02] at l02; rw [t10] at l10; rw [t11] at l11; rw [t12] at l12
  simp only [Nat.mul_zero, Nat.zero_add, Nat.mul_one] at l00 l01 l02 l10 l11 l12
  obtain ⟨b1, s1⟩ := l00
  obtain ⟨b2, s2⟩ := l01
  obtain ⟨b3, s3⟩ := l02
  obtain ⟨c1, q1⟩ := l10
  obtain ⟨c2, q2⟩ := l11
  obtain ⟨c3, q3⟩ := l12
  have g := hS.gate' hd (e := Gen.gate_d11.getD 0 default) (by simp [Gen.shaGates, Gen.gate_d11])
  have cu := concat_11_11_10 b1 b2 b3
  have cv := concat_11_11_10 c1 c2 c3
  have hout : 2 ^ 21 * a (.reg k off 0) + 2 ^ 10 * a (.reg k (off + 1) 0) + a (.reg k (off + 2) 0)
      = a (.reg k off 4) := by
    refine exact_of_mod g ?_ (by omega) (ha _)
    simp [Gen.gate_d11, Expr.eval]
    ring
  refine ⟨2 ^ 21 * a (.reg k off 2) + 2 ^ 10 * a (.reg k (off + 1) 2) + a (.reg k (off + 2) 2), ?_, cv.1, ?_, ?_⟩
  · rw [← hout]; exact cu.1
  · rw [← hout, cu.2, s1, s2, s3]
  · rw [cv.2, q1, q2, q3]

/-! ## Limb lists: rotations and shifts of a concatenation -/

theorem concatLE_append : ∀ (l1 l2 : List (Nat × Nat)),
    concatLE (l1 ++ l2) = concatLE l1 + 2 ^ bitsTotal l1 * concatLE l2
  | [], l2 => by simp [concatLE, bitsTotal]
  | (k, x) :: t, l2 => by
    simp only [List.cons_append, concatLE, bitsTotal]
    rw [concatLE_append t l2, pow_add]; ring

theorem bitsTotal_append : ∀ (l1 l2 : List (Nat × Nat)), bitsTotal (l1 ++ l2) = bitsTotal l1 + bitsTotal l2
  | [], l2 => by simp [bitsTotal]
  | (k, x) :: t, l2 => by
    simp only [List.cons_append, bitsTotal]
    rw [bitsTotal_append t l2]; omega

/-- Rotating a concatenation of limbs by the size of a prefix swaps prefix and suffix. -/
theorem rotr_concat (w : Nat) (l1 l2 : List (Nat × Nat)) (h1 : ∀ ka ∈ l1, ka.2 < 2 ^ ka.1)
    (h2 : ∀ ka ∈ l2, ka.2 < 2 ^ ka.1) (hw : bitsTotal l1 + bitsTotal l2 = w) :
    rotr w (concatLE (l1 ++ l2)) (bitsTotal l1) = concatLE (l2 ++ l1) := by
  have c1 := concatLE_lt l1 h1
  have c2 := concatLE_lt l2 h2
  rw [concatLE_append, concatLE_append]
  unfold rotr
  have hP := Nat.two_pow_pos (bitsTotal l1)
  have e : w - bitsTotal l1 = bitsTotal l2 := by omega
  rw [e]
  have d : (concatLE l1 + 2 ^ bitsTotal l1 * concatLE l2) / 2 ^ bitsTotal l1 = concatLE l2 := by
    rw [Nat.add_mul_div_left _ _ hP, Nat.div_eq_of_lt c1, Nat.zero_add]
  have m : (concatLE l1 + 2 ^ bitsTotal l1 * concatLE l2) % 2 ^ bitsTotal l1 = concatLE l1 := by
    rw [Nat.add_mul_mod_self_left, Nat.mod_eq_of_lt c1]
  rw [d, m]; ring

/-- Shifting a concatenation of limbs right by the size of a prefix drops the prefix. -/
theorem shr_concat (l1 l2 : List (Nat × Nat)) (h1 : ∀ ka ∈ l1, ka.2 < 2 ^ ka.1) :
    shr (concatLE (l1 ++ l2)) (bitsTotal l1) = concatLE l2 := by
  have c1 := concatLE_lt l1 h1
  rw [concatLE_append]
  unfold shr
  rw [Nat.add_mul_div_left _ _ (Nat.two_pow_pos _), Nat.div_eq_of_lt c1, Nat.zero_add]

/-- The spread of a concatenation of at most 32 bits, with the fuel of `spread(x: u32)`. -/
theorem spread32_concatLE (l : List (Nat × Nat)) (h : ∀ ka ∈ l, ka.2 < 2 ^ ka.1) (hb : bitsTotal l ≤ 32) :
    spreadFuel 32 (concatLE l) = spreadConcat l := by
  rw [spread32_of_lt hb (concatLE_lt l h), spread_concatLE l h]

end MidnightZK.C07.Chip
