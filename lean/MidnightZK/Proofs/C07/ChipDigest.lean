import MidnightZK.Proofs.C07.ChipBlock
/-! C07: state addition, one whole block and the chain of blocks of the SHA-256 chip. -/
namespace MidnightZK.C07.Chip
open MidnightZK.C07

variable {p : Nat} {a : Asg}

theorem list8 {v : List Nat} (h : v.length = 8) :
    ∃ v0 v1 v2 v3 v4 v5 v6 v7, v = [v0, v1, v2, v3, v4, v5, v6, v7] := by
  match v, h with
  | [v0, v1, v2, v3, v4, v5, v6, v7], _ => exact ⟨v0, v1, v2, v3, v4, v5, v6, v7, rfl⟩

theorem sum7_pair (s t : Src) : sum7 a [s, t] = get a s + get a t := by
  simp [sum7, summand, zero]

theorem AInv.toPS {r : ARefs} {x : Nat} (h : AInv a r x) : PSInv a ⟨r.plain, r.sprd⟩ x := ⟨h.lt, h.plain, h.sprd⟩
theorem EInv.toPS {r : ERefs} {x : Nat} (h : EInv a r x) : PSInv a ⟨r.plain, r.sprd⟩ x := ⟨h.lt, h.plain, h.sprd⟩

theorem pair_lt {s t : Src} {x y : Nat} (hs : get a s = x) (hx : x < 2 ^ 32) (ht : get a t = y) (hy : y < 2 ^ 32) :
    ∀ i, i < 7 → get a (summand [s, t] i) < 2 ^ 32 :=
  summand_lt_of (by
    intro u hu
    simp only [List.mem_cons, List.mem_nil_iff, or_false] at hu
    rcases hu with rfl | rfl
    · rw [hs]; exact hx
    · rw [ht]; exact hy)

/-- `CompressionState::add`: the returned state holds the word-wise sum modulo `2^32`. -/
theorem stateAdd_sound (hp : 2 ^ 66 ≤ p) (ha : ∀ c, a c < p) (kk ivv : List Nat) {k : Nat} {s o : StRefs}
    {v v' : List Nat} (hv : v.length = 8) (hv' : v'.length = 8) (hs : StInv a s v) (ho : StInv a o v')
    (hS : TraceSat p Gen.shaGates a k (stateAdd k s o).1) :
    StInv a (stateAdd k s o).2 (List.zipWith (fun x y => (sha256P kk ivv).modW (x + y)) v v') := by
  obtain ⟨x0, x1, x2, x3, x4, x5, x6, x7, rfl⟩ := list8 hv
  obtain ⟨y0, y1, y2, y3, y4, y5, y6, y7, rfl⟩ := list8 hv'
  simp only [stateAdd, traceSat_cons, Nat.add_assoc, Nat.reduceAdd] at hS ⊢
  obtain ⟨hS0, hS1, hS2, hS3, hS4, hS5, hS6, hS7, -⟩ := hS
  have ha' := hs.sa; have hb := hs.sb; have hc := hs.sc; have hd := hs.sd
  have he := hs.se; have hf := hs.sf; have hg := hs.sg; have hh := hs.sh
  have oa := ho.sa; have ob := ho.sb; have oc := ho.sc; have od := ho.sd
  have oe := ho.se; have of' := ho.sf; have og := ho.sg; have oh := ho.sh
  simp only [List.getD_cons_succ, List.getD_cons_zero] at ha' hb hc hd he hf hg hh oa ob oc od oe of' og oh
  have r0 := prepareA_sound hp ha hS0 (pair_lt ha'.plain ha'.lt oa.plain oa.lt)
  have r1 := prepareA_sound hp ha hS1 (pair_lt hb.plain hb.lt ob.plain ob.lt)
  have r2 := prepareA_sound hp ha hS2 (pair_lt hc.plain hc.lt oc.plain oc.lt)
  have r3 := prepareA_sound hp ha hS3 (pair_lt hd.1 hd.2 od.1 od.2)
  have r4 := prepareE_sound hp ha hS4 (pair_lt he.plain he.lt oe.plain oe.lt)
  have r5 := prepareE_sound hp ha hS5 (pair_lt hf.plain hf.lt of'.plain of'.lt)
  have r6 := prepareE_sound hp ha hS6 (pair_lt hg.plain hg.lt og.plain og.lt)
  have r7 := prepareE_sound hp ha hS7 (pair_lt hh.1 hh.2 oh.1 oh.2)
  rw [sum7_pair, ha'.plain, oa.plain] at r0
  rw [sum7_pair, hb.plain, ob.plain] at r1
  rw [sum7_pair, hc.plain, oc.plain] at r2
  rw [sum7_pair, hd.1, od.1] at r3
  rw [sum7_pair, he.plain, oe.plain] at r4
  rw [sum7_pair, hf.plain, of'.plain] at r5
  rw [sum7_pair, hg.plain, og.plain] at r6
  rw [sum7_pair, hh.1, oh.1] at r7
  simp only [List.zipWith_cons_cons, List.zipWith_nil_right, modW_sha256]
  exact ⟨r0, r1.toPS, r2.toPS, ⟨r3.plain, r3.lt⟩, r4, r5.toPS, r6.toPS, ⟨r7.plain, r7.lt⟩⟩

theorem stateAdd_length (k : Nat) (s o : StRefs) : (stateAdd k s o).1.length = 8 := rfl

set_option maxRecDepth 4000 in
/-- **One block** (`message_schedule`, 64 × `compression_round`, `CompressionState::add`): if the 552
emitted regions are satisfied, the chaining-state cells hold `v` and the 16 block-word cells hold `bv`,
then the cells of the new chaining state hold the FIPS 180-4 compression function. -/
theorem block_sound (hpr : Nat.Prime p) (hp : 2 ^ 66 ≤ p) (ha : ∀ c, a c < p) (kk ivv : List Nat)
    (hkk : ∀ t, kk.getD t 0 < 2 ^ 32) {k : Nat} {st : StRefs} {v : List Nat} {block : List Src} {bv : List Nat}
    (hv : v.length = 8) (hst : StInv a st v) (hb : List.Forall₂ (IsPlain a) block bv) (hlen : block.length = 16)
    (hS : TraceSat p Gen.shaGates a k (blockEmit kk k st block).1) :
    StInv a (blockEmit kk k st block).2 ((sha256P kk ivv).compressW v bv) := by
  simp only [blockEmit] at hS ⊢
  rw [traceSat_append, traceSat_append, List.length_append, messageSchedule_length, roundsEmit_length] at hS
  obtain ⟨⟨hS1, hS2⟩, hS3⟩ := hS
  have hms := messageSchedule_sound hpr hp ha kk ivv hb hlen hS1
  have hw : ∀ t, IsPlain a (((messageSchedule k block).2.map (·.plain)).getD t zero)
      (((sha256P kk ivv).scheduleW bv).getD t 0) := by
    intro t
    have hl := forall₂_length hms
    by_cases ht : t < (messageSchedule k block).2.length
    · have := forall₂_getD hms default 0 t ht
      rw [List.getD_eq_getElem _ _ (by simpa using ht), List.getElem_map]
      rw [List.getD_eq_getElem _ _ ht] at this
      exact ⟨this.plain, this.lt⟩
    · rw [List.getD_eq_default _ _ (by simpa using ht), List.getD_eq_default _ _ (by omega)]
      exact ⟨rfl, by norm_num⟩
  have hrd := rounds_sound hp ha kk ivv hkk hw 64 0 _ st v hS2 hst
  have hk : k + (block.length + 3 * 48) + 6 * 64 = k + block.length + 3 * 48 + 6 * 64 := by omega
  rw [← hk]
  have hk2 : k + (block.length + 3 * 48 + 6 * 64) = k + (block.length + 3 * 48) + 6 * 64 := by omega
  rw [hk2] at hS3
  have hk3 : k + (block.length + 3 * 48) = k + block.length + 3 * 48 := by omega
  rw [hk3] at hS3 ⊢
  exact stateAdd_sound hp ha kk ivv hv (roundsLoop_length _ _ 64 0 v hv) hst hrd hS3

theorem blockEmit_length (kk : List Nat) (k : Nat) (st : StRefs) (block : List Src) (h : block.length = 16) :
    (blockEmit kk k st block).1.length = regionsPerBlock := by
  simp only [blockEmit, List.length_append, messageSchedule_length, roundsEmit_length, stateAdd_length, h,
    regionsPerBlock]

/-- The values of the 16 external cells of block `b`. -/
def extWords (a : Asg) (b : Nat) : List Nat := (List.range 16).map (fun i => a (.ext (16 * b + i)))

/-- The reference chaining value after `n` blocks starting with block `b` (block words = the values of
the external cells). -/
def chain (P : Sha2) (a : Asg) : Nat → Nat → List Nat → List Nat
  | 0, _, v => v
  | n + 1, b, v => chain P a n (b + 1) (P.compressW v (extWords a b))

theorem chain_eq_foldl (P : Sha2) (a : Asg) : ∀ (n b : Nat) (v : List Nat),
    chain P a n b v = ((List.range' b n).map (extWords a)).foldl P.compressW v
  | 0, _, _ => rfl
  | n + 1, b, v => by
    simp only [chain, List.range'_succ, List.map_cons, List.foldl_cons]
    exact chain_eq_foldl P a n (b + 1) _

theorem blockWords_inv (b : Nat) (hext : ∀ i, a (.ext i) < 2 ^ 32) :
    List.Forall₂ (IsPlain a) (blockWords b) (extWords a b) := by
  unfold blockWords extWords
  generalize List.range 16 = l
  induction l with
  | nil => exact List.Forall₂.nil
  | cons i t ih => exact List.Forall₂.cons ⟨rfl, hext _⟩ ih

theorem compressW_length (P : Sha2) (v bv : List Nat) (hv : v.length = 8) : (P.compressW v bv).length = 8 := by
  simp only [Sha2.compressW, List.length_zipWith, hv]
  rw [roundsLoop_length P _ _ _ v hv]
  rfl

/-- **Chain of blocks**, by induction over the blocks. -/
theorem blocks_sound (hpr : Nat.Prime p) (hp : 2 ^ 66 ≤ p) (ha : ∀ c, a c < p) (kk ivv : List Nat)
    (hkk : ∀ t, kk.getD t 0 < 2 ^ 32) (hext : ∀ i, a (.ext i) < 2 ^ 32) :
    ∀ (n b k : Nat) (st : StRefs) (v : List Nat), v.length = 8 → StInv a st v →
      TraceSat p Gen.shaGates a k (blocksEmit kk n b k st).1 →
      StInv a (blocksEmit kk n b k st).2 (chain (sha256P kk ivv) a n b v)
  | 0, _, _, _, _, _, hst, _ => hst
  | n + 1, b, k, st, v, hv, hst, hS => by
    simp only [blocksEmit] at hS ⊢
    have hl : (blockWords b).length = 16 := by simp [blockWords]
    rw [traceSat_append, blockEmit_length kk k st _ hl] at hS
    have h1 := block_sound hpr hp ha kk ivv hkk hv hst (blockWords_inv b hext) hl hS.1
    exact blocks_sound hpr hp ha kk ivv hkk hext n (b + 1) _ _ _ (compressW_length _ _ _ hv) h1 hS.2

/-! ## the initial state -/

theorem spread32_eq {n x : Nat} (hn : n ≤ 32) (hx : x < 2 ^ n) : spread32 x = spreadFuel n x :=
  spread32_of_lt hn hx

theorem AInv_fixed {c : Nat} (hc : c < 2 ^ 32) : AInv a (ARefs.fixed c) c := by
  refine ⟨hc, rfl, rfl, ?_, ?_, ?_, ?_⟩
  · show spread32 (c / 2 ^ (32 - 10) % 2 ^ 10) = _
    have e : c / 2 ^ (32 - 10) % 2 ^ 10 = c / 2 ^ 22 := by omega
    rw [e]; exact spread32_eq (by omega) (by omega)
  · show spread32 (c / 2 ^ (32 - 10 - 9) % 2 ^ 9) = _
    exact spread32_eq (by omega) (by omega)
  · show spread32 (c / 2 ^ (32 - 10 - 9 - 11) % 2 ^ 11) = _
    exact spread32_eq (by omega) (by omega)
  · show spread32 (c / 2 ^ (32 - 10 - 9 - 11 - 2) % 2 ^ 2) = _
    have e : c / 2 ^ (32 - 10 - 9 - 11 - 2) % 2 ^ 2 = c % 2 ^ 2 := by norm_num
    rw [e]; exact spread32_eq (by omega) (by omega)

theorem EInv_fixed {c : Nat} (hc : c < 2 ^ 32) : EInv a (ERefs.fixed c) c := by
  refine ⟨hc, rfl, rfl, ?_, ?_, ?_, ?_, ?_⟩
  · show spread32 (c / 2 ^ (32 - 7) % 2 ^ 7) = _
    have e : c / 2 ^ (32 - 7) % 2 ^ 7 = c / 2 ^ 25 := by omega
    rw [e]; exact spread32_eq (by omega) (by omega)
  · show spread32 (c / 2 ^ (32 - 7 - 12) % 2 ^ 12) = _
    exact spread32_eq (by omega) (by omega)
  · show spread32 (c / 2 ^ (32 - 7 - 12 - 2) % 2 ^ 2) = _
    exact spread32_eq (by omega) (by omega)
  · show spread32 (c / 2 ^ (32 - 7 - 12 - 2 - 5) % 2 ^ 5) = _
    exact spread32_eq (by omega) (by omega)
  · show spread32 (c / 2 ^ (32 - 7 - 12 - 2 - 5 - 6) % 2 ^ 6) = _
    have e : c / 2 ^ (32 - 7 - 12 - 2 - 5 - 6) % 2 ^ 6 = c % 2 ^ 6 := by norm_num
    rw [e]; exact spread32_eq (by omega) (by omega)

theorem PSInv_fixed {c : Nat} (hc : c < 2 ^ 32) : PSInv a (PS.fixed c) c := ⟨hc, rfl, rfl⟩

/-- `CompressionState::fixed(IV)` holds the IV. -/
theorem StInv_fixed {iv : List Nat} (h : ∀ i, iv.getD i 0 < 2 ^ 32) : StInv a (StRefs.fixed iv) iv :=
  ⟨AInv_fixed (h 0), PSInv_fixed (h 1), PSInv_fixed (h 2), ⟨rfl, h 3⟩, EInv_fixed (h 4), PSInv_fixed (h 5),
    PSInv_fixed (h 6), ⟨rfl, h 7⟩⟩

/-- The cells returned by `CompressionState::plain` hold the eight words. -/
theorem StInv.plain_cells {st : StRefs} {v : List Nat} (h : StInv a st v) (hv : v.length = 8) :
    st.plain.map (get a) = v := by
  obtain ⟨x0, x1, x2, x3, x4, x5, x6, x7, rfl⟩ := list8 hv
  have h0 := h.sa.plain; have h1 := h.sb.plain; have h2 := h.sc.plain; have h3 := h.sd.1
  have h4 := h.se.plain; have h5 := h.sf.plain; have h6 := h.sg.plain; have h7 := h.sh.1
  simp only [List.getD_cons_succ, List.getD_cons_zero] at h0 h1 h2 h3 h4 h5 h6 h7
  simp only [StRefs.plain, List.map_cons, List.map_nil, h0, h1, h2, h3, h4, h5, h6, h7]

end MidnightZK.C07.Chip
