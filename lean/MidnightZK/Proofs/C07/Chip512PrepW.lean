import MidnightZK.Proofs.C07.Chip512Base
/-! C07: soundness of `prepare_message_word` of the SHA-512 chip. -/
namespace MidnightZK.C07.Chip512
open MidnightZK.C07 MidnightZK.C07.Chip

variable {p : Nat} {a : Asg} {k : Nat}

/-- `fn prepare_message_word`: the returned `AssignedMessageWord` holds the sum of the summands modulo `2^64`; the three 1-bit limbs are
their own spreads (bit checks of the gate, over a prime field). -/
theorem prepareW_sound (hpr : Nat.Prime p) (hp : 2 ^ 130 ≤ p) (ha : ∀ c, a c < p) {ss : List Src}
    (hS : Sat p Gen.sha512Gates a k (prepareW k ss).1) (hs : ∀ i, i < 7 → get a (summand ss i) < 2 ^ 64) :
    WInv a (prepareW k ss).2 (sum7 a ss % 2 ^ 64) := by
  have l0 := hS.look' (o := 0) (by region_simp512) 0 (by omega)
  have t0 : tagAt (prepareW k ss).1 0 0 = 3 := by region_simp512
  rw [t0] at l0
  have l1 := hS.look' (o := 0) (by region_simp512) 1 (by omega)
  have t1 : tagAt (prepareW k ss).1 1 0 = 13 := by region_simp512
  rw [t1] at l1
  have l2 := hS.look' (o := 1) (by region_simp512) 0 (by omega)
  have t2 : tagAt (prepareW k ss).1 0 1 = 13 := by region_simp512
  rw [t2] at l2
  have l3 := hS.look' (o := 1) (by region_simp512) 1 (by omega)
  have t3 : tagAt (prepareW k ss).1 1 1 = 13 := by region_simp512
  rw [t3] at l3
  have l4 := hS.look' (o := 2) (by region_simp512) 0 (by omega)
  have t4 : tagAt (prepareW k ss).1 0 2 = 3 := by region_simp512
  rw [t4] at l4
  have l5 := hS.look' (o := 2) (by region_simp512) 1 (by omega)
  have t5 : tagAt (prepareW k ss).1 1 2 = 11 := by region_simp512
  rw [t5] at l5
  have l8 := hS.look' (o := 3) (by region_simp512) 0 (by omega)
  have t8 : tagAt (prepareW k ss).1 0 3 = 5 := by region_simp512
  rw [t8] at l8
  simp only [Nat.mul_zero, Nat.zero_add, Nat.mul_one] at l0 l1 l2 l3 l4 l5 l8
  obtain ⟨b0, s0⟩ := l0
  obtain ⟨b1, s1⟩ := l1
  obtain ⟨b2, s2⟩ := l2
  obtain ⟨b3, s3⟩ := l3
  obtain ⟨b4, s4⟩ := l4
  obtain ⟨b5, s5⟩ := l5
  obtain ⟨b8, s8⟩ := l8
  have g0 := hS.gate' (s := .dW) (o := 1) (e := Gen.gate512_dW.getD 0 default) (by region_simp512)
    (by simp [Gen.sha512Gates, Gen.gate512_dW])
  have g1 := hS.gate' (s := .dW) (o := 1) (e := Gen.gate512_dW.getD 1 default) (by region_simp512)
    (by simp [Gen.sha512Gates, Gen.gate512_dW])
  have g2 := hS.gate' (s := .dW) (o := 1) (e := Gen.gate512_dW.getD 2 default) (by region_simp512)
    (by simp [Gen.sha512Gates, Gen.gate512_dW])
  have g3 := hS.gate' (s := .dW) (o := 1) (e := Gen.gate512_dW.getD 3 default) (by region_simp512)
    (by simp [Gen.sha512Gates, Gen.gate512_dW])
  have bit6 : a (.reg k 0 7) = 0 ∨ a (.reg k 0 7) = 1 := by
    refine bit_of_mod hpr g1 ?_ (ha _)
    simp [Gen.gate512_dW, Expr.eval, -mul_eq_mul_left_iff]
    ring
  have bit7 : a (.reg k 1 7) = 0 ∨ a (.reg k 1 7) = 1 := by
    refine bit_of_mod hpr g2 ?_ (ha _)
    simp [Gen.gate512_dW, Expr.eval, -mul_eq_mul_left_iff]
    ring
  have bit9 : a (.reg k 2 7) = 0 ∨ a (.reg k 2 7) = 1 := by
    refine bit_of_mod hpr g3 ?_ (ha _)
    simp [Gen.gate512_dW, Expr.eval, -mul_eq_mul_left_iff]
    ring
  have b6 : a (.reg k 0 7) < 2 := by omega
  have b7 : a (.reg k 1 7) < 2 := by omega
  have b9 : a (.reg k 2 7) < 2 := by omega
  have hplain : 2 ^ 61 * a (.reg k 0 0) + 2 ^ 48 * a (.reg k 0 2) + 2 ^ 35 * a (.reg k 1 0) + 2 ^ 22 * a (.reg k 1 2) + 2 ^ 19 * a (.reg k 2 0) + 2 ^ 8 * a (.reg k 2 2) + 2 ^ 7 * a (.reg k 0 7) + 2 ^ 6 * a (.reg k 1 7) + 2 ^ 1 * a (.reg k 3 0) + a (.reg k 2 7)
      = a (.reg k 0 4) := by
    refine exact_of_mod g0 ?_ (by omega) (ha _)
    simp [Gen.gate512_dW, Expr.eval]
    ring
  have hA : a (.reg k 0 4) < 2 ^ 64 := by omega
  have hval := addmod_block (ss := ss) hp hS (by region_simp512) (by region_simp512) (by region_simp512) (by region_simp512) (by region_simp512) (by region_simp512) (by region_simp512) (by region_simp512) (by region_simp512) (by region_simp512) hs hA
  rw [← hval]
  refine ⟨hA, rfl, rfl, ?_, ?_, ?_, ?_, ?_, ?_, ?_, ?_, ?_, ?_⟩
  · show a (.reg k 0 1) = _
    have e' : a (.reg k 0 4) / 2 ^ 61 = a (.reg k 0 0) := by omega
    rw [s0, e']
  · show a (.reg k 0 3) = _
    have e' : a (.reg k 0 4) / 2 ^ 48 % 2 ^ 13 = a (.reg k 0 2) := by omega
    rw [s1, e']
  · show a (.reg k 1 1) = _
    have e' : a (.reg k 0 4) / 2 ^ 35 % 2 ^ 13 = a (.reg k 1 0) := by omega
    rw [s2, e']
  · show a (.reg k 1 3) = _
    have e' : a (.reg k 0 4) / 2 ^ 22 % 2 ^ 13 = a (.reg k 1 2) := by omega
    rw [s3, e']
  · show a (.reg k 2 1) = _
    have e' : a (.reg k 0 4) / 2 ^ 19 % 2 ^ 3 = a (.reg k 2 0) := by omega
    rw [s4, e']
  · show a (.reg k 2 3) = _
    have e' : a (.reg k 0 4) / 2 ^ 8 % 2 ^ 11 = a (.reg k 2 2) := by omega
    rw [s5, e']
  · show a (.reg k 0 7) = _
    have e' : a (.reg k 0 4) / 2 ^ 7 % 2 ^ 1 = a (.reg k 0 7) := by omega
    rw [e', spread1 b6]
  · show a (.reg k 1 7) = _
    have e' : a (.reg k 0 4) / 2 ^ 6 % 2 ^ 1 = a (.reg k 1 7) := by omega
    rw [e', spread1 b7]
  · show a (.reg k 3 1) = _
    have e' : a (.reg k 0 4) / 2 ^ 1 % 2 ^ 5 = a (.reg k 3 0) := by omega
    rw [s8, e']
  · show a (.reg k 2 7) = _
    have e' : a (.reg k 0 4) % 2 ^ 1 = a (.reg k 2 7) := by omega
    rw [e', spread1 b9]

end MidnightZK.C07.Chip512
