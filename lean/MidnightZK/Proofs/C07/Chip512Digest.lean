import MidnightZK.Proofs.C07.Chip512Block
/-! C07: state addition, one whole block and the chain of blocks of the SHA-512 chip. -/
namespace MidnightZK.C07.Chip512
open MidnightZK.C07 MidnightZK.C07.Chip

variable {p : Nat} {a : Asg}

theorem AInv.toPS {r : LRefs} {x : Nat} (h : AInv a r x) : PSInv a ⟨r.plain, r.sprd⟩ x := ⟨h.lt, h.plain, h.sprd⟩
theorem EInv.toPS {r : LRefs} {x : Nat} (h : EInv a r x) : PSInv a ⟨r.plain, r.sprd⟩ x := ⟨h.lt, h.plain, h.sprd⟩

theorem pair_lt {s t : Src} {x y : Nat} (hs : get a s = x) (hx : x < 2 ^ 64) (ht : get a t = y) (hy : y < 2 ^ 64) :
    ∀ i, i < 7 → get a (summand [s, t] i) < 2 ^ 64 :=
  summand_lt_of (by
    intro u hu
    simp only [List.mem_cons, List.mem_nil_iff, or_false] at hu
    rcases hu with rfl | rfl
    · rw [hs]; exact hx
    · rw [ht]; exact hy)

/-- `CompressionState::add`: the returned state holds the word-wise sum modulo `2^64`. -/
theorem stateAdd_sound (hp : 2 ^ 130 ≤ p) (ha : ∀ c, a c < p) (kk ivv : List Nat) {k : Nat} {s o : StRefs}
    {v v' : List Nat} (hv : v.length = 8) (hv' : v'.length = 8) (hs : StInv a s v) (ho : StInv a o v')
    (hS : TraceSat p Gen.sha512Gates a k (stateAdd k s o).1) :
    StInv a (stateAdd k s o).2 (List.zipWith (fun x y => (sha512P kk ivv).modW (x + y)) v v') := by
  obtain ⟨x0, x1, x2, x3, x4, x5, x6, x7, rfl⟩ := list8 hv
  obtain ⟨y0, y1, y2, y3, y4, y5, y6, y7, rfl⟩ := list8 hv'
  simp only [stateAdd, traceSat_cons, Nat.add_assoc, Nat.reduceAdd] at hS ⊢
  obtain ⟨hS0, hS1, hS2, hS3, hS4, hS5, hS6, hS7, -⟩ := hS
  have ha' := hs.sa; have hb := hs.sb; have hc := hs.sc; have hd := hs.sd
  have he := hs.se; have hf := hs.sf; have hg := hs.sg; have hh := hs.sh
  have oa := ho.sa; have ob := ho.sb; have oc := ho.sc; have od := ho.sd
  have oe := ho.se; have of' := ho.sf; have og := ho.sg; have oh := ho.sh
  simp only [List.getD_cons_succ, List.getD_cons_zero] at ha' hb hc hd he hf hg hh oa ob oc od oe of' og oh
  have r0 := prepareA_sound hp ha hS0 (pair_lt ha'.plain ha'.lt oa.plain oa.lt)
  have r1 := prepareA_sound hp ha hS1 (pair_lt hb.plain hb.lt ob.plain ob.lt)
  have r2 := prepareA_sound hp ha hS2 (pair_lt hc.plain hc.lt oc.plain oc.lt)
  have r3 := prepareA_sound hp ha hS3 (pair_lt hd.1 hd.2 od.1 od.2)
  have r4 := prepareE_sound hp ha hS4 (pair_lt he.plain he.lt oe.plain oe.lt)
  have r5 := prepareE_sound hp ha hS5 (pair_lt hf.plain hf.lt of'.plain of'.lt)
  have r6 := prepareE_sound hp ha hS6 (pair_lt hg.plain hg.lt og.plain og.lt)
  have r7 := prepareE_sound hp ha hS7 (pair_lt hh.1 hh.2 oh.1 oh.2)
  rw [sum7_pair, ha'.plain, oa.plain] at r0
  rw [sum7_pair, hb.plain, ob.plain] at r1
  rw [sum7_pair, hc.plain, oc.plain] at r2
  rw [sum7_pair, hd.1, od.1] at r3
  rw [sum7_pair, he.plain, oe.plain] at r4
  rw [sum7_pair, hf.plain, of'.plain] at r5
  rw [sum7_pair, hg.plain, og.plain] at r6
  rw [sum7_pair, hh.1, oh.1] at r7
  simp only [List.zipWith_cons_cons, List.zipWith_nil_right, modW_sha512]
  exact ⟨r0, r1.toPS, r2.toPS, ⟨r3.plain, r3.lt⟩, r4, r5.toPS, r6.toPS, ⟨r7.plain, r7.lt⟩⟩

theorem stateAdd_length (k : Nat) (s o : StRefs) : (stateAdd k s o).1.length = 8 := rfl

set_option maxRecDepth 4000 in
/-- **One block** (`message_schedule`, 80 × `compression_round`, `CompressionState::add`): if the 696
emitted regions are satisfied, the chaining-state cells hold `v` and the 16 block-word cells hold `bv`,
then the cells of the new chaining state hold the FIPS 180-4 compression function. -/
theorem block_sound (hpr : Nat.Prime p) (hp : 2 ^ 130 ≤ p) (ha : ∀ c, a c < p) (kk ivv : List Nat)
    (hkk : ∀ t, kk.getD t 0 < 2 ^ 64) {k : Nat} {st : StRefs} {v : List Nat} {block : List Src} {bv : List Nat}
    (hv : v.length = 8) (hst : StInv a st v) (hb : List.Forall₂ (IsPlain a) block bv) (hlen : block.length = 16)
    (hS : TraceSat p Gen.sha512Gates a k (blockEmit kk k st block).1) :
    StInv a (blockEmit kk k st block).2 ((sha512P kk ivv).compressW v bv) := by
  simp only [blockEmit] at hS ⊢
  rw [traceSat_append, traceSat_append, List.length_append, messageSchedule_length, roundsEmit_length] at hS
  obtain ⟨⟨hS1, hS2⟩, hS3⟩ := hS
  have hms := messageSchedule_sound hpr hp ha kk ivv hb hlen hS1
  have hw : ∀ t, IsPlain a (((messageSchedule k block).2.map (·.plain)).getD t zero)
      (((sha512P kk ivv).scheduleW bv).getD t 0) := by
    intro t
    have hl := forall₂_length hms
    by_cases ht : t < (messageSchedule k block).2.length
    · have := forall₂_getD hms default 0 t ht
      rw [List.getD_eq_getElem _ _ (by simpa using ht), List.getElem_map]
      rw [List.getD_eq_getElem _ _ ht] at this
      exact ⟨this.plain, this.lt⟩
    · rw [List.getD_eq_default _ _ (by simpa using ht), List.getD_eq_default _ _ (by omega)]
      exact ⟨rfl, by norm_num⟩
  have hrd := rounds_sound hp ha kk ivv hkk hw 80 0 _ st v hS2 hst
  have hk : k + (block.length + 3 * 64) + 6 * 80 = k + block.length + 3 * 64 + 6 * 80 := by omega
  rw [← hk]
  have hk2 : k + (block.length + 3 * 64 + 6 * 80) = k + (block.length + 3 * 64) + 6 * 80 := by omega
  rw [hk2] at hS3
  have hk3 : k + (block.length + 3 * 64) = k + block.length + 3 * 64 := by omega
  rw [hk3] at hS3 ⊢
  exact stateAdd_sound hp ha kk ivv hv (roundsLoop_length _ _ 80 0 v hv) hst hrd hS3

theorem blockEmit_length (kk : List Nat) (k : Nat) (st : StRefs) (block : List Src) (h : block.length = 16) :
    (blockEmit kk k st block).1.length = regionsPerBlock := by
  simp only [blockEmit, List.length_append, messageSchedule_length, roundsEmit_length, stateAdd_length, h,
    regionsPerBlock]

theorem blockWords_inv (b : Nat) (hext : ∀ i, a (.ext i) < 2 ^ 64) :
    List.Forall₂ (IsPlain a) (blockWords b) (extWords a b) := by
  unfold blockWords extWords
  generalize List.range 16 = l
  induction l with
  | nil => exact List.Forall₂.nil
  | cons i t ih => exact List.Forall₂.cons ⟨rfl, hext _⟩ ih

/-- **Chain of blocks**, by induction over the blocks. -/
theorem blocks_sound (hpr : Nat.Prime p) (hp : 2 ^ 130 ≤ p) (ha : ∀ c, a c < p) (kk ivv : List Nat)
    (hkk : ∀ t, kk.getD t 0 < 2 ^ 64) (hext : ∀ i, a (.ext i) < 2 ^ 64) :
    ∀ (n b k : Nat) (st : StRefs) (v : List Nat), v.length = 8 → StInv a st v →
      TraceSat p Gen.sha512Gates a k (blocksEmit kk n b k st).1 →
      StInv a (blocksEmit kk n b k st).2 (chain (sha512P kk ivv) a n b v)
  | 0, _, _, _, _, _, hst, _ => hst
  | n + 1, b, k, st, v, hv, hst, hS => by
    simp only [blocksEmit] at hS ⊢
    have hl : (blockWords b).length = 16 := by simp [blockWords]
    rw [traceSat_append, blockEmit_length kk k st _ hl] at hS
    have h1 := block_sound hpr hp ha kk ivv hkk hv hst (blockWords_inv b hext) hl hS.1
    exact blocks_sound hpr hp ha kk ivv hkk hext n (b + 1) _ _ _ (compressW_length _ _ _ hv) h1 hS.2

/-! ## the initial state -/

theorem spread64_eq {n x : Nat} (hn : n ≤ 64) (hx : x < 2 ^ n) : spread64 x = spreadFuel n x :=
  spread64_of_lt hn hx

theorem AInv_fixed {c : Nat} (hc : c < 2 ^ 64) : AInv a (LRefs.fixed [13, 12, 5, 6, 13, 13, 2] c) c := by
  refine ⟨hc, rfl, rfl, rfl, ?_, ?_, ?_, ?_, ?_, ?_, ?_⟩
  · show spread64 (c / 2 ^ (64 - 13) % 2 ^ 13) = _
    have e : c / 2 ^ (64 - 13) % 2 ^ 13 = c / 2 ^ 51 := by omega
    rw [e]; exact spread64_eq (by omega) (by omega)
  · show spread64 (c / 2 ^ (64 - 13 - 12) % 2 ^ 12) = _
    exact spread64_eq (by omega) (by omega)
  · show spread64 (c / 2 ^ (64 - 13 - 12 - 5) % 2 ^ 5) = _
    exact spread64_eq (by omega) (by omega)
  · show spread64 (c / 2 ^ (64 - 13 - 12 - 5 - 6) % 2 ^ 6) = _
    exact spread64_eq (by omega) (by omega)
  · show spread64 (c / 2 ^ (64 - 13 - 12 - 5 - 6 - 13) % 2 ^ 13) = _
    exact spread64_eq (by omega) (by omega)
  · show spread64 (c / 2 ^ (64 - 13 - 12 - 5 - 6 - 13 - 13) % 2 ^ 13) = _
    exact spread64_eq (by omega) (by omega)
  · show spread64 (c / 2 ^ (64 - 13 - 12 - 5 - 6 - 13 - 13 - 2) % 2 ^ 2) = _
    have e : c / 2 ^ (64 - 13 - 12 - 5 - 6 - 13 - 13 - 2) % 2 ^ 2 = c % 2 ^ 2 := by norm_num
    rw [e]; exact spread64_eq (by omega) (by omega)

theorem EInv_fixed {c : Nat} (hc : c < 2 ^ 64) : EInv a (LRefs.fixed [13, 10, 13, 10, 4, 13, 1] c) c := by
  refine ⟨hc, rfl, rfl, rfl, ?_, ?_, ?_, ?_, ?_, ?_, ?_⟩
  · show spread64 (c / 2 ^ (64 - 13) % 2 ^ 13) = _
    have e : c / 2 ^ (64 - 13) % 2 ^ 13 = c / 2 ^ 51 := by omega
    rw [e]; exact spread64_eq (by omega) (by omega)
  · show spread64 (c / 2 ^ (64 - 13 - 10) % 2 ^ 10) = _
    exact spread64_eq (by omega) (by omega)
  · show spread64 (c / 2 ^ (64 - 13 - 10 - 13) % 2 ^ 13) = _
    exact spread64_eq (by omega) (by omega)
  · show spread64 (c / 2 ^ (64 - 13 - 10 - 13 - 10) % 2 ^ 10) = _
    exact spread64_eq (by omega) (by omega)
  · show spread64 (c / 2 ^ (64 - 13 - 10 - 13 - 10 - 4) % 2 ^ 4) = _
    exact spread64_eq (by omega) (by omega)
  · show spread64 (c / 2 ^ (64 - 13 - 10 - 13 - 10 - 4 - 13) % 2 ^ 13) = _
    exact spread64_eq (by omega) (by omega)
  · show spread64 (c / 2 ^ (64 - 13 - 10 - 13 - 10 - 4 - 13 - 1) % 2 ^ 1) = _
    have e : c / 2 ^ (64 - 13 - 10 - 13 - 10 - 4 - 13 - 1) % 2 ^ 1 = c % 2 ^ 1 := by norm_num
    rw [e]; exact spread64_eq (by omega) (by omega)

theorem PSInv_fixed {c : Nat} (hc : c < 2 ^ 64) : PSInv a (PS.fixed c) c := ⟨hc, rfl, rfl⟩

/-- `CompressionState::fixed(IV)` holds the IV. -/
theorem StInv_fixed {iv : List Nat} (h : ∀ i, iv.getD i 0 < 2 ^ 64) : StInv a (StRefs.fixed iv) iv :=
  ⟨AInv_fixed (h 0), PSInv_fixed (h 1), PSInv_fixed (h 2), ⟨rfl, h 3⟩, EInv_fixed (h 4), PSInv_fixed (h 5),
    PSInv_fixed (h 6), ⟨rfl, h 7⟩⟩

/-- The cells returned by `CompressionState::plain` hold the eight words. -/
theorem StInv.plain_cells {st : StRefs} {v : List Nat} (h : StInv a st v) (hv : v.length = 8) :
    st.plain.map (get a) = v := by
  obtain ⟨x0, x1, x2, x3, x4, x5, x6, x7, rfl⟩ := list8 hv
  have h0 := h.sa.plain; have h1 := h.sb.plain; have h2 := h.sc.plain; have h3 := h.sd.1
  have h4 := h.se.plain; have h5 := h.sf.plain; have h6 := h.sg.plain; have h7 := h.sh.1
  simp only [List.getD_cons_succ, List.getD_cons_zero] at h0 h1 h2 h3 h4 h5 h6 h7
  simp only [StRefs.plain, List.map_cons, List.map_nil, h0, h1, h2, h3, h4, h5, h6, h7]

end MidnightZK.C07.Chip512
