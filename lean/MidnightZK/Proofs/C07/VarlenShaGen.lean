import Mathlib.Data.List.GetD
import MidnightZK.Proofs.C07.Basic
import MidnightZK.Model.C07.ShaVarlen
import MidnightZK.Proofs.C07.ShaSpec
/-! C07: `sha256_varlen` for EVERY `MAX_LEN` (multiple of 64), every length and every filler.

* `computePadding` only moves cells: it commutes with `List.map` (naturality), so its behaviour on 64
  position tags — evaluated by the kernel for each of the 65 possible final-chunk lengths — is its
  behaviour on all cell contents (`computePadding_spec`).
* the conditional-update loop, by induction over the chunks (`pre_flatten`).
* together: the compressed blocks are the 64-byte blocks of the FIPS padding of the payload
  (`varlenBlocks_spec`). -/
namespace MidnightZK.C07

section nat
variable {α β : Type}

theorem getD_map' (f : α → β) : ∀ (l : List α) (i : Nat) (d : α), (l.map f).getD i (f d) = f (l.getD i d)
  | [], _, _ => rfl
  | _ :: _, 0, _ => rfl
  | _ :: t, i + 1, d => by simp only [List.map_cons, List.getD_cons_succ]; exact getD_map' f t i d

theorem mergeChunks_map (f : α → β) (c1 c2 : List α) (d : α) (len : Nat) :
    (mergeChunks c1 c2 d len).map f = mergeChunks (c1.map f) (c2.map f) (f d) len := by
  unfold mergeChunks
  rw [List.map_map, List.length_map]
  apply List.map_congr_left
  intro i _
  simp only [Function.comp]
  split
  · rw [getD_map']
  · rw [getD_map']

theorem insertInArray_map (f : α → β) (arr : List α) (d : α) (idx : Nat) (e : α) :
    (insertInArray arr d idx e).map f = insertInArray (arr.map f) (f d) idx (f e) := by
  unfold insertInArray
  rw [List.map_map, List.length_map]
  apply List.map_congr_left
  intro i _
  simp only [Function.comp]
  split
  · rfl
  · rw [getD_map']

/-- `compute_padding` only moves cells: it commutes with any relabelling of the cells. -/
theorem computePadding_map (f : α → β) (zero one : α) (lb : List α) (fbl : Nat) (extra : Bool) (fc : List α) :
    (computePadding zero one lb fbl extra fc).map f
      = computePadding (f zero) (f one) (lb.map f) fbl extra (fc.map f) := by
  unfold computePadding
  simp only [List.map_append, List.map_take, List.map_drop, insertInArray_map, mergeChunks_map,
    List.map_replicate]

end nat

/-! ## The padding on position tags (kernel evaluation over the 65 final-chunk lengths) -/

/-- Tags: constant `0x00` ↦ 0, constant `0x80` ↦ 1, length byte `i` ↦ `10 + i`, cell `i` of the final
chunk ↦ `100 + i`. -/
def fcTags : List Nat := (List.range 64).map (fun i => 100 + i)
def lbTags : List Nat := (List.range 8).map (fun i => 10 + i)

/-- What `compute_padding` must return (both blocks; the first one is only compressed when `extra`). -/
def paddingExpected {α : Type} (zero one : α) (lb fc : List α) (fbl : Nat) : List α :=
  if fbl < 56 then
    fc.take fbl ++ List.replicate (64 - fbl) zero ++ (fc.take fbl ++ [one] ++ List.replicate (55 - fbl) zero ++ lb)
  else fc.take fbl ++ [one] ++ List.replicate (119 - fbl) zero ++ lb

theorem computePadding_tags :
    (List.range 65).all (fun fbl =>
      computePadding 0 1 lbTags fbl (!(decide (fbl < 56))) fcTags == paddingExpected 0 1 lbTags fcTags fbl) = true := by
  decide +kernel

section transfer
variable {α : Type}

/-- The relabelling sending the tags to actual cells. -/
def untag (zero one : α) (lb fc : List α) (t : Nat) : α :=
  if t = 0 then zero else if t = 1 then one else if t < 100 then lb.getD (t - 10) zero else fc.getD (t - 100) zero

theorem map_untag_fc (zero one : α) (lb fc : List α) (h : fc.length = 64) :
    fcTags.map (untag zero one lb fc) = fc := by
  apply List.ext_getElem
  · simp [fcTags, h]
  · intro i h1 h2
    have hi : i < 64 := by simpa [fcTags] using h1
    simp only [fcTags, List.getElem_map, List.getElem_range, untag]
    have e1 : ¬ (100 + i = 0) := by omega
    have e2 : ¬ (100 + i = 1) := by omega
    have e3 : ¬ (100 + i < 100) := by omega
    have e4 : 100 + i - 100 = i := by omega
    rw [if_neg e1, if_neg e2, if_neg e3, e4, List.getD_eq_getElem _ _ h2]

theorem map_untag_lb (zero one : α) (lb fc : List α) (h : lb.length = 8) :
    lbTags.map (untag zero one lb fc) = lb := by
  apply List.ext_getElem
  · simp [lbTags, h]
  · intro i h1 h2
    have hi : i < 8 := by simpa [lbTags] using h1
    simp only [lbTags, List.getElem_map, List.getElem_range, untag]
    have e1 : ¬ (10 + i = 0) := by omega
    have e2 : ¬ (10 + i = 1) := by omega
    have e3 : 10 + i < 100 := by omega
    have e4 : 10 + i - 10 = i := by omega
    rw [if_neg e1, if_neg e2, if_pos e3, e4, List.getD_eq_getElem _ _ h2]

/-- **`compute_padding` on all cell contents**: for every final chunk of 64 cells, every final-chunk length
`fbl ≤ 64` and the 8 length cells, the two returned blocks are `paddingExpected`. -/
theorem computePadding_spec (zero one : α) (lb fc : List α) (hlb : lb.length = 8) (hfc : fc.length = 64)
    (fbl : Nat) (hf : fbl ≤ 64) :
    computePadding zero one lb fbl (!(decide (fbl < 56))) fc = paddingExpected zero one lb fc fbl := by
  have ht := List.all_eq_true.mp computePadding_tags fbl (List.mem_range.mpr (by omega))
  have ht' : computePadding 0 1 lbTags fbl (!(decide (fbl < 56))) fcTags = paddingExpected 0 1 lbTags fcTags fbl := by
    simpa using ht
  have hm := congrArg (List.map (untag zero one lb fc)) ht'
  rw [computePadding_map, map_untag_lb zero one lb fc hlb, map_untag_fc zero one lb fc hfc] at hm
  have u0 : untag zero one lb fc 0 = zero := by simp [untag]
  have u1 : untag zero one lb fc 1 = one := by simp [untag]
  rw [u0, u1] at hm
  rw [hm]
  unfold paddingExpected
  split
  · simp only [List.map_append, List.map_take, List.map_replicate, List.map_cons, List.map_nil, u0, u1,
      map_untag_lb zero one lb fc hlb, map_untag_fc zero one lb fc hfc]
  · simp only [List.map_append, List.map_take, List.map_replicate, List.map_cons, List.map_nil, u0, u1,
      map_untag_lb zero one lb fc hlb, map_untag_fc zero one lb fc hfc]

end transfer

/-! ## The conditional-update loop -/

section loop
variable {α : Type}

/-- The body of the chunk loop of `sha256_varlen` (the `step` of `varlenBlocks`). -/
def vstep (R M : Nat) (buffer : List α) (s : List (List α) × Bool) (i : Nat) : List (List α) × Bool :=
  let b := decide (R = M - i * 64)
  let u := xor b s.2
  (if u then s.1 ++ [(buffer.drop (i * 64)).take 64] else s.1, u)

theorem varlenBlocks_unfold (zero one : α) (lenBytes : Nat → List α) (M : Nat) (buffer : List α) (len : Nat) :
    varlenBlocks zero one lenBytes M buffer len =
      (let fbl := (finalBlockLen len).1
       let extra := (finalBlockLen len).2
       let R := if fbl = 0 then len - fbl else len - fbl + 64
       let pre := ((List.range (M / 64 - 1)).foldl (vstep R M buffer) ([], false)).1
       let padding := computePadding zero one (lenBytes len) fbl extra ((buffer.drop ((M / 64 - 1) * 64)).take 64)
       pre ++ (if extra then [padding.take 64] else []) ++ [padding.drop 64]) := rfl

theorem foldl_range'_succ {σ : Type} (f : σ → Nat → σ) (n s : Nat) (a : σ) :
    (List.range' s (n + 1)).foldl f a = (List.range' (s + 1) n).foldl f (f a s) := by
  rw [List.range'_succ]; rfl

/-- Chunks before the first payload chunk are skipped. -/
theorem vstep_idle (R M : Nat) (buffer : List α) (acc : List (List α)) :
    ∀ (m s : Nat), (∀ i, s ≤ i → i < s + m → R ≠ M - i * 64) →
      (List.range' s m).foldl (vstep R M buffer) (acc, false) = (acc, false) := by
  intro m
  induction m with
  | zero => intro s _; rfl
  | succ m ih =>
    intro s h
    rw [foldl_range'_succ]
    have hb : ¬ (R = M - s * 64) := h s (Nat.le_refl _) (by omega)
    have : vstep R M buffer (acc, false) s = (acc, false) := by
      simp [vstep, hb]
    rw [this]
    exact ih (s + 1) (fun i h1 h2 => h i (by omega) (by omega))

/-- From the first payload chunk `i0` on, every chunk is appended. -/
theorem vstep_active (R M : Nat) (buffer : List α) (i0 : Nat) (hi0 : ∀ i, R = M - i * 64 ↔ i = i0) :
    ∀ (m s : Nat) (acc : List (List α)) (u : Bool), i0 ≤ s → u = decide (i0 < s) →
      ((List.range' s m).foldl (vstep R M buffer) (acc, u)).1
        = acc ++ (List.range' s m).map (fun i => (buffer.drop (i * 64)).take 64) := by
  intro m
  induction m with
  | zero => intro s acc u _ _; simp
  | succ m ih =>
    intro s acc u hs hu
    rw [foldl_range'_succ]
    have hx : xor (decide (R = M - s * 64)) u = true := by
      subst hu
      by_cases h : s = i0
      · have := (hi0 s).mpr h
        simp [this, h]
      · have h1 : ¬ (R = M - s * 64) := fun hh => h ((hi0 s).mp hh)
        have h2 : i0 < s := by omega
        simp [h1, h2]
    have : vstep R M buffer (acc, u) s = (acc ++ [(buffer.drop (s * 64)).take 64], true) := by
      simp only [vstep, hx, if_true]
    rw [this, ih (s + 1) _ true (by omega) (by simp; omega), List.range'_succ, List.map_cons, List.append_assoc]
    rfl

/-- Consecutive 64-cell chunks of a buffer are a slice of it. -/
theorem chunks_flatten (buffer : List α) : ∀ (m s : Nat), (s + m) * 64 ≤ buffer.length →
    ((List.range' s m).map (fun i => (buffer.drop (i * 64)).take 64)).flatten
      = (buffer.drop (s * 64)).take (m * 64) := by
  intro m
  induction m with
  | zero => intro s _; simp
  | succ m ih =>
    intro s h
    rw [List.range'_succ, List.map_cons, List.flatten_cons, ih (s + 1) (by omega)]
    have e : (m + 1) * 64 = 64 + m * 64 := by omega
    rw [e, List.take_add, List.drop_drop]
    have e2 : s * 64 + 64 = (s + 1) * 64 := by omega
    rw [e2]

theorem chunks_length (buffer : List α) (m s : Nat) (h : (s + m) * 64 ≤ buffer.length) :
    ∀ b ∈ (List.range' s m).map (fun i => (buffer.drop (i * 64)).take 64), b.length = 64 := by
  intro b hb
  simp only [List.mem_map, List.mem_range'_1] at hb
  obtain ⟨i, ⟨h1, h2⟩, rfl⟩ := hb
  rw [List.length_take, List.length_drop]
  have : (i + 1) * 64 ≤ (s + m) * 64 := Nat.mul_le_mul_right 64 (by omega)
  omega

end loop

/-! ## Assembly -/

section assembly
variable {α : Type}

/-- `final_block_len`: the final-chunk length and the extra-block flag, by cases. -/
theorem finalBlockLen_cases (len : Nat) :
    (finalBlockLen len).2 = !(decide ((finalBlockLen len).1 < 56)) ∧ (finalBlockLen len).1 ≤ 64 ∧
    (len = 0 → (finalBlockLen len).1 = 0) ∧
    (0 < len → 1 ≤ (finalBlockLen len).1 ∧ ∃ q, len = 64 * q + (finalBlockLen len).1) := by
  have he : (finalBlockLen len).2 = !(decide ((finalBlockLen len).1 < 56)) := rfl
  have hf : (finalBlockLen len).1 = if len = 0 then 0 else if len % 64 = 0 then 64 else len % 64 := by
    unfold finalBlockLen
    by_cases h0 : len = 0
    · subst h0; simp
    · by_cases h1 : len % 64 = 0
      · simp [h0, h1]
      · simp [h0, h1]
  refine ⟨he, ?_, ?_, ?_⟩
  · rw [hf]; split
    · omega
    · split <;> omega
  · intro h; rw [hf, if_pos h]
  · intro h
    rw [hf, if_neg (by omega)]
    split
    · exact ⟨by omega, len / 64 - 1, by omega⟩
    · exact ⟨by omega, len / 64, by omega⟩

theorem byteBuffer_length (M : Nat) (data : List α) (filler : α) : (byteBuffer M data filler).length = M := by
  simp [byteBuffer]

/-- The payload is the slice of the buffer starting at `M − len − finalPad`. -/
theorem byteBuffer_slice (M : Nat) (data : List α) (filler : α)
    (h : data.length + (64 - data.length % 64) % 64 ≤ M) :
    ((byteBuffer M data filler).drop (M - data.length - (64 - data.length % 64) % 64)).take data.length = data := by
  apply List.ext_getElem
  · rw [List.length_take, List.length_drop, byteBuffer_length]; omega
  · intro i h1 h2
    rw [List.getElem_take, List.getElem_drop]
    simp only [byteBuffer, List.getElem_map, List.getElem_range]
    have c : M - data.length - (64 - data.length % 64) % 64 ≤ M - data.length - (64 - data.length % 64) % 64 + i ∧
        M - data.length - (64 - data.length % 64) % 64 + i
          < M - data.length - (64 - data.length % 64) % 64 + data.length := by omega
    rw [if_pos c]
    have e : M - data.length - (64 - data.length % 64) % 64 + i
        - (M - data.length - (64 - data.length % 64) % 64) = i := by omega
    rw [e, List.getD_eq_getElem _ _ h2]

theorem paddingExpected_length (zero one : α) (lb fc : List α) (hlb : lb.length = 8) (hfc : fc.length = 64)
    (fbl : Nat) (hf : fbl ≤ 64) : (paddingExpected zero one lb fc fbl).length = 128 := by
  unfold paddingExpected
  split <;> simp [hlb, hfc] <;> omega

/-- **varlen_select_spec (SHA-256), every `MAX_LEN`.** -/
theorem varlenBlocks_spec (zero one filler : α) (lb : List α) (hlb : lb.length = 8) (M : Nat) (hM : M % 64 = 0)
    (hM0 : 64 ≤ M) (data : List α) (hl : data.length ≤ M) :
    (varlenBlocks zero one (fun _ => lb) M (byteBuffer M data filler) data.length).flatten
      = data ++ [one] ++ List.replicate ((64 - (data.length + 1 + 8) % 64) % 64) zero ++ lb ∧
    ∀ b ∈ varlenBlocks zero one (fun _ => lb) M (byteBuffer M data filler) data.length, b.length = 64 := by
  obtain ⟨hex, hfle, hz, hpos⟩ := finalBlockLen_cases data.length
  rw [varlenBlocks_unfold]
  simp only
  set buffer := byteBuffer M data filler with hbuf
  set fbl := (finalBlockLen data.length).1 with hfbl
  set len := data.length with hlen
  have hbl : buffer.length = M := byteBuffer_length M data filler
  have hfcl : ((buffer.drop ((M / 64 - 1) * 64)).take 64).length = 64 := by
    rw [List.length_take, List.length_drop, hbl]; omega
  rw [hex, computePadding_spec zero one lb _ hlb hfcl fbl hfle]
  have hpl := paddingExpected_length zero one lb ((buffer.drop ((M / 64 - 1) * 64)).take 64) hlb hfcl fbl hfle
  set fc := (buffer.drop ((M / 64 - 1) * 64)).take 64 with hfc
  by_cases h0 : len = 0
  · -- empty payload: no chunk is compressed, one padding block
    have hf0 : fbl = 0 := hz h0
    have hd : data = [] := List.length_eq_zero_iff.mp h0
    have hpre : (List.range (M / 64 - 1)).foldl (vstep (if fbl = 0 then len - fbl else len - fbl + 64) M buffer)
        ([], false) = ([], false) := by
      rw [List.range_eq_range']
      apply vstep_idle
      intro i _ hi
      rw [hf0, h0]
      simp only [if_true]
      omega
    rw [hpre]
    have hx : (!(decide (fbl < 56))) = false := by simp [hf0]
    simp only [hx, Bool.false_eq_true, if_false, List.nil_append, List.append_nil]
    have hdrop : (paddingExpected zero one lb fc fbl).drop 64
        = fc.take fbl ++ [one] ++ List.replicate (55 - fbl) zero ++ lb := by
      unfold paddingExpected
      rw [if_pos (by omega)]
      apply List.drop_left'
      simp [hf0]
    constructor
    · rw [List.flatten_singleton, hdrop, hd, hf0]
      simp [h0]
    · intro b hb
      simp only [List.mem_singleton] at hb
      subst hb
      rw [List.length_drop, hpl]
  · -- non-empty payload
    obtain ⟨hf1, q, hq⟩ := hpos (by omega)
    have hR : (if fbl = 0 then len - fbl else len - fbl + 64) = 64 * q + 64 := by
      rw [if_neg (by omega)]; omega
    rw [hR]
    -- M = 64 * nb, first payload chunk i0
    obtain ⟨nb, hnb⟩ : ∃ nb, M = 64 * nb := ⟨M / 64, by omega⟩
    have hdiv : M / 64 = nb := by omega
    rw [hdiv] at hfc ⊢
    have hfp : (64 - len % 64) % 64 = 64 - fbl := by omega
    have hRM : 64 * q + 64 ≤ M := by
      -- len + finalPad ≤ M because both are multiples of 64 … and len ≤ M
      have : len + (64 - fbl) ≤ M := by
        by_contra hc
        have h1 : M < len + (64 - fbl) := by omega
        have h2 : 64 * nb < 64 * q + 64 := by omega
        have h3 : nb ≤ q := by omega
        omega
      omega
    have hi0 : ∀ i, 64 * q + 64 = M - i * 64 ↔ i = nb - (q + 1) := by
      intro i; constructor <;> intro h <;> omega
    have hsplit : List.range (nb - 1) = List.range' 0 (nb - (q + 1)) ++ List.range' (nb - (q + 1)) q := by
      rw [List.range_eq_range']
      have : nb - 1 = (nb - (q + 1)) + q := by omega
      conv_lhs => rw [this]
      rw [← List.range'_append_1]
      simp
    have hpre : ((List.range (nb - 1)).foldl (vstep (64 * q + 64) M buffer) ([], false)).1
        = (List.range' (nb - (q + 1)) q).map (fun i => (buffer.drop (i * 64)).take 64) := by
      rw [hsplit, List.foldl_append, vstep_idle (64 * q + 64) M buffer [] (nb - (q + 1)) 0
        (fun i _ hi => by omega)]
      rw [vstep_active (64 * q + 64) M buffer (nb - (q + 1)) hi0 q (nb - (q + 1)) [] false (Nat.le_refl _) (by simp)]
      simp
    rw [hpre]
    have hcf := chunks_flatten buffer q (nb - (q + 1)) (by rw [hbl]; omega)
    have hcl := chunks_length buffer q (nb - (q + 1)) (by rw [hbl]; omega)
    -- the payload = the compressed chunks ++ the head of the final chunk
    have hdata : data = (buffer.drop ((nb - (q + 1)) * 64)).take (q * 64) ++ fc.take fbl := by
      have hs := byteBuffer_slice M data filler (by rw [← hlen, hfp]; omega)
      rw [← hbuf, ← hlen, hfp] at hs
      have e1 : M - len - (64 - fbl) = (nb - (q + 1)) * 64 := by omega
      have e2 : len = q * 64 + fbl := by omega
      rw [e1] at hs
      conv_lhs => rw [← hs]
      rw [e2, List.take_add, List.drop_drop, hfc, List.take_take]
      have e3 : (nb - (q + 1)) * 64 + q * 64 = (nb - 1) * 64 := by omega
      have e4 : min fbl 64 = fbl := by omega
      rw [e3, e4]
    by_cases hx : fbl < 56
    · have hxb : (!(decide (fbl < 56))) = false := by simp [hx]
      simp only [hxb, Bool.false_eq_true, if_false, List.append_nil]
      have hdrop : (paddingExpected zero one lb fc fbl).drop 64
          = fc.take fbl ++ [one] ++ List.replicate (55 - fbl) zero ++ lb := by
        unfold paddingExpected
        rw [if_pos hx]
        apply List.drop_left'
        simp [hfcl]
        omega
      constructor
      · rw [List.flatten_append, List.flatten_singleton, hcf, hdrop]
        have ez : (64 - (len + 1 + 8) % 64) % 64 = 55 - fbl := by omega
        rw [ez]
        conv_rhs => rw [hdata]
        simp only [List.append_assoc]
      · intro b hb
        rcases List.mem_append.mp hb with hb | hb
        · exact hcl b hb
        · simp only [List.mem_singleton] at hb
          subst hb
          rw [List.length_drop, hpl]
    · have hxb : (!(decide (fbl < 56))) = true := by simp [hx]
      simp only [hxb, if_true]
      constructor
      · rw [List.flatten_append, List.flatten_append, List.flatten_singleton, List.flatten_singleton,
          List.append_assoc, List.take_append_drop, hcf]
        unfold paddingExpected
        rw [if_neg hx]
        have ez : (64 - (len + 1 + 8) % 64) % 64 = 119 - fbl := by omega
        rw [ez]
        conv_rhs => rw [hdata]
        simp only [List.append_assoc]
      · intro b hb
        rcases List.mem_append.mp hb with hb | hb
        · rcases List.mem_append.mp hb with hb | hb
          · exact hcl b hb
          · simp only [List.mem_singleton] at hb
            subst hb
            rw [List.length_take, hpl]; rfl
        · simp only [List.mem_singleton] at hb
          subst hb
          rw [List.length_drop, hpl]

/-- Same with the length cells given as a function of the length (as `varlenBlocks` takes them). -/
theorem varlenBlocks_spec' (zero one filler : α) (lenBytes : Nat → List α) (M : Nat) (hM : M % 64 = 0)
    (hM0 : 64 ≤ M) (data : List α) (hl : data.length ≤ M) (hlb : (lenBytes data.length).length = 8) :
    (varlenBlocks zero one lenBytes M (byteBuffer M data filler) data.length).flatten
      = data ++ [one] ++ List.replicate ((64 - (data.length + 1 + 8) % 64) % 64) zero ++ lenBytes data.length ∧
    ∀ b ∈ varlenBlocks zero one lenBytes M (byteBuffer M data filler) data.length, b.length = 64 := by
  have e : varlenBlocks zero one lenBytes M (byteBuffer M data filler) data.length
      = varlenBlocks zero one (fun _ => lenBytes data.length) M (byteBuffer M data filler) data.length := rfl
  rw [e]
  exact varlenBlocks_spec zero one filler (lenBytes data.length) hlb M hM hM0 data hl

end assembly

/-! ## Digest level -/

theorem beBytes_length : ∀ (n v : Nat), (beBytes n v).length = n
  | 0, _ => rfl
  | n + 1, v => by simp [beBytes, beBytes_length n]

/-- Cutting the concatenation of 64-byte blocks into chunks of 64 gives the blocks back. -/
theorem chunksFuel_flatten : ∀ (blocks : List (List Nat)) (fuel : Nat), (∀ b ∈ blocks, b.length = 64) →
    blocks.length < fuel → chunksFuel 64 fuel blocks.flatten = blocks
  | [], fuel, _, hf => by
    obtain ⟨f, rfl⟩ : ∃ f, fuel = f + 1 := ⟨fuel - 1, by simp at hf; omega⟩
    simp [chunksFuel]
  | b :: bs, fuel, h, hf => by
    obtain ⟨f, rfl⟩ : ∃ f, fuel = f + 1 := ⟨fuel - 1, by simp at hf; omega⟩
    have hb : b.length = 64 := h b (by simp)
    have hne : (b ++ bs.flatten).isEmpty = false := by
      cases b with
      | nil => simp at hb
      | cons _ _ => rfl
    simp only [List.flatten_cons, chunksFuel, hne, Bool.false_eq_true, if_false]
    rw [List.take_left' hb, List.drop_left' hb,
      chunksFuel_flatten bs f (fun x hx => h x (by simp [hx])) (by simp at hf; omega)]

theorem chunks_flatten_blocks (blocks : List (List Nat)) (h : ∀ b ∈ blocks, b.length = 64) :
    chunks 64 blocks.flatten = blocks := by
  unfold chunks
  apply chunksFuel_flatten blocks _ h
  have : blocks.flatten.length = 64 * blocks.length := by
    induction blocks with
    | nil => rfl
    | cons b bs ih =>
      rw [List.flatten_cons, List.length_append, ih (fun x hx => h x (by simp [hx])), h b (by simp)]
      simp only [List.length_cons]; omega
  omega

/-- **varlen_select_spec (SHA-256).** For EVERY buffer size `MAX_LEN` (multiple of 64), every payload of
`len ≤ MAX_LEN` bytes placed as `assign_with_filler` does and every filler: the digest computed by the
model of `sha256_varlen` is the SHA-256 digest of the payload (any tables `k`, `iv`). -/
theorem sha256Varlen_eq_digest (k iv : List Nat) (M : Nat) (hM : M % 64 = 0) (hM0 : 64 ≤ M) (data : List Nat)
    (filler : Nat) (hl : data.length ≤ M) :
    sha256Varlen (sha256P k iv) M (byteBuffer M data filler) data.length = (sha256P k iv).digest data := by
  obtain ⟨hflat, hlen⟩ := varlenBlocks_spec' 0 0x80 filler (fun l => beBytes 8 (8 * l)) M hM hM0 data hl
    (beBytes_length _ _)
  unfold sha256Varlen Sha2.digest
  have hpad : (sha256P k iv).pad data
      = (varlenBlocks 0 0x80 (fun l => beBytes 8 (8 * l)) M (byteBuffer M data filler) data.length).flatten := by
    rw [hflat, sha256_pad_eq]
    rfl
  have hb : (sha256P k iv).blockBytes = 64 := by
    simp [Sha2.blockBytes, Sha2.wordBytes, sha256P]
  simp only [hb, hpad]
  rw [chunks_flatten_blocks _ hlen]

end MidnightZK.C07
