import MidnightZK.Proofs.C07.ChipRegions
import MidnightZK.Proofs.C07.ChipRegions2
import MidnightZK.Model.C07.RipemdChip
import MidnightZK.Gen.C07RmdGates
/-! C07: soundness of the operations (regions) of the RIPEMD-160 chip, from the gate polynomials
generated from the real `RipeMD160Chip::configure`, the lookups and the copy constraints of the
emitted region (`Model/C07/RipemdChip.lean`). -/
namespace MidnightZK.C07.ChipR
open MidnightZK.C07
open MidnightZK.C07.Chip (Src Asg get InTable IsPlain IsSpr exact_of_mod exact_of_mod_add concat_11_11_10
  spread32_lt zero maskEvn64 mask_eq get_reg get_const get_ext)

variable {p : Nat} {G : Sel → List Expr} {a : Asg} {k : Nat} {r : Region}

theorem Sat.gate' (h : Sat p G a k r) {s : Sel} {o : Nat} {e : Expr} (hs : (s, o) ∈ r.sels) (he : e ∈ G s) :
    e.eval (rowEnv a k o) (fixEnv r o) % (p : Int) = 0 := h.gate (s, o) hs e he

theorem Sat.look' (h : Sat p G a k r) {o : Nat} (hs : (Sel.lookup, o) ∈ r.sels) (li : Nat) (hli : li < 2) :
    InTable (fixAt r li o) (a (.reg k o (2 * li))) (a (.reg k o (2 * li + 1))) := h.look (.lookup, o) hs rfl li hli

theorem Sat.copy' (h : Sat p G a k r) {src : Src} {col off : Nat} (hc : (src, col, off) ∈ r.copies) :
    a (.reg k off col) = get a src := h.copy (src, col, off) hc

@[simp] theorem rowEnv_m1 (a : Asg) (k o c : Nat) : rowEnv a k (o + 1) c (-1) = (a (.reg k o c) : Int) := by
  unfold rowEnv
  have : Int.toNat (((o + 1 : Nat) : Int) + -1) = o := by omega
  rw [this]

@[simp] theorem rowEnv_0 (a : Asg) (k o c : Nat) : rowEnv a k o c 0 = (a (.reg k o c) : Int) := by
  unfold rowEnv
  have : Int.toNat (((o : Nat) : Int) + 0) = o := by omega
  rw [this]

@[simp] theorem rowEnv_p1 (a : Asg) (k o c : Nat) : rowEnv a k o c 1 = (a (.reg k (o + 1) c) : Int) := by
  unfold rowEnv
  have : Int.toNat (((o : Nat) : Int) + 1) = o + 1 := by omega
  rw [this]

/-- Unfolding of the region builders. -/
macro "rmd_simp" : tactic =>
  `(tactic| simp [prepareSpreaded, ChipR.and, fTypeOne, fTypeTwo, addMod, Region.sprdd111110, Region.aps,
      Region.enable, Region.assignFixed, Region.assignAdvice, Region.copyAdvice, Region.constrainEqual, fixAt,
      zero])

/-- What `assign_sprdd_11_11_10` at offset `off` guarantees, whatever the parity: the returned cell
(`A4` at `off`) is a 32-bit word whose spread is the inner product of the spreaded limbs in `A1`, and
the inner product of the spreaded limbs in `A3` is the spread of another 32-bit word. -/
theorem sprdd_block {off : Nat} (hp : 2 ^ 66 ≤ p) (ha : ∀ c, a c < p) (hS : Sat p Gen.rmdGates a k r)
    (h0 : (Sel.lookup, off) ∈ r.sels) (h1 : (Sel.lookup, off + 1) ∈ r.sels) (h2 : (Sel.lookup, off + 2) ∈ r.sels)
    (hd : (Sel.d11, off + 1) ∈ r.sels)
    (t00 : fixAt r 0 off = 11) (t01 : fixAt r 0 (off + 1) = 11) (t02 : fixAt r 0 (off + 2) = 10)
    (t10 : fixAt r 1 off = 11) (t11 : fixAt r 1 (off + 1) = 11) (t12 : fixAt r 1 (off + 2) = 10) :
    ∃ v, a (.reg k off 4) < 2 ^ 32 ∧ v < 2 ^ 32 ∧
      4 ^ 21 * a (.reg k off 1) + 4 ^ 10 * a (.reg k (off + 1) 1) + a (.reg k (off + 2) 1)
        = spreadFuel 32 (a (.reg k off 4)) ∧
      4 ^ 21 * a (.reg k off 3) + 4 ^ 10 * a (.reg k (off + 1) 3) + a (.reg k (off + 2) 3) = spreadFuel 32 v ∧
      v = 2 ^ 21 * a (.reg k off 2) + 2 ^ 10 * a (.reg k (off + 1) 2) + a (.reg k (off + 2) 2) := by
  have l00 := hS.look' h0 0 (by omega)
  have l01 := hS.look' h1 0 (by omega)
  have l02 := hS.look' h2 0 (by omega)
  have l10 := hS.look' h0 1 (by omega)
  have l11 := hS.look' h1 1 (by omega)
  have l12 := hS.look' h2 1 (by omega)
  rw [t00] at l00; rw [t01] at l01; rw [t02] at l02; rw [t10] at l10; rw [t11] at l11; rw [t12] at l12
  simp only [Nat.mul_zero, Nat.zero_add, Nat.mul_one] at l00 l01 l02 l10 l11 l12
  obtain ⟨b1, s1⟩ := l00
  obtain ⟨b2, s2⟩ := l01
  obtain ⟨b3, s3⟩ := l02
  obtain ⟨c1, q1⟩ := l10
  obtain ⟨c2, q2⟩ := l11
  obtain ⟨c3, q3⟩ := l12
  have g := hS.gate' hd (e := Gen.rmdGate_d11.getD 0 default) (by simp [Gen.rmdGates, Gen.rmdGate_d11])
  have cu := concat_11_11_10 b1 b2 b3
  have cv := concat_11_11_10 c1 c2 c3
  have hout : 2 ^ 21 * a (.reg k off 0) + 2 ^ 10 * a (.reg k (off + 1) 0) + a (.reg k (off + 2) 0)
      = a (.reg k off 4) := by
    refine exact_of_mod g ?_ (by omega) (ha _)
    simp [Gen.rmdGate_d11, Expr.eval]
    ring
  refine ⟨2 ^ 21 * a (.reg k off 2) + 2 ^ 10 * a (.reg k (off + 1) 2) + a (.reg k (off + 2) 2), ?_, cv.1, ?_, ?_, rfl⟩
  · rw [← hout]; exact cu.1
  · rw [← hout, cu.2, s1, s2, s3]
  · rw [cv.2, q1, q2, q3]

/-! ## `f_type_one` (and `xor`) -/

/-- `fn f_type_one`: the returned cell holds `X ⊕ Y ⊕ Z`. -/
theorem fTypeOne_sound (hp : 2 ^ 66 ≤ p) (ha : ∀ c, a c < p) {sX sY sZ : Src} {x y z : Nat}
    (hS : Sat p Gen.rmdGates a k (fTypeOne k sX sY sZ).1)
    (hX : IsSpr a sX x) (hY : IsSpr a sY y) (hZ : IsSpr a sZ z) :
    IsPlain a (fTypeOne k sX sY sZ).2 (x ^^^ y ^^^ z) := by
  obtain ⟨v, hu, hv, su, sv, -⟩ := sprdd_block (off := 0) hp ha hS (by rmd_simp) (by rmd_simp) (by rmd_simp)
    (by rmd_simp) (by rmd_simp) (by rmd_simp) (by rmd_simp) (by rmd_simp) (by rmd_simp) (by rmd_simp)
  have cA := hS.copy' (src := sX) (col := 5) (off := 0) (by rmd_simp)
  have cB := hS.copy' (src := sY) (col := 6) (off := 0) (by rmd_simp)
  have cC := hS.copy' (src := sZ) (col := 7) (off := 0) (by rmd_simp)
  have g := hS.gate' (s := .sumEvn) (o := 1) (e := Gen.rmdGate_sumEvn.getD 0 default) (by rmd_simp)
    (by simp [Gen.rmdGates, Gen.rmdGate_sumEvn])
  rw [hX.1] at cA; rw [hY.1] at cB; rw [hZ.1] at cC
  simp only [Nat.zero_add] at su sv
  have bx := spread32_lt x
  have by' := spread32_lt y
  have bz := spread32_lt z
  have bu := spread32_lt (a (.reg k 0 4))
  have bv := spread32_lt v
  have hsum : a (.reg k 0 5) + a (.reg k 0 6) + a (.reg k 0 7)
      = (4 ^ 21 * a (.reg k 0 1) + 4 ^ 10 * a (.reg k 1 1) + a (.reg k 2 1))
        + 2 * (4 ^ 21 * a (.reg k 0 3) + 4 ^ 10 * a (.reg k 1 3) + a (.reg k 2 3)) := by
    refine exact_of_mod g ?_ (by rw [cA, cB, cC]; omega) (by rw [su, sv]; omega)
    simp [Gen.rmdGate_sumEvn, Expr.eval]
    ring
  rw [cA, cB, cC, su, sv] at hsum
  have := spread_sum_even_odd 32 x y z (a (.reg k 0 4)) v hX.2 hY.2 hZ.2 hu hv hsum
  refine ⟨?_, ?_⟩
  · show get a (.reg k 0 4) = _
    rw [get_reg, this.1]
  · rw [← this.1]; exact hu

/-- The fixed zero is the spread of the word `0`. -/
theorem zero_isSpr (a : Asg) : IsSpr a zero 0 := ⟨by simp [zero, spread_zero], by norm_num⟩

/-- The fixed zero is the word `0`. -/
theorem zero_isPlain (a : Asg) : IsPlain a zero 0 := ⟨rfl, by norm_num⟩

/-- `fn xor` (`f_type_one(X, Y, ~0)`): the returned cell holds `X ⊕ Y`. -/
theorem xor_sound (hp : 2 ^ 66 ≤ p) (ha : ∀ c, a c < p) {sX sY : Src} {x y : Nat}
    (hS : Sat p Gen.rmdGates a k (fTypeOne k sX sY zero).1)
    (hX : IsSpr a sX x) (hY : IsSpr a sY y) :
    IsPlain a (fTypeOne k sX sY zero).2 (x ^^^ y) := by
  have := fTypeOne_sound hp ha hS hX hY (zero_isSpr a)
  simpa using this

/-! ## `and` -/

/-- `fn and`: the returned cell holds `X ∧ Y`. -/
theorem and_sound (hp : 2 ^ 66 ≤ p) (ha : ∀ c, a c < p) {sX sY : Src} {x y : Nat}
    (hS : Sat p Gen.rmdGates a k (ChipR.and k sX sY).1)
    (hX : IsSpr a sX x) (hY : IsSpr a sY y) :
    IsPlain a (ChipR.and k sX sY).2 (x &&& y) := by
  obtain ⟨v, hu, hv, su, sv, -⟩ := sprdd_block (off := 0) hp ha hS (by rmd_simp) (by rmd_simp) (by rmd_simp)
    (by rmd_simp) (by rmd_simp) (by rmd_simp) (by rmd_simp) (by rmd_simp) (by rmd_simp) (by rmd_simp)
  have cA := hS.copy' (src := sX) (col := 5) (off := 0) (by rmd_simp)
  have cB := hS.copy' (src := sY) (col := 6) (off := 0) (by rmd_simp)
  have cC := hS.copy' (src := zero) (col := 7) (off := 0) (by rmd_simp)
  have g := hS.gate' (s := .sumOdd) (o := 1) (e := Gen.rmdGate_sumOdd.getD 0 default) (by rmd_simp)
    (by simp [Gen.rmdGates, Gen.rmdGate_sumOdd])
  rw [hX.1] at cA; rw [hY.1] at cB
  have cC' : a (.reg k 0 7) = 0 := by rw [cC]; rfl
  simp only [Nat.zero_add] at su sv
  have bx := spread32_lt x
  have by' := spread32_lt y
  have bu := spread32_lt (a (.reg k 0 4))
  have bv := spread32_lt v
  have hsum : a (.reg k 0 5) + a (.reg k 0 6) + a (.reg k 0 7)
      = (4 ^ 21 * a (.reg k 0 3) + 4 ^ 10 * a (.reg k 1 3) + a (.reg k 2 3))
        + 2 * (4 ^ 21 * a (.reg k 0 1) + 4 ^ 10 * a (.reg k 1 1) + a (.reg k 2 1)) := by
    refine exact_of_mod g ?_ (by rw [cA, cB, cC']; omega) (by rw [su, sv]; omega)
    simp [Gen.rmdGate_sumOdd, Expr.eval]
    ring
  rw [cA, cB, cC', su, sv, Nat.add_zero] at hsum
  have := spread_sum_even_odd2 32 x y v (a (.reg k 0 4)) hX.2 hY.2 hv hu hsum
  refine ⟨?_, ?_⟩
  · show get a (.reg k 0 4) = _
    rw [get_reg, this.2]
  · rw [← this.2]; exact hu

/-! ## `prepare_spreaded` -/

/-- `fn prepare_spreaded` (with its `assert_equal`): whatever value `x` the word cell holds, the
returned cell holds the spread of `x`, and `x` is a 32-bit word (the odd limbs are copy-constrained to
the fixed zero, so the lookups force their spreaded forms to `0`). -/
theorem prepareSpreaded_sound (hp : 2 ^ 66 ≤ p) (ha : ∀ c, a c < p) {w : Src} {x : Nat}
    (hS : Sat p Gen.rmdGates a k (prepareSpreaded k w).1) (hW : get a w = x) :
    IsSpr a (prepareSpreaded k w).2 x := by
  obtain ⟨v, hu, hv, su, sv, ve⟩ := sprdd_block (off := 0) hp ha hS (by rmd_simp) (by rmd_simp) (by rmd_simp)
    (by rmd_simp) (by rmd_simp) (by rmd_simp) (by rmd_simp) (by rmd_simp) (by rmd_simp) (by rmd_simp)
  have c6 := hS.copy' (src := zero) (col := 6) (off := 0) (by rmd_simp)
  have c7 := hS.copy' (src := zero) (col := 7) (off := 0) (by rmd_simp)
  have c20 := hS.copy' (src := zero) (col := 2) (off := 0) (by rmd_simp)
  have c21 := hS.copy' (src := zero) (col := 2) (off := 1) (by rmd_simp)
  have c22 := hS.copy' (src := zero) (col := 2) (off := 2) (by rmd_simp)
  have cw := hS.copy' (src := w) (col := 4) (off := 0) (by rmd_simp)
  have g := hS.gate' (s := .sumEvn) (o := 1) (e := Gen.rmdGate_sumEvn.getD 0 default) (by rmd_simp)
    (by simp [Gen.rmdGates, Gen.rmdGate_sumEvn])
  have z6 : a (.reg k 0 6) = 0 := by rw [c6]; rfl
  have z7 : a (.reg k 0 7) = 0 := by rw [c7]; rfl
  have z20 : a (.reg k 0 2) = 0 := by rw [c20]; rfl
  have z21 : a (.reg k 1 2) = 0 := by rw [c21]; rfl
  have z22 : a (.reg k 2 2) = 0 := by rw [c22]; rfl
  simp only [Nat.zero_add] at su sv ve
  rw [z20, z21, z22] at ve
  have v0 : v = 0 := by omega
  rw [v0, spread_zero] at sv
  have bu := spread32_lt (a (.reg k 0 4))
  have hsum : (a (.reg k 0 6) + a (.reg k 0 7)) + a (.reg k 0 5)
      = (4 ^ 21 * a (.reg k 0 1) + 4 ^ 10 * a (.reg k 1 1) + a (.reg k 2 1))
        + 2 * (4 ^ 21 * a (.reg k 0 3) + 4 ^ 10 * a (.reg k 1 3) + a (.reg k 2 3)) := by
    have hx : a (.reg k 0 6) + a (.reg k 0 7) ≤ (4 ^ 21 * a (.reg k 0 1) + 4 ^ 10 * a (.reg k 1 1) + a (.reg k 2 1))
        + 2 * (4 ^ 21 * a (.reg k 0 3) + 4 ^ 10 * a (.reg k 1 3) + a (.reg k 2 3)) := by rw [z6, z7]; omega
    have hm : (4 ^ 21 * a (.reg k 0 1) + 4 ^ 10 * a (.reg k 1 1) + a (.reg k 2 1))
        + 2 * (4 ^ 21 * a (.reg k 0 3) + 4 ^ 10 * a (.reg k 1 3) + a (.reg k 2 3)) < p := by rw [su, sv]; omega
    refine exact_of_mod_add g ?_ hx hm (ha _)
    simp [Gen.rmdGate_sumEvn, Expr.eval]
    ring
  rw [z6, z7, su, sv] at hsum
  rw [hW] at cw
  refine ⟨?_, ?_⟩
  · show get a (.reg k 0 5) = _
    rw [get_reg, ← cw]; omega
  · rw [← cw]; exact hu

/-! ## `add_mod_2_32` -/

/-- `fn add_mod_2_32` on four summands (fewer summands are padded with the fixed zero word): the
returned cell holds the sum modulo `2^32`. -/
theorem addMod_sound (hp : 2 ^ 66 ≤ p) (ha : ∀ c, a c < p) {s0 s1 s2 s3 : Src} {x0 x1 x2 x3 : Nat}
    (hS : Sat p Gen.rmdGates a k (addMod k [s0, s1, s2, s3]).1)
    (h0 : IsPlain a s0 x0) (h1 : IsPlain a s1 x1) (h2 : IsPlain a s2 x2) (h3 : IsPlain a s3 x3) :
    IsPlain a (addMod k [s0, s1, s2, s3]).2 ((x0 + x1 + x2 + x3) % 2 ^ 32) := by
  have l00 := hS.look' (o := 0) (by rmd_simp) 0 (by omega)
  have l01 := hS.look' (o := 1) (by rmd_simp) 0 (by omega)
  have l02 := hS.look' (o := 2) (by rmd_simp) 0 (by omega)
  have l10 := hS.look' (o := 0) (by rmd_simp) 1 (by omega)
  have t00 : fixAt (addMod k [s0, s1, s2, s3]).1 0 0 = 11 := by rmd_simp
  have t01 : fixAt (addMod k [s0, s1, s2, s3]).1 0 1 = 11 := by rmd_simp
  have t02 : fixAt (addMod k [s0, s1, s2, s3]).1 0 2 = 10 := by rmd_simp
  have t10 : fixAt (addMod k [s0, s1, s2, s3]).1 1 0 = 2 := by rmd_simp
  rw [t00] at l00; rw [t01] at l01; rw [t02] at l02; rw [t10] at l10
  simp only [Nat.mul_zero, Nat.zero_add, Nat.mul_one] at l00 l01 l02 l10
  have cu := concat_11_11_10 l00.1 l01.1 l02.1
  have c0 := hS.copy' (src := s0) (col := 5) (off := 0) (by rmd_simp)
  have c1 := hS.copy' (src := s1) (col := 6) (off := 0) (by rmd_simp)
  have c2 := hS.copy' (src := s2) (col := 7) (off := 0) (by rmd_simp)
  have c3 := hS.copy' (src := s3) (col := 5) (off := 1) (by rmd_simp)
  rw [h0.1] at c0; rw [h1.1] at c1; rw [h2.1] at c2; rw [h3.1] at c3
  have gd := hS.gate' (s := .d11) (o := 1) (e := Gen.rmdGate_d11.getD 0 default) (by rmd_simp)
    (by simp [Gen.rmdGates, Gen.rmdGate_d11])
  have gm := hS.gate' (s := .modadd) (o := 1) (e := Gen.rmdGate_modadd.getD 0 default) (by rmd_simp)
    (by simp [Gen.rmdGates, Gen.rmdGate_modadd])
  have hout : 2 ^ 21 * a (.reg k 0 0) + 2 ^ 10 * a (.reg k 1 0) + a (.reg k 2 0) = a (.reg k 0 4) := by
    refine exact_of_mod gd ?_ (by omega) (ha _)
    simp [Gen.rmdGate_d11, Expr.eval]
    ring
  have hR : a (.reg k 0 4) < 2 ^ 32 := by rw [← hout]; exact cu.1
  have hc : a (.reg k 0 2) < 4 := l10.1
  have hx0 := h0.2; have hx1 := h1.2; have hx2 := h2.2; have hx3 := h3.2
  have hsum : a (.reg k 0 5) + a (.reg k 0 6) + a (.reg k 0 7) + a (.reg k 1 5)
      = a (.reg k 0 4) + a (.reg k 0 2) * 2 ^ 32 := by
    refine exact_of_mod gm ?_ (by rw [c0, c1, c2, c3]; omega) (by omega)
    simp [Gen.rmdGate_modadd, Expr.eval]
    ring
  rw [c0, c1, c2, c3] at hsum
  have := mod_add_carry_unique 32 _ _ _ hR hsum
  refine ⟨?_, Nat.mod_lt _ (by norm_num)⟩
  show get a (.reg k 0 4) = _
  rw [get_reg, this.1]

end MidnightZK.C07.ChipR
