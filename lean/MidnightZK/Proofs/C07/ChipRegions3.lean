import MidnightZK.Proofs.C07.ChipRegions
/-! C07: soundness of `prepare_A`, `prepare_E`, `prepare_message_word` of the SHA-256 chip. -/
namespace MidnightZK.C07.Chip
open MidnightZK.C07

variable {p : Nat} {a : Asg} {k : Nat}

/-- Sum of the seven (padded) summands. -/
def sum7 (a : Asg) (ss : List Src) : Nat :=
  get a (summand ss 0) + get a (summand ss 1) + get a (summand ss 2) + get a (summand ss 3)
    + get a (summand ss 4) + get a (summand ss 5) + get a (summand ss 6)

/-- `fn assign_add_mod_2_32` inside a region whose result cell (`A4` at offset 0) is known to be a
32-bit word: the result is the sum of the summands modulo `2^32` (the carry is range-checked by
the lookup with tag 3). -/
theorem addmod_block {r : Region} {ss : List Src} (hp : 2 ^ 66 ≤ p) (hS : Sat p Gen.shaGates a k r)
    (hsel : (Sel.add, 1) ∈ r.sels) (hl2 : (Sel.lookup, 2) ∈ r.sels) (ht : tagAt r 1 2 = 3)
    (c0 : (summand ss 0, 5, 0) ∈ r.copies) (c1 : (summand ss 1, 6, 0) ∈ r.copies)
    (c2 : (summand ss 2, 5, 1) ∈ r.copies) (c3 : (summand ss 3, 6, 1) ∈ r.copies)
    (c4 : (summand ss 4, 4, 2) ∈ r.copies) (c5 : (summand ss 5, 5, 2) ∈ r.copies)
    (c6 : (summand ss 6, 6, 2) ∈ r.copies)
    (hs : ∀ i, i < 7 → get a (summand ss i) < 2 ^ 32) (hA : a (.reg k 0 4) < 2 ^ 32) :
    a (.reg k 0 4) = sum7 a ss % 2 ^ 32 := by
  have e0 := hS.copy' c0
  have e1 := hS.copy' c1
  have e2 := hS.copy' c2
  have e3 := hS.copy' c3
  have e4 := hS.copy' c4
  have e5 := hS.copy' c5
  have e6 := hS.copy' c6
  have lc := hS.look' hl2 1 (by omega)
  rw [ht] at lc
  simp only [Nat.mul_one] at lc
  obtain ⟨hc, -⟩ := lc
  have g := hS.gate' hsel (e := Gen.gate_add.getD 0 default) (by simp [Gen.shaGates, Gen.gate_add])
  have b0 := hs 0 (by omega)
  have b1 := hs 1 (by omega)
  have b2 := hs 2 (by omega)
  have b3 := hs 3 (by omega)
  have b4 := hs 4 (by omega)
  have b5 := hs 5 (by omega)
  have b6 := hs 6 (by omega)
  have hsum : a (.reg k 0 5) + a (.reg k 0 6) + a (.reg k 1 5) + a (.reg k 1 6) + a (.reg k 2 4) + a (.reg k 2 5)
      + a (.reg k 2 6) = a (.reg k 0 4) + 2 ^ 32 * a (.reg k 2 2) := by
    refine exact_of_mod g ?_ (by rw [e0, e1, e2, e3, e4, e5, e6]; omega) (by omega)
    simp [Gen.gate_add, Expr.eval]
    ring
  rw [e0, e1, e2, e3, e4, e5, e6] at hsum
  unfold sum7
  omega

theorem spread1 {b : Nat} (hb : b < 2) : spreadFuel 1 b = b := by
  simp only [spreadFuel]; omega

/-- `fn prepare_A`: the returned `LimbsOfA` holds the sum of the summands modulo `2^32`. -/
theorem prepareA_sound (hp : 2 ^ 66 ≤ p) (ha : ∀ c, a c < p) {ss : List Src}
    (hS : Sat p Gen.shaGates a k (prepareA k ss).1) (hs : ∀ i, i < 7 → get a (summand ss i) < 2 ^ 32) :
    AInv a (prepareA k ss).2 (sum7 a ss % 2 ^ 32) := by
  have l00 := hS.look' (o := 0) (by region_simp) 0 (by omega)
  have l01 := hS.look' (o := 0) (by region_simp) 1 (by omega)
  have l10 := hS.look' (o := 1) (by region_simp) 0 (by omega)
  have l11 := hS.look' (o := 1) (by region_simp) 1 (by omega)
  have t00 : tagAt (prepareA k ss).1 0 0 = 10 := by region_simp
  have t01 : tagAt (prepareA k ss).1 1 0 = 9 := by region_simp
  have t10 : tagAt (prepareA k ss).1 0 1 = 11 := by region_simp
  have t11 : tagAt (prepareA k ss).1 1 1 = 2 := by region_simp
  rw [t00] at l00; rw [t01] at l01; rw [t10] at l10; rw [t11] at l11
  simp only [Nat.mul_zero, Nat.zero_add, Nat.mul_one] at l00 l01 l10 l11
  obtain ⟨b10, s10⟩ := l00
  obtain ⟨b09, s09⟩ := l01
  obtain ⟨b11, s11⟩ := l10
  obtain ⟨b02, s02⟩ := l11
  have g0 := hS.gate' (s := .dA) (o := 1) (e := Gen.gate_dA.getD 0 default) (by region_simp)
    (by simp [Gen.shaGates, Gen.gate_dA])
  have g1 := hS.gate' (s := .dA) (o := 1) (e := Gen.gate_dA.getD 1 default) (by region_simp)
    (by simp [Gen.shaGates, Gen.gate_dA])
  have hplain : 2 ^ 22 * a (.reg k 0 0) + 2 ^ 13 * a (.reg k 0 2) + 2 ^ 2 * a (.reg k 1 0) + a (.reg k 1 2)
      = a (.reg k 0 4) := by
    refine exact_of_mod g0 ?_ (by omega) (ha _)
    simp [Gen.gate_dA, Expr.eval]
    ring
  have hl : ∀ ka ∈ [(2, a (.reg k 1 2)), (11, a (.reg k 1 0)), (9, a (.reg k 0 2)), (10, a (.reg k 0 0))],
      ka.2 < 2 ^ ka.1 := by
    intro ka hka
    simp at hka
    rcases hka with rfl | rfl | rfl | rfl <;> assumption
  have hs32 := spread32_concatLE _ hl (by simp [bitsTotal])
  have hlt := concatLE_lt _ hl
  simp only [concatLE, spreadConcat, bitsTotal] at hs32 hlt
  have hA : a (.reg k 0 4) < 2 ^ 32 := by omega
  have hsprd : 4 ^ 22 * a (.reg k 0 1) + 4 ^ 13 * a (.reg k 0 3) + 4 ^ 2 * a (.reg k 1 1) + a (.reg k 1 3)
      = a (.reg k 1 4) := by
    have e : 4 ^ 22 * a (.reg k 0 1) + 4 ^ 13 * a (.reg k 0 3) + 4 ^ 2 * a (.reg k 1 1) + a (.reg k 1 3)
        = spreadFuel 32 (a (.reg k 1 2) + 2 ^ 2 * (a (.reg k 1 0) + 2 ^ 11 * (a (.reg k 0 2) + 2 ^ 9 * (a (.reg k 0 0)
          + 2 ^ 10 * 0)))) := by
      rw [hs32, s10, s09, s11, s02]; ring
    have := spread32_lt (a (.reg k 1 2) + 2 ^ 2 * (a (.reg k 1 0) + 2 ^ 11 * (a (.reg k 0 2) + 2 ^ 9 * (a (.reg k 0 0)
          + 2 ^ 10 * 0))))
    refine exact_of_mod g1 ?_ (by rw [e]; omega) (ha _)
    simp [Gen.gate_dA, Expr.eval]
    ring
  have hval := addmod_block (ss := ss) hp hS (by region_simp) (by region_simp) (by region_simp) (by region_simp)
    (by region_simp) (by region_simp) (by region_simp) (by region_simp) (by region_simp) (by region_simp) hs hA
  rw [← hval]
  have hx : a (.reg k 0 4) = a (.reg k 1 2) + 2 ^ 2 * (a (.reg k 1 0) + 2 ^ 11 * (a (.reg k 0 2) + 2 ^ 9 * (a (.reg k 0 0)
      + 2 ^ 10 * 0))) := by omega
  refine ⟨hA, ?_, ?_, ?_, ?_, ?_, ?_⟩
  · show a (.reg k 0 4) = _
    rfl
  · show a (.reg k 1 4) = _
    rw [← hsprd, hx, hs32, s10, s09, s11, s02]; ring
  · show a (.reg k 0 1) = _
    have e : a (.reg k 0 4) / 2 ^ 22 = a (.reg k 0 0) := by omega
    rw [s10, e]
  · show a (.reg k 0 3) = _
    have e : a (.reg k 0 4) / 2 ^ 13 % 2 ^ 9 = a (.reg k 0 2) := by omega
    rw [s09, e]
  · show a (.reg k 1 1) = _
    have e : a (.reg k 0 4) / 2 ^ 2 % 2 ^ 11 = a (.reg k 1 0) := by omega
    rw [s11, e]
  · show a (.reg k 1 3) = _
    have e : a (.reg k 0 4) % 2 ^ 2 = a (.reg k 1 2) := by omega
    rw [s02, e]

/-- `fn prepare_E`: the returned `LimbsOfE` holds the sum of the summands modulo `2^32`. -/
theorem prepareE_sound (hp : 2 ^ 66 ≤ p) (ha : ∀ c, a c < p) {ss : List Src}
    (hS : Sat p Gen.shaGates a k (prepareE k ss).1) (hs : ∀ i, i < 7 → get a (summand ss i) < 2 ^ 32) :
    EInv a (prepareE k ss).2 (sum7 a ss % 2 ^ 32) := by
  have l00 := hS.look' (o := 0) (by region_simp) 0 (by omega)
  have l01 := hS.look' (o := 0) (by region_simp) 1 (by omega)
  have l10 := hS.look' (o := 1) (by region_simp) 0 (by omega)
  have l11 := hS.look' (o := 1) (by region_simp) 1 (by omega)
  have l20 := hS.look' (o := 2) (by region_simp) 0 (by omega)
  have t00 : tagAt (prepareE k ss).1 0 0 = 7 := by region_simp
  have t01 : tagAt (prepareE k ss).1 1 0 = 12 := by region_simp
  have t10 : tagAt (prepareE k ss).1 0 1 = 2 := by region_simp
  have t11 : tagAt (prepareE k ss).1 1 1 = 5 := by region_simp
  have t20 : tagAt (prepareE k ss).1 0 2 = 6 := by region_simp
  rw [t00] at l00; rw [t01] at l01; rw [t10] at l10; rw [t11] at l11; rw [t20] at l20
  simp only [Nat.mul_zero, Nat.zero_add, Nat.mul_one] at l00 l01 l10 l11 l20
  obtain ⟨b07, s07⟩ := l00
  obtain ⟨b12, s12⟩ := l01
  obtain ⟨b02, s02⟩ := l10
  obtain ⟨b05, s05⟩ := l11
  obtain ⟨b06, s06⟩ := l20
  have g0 := hS.gate' (s := .dE) (o := 1) (e := Gen.gate_dE.getD 0 default) (by region_simp)
    (by simp [Gen.shaGates, Gen.gate_dE])
  have g1 := hS.gate' (s := .dE) (o := 1) (e := Gen.gate_dE.getD 1 default) (by region_simp)
    (by simp [Gen.shaGates, Gen.gate_dE])
  have hplain : 2 ^ 25 * a (.reg k 0 0) + 2 ^ 13 * a (.reg k 0 2) + 2 ^ 11 * a (.reg k 1 0) + 2 ^ 6 * a (.reg k 1 2)
      + a (.reg k 2 0) = a (.reg k 0 4) := by
    refine exact_of_mod g0 ?_ (by omega) (ha _)
    simp [Gen.gate_dE, Expr.eval]
    ring
  have hl : ∀ ka ∈ [(6, a (.reg k 2 0)), (5, a (.reg k 1 2)), (2, a (.reg k 1 0)), (12, a (.reg k 0 2)),
      (7, a (.reg k 0 0))], ka.2 < 2 ^ ka.1 := by
    intro ka hka
    simp at hka
    rcases hka with rfl | rfl | rfl | rfl | rfl <;> assumption
  have hs32 := spread32_concatLE _ hl (by simp [bitsTotal])
  have hlt := concatLE_lt _ hl
  simp only [concatLE, spreadConcat, bitsTotal] at hs32 hlt
  have hA : a (.reg k 0 4) < 2 ^ 32 := by omega
  have hsprd : 4 ^ 25 * a (.reg k 0 1) + 4 ^ 13 * a (.reg k 0 3) + 4 ^ 11 * a (.reg k 1 1) + 4 ^ 6 * a (.reg k 1 3)
      + a (.reg k 2 1) = a (.reg k 1 4) := by
    have e : 4 ^ 25 * a (.reg k 0 1) + 4 ^ 13 * a (.reg k 0 3) + 4 ^ 11 * a (.reg k 1 1) + 4 ^ 6 * a (.reg k 1 3)
        + a (.reg k 2 1)
        = spreadFuel 32 (a (.reg k 2 0) + 2 ^ 6 * (a (.reg k 1 2) + 2 ^ 5 * (a (.reg k 1 0) + 2 ^ 2 * (a (.reg k 0 2)
          + 2 ^ 12 * (a (.reg k 0 0) + 2 ^ 7 * 0))))) := by
      rw [hs32, s07, s12, s02, s05, s06]; ring
    have := spread32_lt (a (.reg k 2 0) + 2 ^ 6 * (a (.reg k 1 2) + 2 ^ 5 * (a (.reg k 1 0) + 2 ^ 2 * (a (.reg k 0 2)
          + 2 ^ 12 * (a (.reg k 0 0) + 2 ^ 7 * 0)))))
    refine exact_of_mod g1 ?_ (by rw [e]; omega) (ha _)
    simp [Gen.gate_dE, Expr.eval]
    ring
  have hval := addmod_block (ss := ss) hp hS (by region_simp) (by region_simp) (by region_simp) (by region_simp)
    (by region_simp) (by region_simp) (by region_simp) (by region_simp) (by region_simp) (by region_simp) hs hA
  rw [← hval]
  have hx : a (.reg k 0 4) = a (.reg k 2 0) + 2 ^ 6 * (a (.reg k 1 2) + 2 ^ 5 * (a (.reg k 1 0) + 2 ^ 2 * (a (.reg k 0 2)
          + 2 ^ 12 * (a (.reg k 0 0) + 2 ^ 7 * 0)))) := by omega
  refine ⟨hA, ?_, ?_, ?_, ?_, ?_, ?_, ?_⟩
  · show a (.reg k 0 4) = _
    rfl
  · show a (.reg k 1 4) = _
    rw [← hsprd, hx, hs32, s07, s12, s02, s05, s06]; ring
  · show a (.reg k 0 1) = _
    have e : a (.reg k 0 4) / 2 ^ 25 = a (.reg k 0 0) := by omega
    rw [s07, e]
  · show a (.reg k 0 3) = _
    have e : a (.reg k 0 4) / 2 ^ 13 % 2 ^ 12 = a (.reg k 0 2) := by omega
    rw [s12, e]
  · show a (.reg k 1 1) = _
    have e : a (.reg k 0 4) / 2 ^ 11 % 2 ^ 2 = a (.reg k 1 0) := by omega
    rw [s02, e]
  · show a (.reg k 1 3) = _
    have e : a (.reg k 0 4) / 2 ^ 6 % 2 ^ 5 = a (.reg k 1 2) := by omega
    rw [s05, e]
  · show a (.reg k 2 1) = _
    have e : a (.reg k 0 4) % 2 ^ 6 = a (.reg k 2 0) := by omega
    rw [s06, e]

/-- `fn prepare_message_word`: the returned `AssignedMessageWord` holds the sum of the summands modulo
`2^32`; the three 1-bit limbs are their own spreads (bit checks of the gate, over a prime field). -/
theorem prepareW_sound (hpr : Nat.Prime p) (hp : 2 ^ 66 ≤ p) (ha : ∀ c, a c < p) {ss : List Src}
    (hS : Sat p Gen.shaGates a k (prepareW k ss).1) (hs : ∀ i, i < 7 → get a (summand ss i) < 2 ^ 32) :
    WInv a (prepareW k ss).2 (sum7 a ss % 2 ^ 32) := by
  have l00 := hS.look' (o := 0) (by region_simp) 0 (by omega)
  have l01 := hS.look' (o := 0) (by region_simp) 1 (by omega)
  have l10 := hS.look' (o := 1) (by region_simp) 0 (by omega)
  have l11 := hS.look' (o := 1) (by region_simp) 1 (by omega)
  have l20 := hS.look' (o := 2) (by region_simp) 0 (by omega)
  have t00 : tagAt (prepareW k ss).1 0 0 = 12 := by region_simp
  have t01 : tagAt (prepareW k ss).1 1 0 = 7 := by region_simp
  have t10 : tagAt (prepareW k ss).1 0 1 = 3 := by region_simp
  have t11 : tagAt (prepareW k ss).1 1 1 = 4 := by region_simp
  have t20 : tagAt (prepareW k ss).1 0 2 = 3 := by region_simp
  rw [t00] at l00; rw [t01] at l01; rw [t10] at l10; rw [t11] at l11; rw [t20] at l20
  simp only [Nat.mul_zero, Nat.zero_add, Nat.mul_one] at l00 l01 l10 l11 l20
  obtain ⟨b12, s12⟩ := l00
  obtain ⟨b07, s07⟩ := l01
  obtain ⟨b3a, s3a⟩ := l10
  obtain ⟨b04, s04⟩ := l11
  obtain ⟨b3b, s3b⟩ := l20
  have g0 := hS.gate' (s := .dW) (o := 1) (e := Gen.gate_dW.getD 0 default) (by region_simp)
    (by simp [Gen.shaGates, Gen.gate_dW])
  have g1 := hS.gate' (s := .dW) (o := 1) (e := Gen.gate_dW.getD 1 default) (by region_simp)
    (by simp [Gen.shaGates, Gen.gate_dW])
  have g2 := hS.gate' (s := .dW) (o := 1) (e := Gen.gate_dW.getD 2 default) (by region_simp)
    (by simp [Gen.shaGates, Gen.gate_dW])
  have g3 := hS.gate' (s := .dW) (o := 1) (e := Gen.gate_dW.getD 3 default) (by region_simp)
    (by simp [Gen.shaGates, Gen.gate_dW])
  have ba : a (.reg k 0 7) = 0 ∨ a (.reg k 0 7) = 1 := by
    refine bit_of_mod hpr g1 ?_ (ha _)
    simp [Gen.gate_dW, Expr.eval, -mul_eq_mul_left_iff]
    ring
  have bb : a (.reg k 1 7) = 0 ∨ a (.reg k 1 7) = 1 := by
    refine bit_of_mod hpr g2 ?_ (ha _)
    simp [Gen.gate_dW, Expr.eval, -mul_eq_mul_left_iff]
    ring
  have bc : a (.reg k 2 7) = 0 ∨ a (.reg k 2 7) = 1 := by
    refine bit_of_mod hpr g3 ?_ (ha _)
    simp [Gen.gate_dW, Expr.eval, -mul_eq_mul_left_iff]
    ring
  have ba' : a (.reg k 0 7) < 2 := by omega
  have bb' : a (.reg k 1 7) < 2 := by omega
  have bc' : a (.reg k 2 7) < 2 := by omega
  have hplain : 2 ^ 20 * a (.reg k 0 0) + 2 ^ 19 * a (.reg k 0 7) + 2 ^ 18 * a (.reg k 1 7) + 2 ^ 17 * a (.reg k 2 7)
      + 2 ^ 10 * a (.reg k 0 2) + 2 ^ 7 * a (.reg k 1 0) + 2 ^ 3 * a (.reg k 1 2) + a (.reg k 2 0)
      = a (.reg k 0 4) := by
    refine exact_of_mod g0 ?_ (by omega) (ha _)
    simp [Gen.gate_dW, Expr.eval]
    ring
  have hA : a (.reg k 0 4) < 2 ^ 32 := by omega
  have hval := addmod_block (ss := ss) hp hS (by region_simp) (by region_simp) (by region_simp) (by region_simp)
    (by region_simp) (by region_simp) (by region_simp) (by region_simp) (by region_simp) (by region_simp) hs hA
  rw [← hval]
  refine ⟨hA, ?_, ?_, ?_, ?_, ?_, ?_, ?_, ?_, ?_⟩
  · show a (.reg k 0 4) = _
    rfl
  · show a (.reg k 0 1) = _
    have e : a (.reg k 0 4) / 2 ^ 20 = a (.reg k 0 0) := by omega
    rw [s12, e]
  · show a (.reg k 0 7) = _
    have e : a (.reg k 0 4) / 2 ^ 19 % 2 = a (.reg k 0 7) := by omega
    rw [e, spread1 ba']
  · show a (.reg k 1 7) = _
    have e : a (.reg k 0 4) / 2 ^ 18 % 2 = a (.reg k 1 7) := by omega
    rw [e, spread1 bb']
  · show a (.reg k 2 7) = _
    have e : a (.reg k 0 4) / 2 ^ 17 % 2 = a (.reg k 2 7) := by omega
    rw [e, spread1 bc']
  · show a (.reg k 0 3) = _
    have e : a (.reg k 0 4) / 2 ^ 10 % 2 ^ 7 = a (.reg k 0 2) := by omega
    rw [s07, e]
  · show a (.reg k 1 1) = _
    have e : a (.reg k 0 4) / 2 ^ 7 % 2 ^ 3 = a (.reg k 1 0) := by omega
    rw [s3a, e]
  · show a (.reg k 1 3) = _
    have e : a (.reg k 0 4) / 2 ^ 3 % 2 ^ 4 = a (.reg k 1 2) := by omega
    rw [s04, e]
  · show a (.reg k 2 1) = _
    have e : a (.reg k 0 4) % 2 ^ 3 = a (.reg k 2 0) := by omega
    rw [s3b, e]

end MidnightZK.C07.Chip
