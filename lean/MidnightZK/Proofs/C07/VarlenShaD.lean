import MidnightZK.Model.C07.ShaVarlen
/-! C07: kernel evaluation of the structural check of `sha256_varlen` — `MAX_LEN = 192`, the padding-boundary lengths
(separate modules so that lake checks them in parallel). -/
namespace MidnightZK.C07

theorem varlenShaD : [0, 1, 55, 56, 63, 64, 65, 119, 120, 127, 128, 129, 183, 184, 191, 192].all (fun len => varlenStructOk 192 len) = true := by
  decide +kernel

end MidnightZK.C07
