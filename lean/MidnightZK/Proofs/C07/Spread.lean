import Mathlib.Data.Nat.Bitwise
import Mathlib.Tactic.Ring
import Mathlib.Tactic.Linarith
import MidnightZK.Model.C07.Sha2
/-! C07: spread-encoding arithmetic used by the SHA-256 / SHA-512 / RIPEMD-160 chips. -/
namespace MidnightZK.C07

theorem bit_cases (x : Nat) : x % 2 = 0 ∨ x % 2 = 1 := Nat.mod_two_eq_zero_or_one x

theorem and_mod_two (x y : Nat) : (x &&& y) % 2 = (x % 2) * (y % 2) := by
  have h := @Nat.and_mod_two_pow x y 1
  simp only [pow_one] at h
  rw [h]
  rcases bit_cases x with hx | hx <;> rcases bit_cases y with hy | hy <;> simp [hx, hy]

theorem or_mod_two (x y : Nat) : (x ||| y) % 2 = (x % 2) + (y % 2) - (x % 2) * (y % 2) := by
  have h : (x ||| y) % 2 = (x % 2 ||| y % 2) := by
    have := @Nat.or_mod_two_pow x y 1
    simpa using this
  rw [h]
  rcases bit_cases x with hx | hx <;> rcases bit_cases y with hy | hy <;> simp [hx, hy]

/-- Disjoint words: xor is addition. -/
theorem xor_eq_add_of_and_eq_zero : ∀ (a b : Nat), a &&& b = 0 → a ^^^ b = a + b := by
  intro a
  induction a using Nat.strong_induction_on with
  | _ a ih =>
    intro b h
    by_cases ha : a = 0
    · subst ha; simp
    · have hh : (a / 2) &&& (b / 2) = 0 := by rw [← Nat.and_div_two, h]
      have ih' := ih (a / 2) (by omega) (b / 2) hh
      have hm : (a % 2) * (b % 2) = 0 := by rw [← and_mod_two, h]
      have hx : (a ^^^ b) % 2 = (a + b) % 2 := Nat.xor_mod_two_eq
      have hd : (a ^^^ b) / 2 = a / 2 + b / 2 := by rw [Nat.xor_div_two, ih']
      rcases bit_cases a with h1 | h1 <;> rcases bit_cases b with h2 | h2 <;>
        simp [h1, h2] at hm <;> omega

theorem xor3_mod_two (a b c : Nat) : (a ^^^ b ^^^ c) % 2 = (a % 2 + b % 2 + c % 2) % 2 := by
  rw [Nat.xor_mod_two_eq, Nat.add_mod, Nat.xor_mod_two_eq]; omega

theorem spread_zero : ∀ n, spreadFuel n 0 = 0
  | 0 => rfl
  | n + 1 => by simp [spreadFuel, spread_zero n]

/-! ## Spread sums -/

/-- Three spreaded words add up to the spread of their xor plus twice the spread of their majority:
the even bits of `~X + ~Y + ~Z` are `X ⊕ Y ⊕ Z`, the odd bits `Maj(X, Y, Z)` (any bit length). -/
theorem spread_add3 : ∀ (n x y z : Nat),
    spreadFuel n x + spreadFuel n y + spreadFuel n z
      = spreadFuel n (x ^^^ y ^^^ z) + 2 * spreadFuel n (maj x y z)
  | 0, _, _, _ => by simp [spreadFuel]
  | n + 1, x, y, z => by
    have ih := spread_add3 n (x / 2) (y / 2) (z / 2)
    simp only [spreadFuel]
    have hx2 : (x ^^^ y ^^^ z) / 2 = x / 2 ^^^ y / 2 ^^^ z / 2 := by
      rw [Nat.xor_div_two, Nat.xor_div_two]
    have hm2 : maj x y z / 2 = maj (x / 2) (y / 2) (z / 2) := by
      unfold maj
      rw [Nat.xor_div_two, Nat.xor_div_two, Nat.and_div_two, Nat.and_div_two, Nat.and_div_two]
    have hxm : (x ^^^ y ^^^ z) % 2 = (x % 2 + y % 2 + z % 2) % 2 := xor3_mod_two x y z
    have hmm : maj x y z % 2 = ((x % 2) * (y % 2) + (x % 2) * (z % 2) + (y % 2) * (z % 2)) % 2 := by
      unfold maj
      rw [xor3_mod_two, and_mod_two, and_mod_two, and_mod_two]
    rw [hx2, hm2, hxm, hmm]
    rcases bit_cases x with h1 | h1 <;> rcases bit_cases y with h2 | h2 <;>
      rcases bit_cases z with h3 | h3 <;> simp [h1, h2, h3] <;> omega

/-- Two spreaded words: even bits = xor, odd bits = and. -/
theorem spread_add2 : ∀ (n x y : Nat),
    spreadFuel n x + spreadFuel n y = spreadFuel n (x ^^^ y) + 2 * spreadFuel n (x &&& y)
  | 0, _, _ => by simp [spreadFuel]
  | n + 1, x, y => by
    have ih := spread_add2 n (x / 2) (y / 2)
    simp only [spreadFuel]
    rw [Nat.xor_div_two, Nat.and_div_two, Nat.xor_mod_two_eq, and_mod_two]
    rcases bit_cases x with h1 | h1 <;> rcases bit_cases y with h2 | h2 <;>
      simp [Nat.add_mod, h1, h2] <;> omega

/-- The even / odd bits of `~A + 2·~B` are `A` and `B` (on `n` bits): the decomposition used by every
spreaded gate is unique. -/
theorem even_odd_of_spread_sum : ∀ (n a b : Nat),
    evenBits n (spreadFuel n a + 2 * spreadFuel n b) = a % 2 ^ n ∧
    oddBits n (spreadFuel n a + 2 * spreadFuel n b) = b % 2 ^ n
  | 0, _, _ => by simp [evenBits, oddBits, Nat.mod_one]
  | n + 1, a, b => by
    obtain ⟨ihe, iho⟩ := even_odd_of_spread_sum n (a / 2) (b / 2)
    unfold oddBits at iho ⊢
    simp only [spreadFuel, evenBits]
    set w := spreadFuel n (a / 2) + 2 * spreadFuel n (b / 2) with hw
    have hv : a % 2 + 4 * spreadFuel n (a / 2) + 2 * (b % 2 + 4 * spreadFuel n (b / 2))
        = a % 2 + 2 * (b % 2) + 4 * w := by rw [hw]; ring
    rw [hv]
    have ha := bit_cases a
    have hb := bit_cases b
    have e1 : (a % 2 + 2 * (b % 2) + 4 * w) % 2 = a % 2 := by omega
    have e2 : (a % 2 + 2 * (b % 2) + 4 * w) / 4 = w := by omega
    have e3 : (a % 2 + 2 * (b % 2) + 4 * w) / 2 % 2 = b % 2 := by omega
    have e4 : (a % 2 + 2 * (b % 2) + 4 * w) / 2 / 4 = w / 2 := by omega
    rw [e1, e2, e3, e4, ihe, iho, pow_succ, Nat.mul_comm (2 ^ n) 2, Nat.mod_mul, Nat.mod_mul]
    exact ⟨rfl, rfl⟩

/-- Uniqueness form: a gate identity `~A + 2·~B = ~A' + 2·~B'` over range-checked words forces
`A = A'` and `B = B'`. -/
theorem spread_sum_unique (n a b a' b' : Nat) (ha : a < 2 ^ n) (hb : b < 2 ^ n)
    (ha' : a' < 2 ^ n) (hb' : b' < 2 ^ n)
    (h : spreadFuel n a + 2 * spreadFuel n b = spreadFuel n a' + 2 * spreadFuel n b') :
    a = a' ∧ b = b' := by
  have h1 := even_odd_of_spread_sum n a b
  have h2 := even_odd_of_spread_sum n a' b'
  rw [h] at h1
  rw [Nat.mod_eq_of_lt ha, Nat.mod_eq_of_lt hb] at h1
  rw [Nat.mod_eq_of_lt ha', Nat.mod_eq_of_lt hb'] at h2
  exact ⟨h1.1.symm.trans h2.1, h1.2.symm.trans h2.2⟩

/-- **spread_sum_even_odd** (3 terms): if range-checked `evn, odd` satisfy the Maj / Σ / σ gate identity
`~X + ~Y + ~Z = ~evn + 2·~odd`, then `evn = X ⊕ Y ⊕ Z` and `odd = Maj(X, Y, Z)`. -/
theorem spread_sum_even_odd (n x y z evn odd : Nat) (hx : x < 2 ^ n) (hy : y < 2 ^ n) (hz : z < 2 ^ n)
    (he : evn < 2 ^ n) (ho : odd < 2 ^ n)
    (h : spreadFuel n x + spreadFuel n y + spreadFuel n z = spreadFuel n evn + 2 * spreadFuel n odd) :
    evn = x ^^^ y ^^^ z ∧ odd = maj x y z := by
  rw [spread_add3] at h
  have hxor : x ^^^ y ^^^ z < 2 ^ n := Nat.xor_lt_two_pow (Nat.xor_lt_two_pow hx hy) hz
  have hmaj : maj x y z < 2 ^ n := by
    unfold maj
    exact Nat.xor_lt_two_pow (Nat.xor_lt_two_pow (Nat.and_lt_two_pow _ hy) (Nat.and_lt_two_pow _ hz))
      (Nat.and_lt_two_pow _ hz)
  have := spread_sum_unique n _ _ _ _ hxor hmaj he ho h
  exact ⟨this.1.symm, this.2.symm⟩

/-- 2-term form (half-Ch gate): `~X + ~Y = ~evn + 2·~odd` forces `odd = X ∧ Y` (and `evn = X ⊕ Y`). -/
theorem spread_sum_even_odd2 (n x y evn odd : Nat) (hx : x < 2 ^ n) (hy : y < 2 ^ n)
    (he : evn < 2 ^ n) (ho : odd < 2 ^ n)
    (h : spreadFuel n x + spreadFuel n y = spreadFuel n evn + 2 * spreadFuel n odd) :
    evn = x ^^^ y ∧ odd = x &&& y := by
  rw [spread_add2] at h
  have := spread_sum_unique n _ _ _ _ (Nat.xor_lt_two_pow hx hy) (Nat.and_lt_two_pow _ hy) he ho h
  exact ⟨this.1.symm, this.2.symm⟩

/-- The complement `2^w - 1 - e` bitwise. -/
theorem testBit_notW (w e i : Nat) (he : e < 2 ^ w) :
    (notW w e).testBit i = (decide (i < w) && !e.testBit i) := by
  unfold notW
  have : 2 ^ w - 1 - e = 2 ^ w - (e + 1) := by omega
  rw [this]
  exact Nat.testBit_two_pow_sub_succ he i

/-- **ch_via_spread**: `Ch(E,F,G) = (E ∧ F) + (¬E ∧ G)` — the chip adds the odd parts of
`~E + ~F` and `~(¬E) + ~G`; the two terms are disjoint so the sum is their xor. -/
theorem ch_via_spread (w e f g : Nat) (he : e < 2 ^ w) :
    ch w e f g = (e &&& f) + (notW w e &&& g) := by
  unfold ch
  apply xor_eq_add_of_and_eq_zero
  apply Nat.eq_of_testBit_eq
  intro i
  simp only [Nat.testBit_and, testBit_notW w e i he, Nat.zero_testBit]
  cases e.testBit i <;> simp

/-- The spreaded negation used by the chip: `~(¬E) = MASK_EVN - ~E` (`negate_spreaded` flips the even
bits), i.e. `spread (2^n - 1 - e) + spread e = spread (2^n - 1)`. -/
theorem spread_not : ∀ (n e : Nat), e < 2 ^ n →
    spreadFuel n (2 ^ n - 1 - e) + spreadFuel n e = spreadFuel n (2 ^ n - 1)
  | 0, _, _ => by simp [spreadFuel]
  | n + 1, e, he => by
    have h2 : 2 ^ (n + 1) = 2 * 2 ^ n := by rw [pow_succ]; ring
    have hp : 0 < 2 ^ n := Nat.two_pow_pos _
    have ih := spread_not n (e / 2) (by omega)
    simp only [spreadFuel]
    have d1 : (2 ^ (n + 1) - 1 - e) / 2 = 2 ^ n - 1 - e / 2 := by omega
    have d2 : (2 ^ (n + 1) - 1) / 2 = 2 ^ n - 1 := by omega
    have m1 : (2 ^ (n + 1) - 1 - e) % 2 + e % 2 = 1 := by omega
    have m2 : (2 ^ (n + 1) - 1) % 2 = 1 := by omega
    rw [d1, d2, m2]
    omega

/-- Spread of a concatenation: `~(a + 2^k·b) = ~a + 4^k·~b` for `a < 2^k`. -/
theorem spread_concat : ∀ (k n a b : Nat), a < 2 ^ k →
    spreadFuel (k + n) (a + 2 ^ k * b) = spreadFuel k a + 4 ^ k * spreadFuel n b
  | 0, n, a, b, ha => by
    have : a = 0 := by simpa using ha
    subst this
    simp [spreadFuel]
  | k + 1, n, a, b, ha => by
    have h2 : 2 ^ (k + 1) = 2 * 2 ^ k := by rw [pow_succ]; ring
    have h4 : 4 ^ (k + 1) = 4 * 4 ^ k := by rw [pow_succ]; ring
    have e : k + 1 + n = (k + n) + 1 := by omega
    rw [e]
    simp only [spreadFuel]
    have hb : 2 ^ (k + 1) * b = 2 * (2 ^ k * b) := by rw [h2]; ring
    have d : (a + 2 ^ (k + 1) * b) / 2 = a / 2 + 2 ^ k * b := by rw [hb]; omega
    have m : (a + 2 ^ (k + 1) * b) % 2 = a % 2 := by rw [hb]; omega
    rw [d, m, spread_concat k n (a / 2) b (by omega), h4]
    ring

/-- Spread is below `4^n`. -/
theorem spread_lt : ∀ (n x : Nat), spreadFuel n x < 4 ^ n
  | 0, _ => by simp [spreadFuel]
  | n + 1, x => by
    have := spread_lt n (x / 2)
    have h4 : 4 ^ (n + 1) = 4 * 4 ^ n := by rw [pow_succ]; ring
    simp only [spreadFuel]
    have := bit_cases x
    omega

/-- Spread of a word that fits in `k` bits does not depend on extra fuel. -/
theorem spread_fuel_mono : ∀ (k n x : Nat), x < 2 ^ k → spreadFuel (k + n) x = spreadFuel k x := by
  intro k n x hx
  have := spread_concat k n x 0 hx
  simp only [Nat.mul_zero, Nat.add_zero] at this
  rw [this, spread_zero]; ring

/-- **mod_add_carry_unique**: the `add mod 2^w` gate `Σ sᵢ = r + c·2^w` with a range-checked result
`r < 2^w` forces `r = (Σ sᵢ) mod 2^w` and `c = (Σ sᵢ) / 2^w`. -/
theorem mod_add_carry_unique (w s r c : Nat) (hr : r < 2 ^ w) (h : s = r + c * 2 ^ w) :
    r = s % 2 ^ w ∧ c = s / 2 ^ w := by
  have hp : 0 < 2 ^ w := Nat.two_pow_pos _
  subst h
  constructor
  · rw [Nat.add_mul_mod_self_right, Nat.mod_eq_of_lt hr]
  · rw [Nat.add_mul_div_right _ _ hp, Nat.div_eq_of_lt hr, Nat.zero_add]

end MidnightZK.C07

namespace MidnightZK.C07

/-- Little-endian concatenation of limbs `(bits, value)`. -/
def concatLE : List (Nat × Nat) → Nat
  | [] => 0
  | (k, a) :: t => a + 2 ^ k * concatLE t

def bitsTotal : List (Nat × Nat) → Nat
  | [] => 0
  | (k, _) :: t => k + bitsTotal t

/-- The same concatenation on the spreaded limbs. -/
def spreadConcat : List (Nat × Nat) → Nat
  | [] => 0
  | (k, a) :: t => spreadFuel k a + 4 ^ k * spreadConcat t

theorem spread_concatLE : ∀ (l : List (Nat × Nat)), (∀ ka ∈ l, ka.2 < 2 ^ ka.1) →
    spreadFuel (bitsTotal l) (concatLE l) = spreadConcat l
  | [], _ => by simp [bitsTotal, concatLE, spreadConcat, spreadFuel]
  | (k, a) :: t, h => by
    simp only [bitsTotal, concatLE, spreadConcat]
    rw [spread_concat k (bitsTotal t) a (concatLE t) (h (k, a) (by simp)),
      spread_concatLE t (fun ka hka => h ka (by simp [hka]))]

theorem concatLE_lt : ∀ (l : List (Nat × Nat)), (∀ ka ∈ l, ka.2 < 2 ^ ka.1) →
    concatLE l < 2 ^ bitsTotal l
  | [], _ => by simp [bitsTotal, concatLE]
  | (k, a) :: t, h => by
    simp only [bitsTotal, concatLE]
    have h1 := h (k, a) (by simp)
    have h2 := concatLE_lt t (fun ka hka => h ka (by simp [hka]))
    rw [pow_add]
    simp only at h1
    nlinarith [Nat.two_pow_pos k, Nat.two_pow_pos (bitsTotal t)]

end MidnightZK.C07

namespace MidnightZK.C07

/-- A rotation of a `w`-bit word is a `w`-bit word. -/
theorem rotr_lt (w x n : Nat) (hx : x < 2 ^ w) (hn : n ≤ w) : rotr w x n < 2 ^ w := by
  unfold rotr
  have hs : n + (w - n) = w := by omega
  have hPQ : 2 ^ w = 2 ^ n * 2 ^ (w - n) := by rw [← pow_add, hs]
  have hP := Nat.two_pow_pos n
  have hQ := Nat.two_pow_pos (w - n)
  have h1 : x / 2 ^ n < 2 ^ (w - n) := by
    rw [Nat.div_lt_iff_lt_mul hP, Nat.mul_comm, ← hPQ]; exact hx
  have h2 : x % 2 ^ n < 2 ^ n := Nat.mod_lt _ hP
  rw [hPQ]
  generalize 2 ^ n = P at *
  generalize 2 ^ (w - n) = Q at *
  generalize x / P = a at *
  generalize x % P = b at *
  nlinarith

end MidnightZK.C07
