import MidnightZK.Proofs.C07.Basic
/-! C07: `poseidon_varlen` computes the fixed-length hash of the payload, whatever the filler
(shipped shape `RATE = 2`, `WIDTH = 3`; any permutation function). -/
namespace MidnightZK.C07

set_option linter.unusedSectionVars false

section
variable {F : Type} [CommRing F]
variable (P : PParams F) (perm : List F → List F) (maxLen : Nat) (data : List F) (filler : F)
variable (hr : P.rate = 2) (hw : P.width = 3) (hM : maxLen % 2 = 0) (hl : data.length ≤ maxLen)

theorem foldl_range' {σ : Type} (f : σ → Nat → σ) : ∀ (n s : Nat) (a : σ),
    (List.range' s (n + 1)).foldl f a = (List.range' (s + 1) n).foldl f (f a s) := by
  intro n s a
  rw [List.range'_succ]
  rfl

/-- The buffer cell at position `p`. -/
theorem buffer_getD (p : Nat) (hp : p < maxLen) :
    (vecBuffer maxLen 2 data filler).getD p 0 =
      if maxLen - data.length - data.length % 2 ≤ p ∧ p < maxLen - data.length % 2
      then data.getD (p - (maxLen - data.length - data.length % 2)) 0 else filler := by
  unfold vecBuffer getLims
  have : (2 - data.length % 2) % 2 = data.length % 2 := by omega
  simp only [this]
  rw [getD_vec _ _ _ _ hp]

include hr hw hM hl

/-- Chunks before the payload leave the state untouched. -/
theorem varlen_idle (reg : List F) : ∀ (m s : Nat),
    s + m + (data.length + 1) / 2 ≤ maxLen / 2 →
    (List.range' s m).foldl (varlenStep P perm maxLen (vecBuffer maxLen 2 data filler) data.length)
      (reg, false) = (reg, false) := by
  intro m
  induction m with
  | zero => intro s _; rfl
  | succ m ih =>
    intro s hs
    rw [foldl_range']
    have hb : ¬ ((if data.length % 2 = 0 then data.length - data.length % 2
        else data.length - data.length % 2 + 2) = maxLen - s * 2) := by
      split <;> omega
    have hstep : varlenStep P perm maxLen (vecBuffer maxLen 2 data filler) data.length (reg, false) s
        = (reg, false) := by
      unfold varlenStep
      simp only [hr, hb, decide_false, Bool.false_xor, Bool.false_eq_true, if_false]
    rw [hstep]
    exact ih (s + 1) (by omega)

/-- One active chunk equals one absorption step of the sponge on the payload. -/
theorem varlen_active_step (reg : List F) (k : Nat) (u : Bool)
    (hk : 2 * k < data.length) (hu : u = decide (0 < k)) :
    varlenStep P perm maxLen (vecBuffer maxLen 2 data filler) data.length (reg, u)
        (maxLen / 2 - (data.length + 1) / 2 + k)
      = (perm (vec 3 (fun i =>
          if i < ((data.drop (2 * k)).take 2).length
          then reg.getD i 0 + ((data.drop (2 * k)).take 2).getD i 0 else reg.getD i 0)), true) := by
  set n := (data.length + 1) / 2 with hn
  set c := maxLen / 2 with hc
  set i := c - n + k with hi
  have hnc : n ≤ c := by omega
  have hkn : k < n := by omega
  unfold varlenStep
  simp only [hr, hw]
  -- the flag
  have hb : decide ((if data.length % 2 = 0 then data.length - data.length % 2
      else data.length - data.length % 2 + 2) = maxLen - i * 2) = decide (k = 0) := by
    congr 1
    apply propext
    constructor
    · intro h; split at h <;> omega
    · intro h; split <;> omega
  have hupd : xor (decide (k = 0)) u = true := by
    subst hu
    by_cases h0 : k = 0
    · simp [h0]
    · have : 0 < k := Nat.pos_of_ne_zero h0
      simp [h0, this]
  rw [hb, hupd]
  simp only [if_true]
  congr 1
  congr 1
  apply vec_congr
  intro j hj
  -- the chunk cells
  have hlen : ((data.drop (2 * k)).take 2).length = min 2 (data.length - 2 * k) := by simp
  have hcell : ∀ j, j < 2 →
      (if i + 1 = maxLen / 2 then
          vec 2 (fun j => if data.length % 2 ≠ 0 ∧ data.length % 2 ≤ j then (0 : F)
            else (vec 2 (fun j => (vecBuffer maxLen 2 data filler).getD (i * 2 + j) 0)).getD j 0)
        else vec 2 (fun j => (vecBuffer maxLen 2 data filler).getD (i * 2 + j) 0)).getD j 0
      = if 2 * k + j < data.length then data.getD (2 * k + j) 0 else 0 := by
    intro j hj2
    have hp : i * 2 + j < maxLen := by omega
    have hbuf := buffer_getD maxLen data filler (i * 2 + j) hp
    have hidx : i * 2 + j - (maxLen - data.length - data.length % 2) = 2 * k + j := by omega
    have hin : (maxLen - data.length - data.length % 2 ≤ i * 2 + j ∧ i * 2 + j < maxLen - data.length % 2)
        ↔ 2 * k + j < data.length := by
      constructor
      · intro h; omega
      · intro h; omega
    by_cases hlast : i + 1 = maxLen / 2
    · simp only [hlast, if_true]
      rw [getD_vec _ _ _ _ hj2, getD_vec _ _ _ _ hj2, hbuf, hidx]
      by_cases hz : data.length % 2 ≠ 0 ∧ data.length % 2 ≤ j
      · have : ¬ (2 * k + j < data.length) := by omega
        rw [if_pos hz, if_neg this]
      · rw [if_neg hz]
        by_cases hd : 2 * k + j < data.length
        · rw [if_pos (hin.mpr hd), if_pos hd]
        · -- not zeroed and out of the payload: impossible in the last chunk
          exfalso; omega
    · simp only [hlast, if_false]
      rw [getD_vec _ _ _ _ hj2, hbuf, hidx]
      have hd : 2 * k + j < data.length := by omega
      rw [if_pos (hin.mpr hd), if_pos hd]
  by_cases hj2 : j < 2
  · simp only [hj2, if_true]
    rw [hcell j hj2]
    by_cases hd : 2 * k + j < data.length
    · have : j < ((data.drop (2 * k)).take 2).length := by rw [hlen]; omega
      simp only [hd, this, if_true]
      congr 1
      simp [List.getD_eq_getElem?_getD, hj2, List.getElem?_drop]
    · have : ¬ j < ((data.drop (2 * k)).take 2).length := by rw [hlen]; omega
      simp only [hd, this, if_false, add_zero]
  · have : ¬ j < ((data.drop (2 * k)).take 2).length := by rw [hlen]; omega
    simp only [hj2, this, if_false]

/-- The active chunks absorb the payload chunk by chunk. -/
theorem varlen_active : ∀ (r k fuel : Nat) (reg : List F) (u : Bool),
    k + r = (data.length + 1) / 2 → r ≤ fuel → u = decide (0 < k) →
    ((List.range' (maxLen / 2 - (data.length + 1) / 2 + k) r).foldl
      (varlenStep P perm maxLen (vecBuffer maxLen 2 data filler) data.length) (reg, u)).1
      = absorbChunks 3 2 perm fuel reg (data.drop (2 * k)) := by
  intro r
  induction r with
  | zero =>
    intro k fuel reg u hk _ _
    have : data.drop (2 * k) = [] := List.drop_eq_nil_of_le (by omega)
    rw [this]
    cases fuel <;> simp [absorbChunks]
  | succ r ih =>
    intro k fuel reg u hk hf hu
    obtain ⟨fuel', rfl⟩ : ∃ f, fuel = f + 1 := ⟨fuel - 1, by omega⟩
    rw [foldl_range', varlen_active_step P perm maxLen data filler hr hw hM hl reg k u (by omega) hu]
    have hne : (data.drop (2 * k)).isEmpty = false := by
      have : (data.drop (2 * k)).length ≠ 0 := by simp; omega
      cases h : data.drop (2 * k) with
      | nil => simp [h] at this
      | cons _ _ => rfl
    unfold absorbChunks
    simp only [hne, Bool.false_eq_true, if_false]
    have hidx : maxLen / 2 - (data.length + 1) / 2 + k + 1 = maxLen / 2 - (data.length + 1) / 2 + (k + 1) := by
      omega
    rw [hidx, ih (k + 1) fuel' _ true (by omega) (by omega) (by simp)]
    have hd : (data.drop (2 * k)).drop 2 = data.drop (2 * (k + 1)) := by
      rw [List.drop_drop]; congr 1
    rw [hd]

/-- The loop of `poseidon_varlen` on the buffer of `data`. -/
theorem varlen_loop (reg : List F) :
    ((List.range (maxLen / 2)).foldl
      (varlenStep P perm maxLen (vecBuffer maxLen 2 data filler) data.length) (reg, false)).1
      = absorbChunks 3 2 perm (data.length + 1) reg data := by
  set n := (data.length + 1) / 2 with hn
  have hsplit : List.range (maxLen / 2) = List.range' 0 (maxLen / 2 - n) ++ List.range' (maxLen / 2 - n) n := by
    rw [List.range_eq_range']
    have : maxLen / 2 = (maxLen / 2 - n) + n := by omega
    conv_lhs => rw [this]
    rw [← List.range'_append_1]
    simp
  rw [hsplit, List.foldl_append,
    varlen_idle P perm maxLen data filler hr hw hM hl reg (maxLen / 2 - n) 0 (by omega)]
  have := varlen_active P perm maxLen data filler hr hw hM hl n 0 (data.length + 1) reg false
    (by omega) (by omega) (by simp)
  simpa using this

end

end MidnightZK.C07
