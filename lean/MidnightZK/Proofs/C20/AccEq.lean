import MidnightZK.Proofs.C20.Assemble
import MidnightZK.Proofs.C20.Grouping
import MidnightZK.Proofs.C20.GroupingWF
import MidnightZK.Model.C20.MultiOpenValue
import Mathlib.RingTheory.RootsOfUnity.PrimitiveRoots
/-!
# C20 — the accumulator of the gadget = `from_dual_msm` of the off-circuit `multi_prepare`,
along the whole of `multi_prepare` (grouping included).
-/
namespace MidnightZK.C20.V
open MidnightZK MidnightZK.C01

variable {F : Type} [Field F] [DecidableEq F]
set_option linter.unusedSectionVars false
set_option linter.unusedSimpArgs false

/-- The grouped queries with symbolic commitments (what both `multi_prepare`s iterate over). -/
def sgroups (pt : Int → F) (cm : List (C14.CommitmentData Com F)) (pointSets : List (List Int)) : List (SGroup F) :=
  pointSets.zipIdx.map fun ps =>
    (ps.1.map pt, (cm.filter fun d => d.setIndex = ps.2).map fun d => (d.com, d.evals))

theorem entriesOf_mem_tableOf (names : Names) (coms : List Com) (nP : ℕ) (c : Com) (hc : c ∈ coms)
    (e : TEntry) (he : e ∈ entriesOf names nP c) : e ∈ tableOf names coms nP := by
  unfold tableOf
  rw [List.mem_append]
  cases c <;> simp only [entriesOf, List.mem_singleton, List.mem_map, List.mem_range'_1] at he
  all_goals first
    | (left; subst he; exact List.mem_filterMap.2 ⟨_, hc, rfl⟩)
    | (right; obtain ⟨j, hj, rfl⟩ := he; exact List.mem_map.2 ⟨j, List.mem_range.2 (by omega), rfl⟩)

/-- `multi_prepare` only looks at the first `nsets` evaluations it is given. -/
theorem prepareGroups_take (go : List (List F × List (List (F × C14.Base) × List F))) (qE : List F)
    (x1 x2 x3 x4 : F) (h : go.length ≤ qE.length) :
    C14.prepareGroups (fun a => a⁻¹) go ⟨true, qE, true⟩ x1 x2 x3 x4 =
      C14.prepareGroups (fun a => a⁻¹) go ⟨true, qE.take go.length, true⟩ x1 x2 x3 x4 := by
  simp only [C14.prepareGroups, List.take_take, Nat.min_self, List.length_take, Nat.min_eq_left h,
    Nat.lt_irrefl, Nat.not_lt.2 h]

theorem prepareGroups_short (go : List (List F × List (List (F × C14.Base) × List F))) (qE : List F)
    (x1 x2 x3 x4 : F) (h : qE.length < go.length) :
    ∃ e, C14.prepareGroups (fun a => a⁻¹) go ⟨true, qE, true⟩ x1 x2 x3 x4 = .error e := by
  simp only [C14.prepareGroups]
  split
  · exact ⟨_, rfl⟩
  · simp only [Bool.not_true, Bool.false_eq_true, if_false, h, if_true]; exact ⟨_, rfl⟩

theorem gPrepareGroups_short (gi : List (List F × List (GMsm F × List F))) (qE : List F)
    (x1 x2 x3 x4 : F) (h : qE.length ≠ gi.length) :
    gPrepareGroups (fun a => a⁻¹) gi qE x1 x2 x3 x4 = none := by
  simp only [gPrepareGroups]
  split
  · rfl
  · simp only [ne_eq, h, not_false_eq_true, if_true]

theorem sgroups_in (names : Names) (hMsm : GMsm F) (pt : Int → F) (cm : List (C14.CommitmentData Com F))
    (ps : List (List Int)) :
    (ps.zipIdx.map fun p => (p.1.map pt, (cm.filter fun d => d.setIndex = p.2).map fun d => (comMsmOf names hMsm d.com, d.evals))) =
      inGroups names hMsm (sgroups pt cm ps) := by
  simp only [inGroups, sgroups, List.map_map, Function.comp_def]

theorem sgroups_off (names : Names) (tbl : List TEntry) (sf : F) (nP : ℕ) (pt : Int → F)
    (cm : List (C14.CommitmentData Com F)) (ps : List (List Int)) :
    (ps.zipIdx.map fun p => (p.1.map pt, (cm.filter fun d => d.setIndex = p.2).map fun d =>
        (offTerms names tbl sf nP d.com, d.evals))) =
      offGroups names tbl sf nP (sgroups pt cm ps) := by
  simp only [offGroups, sgroups, List.map_map, Function.comp_def]

theorem sgroups_length (pt : Int → F) (cm : List (C14.CommitmentData Com F)) (ps : List (List Int)) :
    (sgroups pt cm ps).length = ps.length := by simp [sgroups]

/-- What `groupingWF` gives for the grouped queries. -/
theorem sgroups_wf (pt : Int → F) (cm : List (C14.CommitmentData Com F)) (ps : List (List Int))
    (h : groupingWF cm ps = true) :
    (∀ g ∈ sgroups pt cm ps, g.1 ≠ []) ∧ (∃ g ∈ sgroups pt cm ps, g.2 ≠ []) := by
  simp only [groupingWF, Bool.and_eq_true, Bool.not_eq_true', List.all_eq_true, List.any_eq_true,
    decide_eq_true_eq, List.isEmpty_eq_false_iff] at h
  obtain ⟨⟨_, h2⟩, d, hd, hlt⟩ := h
  constructor
  · intro g hg
    simp only [sgroups, List.mem_map] at hg
    obtain ⟨p, hp, rfl⟩ := hg
    have := h2 p.1 (by
      have hm := List.mem_zipIdx hp
      have e : p.1 = ps[p.2 - 0]'(by simpa using hm.2.1) := hm.2.2
      rw [e]; exact List.getElem_mem _)
    simpa using this
  · refine ⟨(ps[d.setIndex].map pt, (cm.filter fun d' => d'.setIndex = d.setIndex).map fun d' => (d'.com, d'.evals)), ?_, ?_⟩
    · simp only [sgroups, List.mem_map]
      exact ⟨(ps[d.setIndex], d.setIndex), by simp [List.mem_zipIdx_iff_getElem?], rfl⟩
    · intro h0
      have : d ∈ cm.filter fun d' => d'.setIndex = d.setIndex := by simp [hd]
      simp only [List.map_eq_nil_iff] at h0
      rw [h0] at this; simp at this

/-- **In-circuit `multi_prepare` = off-circuit `from_dual_msm ∘ multi_prepare`, same grouping.** -/
theorem gMultiPrepare_acc_eq (names : Names) (sf : F) (n : ℕ) (pt : Int → F)
    (queries : List (C14.Query Com Int F)) (qE : List F) (x1 x2 x3 x4 : F)
    (hne : queries ≠ []) :
    match gMultiPrepare (fun a => a⁻¹) names (hCommitment sf (n + 1)) pt queries qE x1 x2 x3 x4,
          offMultiPrepare (fun a => a⁻¹) names sf (n + 1) pt queries qE x1 x2 x3 x4 with
    | some g, some acc => MsmEq g.acc.lhs acc.lhs ∧ MsmEq g.acc.rhs acc.rhs
    | none, none => True
    | _, _ => False := by
  unfold gMultiPrepare offMultiPrepare
  cases hc : C14.constructIntermediateSets (0 : F) queries with
  | none => trivial
  | some r =>
    obtain ⟨cm, ps⟩ := r
    simp only []
    rw [sgroups_in, sgroups_off]
    obtain ⟨hps, hall⟩ := C14.construct_wf (0 : F) queries hne cm ps hc
    have hgs : sgroups pt cm ps ≠ [] := by
      intro h0
      have := congrArg List.length h0
      rw [sgroups_length] at this
      exact hps (List.eq_nil_of_length_eq_zero (by simpa using this))
    have hpts : ∀ g ∈ sgroups pt cm ps, g.1 ≠ [] := by
      intro g hg
      simp only [sgroups, List.mem_map] at hg
      obtain ⟨p, hp, rfl⟩ := hg
      have hm := List.mem_zipIdx hp
      have e : p.1 = ps[p.2 - 0]'(by simpa using hm.2.1) := hm.2.2
      have := hall p.1 (by rw [e]; exact List.getElem_mem _)
      simpa using this
    have htbl : ∀ g ∈ sgroups pt cm ps, ∀ d ∈ g.2, ∀ e ∈ entriesOf names (n + 1) d.1,
        e ∈ tableOf names (cm.map (·.com)) (n + 1) := by
      intro g hg d hd e he
      simp only [sgroups, List.mem_map] at hg
      obtain ⟨p, _, rfl⟩ := hg
      simp only [List.mem_map, List.mem_filter] at hd
      obtain ⟨dd, ⟨hdd, _⟩, rfl⟩ := hd
      exact entriesOf_mem_tableOf names _ _ dd.com (List.mem_map_of_mem hdd) e he
    by_cases hlen : ps.length ≤ qE.length
    · rw [prepareGroups_take _ _ _ _ _ _ (by rw [offGroups_length, sgroups_length]; exact hlen),
        offGroups_length, sgroups_length]
      have := prepareGroups_acc_eq names (tableOf names (cm.map (·.com)) (n + 1)) sf n (sgroups pt cm ps)
        (qE.take ps.length) x1 x2 x3 x4 hgs hpts (by rw [sgroups_length, List.length_take, Nat.min_eq_left hlen]) htbl
      revert this
      cases gPrepareGroups (fun a => a⁻¹) (inGroups names (hCommitment sf (n + 1)) (sgroups pt cm ps)) (qE.take ps.length) x1 x2 x3 x4 <;>
        cases C14.prepareGroups (fun a => a⁻¹) (offGroups names (tableOf names (cm.map (·.com)) (n + 1)) sf (n + 1) (sgroups pt cm ps))
          ⟨true, qE.take ps.length, true⟩ x1 x2 x3 x4 <;> simp only [imp_self, false_imp_iff]
      rintro ⟨acc, hacc, h1, h2⟩
      rw [hacc]; exact ⟨h1, h2⟩
    · have hlt : qE.length < ps.length := Nat.lt_of_not_le hlen
      rw [gPrepareGroups_short _ _ _ _ _ _ (by rw [inGroups_length, sgroups_length, List.length_take]; omega)]
      obtain ⟨e, he⟩ := prepareGroups_short (offGroups names (tableOf names (cm.map (·.com)) (n + 1)) sf (n + 1) (sgroups pt cm ps))
        qE x1 x2 x3 x4 (by rw [offGroups_length, sgroups_length]; exact hlt)
      rw [he]; trivial

/-- **Grouping by value (off-circuit) = grouping by cell identity (in-circuit)** when different
rotations among the queries give different points: the off-circuit verifier as it is
(`offMultiPrepareV`, points are field elements) computes what the model grouped by rotation
computes. -/
theorem offMultiPrepareV_eq (inv : F → F) (names : Names) (sf : F) (nP : ℕ) (pt : Int → F)
    (queries : List (C14.Query Com Int F)) (qE : List F) (x1 x2 x3 x4 : F)
    (hinj : ∀ q ∈ queries, ∀ q' ∈ queries, pt q.point = pt q'.point → q.point = q'.point) :
    offMultiPrepareV inv names sf nP (queries.map (queryAt pt)) qE x1 x2 x3 x4 =
      offMultiPrepare inv names sf nP pt queries qE x1 x2 x3 x4 := by
  unfold offMultiPrepareV offMultiPrepare
  have hmap : queries.map (queryAt pt) = queries.map (C14.mapPt pt) := rfl
  rw [hmap, C14.construct_mapPt pt (fun r => ∃ q ∈ queries, q.point = r)
    (by
      rintro a b ⟨q, hq, rfl⟩ ⟨q', hq', rfl⟩ h
      exact hinj q hq q' hq' h) (0 : F) queries (fun q hq => ⟨q, hq, rfl⟩)]
  cases C14.constructIntermediateSets (0 : F) queries with
  | none => rfl
  | some r =>
    obtain ⟨cm, ps⟩ := r
    simp only [Option.map_some, List.zipIdx_map, List.map_map, Function.comp_def, Prod.map_fst, Prod.map_snd, id]
    rfl

/-- **Distinct rotations give distinct points**: with `ω` a primitive `N`-th root of unity and
`x ≠ 0`, `x·ω^r = x·ω^r'` forces `r = r'` as soon as `|r − r'| < N` (the rotations of a circuit are
far smaller than the domain size `N = 2^k`). -/
theorem rotation_points_distinct {K : Type} [Field K] (ω x : K) (N : ℕ) (hω : IsPrimitiveRoot ω N) (hx : x ≠ 0)
    (r r' : ℤ) (h : |r - r'| < (N : ℤ)) (he : x * ω ^ r = x * ω ^ r') : r = r' := by
  have hω0 : ω ≠ 0 := by
    intro h0
    have hN : N ≠ 0 := by
      intro hN; subst hN; simp at h; exact absurd h (not_lt.2 (abs_nonneg _))
    exact hω.ne_zero hN h0
  have h1 : ω ^ r = ω ^ r' := mul_left_cancel₀ hx he
  have h2 : ω ^ (r - r') = 1 := by
    rw [zpow_sub₀ hω0, h1, div_self (zpow_ne_zero _ hω0)]
  have h3 := (hω.zpow_eq_one_iff_dvd (r - r')).1 h2
  have := Int.eq_zero_of_abs_lt_dvd h3 h
  omega

end MidnightZK.C20.V
