import Mathlib.Tactic.Ring
import Mathlib.Tactic.Abel
import Mathlib.Tactic.Module
import Mathlib.Algebra.Module.Basic
import Mathlib.Algebra.Module.LinearMap.Defs
import Mathlib.Algebra.BigOperators.Group.List.Basic
import MidnightZK.Model.C20.Acc
import MidnightZK.Proofs.C20.Ipa
/-! Helper lemmas for the accumulator theorems of C20. -/
namespace MidnightZK.C20

section
variable {F G : Type} [CommRing F] [AddCommGroup G] [Module F G]

/-- Value of the fixed-base part of an MSM. -/
def fixedSum (fb : String → G) (l : List (String × F)) : G := (l.map (fun ks => ks.2 • fb ks.1)).sum

theorem fixedSum_insertWith (fb : String → G) (k : String) (v : F) (l : List (String × F)) :
    fixedSum fb (insertWith (· + ·) k v l) = fixedSum fb l + v • fb k := by
  induction l with
  | nil => simp [insertWith, fixedSum]
  | cons h t ih =>
    obtain ⟨k', v'⟩ := h
    unfold insertWith
    split
    · simp [fixedSum]; abel
    · split
      · next _ he => subst he; simp [fixedSum, add_smul]; abel
      · simp only [fixedSum, List.map_cons, List.sum_cons] at ih ⊢
        rw [ih]; abel

theorem fixedSum_foldl_insert (fb : String → G) (b a : List (String × F)) :
    fixedSum fb (b.foldl (fun acc ks => insertWith (· + ·) ks.1 ks.2 acc) a) = fixedSum fb a + fixedSum fb b := by
  induction b generalizing a with
  | nil => simp [fixedSum]
  | cons h t ih =>
    simp only [List.foldl_cons]
    rw [ih, fixedSum_insertWith]
    simp [fixedSum]; abel

theorem fixedSum_scale (fb : String → G) (r : F) (l : List (String × F)) :
    fixedSum fb (l.map (fun ks => (ks.1, ks.2 * r))) = r • fixedSum fb l := by
  induction l with
  | nil => simp [fixedSum]
  | cons h t ih =>
    simp only [fixedSum, List.map_cons, List.sum_cons, smul_add] at ih ⊢
    rw [ih, mul_comm, mul_smul]

theorem eval_eq (fb : String → G) (m : Msm F G) :
    m.eval fb = innerProduct m.scalars m.bases + fixedSum fb m.fixed := rfl

theorem eval_scale (fb : String → G) (r : F) (m : Msm F G) : (m.scale r).eval fb = r • m.eval fb := by
  simp only [eval_eq, Msm.scale, fixedSum_scale, innerProduct_map_mul_right, smul_add]

theorem eval_addMsm (fb : String → G) (a b : Msm F G) (ha : a.scalars.length = a.bases.length) :
    (a.addMsm b).eval fb = a.eval fb + b.eval fb := by
  simp only [eval_eq, Msm.addMsm, fixedSum_foldl_insert, innerProduct_append _ _ _ _ ha]
  abel

theorem eval_accumulateWithR (fb : String → G) (a b : Msm F G) (r : F)
    (ha : a.scalars.length = a.bases.length) :
    (a.accumulateWithR b r).eval fb = a.eval fb + r • b.eval fb := by
  rw [Msm.accumulateWithR, eval_addMsm fb _ _ ha, eval_scale]

omit [AddCommGroup G] [Module F G] in
/-- The off-circuit and the in-circuit accumulation step are the same function of the data. -/
theorem accumulateWithROff_eq (a b : Msm F G) (r : F) : a.accumulateWithROff b r = a.accumulateWithR b r := by
  simp only [Msm.accumulateWithROff, Msm.accumulateWithR, Msm.addMsm, Msm.scale, List.foldl_map]
  congr 1
  congr 1
  funext acc ks
  rw [mul_comm]

omit [AddCommGroup G] [Module F G] in
theorem accumulateLoop_eq (l : List (Acc F G × F)) : ∀ acc : Acc F G, accumulateLoop acc l = accumulateLoopIn acc l := by
  induction l with
  | nil => intro acc; rfl
  | cons o t ih =>
    intro acc
    obtain ⟨o, ri⟩ := o
    simp only [accumulateLoop, accumulateLoopIn, accumulateWithROff_eq, ih]

theorem eval_collapse (fb : String → G) (m : Msm F G) : m.collapse.eval fb = m.eval fb := by
  simp [eval_eq, Msm.collapse, innerProduct_cons, innerProduct_nil_left]

/-- Shapes `Msm::new` guarantees (`assert_eq!(bases.len(), scalars.len())`). -/
def Msm.WF (m : Msm F G) : Prop := m.scalars.length = m.bases.length

omit [AddCommGroup G] [Module F G] in
theorem wf_accumulateWithR (a b : Msm F G) (r : F) (ha : a.WF) (hb : b.WF) : (a.accumulateWithR b r).WF := by
  simp only [Msm.WF, Msm.accumulateWithR, Msm.addMsm, Msm.scale, List.length_append, List.length_map] at *
  omega

/-- The accumulation loop is linear: both sides are the running value plus `Σ rᵢ • valueᵢ`. -/
theorem accumulateLoop_eval (fb : String → G) : ∀ (l : List (Acc F G × F)) (acc : Acc F G),
    acc.lhs.WF → acc.rhs.WF → (∀ o ∈ l, o.1.lhs.WF ∧ o.1.rhs.WF) →
    (accumulateLoop acc l).lhs.eval fb = acc.lhs.eval fb + (l.map (fun o => o.2 • o.1.lhs.eval fb)).sum ∧
    (accumulateLoop acc l).rhs.eval fb = acc.rhs.eval fb + (l.map (fun o => o.2 • o.1.rhs.eval fb)).sum
  | [], acc, _, _, _ => by simp [accumulateLoop]
  | (o, ri) :: t, acc, h1, h2, hl => by
    have ho := hl (o, ri) (by simp)
    have := accumulateLoop_eval fb t
      { lhs := acc.lhs.accumulateWithR o.lhs ri, rhs := acc.rhs.accumulateWithR o.rhs ri }
      (wf_accumulateWithR _ _ _ h1 ho.1) (wf_accumulateWithR _ _ _ h2 ho.2)
      (fun o' ho' => hl o' (by simp [ho']))
    simp only [accumulateLoop, accumulateWithROff_eq, List.map_cons, List.sum_cons]
    rw [this.1, this.2, eval_accumulateWithR fb _ _ _ h1, eval_accumulateWithR fb _ _ _ h2]
    constructor <;> abel

/-- `flatMap` of a constant-length injective encoding is injective on lists of equal length. -/
theorem flatMap_enc_inj {α β : Type} (enc : α → List β) (n : Nat) (hn : ∀ a, (enc a).length = n)
    (hinj : ∀ a b, enc a = enc b → a = b) :
    ∀ (l l' : List α) (s s' : List β), l.length = l'.length → l.flatMap enc ++ s = l'.flatMap enc ++ s' →
      l = l' ∧ s = s'
  | [], [], _, _, _, h => by simpa using h
  | [], _ :: _, _, _, h, _ => by simp at h
  | _ :: _, [], _, _, h, _ => by simp at h
  | a :: l, b :: l', s, s', hl, h => by
    simp only [List.flatMap_cons, List.append_assoc] at h
    have h' := List.append_inj h (by rw [hn, hn])
    have hab := hinj a b h'.1
    have := flatMap_enc_inj enc n hn hinj l l' s s' (by simpa using hl) h'.2
    exact ⟨by rw [hab, this.1], this.2⟩

end
end MidnightZK.C20
