import Mathlib.Tactic.Ring
import Mathlib.Data.List.Basic
import MidnightZK.Model.C20.Ipa
/-! Positions of the labelled transcript operations of the inner-product argument (C20). -/
namespace MidnightZK.C20

theorem flatMap3_length {α : Type} (f g h : Nat → α) (k : Nat) :
    ((List.range k).flatMap (fun j => [f j, g j, h j])).length = 3 * k := by
  induction k with
  | zero => rfl
  | succ k ih => rw [List.range_succ, List.flatMap_append, List.length_append, ih]; simp; omega

theorem flatMap3_getElem? {α : Type} (f g h : Nat → α) (k j : Nat) (hj : j < k) :
    ((List.range k).flatMap (fun j => [f j, g j, h j]))[3 * j]? = some (f j) ∧
    ((List.range k).flatMap (fun j => [f j, g j, h j]))[3 * j + 1]? = some (g j) ∧
    ((List.range k).flatMap (fun j => [f j, g j, h j]))[3 * j + 2]? = some (h j) := by
  induction k with
  | zero => omega
  | succ k ih =>
    rw [List.range_succ, List.flatMap_append]
    have hl := flatMap3_length f g h k
    by_cases hjk : j < k
    · obtain ⟨a, b, c⟩ := ih hjk
      refine ⟨?_, ?_, ?_⟩
      · rw [List.getElem?_append_left (by rw [hl]; omega)]; exact a
      · rw [List.getElem?_append_left (by rw [hl]; omega)]; exact b
      · rw [List.getElem?_append_left (by rw [hl]; omega)]; exact c
    · have : j = k := by omega
      subst this
      refine ⟨?_, ?_, ?_⟩
      · rw [List.getElem?_append_right (by rw [hl]), hl]; simp
      · rw [List.getElem?_append_right (by rw [hl]; omega), hl]
        have : 3 * j + 1 - 3 * j = 1 := by omega
        rw [this]; simp
      · rw [List.getElem?_append_right (by rw [hl]; omega), hl]
        have : 3 * j + 2 - 3 * j = 2 := by omega
        rw [this]; simp

theorem labelledSchedule_length (len : Nat) :
    (labelledSchedule len).length = 2 * len + 4 + 3 * rounds len := by
  simp [labelledSchedule]; omega

/-- The schedule split at the first challenge. -/
theorem labelledSchedule_split (len : Nat) :
    labelledSchedule len =
      ((List.range len).map IpaLab.base1 ++ (List.range len).map IpaLab.base2 ++ [IpaLab.res1, IpaLab.res2]) ++
        (IpaLab.chalR :: ((List.range (rounds len)).flatMap (fun j => [IpaLab.L j, IpaLab.R j, IpaLab.chalU j]) ++ [IpaLab.finalS])) := by
  simp [labelledSchedule]

theorem commons_length (len : Nat) :
    ((List.range len).map IpaLab.base1 ++ (List.range len).map IpaLab.base2 ++ [IpaLab.res1, IpaLab.res2]).length = 2 * len + 2 := by
  simp; omega

theorem commons_kind (len : Nat) :
    ∀ e ∈ ((List.range len).map IpaLab.base1 ++ (List.range len).map IpaLab.base2 ++ [IpaLab.res1, IpaLab.res2]),
      e.kind = .cG := by
  intro e he
  simp only [List.mem_append, List.mem_map, List.mem_range, List.mem_cons, List.not_mem_nil, or_false] at he
  rcases he with (⟨i, _, rfl⟩ | ⟨i, _, rfl⟩) | rfl | rfl <;> rfl

theorem tail_kind (len : Nat) :
    ∀ e ∈ (IpaLab.chalR :: ((List.range (rounds len)).flatMap (fun j => [IpaLab.L j, IpaLab.R j, IpaLab.chalU j]) ++ [IpaLab.finalS])),
      e.kind ≠ .cG := by
  intro e he
  simp only [List.mem_cons, List.mem_append, List.mem_flatMap, List.mem_range, List.not_mem_nil, or_false] at he
  rcases he with rfl | ⟨j, _, rfl | rfl | rfl⟩ | rfl <;> simp [IpaLab.kind]

end MidnightZK.C20
