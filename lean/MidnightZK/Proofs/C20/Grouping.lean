import Mathlib.Tactic.Common
import MidnightZK.Model.C14.Sets
/-!
# C20 — grouping queries by the IDENTITY of their point (in-circuit: assigned cells, here
rotations) or by its VALUE (off-circuit: field elements) gives the same sets, as soon as
different identities have different values.
-/
namespace MidnightZK.C14

section
variable {C P P' E : Type} [DecidableEq C] [DecidableEq P] [DecidableEq P']

/-- A query with its point replaced by the point's value. -/
def mapPt (f : P → P') (q : Query C P E) : Query C P' E := ⟨q.com, f q.point, q.eval⟩

variable (f : P → P') (inS : P → Prop) (hinj : ∀ a b, inS a → inS b → f a = f b → a = b)
include hinj

theorem mem_map_inj (l : List P) (hl : ∀ a ∈ l, inS a) (p : P) (hp : inS p) : f p ∈ l.map f ↔ p ∈ l := by
  constructor
  · intro h
    obtain ⟨a, ha, hfa⟩ := List.mem_map.1 h
    rw [← hinj a p (hl a ha) hp hfa]; exact ha
  · exact List.mem_map_of_mem

theorem idxOf_map_inj : ∀ (l : List P), (∀ a ∈ l, inS a) → ∀ (p : P), inS p → (l.map f).idxOf (f p) = l.idxOf p
  | [], _, _, _ => rfl
  | a :: l, hl, p, hp => by
    simp only [List.map_cons, List.idxOf_cons]
    by_cases h : a = p
    · subst h; simp only [beq_self_eq_true, cond_true]
    · have : f a ≠ f p := fun e => h (hinj a p (hl a (by simp)) hp e)
      have h1 : (a == p) = false := by simpa using h
      have h2 : (f a == f p) = false := by simpa using this
      rw [h1, h2, cond_false, cond_false, idxOf_map_inj l (fun b hb => hl b (by simp [hb])) p hp]

theorem insertNew_map (l : List P) (hl : ∀ a ∈ l, inS a) (p : P) (hp : inS p) :
    insertNew (l.map f) (f p) = (insertNew l p).map f := by
  unfold insertNew
  by_cases h : p ∈ l
  · rw [if_pos h, if_pos ((mem_map_inj f inS hinj l hl p hp).2 h)]
  · rw [if_neg h, if_neg (fun h' => h ((mem_map_inj f inS hinj l hl p hp).1 h'))]; simp

omit hinj in
theorem insertNew_inS (l : List P) (hl : ∀ a ∈ l, inS a) (p : P) (hp : inS p) : ∀ a ∈ insertNew l p, inS a := by
  intro a ha
  unfold insertNew at ha
  split at ha
  · exact hl a ha
  · rcases List.mem_append.1 ha with h | h
    · exact hl a h
    · simp at h; rw [h]; exact hp

theorem phase1_mapPt : ∀ (qs : List (Query C P E)) (pts : List P) (cm : List (C × List Nat)),
    (∀ a ∈ pts, inS a) → (∀ q ∈ qs, inS q.point) →
    phase1 (qs.map (mapPt f)) (pts.map f) cm = (phase1 qs pts cm).map (fun r => (r.1.map f, r.2))
  | [], pts, cm, _, _ => rfl
  | q :: qs, pts, cm, hp, hq => by
    have hq0 := hq q (by simp)
    simp only [List.map_cons, phase1, mapPt]
    rw [insertNew_map f inS hinj pts hp q.point hq0,
      idxOf_map_inj f inS hinj _ (insertNew_inS inS pts hp q.point hq0) q.point hq0]
    cases addPoint cm q.com ((insertNew pts q.point).idxOf q.point) with
    | none => rfl
    | some cm' =>
      exact phase1_mapPt qs _ cm' (insertNew_inS inS pts hp q.point hq0) (fun q' h' => hq q' (by simp [h']))

omit hinj in
theorem phase1_inS : ∀ (qs : List (Query C P E)) (pts : List P) (cm : List (C × List Nat)) (r : List P × List (C × List Nat)),
    (∀ a ∈ pts, inS a) → (∀ q ∈ qs, inS q.point) → phase1 qs pts cm = some r → ∀ a ∈ r.1, inS a
  | [], pts, cm, r, hp, _, h => by
    simp only [phase1, Option.some.injEq] at h; subst h; exact hp
  | q :: qs, pts, cm, r, hp, hq, h => by
    have hq0 := hq q (by simp)
    simp only [phase1] at h
    cases ha : addPoint cm q.com ((insertNew pts q.point).idxOf q.point) with
    | none => rw [ha] at h; simp at h
    | some cm' =>
      rw [ha] at h
      exact phase1_inS qs _ cm' r (insertNew_inS inS pts hp q.point hq0) (fun q' h' => hq q' (by simp [h'])) h

theorem placeEval_mapPt (pts : List P) (hp : ∀ a ∈ pts, inS a) (cm : List (C × List Nat)) (sets : List (List Nat))
    (st : List (CommitmentData C E)) (q : Query C P E) (hq : inS q.point) :
    placeEval (pts.map f) cm sets st (mapPt f q) = placeEval pts cm sets st q := by
  simp only [placeEval, mapPt, idxOf_map_inj f inS hinj pts hp q.point hq]
  rfl

theorem foldl_placeEval_mapPt (pts : List P) (hp : ∀ a ∈ pts, inS a) (cm : List (C × List Nat)) (sets : List (List Nat)) :
    ∀ (qs : List (Query C P E)) (st : List (CommitmentData C E)), (∀ q ∈ qs, inS q.point) →
    (qs.map (mapPt f)).foldl (placeEval (pts.map f) cm sets) st = qs.foldl (placeEval pts cm sets) st
  | [], _, _ => rfl
  | q :: qs, st, hq => by
    simp only [List.map_cons, List.foldl_cons]
    rw [placeEval_mapPt f inS hinj pts hp cm sets st q (hq q (by simp))]
    exact foldl_placeEval_mapPt pts hp cm sets qs _ (fun q' h' => hq q' (by simp [h']))

/-- **Grouping by value = grouping by identity** when the value map is injective on the points
that occur: same commitment data (set indices, point indices, evaluations in set order), and the
point sets of the one are the values of the point sets of the other; an `Err(DuplicatedQuery)` /
`Err(Synthesis("repeated query"))` on one side is one on the other. -/
theorem construct_mapPt (dflt : E) (qs : List (Query C P E)) (hq : ∀ q ∈ qs, inS q.point) :
    constructIntermediateSets dflt (qs.map (mapPt f)) =
      (constructIntermediateSets dflt qs).map (fun r => (r.1, r.2.map (·.map f))) := by
  unfold constructIntermediateSets
  have h1 := phase1_mapPt f inS hinj qs [] [] (by simp) hq
  simp only [List.map_nil] at h1
  rw [h1]
  cases hph : phase1 qs ([] : List P) ([] : List (C × List Nat)) with
  | none => rfl
  | some r =>
    obtain ⟨pts, cm⟩ := r
    have hpts := phase1_inS inS qs [] [] (pts, cm) (by simp) hq hph
    simp only [Option.map_some]
    rw [foldl_placeEval_mapPt f inS hinj pts hpts cm _ qs _ hq]
    congr 2
    simp only [List.map_map]
    apply List.map_congr_left
    intro s _
    simp only [Function.comp, List.map_filterMap, List.getElem?_map]

end
end MidnightZK.C14
