import Mathlib.Algebra.Polynomial.Basic
import Mathlib.Algebra.Polynomial.Coeff
import Mathlib.Algebra.BigOperators.Group.List.Basic
import Mathlib.Tactic.Ring
import MidnightZK.Proofs.C20.Ipa
/-! The folding coefficients of the inner-product argument as a polynomial (helper lemmas of
`ipa_scalars_formula`). -/
namespace MidnightZK.C20
open Polynomial
variable {F : Type} [CommRing F]

/-- The polynomial whose coefficient list is `l`. -/
noncomputable def listPoly : List F → F[X]
  | [] => 0
  | a :: l => C a + X * listPoly l

theorem listPoly_append (l l' : List F) : listPoly (l ++ l') = listPoly l + X ^ l.length * listPoly l' := by
  induction l with
  | nil => simp [listPoly]
  | cons a l ih => simp [listPoly, ih, pow_succ]; ring

theorem listPoly_map_mul (c : F) (l : List F) : listPoly (l.map (· * c)) = C c * listPoly l := by
  induction l with
  | nil => simp [listPoly]
  | cons a l ih => simp [listPoly, ih]; ring

theorem listPoly_coeff (l : List F) (i : Nat) : (listPoly l).coeff i = l.getD i 0 := by
  induction l generalizing i with
  | nil => simp [listPoly]
  | cons a l ih =>
    cases i with
    | zero => simp [listPoly]
    | succ i => simp [listPoly, ih, coeff_C_succ]

/-- `∏ (uⱼ⁻¹ + uⱼ·X^(2^e))`, the first challenge carrying the highest exponent. -/
noncomputable def coeffPoly : List (F × F) → F[X]
  | [] => 1
  | u :: us => (C u.2 + C u.1 * X ^ (2 ^ us.length)) * coeffPoly us

theorem listPoly_coeffs (us : List (F × F)) : listPoly (coeffs us) = coeffPoly us := by
  induction us with
  | nil => simp [coeffs, coeffPoly, listPoly]
  | cons u us ih =>
    simp only [coeffs, coeffPoly, listPoly_append, listPoly_map_mul, ih, List.length_map, coeffs_length]
    ring

theorem coeffPoly_eq_prod (us : List (F × F)) :
    coeffPoly us = ((us.reverse.zipIdx).map (fun uj => C uj.1.2 + C uj.1.1 * X ^ (2 ^ uj.2))).prod := by
  induction us with
  | nil => simp [coeffPoly]
  | cons u us ih =>
    rw [coeffPoly, ih, List.reverse_cons, List.zipIdx_append, List.map_append, List.prod_append]
    simp only [List.zipIdx_singleton, List.map_cons, List.map_nil, List.prod_cons, List.prod_nil,
      List.length_reverse, Nat.zero_add, mul_one]
    rw [mul_comm]

/-- The folding coefficient of index `i`: the first challenge decides on the top bit. -/
def coeffAt : List (F × F) → Nat → F
  | [], _ => 1
  | u :: us, i => if i < 2 ^ us.length then u.2 * coeffAt us i else u.1 * coeffAt us (i - 2 ^ us.length)

theorem coeffs_getD (us : List (F × F)) : ∀ i, i < 2 ^ us.length → (coeffs us).getD i 0 = coeffAt us i := by
  induction us with
  | nil => intro i hi; simp at hi; subst hi; simp [coeffs, coeffAt]
  | cons u us ih =>
    intro i hi
    simp only [List.length_cons, pow_succ] at hi
    simp only [coeffs, coeffAt]
    have hl : (coeffs us).length = 2 ^ us.length := coeffs_length us
    simp only [List.getD_eq_getElem?_getD] at ih ⊢
    split
    · next h =>
      rw [List.getElem?_append_left (by simpa [hl] using h), List.getElem?_map, ← ih i h]
      have : i < (coeffs us).length := by rw [hl]; exact h
      simp [List.getElem?_eq_getElem this, mul_comm]
    · next h =>
      have h' : (List.map (fun x => x * u.2) (coeffs us)).length ≤ i := by simpa [hl] using h
      rw [List.getElem?_append_right h']
      simp only [List.length_map, hl]
      have hlt : i - 2 ^ us.length < 2 ^ us.length := by omega
      rw [List.getElem?_map, ← ih _ hlt]
      have : i - 2 ^ us.length < (coeffs us).length := by rw [hl]; exact hlt
      simp [List.getElem?_eq_getElem this, mul_comm]

end MidnightZK.C20
